(* Proofs/ConvGenTieC19.v — num_traits::ToPrimitive for bnum integers: src/buint/numtraits.rs to_int! (to_u8 .. to_isize for
   $BUint<N>), src/bint/numtraits.rs to_int! (to_i8 .. to_isize for $BInt<N>) and to_uint! (to_u8 .. to_usize for $BInt<N>) - the
   text of try_from_buint! / int_try_from_bint! / uint_try_from_bint! with None for Err.  The functions GENERATED from /repo/src
   on every run (Generated/ConvGen.v, by tools/rs2v_conv.py; pb = <$int>::BITS, ps = signedness) equal the hand-written model
   Model/NumConv.v U_to_int / I_to_int / I_to_uint, for BOTH values of the model's overflow-check flag. *)
From Bnum Require Import Base Prim.
From Bnum.Model Require Import DigitPrims LoopPrims Core Imp ImpConv.
From Bnum.Model Require Cast Convert NumConv.
From Bnum.Generated Require Import DigitGen ConvGen.
From Bnum.Proofs Require Import ImpLemmas ImpLemmas2 ConvGenTieBase.

(* after `out` and `i` are set: `if out < 0 { return None } while i < N { .. } Some(out)` *)
Lemma to_tail_tie pb ps ds out i fuel : (length ds <= fuel)%nat ->
  (if (p_is_neg pb ps out) then (
     Done None
   ) else (
     t4' <- while_loop (R := (option Z)) fuel
       (fun i => (i <? Z.of_nat (length ds)))
       (fun i =>
         t3' <- arr_get ds i ;;
         if (negb (t3' =? 0)) then (
           Done (Return None)
         ) else (
           let i := (i + 1) in
           Done (Continue i)
         ))
       (Z.of_nat i) ;;
     match t4' with
     | Exited i =>
         Done (Some (Cast.p_of_bits pb ps out))
     | Returned t5' => Done t5'
     end
   )) = of_out (NumConv.U_to_tail pb ps ds out i).
Proof.
  intros Hf. unfold NumConv.U_to_tail, p_is_neg. destruct (ps && (sd pb out <? 0)); [reflexivity|].
  rewrite of_out_obind. etransitivity; [apply (pad_loop_tie _ _ ds _ (length ds)); lia|].
  apply bind_ext. intros [|]; reflexivity.
Qed.

Lemma conv_U_to_int dbg w lg n pb ps ds : 0 <= lg -> w = 2 ^ lg -> length ds = n ->
  forall fuel, (S n <= fuel)%nat ->
  ConvGen.U_to_int w (Z.of_nat n) fuel pb ps ds =
  match NumConv.U_to_int dbg pb ps w ds with Ret r => Done r | Panic => Panicked end.
Proof.
  intros Hlg Hw Hn fuel Hf. subst n. unfold ConvGen.U_to_int, NumConv.U_to_int.
  rewrite p_lit_0. cbv zeta. rewrite Z.gtb_ltb. destruct (pb <? w).
  - change (arr_get ds 0) with (arr_get ds (Z.of_nat 0)). rewrite <- rd_as_arr_get.
    destruct (Cast.rd ds 0) as [d0|]; [|reflexivity]. cbn [of_out bind obind].
    destruct (negb (d0 =? ud w (Cast.p_of_bits pb ps (ud pb d0)))); [reflexivity|].
    change 1 with (Z.of_nat 1). apply to_tail_tie. lia.
  - change (match ?o with Ret r => Done r | Panic => Panicked end) with (of_out o).
    rewrite of_out_obind.
    etransitivity.
    + eapply (try_loop_tie (R := option Z) dbg w lg pb (fun d => d) u_or ds _ _ Hlg Hw (length ds) fuel 0%nat 0); lia.
    + apply bind_ext. intros [out i]. cbn [fst snd]. apply to_tail_tie. lia.
Qed.

(* ---- bint to_int!: `ToPrimitive::to_i8 .. to_isize for $BInt<N>`, $int = i8 .. i128, isize (the instantiation list is checked: signed
   types only, so ps = true) ---- *)

(* after `out` and `i` are set: `while i < N { if digits[i] != padding { return None } .. } if out.is_negative() != neg { return None } Some(out)` *)
Lemma i_to_tail_tie pb ds neg padding out i fuel : (length ds <= fuel)%nat ->
  (t4' <- while_loop (R := (option Z)) fuel
     (fun i => (i <? Z.of_nat (length ds)))
     (fun i =>
       t3' <- arr_get ds i ;;
       if (negb (t3' =? padding)) then (
         Done (Return None)
       ) else (
         let i := (i + 1) in
         Done (Continue i)
       ))
     (Z.of_nat i) ;;
   match t4' with
   | Exited i =>
       if (xorb (p_is_neg pb true out) neg) then (
         Done None
       ) else (
         Done (Some (Cast.p_of_bits pb true out))
       )
   | Returned t5' => Done t5'
   end) = of_out (NumConv.I_to_tail pb ds neg padding out i).
Proof.
  intros Hf. unfold NumConv.I_to_tail. rewrite of_out_obind. etransitivity; [apply (pad_loop_tie _ _ ds _ (length ds)); lia|].
  apply bind_ext. intros [|]; cbn [negb]; [|reflexivity].
  unfold p_is_neg. cbn [andb]. rewrite xorb_negb_eqb. destruct (negb _); reflexivity.
Qed.

Lemma conv_I_to_int dbg w lg n pb ds : 0 <= lg -> w = 2 ^ lg -> 0 < pb -> length ds = n ->
  forall fuel, (S n <= fuel)%nat ->
  ConvGen.I_to_int w (Z.of_nat n) fuel pb true ds =
  match NumConv.I_to_int dbg pb w ds with Ret r => Done r | Panic => Panicked end.
Proof.
  intros Hlg Hw Hpb Hn fuel Hf. subst n. unfold ConvGen.I_to_int, NumConv.I_to_int.
  change (match ?o with Ret r => Done r | Panic => Panicked end) with (of_out o).
  rewrite p_lit_0, p_lit_m1 by lia. rewrite Z.gtb_ltb.
  destruct (is_negative w ds); cbv beta iota zeta; destruct (pb <? w).
  - change (arr_get ds 0) with (arr_get ds (Z.of_nat 0)). rewrite of_out_obind, <- rd_as_arr_get.
    destruct (Cast.rd ds 0) as [d0|]; [|reflexivity]. cbn [of_out bind].
    destruct (negb (d0 =? ud w (Cast.p_of_bits pb true (ud pb d0)))); [reflexivity|].
    change 1 with (Z.of_nat 1). apply i_to_tail_tie. lia.
  - rewrite of_out_obind. etransitivity.
    + eapply (try_loop_tie (R := option Z) dbg w lg pb (u_not w) (fun out t => u_and out (u_not pb t)) ds _ _ Hlg Hw
                (length ds) fuel 0%nat (u_not pb 0)); lia.
    + apply bind_ext. intros [out i]. cbn [fst snd]. apply i_to_tail_tie. lia.
  - change (arr_get ds 0) with (arr_get ds (Z.of_nat 0)). rewrite of_out_obind, <- rd_as_arr_get.
    destruct (Cast.rd ds 0) as [d0|]; [|reflexivity]. cbn [of_out bind].
    destruct (negb (d0 =? ud w (Cast.p_of_bits pb true (ud pb d0)))); [reflexivity|].
    change 1 with (Z.of_nat 1). apply i_to_tail_tie. lia.
  - rewrite of_out_obind. etransitivity.
    + eapply (try_loop_tie (R := option Z) dbg w lg pb (fun d => d) u_or ds _ _ Hlg Hw (length ds) fuel 0%nat 0); lia.
    + apply bind_ext. intros [out i]. cbn [fst snd]. apply i_to_tail_tie. lia.
Qed.

(* ---- bint to_uint!: `ToPrimitive::to_u8 .. to_usize for $BInt<N>`, $uint = u8 .. u128, usize (checked: unsigned types only, ps = false):
   a negative source gives None, otherwise the buint method on the same digits ---- *)
Lemma conv_I_to_uint dbg w lg n pb ds : 0 <= lg -> w = 2 ^ lg -> length ds = n ->
  forall fuel, (S n <= fuel)%nat ->
  ConvGen.I_to_uint w (Z.of_nat n) fuel pb false ds =
  match NumConv.I_to_uint dbg pb w ds with Ret r => Done r | Panic => Panicked end.
Proof.
  intros Hlg Hw Hn fuel Hf. unfold ConvGen.I_to_uint, NumConv.I_to_uint.
  destruct (is_negative w ds); [reflexivity|].
  rewrite bind_done_r. apply (conv_U_to_int dbg w lg); assumption.
Qed.

(* ---- all obligations of the group in one statement ---- *)
Theorem conv_C19_match_model dbg w lg : 0 <= lg -> w = 2 ^ lg ->
  forall n pb ds fuel, 0 < pb -> length ds = n -> (S n <= fuel)%nat ->
  (forall ps, ConvGen.U_to_int w (Z.of_nat n) fuel pb ps ds =
     match NumConv.U_to_int dbg pb ps w ds with Ret r => Done r | Panic => Panicked end) /\
  ConvGen.I_to_int w (Z.of_nat n) fuel pb true ds =
    match NumConv.I_to_int dbg pb w ds with Ret r => Done r | Panic => Panicked end /\
  ConvGen.I_to_uint w (Z.of_nat n) fuel pb false ds =
    match NumConv.I_to_uint dbg pb w ds with Ret r => Done r | Panic => Panicked end.
Proof.
  intros Hlg Hw n pb ds fuel Hpb Hn Hf. split; [|split].
  - intros ps. apply (conv_U_to_int dbg w lg); assumption.
  - apply (conv_I_to_int dbg w lg); assumption.
  - apply (conv_I_to_uint dbg w lg); assumption.
Qed.

(* ---- FromPrimitive.  buint from_u64 / from_u128 (pb = 64 / 128), bint from_uint! (from_u8 .. from_usize) and from_int!
   (from_i8 .. from_isize): the loop NumConv.from_loop (fill = 0, resp. the sign-extension digit), the parameter handled as its value ---- *)
Lemma conv_U_from_uN dbg w lg n pb int : 0 <= lg -> w = 2 ^ lg -> 0 < pb ->
  forall fuel, (Z.to_nat pb <= fuel)%nat ->
  bind (while_loop (R := (option (list Z))) fuel
          (fun '(out, i) => ((ix_shl i (digit_BIT_SHIFT w)) <? pb))
          (fun '(out, i) =>
             t1' <- pshr pb int (ix_shl i (digit_BIT_SHIFT w)) ;;
             let d := (ud w t1') in
             if (negb (d =? 0)) then (
               if (i <? Z.of_nat n) then (
                 out <- arr_set out i d ;;
                 let i := (i + 1) in
                 Done (Continue (out, i))
               ) else (
                 Done (Return None)
               )
             ) else (
               let i := (i + 1) in
               Done (Continue (out, i))
             ))
          (ZERO n, 0))
       (fun t2' => match t2' with Exited (out, i) => Done (Some out) | Returned t3' => Done t3' end)
  = of_out (NumConv.U_from_uN dbg pb w n int).
Proof.
  intros Hlg Hw Hpb fuel Hf. assert (Hw0 : 0 < w) by (subst w; apply Z.pow_pos_nonneg; lia).
  unfold NumConv.U_from_uN, NumConv.from_loop.
  etransitivity.
  - apply (from_loop_tie dbg w lg pb n int 0 (fun out => Done (Some out)) Hlg Hw (Z.to_nat pb) fuel 0%nat (ZERO n)); [|exact Hf].
    cbn [Nat.add]. nia.
  - destruct (NumConv.while_ret _ _ _ _ _) as [[out|]|]; reflexivity.
Qed.

Lemma conv_U_from_u64 dbg w lg n int : 0 <= lg -> w = 2 ^ lg ->
  forall fuel, (64 <= fuel)%nat ->
  ConvGen.U_from_u64 w (Z.of_nat n) fuel int =
  match NumConv.U_from_uN dbg 64 w n int with Ret r => Done r | Panic => Panicked end.
Proof.
  intros Hlg Hw fuel Hf. unfold ConvGen.U_from_u64. rewrite Nat2Z.id. cbv zeta.
  apply (conv_U_from_uN dbg w lg n 64 int Hlg Hw); [lia|]. change (Z.to_nat 64) with 64%nat. exact Hf.
Qed.

Lemma conv_U_from_u128 dbg w lg n int : 0 <= lg -> w = 2 ^ lg ->
  forall fuel, (128 <= fuel)%nat ->
  ConvGen.U_from_u128 w (Z.of_nat n) fuel int =
  match NumConv.U_from_uN dbg 128 w n int with Ret r => Done r | Panic => Panicked end.
Proof.
  intros Hlg Hw fuel Hf. unfold ConvGen.U_from_u128. rewrite Nat2Z.id. cbv zeta.
  apply (conv_U_from_uN dbg w lg n 128 int Hlg Hw); [lia|]. change (Z.to_nat 128) with 128%nat. exact Hf.
Qed.

Lemma conv_I_from_uint dbg w lg n pb int : 0 <= lg -> w = 2 ^ lg -> 0 < pb ->
  forall fuel, (Z.to_nat pb <= fuel)%nat ->
  ConvGen.I_from_uint w (Z.of_nat n) fuel pb int =
  match NumConv.I_from_uN dbg pb w n int with Ret r => Done r | Panic => Panicked end.
Proof.
  intros Hlg Hw Hpb fuel Hf. assert (Hw0 : 0 < w) by (subst w; apply Z.pow_pos_nonneg; lia).
  unfold ConvGen.I_from_uint, NumConv.I_from_uN, NumConv.obind_opt, NumConv.from_loop, Cast.from_bits.
  rewrite Nat2Z.id. cbv zeta.
  etransitivity.
  - apply (from_loop_tie dbg w lg pb n int 0
             (fun out => if Core.is_negative w out then Done None else Done (Some out)) Hlg Hw
             (Z.to_nat pb) fuel 0%nat (ZERO n)); [|exact Hf].
    cbn [Nat.add]. nia.
  - destruct (NumConv.while_ret _ _ _ _ _) as [[out|]|]; cbn [of_out bind obind NumConv.and_then]; try reflexivity.
    destruct (is_negative w out); reflexivity.
Qed.

Lemma conv_I_from_int dbg w lg n pb int : 0 <= lg -> w = 2 ^ lg -> 0 < pb ->
  forall fuel, (Z.to_nat pb <= fuel)%nat ->
  ConvGen.I_from_int w (Z.of_nat n) fuel pb int =
  match NumConv.I_from_iN dbg pb w n int with Ret r => Done r | Panic => Panicked end.
Proof.
  intros Hlg Hw Hpb fuel Hf. assert (Hw0 : 0 < w) by (subst w; apply Z.pow_pos_nonneg; lia).
  unfold ConvGen.I_from_int, NumConv.I_from_iN, NumConv.obind_opt, NumConv.from_loop. rewrite Nat2Z.id. cbv zeta.
  etransitivity.
  - apply (from_loop_tie dbg w lg pb n int (if int <? 0 then u_max w else 0)
             (fun out => if xorb (int <? 0) (Core.is_negative w out) then Done None else Done (Some out)) Hlg Hw
             (Z.to_nat pb) fuel 0%nat); [|exact Hf].
    cbn [Nat.add]. nia.
  - destruct (NumConv.while_ret _ _ _ _ _) as [[out|]|]; cbn [of_out bind obind NumConv.and_then]; try reflexivity.
    rewrite xorb_negb_eqb. destruct (negb _); reflexivity.
Qed.

(* buint from_i64 / from_i128: `match uN::try_from(int) { Ok(int) => Self::from_uN(int), _ => None }` *)
Lemma conv_U_from_i64 dbg w lg n int : 0 <= lg -> w = 2 ^ lg ->
  forall fuel, (64 <= fuel)%nat ->
  ConvGen.U_from_i64 w (Z.of_nat n) fuel int =
  match NumConv.U_from_iN dbg 64 w n int with Ret r => Done r | Panic => Panicked end.
Proof.
  intros Hlg Hw fuel Hf. unfold ConvGen.U_from_i64, NumConv.U_from_iN. cbv zeta.
  destruct (NumConv.uN_try_from_iN int) as [int'|]; [|reflexivity].
  rewrite bind_done_r. apply (conv_U_from_u64 dbg w lg); assumption.
Qed.

Lemma conv_U_from_i128 dbg w lg n int : 0 <= lg -> w = 2 ^ lg ->
  forall fuel, (128 <= fuel)%nat ->
  ConvGen.U_from_i128 w (Z.of_nat n) fuel int =
  match NumConv.U_from_iN dbg 128 w n int with Ret r => Done r | Panic => Panicked end.
Proof.
  intros Hlg Hw fuel Hf. unfold ConvGen.U_from_i128, NumConv.U_from_iN. cbv zeta.
  destruct (NumConv.uN_try_from_iN int) as [int'|]; [|reflexivity].
  rewrite bind_done_r. apply (conv_U_from_u128 dbg w lg); assumption.
Qed.

Theorem conv_C19_from_match_model dbg w lg : 0 <= lg -> w = 2 ^ lg ->
  forall n int,
  (forall fuel, (64 <= fuel)%nat -> ConvGen.U_from_u64 w (Z.of_nat n) fuel int =
     match NumConv.U_from_uN dbg 64 w n int with Ret r => Done r | Panic => Panicked end) /\
  (forall fuel, (128 <= fuel)%nat -> ConvGen.U_from_u128 w (Z.of_nat n) fuel int =
     match NumConv.U_from_uN dbg 128 w n int with Ret r => Done r | Panic => Panicked end) /\
  (forall fuel, (64 <= fuel)%nat -> ConvGen.U_from_i64 w (Z.of_nat n) fuel int =
     match NumConv.U_from_iN dbg 64 w n int with Ret r => Done r | Panic => Panicked end) /\
  (forall fuel, (128 <= fuel)%nat -> ConvGen.U_from_i128 w (Z.of_nat n) fuel int =
     match NumConv.U_from_iN dbg 128 w n int with Ret r => Done r | Panic => Panicked end) /\
  (forall pb fuel, 0 < pb -> (Z.to_nat pb <= fuel)%nat -> ConvGen.I_from_uint w (Z.of_nat n) fuel pb int =
     match NumConv.I_from_uN dbg pb w n int with Ret r => Done r | Panic => Panicked end) /\
  (forall pb fuel, 0 < pb -> (Z.to_nat pb <= fuel)%nat -> ConvGen.I_from_int w (Z.of_nat n) fuel pb int =
     match NumConv.I_from_iN dbg pb w n int with Ret r => Done r | Panic => Panicked end).
Proof.
  intros Hlg Hw n int. split; [|split; [|split; [|split; [|split]]]]; intros.
  - apply (conv_U_from_u64 dbg w lg); assumption.
  - apply (conv_U_from_u128 dbg w lg); assumption.
  - apply (conv_U_from_i64 dbg w lg); assumption.
  - apply (conv_U_from_i128 dbg w lg); assumption.
  - apply (conv_I_from_uint dbg w lg); assumption.
  - apply (conv_I_from_int dbg w lg); assumption.
Qed.

(* Proofs/RoundTrip.v — C11 round trip closed over the REAL parsers of property C10.
   Proofs/RadixOut.v proves the round trip for any parser meeting `parse_*_spec`; here the model
   parsers of Model/Parse.v (U_from_radix_le, U_from_radix_be, U_from_str_radix, I_from_str_radix)
   are shown to meet those four specs, using the C10 theorems of Proofs/Parse.v with their premises
   discharged (Proofs/DischargeParse.v), and the unconditional round-trip theorems follow.
   The two developments wrote their reference semantics independently (RadixSpec.horner_le /
   digits_in, little-endian; ParseSpec.horner / digits_below / grammarb / denote, most significant
   first): the bridges are proved first. *)
From Bnum Require Import Base Prim.
From Bnum.Model Require Import Digit Core Shift AddSub Mul Div Bits RadixOut Parse.
From Bnum.Proofs Require Import RadixSpec ParseSpec.
From Bnum.Proofs Require RadixOut Parse DischargeParse DischargeRadix.

(* ---------- Horner value: most-significant-first fold = little-endian recursion on the reversal ---------- *)

Lemma horner_snoc r l d : horner r (l ++ [d]) = horner r l * r + d.
Proof. unfold horner. rewrite fold_left_app. reflexivity. Qed.

Lemma horner_rev r ds : horner r (rev ds) = horner_le r ds.
Proof.
  induction ds as [|d t IH]; cbn [rev horner_le]; [reflexivity|].
  rewrite horner_snoc, IH. lia.
Qed.

Lemma digits_in_rev r ds : digits_in r ds -> digits_in r (rev ds).
Proof. apply Forall_rev. Qed.

Lemma digits_below_of_in r ds : digits_in r ds -> digits_below r ds = true.
Proof.
  intros H. unfold digits_below. apply forallb_forall. intros x Hx.
  unfold digits_in in H. rewrite Forall_forall in H. apply Z.ltb_lt. apply (H x Hx).
Qed.

Lemma digits_in_bytes r ds : r <= 256 -> digits_in r ds -> bytes ds.
Proof.
  intros Hr H. unfold bytes. apply (Forall_impl _ (P := fun d => 0 <= d < r)); [|exact H].
  intros d Hd. lia.
Qed.

Lemma rev_nonempty {A} (l : list A) : l <> [] -> rev l <> [].
Proof. intros H E. apply H. rewrite <- (rev_involutive l), E. reflexivity. Qed.

(* ---------- lowercase ASCII digits are grammar strings denoting the Horner value ---------- *)

Lemma char_digit_lower d : 0 <= d < 36 -> char_digit (ascii_lower d) = Some d.
Proof.
  intros Hd. unfold ascii_lower, char_digit. destruct (Z.ltb_spec d 10) as [H|H].
  - replace ((48 <=? d + 48) && (d + 48 <=? 57)) with true by (symmetry; apply andb_true_iff; lia).
    f_equal. lia.
  - replace ((48 <=? d + 87) && (d + 87 <=? 57)) with false by (symmetry; apply andb_false_iff; lia).
    replace ((97 <=? d + 87) && (d + 87 <=? 122)) with true by (symmetry; apply andb_true_iff; lia).
    f_equal. lia.
Qed.

Lemma dval_lower d : 0 <= d < 36 -> dval (ascii_lower d) = d.
Proof. intros Hd. unfold dval. rewrite (char_digit_lower d Hd). reflexivity. Qed.

Lemma is_digit_char_lower r d : r <= 36 -> 0 <= d < r -> is_digit_char r (ascii_lower d) = true.
Proof.
  intros Hr Hd. unfold is_digit_char. rewrite (char_digit_lower d ltac:(lia)). apply Z.ltb_lt. lia.
Qed.

Lemma ascii_lower_not_sign d : 0 <= d -> (ascii_lower d =? 43) = false /\ (ascii_lower d =? 45) = false.
Proof.
  intros Hd. unfold ascii_lower. destruct (Z.ltb_spec d 10); split; apply Z.eqb_neq; lia.
Qed.

Lemma map_dval_lower r l : r <= 36 -> digits_in r l -> map dval (map ascii_lower l) = l.
Proof.
  intros Hr D. induction D as [|d t Hd Ht IH]; cbn [map]; [reflexivity|].
  rewrite IH, (dval_lower d ltac:(lia)). reflexivity.
Qed.

Lemma forallb_digit_lower r l : r <= 36 -> digits_in r l ->
  forallb (is_digit_char r) (map ascii_lower l) = true.
Proof.
  intros Hr D. induction D as [|d t Hd Ht IH]; cbn [map forallb]; [reflexivity|].
  rewrite IH, (is_digit_char_lower r d Hr Hd). reflexivity.
Qed.

(* no sign character in front: the whole string is the body *)
Lemma lower_grammar signed r l : r <= 36 -> l <> [] -> digits_in r l ->
  grammarb signed r (map ascii_lower l) = true /\
  denote signed r (map ascii_lower l) = horner r l /\
  is_neg signed (map ascii_lower l) = false.
Proof.
  intros Hr Hne D. destruct l as [|d t]; [congruence|].
  pose proof (Forall_inv D) as Hd. cbv beta in Hd.
  destruct (ascii_lower_not_sign d ltac:(lia)) as [H43 H45].
  assert (Hsl : sign_len signed (map ascii_lower (d :: t)) = 0%nat).
  { cbn [map sign_len]. rewrite H43, H45, andb_false_r. reflexivity. }
  assert (Hng : is_neg signed (map ascii_lower (d :: t)) = false).
  { cbn [map is_neg]. rewrite H45, andb_false_r. reflexivity. }
  assert (Hb : body signed (map ascii_lower (d :: t)) = map ascii_lower (d :: t)).
  { unfold body. rewrite Hsl. reflexivity. }
  split; [|split].
  - unfold grammarb. rewrite Hb. rewrite <- (forallb_digit_lower r (d :: t) Hr D). reflexivity.
  - unfold denote. rewrite Hb, Hng, (map_dval_lower r (d :: t) Hr D). reflexivity.
  - exact Hng.
Qed.

(* '-' in front (signed types only) *)
Lemma neg_grammar r l : r <= 36 -> l <> [] -> digits_in r l ->
  grammarb true r (45 :: map ascii_lower l) = true /\
  denote true r (45 :: map ascii_lower l) = - horner r l /\
  is_neg true (45 :: map ascii_lower l) = true.
Proof.
  intros Hr Hne D.
  assert (Hb : body true (45 :: map ascii_lower l) = map ascii_lower l) by reflexivity.
  assert (Hng : is_neg true (45 :: map ascii_lower l) = true) by reflexivity.
  split; [|split].
  - unfold grammarb. rewrite Hb. destruct l as [|d t]; [congruence|].
    rewrite <- (forallb_digit_lower r (d :: t) Hr D). reflexivity.
  - unfold denote. rewrite Hb, Hng, (map_dval_lower r l Hr D). reflexivity.
  - exact Hng.
Qed.

(* ---------- the encoding of a representable value ---------- *)

Lemma digits_of_small w n v : 0 < w -> 0 <= v < Mod w n ->
  wf w n (digits_of w n v) /\ uval w (digits_of w n v) = v.
Proof.
  intros Hw Hv. split; [apply digits_of_wf; exact Hw|].
  rewrite digits_of_uval by exact Hw. apply Z.mod_small. exact Hv.
Qed.

Lemma enc_unsigned w n v : 0 < w -> 0 <= v < Mod w n ->
  wf w n (enc w n v) /\ uval w (enc w n v) = v.
Proof. intros Hw Hv. unfold enc. rewrite (Z.mod_small v _ Hv). apply digits_of_small; assumption. Qed.

Lemma enc_signed w n v : 0 < w -> (0 < n)%nat -> - (Mod w n / 2) <= v < Mod w n / 2 ->
  wf w n (enc w n v) /\ sval w (enc w n v) = v.
Proof.
  intros Hw Hn Hv. pose proof (Mod_pos w n ltac:(lia)) as HM. pose proof (Mod_even w n Hw Hn) as HE.
  assert (Hwf : wf w n (enc w n v)) by (apply digits_of_wf; exact Hw).
  split; [exact Hwf|]. unfold sval. rewrite (wf_length _ _ _ Hwf). unfold enc.
  rewrite digits_of_uval, Z.mod_mod by lia.
  rewrite (to_signed_of_mod _ v HM HE). apply wrapS_id; assumption.
Qed.

(* ---------- the model parsers of C10 meet the four parser specifications of C11 ---------- *)

Definition ok_slice (a : list Z) : pout (option (list Z)) := POk (Some a).
Definition ok_str (a : list Z) : pout (list Z) := POk a.

Theorem parse_le_real dbg w n : 0 < w -> w mod 8 = 0 -> (0 < n)%nat ->
  RadixOut.parse_le_spec ok_slice w n (U_from_radix_le dbg w n).
Proof.
  intros Hw H8 Hn ds r Hr Hne D Hlt.
  pose proof (horner_nonneg r ds ltac:(lia) D) as H0.
  rewrite (Parse.U_from_radix_le_full DischargeParse.U_overflowing_add_spec_holds dbg w n ds r
             Hw H8 Hn Hr (digits_in_bytes r ds ltac:(lia) D)).
  unfold Parse.slice_value.
  rewrite horner_rev, (digits_below_of_in r (rev ds) (digits_in_rev r ds D)).
  destruct (Z.ltb_spec (horner_le r ds) (Mod w n)) as [_|Hge]; [|lia]. cbn [andb].
  exists (digits_of w n (horner_le r ds)). split; [reflexivity|].
  apply digits_of_small; [exact Hw | lia].
Qed.

Theorem parse_be_real dbg w n : 0 < w -> w mod 8 = 0 -> (0 < n)%nat ->
  RadixOut.parse_be_spec ok_slice w n (U_from_radix_be dbg w n).
Proof.
  intros Hw H8 Hn ds r Hr Hne D Hlt.
  pose proof (horner_nonneg r ds ltac:(lia) D) as H0.
  pose proof (digits_in_rev r ds D) as Dr.
  rewrite (Parse.U_from_radix_be_full DischargeParse.U_overflowing_add_spec_holds dbg w n (rev ds) r
             Hw H8 Hn Hr (digits_in_bytes r (rev ds) ltac:(lia) Dr)).
  unfold Parse.slice_value.
  rewrite horner_rev, (digits_below_of_in r (rev ds) Dr).
  destruct (Z.ltb_spec (horner_le r ds) (Mod w n)) as [_|Hge]; [|lia]. cbn [andb].
  exists (digits_of w n (horner_le r ds)). split; [reflexivity|].
  apply digits_of_small; [exact Hw | lia].
Qed.

Theorem parse_str_real dbg w n : 0 < w -> w mod 8 = 0 -> (0 < n)%nat ->
  RadixOut.parse_str_spec ok_str w n (U_from_str_radix dbg w n).
Proof.
  intros Hw H8 Hn ds r Hr Hne D Hlt.
  pose proof (horner_nonneg r ds ltac:(lia) D) as H0.
  destruct (lower_grammar false r (rev ds) ltac:(lia) (rev_nonempty ds Hne) (digits_in_rev r ds D))
    as (G & V & _).
  rewrite (Parse.U_from_str_radix_ok DischargeParse.U_overflowing_add_spec_holds dbg w n _ r
             Hw H8 Hn Hr G).
  cbv zeta. rewrite V, horner_rev.
  destruct (Z.ltb_spec (horner_le r ds) (Mod w n)) as [_|Hge]; [|lia].
  exists (enc w n (horner_le r ds)). split; [reflexivity|].
  apply enc_unsigned; [exact Hw | lia].
Qed.

Theorem parse_istr_real dbg w n : 0 < w -> w mod 8 = 0 -> (0 < n)%nat ->
  RadixOut.parse_istr_spec ok_str w n (I_from_str_radix dbg w n).
Proof.
  intros Hw H8 Hn ds r neg Hr Hne D v Hv.
  pose proof (rev_nonempty ds Hne) as Hne'. pose proof (digits_in_rev r ds D) as Dr.
  assert (E : I_from_str_radix dbg w n ((if neg then [45] else []) ++ map ascii_lower (rev ds)) r =
              Parse.signed_value w n neg v).
  { destruct neg; cbn [app].
    - destruct (neg_grammar r (rev ds) ltac:(lia) Hne' Dr) as (G & V & N).
      rewrite (Parse.I_from_str_radix_ok DischargeParse.U_overflowing_add_spec_holds
                 DischargeParse.bit_spec_holds DischargeParse.trailing_zeros_spec_holds
                 DischargeParse.I_wrapping_neg_spec_holds DischargeParse.is_negative_spec_holds
                 dbg w n _ r Hw H8 Hn Hr G).
      rewrite V, N, horner_rev. reflexivity.
    - destruct (lower_grammar true r (rev ds) ltac:(lia) Hne' Dr) as (G & V & N).
      rewrite (Parse.I_from_str_radix_ok DischargeParse.U_overflowing_add_spec_holds
                 DischargeParse.bit_spec_holds DischargeParse.trailing_zeros_spec_holds
                 DischargeParse.I_wrapping_neg_spec_holds DischargeParse.is_negative_spec_holds
                 dbg w n _ r Hw H8 Hn Hr G).
      rewrite V, N, horner_rev. reflexivity. }
  rewrite E. unfold Parse.signed_value.
  destruct (Z.leb_spec (- (Mod w n / 2)) v) as [_|Hlo]; [|lia].
  destruct (Z.ltb_spec v (Mod w n / 2)) as [_|Hhi]; [|lia]. cbn [andb].
  exists (enc w n v). split; [reflexivity|]. apply enc_signed; assumption.
Qed.

(* ---------- the unconditional round trips ---------- *)

Theorem round_trip_le_closed dbg w n a r :
  8 <= w -> w mod 8 = 0 -> (0 < n)%nat -> wf w n a -> 2 <= r <= 256 ->
  exists ds, U_to_radix_le w a r = Some (Ret ds) /\ U_from_radix_le dbg w n ds r = POk (Some a).
Proof.
  intros Hw H8 Hn Hwf Hr.
  exact (RadixOut.round_trip_le ok_slice DischargeRadix.div_digit_spec_holds w n _
           (parse_le_real dbg w n ltac:(lia) H8 Hn) a r Hw Hwf Hr).
Qed.

Theorem round_trip_be_closed dbg w n a r :
  8 <= w -> w mod 8 = 0 -> (0 < n)%nat -> wf w n a -> 2 <= r <= 256 ->
  exists bs, U_to_radix_be w a r = Some (Ret bs) /\ U_from_radix_be dbg w n bs r = POk (Some a).
Proof.
  intros Hw H8 Hn Hwf Hr.
  exact (RadixOut.round_trip_be ok_slice DischargeRadix.div_digit_spec_holds w n _
           (parse_be_real dbg w n ltac:(lia) H8 Hn) a r Hw Hwf Hr).
Qed.

Theorem round_trip_str_closed dbg w n a r :
  8 <= w -> w mod 8 = 0 -> (0 < n)%nat -> wf w n a -> 2 <= r <= 36 ->
  exists s, U_to_str_radix w a r = Some (Ret s) /\ U_from_str_radix dbg w n s r = POk a.
Proof.
  intros Hw H8 Hn Hwf Hr.
  exact (RadixOut.round_trip_str ok_str DischargeRadix.div_digit_spec_holds w n _
           (parse_str_real dbg w n ltac:(lia) H8 Hn) a r Hw Hwf Hr).
Qed.

Theorem round_trip_istr_closed dbg w n a r :
  8 <= w -> w mod 8 = 0 -> (0 < n)%nat -> wf w n a -> 2 <= r <= 36 ->
  exists s, I_to_str_radix w a r = Some (Ret s) /\ I_from_str_radix dbg w n s r = POk a.
Proof.
  intros Hw H8 Hn Hwf Hr.
  exact (RadixOut.round_trip_istr ok_str DischargeRadix.div_digit_spec_holds
           DischargeRadix.is_negative_spec_holds DischargeRadix.unsigned_abs_spec_holds w n _
           (parse_istr_real dbg w n ltac:(lia) H8 Hn) a r Hw Hn Hwf Hr).
Qed.

(* Proofs/LoopsTieC03b.v — src/buint/checked.rs checked_next_multiple_of, GENERATED on every run (Generated/Loops.v, by
   tools/rs2v_loops.py), equals the hand-written model (Model/Div.v U_checked_next_multiple_of): `match self.checked_rem(rhs)`,
   `rem.is_zero()` (the translated loop), `rhs.sub(rem)` (the inherent sub: the model's U_sub dbg, whose panic is the
   caller's Panicked), `self.checked_add(..)`.  checked_rem, sub, checked_add are calls of the model's functions. *)
From Bnum Require Import Base Prim.
From Bnum.Model Require Import DigitPrims LoopPrims Digit Core Shift AddSub Mul Div Imp.
From Bnum.Generated Require Import DigitGen Loops.
From Bnum.Proofs Require Import DivAux DivSpec ImpLemmas LoopsTieC06.
From Bnum.Proofs Require Div.

Lemma loops_checked_next_multiple_of dbg w n a b : 0 < w -> wf w n a -> wf w n b ->
  forall fuel, (n <= fuel)%nat ->
  Loops.checked_next_multiple_of dbg w (Z.of_nat n) fuel a b =
  match U_checked_next_multiple_of dbg w a b with Ret o => Done o | Panic => Panicked end.
Proof.
  intros Hw Ha Hb fuel Hf. unfold Loops.checked_next_multiple_of, U_checked_next_multiple_of.
  destruct (U_checked_rem w a b) as [rem|] eqn:E; [|reflexivity].
  assert (Hrem : wf w n rem).
  { unfold U_checked_rem in E. destruct (is_zero b) eqn:Hz; [discriminate|]. inversion E; subst rem.
    rewrite (is_zero_spec w n b ltac:(lia) Hb) in Hz. apply Z.eqb_neq in Hz.
    exact (proj1 (proj2 (Div.U_div_rem_unchecked_ok w Hw n a b Ha Hb Hz))). }
  rewrite loops_is_zero by assumption. cbn [bind]. destruct (is_zero rem); [reflexivity|].
  destruct (U_sub dbg w b rem); reflexivity.
Qed.

Theorem loops_C03b_match_model dbg w : 0 < w ->
  forall n a b fuel, wf w n a -> wf w n b -> (n <= fuel)%nat ->
  Loops.checked_next_multiple_of dbg w (Z.of_nat n) fuel a b =
  match U_checked_next_multiple_of dbg w a b with Ret o => Done o | Panic => Panicked end.
Proof. intros Hw n a b fuel Ha Hb Hf. apply loops_checked_next_multiple_of; assumption. Qed.

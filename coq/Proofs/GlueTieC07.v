(* Proofs/GlueTieC07.v — glue functions of C07 (signum, is_positive, is_negative; BInt eq / ne / cmp, BUint ne): generated (Generated/Glue.v) = hand-written model.
   One file per property so that an edit of one family's source breaks only that property's check.
   Boiler-plate written by tools/mk_gluetie.py from its SPEC table; the statements are fixed by committing this file. *)
From Bnum Require Import Base Prim.
From Bnum.Model Require Import Digit Core Shift AddSub Mul Div Bits Pow.
From Bnum.Generated Require Import Glue.
From Bnum.Proofs Require Import GlueTieCommon.

Lemma glue_I_signum : forall w a, Glue.I_signum w a = signum w a.
Proof. glue_tac. Qed.
Lemma glue_I_is_positive : forall w a, Glue.I_is_positive w a = is_positive w a.
Proof. glue_tac. Qed.
Lemma glue_I_is_negative : forall w a, Glue.I_is_negative w a = is_negative w a.
Proof. glue_tac. Qed.
Lemma glue_U_ne : forall w a b, Glue.U_ne w a b = negb (eq_digits a b).
Proof. glue_tac. Qed.
Lemma glue_I_eq : forall w a b, Glue.I_eq w a b = eq_digits a b.
Proof. glue_tac. Qed.
Lemma glue_I_ne : forall w a b, Glue.I_ne w a b = negb (eq_digits a b).
Proof. glue_tac. Qed.
Lemma glue_I_cmp : forall w a b, Glue.I_cmp w a b = icmp w a b.
Proof. glue_tac. Qed.

Definition glue_sign_statement : Prop :=
  (forall w a, Glue.I_signum w a = signum w a) /\
  (forall w a, Glue.I_is_positive w a = is_positive w a) /\
  (forall w a, Glue.I_is_negative w a = is_negative w a) /\
  (forall w a b, Glue.U_ne w a b = negb (eq_digits a b)) /\
  (forall w a b, Glue.I_eq w a b = eq_digits a b) /\
  (forall w a b, Glue.I_ne w a b = negb (eq_digits a b)) /\
  (forall w a b, Glue.I_cmp w a b = icmp w a b).
Theorem glue_sign_matches_model : glue_sign_statement.
Proof.
  unfold glue_sign_statement. repeat apply conj.
  - exact glue_I_signum.
  - exact glue_I_is_positive.
  - exact glue_I_is_negative.
  - exact glue_U_ne.
  - exact glue_I_eq.
  - exact glue_I_ne.
  - exact glue_I_cmp.
Qed.

(* Proofs/RandGenTieMul.v — $BUint::widening_mul (src/buint/bigint_helpers.rs; the `v.widening_mul(range)` of the rejection
   loop of src/random.rs), GENERATED on every run (Generated/RandGen.v: widening_mul, by tools/rs2v_rand.py with the generator of
   tools/rs2v_loops.py), against the hand-written model Mul.U_widening_mul (one 2N-digit accumulator, `wide_loop` / `wide_row`):
   for every digit width, digit count and well-formed operands, with fuel > N the generated function neither panics (no index
   out of bounds, no `usize` underflow in `N - i` / `i + j - N`) nor runs out of fuel and returns exactly the model's pair. *)
From Bnum Require Import Base Prim.
From Bnum.Model Require Import DigitPrims LoopPrims Digit Core Mul Imp.
From Bnum.Generated Require Import DigitGen RandGen.
From Bnum.Proofs Require Import DigitTie ImpLemmas.

Lemma carrying_mul_digits w a b c d : 0 < w ->
  digit_ok w (fst (carrying_mul w a b c d)) /\ digit_ok w (snd (carrying_mul w a b c d)).
Proof.
  intros Hw. unfold carrying_mul, digit_ok. cbn [fst snd]. pose proof (B_pos w ltac:(lia)).
  split; apply Z.mod_pos_bound; lia.
Qed.

Lemma list_set_app_r l t k v : list_set (l ++ t) (length l + k) v = l ++ list_set t k v.
Proof.
  induction l as [|x l IH]; [reflexivity|]. cbn [length app Nat.add list_set]. rewrite IH. reflexivity.
Qed.

Lemma skipn_add {A} (l : list A) x y : skipn x (skipn y l) = skipn (y + x) l.
Proof.
  revert l. induction y as [|y IH]; intros l; [reflexivity|].
  destruct l as [|a l]; [rewrite !skipn_nil; reflexivity|]. cbn [skipn Nat.add]. apply IH.
Qed.

(* one step of a row on the accumulator `acc`: digit i+k is rewritten, the model's row advances by one digit *)
Lemma wide_row_step w ai b sfx0 i k acc carry p c :
  (k < length b)%nat -> (i + k < length acc)%nat ->
  carrying_mul w ai (nth k b 0) carry (nth (i + k) acc 0) = (p, c) ->
  wide_row w ai b sfx0 0 = firstn k (skipn i acc) ++ wide_row w ai (skipn k b) (skipn (i + k) acc) carry ->
  wide_row w ai b sfx0 0 =
  firstn (S k) (skipn i (list_set acc (i + k) p)) ++
  wide_row w ai (skipn (S k) b) (skipn (i + S k) (list_set acc (i + k) p)) c.
Proof.
  intros Hk Hik E H. rewrite H. rewrite (skipn_nth_cons b k) by exact Hk. rewrite (skipn_nth_cons acc (i + k)) by exact Hik.
  cbn [wide_row]. rewrite E. rewrite skipn_list_set_ge. rewrite firstn_S_list_set by (rewrite skipn_length; lia).
  replace (i + S k)%nat with (S (i + k)) by lia. rewrite skipn_list_set_gt by lia.
  rewrite <- app_assoc. reflexivity.
Qed.

(* the state of a row after k of its n inner iterations, on the accumulator acc = low ++ high *)
Definition row_inv (w : Z) (n : nat) (b : list Z) (i : nat) (ai : Z) (pre sfx0 : list Z) (k : nat) (acc : list Z) (carry : Z) : Prop :=
  length acc = (n + n)%nat /\ Forall (digit_ok w) acc /\ digit_ok w carry /\ firstn i acc = pre /\
  wide_row w ai b sfx0 0 = firstn k (skipn i acc) ++ wide_row w ai (skipn k b) (skipn (i + k) acc) carry.

Lemma row_inv_step w n a b i k acc carry pre sfx0 : 0 < w -> length b = n -> Forall (digit_ok w) a -> Forall (digit_ok w) b ->
  (i < length a)%nat -> (i < n)%nat -> (k < n)%nat ->
  row_inv w n b i (nth i a 0) pre sfx0 k acc carry ->
  DigitGen.carrying_mul w (nth i a 0) (nth k b 0) carry (nth (i + k) acc 0) =
    carrying_mul w (nth i a 0) (nth k b 0) carry (nth (i + k) acc 0) /\
  row_inv w n b i (nth i a 0) pre sfx0 (S k)
    (list_set acc (i + k) (fst (carrying_mul w (nth i a 0) (nth k b 0) carry (nth (i + k) acc 0))))
    (snd (carrying_mul w (nth i a 0) (nth k b 0) carry (nth (i + k) acc 0))).
Proof.
  intros Hw Hb Fa Fb Hia Hi Hk (Hlen & Facc & Hc & Hpre & Hrow).
  split.
  - apply tie_carrying_mul; try assumption; apply Forall_nth_Z; try assumption; lia.
  - pose proof (carrying_mul_digits w (nth i a 0) (nth k b 0) carry (nth (i + k) acc 0) Hw) as [Hp Hc'].
    destruct (carrying_mul w (nth i a 0) (nth k b 0) carry (nth (i + k) acc 0)) as [p c] eqn:E. cbn [fst snd] in *.
    unfold row_inv. split; [rewrite list_set_length; exact Hlen|]. split; [apply Forall_list_set; assumption|].
    split; [exact Hc'|]. split; [rewrite firstn_list_set_le by lia; exact Hpre|].
    apply wide_row_step with (carry := carry); try assumption; lia.
Qed.

(* what one iteration of the outer loop (both inner loops and the final `high.digits[i] = carry`) does *)
Lemma widening_row w n a b i low high fuel (R : Type) : 0 < w -> length a = n -> length b = n ->
  Forall (digit_ok w) a -> Forall (digit_ok w) b -> (i < n)%nat -> (S n <= fuel)%nat ->
  length low = n -> length high = n -> Forall (digit_ok w) low -> Forall (digit_ok w) high ->
  forall (after : list Z -> list Z -> Z -> res (flow (list Z * list Z * Z * Z) R)),
  exists low' high' carry',
    length low' = n /\ length high' = n /\ Forall (digit_ok w) low' /\ Forall (digit_ok w) high' /\
    firstn i (low' ++ high') = firstn i (low ++ high) /\
    wide_row w (nth i a 0) b (skipn i (low ++ high)) 0 = skipn i (low' ++ high') /\
    (t5' <- while_loop (R := R) fuel
        (fun '(low, carry, j) => true)
        (fun '(low, carry, j) =>
          t1' <- usub (Z.of_nat n) (Z.of_nat i) ;;
          if (j <? t1') then (
            let index := (Z.of_nat i + j) in
            t2' <- arr_get low index ;;
            let d := t2' in
            t3' <- arr_get a (Z.of_nat i) ;;
            t4' <- arr_get b j ;;
            let '(new_digit, new_carry) := (DigitGen.carrying_mul w t3' t4' carry d) in
            let carry := new_carry in
            low <- arr_set low index new_digit ;;
            let j := (j + 1) in
            Done (Continue (low, carry, j))
          ) else (
            Done (Break (low, carry, j))
          ))
        (low, 0, 0) ;;
      match t5' with
      | Exited (low, carry, j) =>
          t11' <- while_loop (R := R) fuel
            (fun '(high, carry, j) => (j <? Z.of_nat n))
            (fun '(high, carry, j) =>
              t7' <- usub (Z.of_nat i + j) (Z.of_nat n) ;;
              let index := t7' in
              t8' <- arr_get high index ;;
              let d := t8' in
              t9' <- arr_get a (Z.of_nat i) ;;
              t10' <- arr_get b j ;;
              let '(new_digit, new_carry) := (DigitGen.carrying_mul w t9' t10' carry d) in
              let carry := new_carry in
              high <- arr_set high index new_digit ;;
              let j := (j + 1) in
              Done (Continue (high, carry, j)))
            (high, carry, j) ;;
          match t11' with
          | Exited (high, carry, j) =>
              high <- arr_set high (Z.of_nat i) carry ;;
              after low high carry
          | Returned t12' => Done (Return t12')
          end
      | Returned t6' => Done (Return t6')
      end)
    = after low' high' carry'.
Proof.
  intros Hw Ha Hb Fa Fb Hi Hf Hlow Hhigh Flow Fhigh after.
  set (ai := nth i a 0). set (pre := firstn i (low ++ high)). set (sfx0 := skipn i (low ++ high)).
  (* ---- first inner loop: digits i .. n-1 of the accumulator, in `low` ---- *)
  match goal with |- context [bind (while_loop fuel ?c ?bd ?s0) _] =>
    assert (W1 : exists e, while_loop (R := R) fuel c bd s0 = Done e /\
               match e with
               | Exited (low1, carry1, j1) =>
                   j1 = Z.of_nat (n - i) /\ length low1 = n /\ row_inv w n b i ai pre sfx0 (n - i) (low1 ++ high) carry1
               | Returned _ => False
               end)
  end.
  { apply (while_count (S (n - i))
             (fun k '(low1, carry1, j1) => j1 = Z.of_nat k /\ (k <= n - i)%nat /\ length low1 = n /\
                                           row_inv w n b i ai pre sfx0 k (low1 ++ high) carry1)) with (k := 0%nat).
    - intros k [[low1 carry1] j1] (-> & Hk & Hl1 & HI) _. split; [lia|]. body_red.
      rewrite usub_nat by lia. cbn [bind]. rewrite ltb_of_nat.
      destruct (Nat.ltb_spec k (n - i)) as [Hlt|Hge].
      + rewrite <- Nat2Z.inj_add. rewrite !arr_get_nat by lia. cbn [bind].
        destruct (row_inv_step w n a b i k (low1 ++ high) carry1 pre sfx0 Hw Hb Fa Fb ltac:(lia) Hi ltac:(lia) HI) as [Et HI'].
        rewrite app_nth1 in Et, HI' by lia. fold ai. fold ai in Et, HI'. rewrite Et.
        destruct (carrying_mul w ai (nth k b 0) carry1 (nth (i + k) low1 0)) as [p c]. cbn [fst snd] in HI'.
        rewrite arr_set_nat by lia. cbn [bind].
        split; [lia|]. split; [lia|]. split; [rewrite list_set_length; exact Hl1|].
        rewrite <- list_set_app_l by lia. exact HI'.
      + assert (k = n - i)%nat by lia. subst k. split; [reflexivity|]. split; [exact Hl1|]. exact HI.
    - intros k [[low1 carry1] j1] _ Hc. discriminate Hc.
    - split; [reflexivity|]. split; [lia|]. split; [exact Hlow|].
      unfold row_inv. split; [rewrite app_length; lia|]. split; [apply Forall_app; split; assumption|].
      split; [unfold digit_ok; pose proof (B_pos w ltac:(lia)); lia|]. split; [reflexivity|].
      rewrite Nat.add_0_r. reflexivity.
    - lia. }
  destruct W1 as (e1 & He1 & HQ1). rewrite He1. cbn [bind].
  destruct e1 as [[[low1 carry1] j1]|r]; [|contradiction]. destruct HQ1 as (-> & Hl1 & HI1).
  (* ---- second inner loop: digits n .. i+n-1 of the accumulator, in `high` ---- *)
  match goal with |- context [bind (while_loop fuel ?c ?bd ?s0) _] =>
    assert (W2 : exists e, while_loop (R := R) fuel c bd s0 = Done e /\
               match e with
               | Exited (high2, carry2, j2) =>
                   length high2 = n /\ row_inv w n b i ai pre sfx0 n (low1 ++ high2) carry2
               | Returned _ => False
               end)
  end.
  { apply (while_count n
             (fun k '(high2, carry2, j2) => j2 = Z.of_nat k /\ (n - i <= k <= n)%nat /\ length high2 = n /\
                                            row_inv w n b i ai pre sfx0 k (low1 ++ high2) carry2)) with (k := (n - i)%nat).
    - intros k [[high2 carry2] j2] (-> & Hk & Hl2 & HI) Hc. rewrite ltb_of_nat in Hc. apply Nat.ltb_lt in Hc.
      split; [exact Hc|]. body_red.
      rewrite <- Nat2Z.inj_add. rewrite usub_nat by lia. cbn [bind]. rewrite !arr_get_nat by lia. cbn [bind].
      destruct (row_inv_step w n a b i k (low1 ++ high2) carry2 pre sfx0 Hw Hb Fa Fb ltac:(lia) Hi Hc HI) as [Et HI'].
      rewrite app_nth2 in Et, HI' by lia. rewrite Hl1 in Et, HI'. fold ai. fold ai in Et, HI'. rewrite Et.
      destruct (carrying_mul w ai (nth k b 0) carry2 (nth (i + k - n) high2 0)) as [p c]. cbn [fst snd] in HI'.
      rewrite arr_set_nat by lia. cbn [bind].
      split; [lia|]. split; [lia|]. split; [rewrite list_set_length; exact Hl2|].
      replace (i + k)%nat with (length low1 + (i + k - n))%nat in HI' at 1 by lia.
      rewrite list_set_app_r in HI'. exact HI'.
    - intros k [[high2 carry2] j2] (-> & Hk & Hl2 & HI) Hc. rewrite ltb_of_nat in Hc. apply Nat.ltb_ge in Hc.
      assert (k = n) by lia. subst k. split; assumption.
    - split; [reflexivity|]. split; [lia|]. split; [exact Hhigh|]. exact HI1.
    - lia. }
  destruct W2 as (e2 & He2 & HQ2). rewrite He2. cbn [bind].
  destruct e2 as [[[high2 carry2] j2]|r]; [|contradiction]. destruct HQ2 as (Hl2 & Hlen & Facc & Hc2 & Hpre & Hrow).
  (* ---- the carry of the row goes to digit i+n ---- *)
  rewrite arr_set_nat by lia. cbn [bind].
  exists low1, (list_set high2 i carry2), carry2.
  apply Forall_app in Facc. destruct Facc as [Fl1 Fh2].
  split; [exact Hl1|]. split; [rewrite list_set_length; exact Hl2|]. split; [exact Fl1|].
  split; [apply Forall_list_set; assumption|].
  assert (E : low1 ++ list_set high2 i carry2 = list_set (low1 ++ high2) (i + n) carry2).
  { replace (i + n)%nat with (length low1 + i)%nat by lia. rewrite list_set_app_r. reflexivity. }
  split.
  - rewrite E. rewrite firstn_list_set_le by lia. exact Hpre.
  - split; [|reflexivity]. fold ai sfx0. rewrite Hrow. rewrite (skipn_all2 b) by lia.
    rewrite (skipn_nth_cons (low1 ++ high2) (i + n)) by (rewrite app_length; lia). cbn [wide_row].
    rewrite E. rewrite skipn_list_set_ge. rewrite list_set_split by (rewrite skipn_length, app_length; lia).
    rewrite skipn_add. replace (i + S n)%nat with (S (i + n)) by lia. reflexivity.
Qed.

Theorem rand_widening_mul w n a b : 0 < w -> wf w n a -> wf w n b ->
  forall fuel, (S n <= fuel)%nat ->
  RandGen.widening_mul w (Z.of_nat n) fuel a b = Done (U_widening_mul w a b).
Proof.
  intros Hw [Ha Fa] [Hb Fb] fuel Hf. unfold RandGen.widening_mul. rewrite Nat2Z.id. cbv zeta.
  apply while_count_bind with (n := n) (k := 0%nat)
    (Inv := fun k '(low, high, carry, i) =>
       i = Z.of_nat k /\ (k <= n)%nat /\ length low = n /\ length high = n /\
       Forall (digit_ok w) low /\ Forall (digit_ok w) high /\
       wide_loop w a b (ZERO (n + n)) = firstn k (low ++ high) ++ wide_loop w (skipn k a) b (skipn k (low ++ high))).
  - intros k [[[low high] carry] i] (-> & Hk & Hlow & Hhigh & Flow & Fhigh & Heq) Hc.
    rewrite ltb_of_nat in Hc. apply Nat.ltb_lt in Hc. split; [exact Hc|].
    destruct (widening_row w n a b k low high fuel (list Z * list Z) Hw Ha Hb Fa Fb Hc Hf Hlow Hhigh Flow Fhigh
                (fun low high carry => Done (Continue (low, high, carry, Z.of_nat k + 1))))
      as (low' & high' & carry' & Hl' & Hh' & Fl' & Fh' & Hpre & Hrow & Hrun).
    cbv beta iota zeta in Hrun |- *. rewrite Hrun.
    split; [lia|]. split; [lia|]. split; [exact Hl'|]. split; [exact Hh'|]. split; [exact Fl'|]. split; [exact Fh'|].
    rewrite Heq. rewrite (skipn_nth_cons a k) by lia. cbn [wide_loop]. rewrite Hrow.
    rewrite (skipn_nth_cons (low' ++ high') k) by (rewrite app_length; lia).
    rewrite (firstn_S_snoc (low' ++ high') k) by (rewrite app_length; lia). rewrite Hpre.
    rewrite <- app_assoc. reflexivity.
  - intros k [[[low high] carry] i] (-> & Hk & Hlow & Hhigh & Flow & Fhigh & Heq) Hc.
    rewrite ltb_of_nat in Hc. apply Nat.ltb_ge in Hc. assert (k = n) by lia. subst k.
    unfold U_widening_mul. rewrite Ha, Heq. rewrite (skipn_all2 a) by lia. cbn [wide_loop].
    rewrite firstn_skipn. rewrite firstn_app, skipn_app, Hlow, Nat.sub_diag.
    rewrite (firstn_all2 low) by lia. rewrite (skipn_all2 low) by lia.
    cbn [firstn skipn app]. rewrite app_nil_r. reflexivity.
  - split; [reflexivity|]. split; [lia|]. split; [apply repeat_length|]. split; [apply repeat_length|].
    assert (FZ : Forall (digit_ok w) (ZERO n)).
    { apply Forall_forall; intros x Hx; apply repeat_spec in Hx; subst x; unfold digit_ok; pose proof (B_pos w ltac:(lia)); lia. }
    split; [exact FZ|]. split; [exact FZ|]. cbn [firstn skipn app]. unfold ZERO. rewrite repeat_app. reflexivity.
  - lia.
Qed.

(* Proofs/ConvGenTieC09.v — casts from a bnum integer to a primitive integer (`as`): src/buint/cast.rs buint_as_int!
   (`impl CastFrom<$BUint<N>> for $int`, $int any of the twelve primitive integer types).  The function GENERATED from
   /repo/src on every run (Generated/ConvGen.v, by tools/rs2v_conv.py; pb = <$int>::BITS, ps = signedness) equals the
   hand-written model Model/Cast.v U_as_int (an `outcome` running on its own `while_` with budget N), for BOTH values of the
   model's overflow-check flag: the shift amount `i << BIT_SHIFT` is below pb whenever the loop body runs. *)
From Bnum Require Import Base Prim.
From Bnum.Model Require Import DigitPrims LoopPrims Core Imp ImpConv.
From Bnum.Model Require Cast Convert.
From Bnum.Generated Require Import DigitGen ConvGen.
From Bnum.Proofs Require Import ImpLemmas ImpLemmas2 ConvGenTieBase.

Lemma conv_buint_as_int dbg w lg n pb ps ds : 0 <= lg -> w = 2 ^ lg -> length ds = n ->
  forall fuel, (n <= fuel)%nat ->
  ConvGen.buint_as_int w (Z.of_nat n) fuel pb ps ds =
  match Cast.U_as_int dbg pb ps w ds with Ret r => Done r | Panic => Panicked end.
Proof.
  intros Hlg Hw Hn fuel Hf. subst n. unfold ConvGen.buint_as_int, Cast.U_as_int, Cast.U_as_int_bits.
  rewrite p_lit_0. cbv zeta.
  exact (as_int_loop_tie dbg w lg pb ps (fun d => d) u_or ds Hlg Hw (length ds) fuel 0%nat 0 ltac:(lia) Hf).
Qed.

(* bint_as!: `impl CastFrom<$BInt<N>> for $int`: a negative source is accumulated with `&` / `!` from all-ones, a non-negative
   one goes through buint_as_int! *)
Lemma conv_bint_as_int dbg w lg n pb ps ds : 0 <= lg -> w = 2 ^ lg -> length ds = n ->
  forall fuel, (n <= fuel)%nat ->
  ConvGen.bint_as_int w (Z.of_nat n) fuel pb ps ds =
  match Cast.I_as_int dbg pb ps w ds with Ret r => Done r | Panic => Panicked end.
Proof.
  intros Hlg Hw Hn fuel Hf. unfold ConvGen.bint_as_int, Cast.I_as_int, Cast.I_as_int_bits.
  destruct (is_negative w ds).
  - subst n. rewrite p_lit_0. cbv zeta.
    exact (as_int_loop_tie dbg w lg pb ps (u_not w) (fun out t => u_and out (u_not pb t)) ds Hlg Hw
             (length ds) fuel 0%nat (u_not pb 0) ltac:(lia) Hf).
  - rewrite (conv_buint_as_int dbg w lg n pb ps ds Hlg Hw Hn fuel Hf). unfold Cast.U_as_int, Cast.to_bits.
    destruct (omap _ _); reflexivity.
Qed.

(* as_bint!: `impl CastFrom<$ty> for $BInt<N>` ($ty a primitive integer; the instantiations at bool / char are other impls, not
   covered): Self::from_bits($BUint::cast_from(from)); $BUint::cast_from is the hand model's U_from_int (its own tie:
   Proofs/LoopsTieC09.v, as_buint!) *)
Lemma conv_bint_from_prim w n pb from fuel :
  ConvGen.bint_from_prim w (Z.of_nat n) fuel pb from =
  match Cast.I_from_int pb w n from with Ret r => Done r | Panic => Panicked end.
Proof.
  unfold ConvGen.bint_from_prim, Cast.I_from_int. rewrite Nat2Z.id.
  destruct (Cast.U_from_int pb w n from); reflexivity.
Qed.

(* ---- all obligations of the group in one statement ---- *)
Theorem conv_C09_match_model dbg w lg : 0 <= lg -> w = 2 ^ lg ->
  forall n pb ps ds fuel, length ds = n -> (n <= fuel)%nat ->
  ConvGen.buint_as_int w (Z.of_nat n) fuel pb ps ds =
    match Cast.U_as_int dbg pb ps w ds with Ret r => Done r | Panic => Panicked end /\
  ConvGen.bint_as_int w (Z.of_nat n) fuel pb ps ds =
    match Cast.I_as_int dbg pb ps w ds with Ret r => Done r | Panic => Panicked end.
Proof.
  intros Hlg Hw n pb ps ds fuel Hn Hf. split.
  - apply (conv_buint_as_int dbg w lg); assumption.
  - apply (conv_bint_as_int dbg w lg); assumption.
Qed.

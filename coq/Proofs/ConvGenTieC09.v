(* Proofs/ConvGenTieC09.v — casts from a bnum integer to a primitive integer (`as`): src/buint/cast.rs buint_as_int!
   (`impl CastFrom<$BUint<N>> for $int`, $int any of the twelve primitive integer types).  The function GENERATED from
   /repo/src on every run (Generated/ConvGen.v, by tools/rs2v_conv.py; pb = <$int>::BITS, ps = signedness) equals the
   hand-written model Model/Cast.v U_as_int (an `outcome` running on its own `while_` with budget N), for BOTH values of the
   model's overflow-check flag: the shift amount `i << BIT_SHIFT` is below pb whenever the loop body runs. *)
From Bnum Require Import Base Prim.
From Bnum.Model Require Import DigitPrims LoopPrims Core Imp ImpConv.
From Bnum.Model Require Cast Convert.
From Bnum.Generated Require Import DigitGen ConvGen.
From Bnum.Proofs Require Import ImpLemmas ImpLemmas2 ConvGenTieBase.

(* the loop of buint_as_int! from any iteration i on: the model's budget f suffices when i + f reaches N *)
Lemma buint_as_int_loop dbg w lg pb ps ds : 0 <= lg -> w = 2 ^ lg ->
  forall f fuel i out, (length ds <= i + f)%nat -> (f <= fuel)%nat ->
  bind (while_loop (R := Z) fuel
          (fun '(i, out) => (andb ((ix_shl i (digit_BIT_SHIFT w)) <? pb) (i <? Z.of_nat (length ds))))
          (fun '(i, out) =>
             t1' <- arr_get ds i ;;
             t2' <- pint_shl pb (ud pb t1') (ix_shl i (digit_BIT_SHIFT w)) ;;
             let out := (u_or out t2') in
             let i := (i + 1) in
             Done (Continue (i, out)))
          (Z.of_nat i, out))
       (fun t3' => match t3' with Exited (i, out) => Done (Cast.p_of_bits pb ps out) | Returned t4' => Done t4' end)
  = of_out (omap (Cast.p_of_bits pb ps)
      (Cast.while_ f (Cast.as_int_cond pb w (length ds))
         (fun i out =>
            obind (Cast.rd ds i) (fun d =>
            obind (Cast.shl_chk dbg pb (ud pb d) (Z.of_nat i * w)) (fun t =>
            Ret (u_or out t))))
         i out)).
Proof.
  intros Hlg Hw. assert (Hw0 : 0 < w) by (subst w; apply Z.pow_pos_nonneg; lia).
  induction f as [|f IH]; intros fuel i out Hend Hf.
  - cbn [Cast.while_ omap of_out]. rewrite while_loop_cond_false; [reflexivity|].
    rewrite ltb_of_nat. destruct (Nat.ltb_spec i (length ds)); [lia|]. apply andb_false_r.
  - cbn [Cast.while_]. unfold Cast.as_int_cond at 1.
    destruct ((Z.of_nat i * w <? pb) && (i <? length ds)%nat) eqn:Hc.
    + destruct fuel as [|fuel]; [lia|]. rewrite while_loop_S. cbv beta iota.
      rewrite (ix_shl_BIT_SHIFT w lg) by assumption. rewrite ltb_of_nat, Hc.
      apply andb_true_iff in Hc. destruct Hc as [Hs Hi]. apply Z.ltb_lt in Hs.
      rewrite <- rd_as_arr_get. destruct (Cast.rd ds i) as [d|]; [|reflexivity]. cbn [of_out bind obind].
      rewrite pint_shl_ok by nia. rewrite shl_chk_in_range by exact Hs. cbn [bind obind]. cbv zeta.
      replace (Z.of_nat i + 1) with (Z.of_nat (S i)) by lia.
      apply IH; lia.
    + cbn [omap of_out]. rewrite while_loop_cond_false; [reflexivity|].
      rewrite (ix_shl_BIT_SHIFT w lg) by assumption. rewrite ltb_of_nat. exact Hc.
Qed.

Lemma conv_buint_as_int dbg w lg n pb ps ds : 0 <= lg -> w = 2 ^ lg -> length ds = n ->
  forall fuel, (n <= fuel)%nat ->
  ConvGen.buint_as_int w (Z.of_nat n) fuel pb ps ds =
  match Cast.U_as_int dbg pb ps w ds with Ret r => Done r | Panic => Panicked end.
Proof.
  intros Hlg Hw Hn fuel Hf. subst n. unfold ConvGen.buint_as_int, Cast.U_as_int, Cast.U_as_int_bits.
  rewrite p_lit_0. cbv zeta.
  exact (buint_as_int_loop dbg w lg pb ps ds Hlg Hw (length ds) fuel 0%nat 0 ltac:(lia) Hf).
Qed.

(* Proofs/PrintGenTieA.v — tie between the radix OUTPUT code GENERATED from /repo/src on every run (Generated/PrintGen.v, by
   tools/rs2v_print.py) and the hand-written model Model/RadixOut.v, part A: reasoning principles for the `for` loops of
   Model/ImpPrint.v, the free functions ilog2 / div_ceil, and to_bitwise_digits_le (power-of-two radices whose bit count
   divides the digit width).  The ties are structural: no fact about positional notation is used. *)
From Bnum Require Import Base Prim.
From Bnum.Model Require Import Digit DigitPrims LoopPrims Core Imp ImpParse ImpDiv ImpPrint.
From Bnum.Model Require Div Bits RadixOut.
From Bnum.Generated Require Import DigitGen PrintGen.
From Bnum.Generated Require ParseGen.
From Bnum.Proofs Require Import ImpLemmas ImpLemmas2.
From Bnum.Proofs Require ParseGenTieA RadixOut.

Lemma bind_Done {A C} (a : A) (f : A -> res C) : bind (Done a) f = f a.
Proof. reflexivity. Qed.

Lemma range_length lo hi : length (range lo hi) = Z.to_nat (hi - lo).
Proof. unfold range. rewrite map_length, seq_length. reflexivity. Qed.

Lemma to_u8_as_u8 x : to_u8 x = RadixOut.as_u8 x.
Proof. reflexivity. Qed.

(* ---------- `for` loops ---------- *)

(* Every loop lemma of these files takes the loop BODY (and condition) as a variable and asks for a one-step equation about
   it; at the use site the premise is discharged by computation (`cbv beta iota zeta`) and rewriting.  So the proofs do not
   depend on the syntactic form (let-bindings, names) of the generated bodies. *)

(* the induction rule for `for`, composed with the code that follows the loop: P l s = "with l still to be visited from
   state s, the rest of the computation yields v" *)
Lemma for_each_bind_ind {St R A : Type} (P : list Z -> St -> Prop) (body : Z -> St -> res (flow St R))
      (after : loop_exit St R -> res A) (v : A) :
  (forall s, P [] s -> after (Exited s) = Done v) ->
  (forall x l s, P (x :: l) s ->
     match body x s with
     | Done (Continue s') => P l s'
     | Done (Break s') => after (Exited s') = Done v
     | Done (Return r) => after (Returned r) = Done v
     | Panicked | NoFuel => False
     end) ->
  forall l s, P l s -> bind (for_each l body s) after = Done v.
Proof.
  intros Hnil Hstep. induction l as [|x l IH]; intros s HP.
  - cbn [for_each bind]. apply Hnil. exact HP.
  - cbn [for_each]. specialize (Hstep x l s HP).
    destruct (body x s) as [[s'|s'|r]| |]; try contradiction; cbn [bind].
    + apply IH. exact Hstep.
    + exact Hstep.
    + exact Hstep.
Qed.

(* a `for` whose body always continues: a left fold *)
Lemma for_each_fold {St R : Type} (body : Z -> St -> res (flow St R)) (f : St -> Z -> St) :
  (forall x s, body x s = Done (Continue (f s x))) ->
  forall l s, for_each l body s = Done (Exited (fold_left f l s)).
Proof.
  intros Hb. induction l as [|x l IH]; intros s; [reflexivity|].
  cbn [for_each fold_left]. rewrite Hb. apply IH.
Qed.

(* ---------- ilog2, div_ceil ---------- *)

Lemma gen_ilog2 w N fuel a : 0 < a < 2 ^ 32 -> PrintGen.ilog2 w N fuel a = Done (RadixOut.ilog2_u32 a).
Proof.
  intros Ha. change (PrintGen.ilog2 w N fuel a) with (ParseGen.ParseGen.ilog2 w N fuel a).
  rewrite ParseGenTieA.gen_ilog2 by exact Ha. f_equal.
  unfold RadixOut.ilog2_u32, u_leading_zeros, bitlen.
  destruct (Z.eqb_spec a 0) as [->|_]; [lia|]. lia.
Qed.

Lemma ilog2_u32_log2 a : 0 < a -> RadixOut.ilog2_u32 a = Z.log2 a.
Proof.
  intros Ha. unfold RadixOut.ilog2_u32, u_leading_zeros, bitlen.
  destruct (Z.eqb_spec a 0) as [->|_]; lia.
Qed.

(* div_ceil only computes the capacity of the output vector: all that matters is that it does not panic *)
Lemma gen_div_ceil w N fuel a b : b <> 0 -> exists v, PrintGen.div_ceil w N fuel a b = Done v.
Proof.
  intros Hb. unfold PrintGen.div_ceil, urem, udiv.
  destruct (Z.eqb_spec b 0) as [E|_]; [contradiction|]. cbn [bind].
  destruct (a mod b =? 0); eexists; reflexivity.
Qed.

(* ---------- the mask (1 << bits) - 1 ---------- *)

Lemma dsub_mask w bits : 0 <= bits < w -> dsub (u_shl w 1 bits) 1 = Done (RadixOut.bit_mask w bits).
Proof.
  intros Hb. unfold dsub.
  pose proof (RadixOut.bit_mask_eq w bits Hb) as E. unfold RadixOut.bit_mask in *.
  pose proof (RadixOut.pow2_pos bits (proj1 Hb)).
  destruct (Z.ltb_spec (u_shl w 1 bits) 1); [lia|]. reflexivity.
Qed.

Lemma udiv_ok a b : b <> 0 -> udiv a b = Done (a / b).
Proof. intros Hb. unfold udiv. destruct (Z.eqb_spec b 0); [contradiction | reflexivity]. Qed.

Lemma urem_ok a b : b <> 0 -> urem a b = Done (a mod b).
Proof. intros Hb. unfold urem. destruct (Z.eqb_spec b 0); [contradiction | reflexivity]. Qed.

(* the straight-line prefix of a function: every checked operation succeeds; the order of independent operations in the
   source does not matter to this tactic (`lia` discharges the side conditions) *)
Ltac straight :=
  repeat first [ rewrite bind_Done | rewrite dshl_ok by lia | rewrite dsub_mask by lia | rewrite udiv_ok by lia
               | rewrite urem_ok by lia ].

(* ---------- to_bitwise_digits_le ---------- *)

(* for _ in 0..digits_per_big_digit { out.push((d & mask) as u8); d >>= bits; }   (cnt iterations from d) *)
Fixpoint chunk_rest (cnt : nat) (bits d : Z) : Z :=
  match cnt with O => d | S c => chunk_rest c bits (u_shr d bits) end.

Lemma sim_bitwise_chunk bits mask (body : Z -> Z * list Z -> res (flow (Z * list Z) (list Z))) :
  (forall x d out, body x (d, out) = Done (Continue (u_shr d bits, out ++ [RadixOut.as_u8 (u_and d mask)]))) ->
  forall (l : list Z) d out,
  for_each l body (d, out) = Done (Exited (chunk_rest (length l) bits d, out ++ RadixOut.bitwise_chunk (length l) bits mask d)).
Proof.
  intros Hb. induction l as [|x l IH]; intros d out.
  - cbn [for_each length RadixOut.bitwise_chunk chunk_rest]. rewrite app_nil_r. reflexivity.
  - cbn [for_each length RadixOut.bitwise_chunk chunk_rest]. rewrite Hb, IH, <- app_assoc. reflexivity.
Qed.

(* for mut d in self.digits.take(ldi) { <chunk> } *)
Lemma sim_bitwise_low bits mask cnt (body : Z -> list Z -> res (flow (list Z) (list Z))) :
  (forall d out, body d out = Done (Continue (out ++ RadixOut.bitwise_chunk cnt bits mask d))) ->
  forall (l : list Z) out,
  for_each l body out = Done (Exited (out ++ flat_map (RadixOut.bitwise_chunk cnt bits mask) l)).
Proof.
  intros Hb. induction l as [|x l IH]; intros out.
  - cbn [for_each flat_map]. rewrite app_nil_r. reflexivity.
  - cbn [for_each flat_map]. rewrite Hb, IH, <- app_assoc. reflexivity.
Qed.

(* while r != 0 { out.push((r & mask) as u8); r >>= bits; } *)
Lemma sim_bitwise_top bits mask (cond : Z * list Z -> bool) (body : Z * list Z -> res (flow (Z * list Z) (list Z))) :
  (forall r out, cond (r, out) = negb (r =? 0)) ->
  (forall r out, body (r, out) = Done (Continue (u_shr r bits, out ++ [RadixOut.as_u8 (u_and r mask)]))) ->
  forall f r out l, RadixOut.bitwise_top f bits mask r = Some l ->
  forall fuel, (f <= fuel)%nat ->
  while_loop fuel cond body (r, out) = Done (Exited (0, out ++ l)).
Proof.
  intros Hc Hb. induction f as [|f IH]; intros r out l H fuel Hf.
  - cbn [RadixOut.bitwise_top] in H. destruct (Z.eqb_spec r 0) as [->|]; [|discriminate]. injection H as <-.
    rewrite while_loop_cond_false by (rewrite Hc; reflexivity). rewrite app_nil_r. reflexivity.
  - cbn [RadixOut.bitwise_top] in H. destruct (Z.eqb_spec r 0) as [->|Hr].
    + injection H as <-. rewrite while_loop_cond_false by (rewrite Hc; reflexivity). rewrite app_nil_r. reflexivity.
    + destruct fuel as [|fuel]; [lia|]. rewrite while_loop_S, Hc, Hb.
      destruct (Z.eqb_spec r 0) as [|_]; [contradiction|]. cbn [negb].
      destruct (RadixOut.bitwise_top f bits mask (u_shr r bits)) as [l'|] eqn:E; [|discriminate].
      cbn [option_map] in H. injection H as <-.
      rewrite (IH _ _ l' E) by lia. rewrite <- app_assoc. reflexivity.
Qed.

Theorem gen_to_bitwise_digits_le w N fuel self bits out :
  0 < bits < w -> self <> [] -> (Z.to_nat w <= fuel)%nat ->
  RadixOut.to_bitwise_digits_le w self bits = Some out ->
  PrintGen.to_bitwise_digits_le w N fuel self bits = Done out.
Proof.
  intros Hb Hne Hf H. unfold PrintGen.to_bitwise_digits_le. cbv zeta.
  destruct (gen_div_ceil w N fuel (Bits.bits_of w self) bits ltac:(lia)) as (cap & ->).
  destruct (RadixOut.ldi_spec self Hne) as (Hlt & _). cbv zeta in Hlt.
  rewrite arr_get_nat by exact Hlt. straight. rewrite Nat2Z.id.
  unfold RadixOut.to_bitwise_digits_le in H. cbv zeta in H.
  destruct (RadixOut.bitwise_top (Z.to_nat w) bits (RadixOut.bit_mask w bits) (nth (Div.last_digit_index self) self 0)) as [l|] eqn:E;
    [|discriminate].
  cbn [option_map] in H. injection H as <-.
  rewrite (sim_bitwise_low bits (RadixOut.bit_mask w bits) (Z.to_nat (w / bits))).
  2:{ intros d out.
      rewrite (sim_bitwise_chunk bits (RadixOut.bit_mask w bits)).
      2:{ intros x d0 out0. rewrite dshr_ok by lia. reflexivity. }
      rewrite bind_Done, range_length, Z.sub_0_r. reflexivity. }
  rewrite bind_Done.
  rewrite (sim_bitwise_top bits (RadixOut.bit_mask w bits)) with (f := Z.to_nat w) (l := l).
  - reflexivity.
  - intros r out. reflexivity.
  - intros r out. rewrite dshr_ok by lia. reflexivity.
  - exact E.
  - exact Hf.
Qed.

(* Proofs/RandomZ.v — the arithmetic of uniform sampling by widening multiplication, over Z only
   (no digit lists): DESIGN Appendix A.5.

   A word v in [0, M) is multiplied by `range`; hi = (v*range) / M is the candidate offset and
   lo = (v*range) mod M decides acceptance: accepted iff lo <= zone, where zone + 1 = range * q <= M. *)
From Bnum Require Import Base.

Definition hi_of (M range v : Z) : Z := (v * range) / M.
Definition lo_of (M range v : Z) : Z := (v * range) mod M.
(* first word whose product reaches h*M: ceil(h*M / range) *)
Definition v0_of (M range h : Z) : Z := (h * M + range - 1) / range.

Lemma v0_props M range h : 0 < range -> 0 <= h -> 0 < M ->
  let v0 := v0_of M range h in
  0 <= v0 /\ h * M <= v0 * range < h * M + range.
Proof.
  intros Hr Hh HM v0. unfold v0, v0_of.
  pose proof (Z.div_mod (h * M + range - 1) range ltac:(lia)) as E.
  pose proof (Z.mod_pos_bound (h * M + range - 1) range Hr) as Bd.
  set (d := (h * M + range - 1) / range) in *.
  set (m := (h * M + range - 1) mod range) in *.
  assert (0 <= h * M) by nia.
  assert (0 <= d) by (subst d; apply Z.div_pos; lia).
  split; [exact H0|]. nia.
Qed.

(* hi/lo decomposition of a product known to lie in [h*M, (h+1)*M) *)
Lemma hi_lo_of_window M p h : 0 < M -> h * M <= p < h * M + M -> p / M = h /\ p mod M = p - h * M.
Proof.
  intros HM Hp.
  assert (E : p = h * M + (p - h * M)) by lia.
  assert (p / M = h).
  { rewrite E. rewrite Z.div_add_l by lia. rewrite Z.div_small by lia. lia. }
  split; [assumption|].
  pose proof (Z.div_mod p M ltac:(lia)). rewrite H in H0. lia.
Qed.

(* ---- accept_bij: the accepted words that map to the offset h are exactly v0(h) .. v0(h)+q-1 ---- *)
Theorem accept_bij M range zone q : 0 < range -> range < M -> zone + 1 = range * q -> 0 <= zone < M ->
  forall h, 0 <= h < range ->
    let v0 := v0_of M range h in
    (0 <= v0 /\ v0 + q <= M) /\
    forall v, 0 <= v ->
      ((lo_of M range v <= zone /\ hi_of M range v = h) <-> (v0 <= v < v0 + q)).
Proof.
  intros Hr HrM Hz [Hz0 HzM] h Hh v0.
  assert (HM : 0 < M) by lia.
  destruct (v0_props M range h Hr ltac:(lia) HM) as [Hv0 Hw]. fold v0 in Hv0, Hw.
  assert (Hq : 0 <= q) by nia.
  split.
  - split; [exact Hv0|].
    destruct (Z.eq_dec q 0) as [->|Hq0]; [nia|].
    (* (v0+q-1)*range < h*M + q*range <= h*M + M <= range*M *)
    assert ((v0 + q - 1) * range < h * M + range * q) by nia.
    assert (h * M + M <= range * M) by nia.
    assert ((v0 + q - 1) * range < M * range) by nia.
    assert (v0 + q - 1 < M) by nia. lia.
  - intros v Hv. unfold lo_of, hi_of. split.
    + intros [Hlo Hhi].
      pose proof (Z.div_mod (v * range) M ltac:(lia)) as E. rewrite Hhi in E.
      pose proof (Z.mod_pos_bound (v * range) M HM) as Bd.
      set (lo := (v * range) mod M) in *.
      (* v*range = M*h + lo >= h*M  ->  v >= v0 *)
      assert (v0 <= v) by nia.
      split; [assumption|].
      (* lo = (v0*range - h*M) + (v - v0)*range <= zone = range*q - 1 *)
      assert ((v - v0) * range < range * q) by nia.
      nia.
    + intros [H1 H2].
      assert (Hwin : h * M <= v * range < h * M + M).
      { split; [nia|].
        assert (v * range = v0 * range + (v - v0) * range) by ring.
        assert ((v - v0) * range <= (q - 1) * range) by nia.
        nia. }
      destruct (hi_lo_of_window M (v * range) h HM Hwin) as [Eh El].
      split; [|exact Eh]. rewrite El.
      assert (v * range = v0 * range + (v - v0) * range) by ring.
      assert ((v - v0) * range <= (q - 1) * range) by nia.
      nia.
Qed.

(* every accepted word yields an offset below range; every offset below range is produced *)
Lemma hi_lt_range M range v : 0 < M -> 0 <= range -> 0 <= v < M -> 0 <= hi_of M range v < range \/ range = 0.
Proof.
  intros HM Hr Hv. unfold hi_of.
  destruct (Z.eq_dec range 0) as [->|Hn]; [right; reflexivity|left].
  split; [apply Z.div_pos; nia|].
  apply Z.div_lt_upper_bound; nia.
Qed.

(* number of accepted preimages: the interval [v0, v0+q) has q elements — as a counting statement over
   an explicit enumeration of the words *)
Fixpoint count_words (P : Z -> bool) (cnt : nat) (v : Z) : Z :=
  match cnt with
  | O => 0
  | S c => (if P v then 1 else 0) + count_words P c (v + 1)
  end.

Lemma count_words_app P c1 c2 v :
  count_words P (c1 + c2) v = count_words P c1 v + count_words P c2 (v + Z.of_nat c1).
Proof.
  revert v. induction c1 as [|c1 IH]; intros v; cbn [count_words Nat.add].
  - replace (v + Z.of_nat 0) with v by lia. lia.
  - rewrite IH. rewrite Nat2Z.inj_succ. replace (v + 1 + Z.of_nat c1) with (v + Z.succ (Z.of_nat c1)) by lia. lia.
Qed.

Lemma count_words_false P c v :
  (forall x, v <= x < v + Z.of_nat c -> P x = false) -> count_words P c v = 0.
Proof.
  revert v. induction c as [|c IH]; intros v Hf; cbn [count_words]; [reflexivity|].
  rewrite Nat2Z.inj_succ in Hf. rewrite Hf by lia. rewrite IH; [lia|]. intros; apply Hf; lia.
Qed.

Lemma count_words_true P c v :
  (forall x, v <= x < v + Z.of_nat c -> P x = true) -> count_words P c v = Z.of_nat c.
Proof.
  revert v. induction c as [|c IH]; intros v Hf; cbn [count_words]; [reflexivity|].
  rewrite Nat2Z.inj_succ in *. rewrite Hf by lia. rewrite IH; [lia|]. intros; apply Hf; lia.
Qed.

(* if, among the words v .. v+cnt-1, P holds exactly on [a, b), then P holds b - a times *)
Lemma count_words_interval (P : Z -> bool) a b cnt v :
  v <= a -> a <= b -> b <= v + Z.of_nat cnt ->
  (forall x, v <= x < v + Z.of_nat cnt -> (P x = true <-> a <= x < b)) ->
  count_words P cnt v = b - a.
Proof.
  intros Hva Hab Hb HP.
  assert (E : cnt = (Z.to_nat (a - v) + (Z.to_nat (b - a) + Z.to_nat (v + Z.of_nat cnt - b)))%nat) by lia.
  rewrite E, !count_words_app.
  rewrite count_words_false, count_words_true, count_words_false; try lia.
  - intros x Hx. destruct (P x) eqn:Ex; [|reflexivity]. apply HP in Ex; lia.
  - intros x Hx. apply HP; lia.
  - intros x Hx. destruct (P x) eqn:Ex; [|reflexivity]. apply HP in Ex; lia.
Qed.

(* the counting form of accept_bij: among ALL words 0 .. M-1, exactly q are accepted with offset h *)
Definition accepts (M range zone h v : Z) : bool :=
  (lo_of M range v <=? zone) && (hi_of M range v =? h).

Theorem accept_count M range zone q : 0 < range -> range < M -> zone + 1 = range * q -> 0 <= zone < M ->
  forall h, 0 <= h < range -> count_words (accepts M range zone h) (Z.to_nat M) 0 = q.
Proof.
  intros Hr HrM Hz HzM h Hh.
  destruct (accept_bij M range zone q Hr HrM Hz HzM h Hh) as [[H0 H1] H2].
  assert (0 <= q) by nia.
  rewrite (count_words_interval _ (v0_of M range h) (v0_of M range h + q)); try lia.
  intros x Hx. unfold accepts. rewrite andb_true_iff, Z.leb_le, Z.eqb_eq. apply H2. lia.
Qed.

(* ---- zone_ok: both ways of computing the zone give  zone + 1 = range * q <= M ---- *)

(* UniformInt::new_inclusive / sample, and sample_single_inclusive for BITS <= 16:
   ints_to_reject = (MAX - range + 1) % range ; zone = MAX - ints_to_reject *)
Theorem zone_ok_rem M range : 0 < range -> range < M ->
  let zone := (M - 1) - ((M - 1 - range + 1) mod range) in
  zone + 1 = range * (M / range) /\ 0 <= zone < M /\ (zone + 1) mod range = 0.
Proof.
  intros Hr HrM zone.
  assert (Em : (M - 1 - range + 1) mod range = M mod range).
  { replace (M - 1 - range + 1) with (M + (-1) * range) by lia. apply Z_mod_plus_full. }
  unfold zone. rewrite Em.
  pose proof (Z.div_mod M range ltac:(lia)) as E.
  pose proof (Z.mod_pos_bound M range Hr) as Bd.
  assert (1 <= M / range) by (apply Z.div_le_lower_bound; lia).
  assert (Hz : M - 1 - M mod range + 1 = range * (M / range)) by lia.
  split; [exact Hz|]. split; [nia|].
  rewrite Hz, Z.mul_comm. apply Z_mod_mult.
Qed.

(* sample_single_inclusive for BITS > 16: zone = (range << range.leading_zeros()).wrapping_sub(1),
   leading_zeros = BITS - bitlen(range) *)
Theorem zone_ok_shift BITS range : 0 < range -> range < 2 ^ BITS -> 0 <= BITS ->
  let M := 2 ^ BITS in
  let lz := BITS - (Z.log2 range + 1) in
  let zone := (((range * 2 ^ lz) mod M) - 1) mod M in
  0 <= lz /\ zone + 1 = range * 2 ^ lz /\ 0 <= zone < M /\ (zone + 1) mod range = 0.
Proof.
  intros Hr HrM HB M lz zone.
  pose proof (Z.log2_spec range Hr) as [L1 L2].
  pose proof (Z.log2_nonneg range) as Ln.
  assert (Hlt : Z.log2 range < BITS).
  { apply Z.log2_lt_pow2; assumption. }
  assert (Hlz : 0 <= lz) by (unfold lz; lia).
  assert (Hp : 0 < 2 ^ lz) by (apply Z.pow_pos_nonneg; lia).
  assert (EM : M = 2 ^ (Z.succ (Z.log2 range)) * 2 ^ lz).
  { unfold M, lz. rewrite <- Z.pow_add_r by lia. f_equal. lia. }
  assert (Hup : range * 2 ^ lz < M) by (rewrite EM; nia).
  assert (Hlow : 0 < range * 2 ^ lz) by nia.
  assert (Ez : zone = range * 2 ^ lz - 1).
  { unfold zone. rewrite (Z.mod_small (range * 2 ^ lz)) by lia. apply Z.mod_small. lia. }
  split; [exact Hlz|]. rewrite Ez. split; [lia|]. split; [lia|].
  replace (range * 2 ^ lz - 1 + 1) with (2 ^ lz * range) by lia. apply Z_mod_mult.
Qed.

(* ---- in_range: the offset added to `low` stays inside [low, high] in the type's own reading ----
   `tmin` is the least value of the type (0, or -M/2): every value of the type lies in [tmin, tmin+M). *)
Theorem offset_in_range M tmin tl th tr k :
  0 < M -> tmin <= tl -> tl <= th -> th < tmin + M -> tmin <= tr < tmin + M ->
  let range := (th - tl + 1) mod M in
  range <> 0 -> 0 <= k < range -> tr mod M = (tl + k) mod M ->
  tl <= tr <= th /\ tr = tl + k.
Proof.
  intros HM H1 H2 H3 H4 range Hr Hk Hc.
  assert (Er : range = th - tl + 1).
  { unfold range in *. destruct (Z.eq_dec (th - tl + 1) M) as [E|E].
    - rewrite E, Z_mod_same_full in Hr. contradiction.
    - apply Z.mod_small. lia. }
  assert (tr = tl + k).
  { assert (D : (tr - (tl + k)) mod M = 0).
    { rewrite Zminus_mod, Hc, Z.sub_diag. apply Z.mod_0_l. lia. }
    apply Z.mod_divide in D; [|lia]. destruct D as [c Dc].
    assert (c = 0) by nia. lia. }
  lia.
Qed.

(* the full range: range wraps to 0 exactly when [low, high] is the whole type *)
Theorem full_range M tmin tl th :
  0 < M -> tmin <= tl -> tl <= th -> th < tmin + M ->
  ((th - tl + 1) mod M = 0 <-> tl = tmin /\ th = tmin + M - 1).
Proof.
  intros HM H1 H2 H3. split.
  - intros E. apply Z.mod_divide in E; [|lia]. destruct E as [c Ec].
    assert (c = 1) by nia. lia.
  - intros [-> ->]. replace (tmin + M - 1 - tmin + 1) with M by lia. apply Z_mod_same_full.
Qed.

(* Proofs/BitAddrC06.v — digit/bit addressing of a little-endian digit list:
   bit i of the value is bit (i mod w) of digit (i / w).  Self-contained
   (depends on Base.v only). *)
From Bnum Require Import Base.

(* ---------- one digit on top of a value ---------- *)

Lemma split_mod w d R : 0 <= w -> 0 <= d < 2 ^ w -> (d + 2 ^ w * R) mod 2 ^ w = d.
Proof.
  intros Hw Hd. rewrite Z.mul_comm, Z_mod_plus_full. apply Z.mod_small; lia.
Qed.

Lemma split_div w d R : 0 <= w -> 0 <= d < 2 ^ w -> (d + 2 ^ w * R) / 2 ^ w = R.
Proof.
  intros Hw Hd. rewrite Z.mul_comm, Z_div_plus_full by lia.
  rewrite Z.div_small by lia. lia.
Qed.

Lemma testbit_low w d R i : 0 <= d < 2 ^ w -> 0 <= i < w ->
  Z.testbit (d + 2 ^ w * R) i = Z.testbit d i.
Proof.
  intros Hd Hi. rewrite <- (Z.mod_pow2_bits_low (d + 2 ^ w * R) w i) by lia.
  rewrite split_mod by lia. reflexivity.
Qed.

Lemma testbit_high w d R i : 0 <= w -> 0 <= d < 2 ^ w -> w <= i ->
  Z.testbit (d + 2 ^ w * R) i = Z.testbit R (i - w).
Proof.
  intros Hw Hd Hi. replace i with ((i - w) + w) at 1 by lia.
  rewrite <- Z.div_pow2_bits by lia. rewrite split_div by lia. reflexivity.
Qed.

(* ---------- a digit is a non-negative number with no bit at or above w ---------- *)

Lemma digit_ok_bits w d : 0 <= w ->
  (digit_ok w d <-> 0 <= d /\ forall j, w <= j -> Z.testbit d j = false).
Proof.
  intros Hw. unfold digit_ok, B. split.
  - intros Hd. split; [lia|]. intros j Hj.
    rewrite <- (Z.mod_small d (2 ^ w)) by lia. apply Z.mod_pow2_bits_high. lia.
  - intros [H0 Hb]. split; [exact H0|].
    assert (He : d = d mod 2 ^ w).
    { apply Z.bits_inj'. intros j Hj. destruct (Z_lt_le_dec j w).
      - rewrite Z.mod_pow2_bits_low by lia. reflexivity.
      - rewrite Z.mod_pow2_bits_high by lia. apply Hb. lia. }
    rewrite He. apply Z.mod_pos_bound. apply Z.pow_pos_nonneg; lia.
Qed.

Lemma digit_testbit_high w d j : 0 <= w -> digit_ok w d -> w <= j -> Z.testbit d j = false.
Proof. intros Hw Hd Hj. apply (proj1 (digit_ok_bits w d Hw) Hd). exact Hj. Qed.

(* ---------- index arithmetic ---------- *)

Lemma idx_step w i : 0 < w -> w <= i -> (i - w) / w = i / w - 1 /\ (i - w) mod w = i mod w.
Proof.
  intros Hw Hi. replace (i - w) with (i + (-1) * w) by lia.
  rewrite Z_div_plus_full by lia. rewrite Z_mod_plus_full. lia.
Qed.

Lemma idx_lt w n i : 0 < w -> 0 <= i -> (i / w < n <-> i < w * n).
Proof.
  intros Hw Hi. split; intros H.
  - pose proof (Z.mul_div_le i w Hw). pose proof (Z.mod_pos_bound i w Hw).
    pose proof (Z.div_mod i w ltac:(lia)). nia.
  - apply Z.div_lt_upper_bound; lia.
Qed.

Lemma idx_nat_lt w n i : 0 < w -> 0 <= i ->
  ((Z.to_nat (i / w) <? n)%nat = true <-> i < w * Z.of_nat n).
Proof.
  intros Hw Hi. rewrite Nat.ltb_lt. rewrite <- idx_lt by lia.
  pose proof (Z.div_pos i w Hi Hw). lia.
Qed.

(* ---------- the addressing lemma ---------- *)

Lemma testbit_uval w n ds i : 0 < w -> wf w n ds -> 0 <= i ->
  Z.testbit (uval w ds) i = Z.testbit (nth (Z.to_nat (i / w)) ds 0) (i mod w).
Proof.
  intros Hw. revert ds i. induction n as [|n IH]; intros ds i H Hi.
  - apply wf_inv_0 in H; subst. cbn [uval]. rewrite Z.testbit_0_l.
    destruct (Z.to_nat (i / w)); cbn [nth]; rewrite Z.testbit_0_l; reflexivity.
  - destruct (wf_inv_S _ _ _ H) as (d & r & -> & Hd & Hr). cbn [uval].
    unfold digit_ok, B in Hd. unfold B.
    destruct (Z_lt_le_dec i w) as [Hlt|Hge].
    + rewrite testbit_low by lia. rewrite Z.div_small, Z.mod_small by lia. reflexivity.
    + rewrite testbit_high by lia. rewrite (IH r (i - w) Hr) by lia.
      destruct (idx_step w i Hw Hge) as [Hq Hm]. rewrite Hq, Hm.
      assert (1 <= i / w) by (apply Z.div_le_lower_bound; lia).
      replace (Z.to_nat (i / w)) with (S (Z.to_nat (i / w - 1))) by lia.
      reflexivity.
Qed.

Lemma nth_digit_ok w n ds k : 0 <= w -> wf w n ds -> digit_ok w (nth k ds 0).
Proof.
  intros Hw [_ Hf]. destruct (Nat.lt_ge_cases k (length ds)) as [Hk|Hk].
  - rewrite Forall_forall in Hf. apply Hf. apply nth_In. exact Hk.
  - rewrite nth_overflow by lia. pose proof (B_pos w Hw). unfold digit_ok. lia.
Qed.

Lemma testbit_uval_high w n ds i : 0 < w -> wf w n ds -> w * Z.of_nat n <= i ->
  Z.testbit (uval w ds) i = false.
Proof.
  intros Hw H Hi. pose proof (uval_bounds w n ds ltac:(lia) H) as Hb. unfold Mod in Hb.
  rewrite <- (Z.mod_small (uval w ds) (2 ^ (w * Z.of_nat n))) by lia.
  apply Z.mod_pow2_bits_high. lia.
Qed.

(* the converse direction: digit k, bit j *)
Lemma testbit_uval_digit w n ds k j : 0 < w -> wf w n ds -> 0 <= j < w ->
  Z.testbit (uval w ds) (w * Z.of_nat k + j) = Z.testbit (nth k ds 0) j.
Proof.
  intros Hw H Hj. rewrite (testbit_uval w n) by (auto; nia).
  replace (w * Z.of_nat k + j) with (j + Z.of_nat k * w) by lia.
  rewrite Z_div_plus_full, Z_mod_plus_full by lia.
  rewrite Z.div_small, Z.mod_small by lia. rewrite Z.add_0_l, Nat2Z.id. reflexivity.
Qed.

(* two well-formed lists with the same bits are identical *)
Lemma wf_eq_bits w n a b : 0 < w -> wf w n a -> wf w n b ->
  (forall i, 0 <= i < w * Z.of_nat n -> Z.testbit (uval w a) i = Z.testbit (uval w b) i) -> a = b.
Proof.
  intros Hw Ha Hb H. apply (uval_inj w n); auto; try lia.
  apply Z.bits_inj'. intros i Hi. destruct (Z_lt_le_dec i (w * Z.of_nat n)).
  - apply H. lia.
  - rewrite !(testbit_uval_high w n) by auto. reflexivity.
Qed.

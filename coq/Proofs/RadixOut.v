(* Proofs/RadixOut.v — Model/RadixOut.v meets the specification of Proofs/RadixSpec.v:
   to_radix_le produces the canonical digit sequence on every dispatch path. *)
From Bnum Require Import Base Prim.
From Bnum.Model Require Import Digit Core Shift AddSub Mul Div Bits RadixOut.
From Bnum.Proofs Require Import RadixSpec RadixOutDeps.

Local Ltac Zify.zify_post_hook ::= Z.div_mod_to_equations.

(* ---------- machine-word facts ---------- *)

Lemma as_u8_small x : 0 <= x < 256 -> as_u8 x = x.
Proof. intros; unfold as_u8; apply Z.mod_small; lia. Qed.

Lemma land_mask x b : 0 <= b -> u_and x (2 ^ b - 1) = x mod 2 ^ b.
Proof.
  intros Hb. unfold u_and. replace (2 ^ b - 1) with (Z.ones b) by (rewrite Z.ones_equiv; lia).
  apply Z.land_ones; lia.
Qed.

Lemma bit_mask_eq w bits : 0 <= bits < w -> bit_mask w bits = 2 ^ bits - 1.
Proof.
  intros H. unfold bit_mask, u_shl, B. rewrite Z.mul_1_l, Z.mod_small; [reflexivity|].
  split; [apply Z.pow_nonneg; lia | apply Z.pow_lt_mono_r; lia].
Qed.

Lemma pow2_pos k : 0 <= k -> 0 < 2 ^ k.
Proof. intros; apply Z.pow_pos_nonneg; lia. Qed.

Lemma pow2_le_256 b : 0 <= b <= 8 -> 2 ^ b <= 256.
Proof. intros H. change 256 with (2 ^ 8). apply Z.pow_le_mono_r; lia. Qed.

Lemma pow2_ge_2 b : 1 <= b -> 2 <= 2 ^ b.
Proof. intros H. change 2 with (2 ^ 1) at 1. apply Z.pow_le_mono_r; lia. Qed.

(* ---------- digits of one machine word: fixed count and until zero ---------- *)

Lemma radix_chunk_spec radix : 2 <= radix <= 256 -> forall cnt r, 0 <= r ->
  digits_in radix (radix_chunk cnt radix r) /\ length (radix_chunk cnt radix r) = cnt /\
  horner_le radix (radix_chunk cnt radix r) = r mod radix ^ Z.of_nat cnt.
Proof.
  intros Hr. induction cnt as [|cnt IH]; intros r H0; cbn [radix_chunk horner_le length].
  - change (Z.of_nat 0) with 0. rewrite Z.pow_0_r, Z.mod_1_r. repeat split. constructor.
  - assert (Hd : 0 <= r mod radix < radix) by (apply Z.mod_pos_bound; lia).
    rewrite as_u8_small by lia.
    destruct (IH (r / radix) ltac:(apply Z.div_pos; lia)) as (I1 & I2 & I3).
    split; [constructor; assumption|]. split; [congruence|].
    rewrite I3, Nat2Z.inj_succ, Z.pow_succ_r by lia.
    rewrite Z.rem_mul_r; [reflexivity | lia | apply Z.pow_pos_nonneg; lia].
Qed.

Lemma radix_top_spec radix : 2 <= radix <= 256 -> forall fuel r, 0 <= r < 2 ^ Z.of_nat fuel ->
  exists l, radix_top fuel radix r = Some l /\ digits_in radix l /\ horner_le radix l = r /\
            (0 < r -> last l 0 <> 0) /\ (r = 0 -> l = []).
Proof.
  intros Hr. induction fuel as [|fuel IH]; intros r H; cbn [radix_top].
  - change (Z.of_nat 0) with 0 in H. rewrite Z.pow_0_r in H. assert (r = 0) by lia. subst r.
    exists []. cbn. repeat split; try constructor; try lia.
  - destruct (Z.eqb_spec r 0) as [E|NE].
    + subst r. exists []. cbn. repeat split; try constructor; try lia.
    + rewrite Nat2Z.inj_succ, Z.pow_succ_r in H by lia.
      assert (Hq : 0 <= r / radix < 2 ^ Z.of_nat fuel).
      { split; [apply Z.div_pos; lia|]. apply Z.div_lt_upper_bound; nia. }
      destruct (IH _ Hq) as (l & E & D & V & L & Zr). rewrite E. cbn [option_map].
      assert (Hd : 0 <= r mod radix < radix) by (apply Z.mod_pos_bound; lia).
      rewrite as_u8_small by lia.
      exists (r mod radix :: l). split; [reflexivity|]. split; [constructor; assumption|].
      split; [cbn [horner_le]; rewrite V; pose proof (Z.div_mod r radix); lia|].
      split; [|intros; lia]. intros _.
      destruct (Z.eq_dec (r / radix) 0) as [Eq|Nq].
      * rewrite (Zr Eq). cbn [last]. pose proof (Z.div_mod r radix). lia.
      * destruct l as [|e l']; [exfalso; apply (L ltac:(lia)); reflexivity|].
        cbn [last]. apply L. lia.
Qed.

Lemma bitwise_chunk_eq bits : 0 <= bits -> forall cnt d,
  bitwise_chunk cnt bits (2 ^ bits - 1) d = radix_chunk cnt (2 ^ bits) d.
Proof.
  intros Hb. induction cnt as [|cnt IH]; intros d; cbn [bitwise_chunk radix_chunk]; [reflexivity|].
  rewrite land_mask by lia. unfold u_shr. rewrite IH. reflexivity.
Qed.

Lemma bitwise_top_eq bits : 0 <= bits -> forall fuel r,
  bitwise_top fuel bits (2 ^ bits - 1) r = radix_top fuel (2 ^ bits) r.
Proof.
  intros Hb. induction fuel as [|fuel IH]; intros r; cbn [bitwise_top radix_top]; [reflexivity|].
  rewrite land_mask by lia. unfold u_shr. rewrite IH. reflexivity.
Qed.

(* ---------- digit arrays: zero test, index of the last non-zero digit ---------- *)

Lemma uval_nonneg w ds : 0 <= w -> Forall (digit_ok w) ds -> 0 <= uval w ds.
Proof.
  intros Hw H. apply (uval_bounds w (length ds) ds Hw). split; [reflexivity | assumption].
Qed.

Lemma uval_zeros w l : Forall (fun d => d = 0) l -> uval w l = 0.
Proof. induction 1 as [|d t Hd Ht IH]; cbn [uval]; [reflexivity | subst; rewrite IH; lia]. Qed.

Lemma is_zero_uval w ds : 0 <= w -> Forall (digit_ok w) ds -> (is_zero ds = true <-> uval w ds = 0).
Proof.
  intros Hw H. induction H as [|d t Hd Ht IH]; cbn [is_zero uval]; [tauto|].
  pose proof (B_pos w Hw). pose proof (uval_nonneg w t Hw Ht). unfold digit_ok in Hd.
  destruct (Z.eqb_spec d 0) as [E|NE].
  - subst d. rewrite IH. split; intros; nia.
  - split; [discriminate | intros; nia].
Qed.

Lemma ldi_from_spec ds : forall i index,
  let k := last_digit_index_from i ds index in
  (k = index /\ Forall (fun d => d = 0) ds) \/
  (exists j, k = (i + j)%nat /\ (j < length ds)%nat /\ nth j ds 0 <> 0 /\
             Forall (fun d => d = 0) (skipn (S j) ds)).
Proof.
  induction ds as [|d r IH]; intros i index; cbn [last_digit_index_from].
  - left. split; [reflexivity | constructor].
  - specialize (IH (S i) (if d =? 0 then index else i)). cbv zeta in IH.
    destruct IH as [[E F] | (j & E & L & N & F)].
    + destruct (Z.eqb_spec d 0) as [Ed|Nd].
      * left. split; [exact E | constructor; assumption].
      * right. exists O. split; [lia|]. split; [cbn; lia|]. split; [exact Nd | exact F].
    + right. exists (S j). split; [lia|]. split; [cbn [length]; lia|]. split; [exact N | exact F].
Qed.

Lemma ldi_spec ds : ds <> [] ->
  let k := last_digit_index ds in
  (k < length ds)%nat /\ Forall (fun d => d = 0) (skipn (S k) ds) /\ (k = O \/ nth k ds 0 <> 0).
Proof.
  intros Hne. destruct ds as [|d r]; [congruence|]. cbn [last_digit_index].
  destruct (ldi_from_spec r 1 0) as [[E F] | (j & E & L & N & F)]; cbv zeta; rewrite E.
  - split; [cbn; lia|]. split; [exact F | left; reflexivity].
  - split; [cbn [length]; lia|]. split; [exact F | right; exact N].
Qed.

Lemma firstn_S_nth (ds : list Z) k : (k < length ds)%nat -> firstn (S k) ds = firstn k ds ++ [nth k ds 0].
Proof.
  revert k. induction ds as [|d r IH]; intros k Hk; [cbn in Hk; lia|].
  destruct k as [|k]; [reflexivity|]. cbn [length] in Hk.
  change (firstn (S (S k)) (d :: r)) with (d :: firstn (S k) r).
  rewrite IH by lia. reflexivity.
Qed.

(* value of an array through its last non-zero digit *)
Lemma uval_ldi w ds : 0 <= w -> ds <> [] ->
  let k := last_digit_index ds in
  uval w ds = uval w (firstn k ds) + Mod w k * nth k ds 0.
Proof.
  intros Hw Hne. cbv zeta. destruct (ldi_spec ds Hne) as (L & F & _).
  set (k := last_digit_index ds) in *.
  rewrite <- (firstn_skipn (S k) ds) at 1. rewrite uval_app by lia.
  rewrite (uval_zeros w _ F), firstn_S_nth by lia. rewrite uval_app by lia.
  rewrite firstn_length_le by lia. cbn [uval]. ring.
Qed.

Lemma Forall_firstn {A} (P : A -> Prop) k l : Forall P l -> Forall P (firstn k l).
Proof.
  intros H. revert k. induction H as [|x l Hx Hl IH]; intros [|k]; cbn [firstn]; constructor; auto.
Qed.

Lemma Forall_nth_ok w ds k : Forall (digit_ok w) ds -> 0 <= w -> digit_ok w (nth k ds 0).
Proof.
  intros H Hw. revert k. induction H as [|x l Hx Hl IH]; intros [|k]; cbn [nth]; auto;
    unfold digit_ok; pose proof (B_pos w Hw); lia.
Qed.

Lemma uval_firstn_lt w k ds : 0 <= w -> Forall (digit_ok w) ds -> (k <= length ds)%nat ->
  0 <= uval w (firstn k ds) < Mod w k.
Proof.
  intros Hw H Hk. apply uval_bounds; [lia|]. split; [apply firstn_length_le; lia | apply Forall_firstn; exact H].
Qed.

(* a non-zero array has a non-zero digit at last_digit_index *)
Lemma ldi_top_nonzero w ds : 0 <= w -> Forall (digit_ok w) ds -> uval w ds <> 0 ->
  nth (last_digit_index ds) ds 0 <> 0.
Proof.
  intros Hw H Hv. assert (Hne : ds <> []) by (intros ->; apply Hv; reflexivity).
  destruct (ldi_spec ds Hne) as (L & F & [E|N]); [|exact N].
  intros Hz. apply Hv. rewrite (uval_ldi w ds Hw Hne). rewrite Hz, E. cbn [firstn uval]. lia.
Qed.

(* `copy.last_digit_index() > 0` is `copy >= 2^w`; otherwise the value is digit 0 *)
Lemma ldi_pos_iff w ds : 0 < w -> Forall (digit_ok w) ds -> ds <> [] ->
  ((0 <? last_digit_index ds)%nat = true -> B w <= uval w ds) /\
  ((0 <? last_digit_index ds)%nat = false -> uval w ds = hd 0 ds /\ uval w ds < B w).
Proof.
  intros Hw H Hne. destruct (ldi_spec ds Hne) as (L & F & D).
  pose proof (uval_ldi w ds ltac:(lia) Hne) as Hu. cbv zeta in Hu.
  set (k := last_digit_index ds) in *.
  pose proof (Forall_nth_ok w ds k H ltac:(lia)) as Hd. unfold digit_ok in Hd.
  pose proof (uval_firstn_lt w k ds ltac:(lia) H ltac:(lia)) as Hf.
  split; intros Hk.
  - apply Nat.ltb_lt in Hk. destruct D as [E|N]; [lia|].
    destruct k as [|k']; [lia|]. rewrite Mod_S in Hu by lia.
    pose proof (Mod_pos w k' ltac:(lia)). pose proof (B_pos w ltac:(lia)).
    assert (1 <= Mod w k' * nth (S k') ds 0) by nia.
    rewrite <- Z.mul_assoc in Hu. nia.
  - apply Nat.ltb_ge in Hk. assert (k = O) by lia. rewrite H0 in Hu. cbn [firstn uval] in Hu.
    rewrite Mod_0 in Hu. rewrite H0 in Hd. destruct ds as [|d r]; [congruence|]. cbn [nth hd] in *. lia.
Qed.

(* ---------- radix_base_half ---------- *)

Lemma radix_base_half_loop_spec w radix : 0 < w -> 2 <= radix -> forall fuel base power,
  base = radix ^ Z.of_nat power -> base < B w -> Z.of_nat fuel + Z.of_nat power >= w + 1 ->
  exists base' power', radix_base_half_loop fuel w radix base power = Some (base', power') /\
     base' = radix ^ Z.of_nat power' /\ base' < B w /\ (power <= power')%nat.
Proof.
  intros Hw Hr. induction fuel as [|fuel IH]; intros base power Hb Hlt Hf.
  - exfalso. assert (B w < 2 ^ Z.of_nat power) by (unfold B; apply Z.pow_lt_mono_r; lia).
    assert (2 ^ Z.of_nat power <= radix ^ Z.of_nat power) by (apply Z.pow_le_mono_l; lia). lia.
  - cbn [radix_base_half_loop].
    destruct ((base * radix <? B w) && (base * radix <=? half_bits_max w)) eqn:C.
    + apply andb_true_iff in C. destruct C as [C1 _]. apply Z.ltb_lt in C1.
      assert (P1 : base * radix = radix ^ Z.of_nat (S power))
        by (rewrite Nat2Z.inj_succ, Z.pow_succ_r by lia; subst base; ring).
      destruct (IH (base * radix) (S power) P1 C1 ltac:(lia)) as (b' & p' & E & E1 & E2 & E3).
      exists b', p'. repeat split; auto. lia.
    + exists base, power. repeat split; auto.
Qed.

Lemma radix_base_half_spec w radix : 0 < w -> 2 <= radix < B w ->
  exists base power, radix_base_half w radix = Some (base, power) /\
     base = radix ^ Z.of_nat power /\ base < B w /\ (1 <= power)%nat.
Proof.
  intros Hw Hr. unfold radix_base_half. rewrite Z.mod_small by lia.
  apply radix_base_half_loop_spec; try lia.
  all: change (Z.of_nat 1) with 1; rewrite Z.pow_1_r; reflexivity.
Qed.

(* ---------- to_radix_digits_le: repeated division by radix^power ---------- *)

Lemma radix_digits_loop_S f w base power radix copy :
  radix_digits_loop (S f) w base power radix copy =
  if (0 <? last_digit_index copy)%nat then
    let '(q, r) := div_rem_digit w copy base in
    option_map (app (radix_chunk power radix r)) (radix_digits_loop f w base power radix q)
  else radix_top (Z.to_nat w) radix (hd 0 copy).
Proof. reflexivity. Qed.

Lemma radix_digits_loop_spec (HD : div_digit_spec) w n radix base power :
  0 < w -> 2 <= radix <= 256 -> base = radix ^ Z.of_nat power -> (1 <= power)%nat -> base < B w ->
  forall fuel copy, wf w n copy -> 0 < uval w copy < 2 ^ Z.of_nat fuel ->
  exists l, radix_digits_loop (S fuel) w base power radix copy = Some l /\
            digits_in radix l /\ horner_le radix l = uval w copy /\ last l 0 <> 0.
Proof.
  intros Hw Hr Hb Hp Hlt.
  assert (Hb2 : 2 <= base).
  { subst base. replace (Z.of_nat power) with (1 + Z.of_nat (power - 1)) by lia.
    rewrite Z.pow_add_r, Z.pow_1_r by lia.
    assert (0 < radix ^ Z.of_nat (power - 1)) by (apply Z.pow_pos_nonneg; lia). nia. }
  induction fuel as [|fuel IH]; intros copy Hwf Hv.
  - change (Z.of_nat 0) with 0 in Hv. rewrite Z.pow_0_r in Hv. lia.
  - assert (Hne : copy <> []).
    { intros ->. cbn [uval] in Hv. lia. }
    destruct Hwf as [Hlen Hall].
    destruct (ldi_pos_iff w copy Hw Hall Hne) as [Ht Hf].
    rewrite radix_digits_loop_S.
    destruct (0 <? last_digit_index copy)%nat eqn:C.
    + specialize (Ht eq_refl).
      destruct (HD w n copy base Hw (conj Hlen Hall) ltac:(lia)) as (Q1 & Q2 & Q3).
      destruct (div_rem_digit w copy base) as [q r]. cbn [fst snd] in Q1, Q2, Q3.
      rewrite Nat2Z.inj_succ, Z.pow_succ_r in Hv by lia.
      assert (Hq : 0 < uval w q < 2 ^ Z.of_nat fuel).
      { rewrite Q2. split.
        - apply Z.div_str_pos. lia.
        - apply Z.div_lt_upper_bound; nia. }
      destruct (IH q Q1 Hq) as (l & E & D & V & L). rewrite E. cbn [option_map].
      assert (Hr0 : 0 <= r < base) by (rewrite Q3; apply Z.mod_pos_bound; lia).
      destruct (radix_chunk_spec radix Hr power r ltac:(lia)) as (C1 & C2 & C3).
      exists (radix_chunk power radix r ++ l). split; [reflexivity|].
      split; [apply digits_in_app; split; assumption|].
      split.
      * rewrite horner_app, C2, C3, V, <- Hb, Q2, Q3.
        rewrite (Z.mod_small (uval w copy mod base)) by (apply Z.mod_pos_bound; lia).
        pose proof (Z.div_mod (uval w copy) base). lia.
      * rewrite last_app_nonempty; [exact L|]. intros ->. apply L. reflexivity.
    + destruct (Hf eq_refl) as [Hh Hlt']. rewrite <- Hh.
      destruct (radix_top_spec radix Hr (Z.to_nat w) (uval w copy)) as (l & E & D & V & L & _).
      { rewrite Z2Nat.id by lia. fold (B w). lia. }
      exists l. repeat split; auto. apply L. lia.
Qed.

Lemma B_ge_256 w : 8 <= w -> 256 <= B w.
Proof. intros. unfold B. change 256 with (2 ^ 8). apply Z.pow_le_mono_r; lia. Qed.

Lemma to_radix_digits_le_spec (HD : div_digit_spec) w n a radix :
  8 <= w -> wf w n a -> uval w a <> 0 -> 2 <= radix <= 255 ->
  exists l, to_radix_digits_le w a radix = Some l /\
            digits_in radix l /\ horner_le radix l = uval w a /\ last l 0 <> 0.
Proof.
  intros Hw Hwf Hnz Hr. pose proof (B_ge_256 w Hw) as HB.
  unfold to_radix_digits_le.
  destruct (radix_base_half_spec w radix ltac:(lia) ltac:(lia)) as (base & power & E & E1 & E2 & E3).
  rewrite E. rewrite Z.mod_small by lia.
  pose proof (uval_bounds w n a ltac:(lia) Hwf) as Hbd.
  apply (radix_digits_loop_spec HD w n radix base power); try lia; try assumption.
  split; [lia|]. rewrite (wf_length _ _ _ Hwf). unfold bits.
  rewrite Z2Nat.id by (apply Z.mul_nonneg_nonneg; lia). fold (Mod w n). lia.
Qed.

(* ---------- to_bitwise_digits_le: log2(radix) divides the digit width ---------- *)

Lemma flat_chunk_spec w R cnt : 0 < w -> 2 <= R <= 256 -> R ^ Z.of_nat cnt = B w ->
  forall ds rest, Forall (digit_ok w) ds ->
    digits_in R (flat_map (radix_chunk cnt R) ds) /\
    horner_le R (flat_map (radix_chunk cnt R) ds ++ rest) = uval w ds + Mod w (length ds) * horner_le R rest.
Proof.
  intros Hw HR HB. induction ds as [|d t IH]; intros rest H.
  - cbn [flat_map app uval length]. rewrite Mod_0. split; [constructor | lia].
  - inversion H as [|? ? Hd Ht]; subst. unfold digit_ok in Hd.
    destruct (radix_chunk_spec R HR cnt d ltac:(lia)) as (C1 & C2 & C3).
    destruct (IH rest Ht) as (I1 & I2).
    cbn [flat_map]. split; [apply digits_in_app; split; assumption|].
    rewrite <- app_assoc, horner_app, C2, C3, I2, HB, Z.mod_small by lia.
    cbn [uval length]. rewrite Mod_S by lia. ring.
Qed.

Lemma to_bitwise_spec w n a bits :
  0 < w -> 1 <= bits <= 8 -> bits < w -> w mod bits = 0 -> wf w n a -> uval w a <> 0 ->
  exists l, to_bitwise_digits_le w a bits = Some l /\
            digits_in (2 ^ bits) l /\ horner_le (2 ^ bits) l = uval w a /\ last l 0 <> 0.
Proof.
  intros Hw Hb Hbw Hdiv [Hlen Hall] Hnz.
  assert (Hne : a <> []) by (intros ->; apply Hnz; reflexivity).
  pose proof (pow2_ge_2 bits ltac:(lia)) as HR2. pose proof (pow2_le_256 bits ltac:(lia)) as HR256.
  unfold to_bitwise_digits_le. rewrite bit_mask_eq by lia.
  rewrite bitwise_top_eq by lia.
  set (k := last_digit_index a). set (R := 2 ^ bits) in *.
  destruct (ldi_spec a Hne) as (L & F & _). fold k in L, F.
  pose proof (Forall_nth_ok w a k Hall ltac:(lia)) as Hd. unfold digit_ok in Hd.
  pose proof (ldi_top_nonzero w a ltac:(lia) Hall Hnz) as Htop. fold k in Htop.
  destruct (radix_top_spec R ltac:(lia) (Z.to_nat w) (nth k a 0)) as (l & E & D & V & La & _).
  { rewrite Z2Nat.id by lia. exact Hd. }
  rewrite E. cbn [option_map].
  assert (Hcnt : R ^ Z.of_nat (Z.to_nat (w / bits)) = B w).
  { rewrite Z2Nat.id by (apply Z.div_pos; lia). unfold R, B. rewrite <- Z.pow_mul_r; [|lia|apply Z.div_pos; lia].
    f_equal. pose proof (Z.div_mod w bits). lia. }
  assert (Hfl : flat_map (bitwise_chunk (Z.to_nat (w / bits)) bits (R - 1)) (firstn k a)
                = flat_map (radix_chunk (Z.to_nat (w / bits)) R) (firstn k a)).
  { apply flat_map_ext. intros d. apply bitwise_chunk_eq. lia. }
  rewrite Hfl.
  destruct (flat_chunk_spec w R _ Hw ltac:(lia) Hcnt (firstn k a) l (Forall_firstn _ k a Hall)) as (F1 & F2).
  eexists. split; [reflexivity|]. split; [apply digits_in_app; split; assumption|].
  split.
  - rewrite F2, V, firstn_length_le by lia. symmetry. apply (uval_ldi w a ltac:(lia) Hne).
  - rewrite last_app_nonempty; [apply La; lia|]. intros ->. cbn [horner_le] in V. lia.
Qed.

(* ---------- byte copy: radix 256 on 8-bit digits ---------- *)

Lemma map_as_u8_id l : Forall (digit_ok 8) l -> map as_u8 l = l.
Proof.
  induction 1 as [|d t Hd Ht IH]; cbn [map]; [reflexivity|].
  rewrite IH, as_u8_small; [reflexivity|]. exact Hd.
Qed.

Lemma byte_copy_spec n a : wf 8 n a -> uval 8 a <> 0 ->
  let l := map as_u8 (firstn (S (last_digit_index a)) a) in
  digits_in 256 l /\ horner_le 256 l = uval 8 a /\ last l 0 <> 0.
Proof.
  intros [Hlen Hall] Hnz. cbv zeta.
  assert (Hne : a <> []) by (intros ->; apply Hnz; reflexivity).
  rewrite map_as_u8_id by (apply Forall_firstn; exact Hall).
  destruct (ldi_spec a Hne) as (L & F & _). set (k := last_digit_index a) in *.
  split; [|split].
  - apply Forall_firstn. exact Hall.
  - change 256 with (B 8). rewrite horner_uval.
    rewrite <- (firstn_skipn (S k) a) at 2. rewrite uval_app, (uval_zeros 8 _ F) by lia. lia.
  - rewrite firstn_S_nth by lia. rewrite last_app_nonempty by discriminate. cbn [last].
    apply (ldi_top_nonzero 8 a ltac:(lia) Hall Hnz).
Qed.

(* ---------- to_inexact_bitwise_digits_le: log2(radix) does not divide the digit width ---------- *)

(* value-level facts about the window  V = r + c * 2^rbits  (r: leftover bits, c: the new digit) *)

Lemma land_disjoint r k y : 0 <= k -> 0 <= r < 2 ^ k -> Z.land r (y * 2 ^ k) = 0.
Proof.
  intros Hk Hr. apply Z.bits_inj'. intros n Hn. rewrite Z.land_spec, Z.bits_0.
  destruct (Z.lt_ge_cases n k) as [L|G].
  - rewrite Z.mul_pow2_bits_low by lia. apply andb_false_r.
  - rewrite <- (Z.mod_small r (2 ^ k)) by lia. rewrite Z.mod_pow2_bits_high by lia. reflexivity.
Qed.

Lemma lor_disjoint r k y : 0 <= k -> 0 <= r < 2 ^ k -> Z.lor r (y * 2 ^ k) = r + y * 2 ^ k.
Proof.
  intros Hk Hr. pose proof (land_disjoint r k y Hk Hr) as Hl.
  rewrite <- (Z.lxor_lor _ _ Hl), <- (Z.add_nocarry_lxor _ _ Hl). reflexivity.
Qed.

(* r |= c << rbits  keeps exactly the low w bits of the window *)
Lemma window_or w c r rbits : 0 <= rbits < w -> 0 <= r < 2 ^ rbits -> 0 <= c ->
  u_or r (u_shl w c rbits) = (r + c * 2 ^ rbits) mod 2 ^ w.
Proof.
  intros Hb Hr Hc. unfold u_or, u_shl, B.
  replace (2 ^ w) with (2 ^ (w - rbits) * 2 ^ rbits) by (rewrite <- Z.pow_add_r by lia; f_equal; lia).
  assert (0 < 2 ^ rbits) by (apply pow2_pos; lia). assert (0 < 2 ^ (w - rbits)) by (apply pow2_pos; lia).
  rewrite Z.mul_mod_distr_r by lia. rewrite lor_disjoint by lia.
  rewrite (Z.mul_comm (2 ^ (w - rbits)) (2 ^ rbits)), Z.rem_mul_r by lia.
  rewrite Z_mod_plus_full, (Z.mod_small r) by lia.
  rewrite Z.div_add, (Z.div_small r) by lia. rewrite Z.add_0_l. ring.
Qed.

Lemma mod_mod_pow2 v a b : 0 <= b <= a -> (v mod 2 ^ a) mod 2 ^ b = v mod 2 ^ b.
Proof.
  intros H. replace (2 ^ a) with (2 ^ b * 2 ^ (a - b)) by (rewrite <- Z.pow_add_r by lia; f_equal; lia).
  assert (0 < 2 ^ b) by (apply pow2_pos; lia). assert (0 < 2 ^ (a - b)) by (apply pow2_pos; lia).
  rewrite Z.rem_mul_r by lia. rewrite Z.mul_comm, Z_mod_plus_full. apply Z.mod_mod. lia.
Qed.

(* after the first digit of a straddling window only bits of c remain *)
Lemma window_div c r k bits : 0 <= k < bits -> 0 <= r < 2 ^ k ->
  (r + c * 2 ^ k) / 2 ^ bits = c / 2 ^ (bits - k).
Proof.
  intros Hk Hr. replace (2 ^ bits) with (2 ^ k * 2 ^ (bits - k)) by (rewrite <- Z.pow_add_r by lia; f_equal; lia).
  assert (0 < 2 ^ k) by (apply pow2_pos; lia). assert (0 < 2 ^ (bits - k)) by (apply pow2_pos; lia).
  rewrite <- Z.div_div by lia. rewrite Z.div_add, (Z.div_small r) by lia. reflexivity.
Qed.

Lemma inexact_inner_S f w bits mask c r rbits :
  inexact_inner (S f) w bits mask c r rbits =
  if bits <=? rbits then
    match inexact_inner f w bits mask c
            (if w <? rbits then u_shr c (w - (rbits - bits)) else u_shr r bits) (rbits - bits) with
    | Some (out, r', rbits') => Some (as_u8 (u_and r mask) :: out, r', rbits')
    | None => None
    end
  else Some ([], r, rbits).
Proof. reflexivity. Qed.

Definition window_post (bits : Z) (o : list Z) (r' rb' : Z) (V tot : Z) : Prop :=
  digits_in (2 ^ bits) o /\ 0 <= rb' < bits /\ 0 <= r' < 2 ^ rb' /\
  horner_le (2 ^ bits) o + (2 ^ bits) ^ Z.of_nat (length o) * r' = V /\
  bits * Z.of_nat (length o) + rb' = tot.

(* the inner loop once the window fits the machine word: it emits the base-2^bits digits of r *)
Lemma inexact_inner_exact w bits c : 1 <= bits <= 8 -> forall fuel r rbits,
  0 <= rbits <= w -> rbits < Z.of_nat fuel -> 0 <= r < 2 ^ rbits ->
  exists o r' rb', inexact_inner fuel w bits (2 ^ bits - 1) c r rbits = Some (o, r', rb') /\
                   window_post bits o r' rb' r rbits.
Proof.
  intros Hb. pose proof (pow2_le_256 bits ltac:(lia)) as H256. pose proof (pow2_pos bits ltac:(lia)) as HRp.
  induction fuel as [|fuel IH]; intros r rbits Hrb Hf Hr; [lia|].
  rewrite inexact_inner_S. destruct (Z.leb_spec bits rbits) as [Le|Gt].
  - destruct (Z.ltb_spec w rbits) as [Lt|_]; [lia|]. unfold u_shr.
    assert (Hr1 : 0 <= r / 2 ^ bits < 2 ^ (rbits - bits)).
    { split; [apply Z.div_pos; lia|]. apply Z.div_lt_upper_bound; [lia|].
      rewrite <- Z.pow_add_r by lia. replace (bits + (rbits - bits)) with rbits by lia. lia. }
    destruct (IH (r / 2 ^ bits) (rbits - bits) ltac:(lia) ltac:(lia) Hr1) as (o & r' & rb' & E & D & Hrb' & Hr' & V & T).
    rewrite E. rewrite land_mask by lia.
    assert (Hd : 0 <= r mod 2 ^ bits < 2 ^ bits) by (apply Z.mod_pos_bound; lia).
    rewrite as_u8_small by lia.
    exists (r mod 2 ^ bits :: o), r', rb'. split; [reflexivity|].
    split; [constructor; assumption|]. split; [assumption|]. split; [assumption|]. split.
    + cbn [horner_le length]. rewrite Nat2Z.inj_succ, Z.pow_succ_r by lia.
      pose proof (Z.div_mod r (2 ^ bits) ltac:(lia)).
      replace (r mod 2 ^ bits + 2 ^ bits * horner_le (2 ^ bits) o + 2 ^ bits * (2 ^ bits) ^ Z.of_nat (length o) * r')
        with (r mod 2 ^ bits + 2 ^ bits * (horner_le (2 ^ bits) o + (2 ^ bits) ^ Z.of_nat (length o) * r')) by ring.
      rewrite V. lia.
    + cbn [length]. lia.
  - exists [], r, rbits. split; [reflexivity|]. split; [constructor|].
    split; [lia|]. split; [lia|]. cbn [horner_le length]. change (Z.of_nat 0) with 0. rewrite Z.pow_0_r. lia.
Qed.

(* one digit c consumed: r |= c << rbits; rbits += w; inner loop *)
Lemma inexact_digit_step w bits : 1 <= bits <= 8 -> bits < w -> forall c r rbits,
  0 <= c < B w -> 0 <= rbits < bits -> 0 <= r < 2 ^ rbits ->
  exists o r' rb',
    inexact_inner (Z.to_nat (2 * w)) w bits (2 ^ bits - 1) c (u_or r (u_shl w c rbits)) (rbits + w) = Some (o, r', rb') /\
    window_post bits o r' rb' (r + c * 2 ^ rbits) (rbits + w).
Proof.
  intros Hb Hbw c r rbits Hc Hrb Hr. unfold B in Hc.
  pose proof (pow2_le_256 bits ltac:(lia)) as H256. pose proof (pow2_pos bits ltac:(lia)) as HRp.
  destruct (Z.eq_dec rbits 0) as [E0|N0].
  - subst rbits. rewrite Z.pow_0_r in *. assert (r = 0) by lia. subst r.
    rewrite window_or by (rewrite ?Z.pow_0_r; lia). rewrite Z.pow_0_r, Z.mul_1_r, !Z.add_0_l, Z.mod_small by lia.
    apply inexact_inner_exact; try lia.
  - rewrite window_or by lia. set (V := r + c * 2 ^ rbits).
    replace (Z.to_nat (2 * w)) with (S (Z.to_nat (2 * w - 1))) by lia.
    rewrite inexact_inner_S.
    destruct (Z.leb_spec bits (rbits + w)) as [_|Gt]; [|lia].
    destruct (Z.ltb_spec w (rbits + w)) as [_|Ge]; [|lia].
    replace (w - (rbits + w - bits)) with (bits - rbits) by lia. unfold u_shr.
    assert (Hr1 : 0 <= c / 2 ^ (bits - rbits) < 2 ^ (rbits + w - bits)).
    { assert (0 < 2 ^ (bits - rbits)) by (apply pow2_pos; lia).
      split; [apply Z.div_pos; lia|]. apply Z.div_lt_upper_bound; [lia|].
      rewrite <- Z.pow_add_r by lia. replace (bits - rbits + (rbits + w - bits)) with w by lia. lia. }
    destruct (inexact_inner_exact w bits c Hb (Z.to_nat (2 * w - 1)) (c / 2 ^ (bits - rbits)) (rbits + w - bits)
                ltac:(lia) ltac:(lia) Hr1) as (o & r' & rb' & E & D & Hrb' & Hr' & Vq & T).
    rewrite E. rewrite land_mask, mod_mod_pow2 by lia.
    assert (Hd : 0 <= V mod 2 ^ bits < 2 ^ bits) by (apply Z.mod_pos_bound; lia).
    rewrite as_u8_small by lia.
    exists (V mod 2 ^ bits :: o), r', rb'. split; [reflexivity|].
    split; [constructor; assumption|]. split; [assumption|]. split; [assumption|]. split.
    + cbn [horner_le length]. rewrite Nat2Z.inj_succ, Z.pow_succ_r by lia.
      pose proof (Z.div_mod V (2 ^ bits) ltac:(lia)) as HV.
      replace (V mod 2 ^ bits + 2 ^ bits * horner_le (2 ^ bits) o + 2 ^ bits * (2 ^ bits) ^ Z.of_nat (length o) * r')
        with (V mod 2 ^ bits + 2 ^ bits * (horner_le (2 ^ bits) o + (2 ^ bits) ^ Z.of_nat (length o) * r')) by ring.
      assert (HVd : V / 2 ^ bits = c / 2 ^ (bits - rbits)) by (unfold V; apply window_div; lia).
      rewrite Vq, <- HVd. lia.
    + cbn [length]. lia.
Qed.

Lemma inexact_outer_spec w bits : 1 <= bits <= 8 -> bits < w -> forall ds r rbits,
  Forall (digit_ok w) ds -> 0 <= rbits < bits -> 0 <= r < 2 ^ rbits ->
  exists o r' rb', inexact_outer w bits (2 ^ bits - 1) ds r rbits = Some (o, r', rb') /\
    digits_in (2 ^ bits) o /\ 0 <= rb' < bits /\ 0 <= r' < 2 ^ rb' /\
    horner_le (2 ^ bits) o + (2 ^ bits) ^ Z.of_nat (length o) * r' = r + 2 ^ rbits * uval w ds.
Proof.
  intros Hb Hbw. induction ds as [|c rest IH]; intros r rbits H Hrb Hr.
  - exists [], r, rbits. split; [reflexivity|]. split; [constructor|]. split; [lia|]. split; [lia|].
    cbn [horner_le length uval]. change (Z.of_nat 0) with 0. rewrite Z.pow_0_r. lia.
  - inversion H as [|? ? Hc Hrest]; subst. unfold digit_ok in Hc.
    cbn [inexact_outer].
    destruct (inexact_digit_step w bits Hb Hbw c r rbits Hc Hrb Hr) as (o1 & r1 & rb1 & E1 & D1 & Hrb1 & Hr1 & V1 & T1).
    rewrite E1.
    destruct (IH r1 rb1 Hrest Hrb1 Hr1) as (o2 & r2 & rb2 & E2 & D2 & Hrb2 & Hr2 & V2).
    rewrite E2. exists (o1 ++ o2), r2, rb2. split; [reflexivity|].
    split; [apply digits_in_app; split; assumption|]. split; [assumption|]. split; [assumption|].
    rewrite horner_app, app_length, Nat2Z.inj_add, Z.pow_add_r by lia.
    set (R := 2 ^ bits) in *. set (P1 := R ^ Z.of_nat (length o1)) in *.
    replace (horner_le R o1 + P1 * horner_le R o2 + P1 * R ^ Z.of_nat (length o2) * r2)
      with (horner_le R o1 + P1 * (horner_le R o2 + R ^ Z.of_nat (length o2) * r2)) by ring.
    rewrite V2. cbn [uval].
    assert (HP : P1 * 2 ^ rb1 = 2 ^ rbits * B w).
    { unfold P1, R, B. rewrite <- Z.pow_mul_r, <- !Z.pow_add_r by lia. f_equal. lia. }
    replace (horner_le R o1 + P1 * (r1 + 2 ^ rb1 * uval w rest))
      with (horner_le R o1 + P1 * r1 + (P1 * 2 ^ rb1) * uval w rest) by ring.
    rewrite V1, HP. ring.
Qed.

(* trailing-zero trimming *)
Lemma drop_leading_zeros_spec l :
  exists k, l = repeat 0 k ++ drop_leading_zeros l /\
            (drop_leading_zeros l = [] \/ hd 0 (drop_leading_zeros l) <> 0).
Proof.
  induction l as [|d t IH]; cbn [drop_leading_zeros].
  - exists O. split; [reflexivity | left; reflexivity].
  - destruct (Z.eqb_spec d 0) as [E|N].
    + destruct IH as (k & E1 & E2). exists (S k). subst d. cbn [repeat app]. split; [f_equal; exact E1 | exact E2].
    + exists O. split; [reflexivity | right; exact N].
Qed.

Lemma rev_repeat0 k : rev (repeat 0 k) = repeat 0 k.
Proof.
  induction k as [|k IH]; [reflexivity|]. cbn [repeat rev]. rewrite IH.
  clear IH. induction k as [|k IH]; [reflexivity|]. cbn [repeat app]. f_equal. exact IH.
Qed.

Lemma last_rev_hd (l : list Z) : last (rev l) 0 = hd 0 l.
Proof.
  destruct l as [|x t]; [reflexivity|]. cbn [rev hd]. rewrite last_app_nonempty by discriminate. reflexivity.
Qed.

Lemma trim_spec l :
  exists k, l = trim_trailing_zeros l ++ repeat 0 k /\
            (trim_trailing_zeros l = [] \/ last (trim_trailing_zeros l) 0 <> 0).
Proof.
  unfold trim_trailing_zeros. destruct (drop_leading_zeros_spec (rev l)) as (k & E1 & E2).
  exists k. split.
  - rewrite <- (rev_involutive l) at 1. rewrite E1 at 1. rewrite rev_app_distr, rev_repeat0. reflexivity.
  - destruct E2 as [E2|E2]; [left; rewrite E2; reflexivity | right; rewrite last_rev_hd; exact E2].
Qed.

Lemma to_inexact_spec w n a bits :
  1 <= bits <= 8 -> bits < w -> wf w n a -> uval w a <> 0 ->
  exists l, to_inexact_bitwise_digits_le w a bits = Some l /\
            digits_in (2 ^ bits) l /\ horner_le (2 ^ bits) l = uval w a /\ last l 0 <> 0.
Proof.
  intros Hb Hbw [Hlen Hall] Hnz.
  pose proof (pow2_le_256 bits ltac:(lia)) as H256. pose proof (pow2_pos bits ltac:(lia)) as HRp.
  unfold to_inexact_bitwise_digits_le. rewrite bit_mask_eq by lia.
  destruct (inexact_outer_spec w bits Hb Hbw a 0 0 Hall ltac:(lia) ltac:(rewrite Z.pow_0_r; lia))
    as (o & r' & rb' & E & D & Hrb' & Hr' & V).
  rewrite E. rewrite Z.pow_0_r, Z.add_0_l, Z.mul_1_l in V.
  set (out := if rb' =? 0 then o else o ++ [as_u8 r']).
  assert (Hout : digits_in (2 ^ bits) out /\ horner_le (2 ^ bits) out = uval w a).
  { unfold out. destruct (Z.eqb_spec rb' 0) as [E0|N0].
    - subst rb'. rewrite Z.pow_0_r in Hr'. assert (r' = 0) by lia. subst r'. split; [assumption | lia].
    - assert (r' < 2 ^ bits).
      { assert (2 ^ rb' <= 2 ^ bits) by (apply Z.pow_le_mono_r; lia). lia. }
      rewrite as_u8_small by lia. split.
      + apply digits_in_app. split; [assumption|]. constructor; [lia | constructor].
      + rewrite horner_app. cbn [horner_le]. lia. }
  destruct Hout as [Do Vo]. destruct (trim_spec out) as (k & Ek & Lk).
  exists (trim_trailing_zeros out). split; [reflexivity|].
  rewrite Ek in Do, Vo. apply digits_in_app in Do. destruct Do as [Dt _].
  rewrite horner_app, horner_repeat0 in Vo.
  split; [assumption|]. split; [lia|].
  destruct Lk as [Lk|Lk]; [|exact Lk]. rewrite Lk in Vo. cbn [horner_le] in Vo. lia.
Qed.

(* ---------- the dispatch of to_radix_le ---------- *)

(* u32::is_power_of_two / ilog2 on the 255 admissible radices: a finite table, checked by computation *)
Definition pow2_check (r : Z) : bool :=
  if u32_is_power_of_two r then (r =? 2 ^ ilog2_u32 r) && (1 <=? ilog2_u32 r) && (ilog2_u32 r <=? 8)
  else negb (r =? 256).
Lemma pow2_table : forallb pow2_check (map Z.of_nat (seq 2 255)) = true.
Proof. vm_compute. reflexivity. Qed.

Lemma pow2_facts r : 2 <= r <= 256 ->
  (u32_is_power_of_two r = true -> r = 2 ^ ilog2_u32 r /\ 1 <= ilog2_u32 r <= 8) /\
  (u32_is_power_of_two r = false -> r <> 256).
Proof.
  intros Hr. pose proof pow2_table as T. rewrite forallb_forall in T.
  specialize (T r). unfold pow2_check in T.
  assert (In r (map Z.of_nat (seq 2 255))).
  { rewrite <- (Z2Nat.id r) by lia. apply in_map. apply in_seq. lia. }
  specialize (T H). split; intros E; rewrite E in T.
  - apply andb_true_iff in T. destruct T as [T T3]. apply andb_true_iff in T. destruct T as [T1 T2]. lia.
  - apply negb_true_iff in T. lia.
Qed.

Lemma radix_in_range_true r m : radix_in_range r m = true <-> 2 <= r <= m.
Proof. unfold radix_in_range. rewrite andb_true_iff, !Z.leb_le. tauto. Qed.

Theorem to_radix_le_ok (HD : div_digit_spec) w n a r :
  8 <= w -> wf w n a -> 2 <= r <= 256 ->
  exists ds, U_to_radix_le w a r = Some (Ret ds) /\ canonical_le r (uval w a) ds.
Proof.
  intros Hw Hwf Hr. unfold U_to_radix_le.
  rewrite (proj2 (radix_in_range_true r 256) Hr). cbn [negb].
  pose proof (uval_bounds w n a ltac:(lia) Hwf) as Hbd.
  destruct Hwf as [Hlen Hall].
  destruct (is_zero a) eqn:Z0.
  - apply (is_zero_uval w a ltac:(lia) Hall) in Z0. rewrite Z0.
    exists [0]. split; [reflexivity | apply canonical_zero; lia].
  - assert (Hnz : uval w a <> 0).
    { intros E. apply (is_zero_uval w a ltac:(lia) Hall) in E. congruence. }
    destruct (pow2_facts r Hr) as [P1 P2].
    destruct (u32_is_power_of_two r) eqn:P.
    + destruct (P1 eq_refl) as [Er Hb]. set (bits := ilog2_u32 r) in *.
      destruct ((w =? 8) && (r =? 256)) eqn:C.
      * apply andb_true_iff in C. destruct C as [C1 C2]. apply Z.eqb_eq in C1, C2. subst w.
        destruct (byte_copy_spec n a (conj Hlen Hall) Hnz) as (D & V & L).
        eexists. split; [reflexivity|]. rewrite C2. apply canonical_exists_pos; auto; lia.
      * assert (Hbw : bits < w).
        { destruct (Z.eq_dec bits w) as [E|N]; [|lia]. exfalso.
          assert (H8 : w = 8) by lia. assert (Hb8 : bits = 8) by lia. rewrite Hb8 in Er.
          change (2 ^ 8) with 256 in Er. rewrite H8, Er in C. vm_compute in C. discriminate C. }
        destruct (Z.eqb_spec (w mod bits) 0) as [Ed|Nd].
        -- destruct (to_bitwise_spec w n a bits ltac:(lia) Hb Hbw Ed (conj Hlen Hall) Hnz) as (l & E & D & V & L).
           rewrite E. exists l. split; [reflexivity|]. rewrite Er. apply canonical_exists_pos; auto; lia.
        -- destruct (to_inexact_spec w n a bits Hb Hbw (conj Hlen Hall) Hnz) as (l & E & D & V & L).
           rewrite E. exists l. split; [reflexivity|]. rewrite Er. apply canonical_exists_pos; auto; lia.
    + pose proof (P2 eq_refl) as N256.
      destruct (Z.eqb_spec r 10) as [E10|N10].
      * subst r.
        destruct (to_radix_digits_le_spec HD w n a 10 Hw (conj Hlen Hall) Hnz ltac:(lia)) as (l & E & D & V & L).
        rewrite E. exists l. split; [reflexivity|]. apply canonical_exists_pos; auto; lia.
      * destruct (to_radix_digits_le_spec HD w n a r Hw (conj Hlen Hall) Hnz ltac:(lia)) as (l & E & D & V & L).
        rewrite E. exists l. split; [reflexivity|]. apply canonical_exists_pos; auto; lia.
Qed.

(* the paths that do not divide need no premise: every power-of-two radix (exact, inexact, byte copy) *)
Theorem to_radix_le_pow2_ok w n a r :
  8 <= w -> wf w n a -> 2 <= r <= 256 -> u32_is_power_of_two r = true ->
  exists ds, U_to_radix_le w a r = Some (Ret ds) /\ canonical_le r (uval w a) ds.
Proof.
  intros Hw Hwf Hr P. unfold U_to_radix_le.
  rewrite (proj2 (radix_in_range_true r 256) Hr). cbn [negb].
  pose proof (uval_bounds w n a ltac:(lia) Hwf) as Hbd.
  destruct Hwf as [Hlen Hall].
  destruct (is_zero a) eqn:Z0.
  - apply (is_zero_uval w a ltac:(lia) Hall) in Z0. rewrite Z0.
    exists [0]. split; [reflexivity | apply canonical_zero; lia].
  - assert (Hnz : uval w a <> 0).
    { intros E. apply (is_zero_uval w a ltac:(lia) Hall) in E. congruence. }
    destruct (pow2_facts r Hr) as [P1 _]. rewrite P.
    destruct (P1 P) as [Er Hb]. set (bits := ilog2_u32 r) in *.
    destruct ((w =? 8) && (r =? 256)) eqn:C.
    + apply andb_true_iff in C. destruct C as [C1 C2]. apply Z.eqb_eq in C1, C2. subst w.
      destruct (byte_copy_spec n a (conj Hlen Hall) Hnz) as (D & V & L).
      eexists. split; [reflexivity|]. rewrite C2. apply canonical_exists_pos; auto; lia.
    + assert (Hbw : bits < w).
      { destruct (Z.eq_dec bits w) as [E|N]; [|lia]. exfalso.
        assert (H8 : w = 8) by lia. assert (Hb8 : bits = 8) by lia. rewrite Hb8 in Er.
          change (2 ^ 8) with 256 in Er. rewrite H8, Er in C. vm_compute in C. discriminate C. }
      destruct (Z.eqb_spec (w mod bits) 0) as [Ed|Nd].
      * destruct (to_bitwise_spec w n a bits ltac:(lia) Hb Hbw Ed (conj Hlen Hall) Hnz) as (l & E & D & V & L).
        rewrite E. exists l. split; [reflexivity|]. rewrite Er. apply canonical_exists_pos; auto; lia.
      * destruct (to_inexact_spec w n a bits Hb Hbw (conj Hlen Hall) Hnz) as (l & E & D & V & L).
        rewrite E. exists l. split; [reflexivity|]. rewrite Er. apply canonical_exists_pos; auto; lia.
Qed.

(* a canonical sequence is never empty *)
Lemma canonical_nonempty r x ds : canonical_le r x ds -> ds <> [].
Proof.
  intros (D & V & Z0 & L) ->. cbn [horner_le] in V. subst x. specialize (Z0 eq_refl). discriminate.
Qed.

(* ---------- to_radix_be, the BInt forwarders ---------- *)

Theorem to_radix_be_rev w a r : U_to_radix_be w a r = oomap (@rev Z) (U_to_radix_le w a r).
Proof. reflexivity. Qed.

Theorem to_radix_be_ok (HD : div_digit_spec) w n a r :
  8 <= w -> wf w n a -> 2 <= r <= 256 ->
  exists ds, U_to_radix_be w a r = Some (Ret (rev ds)) /\ canonical_le r (uval w a) ds.
Proof.
  intros Hw Hwf Hr. destruct (to_radix_le_ok HD w n a r Hw Hwf Hr) as (ds & E & C).
  exists ds. split; [|exact C]. unfold U_to_radix_be. rewrite E. reflexivity.
Qed.

(* signed types: the digits of the two's complement bit pattern, sval mod 2^BITS *)
Theorem I_to_radix_le_ok (HD : div_digit_spec) w n a r :
  8 <= w -> wf w n a -> 2 <= r <= 256 ->
  exists ds, I_to_radix_le w a r = Some (Ret ds) /\ I_to_radix_be w a r = Some (Ret (rev ds)) /\
             canonical_le r (sval w a mod Mod w n) ds.
Proof.
  intros Hw Hwf Hr. destruct (to_radix_le_ok HD w n a r Hw Hwf Hr) as (ds & E & C).
  exists ds. unfold I_to_radix_le, I_to_radix_be, U_to_radix_be. rewrite E. split; [reflexivity|]. split; [reflexivity|].
  rewrite (sval_mod w n a) by (lia || assumption). rewrite Z.mod_small; [exact C|].
  apply uval_bounds; [lia | assumption].
Qed.

(* ---------- strings ---------- *)

Lemma ascii_lower_spec d : 0 <= d < 36 ->
  (d < 10 /\ ascii_lower d = 48 + d) \/ (10 <= d /\ ascii_lower d = 97 + (d - 10)).
Proof. intros H. unfold ascii_lower. destruct (Z.ltb_spec d 10); [left | right]; lia. Qed.

Theorem U_to_str_radix_ok (HD : div_digit_spec) w n a r :
  8 <= w -> wf w n a -> 2 <= r <= 36 ->
  exists ds, canonical_le r (uval w a) ds /\
             U_to_str_radix w a r = Some (Ret (map ascii_lower (rev ds))).
Proof.
  intros Hw Hwf Hr. destruct (to_radix_le_ok HD w n a r Hw Hwf ltac:(lia)) as (ds & E & C).
  exists ds. split; [exact C|]. unfold U_to_str_radix, U_to_radix_be.
  rewrite (proj2 (radix_in_range_true r 36) Hr), E. reflexivity.
Qed.

Lemma sval_nonneg_uval w n a : 0 < w -> wf w n a -> 0 <= sval w a -> uval w a = sval w a.
Proof.
  intros Hw Hwf Hs. pose proof (uval_bounds w n a ltac:(lia) Hwf) as Hbd.
  unfold sval, to_signed in *. rewrite (wf_length _ _ _ Hwf) in *.
  destruct (uval w a <? Mod w n / 2); lia.
Qed.

Theorem I_to_str_radix_ok (HD : div_digit_spec) (HN : is_negative_spec) (HA : unsigned_abs_spec) w n a r :
  8 <= w -> (0 < n)%nat -> wf w n a -> 2 <= r <= 36 ->
  exists ds, canonical_le r (Z.abs (sval w a)) ds /\
             I_to_str_radix w a r =
             Some (Ret ((if sval w a <? 0 then [45] else []) ++ map ascii_lower (rev ds))).
Proof.
  intros Hw Hn Hwf Hr. unfold I_to_str_radix. rewrite (HN w n a ltac:(lia) Hn Hwf).
  destruct (Z.ltb_spec (sval w a) 0) as [Neg|Pos].
  - destruct (HA w n a ltac:(lia) Hn Hwf) as [Hwf' Hv].
    destruct (U_to_str_radix_ok HD w n _ r Hw Hwf' Hr) as (ds & C & E).
    exists ds. rewrite <- Hv. split; [exact C|]. rewrite E. reflexivity.
  - destruct (U_to_str_radix_ok HD w n a r Hw Hwf Hr) as (ds & C & E).
    exists ds. rewrite Z.abs_eq by lia. rewrite <- (sval_nonneg_uval w n a ltac:(lia) Hwf Pos).
    split; [exact C|]. rewrite E. reflexivity.
Qed.

(* ---------- panics exactly for an out-of-range radix ---------- *)

Lemma option_map_Ret_not_panic {A} (x : option A) : option_map Ret x <> Some Panic.
Proof. destruct x; cbn; congruence. Qed.

Theorem U_to_radix_le_panic w a r : U_to_radix_le w a r = Some Panic <-> ~ (2 <= r <= 256).
Proof.
  unfold U_to_radix_le. destruct (radix_in_range r 256) eqn:R; cbn [negb].
  - apply radix_in_range_true in R. split; [|tauto]. intros H. exfalso.
    repeat match type of H with
           | (if ?c then _ else _) = _ => destruct c
           end; try discriminate H; eapply option_map_Ret_not_panic; exact H.
  - split; [|reflexivity]. intros _ H. apply radix_in_range_true in H. congruence.
Qed.

Lemma oomap_panic {A C} (f : A -> C) x : oomap f x = Some Panic <-> x = Some Panic.
Proof. destruct x as [[?|]|]; cbn; split; congruence. Qed.

Theorem U_to_radix_be_panic w a r : U_to_radix_be w a r = Some Panic <-> ~ (2 <= r <= 256).
Proof. unfold U_to_radix_be. rewrite oomap_panic. apply U_to_radix_le_panic. Qed.

Theorem U_to_str_radix_panic w a r : U_to_str_radix w a r = Some Panic <-> ~ (2 <= r <= 36).
Proof.
  unfold U_to_str_radix. destruct (radix_in_range r 36) eqn:R; cbn [negb].
  - apply radix_in_range_true in R. rewrite oomap_panic, U_to_radix_be_panic. lia.
  - split; [|reflexivity]. intros _ H. apply radix_in_range_true in H. congruence.
Qed.

Theorem I_to_str_radix_panic w a r : I_to_str_radix w a r = Some Panic <-> ~ (2 <= r <= 36).
Proof.
  unfold I_to_str_radix. destruct (is_negative w a).
  - rewrite oomap_panic. apply U_to_str_radix_panic.
  - apply U_to_str_radix_panic.
Qed.

(* ---------- round trip with parsing (the parser is property C10: its correctness is a premise) ----------
   The parser is any function `parse` into any result type `R` with an `ok` injection; the premise is the
   part of C10's parse theorem the round trip needs: a well-formed numeral whose value fits is accepted
   and decoded to the array of that value. *)

  (* from_radix_le / from_radix_be *)
  Definition parse_le_spec {R : Type} (ok : list Z -> R) (w : Z) (n : nat) (parse : list Z -> Z -> R) : Prop :=
    forall ds r, 2 <= r <= 256 -> ds <> [] -> digits_in r ds -> horner_le r ds < Mod w n ->
      exists a, parse ds r = ok a /\ wf w n a /\ uval w a = horner_le r ds.
  Definition parse_be_spec {R : Type} (ok : list Z -> R) (w : Z) (n : nat) (parse : list Z -> Z -> R) : Prop :=
    forall ds r, 2 <= r <= 256 -> ds <> [] -> digits_in r ds -> horner_le r ds < Mod w n ->
      exists a, parse (rev ds) r = ok a /\ wf w n a /\ uval w a = horner_le r ds.
  (* BUint::from_str_radix on lowercase digits, most significant first *)
  Definition parse_str_spec {R : Type} (ok : list Z -> R) (w : Z) (n : nat) (parse : list Z -> Z -> R) : Prop :=
    forall ds r, 2 <= r <= 36 -> ds <> [] -> digits_in r ds -> horner_le r ds < Mod w n ->
      exists a, parse (map ascii_lower (rev ds)) r = ok a /\ wf w n a /\ uval w a = horner_le r ds.
  (* BInt::from_str_radix: optional '-' then digits; the signed value must fit *)
  Definition parse_istr_spec {R : Type} (ok : list Z -> R) (w : Z) (n : nat) (parse : list Z -> Z -> R) : Prop :=
    forall ds r (neg : bool), 2 <= r <= 36 -> ds <> [] -> digits_in r ds ->
      let v := if neg then - horner_le r ds else horner_le r ds in
      - (Mod w n / 2) <= v < Mod w n / 2 ->
      exists a, parse ((if neg then [45] else []) ++ map ascii_lower (rev ds)) r = ok a /\ wf w n a /\ sval w a = v.

  Theorem round_trip_le {R : Type} (ok : list Z -> R) (HD : div_digit_spec) w n parse : parse_le_spec ok w n parse ->
    forall a r, 8 <= w -> wf w n a -> 2 <= r <= 256 ->
    exists ds, U_to_radix_le w a r = Some (Ret ds) /\ parse ds r = ok a.
  Proof.
    intros HP a r Hw Hwf Hr. destruct (to_radix_le_ok HD w n a r Hw Hwf Hr) as (ds & E & C).
    exists ds. split; [exact E|]. pose proof (canonical_nonempty _ _ _ C) as Hne.
    destruct C as (D & V & _). pose proof (uval_bounds w n a ltac:(lia) Hwf) as Hbd.
    destruct (HP ds r Hr Hne D ltac:(lia)) as (a' & E' & Hwf' & V').
    rewrite E'. f_equal. apply (uval_inj w n); try assumption; lia.
  Qed.

  Theorem round_trip_be {R : Type} (ok : list Z -> R) (HD : div_digit_spec) w n parse : parse_be_spec ok w n parse ->
    forall a r, 8 <= w -> wf w n a -> 2 <= r <= 256 ->
    exists bs, U_to_radix_be w a r = Some (Ret bs) /\ parse bs r = ok a.
  Proof.
    intros HP a r Hw Hwf Hr. destruct (to_radix_be_ok HD w n a r Hw Hwf Hr) as (ds & E & C).
    exists (rev ds). split; [exact E|]. pose proof (canonical_nonempty _ _ _ C) as Hne.
    destruct C as (D & V & _). pose proof (uval_bounds w n a ltac:(lia) Hwf) as Hbd.
    destruct (HP ds r Hr Hne D ltac:(lia)) as (a' & E' & Hwf' & V').
    rewrite E'. f_equal. apply (uval_inj w n); try assumption; lia.
  Qed.

  Theorem round_trip_str {R : Type} (ok : list Z -> R) (HD : div_digit_spec) w n parse : parse_str_spec ok w n parse ->
    forall a r, 8 <= w -> wf w n a -> 2 <= r <= 36 ->
    exists s, U_to_str_radix w a r = Some (Ret s) /\ parse s r = ok a.
  Proof.
    intros HP a r Hw Hwf Hr. destruct (U_to_str_radix_ok HD w n a r Hw Hwf Hr) as (ds & C & E).
    eexists. split; [exact E|]. pose proof (canonical_nonempty _ _ _ C) as Hne.
    destruct C as (D & V & _). pose proof (uval_bounds w n a ltac:(lia) Hwf) as Hbd.
    destruct (HP ds r Hr Hne D ltac:(lia)) as (a' & E' & Hwf' & V').
    rewrite E'. f_equal. apply (uval_inj w n); try assumption; lia.
  Qed.

  Lemma sval_inj w n a b : 0 < w -> wf w n a -> wf w n b -> sval w a = sval w b -> a = b.
  Proof.
    intros Hw Ha Hb E. apply (uval_inj w n); try assumption; try lia.
    pose proof (uval_bounds w n a ltac:(lia) Ha). pose proof (uval_bounds w n b ltac:(lia) Hb).
    rewrite <- (Z.mod_small (uval w a) (Mod w n)), <- (Z.mod_small (uval w b) (Mod w n)) by lia.
    rewrite <- (sval_mod w n a), <- (sval_mod w n b) by assumption. congruence.
  Qed.

  Theorem round_trip_istr {R : Type} (ok : list Z -> R)
    (HD : div_digit_spec) (HN : is_negative_spec) (HA : unsigned_abs_spec) w n parse :
    parse_istr_spec ok w n parse ->
    forall a r, 8 <= w -> (0 < n)%nat -> wf w n a -> 2 <= r <= 36 ->
    exists s, I_to_str_radix w a r = Some (Ret s) /\ parse s r = ok a.
  Proof.
    intros HP a r Hw Hn Hwf Hr.
    destruct (I_to_str_radix_ok HD HN HA w n a r Hw Hn Hwf Hr) as (ds & C & E).
    eexists. split; [exact E|]. pose proof (canonical_nonempty _ _ _ C) as Hne.
    destruct C as (D & V & _). pose proof (sval_range w n a ltac:(lia) Hn Hwf) as Hrg.
    specialize (HP ds r (sval w a <? 0) Hr Hne D). cbv zeta in HP.
    assert (Hv : (if sval w a <? 0 then - horner_le r ds else horner_le r ds) = sval w a).
    { rewrite V. destruct (Z.ltb_spec (sval w a) 0); lia. }
    rewrite Hv in HP. destruct (HP Hrg) as (a' & E' & Hwf' & V').
    rewrite E'. f_equal. apply (sval_inj w n); try assumption; lia.
  Qed.

(* the premises are satisfiable: reference parsers that meet them *)
Lemma parse_le_spec_sat w n : 0 < w ->
  parse_le_spec (@Some (list Z)) w n (fun ds r => Some (digits_of w n (horner_le r ds))).
Proof.
  intros Hw ds r Hr Hne D Hlt. eexists. split; [reflexivity|]. split; [apply digits_of_wf; lia|].
  rewrite digits_of_uval by lia. apply Z.mod_small. split; [apply horner_nonneg; [lia | assumption] | lia].
Qed.

Definition unascii (c : Z) : Z := if c <? 58 then c - 48 else c - 87.
Lemma unascii_lower ds r : 2 <= r <= 36 -> digits_in r ds -> map unascii (map ascii_lower ds) = ds.
Proof.
  intros Hr D. induction D as [|d t Hd Ht IH]; cbn [map]; [reflexivity|]. rewrite IH. f_equal.
  unfold unascii, ascii_lower. destruct (Z.ltb_spec d 10).
  - destruct (Z.ltb_spec (d + 48) 58); lia.
  - destruct (Z.ltb_spec (d + 87) 58); lia.
Qed.
Lemma parse_str_spec_sat w n : 0 < w ->
  parse_str_spec (@Some (list Z)) w n (fun s r => Some (digits_of w n (horner_le r (rev (map unascii s))))).
Proof.
  intros Hw ds r Hr Hne D Hlt. eexists. split; [reflexivity|]. split; [apply digits_of_wf; lia|].
  assert (Dr : digits_in r (rev ds)) by (apply Forall_rev; exact D).
  rewrite (unascii_lower (rev ds) r Hr Dr), rev_involutive.
  rewrite digits_of_uval by lia. apply Z.mod_small. split; [apply horner_nonneg; [lia | assumption] | lia].
Qed.

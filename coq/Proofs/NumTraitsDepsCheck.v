(* Proofs/NumTraitsDepsCheck.v — sanity of the premises of Proofs/NumTraitsDeps.v: each `x_spec`, restated
   as a boolean check, is evaluated by the kernel (vm_compute) on EVERY operand tuple of the small
   configurations (w, n) in {(2,1), (2,2), (3,2), (2,3)} in both build modes.  This does not prove the
   premises (their owners do, for all widths); it shows they are not vacuous or mis-stated for the models
   as they are. *)
From Bnum Require Import Base Prim.
From Bnum.Model Require Import Digit Core Shift AddSub Mul Div Bits Pow.

Fixpoint all_lists (w : Z) (n : nat) : list (list Z) :=
  match n with
  | O => [[]]
  | S k => flat_map (fun r => map (fun d => d :: r) (map Z.of_nat (seq 0 (Z.to_nat (B w))))) (all_lists w k)
  end.

Definition cmp_eqb (a b : comparison) : bool :=
  match a, b with Lt, Lt | Eq, Eq | Gt, Gt => true | _, _ => false end.
Definition okU (w : Z) (n : nat) (o : outcome (list Z)) (v : Z) : bool :=
  match o with Ret r => wfb w n r && (uval w r =? v) | Panic => false end.
Definition okS (w : Z) (n : nat) (o : outcome (list Z)) (v : Z) : bool :=
  match o with Ret r => wfb w n r && (sval w r =? v) | Panic => false end.
Definition is_panic {A} (o : outcome A) : bool := match o with Panic => true | _ => false end.
Definition zrange (lo hi : Z) : list Z := map (fun i => lo + Z.of_nat i) (seq 0 (Z.to_nat (hi - lo))).

Section Cfg.
  Context (w : Z) (n : nat).
  Let M := Mod w n.
  Let H := Mod w n / 2.
  Let U := uval w.
  Let S := sval w.

  Definition chk1 (dbg : bool) (a : list Z) : bool :=
    Bool.eqb (is_negative w a) (S a <? 0) &&
    Bool.eqb (is_positive w a) (0 <? S a) &&
    (* shifts *)
    forallb (fun s => let r := shr_pad_internal w false a s in wfb w n r && (U r =? U a / 2 ^ s)) (zrange 0 (bits w n)) &&
    forallb (fun s => let r := shl_internal w a s in wfb w n r && (U r =? (U a * 2 ^ s) mod M)) (zrange 0 (bits w n)) &&
    (* neg / abs *)
    (if S a =? - H then true else okS w n (I_neg dbg w a) (- S a)) &&
    (let r := I_wrapping_neg w a in wfb w n r && (U r =? (- U a) mod M)) &&
    (if S a =? - H then true else okS w n (I_abs dbg w a) (Z.abs (S a))) &&
    (let r := I_unsigned_abs w a in wfb w n r && (U r =? Z.abs (S a))) &&
    (* digit division *)
    forallb (fun d => let '(q, r) := div_rem_digit w a d in wfb w n q && (U q =? U a / d) && (r =? U a mod d)) (zrange 1 (B w)) &&
    (* bits *)
    (if U a =? 0 then true
     else let t := trailing_zeros w a in
          (0 <=? t) && (t <? bits w n) && (U a mod 2 ^ t =? 0) && Z.odd (U a / 2 ^ t)) &&
    (if U a =? 0 then true
     else let b := bits_of w a in (0 <? b) && (b <=? bits w n) && (2 ^ (b - 1) <=? U a) && (U a <? 2 ^ b)) &&
    (* pow *)
    forallb (fun e => match U_checked_pow w a e with
                      | Some p => wfb w n p && (U p =? U a ^ e) && (U a ^ e <? M)
                      | None => M <=? U a ^ e
                      end) (zrange 0 (2 * bits w n + 2)).

  Definition chk2 (dbg : bool) (a b : list Z) : bool :=
    cmp_eqb (ucmp a b) (U a ?= U b) &&
    cmp_eqb (icmp w a b) (S a ?= S b) &&
    (if U a + U b <? M then okU w n (U_add dbg w a b) (U a + U b) else true) &&
    (if U b <=? U a then okU w n (U_sub dbg w a b) (U a - U b) else true) &&
    (if (- H <=? S a + S b) && (S a + S b <? H) then okS w n (I_add dbg w a b) (S a + S b) else true) &&
    (if (- H <=? S a - S b) && (S a - S b <? H) then okS w n (I_sub dbg w a b) (S a - S b) else true) &&
    (if U a * U b <? M then okU w n (U_mul dbg w a b) (U a * U b) else true) &&
    (if (- H <=? S a * S b) && (S a * S b <? H) then okS w n (I_mul dbg w a b) (S a * S b) else true) &&
    (if U b =? 0 then true
     else let p := U_div_rem_unchecked w a b in
          wfb w n (fst p) && wfb w n (snd p) && (U (fst p) =? U a / U b) && (U (snd p) =? U a mod U b)) &&
    (if (S b =? 0) || ((S a =? - H) && (S b =? -1))
     then is_panic (I_div dbg w a b) && is_panic (I_rem dbg w a b)
     else okS w n (I_div dbg w a b) (Z.quot (S a) (S b)) && okS w n (I_rem dbg w a b) (Z.rem (S a) (S b))).

  Definition chk_p2 : bool :=
    forallb (fun p => okU w n (power_of_two w n p) (2 ^ p)) (zrange 0 (bits w n)).

  Definition chk_cfg : bool :=
    let ls := all_lists w n in
    chk_p2 &&
    forallb (fun dbg =>
      forallb (fun a => chk1 dbg a && forallb (fun b => chk2 dbg a b) ls) ls) [true; false].
End Cfg.

Definition deps_check_all : bool :=
  chk_cfg 2 1 && chk_cfg 2 2 && chk_cfg 3 2 && chk_cfg 2 3.

Lemma deps_check_all_ok : deps_check_all = true.
Proof. vm_compute. reflexivity. Qed.

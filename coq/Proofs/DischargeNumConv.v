(* Proofs/DischargeNumConv.v — the one premise of the C19 development about the C14 integer -> float cast
   (Proofs/NumConvDeps.v, cast_float_from_uint_total_spec) discharged by the C14 theorem
   (Proofs/FloatCastTo.v cast_float_from_uint_ok, made premise-free in Proofs/DischargeFloat.v). *)
From Bnum Require Import Base Prim.
From Bnum.Model Require Import Digit Core FloatCast.
From Bnum.Proofs Require FloatCast DischargeFloat NumConvDeps.
Local Open Scope Z_scope.

Lemma cast_float_from_uint_total_spec_holds : NumConvDeps.cast_float_from_uint_total_spec.
Proof.
  intros dbg F w n a HF Hw Ha.
  apply (DischargeFloat.cast_float_from_uint_total dbg F w n a); [|exact Hw|exact Ha].
  destruct HF as [-> | ->]; [exact FloatCast.fmt_ok_F32 | exact FloatCast.fmt_ok_F64].
Qed.

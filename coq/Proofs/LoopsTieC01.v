(* Proofs/LoopsTieC01.v — add / sub: src/buint/overflowing.rs overflowing_add, overflowing_sub; src/buint/ops.rs Add<Digit>.
   Part of the tie between the loop functions GENERATED from /repo/src/buint/*.rs on every run
   (Generated/Loops.v, by tools/rs2v_loops.py) and the hand-written model: for every digit width, every
   digit count and all well-formed operands, with fuel >= N the generated function neither panics nor
   runs out of fuel and returns exactly what the model function returns. *)
From Bnum Require Import Base Prim.
From Bnum.Model Require Import DigitPrims LoopPrims Digit Core Shift AddSub Mul Bits Imp.
From Bnum.Model Require Ops.
From Bnum.Generated Require Import DigitGen Loops.
From Bnum.Proofs Require Import DigitTie ImpLemmas.

(* ================= (a) src/buint/overflowing.rs ================= *)

(* the source may bind the digit-level result as `let result = f(..)` + `.0/.1` or as `let (d, c) = f(..)`: in the second
   shape the generated body matches on the pair; destruct it (both sides mention the same application) *)
Ltac step_pairs :=
  repeat match goal with
         | |- context [match ?e with pair _ _ => _ end] =>
             change (DigitGen.carrying_add) with carrying_add in *; change (DigitGen.borrowing_sub) with borrowing_sub in *;
             match goal with |- context [match ?e' with pair _ _ => _ end] => destruct e' end; cbn [fst snd bind]
         end.

Lemma add_loop_scan2 w a b c : add_loop w a b c = scan2 (carrying_add w) a b c.
Proof.
  revert b c. induction a as [|x a IH]; intros b c; [reflexivity|].
  destruct b as [|y b]; [reflexivity|]. cbn [add_loop scan2].
  destruct (carrying_add w x y c) as [s c1]. cbn [fst snd]. rewrite IH.
  destruct (scan2 (carrying_add w) a b c1). reflexivity.
Qed.

Lemma sub_loop_scan2 w a b c : sub_loop w a b c = scan2 (borrowing_sub w) a b c.
Proof.
  revert b c. induction a as [|x a IH]; intros b c; [reflexivity|].
  destruct b as [|y b]; [reflexivity|]. cbn [sub_loop scan2].
  destruct (borrowing_sub w x y c) as [s c1]. cbn [fst snd]. rewrite IH.
  destruct (scan2 (borrowing_sub w) a b c1). reflexivity.
Qed.

Lemma loops_overflowing_add w n a b : 0 < w -> wf w n a -> wf w n b ->
  forall fuel, (n <= fuel)%nat ->
  Loops.overflowing_add w (Z.of_nat n) fuel a b = Done (U_overflowing_add w a b).
Proof.
  intros Hw [Ha _] [Hb _] fuel Hf. subst n. unfold Loops.overflowing_add. rewrite Nat2Z.id.
  rewrite (loop_scan2_all_c (carrying_add w) a b); try first [assumption | apply repeat_length | reflexivity | (intros; zbool_lia)].
  - cbn [bind]. unfold U_overflowing_add. rewrite add_loop_scan2.
    destruct (scan2 (carrying_add w) a b false). reflexivity.
  - intros out c j Hj Hl. body_red. rewrite !arr_get_nat by lia. cbn [bind]. step_pairs.
    rewrite arr_set_nat by lia. reflexivity.
Qed.

Lemma loops_overflowing_sub w n a b : 0 < w -> wf w n a -> wf w n b ->
  forall fuel, (n <= fuel)%nat ->
  Loops.overflowing_sub w (Z.of_nat n) fuel a b = Done (U_overflowing_sub w a b).
Proof.
  intros Hw [Ha _] [Hb _] fuel Hf. subst n. unfold Loops.overflowing_sub. rewrite Nat2Z.id.
  rewrite (loop_scan2_all_c (borrowing_sub w) a b); try first [assumption | apply repeat_length | reflexivity | (intros; zbool_lia)].
  - cbn [bind]. unfold U_overflowing_sub. rewrite sub_loop_scan2.
    destruct (scan2 (borrowing_sub w) a b false). reflexivity.
  - intros out c j Hj Hl. body_red. rewrite !arr_get_nat by lia. cbn [bind]. step_pairs.
    rewrite arr_set_nat by lia. reflexivity.
Qed.

(* ---- src/buint/ops.rs: impl Add<$Digit> for $BUint ---- *)

Lemma add_digit_carry_false w l : Ops.add_digit_carry w l false = l.
Proof. destruct l; reflexivity. Qed.

(* `out.digits[0]` does not exist for N = 0 (index panic): the impl is only usable for N > 0 *)
Lemma loops_add_digit w n a d : 0 < w -> (0 < n)%nat -> wf w n a ->
  forall fuel, (n <= fuel)%nat ->
  Loops.add_digit w (Z.of_nat n) fuel a d = Done (Ops.U_Add_digit w a d).
Proof.
  intros Hw Hn [Ha _] fuel Hf. unfold Loops.add_digit.
  destruct a as [|x r]; [cbn [length] in Ha; lia|]. cbn [length] in Ha.
  change 0 with (Z.of_nat 0) at 1 2. rewrite arr_get_nat by (cbn [length]; lia). cbn [bind nth].
  rewrite arr_set_nat by (cbn [length]; lia). cbn [bind list_set Ops.U_Add_digit].
  change (DigitGen.carrying_add w) with (carrying_add w).
  destruct (carrying_add w x d false) as [s c0]. cbn [fst snd].
  apply while_count_bind with (n := n) (k := 1%nat)
    (Inv := fun k '(out, carry, i) =>
       i = Z.of_nat k /\ (1 <= k <= n)%nat /\ length out = n /\ skipn k out = skipn k (x :: r) /\
       s :: Ops.add_digit_carry w r c0 = firstn k out ++ Ops.add_digit_carry w (skipn k (x :: r)) carry).
  - intros k [[out carry] i] (-> & Hk & Hlen & Hsk & Heq) Hc.
    apply andb_true_iff in Hc. destruct Hc as [Hc ->]. cond_true_in Hc.
    split; [exact Hc|]. rewrite arr_get_nat by lia. cbn [bind].
    assert (Hd : nth k out 0 = nth k (x :: r) 0).
    { pose proof (nth_skipn_add out k 0) as H1. pose proof (nth_skipn_add (x :: r) k 0) as H2.
      rewrite Nat.add_0_r in H1, H2. rewrite <- H1, <- H2, Hsk. reflexivity. }
    rewrite Hd. rewrite (skipn_nth_cons (x :: r) k) in Heq by (cbn [length]; lia).
    cbn [Ops.add_digit_carry] in Heq.
    destruct (u_ovf_add w (nth k (x :: r) 0) 1) as [s1 c1]. cbn [fst snd].
    rewrite arr_set_nat by lia. cbn [bind].
    split; [lia|]. split; [lia|]. split; [rewrite list_set_length; exact Hlen|].
    split; [rewrite skipn_S_list_set; rewrite !skipn_S_tl, Hsk; reflexivity|].
    rewrite Heq. rewrite firstn_S_list_set by lia. rewrite <- app_assoc. reflexivity.
  - intros k [[out carry] i] (-> & Hk & Hlen & Hsk & Heq) Hc.
    rewrite Heq. apply andb_false_iff in Hc. destruct Hc as [Hc | ->].
    + cond_false_in Hc.
      rewrite skipn_all2 by (cbn [length]; lia). cbn [Ops.add_digit_carry].
      rewrite app_nil_r, firstn_all2 by lia. reflexivity.
    + rewrite add_digit_carry_false, <- Hsk, firstn_skipn. reflexivity.
  - split; [reflexivity|]. split; [lia|]. split; [cbn [length]; lia|]. split; reflexivity.
  - lia.
Qed.

(* ---- all obligations of the group in one statement ---- *)
Theorem loops_C01_match_model w : 0 < w ->
  (forall n a b fuel, wf w n a -> wf w n b -> (n <= fuel)%nat ->
     Loops.overflowing_add w (Z.of_nat n) fuel a b = Done (U_overflowing_add w a b)) /\
  (forall n a b fuel, wf w n a -> wf w n b -> (n <= fuel)%nat ->
     Loops.overflowing_sub w (Z.of_nat n) fuel a b = Done (U_overflowing_sub w a b)) /\
  (forall n a d fuel, (0 < n)%nat -> wf w n a -> (n <= fuel)%nat ->
     Loops.add_digit w (Z.of_nat n) fuel a d = Done (Ops.U_Add_digit w a d)).
Proof.
  intros Hw. split; [|split]; intros.
  - apply loops_overflowing_add; assumption.
  - apply loops_overflowing_sub; assumption.
  - apply loops_add_digit; assumption.
Qed.

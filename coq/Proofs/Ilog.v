(* Proofs/Ilog.v — C08, integer logarithms.  checked_ilog2 is bit length - 1; iilog (the
   squaring recursion behind checked_ilog / checked_ilog10) returns the exact floor
   logarithm, never runs out of the model's fuel and never overflows in b*b (so it does not
   panic in debug builds).  Premises: mul_spec, div_spec, div_digit_spec (PowDeps.v). *)
From Bnum Require Import Base Prim.
From Bnum.Model Require Import Digit Core Shift AddSub Mul Div Bits Pow.
From Bnum.Proofs Require Import PowDeps Pow.

(* ---------- ilog2 ---------- *)

Theorem U_checked_ilog2_ok : forall w n a, 0 < w -> wf w n a ->
  U_checked_ilog2 w a = if uval w a =? 0 then None else Some (Z.log2 (uval w a)).
Proof.
  intros w n a Hw Ha. unfold U_checked_ilog2. rewrite (bits_of_spec w n a Hw Ha). unfold bitlen.
  destruct (Z.eqb_spec (uval w a) 0); [reflexivity|].
  pose proof (Z.log2_nonneg (uval w a)).
  destruct (Z.ltb_spec (Z.log2 (uval w a) + 1) 1); [lia|]. f_equal. lia.
Qed.

(* ---------- value-level facts ---------- *)

Lemma div_range A P b : 0 < P -> 1 <= A / P < b -> P <= A < P * b.
Proof.
  intros HP H. pose proof (Z.div_mod A P ltac:(lia)). pose proof (Z.mod_pos_bound A P HP). nia.
Qed.

Lemma div_div_odd k b t : 0 < b -> 0 <= t -> k / b / (b * b) ^ t = k / b ^ (2 * t + 1).
Proof.
  intros Hb Ht. rewrite Z.div_div by (try lia; apply Z.pow_pos_nonneg; nia).
  rewrite pow_double_1 by lia. reflexivity.
Qed.

Lemma div_div_even k b t : 0 < b -> 0 <= t -> k / b ^ (2 * t + 1) / b = k / b ^ (2 * t + 2).
Proof.
  intros Hb Ht. rewrite Z.div_div by (try lia; apply Z.pow_pos_nonneg; lia).
  replace (2 * t + 2) with (2 * t + 1 + 1) by lia. rewrite (Z.pow_add_r b (2 * t + 1) 1), Z.pow_1_r by lia.
  reflexivity.
Qed.

Lemma pow2_lt_exp m c : 0 <= c -> 2 ^ m < 2 ^ c -> m < c.
Proof. intros Hc H. apply (Z.pow_lt_mono_r_iff 2); lia. Qed.

(* ---------- the operations iilog calls ---------- *)

Lemma U_mul_exact (Hmul : mul_spec) dbg w n a b : 0 < w -> (0 < n)%nat -> wf w n a -> wf w n b ->
  uval w a * uval w b < Mod w n ->
  exists r, U_mul dbg w a b = Ret r /\ wf w n r /\ uval w r = uval w a * uval w b.
Proof.
  intros Hw Hn Ha Hb Hlt. destruct (mul_ok Hmul w n Hw Hn a b Ha Hb) as (W & E & F).
  pose proof (uval_bounds w n a ltac:(lia) Ha). pose proof (uval_bounds w n b ltac:(lia) Hb).
  exists (fst (long_mul w a b)). rewrite E, Z.mod_small by nia. split; [|auto].
  unfold U_mul, U_strict_mul, U_checked_mul, U_wrapping_mul, U_overflowing_mul, tuple_to_option.
  rewrite F. destruct (Z.leb_spec (Mod w n) (uval w a * uval w b)); [lia|]. destruct dbg; reflexivity.
Qed.

Lemma div_ok (Hdiv : div_spec) w n a b : 0 < w -> wf w n a -> wf w n b -> uval w b <> 0 ->
  wf w n (fst (U_div_rem_unchecked w a b)) /\
  uval w (fst (U_div_rem_unchecked w a b)) = uval w a / uval w b.
Proof.
  intros Hw Ha Hb Hnz. pose proof (Hdiv w n a b Hw Ha Hb Hnz) as H.
  destruct (U_div_rem_unchecked w a b) as [q r]. destruct H as (Wq & Wr & E & Hr). cbn [fst].
  split; [exact Wq|]. apply (Z.div_unique _ _ _ (uval w r)); [lia|]. rewrite E. ring.
Qed.

Lemma U_div_ret w n a b : 0 < w -> wf w n b -> uval w b <> 0 ->
  U_div w a b = Ret (fst (U_div_rem_unchecked w a b)).
Proof.
  intros Hw Hb Hnz. unfold U_div, U_wrapping_div, U_checked_div.
  rewrite (is_zero_spec w n b ltac:(lia) Hb). destruct (Z.eqb_spec (uval w b) 0); [lia | reflexivity].
Qed.

(* ---------- iilog (DESIGN Appendix A.4) ---------- *)

Lemma iilog_S f dbg w m b k :
  iilog (S f) dbg w m b k =
  if cmp_gt (ucmp b k) then Some (Ret (m, k))
  else match U_mul dbg w b b with
       | Panic => Some Panic
       | Ret bb =>
           match iilog f dbg w ((m * 2) mod 2 ^ 32) bb (fst (U_div_rem_unchecked w k b)) with
           | None => None
           | Some Panic => Some Panic
           | Some (Ret (new, q)) =>
               if cmp_gt (ucmp b q) then Some (Ret (new, q))
               else match U_div w q b with
                    | Panic => Some Panic
                    | Ret qb => Some (Ret (new + m, qb))
                    end
           end
       end.
Proof. reflexivity. Qed.

(* b = beta^m >= 2^m, k >= 1, b*k does not exceed the type (it is bounded by `self`), fuel
   covers the remaining doublings of m: the result is (m*(1+t), k / b^t) with t = ilog_b k,
   reached without panic and without running out of fuel. *)
Lemma iilog_ok (Hmul : mul_spec) (Hdiv : div_spec) dbg w n :
  0 < w -> (0 < n)%nat -> bits w n < 2 ^ 31 ->
  forall f m b k, wf w n b -> wf w n k ->
  1 <= m -> 2 ^ m <= uval w b -> 1 <= uval w k -> uval w b * uval w k < Mod w n ->
  bits w n <= m * 2 ^ Z.of_nat f ->
  exists t q, iilog (S f) dbg w m b k = Some (Ret (m * (1 + t), q)) /\ wf w n q /\ 0 <= t /\
              uval w q = uval w k / uval w b ^ t /\ 1 <= uval w q < uval w b.
Proof.
  intros Hw Hn Hbits.
  assert (Hbase : forall m b k, wf w n k -> 1 <= uval w k < uval w b ->
            exists t q, Some (Ret (m, k)) = Some (Ret (m * (1 + t), q)) /\ wf w n q /\ 0 <= t /\
                        uval w q = uval w k / uval w b ^ t /\ 1 <= uval w q < uval w b).
  { intros m b k Hk Hr. exists 0, k. rewrite Z.pow_0_r, Z.div_1_r. replace (m * (1 + 0)) with m by ring.
    split; [reflexivity|]. split; [exact Hk|]. split; [lia|]. split; [reflexivity | exact Hr]. }
  induction f as [|f IH]; intros m b k Hb Hk Hm Hmb Hk1 Hbk Hfuel;
    rewrite iilog_S, (ucmp_gt w n b k ltac:(lia) Hb Hk);
    pose proof (uval_bounds w n b ltac:(lia) Hb) as Bb;
    pose proof (uval_bounds w n k ltac:(lia) Hk) as Bk;
    assert (H2m : 2 <= 2 ^ m) by (replace 2 with (2 ^ 1) at 1 by reflexivity; apply Z.pow_le_mono_r; lia);
    (destruct (Z.ltb_spec (uval w k) (uval w b)) as [Hlt|Hge]; [apply Hbase; auto; lia|]);
    assert (Hmlt : m < bits w n)
      by (apply pow2_lt_exp; [unfold bits; nia | unfold bits, Mod in *; lia]).
  - (* no fuel left for a recursive call: impossible, m >= BITS *)
    change (Z.of_nat 0) with 0 in Hfuel. rewrite Z.pow_0_r in Hfuel. lia.
  - destruct (U_mul_exact Hmul dbg w n b b Hw Hn Hb Hb ltac:(nia)) as (bb & -> & Wbb & Ebb).
    destruct (div_ok Hdiv w n k b Hw Hk Hb ltac:(lia)) as (Wq0 & Eq0).
    set (q0 := fst (U_div_rem_unchecked w k b)) in *.
    assert (E32 : 2 ^ 32 = 2 * 2 ^ 31) by reflexivity.
    rewrite (Z.mod_small (m * 2)) by lia.
    assert (Hq0 : 1 <= uval w q0) by (rewrite Eq0; apply Z.div_le_lower_bound; lia).
    pose proof (Z.mul_div_le (uval w k) (uval w b) ltac:(lia)) as Hmd.
    destruct (IH (m * 2) bb q0 Wbb Wq0 ltac:(lia)) as (t' & q' & -> & Wq' & Ht' & Eq' & Rq').
    + rewrite Ebb, Z.pow_mul_r, Z.pow_2_r by lia. nia.
    + exact Hq0.
    + rewrite Ebb, Eq0. nia.
    + rewrite Nat2Z.inj_succ, Z.pow_succ_r in Hfuel by lia. lia.
    + rewrite Ebb, Eq0 in Eq'. rewrite div_div_odd in Eq' by lia. rewrite Ebb in Rq'.
      rewrite (ucmp_gt w n b q' ltac:(lia) Hb Wq').
      destruct (Z.ltb_spec (uval w q') (uval w b)) as [Hlt'|Hge'].
      * exists (2 * t' + 1), q'. replace (m * (1 + (2 * t' + 1))) with (m * 2 * (1 + t')) by ring.
        split; [reflexivity|]. split; [exact Wq'|]. split; [lia|]. split; [exact Eq' | lia].
      * rewrite (U_div_ret w n q' b Hw Hb ltac:(lia)).
        destruct (div_ok Hdiv w n q' b Hw Wq' Hb ltac:(lia)) as (Wqb & Eqb).
        exists (2 * t' + 2), (fst (U_div_rem_unchecked w q' b)).
        replace (m * (1 + (2 * t' + 2))) with (m * 2 * (1 + t') + m) by ring.
        split; [reflexivity|]. split; [exact Wqb|]. split; [lia|].
        split; [rewrite Eqb, Eq', div_div_even by lia; reflexivity|].
        rewrite Eqb. split.
        -- apply Z.div_le_lower_bound; lia.
        -- apply Z.div_lt_upper_bound; lia.
Qed.

(* the fuel the model uses is enough for m = 1 *)
Lemma ilog_fuel_enough w n : 0 < w -> (0 < n)%nat ->
  exists f, ilog_fuel w n = S f /\ bits w n <= 1 * 2 ^ Z.of_nat f.
Proof.
  intros Hw Hn. unfold ilog_fuel. eexists; split; [reflexivity|].
  assert (Hb : 0 < bits w n) by (unfold bits; nia).
  pose proof (Z.log2_nonneg (bits w n)). pose proof (Z.log2_spec (bits w n) Hb) as [_ L].
  rewrite Nat2Z.inj_add, Z2Nat.id by lia. change (Z.of_nat 2) with 2.
  rewrite Z.pow_add_r by lia. change (2 ^ 2) with 4.
  rewrite Z.pow_succ_r in L by lia. lia.
Qed.

(* top level: iilog(1, base, self / base) *)
Lemma iilog_top (Hmul : mul_spec) (Hdiv : div_spec) dbg w n q base A :
  0 < w -> (0 < n)%nat -> bits w n < 2 ^ 31 -> wf w n q -> wf w n base ->
  2 <= uval w base -> uval w base <= A < Mod w n -> uval w q = A / uval w base ->
  exists r q', iilog (ilog_fuel w n) dbg w 1 base q = Some (Ret (r, q')) /\ 0 <= r /\
               uval w base ^ r <= A < uval w base ^ (r + 1).
Proof.
  intros Hw Hn Hbits Wq Wb Hb HA Eq.
  destruct (ilog_fuel_enough w n Hw Hn) as (f & -> & Hf).
  pose proof (Z.mul_div_le A (uval w base) ltac:(lia)) as Hmd.
  destruct (iilog_ok Hmul Hdiv dbg w n Hw Hn Hbits f 1 base q Wb Wq ltac:(lia)) as (t & q' & -> & Wq' & Ht & Eq' & Rq').
  - rewrite Z.pow_1_r. exact Hb.
  - rewrite Eq. apply Z.div_le_lower_bound; lia.
  - rewrite Eq. nia.
  - exact Hf.
  - exists (1 * (1 + t)), q'. split; [reflexivity|]. split; [lia|].
    rewrite Eq in Eq'. rewrite Z.div_div in Eq' by (try lia; apply Z.pow_pos_nonneg; lia).
    assert (Hp : uval w base * uval w base ^ t = uval w base ^ (1 * (1 + t))).
    { replace (1 * (1 + t)) with (1 + t) by ring. rewrite Z.pow_add_r, Z.pow_1_r by lia. reflexivity. }
    rewrite Hp in Eq'. rewrite Eq' in Rq'.
    apply div_range in Rq'; [|apply Z.pow_pos_nonneg; lia].
    rewrite (Z.pow_add_r _ _ 1), Z.pow_1_r by lia. exact Rq'.
Qed.

(* ---------- comparison with the constant TWO (any digit width, including w = 1) ---------- *)

Lemma ucmp_TWO w n base : 0 < w -> (0 < n)%nat -> wf w n base ->
  match ucmp base (TWO n) with
  | Lt => uval w base < 2
  | Eq => uval w base = 2
  | Gt => 2 <= uval w base
  end.
Proof.
  intros Hw Hn Hb. destruct (Z.eq_dec w 1) as [->|Hw1].
  - (* one-bit digits: the constant 2 is not a digit *)
    destruct n as [|n]; [lia|]. destruct (wf_inv_S _ _ _ Hb) as (x & r & -> & Hx & Hr).
    unfold TWO. cbn [from_digit ucmp uval].
    rewrite (ucmp_spec 1 n r (repeat 0 n) ltac:(lia) Hr (wf_repeat 1 n 0 (digit_ok_0 1 ltac:(lia)))).
    rewrite uval_repeat0. pose proof (uval_bounds 1 n r ltac:(lia) Hr).
    unfold digit_ok in Hx. change (B 1) with 2 in *.
    destruct (Z.compare_spec (uval 1 r) 0); [|lia|lia].
    destruct (Z.ltb_spec 2 x); [lia|]. destruct (Z.ltb_spec x 2); lia.
  - assert (Hd : digit_ok w 2).
    { unfold digit_ok, B. split; [lia|]. replace 2 with (2 ^ 1) at 1 by reflexivity.
      apply Z.pow_lt_mono_r; lia. }
    rewrite (ucmp_spec w n base (TWO n) ltac:(lia) Hb (wf_from_digit w n 2 ltac:(lia) Hd)).
    unfold TWO. rewrite uval_from_digit by auto.
    destruct (Z.compare_spec (uval w base) 2); lia.
Qed.

(* ---------- checked_ilog / checked_ilog10 ---------- *)

Theorem U_checked_ilog_ok : mul_spec -> div_spec -> forall dbg w n a base,
  0 < w -> (0 < n)%nat -> bits w n < 2 ^ 31 -> wf w n a -> wf w n base ->
  0 < uval w a -> 2 <= uval w base ->
  exists k, U_checked_ilog dbg w a base = Some (Ret (Some k)) /\ 0 <= k /\
            uval w base ^ k <= uval w a < uval w base ^ (k + 1).
Proof.
  intros Hmul Hdiv dbg w n a base Hw Hn Hbits Ha Hb HA HB.
  pose proof (uval_bounds w n a ltac:(lia) Ha) as Ba.
  unfold U_checked_ilog. rewrite (wf_length _ _ _ Ha).
  pose proof (ucmp_TWO w n base Hw Hn Hb) as HT.
  destruct (ucmp base (TWO n)); [| lia |].
  - (* base = 2 *)
    rewrite (U_checked_ilog2_ok w n a Hw Ha). destruct (Z.eqb_spec (uval w a) 0); [lia|].
    exists (Z.log2 (uval w a)). split; [reflexivity|]. split; [apply Z.log2_nonneg|].
    rewrite HT. pose proof (Z.log2_spec (uval w a) HA) as L. rewrite <- Z.add_1_r in L. exact L.
  - rewrite (is_zero_spec w n a ltac:(lia) Ha). destruct (Z.eqb_spec (uval w a) 0); [lia|].
    rewrite (ucmp_gt w n base a ltac:(lia) Hb Ha).
    destruct (Z.ltb_spec (uval w a) (uval w base)) as [Hlt|Hge].
    + exists 0. split; [reflexivity|]. rewrite Z.pow_0_r, Z.pow_1_r. lia.
    + rewrite (U_div_ret w n a base Hw Hb ltac:(lia)).
      destruct (div_ok Hdiv w n a base Hw Ha Hb ltac:(lia)) as (Wq & Eq).
      destruct (iilog_top Hmul Hdiv dbg w n _ base (uval w a) Hw Hn Hbits Wq Hb HB ltac:(lia) Eq)
        as (r & q' & -> & Hr & Hrange).
      exists r. auto.
Qed.

Theorem U_checked_ilog_none : mul_spec -> div_spec -> forall dbg w n a base,
  0 < w -> (0 < n)%nat -> bits w n < 2 ^ 31 -> wf w n a -> wf w n base ->
  (U_checked_ilog dbg w a base = Some (Ret None) <-> uval w a = 0 \/ uval w base < 2).
Proof.
  intros Hmul Hdiv dbg w n a base Hw Hn Hbits Ha Hb.
  pose proof (uval_bounds w n a ltac:(lia) Ha) as Ba. split.
  - intros HN. destruct (Z.eq_dec (uval w a) 0) as [|Hnz]; [left; assumption|].
    destruct (Z_lt_ge_dec (uval w base) 2) as [|Hge]; [right; assumption|]. exfalso.
    destruct (U_checked_ilog_ok Hmul Hdiv dbg w n a base Hw Hn Hbits Ha Hb ltac:(lia) ltac:(lia)) as (k & E & _).
    rewrite E in HN. discriminate.
  - intros H. unfold U_checked_ilog. rewrite (wf_length _ _ _ Ha).
    pose proof (ucmp_TWO w n base Hw Hn Hb) as HT.
    destruct (ucmp base (TWO n)); [| reflexivity |].
    + rewrite (U_checked_ilog2_ok w n a Hw Ha). destruct (Z.eqb_spec (uval w a) 0); [reflexivity | lia].
    + rewrite (is_zero_spec w n a ltac:(lia) Ha). destruct (Z.eqb_spec (uval w a) 0); [reflexivity | lia].
Qed.

Lemma wf_TEN w n : 0 < w -> 10 < B w -> wf w n (TEN n).
Proof. intros Hw H10. apply wf_from_digit; [lia|]. unfold digit_ok; lia. Qed.

Theorem U_checked_ilog10_ok : mul_spec -> div_spec -> div_digit_spec -> forall dbg w n a,
  0 < w -> 10 < B w -> (0 < n)%nat -> bits w n < 2 ^ 31 -> wf w n a -> 0 < uval w a ->
  exists k, U_checked_ilog10 dbg w a = Some (Ret (Some k)) /\ 0 <= k /\
            10 ^ k <= uval w a < 10 ^ (k + 1).
Proof.
  intros Hmul Hdiv Hdd dbg w n a Hw H10 Hn Hbits Ha HA.
  pose proof (uval_bounds w n a ltac:(lia) Ha) as Ba.
  pose proof (wf_TEN w n Hw H10) as WT.
  assert (ET : uval w (TEN n) = 10) by (apply uval_from_digit; auto).
  unfold U_checked_ilog10. rewrite (wf_length _ _ _ Ha).
  rewrite (is_zero_spec w n a ltac:(lia) Ha). destruct (Z.eqb_spec (uval w a) 0); [lia|].
  rewrite (ucmp_gt w n (TEN n) a ltac:(lia) WT Ha), ET.
  destruct (Z.ltb_spec (uval w a) 10) as [Hlt|Hge].
  - exists 0. split; [reflexivity|]. rewrite Z.pow_0_r, Z.pow_1_r. lia.
  - pose proof (Hdd w n a 10 Hw Ha ltac:(lia)) as Hd.
    destruct (div_rem_digit w a 10) as [q r]. destruct Hd as (Wq & E & Hr). cbn [fst].
    assert (Eq : uval w q = uval w a / uval w (TEN n)).
    { rewrite ET. apply (Z.div_unique _ _ _ r); [lia|]. rewrite E. ring. }
    destruct (iilog_top Hmul Hdiv dbg w n q (TEN n) (uval w a) Hw Hn Hbits Wq WT ltac:(lia) ltac:(lia) Eq)
      as (k & q' & -> & Hk & Hrange).
    exists k. rewrite ET in Hrange. auto.
Qed.

Theorem U_checked_ilog10_none : forall dbg w n a, 0 < w -> wf w n a ->
  uval w a = 0 -> U_checked_ilog10 dbg w a = Some (Ret None).
Proof.
  intros dbg w n a Hw Ha H0. unfold U_checked_ilog10.
  rewrite (is_zero_spec w n a ltac:(lia) Ha), H0. reflexivity.
Qed.

(* ---------- the panicking forms ---------- *)

Theorem U_ilog2_ok : forall w n a, 0 < w -> wf w n a ->
  U_ilog2 w a = if uval w a =? 0 then Panic else Ret (Z.log2 (uval w a)).
Proof.
  intros w n a Hw Ha. unfold U_ilog2. rewrite (U_checked_ilog2_ok w n a Hw Ha).
  destruct (uval w a =? 0); reflexivity.
Qed.

Theorem U_ilog_ok : mul_spec -> div_spec -> forall dbg w n a base,
  0 < w -> (0 < n)%nat -> bits w n < 2 ^ 31 -> wf w n a -> wf w n base ->
  if (uval w a =? 0) || (uval w base <? 2) then U_ilog dbg w a base = Some Panic
  else exists k, U_ilog dbg w a base = Some (Ret k) /\ 0 <= k /\
                 uval w base ^ k <= uval w a < uval w base ^ (k + 1).
Proof.
  intros Hmul Hdiv dbg w n a base Hw Hn Hbits Ha Hb.
  pose proof (uval_bounds w n a ltac:(lia) Ha) as Ba. unfold U_ilog.
  destruct (Z.eqb_spec (uval w a) 0) as [H0|H0]; [|destruct (Z.ltb_spec (uval w base) 2) as [H2|H2]]; cbn [orb].
  - rewrite (proj2 (U_checked_ilog_none Hmul Hdiv dbg w n a base Hw Hn Hbits Ha Hb)) by auto. reflexivity.
  - rewrite (proj2 (U_checked_ilog_none Hmul Hdiv dbg w n a base Hw Hn Hbits Ha Hb)) by auto. reflexivity.
  - destruct (U_checked_ilog_ok Hmul Hdiv dbg w n a base Hw Hn Hbits Ha Hb ltac:(lia) ltac:(lia)) as (k & -> & Hk).
    exists k. split; [reflexivity | exact Hk].
Qed.

Theorem U_ilog10_ok : mul_spec -> div_spec -> div_digit_spec -> forall dbg w n a,
  0 < w -> 10 < B w -> (0 < n)%nat -> bits w n < 2 ^ 31 -> wf w n a ->
  if uval w a =? 0 then U_ilog10 dbg w a = Some Panic
  else exists k, U_ilog10 dbg w a = Some (Ret k) /\ 0 <= k /\ 10 ^ k <= uval w a < 10 ^ (k + 1).
Proof.
  intros Hmul Hdiv Hdd dbg w n a Hw H10 Hn Hbits Ha.
  pose proof (uval_bounds w n a ltac:(lia) Ha) as Ba. unfold U_ilog10.
  destruct (Z.eqb_spec (uval w a) 0) as [H0|H0].
  - rewrite (U_checked_ilog10_none dbg w n a Hw Ha H0). reflexivity.
  - destruct (U_checked_ilog10_ok Hmul Hdiv Hdd dbg w n a Hw H10 Hn Hbits Ha ltac:(lia)) as (k & -> & Hk).
    exists k. split; [reflexivity | exact Hk].
Qed.

(* ---------- signed ---------- *)

Lemma nonneg_sval w n a : 0 < w -> (0 < n)%nat -> wf w n a ->
  is_negative w a = false -> sval w a = uval w a.
Proof.
  intros Hw Hn Ha H. rewrite (is_negative_spec w n a Hw Hn Ha) in H.
  rewrite (sval_unfold w n a Ha), H. reflexivity.
Qed.

Lemma neg_sval w n a : 0 < w -> (0 < n)%nat -> wf w n a ->
  is_negative w a = true -> sval w a < 0.
Proof.
  intros Hw Hn Ha H. rewrite (is_negative_sval w n a Hw Hn Ha) in H. apply Z.ltb_lt in H. exact H.
Qed.

Theorem I_checked_ilog2_ok : forall w n a, 0 < w -> (0 < n)%nat -> wf w n a ->
  I_checked_ilog2 w a = if sval w a <=? 0 then None else Some (Z.log2 (sval w a)).
Proof.
  intros w n a Hw Hn Ha. unfold I_checked_ilog2.
  pose proof (uval_bounds w n a ltac:(lia) Ha) as Ba.
  destruct (is_negative w a) eqn:E.
  - pose proof (neg_sval w n a Hw Hn Ha E). destruct (Z.leb_spec (sval w a) 0); [reflexivity | lia].
  - rewrite (nonneg_sval w n a Hw Hn Ha E), (U_checked_ilog2_ok w n a Hw Ha).
    destruct (Z.eqb_spec (uval w a) 0); destruct (Z.leb_spec (uval w a) 0); try reflexivity; lia.
Qed.

Theorem I_ilog2_ok : forall w n a, 0 < w -> (0 < n)%nat -> wf w n a ->
  I_ilog2 w a = if sval w a <=? 0 then Panic else Ret (Z.log2 (sval w a)).
Proof.
  intros w n a Hw Hn Ha. unfold I_ilog2.
  pose proof (uval_bounds w n a ltac:(lia) Ha) as Ba.
  destruct (is_negative w a) eqn:E.
  - pose proof (neg_sval w n a Hw Hn Ha E). destruct (Z.leb_spec (sval w a) 0); [reflexivity | lia].
  - rewrite (nonneg_sval w n a Hw Hn Ha E), (U_ilog2_ok w n a Hw Ha).
    destruct (Z.eqb_spec (uval w a) 0); destruct (Z.leb_spec (uval w a) 0); try reflexivity; lia.
Qed.

Theorem I_checked_ilog_ok : mul_spec -> div_spec -> forall dbg w n a base,
  0 < w -> (0 < n)%nat -> bits w n < 2 ^ 31 -> wf w n a -> wf w n base ->
  0 < sval w a -> 2 <= sval w base ->
  exists k, I_checked_ilog dbg w a base = Some (Ret (Some k)) /\ 0 <= k /\
            sval w base ^ k <= sval w a < sval w base ^ (k + 1).
Proof.
  intros Hmul Hdiv dbg w n a base Hw Hn Hbits Ha Hb HA HB. unfold I_checked_ilog.
  destruct (is_negative w base) eqn:E1; [pose proof (neg_sval w n base Hw Hn Hb E1); lia|].
  destruct (is_negative w a) eqn:E2; [pose proof (neg_sval w n a Hw Hn Ha E2); lia|].
  cbn [orb]. rewrite (nonneg_sval w n a Hw Hn Ha E2) in *. rewrite (nonneg_sval w n base Hw Hn Hb E1) in *.
  apply U_checked_ilog_ok with n; auto.
Qed.

Theorem I_checked_ilog_none : mul_spec -> div_spec -> forall dbg w n a base,
  0 < w -> (0 < n)%nat -> bits w n < 2 ^ 31 -> wf w n a -> wf w n base ->
  (I_checked_ilog dbg w a base = Some (Ret None) <-> sval w a <= 0 \/ sval w base < 2).
Proof.
  intros Hmul Hdiv dbg w n a base Hw Hn Hbits Ha Hb. unfold I_checked_ilog.
  pose proof (uval_bounds w n a ltac:(lia) Ha) as Ba.
  destruct (is_negative w base) eqn:E1.
  { pose proof (neg_sval w n base Hw Hn Hb E1). cbn [orb]. split; [right; lia | reflexivity]. }
  destruct (is_negative w a) eqn:E2.
  { pose proof (neg_sval w n a Hw Hn Ha E2). cbn [orb]. split; [left; lia | reflexivity]. }
  cbn [orb]. rewrite (nonneg_sval w n a Hw Hn Ha E2), (nonneg_sval w n base Hw Hn Hb E1).
  rewrite (U_checked_ilog_none Hmul Hdiv dbg w n a base Hw Hn Hbits Ha Hb). lia.
Qed.

Theorem I_checked_ilog10_ok : mul_spec -> div_spec -> div_digit_spec -> forall dbg w n a,
  0 < w -> 10 < B w -> (0 < n)%nat -> bits w n < 2 ^ 31 -> wf w n a ->
  if sval w a <=? 0 then I_checked_ilog10 dbg w a = Some (Ret None)
  else exists k, I_checked_ilog10 dbg w a = Some (Ret (Some k)) /\ 0 <= k /\
                 10 ^ k <= sval w a < 10 ^ (k + 1).
Proof.
  intros Hmul Hdiv Hdd dbg w n a Hw H10 Hn Hbits Ha. unfold I_checked_ilog10.
  pose proof (uval_bounds w n a ltac:(lia) Ha) as Ba.
  destruct (is_negative w a) eqn:E.
  - pose proof (neg_sval w n a Hw Hn Ha E). destruct (Z.leb_spec (sval w a) 0); [reflexivity | lia].
  - rewrite (nonneg_sval w n a Hw Hn Ha E). destruct (Z.leb_spec (uval w a) 0).
    + apply U_checked_ilog10_none with n; auto. lia.
    + apply U_checked_ilog10_ok with n; auto.
Qed.

Theorem I_ilog10_ok : mul_spec -> div_spec -> div_digit_spec -> forall dbg w n a,
  0 < w -> 10 < B w -> (0 < n)%nat -> bits w n < 2 ^ 31 -> wf w n a ->
  if sval w a <=? 0 then I_ilog10 dbg w a = Some Panic
  else exists k, I_ilog10 dbg w a = Some (Ret k) /\ 0 <= k /\ 10 ^ k <= sval w a < 10 ^ (k + 1).
Proof.
  intros Hmul Hdiv Hdd dbg w n a Hw H10 Hn Hbits Ha. unfold I_ilog10.
  pose proof (uval_bounds w n a ltac:(lia) Ha) as Ba.
  destruct (is_negative w a) eqn:E.
  - pose proof (neg_sval w n a Hw Hn Ha E). destruct (Z.leb_spec (sval w a) 0); [reflexivity | lia].
  - rewrite (nonneg_sval w n a Hw Hn Ha E).
    pose proof (U_ilog10_ok Hmul Hdiv Hdd dbg w n a Hw H10 Hn Hbits Ha) as H.
    destruct (Z.eqb_spec (uval w a) 0); destruct (Z.leb_spec (uval w a) 0); try lia; exact H.
Qed.

Lemma sval_ONE_range w n : 0 < w -> (0 < n)%nat -> -1 <= sval w (ONE n) <= 1.
Proof.
  intros Hw Hn. rewrite (sval_unfold w n _ (wf_ONE w n Hw)), uval_ONE by auto.
  pose proof (Mod_even w n Hw Hn). pose proof (Mod_ge_2 w n Hw Hn).
  destruct (Z.leb_spec (Mod w n / 2) 1); lia.
Qed.

Theorem I_ilog_ok : mul_spec -> div_spec -> forall dbg w n a base,
  0 < w -> (0 < n)%nat -> bits w n < 2 ^ 31 -> wf w n a -> wf w n base ->
  if (sval w a <=? 0) || (sval w base <? 2) then I_ilog dbg w a base = Some Panic
  else exists k, I_ilog dbg w a base = Some (Ret k) /\ 0 <= k /\
                 sval w base ^ k <= sval w a < sval w base ^ (k + 1).
Proof.
  intros Hmul Hdiv dbg w n a base Hw Hn Hbits Ha Hb. unfold I_ilog.
  rewrite (wf_length _ _ _ Ha).
  rewrite (icmp_spec w n base (ONE n) Hw Hn Hb (wf_ONE w n Hw)).
  pose proof (sval_ONE_range w n Hw Hn) as H1.
  pose proof (uval_bounds w n a ltac:(lia) Ha) as Ba.
  pose proof (uval_bounds w n base ltac:(lia) Hb) as Bb.
  destruct (Z.compare_spec (sval w base) (sval w (ONE n))) as [Hc|Hc|Hc]; cbn [cmp_le].
  - destruct (Z.ltb_spec (sval w base) 2); [|lia]. rewrite orb_true_r. reflexivity.
  - destruct (Z.ltb_spec (sval w base) 2); [|lia]. rewrite orb_true_r. reflexivity.
  - destruct (is_negative w base) eqn:E1; [pose proof (neg_sval w n base Hw Hn Hb E1); lia|].
    destruct (is_negative w a) eqn:E2.
    + pose proof (neg_sval w n a Hw Hn Ha E2). destruct (Z.leb_spec (sval w a) 0); [reflexivity | lia].
    + rewrite (nonneg_sval w n a Hw Hn Ha E2), (nonneg_sval w n base Hw Hn Hb E1).
      pose proof (U_ilog_ok Hmul Hdiv dbg w n a base Hw Hn Hbits Ha Hb) as H.
      destruct (Z.eqb_spec (uval w a) 0); destruct (Z.leb_spec (uval w a) 0); try lia; exact H.
Qed.

(* Proofs/EndianGenTieBytes.v — the nightly-gated to_{be,le,ne}_bytes / from_{be,le,ne}_bytes of src/buint/endian.rs and their
   forwarders in src/bint/endian.rs, GENERATED from /repo/src on every run (Generated/EndianGen.v, by tools/rs2v_endian.py),
   equal the hand-written model Model/Endian.v, for every digit of 2^bs bytes, every N, every value of N digits / every
   array of N * BYTES bytes (that is what the types `$BUint<N>` / `[u8; Self::BYTES_USIZE]` guarantee). *)
From Bnum Require Import Base Prim.
From Bnum.Model Require Import LoopPrims Core Shift Imp ImpEndian Endian.
From Bnum.Generated Require Import EndianGen.
From Bnum.Proofs Require Import ImpLemmas ImpLemmas2 EndianGenTieBase.

Lemma to_le_bytes_length k : forall x, length (u_to_le_bytes k x) = k.
Proof. induction k as [|k IH]; intros x; cbn [u_to_le_bytes length]; [reflexivity | rewrite IH; reflexivity]. Qed.

Lemma to_be_bytes_length k x : length (u_to_be_bytes k x) = k.
Proof. unfold u_to_be_bytes. rewrite rev_length. apply to_le_bytes_length. Qed.

Lemma flat_map_snoc {A B} (f : A -> list B) l x : flat_map f (l ++ [x]) = flat_map f l ++ f x.
Proof. rewrite flat_map_app. cbn [flat_map]. rewrite app_nil_r. reflexivity. Qed.

(* the inner loop of to_{be,le}_bytes: one digit's bytes go to the chunk `blk` of the output *)
Lemma chunk_write w bs (Hbw : byte_width w bs) (chunk : list Z) blk L fuel bytes :
  length chunk = dbytes w -> (blk * dbytes w + dbytes w <= L)%nat -> length bytes = L -> (dbytes w <= fuel)%nat ->
  while_loop (R := list Z) fuel (fun '(j, bytes) => (j <? (digit_BYTES w)))
    (fun '(j, bytes) =>
       t4' <- arr_get chunk j ;;
       bytes <- arr_set bytes ((ix_shl (Z.of_nat blk) (digit_BYTE_SHIFT w)) + j) t4' ;;
       Done (Continue (j + 1, bytes)))
    (0, bytes) =
  Done (Exited (Z.of_nat (dbytes w), firstn (blk * dbytes w) bytes ++ chunk ++ skipn (blk * dbytes w + dbytes w) bytes)).
Proof.
  intros Hc Hblk Hl Hf. destruct (byte_width_facts w bs Hbw) as (HB & HS & Hpow & Hpos).
  set (db := dbytes w) in *. rewrite (addr_shl w bs Hbw). fold db. rewrite HB.
  rewrite (copy_loop chunk 0 0 (blk * db) db L) with (buf := bytes); try first [reflexivity | assumption | lia].
  - cbn [skipn Nat.add]. rewrite (firstn_all2 (n := db) chunk) by lia. reflexivity.
  - intros k buf Hk. cbv beta iota. apply Z.ltb_lt. lia.
  - intros buf. cbv beta iota. apply Z.ltb_ge. lia.
  - intros k buf Hk Hlb. cbv beta iota. cbn [Nat.add]. rewrite arr_get_nat by lia. cbn [bind].
    replace (Z.of_nat (blk * db) + Z.of_nat k) with (Z.of_nat (blk * db + k)) by lia.
    rewrite arr_set_nat by lia. cbn [bind]. rewrite Nat2Z.inj_succ. reflexivity.
Qed.

Lemma gen_to_le_bytes w bs n x fuel : byte_width w bs -> length x = n ->
  (n <= fuel)%nat -> (dbytes w <= fuel)%nat ->
  EndianGen.to_le_bytes w (Z.of_nat n) fuel x = Done (U_to_le_bytes w x).
Proof.
  intros Hbw Hx Hf1 Hf2. destruct (byte_width_facts w bs Hbw) as (HB & HS & Hpow & Hpos).
  unfold EndianGen.to_le_bytes, U_to_le_bytes. cbv zeta. change (Z.to_nat (digit_BYTES w)) with (dbytes w). set (db := dbytes w) in *.
  apply (while_count_bind n (fun k '(i, bytes) => i = Z.of_nat k /\ (k <= n)%nat /\ length bytes = (n * db)%nat /\
                               firstn (k * db) bytes = flat_map (u_to_le_bytes db) (firstn k x))) with (k := 0%nat).
  - intros k [i bytes] (-> & Hk & Hl & Hinv) Hc. cbv beta iota in Hc. apply Z.ltb_lt in Hc.
    split; [lia|]. assert (Hkb : (k * db + db <= n * db)%nat) by nia.
    cbv beta iota. rewrite arr_get_nat by lia. cbn [bind].
    rewrite (chunk_write w bs Hbw _ k (n * db)); try first [assumption | apply to_le_bytes_length | nia].
    cbn [bind]. fold db. repeat split; try lia.
    + rewrite !app_length, firstn_length, skipn_length, to_le_bytes_length. nia.
    + replace (S k * db)%nat with (k * db + db)%nat by lia.
      rewrite app_assoc. rewrite firstn_app.
      rewrite firstn_all2 by (rewrite app_length, firstn_length, to_le_bytes_length; lia).
      rewrite app_length, firstn_length, to_le_bytes_length.
      replace (k * db + db - (Nat.min (k * db) (length bytes) + db))%nat with 0%nat by lia. rewrite firstn_O, app_nil_r.
      rewrite Hinv. rewrite (firstn_S_snoc x k) by lia. rewrite flat_map_snoc. reflexivity.
  - intros k [i bytes] (-> & Hk & Hl & Hinv) Hc. cbv beta iota in Hc. apply Z.ltb_ge in Hc.
    assert (k = n) by lia. subst k. cbv beta iota. f_equal.
    rewrite firstn_all2 in Hinv by lia. rewrite firstn_all2 in Hinv by lia. exact Hinv.
  - repeat split; try lia. rewrite repeat_length. rewrite HB. lia.
  - lia.
Qed.

Lemma gen_to_be_bytes w bs n x fuel : byte_width w bs -> length x = n ->
  (n <= fuel)%nat -> (dbytes w <= fuel)%nat ->
  EndianGen.to_be_bytes w (Z.of_nat n) fuel x = Done (U_to_be_bytes w x).
Proof.
  intros Hbw Hx Hf1 Hf2. destruct (byte_width_facts w bs Hbw) as (HB & HS & Hpow & Hpos).
  unfold EndianGen.to_be_bytes, U_to_be_bytes. cbv zeta. change (Z.to_nat (digit_BYTES w)) with (dbytes w). set (db := dbytes w) in *.
  set (BE := fun l => fold_left (fun acc d => u_to_be_bytes db d ++ acc) l []).
  apply (while_count_bind n (fun k '(i, bytes) => i = Z.of_nat (n - k) /\ (k <= n)%nat /\ length bytes = (n * db)%nat /\
                               skipn ((n - k) * db) bytes = BE (firstn k x))) with (k := 0%nat).
  - intros k [i bytes] (-> & Hk & Hl & Hinv) Hc. cbv beta iota in Hc. apply Z.gtb_lt in Hc.
    split; [lia|]. assert (Hkb : ((n - k - 1) * db + db <= n * db)%nat) by nia.
    assert (Hkb2 : ((n - k - 1) * db + db = (n - k) * db)%nat) by nia.
    cbv beta iota. rewrite usub_nat by lia. cbn [bind]. replace (n - (n - k))%nat with k by lia.
    rewrite arr_get_nat by lia. cbn [bind]. rewrite usub_ok by lia. cbn [bind].
    replace (Z.of_nat (n - k) - 1) with (Z.of_nat (n - k - 1)) by lia.
    rewrite (chunk_write w bs Hbw _ (n - k - 1) (n * db)); try first [assumption | apply to_be_bytes_length | nia].
    cbn [bind]. fold db. repeat split; try lia.
    + rewrite !app_length, firstn_length, skipn_length, to_be_bytes_length. lia.
    + replace (n - S k)%nat with (n - k - 1)%nat by lia.
      rewrite skipn_app. rewrite skipn_all2 by (rewrite firstn_length; lia). rewrite firstn_length.
      replace ((n - k - 1) * db - Nat.min ((n - k - 1) * db) (length bytes))%nat with 0%nat by lia.
      cbn [skipn app]. rewrite Hkb2, Hinv. rewrite (firstn_S_snoc x k) by lia.
      unfold BE. rewrite fold_left_app. reflexivity.
  - intros k [i bytes] (-> & Hk & Hl & Hinv) Hc. cbv beta iota in Hc.
    assert (k = n) by (destruct (Z.gtb_spec (Z.of_nat (n - k)) 0); [discriminate | lia]). subst k. cbv beta iota. f_equal.
    rewrite Nat.sub_diag in Hinv. cbn [Nat.mul skipn] in Hinv. rewrite firstn_all2 in Hinv by lia. exact Hinv.
  - repeat split; try lia. rewrite repeat_length. rewrite HB. lia.
    rewrite Nat.sub_0_r. rewrite skipn_all2 by (rewrite repeat_length, HB; lia). reflexivity.
  - lia.
Qed.

(* `while i < N { out.digits[i] = <digit i>; i += 1 }`, state (out, i) *)
Lemma fill_loop {R : Type} (g : nat -> Z) (n : nat)
      (cond : list Z * Z -> bool) (body : list Z * Z -> res (flow (list Z * Z) R)) :
  (forall out i, cond (out, Z.of_nat i) = (i <? n)%nat) ->
  (forall out i, (i < n)%nat -> length out = n ->
     body (out, Z.of_nat i) = Done (Continue (list_set out i (g i), Z.of_nat (S i)))) ->
  forall fuel out s0, s0 = (out, 0) -> (n <= fuel)%nat -> length out = n ->
  while_loop fuel cond body s0 = Done (Exited (map g (seq 0 n), Z.of_nat n)).
Proof.
  intros Hc Hb fuel out s0 -> Hf Hl.
  assert (Hgen : forall m fuel i out, (i + m = n)%nat -> (m <= fuel)%nat -> length out = n ->
            while_loop fuel cond body (out, Z.of_nat i) = Done (Exited (firstn i out ++ map g (seq i m), Z.of_nat n))).
  { induction m as [|m IH]; intros fuel' i out' Hi Hf' Hl'.
    - assert (i = n) by lia. subst i. rewrite while_loop_cond_false by (rewrite Hc; apply Nat.ltb_irrefl).
      cbn [seq map]. rewrite app_nil_r, firstn_all2 by lia. reflexivity.
    - destruct fuel' as [|fuel']; [lia|]. rewrite while_loop_S, Hc.
      destruct (Nat.ltb_spec i n) as [Hlt|?]; [|lia]. rewrite Hb by assumption.
      rewrite IH by (try rewrite list_set_length; lia). rewrite firstn_S_list_set by lia.
      cbn [seq map]. rewrite <- app_assoc. reflexivity. }
  exact (Hgen n fuel 0%nat out eq_refl Hf Hl).
Qed.

Lemma gen_from_le_bytes w bs n bytes fuel : byte_width w bs -> length bytes = (n * dbytes w)%nat ->
  (n <= fuel)%nat -> (dbytes w <= fuel)%nat ->
  EndianGen.from_le_bytes w (Z.of_nat n) fuel bytes = Done (U_from_le_bytes w n bytes).
Proof.
  intros Hbw Hlb Hf1 Hf2. destruct (byte_width_facts w bs Hbw) as (HB & HS & Hpow & Hpos).
  unfold EndianGen.from_le_bytes, U_from_le_bytes. cbv zeta. change (Z.to_nat (digit_BYTES w)) with (dbytes w). set (db := dbytes w) in *.
  rewrite Nat2Z.id.
  rewrite (fill_loop (fun i => u_from_le_bytes (sub_bytes bytes (i * db) db)) n) with (out := ZERO n);
    try first [reflexivity | assumption | apply repeat_length].
  - intros out i. apply ltb_of_nat.
  - intros out i Hi Hl. rewrite (addr_shl w bs Hbw). fold db. rewrite HB.
    assert (Hin : (i * db + db <= n * db)%nat) by nia.
    rewrite (copy_loop bytes (i * db) (i * db) 0 db db) with (buf := repeat 0 db);
      try first [reflexivity | assumption | apply repeat_length | lia].
    + cbn [bind]. rewrite arr_set_nat by lia. cbn [bind Nat.add firstn app].
      rewrite skipn_repeat, Nat.sub_diag. cbn [repeat]. rewrite app_nil_r. rewrite Nat2Z.inj_succ. reflexivity.
    + intros k buf Hk. cbv beta iota. apply Z.ltb_lt. lia.
    + intros buf. cbv beta iota. apply Z.ltb_ge. lia.
    + intros k buf Hk Hlbuf. cbv beta iota. rewrite arr_get_nat by lia. cbn [bind].
      rewrite usub_nat by lia. cbn [bind]. replace (i * db + k - i * db)%nat with k by lia.
      rewrite arr_set_nat by lia. cbn [bind Nat.add].
      replace (Z.of_nat (i * db + k) + 1) with (Z.of_nat (i * db + S k)) by lia. reflexivity.
Qed.

Lemma gen_from_be_bytes w bs n bytes fuel : byte_width w bs -> length bytes = (n * dbytes w)%nat ->
  (n <= fuel)%nat -> (dbytes w <= fuel)%nat ->
  EndianGen.from_be_bytes w (Z.of_nat n) fuel bytes = Done (U_from_be_bytes w n bytes).
Proof.
  intros Hbw Hlb Hf1 Hf2. destruct (byte_width_facts w bs Hbw) as (HB & HS & Hpow & Hpos).
  unfold EndianGen.from_be_bytes, U_from_be_bytes. cbv zeta. change (Z.to_nat (digit_BYTES w)) with (dbytes w). set (db := dbytes w) in *.
  rewrite Nat2Z.id.
  rewrite (fill_loop (fun i => u_from_be_bytes (sub_bytes bytes (n * db - db - i * db) db)) n) with (out := ZERO n);
    try first [reflexivity | assumption | apply repeat_length].
  - intros out i. apply ltb_of_nat.
  - intros out i Hi Hl. rewrite (addr_shl w bs Hbw). fold db. rewrite HB.
    assert (Hin : (i * db + db <= n * db)%nat) by nia.
    replace (Z.of_nat n * Z.of_nat db) with (Z.of_nat (n * db)) by lia.
    rewrite usub_nat by lia. cbn [bind].
    rewrite (copy_loop bytes (n * db - db) (n * db - db - i * db) 0 db db) with (buf := repeat 0 db);
      try first [reflexivity | assumption | apply repeat_length | lia].
    + cbn [bind]. rewrite arr_set_nat by lia. cbn [bind Nat.add firstn app].
      rewrite skipn_repeat, Nat.sub_diag. cbn [repeat]. rewrite app_nil_r. rewrite Nat2Z.inj_succ. reflexivity.
    + intros k buf Hk. cbv beta iota. apply Z.ltb_lt. lia.
    + intros buf. cbv beta iota. apply Z.ltb_ge. lia.
    + intros k buf Hk Hlbuf. cbv beta iota. rewrite usub_nat by lia. cbn [bind].
      replace (n * db - db + k - i * db)%nat with (n * db - db - i * db + k)%nat by lia.
      rewrite arr_get_nat by lia. cbn [bind].
      rewrite usub_nat by lia. cbn [bind]. replace (n * db - db + k - (n * db - db))%nat with k by lia.
      rewrite arr_set_nat by lia. cbn [bind Nat.add].
      replace (Z.of_nat (n * db - db + k) + 1) with (Z.of_nat (n * db - db + S k)) by lia. reflexivity.
Qed.

(* the little-endian branch of the *_ne_* functions *)
Lemma gen_to_ne_bytes w bs n x fuel : byte_width w bs -> length x = n ->
  (n <= fuel)%nat -> (dbytes w <= fuel)%nat ->
  EndianGen.to_ne_bytes w (Z.of_nat n) fuel x = Done (U_to_ne_bytes w x).
Proof.
  intros Hbw Hx Hf1 Hf2. unfold EndianGen.to_ne_bytes, U_to_ne_bytes.
  rewrite (gen_to_le_bytes w bs n x fuel) by assumption. reflexivity.
Qed.

Lemma gen_from_ne_bytes w bs n bytes fuel : byte_width w bs -> length bytes = (n * dbytes w)%nat ->
  (n <= fuel)%nat -> (dbytes w <= fuel)%nat ->
  EndianGen.from_ne_bytes w (Z.of_nat n) fuel bytes = Done (U_from_ne_bytes w n bytes).
Proof.
  intros Hbw Hlb Hf1 Hf2. unfold EndianGen.from_ne_bytes, U_from_ne_bytes.
  rewrite (gen_from_le_bytes w bs n bytes fuel) by assumption. reflexivity.
Qed.

(* ---------- src/bint/endian.rs: forwarders through .bits / from_bits ---------- *)

Section Signed.
Context (w : Z) (bs n : nat) (fuel : nat) (Hbw : byte_width w bs) (Hf1 : (n <= fuel)%nat) (Hf2 : (dbytes w <= fuel)%nat).

Lemma gen_I_to_be_bytes x : length x = n -> EndianGen.I_to_be_bytes w (Z.of_nat n) fuel x = Done (I_to_be_bytes w x).
Proof. intros Hx. unfold EndianGen.I_to_be_bytes. rewrite (gen_to_be_bytes w bs n x fuel) by assumption. reflexivity. Qed.
Lemma gen_I_to_le_bytes x : length x = n -> EndianGen.I_to_le_bytes w (Z.of_nat n) fuel x = Done (I_to_le_bytes w x).
Proof. intros Hx. unfold EndianGen.I_to_le_bytes. rewrite (gen_to_le_bytes w bs n x fuel) by assumption. reflexivity. Qed.
Lemma gen_I_to_ne_bytes x : length x = n -> EndianGen.I_to_ne_bytes w (Z.of_nat n) fuel x = Done (I_to_ne_bytes w x).
Proof. intros Hx. unfold EndianGen.I_to_ne_bytes. rewrite (gen_to_ne_bytes w bs n x fuel) by assumption. reflexivity. Qed.
Lemma gen_I_from_be_bytes b : length b = (n * dbytes w)%nat ->
  EndianGen.I_from_be_bytes w (Z.of_nat n) fuel b = Done (I_from_be_bytes w n b).
Proof. intros Hb. unfold EndianGen.I_from_be_bytes. rewrite (gen_from_be_bytes w bs n b fuel) by assumption. reflexivity. Qed.
Lemma gen_I_from_le_bytes b : length b = (n * dbytes w)%nat ->
  EndianGen.I_from_le_bytes w (Z.of_nat n) fuel b = Done (I_from_le_bytes w n b).
Proof. intros Hb. unfold EndianGen.I_from_le_bytes. rewrite (gen_from_le_bytes w bs n b fuel) by assumption. reflexivity. Qed.
Lemma gen_I_from_ne_bytes b : length b = (n * dbytes w)%nat ->
  EndianGen.I_from_ne_bytes w (Z.of_nat n) fuel b = Done (I_from_ne_bytes w n b).
Proof. intros Hb. unfold EndianGen.I_from_ne_bytes. rewrite (gen_from_ne_bytes w bs n b fuel) by assumption. reflexivity. Qed.

End Signed.

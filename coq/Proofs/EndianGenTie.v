(* Proofs/EndianGenTie.v — umbrella: every function of Generated/EndianGen.v (src/buint/endian.rs, src/bint/endian.rs, regenerated
   from /repo/src on every run by tools/rs2v_endian.py) equals the hand-written model Model/Endian.v. *)
From Bnum Require Import Base Prim.
From Bnum.Model Require Import Core Imp Endian.
From Bnum.Generated Require Import EndianGen.
From Bnum.Proofs Require Export EndianGenTieBase EndianGenTieU EndianGenTieI EndianGenTieBytes.

(* w = 8 * 2^bs (a digit of 2^bs bytes); the budget covers the longest loop *)
Theorem endian_gen_match_model w bs (n : nat) fuel : byte_width w bs -> (dbytes w <= fuel)%nat ->
  (* to_be / from_be / to_le / from_le, little-endian target *)
  (forall x, EndianGen.from_be w (Z.of_nat n) fuel x = Done (U_from_be w x)) /\
  (forall x, EndianGen.from_le w (Z.of_nat n) fuel x = Done (U_from_le x)) /\
  (forall x, EndianGen.to_be w (Z.of_nat n) fuel x = Done (U_to_be w x)) /\
  (forall x, EndianGen.to_le w (Z.of_nat n) fuel x = Done (U_to_le x)) /\
  (forall x, EndianGen.I_from_be w (Z.of_nat n) fuel x = Done (I_from_be w x)) /\
  (forall x, EndianGen.I_from_le w (Z.of_nat n) fuel x = Done (I_from_le x)) /\
  (forall x, EndianGen.I_to_be w (Z.of_nat n) fuel x = Done (I_to_be w x)) /\
  (forall x, EndianGen.I_to_le w (Z.of_nat n) fuel x = Done (I_to_le x)) /\
  (* from_be_slice / from_le_slice: any slice no longer than the budget *)
  (forall slice, (length slice <= fuel)%nat ->
     EndianGen.from_be_slice w (Z.of_nat n) fuel slice = Done (U_from_be_slice w n slice) /\
     EndianGen.from_le_slice w (Z.of_nat n) fuel slice = Done (U_from_le_slice w n slice)) /\
  (forall slice, (0 < n)%nat -> (length slice <= fuel)%nat ->
     EndianGen.I_from_be_slice w (Z.of_nat n) fuel slice = Done (I_from_be_slice w n slice) /\
     EndianGen.I_from_le_slice w (Z.of_nat n) fuel slice = Done (I_from_le_slice w n slice)) /\
  (* nightly: to_*_bytes on a value of n digits, from_*_bytes on an array of n * BYTES bytes *)
  (forall x, length x = n -> (n <= fuel)%nat ->
     EndianGen.to_be_bytes w (Z.of_nat n) fuel x = Done (U_to_be_bytes w x) /\
     EndianGen.to_le_bytes w (Z.of_nat n) fuel x = Done (U_to_le_bytes w x) /\
     EndianGen.to_ne_bytes w (Z.of_nat n) fuel x = Done (U_to_ne_bytes w x) /\
     EndianGen.I_to_be_bytes w (Z.of_nat n) fuel x = Done (I_to_be_bytes w x) /\
     EndianGen.I_to_le_bytes w (Z.of_nat n) fuel x = Done (I_to_le_bytes w x) /\
     EndianGen.I_to_ne_bytes w (Z.of_nat n) fuel x = Done (I_to_ne_bytes w x)) /\
  (forall b, length b = (n * dbytes w)%nat -> (n <= fuel)%nat ->
     EndianGen.from_be_bytes w (Z.of_nat n) fuel b = Done (U_from_be_bytes w n b) /\
     EndianGen.from_le_bytes w (Z.of_nat n) fuel b = Done (U_from_le_bytes w n b) /\
     EndianGen.from_ne_bytes w (Z.of_nat n) fuel b = Done (U_from_ne_bytes w n b) /\
     EndianGen.I_from_be_bytes w (Z.of_nat n) fuel b = Done (I_from_be_bytes w n b) /\
     EndianGen.I_from_le_bytes w (Z.of_nat n) fuel b = Done (I_from_le_bytes w n b) /\
     EndianGen.I_from_ne_bytes w (Z.of_nat n) fuel b = Done (I_from_ne_bytes w n b)).
Proof.
  intros Hbw Hf. repeat match goal with |- _ /\ _ => split end; intros;
    repeat match goal with |- _ /\ _ => split end.
  - apply gen_from_be.
  - apply gen_from_le.
  - apply gen_to_be.
  - apply gen_to_le.
  - apply gen_I_from_be.
  - apply gen_I_from_le.
  - apply gen_I_to_be.
  - apply gen_I_to_le.
  - apply (gen_from_be_slice w bs); assumption.
  - apply (gen_from_le_slice w bs); assumption.
  - apply (gen_I_from_be_slice w bs); assumption.
  - apply (gen_I_from_le_slice w bs); assumption.
  - apply (gen_to_be_bytes w bs); assumption.
  - apply (gen_to_le_bytes w bs); assumption.
  - apply (gen_to_ne_bytes w bs); assumption.
  - apply (gen_I_to_be_bytes w bs); assumption.
  - apply (gen_I_to_le_bytes w bs); assumption.
  - apply (gen_I_to_ne_bytes w bs); assumption.
  - apply (gen_from_be_bytes w bs); assumption.
  - apply (gen_from_le_bytes w bs); assumption.
  - apply (gen_from_ne_bytes w bs); assumption.
  - apply (gen_I_from_be_bytes w bs); assumption.
  - apply (gen_I_from_le_bytes w bs); assumption.
  - apply (gen_I_from_ne_bytes w bs); assumption.
Qed.

(* Proofs/MulAux.v — general-purpose lemmas used by Proofs/Mul.v:
   list/denotation facts, constants (ZERO, ONE, UMAX, IMIN, IMAX), bitnot,
   the unsigned addition loop, the sign predicate and the signed negation loop
   (facts about Model/AddSub.v that the multiplication proofs need). *)
From Bnum Require Import Base Prim.
From Bnum.Model Require Import Digit Core Shift AddSub.

(* ---------- Z-level helpers ---------- *)

Lemma b2z_cases (b : bool) : (if b then 1 else 0) = 0 \/ (if b then 1 else 0) = 1.
Proof. destruct b; auto. Qed.

Lemma opp_mod_idemp x M : 0 < M -> (- (x mod M)) mod M = (- x) mod M.
Proof.
  intros HM. replace (- (x mod M)) with (- x + (x / M) * M)
    by (pose proof (Z.div_mod x M ltac:(lia)); lia).
  apply Z_mod_plus_full.
Qed.

Lemma B_even w : 0 < w -> B w = 2 * (B w / 2).
Proof.
  intros Hw. unfold B. replace w with (1 + (w - 1)) at 1 by lia.
  rewrite Z.pow_add_r by lia. change (2 ^ 1) with 2.
  replace w with (1 + (w - 1)) at 2 by lia.
  rewrite Z.pow_add_r by lia. change (2 ^ 1) with 2.
  rewrite (Z.mul_comm 2 (2 ^ (w - 1))), Z.div_mul by lia. lia.
Qed.

Lemma Mod_1 w : 0 <= w -> Mod w 1 = B w.
Proof. intros. rewrite Mod_S, Mod_0 by lia. lia. Qed.

Lemma Mod_half_S w n : 0 < w -> (0 < n)%nat -> Mod w (S n) / 2 = B w * (Mod w n / 2).
Proof.
  intros Hw Hn. rewrite Mod_S by lia. pose proof (Mod_even w n Hw Hn) as He.
  remember (Mod w n / 2) as h. rewrite He.
  replace (B w * (2 * h)) with ((B w * h) * 2) by lia. apply Z.div_mul. lia.
Qed.

Lemma Mod_half_last w k : 0 < w -> Mod w (S k) / 2 = Mod w k * (B w / 2).
Proof.
  intros Hw. rewrite Mod_S by lia. pose proof (B_even w Hw) as He.
  remember (B w / 2) as h. rewrite He.
  replace (2 * h * Mod w k) with ((Mod w k * h) * 2) by lia. apply Z.div_mul. lia.
Qed.

Lemma Mod_add w n m : 0 <= w -> Mod w (n + m) = Mod w n * Mod w m.
Proof.
  intros. unfold Mod. rewrite <- Z.pow_add_r by lia. f_equal. lia.
Qed.

(* ---------- lists ---------- *)

Lemma wf_Forall w n ds : wf w n ds -> Forall (digit_ok w) ds.
Proof. intros [_ H]; exact H. Qed.

Lemma wf_of_Forall w ds : Forall (digit_ok w) ds -> wf w (length ds) ds.
Proof. intros H; split; auto. Qed.

Lemma uval_nonneg w ds : 0 <= w -> Forall (digit_ok w) ds -> 0 <= uval w ds.
Proof.
  intros Hw H. pose proof (uval_bounds w (length ds) ds Hw (wf_of_Forall _ _ H)). lia.
Qed.

Lemma uval_repeat0 w k : uval w (repeat 0 k) = 0.
Proof. induction k as [|k IH]; cbn [repeat uval]; [reflexivity | rewrite IH; lia]. Qed.

Lemma wf_repeat w d k : digit_ok w d -> wf w k (repeat d k).
Proof.
  intros Hd. split; [apply repeat_length|]. induction k; cbn [repeat]; constructor; auto.
Qed.

Lemma digit_ok_0 w : 0 <= w -> digit_ok w 0.
Proof. intros Hw. pose proof (B_pos w Hw). unfold digit_ok; lia. Qed.

Lemma wf_ZERO w n : 0 <= w -> wf w n (ZERO n).
Proof. intros; apply wf_repeat, digit_ok_0; auto. Qed.

Lemma uval_ZERO w n : uval w (ZERO n) = 0.
Proof. apply uval_repeat0. Qed.

Lemma wf_ONE w n : 0 < w -> wf w n (ONE n).
Proof.
  intros Hw. destruct n as [|k]; [apply wf_nil|]. unfold ONE, from_digit. apply wf_cons. split.
  - pose proof (B_ge_2 w Hw). unfold digit_ok; lia.
  - apply wf_repeat, digit_ok_0; lia.
Qed.

Lemma uval_ONE w n : (0 < n)%nat -> uval w (ONE n) = 1.
Proof.
  intros Hn. destruct n as [|k]; [lia|]. unfold ONE, from_digit. cbn [uval].
  rewrite uval_repeat0. lia.
Qed.

Lemma uval_repeat_max w k : 0 <= w -> uval w (repeat (u_max w) k) = Mod w k - 1.
Proof.
  intros Hw. induction k as [|k IH]; cbn [repeat uval].
  - rewrite Mod_0. reflexivity.
  - rewrite IH, Mod_S by lia. unfold u_max. lia.
Qed.

Lemma digit_ok_max w : 0 <= w -> digit_ok w (u_max w).
Proof. intros Hw. pose proof (B_pos w Hw). unfold digit_ok, u_max; lia. Qed.

Lemma wf_UMAX w n : 0 <= w -> wf w n (UMAX w n).
Proof. intros; apply wf_repeat, digit_ok_max; auto. Qed.

Lemma uval_UMAX w n : 0 <= w -> uval w (UMAX w n) = Mod w n - 1.
Proof. apply uval_repeat_max. Qed.

Lemma wf_split w n m r : 0 <= w -> wf w (n + m) r ->
  wf w n (firstn n r) /\ wf w m (skipn n r) /\
  uval w r = uval w (firstn n r) + Mod w n * uval w (skipn n r).
Proof.
  intros Hw [Hl Hf].
  assert (Hfl : length (firstn n r) = n) by (rewrite firstn_length; lia).
  rewrite <- (firstn_skipn n r) in Hf. apply Forall_app in Hf. destruct Hf as [F1 F2].
  split; [split; auto|]. split; [split; auto; rewrite skipn_length; lia|].
  rewrite <- (firstn_skipn n r) at 1. rewrite uval_app, Hfl by lia. reflexivity.
Qed.

Lemma uval_split w k b : 0 <= w -> (k <= length b)%nat ->
  uval w b = uval w (firstn k b) + Mod w k * uval w (skipn k b).
Proof.
  intros Hw Hk. rewrite <- (firstn_skipn k b) at 1. rewrite uval_app by lia.
  rewrite firstn_length. replace (Nat.min k (length b)) with k by lia. reflexivity.
Qed.

Lemma Forall_skipn {A} (P : A -> Prop) k l : Forall P l -> Forall P (skipn k l).
Proof.
  intros H. rewrite <- (firstn_skipn k l) in H. apply Forall_app in H. tauto.
Qed.

(* ---------- bitnot ---------- *)

Lemma bitnot_spec w ds : 0 <= w -> Forall (digit_ok w) ds ->
  wf w (length ds) (bitnot w ds) /\ uval w (bitnot w ds) = Mod w (length ds) - 1 - uval w ds.
Proof.
  intros Hw H. induction H as [|d r Hd Hr IH]; cbn [bitnot map length uval].
  - split; [apply wf_nil | rewrite Mod_0; reflexivity].
  - destruct IH as [IW IU]. fold (bitnot w r). split.
    + apply wf_cons. split; [|exact IW]. unfold digit_ok, u_not in *. lia.
    + rewrite IU, Mod_S by lia. unfold u_not. lia.
Qed.

(* ---------- unsigned addition loop ---------- *)

Lemma carrying_add_spec w a b c s o : 0 < w -> digit_ok w a -> digit_ok w b ->
  carrying_add w a b c = (s, o) ->
  digit_ok w s /\ s + B w * (if o then 1 else 0) = a + b + (if c then 1 else 0).
Proof.
  intros Hw Ha Hb. unfold carrying_add, u_ovf_add, digit_ok in *.
  pose proof (B_ge_2 w Hw) as HB.
  destruct c; intros E; inversion E; subst; clear E.
  - destruct (Z.leb_spec (B w) (a + b)) as [H1|H1]; cbn [orb].
    + replace ((a + b) mod B w) with (a + b - B w)
        by (apply Z.mod_unique_pos with (q := 1); lia).
      rewrite Z.mod_small by lia. lia.
    + rewrite (Z.mod_small (a + b)) by lia.
      destruct (Z.leb_spec (B w) (a + b + 1)) as [H2|H2].
      * replace (a + b + 1) with (B w) by lia. rewrite Z.mod_same by lia. lia.
      * rewrite Z.mod_small by lia. lia.
  - destruct (Z.leb_spec (B w) (a + b)) as [H1|H1].
    + replace ((a + b) mod B w) with (a + b - B w)
        by (apply Z.mod_unique_pos with (q := 1); lia).
      lia.
    + rewrite Z.mod_small by lia. lia.
Qed.

Lemma add_loop_spec w : 0 < w -> forall n a b c r f, wf w n a -> wf w n b ->
  add_loop w a b c = (r, f) ->
  wf w n r /\
  uval w r + Mod w n * (if f then 1 else 0) = uval w a + uval w b + (if c then 1 else 0).
Proof.
  intros Hw. induction n as [|n IH]; intros a b c r f Ha Hb E.
  - apply wf_inv_0 in Ha, Hb; subst. cbn [add_loop] in E. inversion E; subst.
    split; [apply wf_nil|]. rewrite Mod_0. cbn [uval]. lia.
  - destruct (wf_inv_S _ _ _ Ha) as (x & a' & -> & Hx & Ha').
    destruct (wf_inv_S _ _ _ Hb) as (y & b' & -> & Hy & Hb').
    cbn [add_loop] in E.
    destruct (carrying_add w x y c) as [s c1] eqn:E1.
    destruct (add_loop w a' b' c1) as [r' cf] eqn:E2.
    inversion E; subst; clear E.
    destruct (carrying_add_spec _ _ _ _ _ _ Hw Hx Hy E1) as [Hs Hsum].
    destruct (IH _ _ _ _ _ Ha' Hb' E2) as [Hr' Hsum'].
    split; [apply wf_cons; auto|].
    cbn [uval]. rewrite Mod_S by lia.
    assert (B w * (uval w r' + Mod w n * (if f then 1 else 0)) =
            B w * (uval w a' + uval w b' + (if c1 then 1 else 0))) by (f_equal; exact Hsum').
    lia.
Qed.

(* ---------- sign predicate ---------- *)

Lemma is_negative_cons w d x r : is_negative w (d :: x :: r) = is_negative w (x :: r).
Proof. reflexivity. Qed.

Lemma is_negative_uval w : 0 < w -> forall n a, wf w (S n) a ->
  is_negative w a = (Mod w (S n) / 2 <=? uval w a).
Proof.
  intros Hw. induction n as [|n IH]; intros a Ha.
  - destruct (wf_inv_S _ _ _ Ha) as (d & a' & -> & Hd & Ha'). apply wf_inv_0 in Ha'; subst.
    unfold is_negative, signed_digit, top_digit, sd, to_signed. cbn [last uval].
    rewrite Mod_1 by lia. pose proof (B_even w Hw). unfold digit_ok in Hd.
    destruct (Z.ltb_spec d (B w / 2)); destruct (Z.leb_spec (B w / 2) (d + B w * 0));
      destruct (Z.ltb_spec d 0); destruct (Z.ltb_spec (d - B w) 0); try reflexivity; lia.
  - destruct (wf_inv_S _ _ _ Ha) as (d & a' & -> & Hd & Ha').
    destruct (wf_inv_S _ _ _ Ha') as (x & r & -> & Hx & Hr).
    rewrite is_negative_cons, (IH _ Ha'). rewrite (Mod_half_S w (S n)) by lia.
    set (h := Mod w (S n) / 2). set (U := uval w (x :: r)).
    change (uval w (d :: x :: r)) with (d + B w * U).
    pose proof (B_pos w ltac:(lia)). unfold digit_ok in Hd.
    destruct (Z.leb_spec h U); destruct (Z.leb_spec (B w * h) (d + B w * U)); try reflexivity; nia.
Qed.

Lemma sval_unfold w n a : wf w n a ->
  sval w a = if uval w a <? Mod w n / 2 then uval w a else uval w a - Mod w n.
Proof. intros H. unfold sval, to_signed. rewrite (wf_length _ _ _ H). reflexivity. Qed.

Lemma is_negative_sval w n a : 0 < w -> (0 < n)%nat -> wf w n a ->
  is_negative w a = (sval w a <? 0).
Proof.
  intros Hw Hn Ha. destruct n as [|k]; [lia|].
  rewrite (is_negative_uval w Hw k a Ha), (sval_unfold _ _ _ Ha).
  pose proof (uval_bounds w _ _ ltac:(lia) Ha). pose proof (Mod_even w (S k) Hw ltac:(lia)).
  destruct (Z.ltb_spec (uval w a) (Mod w (S k) / 2)); destruct (Z.leb_spec (Mod w (S k) / 2) (uval w a));
    lia.
Qed.

(* a well-formed list whose value is congruent to X reads, as a signed number, wrapS X *)
Lemma sval_unique w n r X : 0 < w -> (0 < n)%nat -> wf w n r ->
  uval w r mod Mod w n = X mod Mod w n -> sval w r = wrapS (Mod w n) X.
Proof.
  intros Hw Hn Hr E. pose proof (Mod_pos w n ltac:(lia)). pose proof (Mod_even w n Hw Hn).
  apply signed_unique with (Mod w n); auto.
  - apply sval_range; auto.
  - apply wrapS_range; auto.
  - rewrite (sval_mod _ _ _ Hw Hr), wrapS_mod by lia. exact E.
Qed.

(* ---------- signed negation loop ---------- *)

Lemma ineg_loop_cons w d x r :
  ineg_loop w (d :: x :: r) =
  let '(s, o) := u_ovf_add w (u_not w d) 1 in
  if o then let '(r', f) := ineg_loop w (x :: r) in (s :: r', f)
  else (s :: bitnot w (x :: r), false).
Proof. reflexivity. Qed.

Lemma ineg_loop_spec w : 0 < w -> forall n a r f, wf w (S n) a -> ineg_loop w a = (r, f) ->
  wf w (S n) r /\ uval w r = (- uval w a) mod Mod w (S n) /\
  f = (uval w a =? Mod w (S n) / 2).
Proof.
  intros Hw. pose proof (B_ge_2 w Hw) as HB. pose proof (B_even w Hw) as HBe.
  induction n as [|n IH]; intros a r f Ha E.
  - destruct (wf_inv_S _ _ _ Ha) as (d & a' & -> & Hd & Ha'). apply wf_inv_0 in Ha'; subst.
    cbn [ineg_loop] in E. unfold s_ovf_add, sd, ud, u_not in E. inversion E; subst; clear E.
    rewrite Mod_1 by lia. unfold digit_ok in Hd. cbn [uval].
    assert (Hm : wrapS (B w) (to_signed (B w) (B w - 1 - d) + 1) mod B w = (- d) mod B w).
    { rewrite wrapS_mod by lia. rewrite Zplus_mod, to_signed_mod, <- Zplus_mod by lia.
      replace (B w - 1 - d + 1) with (- d + 1 * B w) by lia. apply Z_mod_plus_full. }
    split; [|split].
    + apply wf_cons. split; [|apply wf_nil]. unfold digit_ok. apply Z.mod_pos_bound; lia.
    + rewrite Hm. replace (d + B w * 0) with d by lia. lia.
    + unfold inS, to_signed. remember (B w / 2) as h.
      replace (d + B w * 0) with d by lia.
      destruct (Z.ltb_spec (B w - 1 - d) h); destruct (Z.eqb_spec d h);
      match goal with |- negb (?x && ?y) = _ =>
        destruct (Z.leb_spec (- h) (B w - 1 - d + 1)); destruct (Z.ltb_spec (B w - 1 - d + 1) h);
        destruct (Z.leb_spec (- h) (B w - 1 - d - B w + 1)); destruct (Z.ltb_spec (B w - 1 - d - B w + 1) h)
      end; cbn [negb andb]; try reflexivity; lia.
  - destruct (wf_inv_S _ _ _ Ha) as (d & a' & -> & Hd & Ha').
    destruct (wf_inv_S _ _ _ Ha') as (x & t & -> & Hx & Ht).
    rewrite ineg_loop_cons in E. unfold u_ovf_add, u_not in E.
    rewrite (Mod_half_S w (S n)) by lia. rewrite (Mod_S w (S n)) by lia.
    set (U := uval w (x :: t)) in *. set (M' := Mod w (S n)) in *. set (h := M' / 2) in *.
    change (uval w (d :: x :: t)) with (d + B w * U).
    pose proof (uval_bounds w _ _ ltac:(lia) Ha') as HU. fold U M' in HU.
    unfold digit_ok in Hd.
    destruct (Z.leb_spec (B w) (B w - 1 - d + 1)) as [Ho|Ho].
    + assert (d = 0) by lia. subst d.
      destruct (ineg_loop w (x :: t)) as [r' f'] eqn:E'. inversion E; subst; clear E.
      destruct (IH _ _ _ Ha' E') as (Wr & Ur & Fr). fold U M' h in Ur, Fr.
      replace (B w - 1 - 0 + 1) with (B w) by lia. rewrite Z.mod_same by lia.
      split; [|split].
      * apply wf_cons. split; [unfold digit_ok; lia | exact Wr].
      * cbn [uval]. rewrite Ur. replace (- (0 + B w * U)) with (B w * (- U)) by lia.
        rewrite Z.mul_mod_distr_l by (unfold M'; pose proof (Mod_pos w (S n)); lia). lia.
      * rewrite Fr. destruct (Z.eqb_spec U h); destruct (Z.eqb_spec (0 + B w * U) (B w * h)); try reflexivity; nia.
    + destruct (bitnot_spec w (x :: t) ltac:(lia) (wf_Forall _ _ _ Ha')) as [Wn Un].
      rewrite (wf_length _ _ _ Ha') in Wn, Un. fold U M' in Un.
      set (nb := bitnot w (x :: t)) in *.
      inversion E; subst r f; clear E.
      rewrite (Z.mod_small (B w - 1 - d + 1)) by lia.
      split; [|split].
      * apply wf_cons. split; [unfold digit_ok; lia | exact Wn].
      * cbn [uval]. rewrite Un. apply Z.mod_unique_pos with (q := -1); nia.
      * symmetry. apply Z.eqb_neq. intros Heq.
        assert (d = B w * (h - U)) by lia.
        assert (h - U <= 0 \/ 1 <= h - U) as [Hc|Hc] by lia; nia.
Qed.

Lemma I_unsigned_abs_spec w n a : 0 < w -> (0 < n)%nat -> wf w n a ->
  wf w n (I_unsigned_abs w a) /\ uval w (I_unsigned_abs w a) = Z.abs (sval w a).
Proof.
  intros Hw Hn Ha. unfold I_unsigned_abs. rewrite (is_negative_sval w n a Hw Hn Ha).
  pose proof (uval_bounds w _ _ ltac:(lia) Ha) as HU.
  pose proof (Mod_even w n Hw Hn) as He.
  pose proof (sval_unfold _ _ _ Ha) as Hs.
  destruct (Z.ltb_spec (sval w a) 0) as [Hneg|Hpos].
  - destruct n as [|k]; [lia|]. unfold I_wrapping_neg, I_overflowing_neg.
    destruct (ineg_loop w a) as [r f] eqn:E. cbn [fst].
    destruct (ineg_loop_spec w Hw k a r f Ha E) as (Wr & Ur & _).
    split; [exact Wr|]. rewrite Ur.
    destruct (Z.ltb_spec (uval w a) (Mod w (S k) / 2)); [lia|].
    rewrite Z.abs_neq by lia. rewrite Hs.
    symmetry. apply Z.mod_unique_pos with (q := -1); lia.
  - split; [exact Ha|]. rewrite Z.abs_eq by lia.
    destruct (Z.ltb_spec (uval w a) (Mod w n / 2)); lia.
Qed.

(* uval-level reading of checked_neg *)
Lemma I_checked_neg_uval w n a : 0 < w -> (0 < n)%nat -> wf w n a ->
  match I_checked_neg w a with
  | None => uval w a = Mod w n / 2
  | Some r => wf w n r /\ uval w r = (- uval w a) mod Mod w n /\ uval w a <> Mod w n / 2
  end.
Proof.
  intros Hw Hn Ha. destruct n as [|k]; [lia|].
  unfold I_checked_neg, I_overflowing_neg, tuple_to_option.
  destruct (ineg_loop w a) as [r f] eqn:E. cbn [fst snd].
  destruct (ineg_loop_spec w Hw k a r f Ha E) as (Wr & Ur & Fr).
  destruct f.
  - symmetry in Fr. apply Z.eqb_eq in Fr. exact Fr.
  - symmetry in Fr. apply Z.eqb_neq in Fr. auto.
Qed.

(* I_checked_neg = None iff SA = MIN, else Some r with sval r = - SA *)
Lemma I_checked_neg_spec w n a : 0 < w -> (0 < n)%nat -> wf w n a ->
  match I_checked_neg w a with
  | None => sval w a = - (Mod w n / 2)
  | Some r => wf w n r /\ sval w r = - sval w a /\ sval w a <> - (Mod w n / 2)
  end.
Proof.
  intros Hw Hn Ha. pose proof (I_checked_neg_uval w n a Hw Hn Ha) as H.
  pose proof (uval_bounds w _ _ ltac:(lia) Ha) as HU.
  pose proof (Mod_even w n Hw Hn) as He. pose proof (Mod_pos w n ltac:(lia)) as HM.
  pose proof (sval_unfold _ _ _ Ha) as Hs.
  destruct (I_checked_neg w a) as [r|].
  - destruct H as (Wr & Ur & Hne). split; [exact Wr|].
    pose proof (sval_range w n a Hw Hn Ha) as Hra.
    assert (Hsa : sval w a <> - (Mod w n / 2)).
    { rewrite Hs. destruct (Z.ltb_spec (uval w a) (Mod w n / 2)); lia. }
    split; [|exact Hsa].
    rewrite (sval_unique w n r (- sval w a) Hw Hn Wr).
    + apply wrapS_id; lia.
    + rewrite Ur, Z.mod_mod by lia. rewrite <- (opp_mod_idemp (sval w a)) by lia.
      rewrite (sval_mod _ _ _ Hw Ha). symmetry. apply opp_mod_idemp; lia.
  - rewrite Hs, H. destruct (Z.ltb_spec (Mod w n / 2) (Mod w n / 2)); lia.
Qed.

(* ---------- IMIN / IMAX ---------- *)

Lemma IMIN_spec w n : 0 < w -> (0 < n)%nat ->
  wf w n (IMIN w n) /\ sval w (IMIN w n) = - (Mod w n / 2).
Proof.
  intros Hw Hn. destruct n as [|k]; [lia|]. unfold IMIN.
  pose proof (B_even w Hw) as HBe. pose proof (B_ge_2 w Hw) as HB.
  assert (W : wf w (S k) (repeat 0 k ++ [B w / 2])).
  { replace (S k) with (k + 1)%nat by lia. apply wf_app.
    - apply wf_repeat, digit_ok_0; lia.
    - apply wf_cons. split; [unfold digit_ok; lia | apply wf_nil]. }
  split; [exact W|]. rewrite (sval_unfold _ _ _ W).
  rewrite uval_app, repeat_length, uval_repeat0 by lia. cbn [uval].
  rewrite (Mod_half_last w k Hw). pose proof (Mod_even w (S k) Hw ltac:(lia)) as He.
  rewrite (Mod_half_last w k Hw) in He.
  replace (0 + Mod w k * (B w / 2 + B w * 0)) with (Mod w k * (B w / 2)) by lia.
  rewrite Z.ltb_irrefl. lia.
Qed.

Lemma IMAX_spec w n : 0 < w -> (0 < n)%nat ->
  wf w n (IMAX w n) /\ sval w (IMAX w n) = Mod w n / 2 - 1.
Proof.
  intros Hw Hn. destruct n as [|k]; [lia|]. unfold IMAX.
  pose proof (B_even w Hw) as HBe. pose proof (B_ge_2 w Hw) as HB.
  assert (W : wf w (S k) (repeat (u_max w) k ++ [B w / 2 - 1])).
  { replace (S k) with (k + 1)%nat by lia. apply wf_app.
    - apply wf_repeat, digit_ok_max; lia.
    - apply wf_cons. split; [unfold digit_ok; lia | apply wf_nil]. }
  split; [exact W|]. rewrite (sval_unfold _ _ _ W).
  rewrite uval_app, repeat_length, uval_repeat_max by lia. cbn [uval].
  rewrite (Mod_half_last w k Hw). pose proof (Mod_pos w k ltac:(lia)).
  replace (Mod w k - 1 + Mod w k * (B w / 2 - 1 + B w * 0)) with (Mod w k * (B w / 2) - 1) by lia.
  destruct (Z.ltb_spec (Mod w k * (B w / 2) - 1) (Mod w k * (B w / 2))); lia.
Qed.

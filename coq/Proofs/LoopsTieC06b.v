(* Proofs/LoopsTieC06b.v — second batch of the C06 group: the array read / write one-liners of src/buint/mod.rs
   (from_digit, ...) GENERATED on every run (Generated/Loops.v, by tools/rs2v_loops.py) equal the hand-written
   model (Model/Core.v, Model/Bits.v). *)
From Bnum Require Import Base Prim.
From Bnum.Model Require Import DigitPrims LoopPrims Digit Core Bits Imp.
From Bnum.Generated Require Import DigitGen Loops.
From Bnum.Proofs Require Import ImpLemmas ImpLemmas2.

(* `out.digits[0] = digit` panics for N = 0; Self::ONE .. Self::TEN are from_digit(1) .. from_digit(10) *)
Lemma loops_from_digit w n d : (0 < n)%nat ->
  forall fuel, Loops.from_digit w (Z.of_nat n) fuel d = Done (from_digit n d).
Proof.
  intros Hn fuel. unfold Loops.from_digit. rewrite Nat2Z.id. destruct n as [|k]; [lia|].
  unfold ZERO. cbn [repeat]. reflexivity.
Qed.

Lemma loops_from_digit_0 w d fuel : Loops.from_digit w 0 fuel d = Panicked.
Proof. reflexivity. Qed.

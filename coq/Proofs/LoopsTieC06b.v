(* Proofs/LoopsTieC06b.v — second batch of the C06 group: the array read / write one-liners of src/buint/mod.rs
   (from_digit, ...) GENERATED on every run (Generated/Loops.v, by tools/rs2v_loops.py) equal the hand-written
   model (Model/Core.v, Model/Bits.v). *)
From Bnum Require Import Base Prim.
From Bnum.Model Require Import DigitPrims LoopPrims Digit Core Imp.
From Bnum.Model Require Shift Bits Convert.
From Bnum.Generated Require Import DigitGen Loops.
From Bnum.Proofs Require Import BitsLemmas ImpLemmas ImpLemmas2 LoopsTieC06.
From Bnum.Proofs Require Bits.

(* `out.digits[0] = digit` panics for N = 0; Self::ONE .. Self::TEN are from_digit(1) .. from_digit(10) *)
Lemma loops_from_digit w n d : (0 < n)%nat ->
  forall fuel, Loops.from_digit w (Z.of_nat n) fuel d = Done (from_digit n d).
Proof.
  intros Hn fuel. unfold Loops.from_digit. rewrite Nat2Z.id. destruct n as [|k]; [lia|].
  unfold ZERO. cbn [repeat]. reflexivity.
Qed.

Lemma loops_from_digit_0 w d fuel : Loops.from_digit w 0 fuel d = Panicked.
Proof. reflexivity. Qed.

Lemma loops_digits w n a fuel : Loops.digits w n fuel a = Done (Convert.digits a).
Proof. reflexivity. Qed.

Lemma loops_from_digits w n a fuel : Loops.from_digits w n fuel a = Done (Convert.from_digits a).
Proof. reflexivity. Qed.

Lemma set_nth_as_list_set f l k : (k < length l)%nat -> Shift.set_nth k f l = list_set l k (f (nth k l 0)).
Proof.
  intros Hk. unfold Shift.set_nth. rewrite list_set_split by exact Hk.
  rewrite (skipn_nth_cons l k) by exact Hk. reflexivity.
Qed.

(* bit / set_bit / power_of_two: `index >> BIT_SHIFT` is the digit, `index & BITS_MINUS_1` the bit in it (power-of-two width);
   the index past the array is the Rust index panic, which the hand model has as Panic *)
Lemma loops_bit w lg n a index : 0 <= lg -> w = 2 ^ lg -> wf w n a -> 0 <= index ->
  forall fuel, Loops.bit w (Z.of_nat n) fuel a index =
               match Bits.bit w a index with Ret b => Done b | Panic => Panicked end.
Proof.
  intros Hlg Hw _ Hi fuel. assert (0 < w) by (subst w; apply Z.pow_pos_nonneg; lia).
  unfold Loops.bit, Bits.bit. destruct (bit_addr_split w lg index Hlg Hw Hi) as [-> ->].
  rewrite arr_get_cases by (apply Z.div_pos; lia).
  destruct (Z.to_nat (index / w) <? length a)%nat; [|reflexivity]. cbn [bind].
  rewrite dshl_ok by (apply Z.mod_pos_bound; lia). reflexivity.
Qed.

Lemma loops_set_bit w lg n a index value : 0 <= lg -> w = 2 ^ lg -> wf w n a -> 0 <= index ->
  forall fuel, Loops.set_bit w (Z.of_nat n) fuel a index value =
               match Bits.set_bit w a index value with Ret r => Done r | Panic => Panicked end.
Proof.
  intros Hlg Hw _ Hi fuel. assert (0 < w) by (subst w; apply Z.pow_pos_nonneg; lia).
  unfold Loops.set_bit, Bits.set_bit. destruct (bit_addr_split w lg index Hlg Hw Hi) as [-> ->].
  cbv zeta. rewrite arr_get_cases by (apply Z.div_pos; lia).
  destruct (Nat.ltb_spec (Z.to_nat (index / w)) (length a)) as [Hlt|Hge]; [|reflexivity]. cbn [bind].
  rewrite !dshl_ok by (apply Z.mod_pos_bound; lia). cbn [bind].
  rewrite arr_set_cases by (apply Z.div_pos; lia).
  destruct (Nat.ltb_spec (Z.to_nat (index / w)) (length a)) as [_|?]; [|lia]. cbn [bind].
  rewrite set_nth_as_list_set by exact Hlt. destruct value; reflexivity.
Qed.

Lemma loops_power_of_two w lg n power : 0 <= lg -> w = 2 ^ lg -> 0 <= power ->
  forall fuel, Loops.power_of_two w (Z.of_nat n) fuel power =
               match Bits.power_of_two w n power with Ret r => Done r | Panic => Panicked end.
Proof.
  intros Hlg Hw Hi fuel. assert (0 < w) by (subst w; apply Z.pow_pos_nonneg; lia).
  unfold Loops.power_of_two, Bits.power_of_two. rewrite Nat2Z.id.
  rewrite usub_ok by lia. cbn [bind]. change (w - 1) with (digit_BITS_MINUS_1 w).
  destruct (bit_addr_split w lg power Hlg Hw Hi) as [-> ->].
  rewrite dshl_ok by (apply Z.mod_pos_bound; lia). cbn [bind].
  rewrite arr_set_cases by (apply Z.div_pos; lia). unfold ZERO at 1. rewrite repeat_length.
  destruct (Nat.ltb_spec (Z.to_nat (power / w)) n) as [Hlt|Hge]; [|reflexivity]. cbn [bind].
  rewrite set_nth_as_list_set by (unfold ZERO; rewrite repeat_length; exact Hlt). reflexivity.
Qed.

(* ---- bits(): `Self::BITS - self.leading_zeros()` (the u32 subtraction cannot go below zero) ---- *)
Lemma bits_of_range w n a : 0 < w -> wf w n a -> 0 <= Bits.bits_of w a <= bits w n.
Proof.
  intros Hw Ha. unfold Bits.bits_of. rewrite (proj1 Ha). rewrite (Bits.leading_zeros_ok w n a Hw Ha).
  pose proof (uval_bounds w n a ltac:(lia) Ha) as Hb.
  assert (0 <= bitlen (uval w a) <= bits w n); [|lia].
  destruct (Z.eq_dec (uval w a) 0) as [->|Hnz]; [rewrite bitlen_0; unfold bits; nia|].
  rewrite bitlen_pos by lia. pose proof (Z.log2_nonneg (uval w a)).
  split; [lia|]. rewrite Bits.Mod_pow in Hb.
  assert (Z.log2 (uval w a) < bits w n); [|lia].
  apply Z.log2_lt_pow2; [lia|]. unfold bits. lia.
Qed.

Lemma loops_bits w n a : 0 < w -> wf w n a ->
  forall fuel, (n <= fuel)%nat -> Loops.bits w (Z.of_nat n) fuel a = Done (Bits.bits_of w a).
Proof.
  intros Hw Ha fuel Hf. unfold Loops.bits. rewrite loops_leading_zeros by assumption. cbn [bind].
  pose proof (bits_of_range w n a Hw Ha) as Hr. unfold Bits.bits_of in *. rewrite (proj1 Ha) in *. unfold bits in *.
  rewrite usub_ok by lia. reflexivity.
Qed.

Lemma loops_checked_next_power_of_two w lg n a : 0 <= lg -> w = 2 ^ lg -> wf w n a ->
  forall fuel, (n <= fuel)%nat ->
  Loops.checked_next_power_of_two w (Z.of_nat n) fuel a =
  match Bits.U_checked_next_power_of_two w a with Ret o => Done o | Panic => Panicked end.
Proof.
  intros Hlg Hw Ha fuel Hf. assert (0 < w) by (subst w; apply Z.pow_pos_nonneg; lia).
  unfold Loops.checked_next_power_of_two, Bits.U_checked_next_power_of_two.
  rewrite loops_is_power_of_two by assumption. cbn [bind].
  destruct (Bits.U_is_power_of_two a); [reflexivity|].
  rewrite loops_bits by assumption. cbn [bind]. rewrite (proj1 Ha). unfold bits at 1.
  destruct (Bits.bits_of w a =? w * Z.of_nat n); [reflexivity|].
  rewrite (loops_power_of_two w lg) by first [assumption | apply (bits_of_range w n a); assumption].
  destruct (Bits.power_of_two w n (Bits.bits_of w a)); reflexivity.
Qed.

(* ---- all obligations of this batch in one statement ---- *)
Theorem loops_C06b_match_model w lg : 0 <= lg -> w = 2 ^ lg ->
  (forall n d fuel, (0 < n)%nat -> Loops.from_digit w (Z.of_nat n) fuel d = Done (from_digit n d)) /\
  (forall n a fuel, Loops.digits w n fuel a = Done (Convert.digits a)) /\
  (forall n a fuel, Loops.from_digits w n fuel a = Done (Convert.from_digits a)) /\
  (forall n a index fuel, wf w n a -> 0 <= index ->
     Loops.bit w (Z.of_nat n) fuel a index = match Bits.bit w a index with Ret b => Done b | Panic => Panicked end) /\
  (forall n a index value fuel, wf w n a -> 0 <= index ->
     Loops.set_bit w (Z.of_nat n) fuel a index value =
     match Bits.set_bit w a index value with Ret r => Done r | Panic => Panicked end) /\
  (forall n power fuel, 0 <= power ->
     Loops.power_of_two w (Z.of_nat n) fuel power =
     match Bits.power_of_two w n power with Ret r => Done r | Panic => Panicked end) /\
  (forall n a fuel, wf w n a -> (n <= fuel)%nat -> Loops.bits w (Z.of_nat n) fuel a = Done (Bits.bits_of w a)) /\
  (forall n a fuel, wf w n a -> (n <= fuel)%nat ->
     Loops.checked_next_power_of_two w (Z.of_nat n) fuel a =
     match Bits.U_checked_next_power_of_two w a with Ret o => Done o | Panic => Panicked end).
Proof.
  intros Hlg Hw. assert (0 < w) by (subst w; apply Z.pow_pos_nonneg; lia). repeat split; intros.
  - apply loops_from_digit; assumption.
  - apply (loops_bit w lg); assumption.
  - apply (loops_set_bit w lg); assumption.
  - apply (loops_power_of_two w lg); assumption.
  - apply loops_bits; assumption.
  - apply (loops_checked_next_power_of_two w lg); assumption.
Qed.

(* Proofs/LoopsTieC06b.v — second batch of the C06 group: the array read / write one-liners of src/buint/mod.rs
   (from_digit, ...) GENERATED on every run (Generated/Loops.v, by tools/rs2v_loops.py) equal the hand-written
   model (Model/Core.v, Model/Bits.v). *)
From Bnum Require Import Base Prim.
From Bnum.Model Require Import DigitPrims LoopPrims Digit Core Imp.
From Bnum.Model Require Shift Bits Convert.
From Bnum.Generated Require Import DigitGen Loops.
From Bnum.Proofs Require Import ImpLemmas ImpLemmas2.

(* `out.digits[0] = digit` panics for N = 0; Self::ONE .. Self::TEN are from_digit(1) .. from_digit(10) *)
Lemma loops_from_digit w n d : (0 < n)%nat ->
  forall fuel, Loops.from_digit w (Z.of_nat n) fuel d = Done (from_digit n d).
Proof.
  intros Hn fuel. unfold Loops.from_digit. rewrite Nat2Z.id. destruct n as [|k]; [lia|].
  unfold ZERO. cbn [repeat]. reflexivity.
Qed.

Lemma loops_from_digit_0 w d fuel : Loops.from_digit w 0 fuel d = Panicked.
Proof. reflexivity. Qed.

Lemma loops_digits w n a fuel : Loops.digits w n fuel a = Done (Convert.digits a).
Proof. reflexivity. Qed.

Lemma loops_from_digits w n a fuel : Loops.from_digits w n fuel a = Done (Convert.from_digits a).
Proof. reflexivity. Qed.

Lemma set_nth_as_list_set f l k : (k < length l)%nat -> Shift.set_nth k f l = list_set l k (f (nth k l 0)).
Proof.
  intros Hk. unfold Shift.set_nth. rewrite list_set_split by exact Hk.
  rewrite (skipn_nth_cons l k) by exact Hk. reflexivity.
Qed.

(* bit / set_bit / power_of_two: `index >> BIT_SHIFT` is the digit, `index & BITS_MINUS_1` the bit in it (power-of-two width);
   the index past the array is the Rust index panic, which the hand model has as Panic *)
Lemma loops_bit w lg n a index : 0 <= lg -> w = 2 ^ lg -> wf w n a -> 0 <= index ->
  forall fuel, Loops.bit w (Z.of_nat n) fuel a index =
               match Bits.bit w a index with Ret b => Done b | Panic => Panicked end.
Proof.
  intros Hlg Hw _ Hi fuel. assert (0 < w) by (subst w; apply Z.pow_pos_nonneg; lia).
  unfold Loops.bit, Bits.bit. destruct (bit_addr_split w lg index Hlg Hw Hi) as [-> ->].
  rewrite arr_get_cases by (apply Z.div_pos; lia).
  destruct (Z.to_nat (index / w) <? length a)%nat; [|reflexivity]. cbn [bind].
  rewrite dshl_ok by (apply Z.mod_pos_bound; lia). reflexivity.
Qed.

Lemma loops_set_bit w lg n a index value : 0 <= lg -> w = 2 ^ lg -> wf w n a -> 0 <= index ->
  forall fuel, Loops.set_bit w (Z.of_nat n) fuel a index value =
               match Bits.set_bit w a index value with Ret r => Done r | Panic => Panicked end.
Proof.
  intros Hlg Hw _ Hi fuel. assert (0 < w) by (subst w; apply Z.pow_pos_nonneg; lia).
  unfold Loops.set_bit, Bits.set_bit. destruct (bit_addr_split w lg index Hlg Hw Hi) as [-> ->].
  cbv zeta. rewrite arr_get_cases by (apply Z.div_pos; lia).
  destruct (Nat.ltb_spec (Z.to_nat (index / w)) (length a)) as [Hlt|Hge]; [|reflexivity]. cbn [bind].
  rewrite !dshl_ok by (apply Z.mod_pos_bound; lia). cbn [bind].
  rewrite arr_set_cases by (apply Z.div_pos; lia).
  destruct (Nat.ltb_spec (Z.to_nat (index / w)) (length a)) as [_|?]; [|lia]. cbn [bind].
  rewrite set_nth_as_list_set by exact Hlt. destruct value; reflexivity.
Qed.

Lemma loops_power_of_two w lg n power : 0 <= lg -> w = 2 ^ lg -> 0 <= power ->
  forall fuel, Loops.power_of_two w (Z.of_nat n) fuel power =
               match Bits.power_of_two w n power with Ret r => Done r | Panic => Panicked end.
Proof.
  intros Hlg Hw Hi fuel. assert (0 < w) by (subst w; apply Z.pow_pos_nonneg; lia).
  unfold Loops.power_of_two, Bits.power_of_two. rewrite Nat2Z.id.
  rewrite usub_ok by lia. cbn [bind]. change (w - 1) with (digit_BITS_MINUS_1 w).
  destruct (bit_addr_split w lg power Hlg Hw Hi) as [-> ->].
  rewrite dshl_ok by (apply Z.mod_pos_bound; lia). cbn [bind].
  rewrite arr_set_cases by (apply Z.div_pos; lia). unfold ZERO at 1. rewrite repeat_length.
  destruct (Nat.ltb_spec (Z.to_nat (power / w)) n) as [Hlt|Hge]; [|reflexivity]. cbn [bind].
  rewrite set_nth_as_list_set by (unfold ZERO; rewrite repeat_length; exact Hlt). reflexivity.
Qed.

(* ---- all obligations of this batch in one statement ---- *)
Theorem loops_C06b_match_model w lg : 0 <= lg -> w = 2 ^ lg ->
  (forall n d fuel, (0 < n)%nat -> Loops.from_digit w (Z.of_nat n) fuel d = Done (from_digit n d)) /\
  (forall n a fuel, Loops.digits w n fuel a = Done (Convert.digits a)) /\
  (forall n a fuel, Loops.from_digits w n fuel a = Done (Convert.from_digits a)) /\
  (forall n a index fuel, wf w n a -> 0 <= index ->
     Loops.bit w (Z.of_nat n) fuel a index = match Bits.bit w a index with Ret b => Done b | Panic => Panicked end) /\
  (forall n a index value fuel, wf w n a -> 0 <= index ->
     Loops.set_bit w (Z.of_nat n) fuel a index value =
     match Bits.set_bit w a index value with Ret r => Done r | Panic => Panicked end) /\
  (forall n power fuel, 0 <= power ->
     Loops.power_of_two w (Z.of_nat n) fuel power =
     match Bits.power_of_two w n power with Ret r => Done r | Panic => Panicked end).
Proof.
  intros Hlg Hw. repeat split; intros.
  - apply loops_from_digit; assumption.
  - apply (loops_bit w lg); assumption.
  - apply (loops_set_bit w lg); assumption.
  - apply (loops_power_of_two w lg); assumption.
Qed.

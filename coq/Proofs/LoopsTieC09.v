(* Proofs/LoopsTieC09.v — casts between bnum integers of the same digit type: src/buint/cast.rs cast_up<M>, cast_down<M>
   (the loops behind `CastFrom<$BUint<M>> for $BUint<N>` and its signed variants).  Part of the tie between the loop
   functions GENERATED from /repo/src on every run (Generated/Loops.v, by tools/rs2v_loops.py) and the hand-written
   model (Model/Cast.v, an `outcome`): under the call-site conditions (cast_up: the target is longer, cast_down: not
   longer) and with fuel >= the number of iterations the generated function returns what the model returns. *)
From Bnum Require Import Base Prim.
From Bnum.Model Require Import DigitPrims LoopPrims Core Imp.
From Bnum.Model Require Cast.
From Bnum.Generated Require Import DigitGen Loops.
From Bnum.Proofs Require Import ImpLemmas ImpLemmas2.
From Bnum.Proofs Require Cast.

Lemma map_id_Z (l : list Z) : map (fun x => x) l = l.
Proof. induction l as [|x l IH]; [reflexivity|]. cbn [map]. rewrite IH. reflexivity. Qed.

Lemma loops_cast_down w n m a : length a = n -> (m <= n)%nat ->
  forall fuel, (m <= fuel)%nat ->
  Loops.cast_down w (Z.of_nat n) fuel (Z.of_nat m) a =
  match Cast.cast_down a m with Ret r => Done r | Panic => Panicked end.
Proof.
  intros Ha Hm fuel Hf. rewrite Cast.cast_down_ok by lia. unfold Loops.cast_down. rewrite Nat2Z.id.
  assert (Hnth : forall j, (j < m)%nat -> nth j (firstn m a) 0 = nth j a 0) by (intros; apply nth_firstn_lt; assumption).
  assert (Hl : length (firstn m a) = m) by (rewrite firstn_length; lia).
  set (l := firstn m a) in *. clearbody l. subst m.
  rewrite (loop_map1_all (fun x => x) l); try first [assumption | apply repeat_length | reflexivity].
  - cbn [bind]. rewrite map_id_Z. reflexivity.
  - intros out j Hj Ho. body_red. rewrite arr_get_nat by lia. cbn [bind].
    rewrite arr_set_nat by lia. cbn [bind]. rewrite Hnth by exact Hj. reflexivity.
Qed.

Lemma loops_cast_up w n m a d : length a = n -> (n < m)%nat ->
  forall fuel, (n <= fuel)%nat ->
  Loops.cast_up w (Z.of_nat n) fuel (Z.of_nat m) a d =
  match Cast.cast_up a m d with Ret r => Done r | Panic => Panicked end.
Proof.
  intros Ha Hm fuel Hf. subst n. rewrite Cast.cast_up_ok by lia. unfold Loops.cast_up. rewrite Nat2Z.id.
  rewrite usub_nat by lia. cbn [bind].
  rewrite (loop_writes0 (fun out (_ : unit) j => (out, Z.of_nat (m - length a + j))) (fun j => (0 + j)%nat)
             (fun j c => (nth j a 0, tt)) _ _ (length a) m fuel (repeat d m) tt);
    try first [assumption | apply repeat_length | (rewrite Nat.add_0_r; reflexivity)].
  - rewrite run_writes_up by (rewrite repeat_length; lia). cbn [fst snd Nat.add firstn app bind].
    rewrite (scan_idx_scan1 (fun x (_ : unit) => (x, tt)) a) by (intros; reflexivity).
    rewrite scan1_map. cbn [fst]. rewrite map_id_Z, skipn_repeat. reflexivity.
  - intros out c j Hj. rewrite ltb_of_nat. apply Nat.ltb_lt. lia.
  - intros out c. rewrite ltb_of_nat. apply Nat.ltb_ge. lia.
  - intros out c j Hj Ho. body_red. rewrite usub_nat by lia. cbn [bind].
    replace (m - length a + j - (m - length a))%nat with j by lia. rewrite arr_get_nat by lia. cbn [bind].
    rewrite arr_set_nat by lia. cbn [bind fst snd Nat.add]. do 3 f_equal. lia.
Qed.

(* ---- all obligations of the group in one statement ---- *)
Theorem loops_C09_match_model w :
  (forall n m a d fuel, length a = n -> (n < m)%nat -> (n <= fuel)%nat ->
     Loops.cast_up w (Z.of_nat n) fuel (Z.of_nat m) a d =
     match Cast.cast_up a m d with Ret r => Done r | Panic => Panicked end) /\
  (forall n m a fuel, length a = n -> (m <= n)%nat -> (m <= fuel)%nat ->
     Loops.cast_down w (Z.of_nat n) fuel (Z.of_nat m) a =
     match Cast.cast_down a m with Ret r => Done r | Panic => Panicked end).
Proof.
  split; intros.
  - apply loops_cast_up; assumption.
  - apply loops_cast_down; assumption.
Qed.

(* Proofs/LoopsTieC09.v — casts between bnum integers of the same digit type: src/buint/cast.rs cast_up<M>, cast_down<M>
   (the loops behind `CastFrom<$BUint<M>> for $BUint<N>` and its signed variants).  Part of the tie between the loop
   functions GENERATED from /repo/src on every run (Generated/Loops.v, by tools/rs2v_loops.py) and the hand-written
   model (Model/Cast.v, an `outcome`): under the call-site conditions (cast_up: the target is longer, cast_down: not
   longer) and with fuel >= the number of iterations the generated function returns what the model returns. *)
From Bnum Require Import Base Prim.
From Bnum.Model Require Import DigitPrims LoopPrims Core Imp.
From Bnum.Model Require Cast.
From Bnum.Generated Require Import DigitGen Loops.
From Bnum.Proofs Require Import ImpLemmas ImpLemmas2.
From Bnum.Proofs Require Cast.

Lemma map_id_Z (l : list Z) : map (fun x => x) l = l.
Proof. induction l as [|x l IH]; [reflexivity|]. cbn [map]. rewrite IH. reflexivity. Qed.

Lemma loops_cast_down w n m a : length a = n -> (m <= n)%nat ->
  forall fuel, (m <= fuel)%nat ->
  Loops.cast_down w (Z.of_nat n) fuel (Z.of_nat m) a =
  match Cast.cast_down a m with Ret r => Done r | Panic => Panicked end.
Proof.
  intros Ha Hm fuel Hf. rewrite Cast.cast_down_ok by lia. unfold Loops.cast_down. rewrite Nat2Z.id.
  assert (Hnth : forall j, (j < m)%nat -> nth j (firstn m a) 0 = nth j a 0) by (intros; apply nth_firstn_lt; assumption).
  assert (Hl : length (firstn m a) = m) by (rewrite firstn_length; lia).
  set (l := firstn m a) in *. clearbody l. subst m.
  rewrite (loop_map1_all_c (fun x => x) l); try first [assumption | apply repeat_length | reflexivity | (intros; zbool_lia)].
  - cbn [bind]. rewrite map_id_Z. reflexivity.
  - intros out j Hj Ho. body_red. rewrite arr_get_nat by lia. cbn [bind].
    rewrite arr_set_nat by lia. cbn [bind]. rewrite Hnth by exact Hj. reflexivity.
Qed.

Lemma loops_cast_up w n m a d : length a = n -> (n < m)%nat ->
  forall fuel, (n <= fuel)%nat ->
  Loops.cast_up w (Z.of_nat n) fuel (Z.of_nat m) a d =
  match Cast.cast_up a m d with Ret r => Done r | Panic => Panicked end.
Proof.
  intros Ha Hm fuel Hf. subst n. rewrite Cast.cast_up_ok by lia. unfold Loops.cast_up. rewrite Nat2Z.id.
  rewrite usub_nat by lia. cbn [bind].
  rewrite (loop_writes0 (fun out (_ : unit) j => (out, Z.of_nat (m - length a + j))) (fun j => (0 + j)%nat)
             (fun j c => (nth j a 0, tt)) _ _ (length a) m fuel (repeat d m) tt);
    try first [assumption | apply repeat_length | (rewrite Nat.add_0_r; reflexivity)].
  - rewrite run_writes_up by (rewrite repeat_length; lia). cbn [fst snd Nat.add firstn app bind].
    rewrite (scan_idx_scan1 (fun x (_ : unit) => (x, tt)) a) by (intros; reflexivity).
    rewrite scan1_map. cbn [fst]. rewrite map_id_Z, skipn_repeat. reflexivity.
  - intros out c j Hj. rewrite ltb_of_nat. apply Nat.ltb_lt. lia.
  - intros out c. rewrite ltb_of_nat. apply Nat.ltb_ge. lia.
  - intros out c j Hj Ho. body_red. rewrite usub_nat by lia. cbn [bind].
    replace (m - length a + j - (m - length a))%nat with j by lia. rewrite arr_get_nat by lia. cbn [bind].
    rewrite arr_set_nat by lia. cbn [bind fst snd Nat.add]. do 3 f_equal. lia.
Qed.

(* ---- as_buint!: `impl CastFrom<$ty> for $BUint<N>`, $ty any of the twelve primitive integer types (pb = <$ty>::BITS; the
   source is handled as its VALUE: `from < 0`, `from != 0`, `from as $Digit` = value mod 2^w, `wrapping_shr` = floor division) ---- *)
Lemma as_buint_body_eq pb w i out from :
  Cast.as_buint_body pb w i (out, from) =
  obind (Cast.wr out i (u_and (ud w from) (u_max w))) (fun out' =>
  Ret (out', if pb <=? w then 0 else Cast.p_wrapping_shr pb from w)).
Proof. reflexivity. Qed.

Lemma as_buint_loop w n pb :
  forall f fuel i out from, (n <= i + f)%nat -> (f <= fuel)%nat ->
  bind (while_loop (R := list Z) fuel
          (fun '(out, from, i) => (andb (negb (from =? 0)) (i <? Z.of_nat n)))
          (fun '(out, from, i) =>
             let masked := (dg_and w (ud w from) (u_max w)) in
             out <- arr_set out i masked ;;
             if (pb <=? w) then (
               let from := 0 in
               let i := (i + 1) in
               Done (Continue (out, from, i))
             ) else (
               let from := (p_wrapping_shr pb from w) in
               let i := (i + 1) in
               Done (Continue (out, from, i))
             ))
          (out, from, Z.of_nat i))
       (fun t1' => match t1' with Exited (out, from, i) => Done out | Returned t2' => Done t2' end)
  = match omap fst (Cast.while_ f (fun i st => negb (snd st =? 0) && (i <? n)%nat) (Cast.as_buint_body pb w) i (out, from))
    with Ret r => Done r | Panic => Panicked end.
Proof.
  destruct (pb <=? w) eqn:E;
  (induction f as [|f IH]; intros fuel i out from Hend Hf;
   [ cbn [Cast.while_ omap fst]; rewrite while_loop_cond_false; [reflexivity|];
     rewrite ltb_of_nat; destruct (Nat.ltb_spec i n); [lia|]; apply andb_false_r
   | cbn [Cast.while_ snd]; rewrite <- ltb_of_nat;
     destruct (negb (from =? 0) && (Z.of_nat i <? Z.of_nat n)) eqn:Hc;
     [ destruct fuel as [|fuel]; [lia|]; rewrite while_loop_S; cbv beta iota; rewrite Hc;
       rewrite as_buint_body_eq, E; cbv zeta;
       change (dg_and w (ud w from) (u_max w)) with (u_and (ud w from) (u_max w));
       rewrite <- wr_as_arr_set; destruct (Cast.wr out i _) as [out'|]; [|reflexivity]; cbn [bind obind];
       replace (Z.of_nat i + 1) with (Z.of_nat (S i)) by lia;
       exact (IH fuel (S i) out' _ ltac:(lia) ltac:(lia))
     | cbn [omap fst]; rewrite while_loop_cond_false; [reflexivity|]; exact Hc ] ]).
Qed.

Lemma loops_as_buint w n pb from :
  forall fuel, (n <= fuel)%nat ->
  Loops.as_buint w (Z.of_nat n) fuel pb from =
  match Cast.U_from_int pb w n from with Ret r => Done r | Panic => Panicked end.
Proof.
  intros fuel Hf. unfold Loops.as_buint, Cast.U_from_int. rewrite Nat2Z.id.
  apply (as_buint_loop w n pb n fuel 0%nat); lia.
Qed.

(* ---- all obligations of the group in one statement ---- *)
Theorem loops_C09_match_model w :
  (forall n m a d fuel, length a = n -> (n < m)%nat -> (n <= fuel)%nat ->
     Loops.cast_up w (Z.of_nat n) fuel (Z.of_nat m) a d =
     match Cast.cast_up a m d with Ret r => Done r | Panic => Panicked end) /\
  (forall n m a fuel, length a = n -> (m <= n)%nat -> (m <= fuel)%nat ->
     Loops.cast_down w (Z.of_nat n) fuel (Z.of_nat m) a =
     match Cast.cast_down a m with Ret r => Done r | Panic => Panicked end) /\
  (forall n pb from fuel, (n <= fuel)%nat ->
     Loops.as_buint w (Z.of_nat n) fuel pb from =
     match Cast.U_from_int pb w n from with Ret r => Done r | Panic => Panicked end).
Proof.
  split; [|split]; intros.
  - apply loops_cast_up; assumption.
  - apply loops_cast_down; assumption.
  - apply loops_as_buint; assumption.
Qed.

(* Proofs/ParseSlice.v — radix 256 in from_radix_be/le: the minimal local model of
   BUint::from_le_slice / from_be_slice in Model/Parse.v (the faithful model of
   src/buint/endian.rs belongs to property C15) decodes the base-256 value. *)
From Bnum Require Import Base Prim.
From Bnum.Model Require Import Digit Core Shift AddSub Bits Parse.
From Bnum.Proofs Require Import ParseSpec ParseLoops ParseArith ParsePow2.

Lemma B8 : B 8 = 256.
Proof. reflexivity. Qed.

Lemma bytes_wf8 bs : bytes bs -> wf 8 (length bs) bs.
Proof.
  intros H. split; [reflexivity|]. eapply Forall_impl; [|exact H]. cbv beta. intros b Hb.
  unfold digit_ok. rewrite B8. exact Hb.
Qed.

Lemma uval_nonneg w ds : 0 <= w -> Forall (fun d => 0 <= d) ds -> 0 <= uval w ds.
Proof.
  intros Hw H. induction H as [|d ds Hd _ IH]; cbn [uval]; [lia|]. pose proof (B_pos w Hw). nia.
Qed.

Lemma is_zero_uval w ds : 0 <= w -> Forall (fun d => 0 <= d) ds -> (is_zero ds = true <-> uval w ds = 0).
Proof.
  intros Hw H. induction H as [|d ds Hd Hds IH]; cbn [is_zero uval]; [tauto|].
  pose proof (B_pos w Hw). pose proof (uval_nonneg w ds Hw Hds).
  destruct (Z.eqb_spec d 0) as [->|Hne].
  - rewrite IH. split; intros; nia.
  - split; [discriminate | intros; nia].
Qed.

Lemma firstn_repeat0 n m : (n <= m)%nat -> firstn n (repeat 0 m) = repeat 0 n.
Proof.
  revert m. induction n as [|n IH]; intros m H; [reflexivity|].
  destruct m as [|m]; [lia|]. cbn [repeat firstn]. rewrite IH by lia. reflexivity.
Qed.

Lemma pad_firstn : forall ds n m, (n <= length ds + m)%nat ->
  firstn n (ds ++ repeat 0 m) = firstn n ds ++ repeat 0 (n - length ds).
Proof.
  induction ds as [|d t IH]; intros n m H.
  - cbn [app length] in *. rewrite firstn_nil, Nat.sub_0_r. apply firstn_repeat0. lia.
  - destruct n as [|n]; [reflexivity|]. cbn [app firstn length]. rewrite IH by (cbn [length] in H; lia).
    reflexivity.
Qed.

Lemma slice_digits_spec (k : nat) : (0 < k)%nat ->
  forall fuel bs, (length bs <= fuel)%nat -> bytes bs ->
  Forall (digit_ok (8 * Z.of_nat k)) (slice_digits fuel k bs) /\
  uval (8 * Z.of_nat k) (slice_digits fuel k bs) = uval 8 bs.
Proof.
  intros Hk. set (w := 8 * Z.of_nat k).
  induction fuel as [|f IH]; intros bs Hf Hb.
  - destruct bs; [|cbn [length] in Hf; lia]. cbn [slice_digits uval]. split; [constructor | reflexivity].
  - destruct bs as [|b t]; [cbn [slice_digits uval]; split; [constructor | reflexivity]|].
    set (bs := b :: t) in *. unfold slice_digits; fold slice_digits.
    replace (match bs with [] => [] | _ :: _ => _ end) with
      (uval 8 (firstn k bs) :: slice_digits f k (skipn k bs)) by reflexivity.
    assert (Hb1 : bytes (firstn k bs)) by (apply Forall_firstn; exact Hb).
    assert (Hb2 : bytes (skipn k bs)) by (apply Forall_skipn; exact Hb).
    assert (Hl2 : (length (skipn k bs) <= f)%nat) by (rewrite skipn_length; unfold bs in *; cbn [length] in *; lia).
    destruct (IH (skipn k bs) Hl2 Hb2) as (IH1 & IH2).
    pose proof (uval_bounds 8 _ _ ltac:(lia) (bytes_wf8 _ Hb1)) as Hd.
    assert (Hlk : (length (firstn k bs) <= k)%nat) by (rewrite firstn_length; lia).
    assert (HMk : Mod 8 (length (firstn k bs)) <= B w).
    { unfold Mod, B, w. apply Z.pow_le_mono_r; lia. }
    split.
    + constructor; [unfold digit_ok; lia | exact IH1].
    + cbn [uval]. rewrite IH2. rewrite <- (firstn_skipn k bs) at 3. rewrite uval_app by lia.
      destruct (Nat.le_gt_cases k (length bs)) as [Hle|Hgt].
      * replace (length (firstn k bs)) with k by (rewrite firstn_length; lia).
        replace (Mod 8 k) with (B w) by (unfold Mod, B, w; reflexivity). reflexivity.
      * rewrite (skipn_all2 bs) by lia. cbn [uval]. lia.
Qed.

Theorem from_le_slice_spec w n bs : 0 < w -> w mod 8 = 0 -> bytes bs ->
  from_le_slice w n bs = if uval 8 bs <? Mod w n then Some (digits_of w n (uval 8 bs)) else None.
Proof.
  intros Hw H8 Hb.
  assert (E : w = 8 * (w / 8)) by (apply Z_div_exact_full_2; lia).
  set (k := Z.to_nat (w / 8)).
  assert (Hk : (0 < k)%nat) by (unfold k; lia).
  assert (Ew : w = 8 * Z.of_nat k) by (unfold k; lia).
  unfold from_le_slice. fold k.
  destruct (slice_digits_spec k Hk (length bs) bs ltac:(lia) Hb) as (Hd & Hu). rewrite <- Ew in Hd, Hu.
  set (ds := slice_digits (length bs) k bs) in *.
  set (A := firstn n ds). set (S := skipn n ds).
  assert (HdA : Forall (digit_ok w) A) by (apply Forall_firstn; exact Hd).
  assert (HdS : Forall (digit_ok w) S) by (apply Forall_skipn; exact Hd).
  assert (HwA : wf w (length A) A) by (split; [reflexivity | exact HdA]).
  pose proof (uval_bounds w _ _ ltac:(lia) HwA) as HbA.
  assert (HlA : (length A <= n)%nat) by (unfold A; rewrite firstn_length; lia).
  assert (HMA : Mod w (length A) <= Mod w n) by (unfold Mod; apply Z.pow_le_mono_r; nia).
  assert (Hsplit : uval w ds = uval w A + Mod w (length A) * uval w S).
  { rewrite <- (firstn_skipn n ds) at 1. apply uval_app. lia. }
  assert (HnnS : Forall (fun d => 0 <= d) S).
  { eapply Forall_impl; [|exact HdS]. cbv beta. unfold digit_ok. intros; lia. }
  pose proof (is_zero_uval w S ltac:(lia) HnnS) as Hz.
  pose proof (uval_nonneg w S ltac:(lia) HnnS) as HS0.
  pose proof (Mod_pos w (length A) ltac:(lia)) as HMpos.
  destruct (is_zero S) eqn:Ez.
  - assert (HS : uval w S = 0) by (apply Hz; reflexivity).
    rewrite <- Hu, Hsplit, HS, Z.mul_0_r, Z.add_0_r.
    destruct (Z.ltb_spec (uval w A) (Mod w n)); [|lia].
    f_equal. symmetry. apply digits_of_unique; [lia| |].
    + unfold ZERO. rewrite pad_firstn by lia. fold A.
      replace n with (length A + (n - length ds))%nat at 1 by (unfold A; rewrite firstn_length; lia).
      apply wf_app; [exact HwA | apply wf_repeat0; lia].
    + unfold ZERO. rewrite pad_firstn by lia. fold A. rewrite uval_app by lia. rewrite uval_repeat0. lia.
  - assert (HS : uval w S <> 0) by (intros E0; apply Hz in E0; congruence).
    assert (HlS : S <> []) by (intros E0; rewrite E0 in HS; apply HS; reflexivity).
    assert (HlA' : length A = n).
    { unfold A. rewrite firstn_length. destruct (Nat.le_gt_cases n (length ds)); [lia|].
      exfalso. apply HlS. unfold S. apply skipn_all2. lia. }
    rewrite <- Hu, Hsplit, HlA'.
    pose proof (Mod_pos w n ltac:(lia)).
    destruct (Z.ltb_spec (uval w A + Mod w n * uval w S) (Mod w n)); [nia | reflexivity].
Qed.

Lemma horner256 bs : uval 8 (rev bs) = horner 256 bs.
Proof. rewrite uval_rev_horner by lia. reflexivity. Qed.

Lemma bytes_below_256 bs : bytes bs -> digits_below 256 bs = true.
Proof.
  intros H. apply forallb_forall. intros b Hb. unfold bytes in H. rewrite Forall_forall in H.
  apply Z.ltb_lt. apply H. exact Hb.
Qed.

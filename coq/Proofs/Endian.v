(* Proofs/Endian.v — Model/Endian.v = specification, for ALL digit widths w that are a positive
   multiple of 8, ALL digit counts n (signed: n >= 1), ALL byte lists. *)
From Bnum Require Import Base Prim.
From Bnum.Model Require Import Core Shift Bits Endian.

(* ================================================================== *)
(* specification vocabulary                                            *)
(* ================================================================== *)

Definition byte_ok (b : Z) : Prop := 0 <= b < 256.
Definition bytes_ok (bs : list Z) : Prop := Forall byte_ok bs.

(* Horner, base 256, most significant byte first *)
Definition be_value (bs : list Z) : Z := fold_left (fun acc b => acc * 256 + b) bs 0.
(* the same number written least significant byte first *)
Definition le_value (bs : list Z) : Z := be_value (rev bs).

Definition P256 (k : nat) : Z := 256 ^ Z.of_nat k.

(* two's complement reading of a byte string, sign taken from the most significant byte *)
Definition be_signed_value (bs : list Z) : Z :=
  match bs with
  | [] => 0
  | b :: _ => if 128 <=? b then be_value bs - P256 (length bs) else be_value bs
  end.
Definition le_signed_value (bs : list Z) : Z := be_signed_value (rev bs).

(* the digit width is a positive multiple of 8 *)
Definition width_ok (w : Z) : Prop := 0 < w /\ w mod 8 = 0.

(* ================================================================== *)
(* powers of 256                                                       *)
(* ================================================================== *)

Lemma P256_0 : P256 0 = 1.
Proof. reflexivity. Qed.

Lemma P256_S k : P256 (S k) = 256 * P256 k.
Proof. unfold P256. rewrite Nat2Z.inj_succ, Z.pow_succ_r by lia. reflexivity. Qed.

Lemma P256_pos k : 0 < P256 k.
Proof. unfold P256. apply Z.pow_pos_nonneg; lia. Qed.

Lemma P256_add a b : P256 (a + b) = P256 a * P256 b.
Proof. unfold P256. rewrite Nat2Z.inj_add, Z.pow_add_r by lia. reflexivity. Qed.

Lemma P256_le a b : (a <= b)%nat -> P256 a <= P256 b.
Proof. intros. unfold P256. apply Z.pow_le_mono_r; lia. Qed.

Lemma P256_even k : P256 (S k) = 2 * (128 * P256 k).
Proof. rewrite P256_S. lia. Qed.

Lemma width_db w : width_ok w -> w = 8 * Z.of_nat (dbytes w) /\ (0 < dbytes w)%nat.
Proof.
  intros [Hw Hm]. unfold dbytes.
  assert (w = 8 * (w / 8)) by (pose proof (Z.div_mod w 8 ltac:(lia)); lia).
  assert (0 < w / 8) by lia.
  rewrite Z2Nat.id by lia. split; [assumption | lia].
Qed.

Lemma B_P256 w : width_ok w -> B w = P256 (dbytes w).
Proof.
  intros H. destruct (width_db w H) as [E _]. unfold B, P256. rewrite E at 1.
  rewrite Z.pow_mul_r by lia. reflexivity.
Qed.

Lemma Mod_P256 w k : width_ok w -> Mod w k = P256 (k * dbytes w).
Proof.
  intros H. destruct (width_db w H) as [E _]. unfold Mod, P256. rewrite E at 1.
  rewrite Nat2Z.inj_mul. replace (8 * Z.of_nat (dbytes w) * Z.of_nat k) with (8 * (Z.of_nat k * Z.of_nat (dbytes w))) by lia.
  rewrite Z.pow_mul_r by lia. reflexivity.
Qed.

(* ================================================================== *)
(* values of byte strings                                              *)
(* ================================================================== *)

Lemma fold_be_shift bs : forall a,
  fold_left (fun acc b => acc * 256 + b) bs a = a * P256 (length bs) + be_value bs.
Proof.
  unfold be_value. induction bs as [|b r IH]; intros a; cbn [fold_left length].
  - rewrite P256_0. lia.
  - rewrite IH, (IH (0 * 256 + b)), P256_S. lia.
Qed.

Lemma be_value_app a b : be_value (a ++ b) = be_value a * P256 (length b) + be_value b.
Proof. unfold be_value at 1. rewrite fold_left_app, fold_be_shift. reflexivity. Qed.

Lemma be_value_cons b r : be_value (b :: r) = b * P256 (length r) + be_value r.
Proof. change (b :: r) with ([b] ++ r). rewrite be_value_app. unfold be_value at 1. cbn [fold_left]. lia. Qed.

Lemma le_value_nil : le_value [] = 0.
Proof. reflexivity. Qed.

Lemma le_value_cons b r : le_value (b :: r) = b + 256 * le_value r.
Proof.
  unfold le_value. cbn [rev]. rewrite be_value_app. cbn [length]. rewrite P256_S, P256_0.
  unfold be_value at 2. cbn [fold_left]. lia.
Qed.

Lemma be_value_rev bs : be_value bs = le_value (rev bs).
Proof. unfold le_value. rewrite rev_involutive. reflexivity. Qed.

Lemma u_from_le_bytes_value bs : u_from_le_bytes bs = le_value bs.
Proof. induction bs as [|b r IH]; [reflexivity|]. cbn [u_from_le_bytes]. rewrite IH, le_value_cons. reflexivity. Qed.

Lemma u_from_be_bytes_value bs : u_from_be_bytes bs = be_value bs.
Proof. reflexivity. Qed.

Lemma le_value_app a b : le_value (a ++ b) = le_value a + P256 (length a) * le_value b.
Proof.
  induction a as [|x a IH]; cbn [app length].
  - rewrite le_value_nil, P256_0. lia.
  - rewrite !le_value_cons, IH, P256_S. lia.
Qed.

Lemma le_value_bounds bs : bytes_ok bs -> 0 <= le_value bs < P256 (length bs).
Proof.
  induction 1 as [|b r Hb Hr IH]; cbn [length].
  - rewrite le_value_nil, P256_0. lia.
  - rewrite le_value_cons, P256_S. unfold byte_ok in Hb. lia.
Qed.

Lemma le_value_repeat0 k : le_value (repeat 0 k) = 0.
Proof. induction k as [|k IH]; [reflexivity|]. cbn [repeat]. rewrite le_value_cons, IH. lia. Qed.

Lemma le_value_repeat255 k : le_value (repeat 255 k) = P256 k - 1.
Proof.
  induction k as [|k IH]; [reflexivity|]. cbn [repeat]. rewrite le_value_cons, IH, P256_S. lia.
Qed.

Lemma bytes_ok_app a b : bytes_ok (a ++ b) <-> bytes_ok a /\ bytes_ok b.
Proof. apply Forall_app. Qed.

Lemma bytes_ok_rev bs : bytes_ok bs -> bytes_ok (rev bs).
Proof. apply Forall_rev. Qed.

Lemma bytes_ok_firstn k bs : bytes_ok bs -> bytes_ok (firstn k bs).
Proof.
  intros H. rewrite <- (firstn_skipn k bs) in H. apply bytes_ok_app in H. tauto.
Qed.

Lemma bytes_ok_skipn k bs : bytes_ok bs -> bytes_ok (skipn k bs).
Proof.
  intros H. rewrite <- (firstn_skipn k bs) in H. apply bytes_ok_app in H. tauto.
Qed.

Lemma bytes_ok_repeat b k : byte_ok b -> bytes_ok (repeat b k).
Proof. intros H. induction k; constructor; auto. Qed.

Lemma bytes_okb_ok bs : bytes_okb bs = true <-> bytes_ok bs.
Proof.
  unfold bytes_okb, bytes_ok. rewrite forallb_forall, Forall_forall. unfold byte_okb, byte_ok.
  split; intros H x Hx; specialize (H x Hx).
  - apply andb_true_iff in H. lia.
  - apply andb_true_iff. lia.
Qed.

(* ================================================================== *)
(* small list facts                                                    *)
(* ================================================================== *)

Lemma skipn_skipn {A} (a b : nat) (l : list A) : skipn a (skipn b l) = skipn (b + a) l.
Proof.
  revert l. induction b as [|b IH]; intros l; [reflexivity|].
  destruct l as [|x l]; [rewrite !skipn_nil; reflexivity|]. cbn [skipn Nat.add]. apply IH.
Qed.

Lemma skipn_repeat {A} (x : A) k m : skipn k (repeat x m) = repeat x (m - k).
Proof.
  revert m. induction k as [|k IH]; intros m.
  - rewrite Nat.sub_0_r. reflexivity.
  - destruct m as [|m]; [reflexivity|]. cbn [repeat skipn Nat.sub]. apply IH.
Qed.

Lemma firstn_repeat {A} (x : A) k m : firstn k (repeat x m) = repeat x (Nat.min k m).
Proof.
  revert m. induction k as [|k IH]; intros m; [reflexivity|].
  destruct m as [|m]; [reflexivity|]. cbn [repeat firstn Nat.min]. f_equal. apply IH.
Qed.

Lemma rev_repeat {A} (x : A) k : rev (repeat x k) = repeat x k.
Proof.
  induction k as [|k IH]; [reflexivity|]. cbn [repeat rev]. rewrite IH.
  clear IH. induction k as [|k IH]; [reflexivity|]. cbn [repeat app]. f_equal. exact IH.
Qed.

Lemma set_nth_app i f pre p post : length pre = i -> set_nth i f (pre ++ p :: post) = pre ++ f p :: post.
Proof.
  intros <-. unfold set_nth.
  rewrite firstn_app, firstn_all, Nat.sub_diag, firstn_O, app_nil_r.
  rewrite skipn_app, skipn_all, Nat.sub_diag. reflexivity.
Qed.

(* ================================================================== *)
(* the loop as a fold over the list of digits                          *)
(* ================================================================== *)

Fixpoint store_list (setd : nat -> Z -> list Z -> option (list Z)) (ds : list Z) (i : nat) (out : list Z)
  : option (list Z) :=
  match ds with
  | [] => Some out
  | d :: r => match setd i d out with None => None | Some o => store_list setd r (S i) o end
  end.

Lemma slice_loop_store setd f count : forall i out,
  slice_loop setd f count i out = store_list setd (map f (seq i count)) i out.
Proof.
  induction count as [|c IH]; intros i out; [reflexivity|].
  cbn [slice_loop seq map store_list]. destruct (setd i (f i) out); [apply IH | reflexivity].
Qed.

Lemma store_list_app setd a : forall b i out,
  store_list setd (a ++ b) i out =
  match store_list setd a i out with None => None | Some o => store_list setd b (i + length a) o end.
Proof.
  induction a as [|x a IH]; intros b i out; cbn [app store_list length].
  - rewrite Nat.add_0_r. reflexivity.
  - destruct (setd i x out); [|reflexivity]. rewrite IH. replace (S i + length a)%nat with (i + S (length a))%nat by lia. reflexivity.
Qed.

Lemma map_seq_ext (f g : nat -> Z) i count :
  (forall k, (i <= k < i + count)%nat -> f k = g k) -> map f (seq i count) = map g (seq i count).
Proof.
  intros H. apply map_ext_in. intros k Hk. apply in_seq in Hk. apply H. lia.
Qed.

(* ---------- unsigned store ---------- *)

Definition is0 (d : Z) : bool := d =? 0.

Lemma U_store_past n ds : forall i out, (n <= i)%nat ->
  store_list (U_set_digit n) ds i out = if forallb is0 ds then Some out else None.
Proof.
  induction ds as [|d r IH]; intros i out Hi; [reflexivity|].
  cbn [store_list forallb]. unfold U_set_digit, is0 at 1.
  destruct (Nat.ltb_spec i n) as [Hlt|Hge]; [lia|].
  destruct (d =? 0); cbn [negb andb]; [apply IH; lia | reflexivity].
Qed.

Lemma U_store n ds : forall pre post, (length pre + length post = n)%nat ->
  store_list (U_set_digit n) ds (length pre) (pre ++ post) =
  if forallb is0 (skipn (length post) ds)
  then Some (pre ++ firstn (length post) ds ++ skipn (length ds) post) else None.
Proof.
  induction ds as [|d r IH]; intros pre post Hn.
  - cbn [store_list]. rewrite skipn_nil, firstn_nil. cbn [forallb length skipn app]. reflexivity.
  - destruct post as [|p post'].
    + rewrite U_store_past by (cbn [length] in Hn; lia).
      cbn [length skipn firstn]. rewrite ?skipn_nil. reflexivity.
    + cbn [store_list]. unfold U_set_digit. cbn [length] in Hn.
      destruct (Nat.ltb_spec (length pre) n) as [Hlt|Hge]; [|lia].
      rewrite set_nth_app by reflexivity.
      replace (pre ++ d :: post') with ((pre ++ [d]) ++ post') by (rewrite <- app_assoc; reflexivity).
      replace (S (length pre)) with (length (pre ++ [d])) by (rewrite app_length; cbn [length]; lia).
      rewrite IH by (rewrite app_length; cbn [length]; lia).
      cbn [length skipn firstn]. rewrite <- !app_assoc. reflexivity.
Qed.

(* ================================================================== *)
(* digit lists: values                                                 *)
(* ================================================================== *)

Lemma wf_of_Forall w ds : Forall (digit_ok w) ds -> wf w (length ds) ds.
Proof. intros H; split; [reflexivity | exact H]. Qed.

Lemma uval_nonneg w ds : 0 <= w -> Forall (digit_ok w) ds -> 0 <= uval w ds.
Proof. intros Hw H. apply (uval_bounds w (length ds) ds Hw (wf_of_Forall _ _ H)). Qed.

Lemma uval_lt_Mod w ds : 0 <= w -> Forall (digit_ok w) ds -> uval w ds < Mod w (length ds).
Proof. intros Hw H. apply (uval_bounds w (length ds) ds Hw (wf_of_Forall _ _ H)). Qed.

Lemma Mod_le w a b : 0 <= w -> (a <= b)%nat -> Mod w a <= Mod w b.
Proof. intros. unfold Mod. apply Z.pow_le_mono_r; nia. Qed.

Lemma Mod_add w a b : 0 <= w -> Mod w (a + b) = Mod w a * Mod w b.
Proof. intros. unfold Mod. rewrite <- Z.pow_add_r by nia. f_equal. lia. Qed.

Lemma uval_repeat0 w k : uval w (repeat 0 k) = 0.
Proof. induction k as [|k IH]; [reflexivity|]. cbn [repeat uval]. rewrite IH. lia. Qed.

Lemma uval_is0 w ds : 0 <= w -> Forall (digit_ok w) ds -> (forallb is0 ds = true <-> uval w ds = 0).
Proof.
  intros Hw H. induction H as [|d r Hd Hr IH]; cbn [forallb uval]; [tauto|].
  pose proof (uval_nonneg w r Hw Hr). pose proof (B_pos w Hw). unfold digit_ok in Hd.
  rewrite andb_true_iff, IH. unfold is0. rewrite Z.eqb_eq. split; [intros [-> ->]; lia | nia].
Qed.

Lemma Forall_firstn {A} (P : A -> Prop) k l : Forall P l -> Forall P (firstn k l).
Proof. intros H. rewrite <- (firstn_skipn k l) in H. apply Forall_app in H. tauto. Qed.

Lemma Forall_skipn {A} (P : A -> Prop) k l : Forall P l -> Forall P (skipn k l).
Proof. intros H. rewrite <- (firstn_skipn k l) in H. apply Forall_app in H. tauto. Qed.

Lemma Forall_repeat {A} (P : A -> Prop) x k : P x -> Forall P (repeat x k).
Proof. intros H. induction k; constructor; auto. Qed.

(* acceptance test of the unsigned loops <-> the value fits; accepted result = digits of the value *)
Lemma U_accept_value w n ds : 0 < w -> Forall (digit_ok w) ds ->
  if forallb is0 (skipn n ds)
  then uval w ds < Mod w n /\ firstn n ds ++ repeat 0 (n - length ds) = digits_of w n (uval w ds)
  else Mod w n <= uval w ds.
Proof.
  intros Hw H. assert (Hw0 : 0 <= w) by lia.
  pose proof (Forall_firstn _ n _ H) as Hlo. pose proof (Forall_skipn _ n _ H) as Hhi.
  assert (E : uval w ds = uval w (firstn n ds) + Mod w (length (firstn n ds)) * uval w (skipn n ds)).
  { rewrite <- uval_app by lia. rewrite firstn_skipn. reflexivity. }
  pose proof (uval_nonneg w _ Hw0 Hlo) as Hlo0. pose proof (uval_lt_Mod w _ Hw0 Hlo) as Hlo1.
  pose proof (uval_nonneg w _ Hw0 Hhi) as Hhi0.
  pose proof (firstn_length n ds) as Hlen.
  destruct (forallb is0 (skipn n ds)) eqn:Ez.
  - apply (uval_is0 w _ Hw0 Hhi) in Ez. rewrite Ez, Z.mul_0_r, Z.add_0_r in E.
    assert (Hm : Mod w (length (firstn n ds)) <= Mod w n) by (apply Mod_le; lia).
    split; [lia|].
    apply (uval_inj w n); [lia | | apply digits_of_wf; lia |].
    + split; [rewrite app_length, repeat_length; lia|].
      apply Forall_app; split; [exact Hlo|]. apply Forall_repeat. unfold digit_ok. pose proof (B_pos w Hw0). lia.
    + rewrite uval_app, uval_repeat0, digits_of_uval by lia. rewrite Z.mod_small by lia. lia.
  - assert (Hne : uval w (skipn n ds) <> 0).
    { intros E0. apply (uval_is0 w _ Hw0 Hhi) in E0. congruence. }
    assert (Hl : (n < length ds)%nat).
    { destruct (Nat.ltb_spec n (length ds)); [assumption|]. rewrite skipn_all2 in Ez by lia. discriminate. }
    replace (length (firstn n ds)) with n in * by lia.
    pose proof (Mod_pos w n Hw0). nia.
Qed.

(* ================================================================== *)
(* cutting a little-endian byte string into digits                     *)
(* ================================================================== *)

Definition le_digit (db : nat) (bs : list Z) (i : nat) : Z := u_from_le_bytes (sub_bytes bs (i * db) db).

Lemma le_chunks w bs k : width_ok w -> (k * dbytes w <= length bs)%nat ->
  le_value bs = uval w (map (le_digit (dbytes w) bs) (seq 0 k))
                + Mod w k * le_value (skipn (k * dbytes w) bs).
Proof.
  intros Hw. destruct (width_db w Hw) as [_ Hdb]. assert (Hw0 : 0 <= w) by (destruct Hw; lia).
  induction k as [|k IH]; intros Hk.
  - cbn [seq map uval Nat.mul skipn]. rewrite Mod_0. lia.
  - rewrite IH by lia. rewrite seq_S, map_app, uval_app by lia. cbn [map uval Nat.add].
    rewrite map_length, seq_length.
    set (db := dbytes w) in *.
    assert (Hl : length (firstn db (skipn (k * db) bs)) = db).
    { rewrite firstn_length, skipn_length. lia. }
    assert (E1 : le_value (skipn (k * db) bs) =
                 le_digit db bs k + P256 db * le_value (skipn (S k * db) bs)).
    { rewrite <- (firstn_skipn db (skipn (k * db) bs)) at 1.
      rewrite le_value_app, skipn_skipn, Hl. unfold le_digit, sub_bytes. rewrite u_from_le_bytes_value.
      replace (S k * db)%nat with (k * db + db)%nat by lia. reflexivity. }
    assert (E2 : Mod w (S k) = Mod w k * P256 db).
    { rewrite !Mod_P256 by assumption. fold db. rewrite <- P256_add. f_equal. lia. }
    rewrite E1, E2. ring.
Qed.

Lemma le_digit_ok w bs i : width_ok w -> bytes_ok bs -> digit_ok w (le_digit (dbytes w) bs i).
Proof.
  intros Hw Hb. unfold digit_ok, le_digit, sub_bytes. rewrite u_from_le_bytes_value, B_P256 by assumption.
  pose proof (le_value_bounds _ (bytes_ok_firstn (dbytes w) _ (bytes_ok_skipn (i * dbytes w) _ Hb))) as Hv.
  pose proof (P256_le _ _ (firstn_le_length (dbytes w) (skipn (i * dbytes w) bs))). lia.
Qed.

(* all digits the loops see: the `exact` whole digits and, if len is not a multiple of the digit
   size, the partial last digit filled up with `pad` bytes *)
Definition le_digits (w : Z) (pad : Z) (bs : list Z) : list Z :=
  let db := dbytes w in
  let len := length bs in
  let exact := (len / db)%nat in
  map (le_digit db bs) (seq 0 exact) ++
  (if (len mod db =? 0)%nat then []
   else [u_from_le_bytes (skipn (exact * db) bs ++ repeat pad (db - (len - exact * db)))]).

(* number of pad bytes *)
Definition npad (w : Z) (len : nat) : nat :=
  let db := dbytes w in if (len mod db =? 0)%nat then 0%nat else (db - len mod db)%nat.

Lemma divmod_facts db len : (0 < db)%nat ->
  (len = len / db * db + len mod db /\ len mod db < db)%nat.
Proof.
  intros H. pose proof (Nat.div_mod len db ltac:(lia)). pose proof (Nat.mod_upper_bound len db ltac:(lia)). lia.
Qed.

Lemma le_digits_value w pad bs : width_ok w -> byte_ok pad -> bytes_ok bs ->
  uval w (le_digits w pad bs) = le_value (bs ++ repeat pad (npad w (length bs))) /\
  Forall (digit_ok w) (le_digits w pad bs) /\
  (length (le_digits w pad bs) * dbytes w = length bs + npad w (length bs))%nat.
Proof.
  intros Hw Hp Hb. destruct (width_db w Hw) as [_ Hdb]. assert (Hw0 : 0 <= w) by (destruct Hw; lia).
  unfold le_digits, npad. set (db := dbytes w) in *. set (len := length bs).
  destruct (divmod_facts db len Hdb) as [Hdm Hlt]. set (exact := (len / db)%nat) in *.
  pose proof (le_chunks w bs exact Hw ltac:(fold db; fold len; lia)) as Hc. fold db in Hc.
  assert (Hfull : Forall (digit_ok w) (map (le_digit db bs) (seq 0 exact))).
  { apply Forall_forall. intros x Hx. apply in_map_iff in Hx. destruct Hx as (i & <- & _). apply le_digit_ok; assumption. }
  destruct (Nat.eqb_spec (len mod db) 0) as [E0|En0].
  - rewrite !app_nil_r. rewrite Hc. rewrite skipn_all2 by (fold len; lia). rewrite le_value_nil.
    split; [lia|]. split; [exact Hfull|]. rewrite map_length, seq_length. lia.
  - assert (Hr : (len - exact * db = len mod db)%nat) by lia. rewrite Hr.
    assert (Hlt' : length (skipn (exact * db) bs) = (len mod db)%nat) by (rewrite skipn_length; fold len; lia).
    split; [|split].
    + rewrite uval_app by lia. cbn [uval]. rewrite map_length, seq_length.
      rewrite u_from_le_bytes_value, !le_value_app, Hlt'. fold len. rewrite Hc.
      assert (E : P256 len = Mod w exact * P256 (len mod db)).
      { rewrite Mod_P256 by assumption. fold db. rewrite <- P256_add. f_equal. lia. }
      rewrite E. ring.
    + apply Forall_app. split; [exact Hfull|]. constructor; [|constructor].
      unfold digit_ok. rewrite u_from_le_bytes_value, B_P256 by assumption. fold db.
      assert (Hok : bytes_ok (skipn (exact * db) bs ++ repeat pad (db - len mod db))).
      { apply bytes_ok_app. split; [apply bytes_ok_skipn; assumption | apply bytes_ok_repeat; assumption]. }
      pose proof (le_value_bounds _ Hok) as Hv. rewrite app_length, repeat_length, Hlt' in Hv.
      replace (len mod db + (db - len mod db))%nat with db in Hv by lia. exact Hv.
    + rewrite app_length, map_length, seq_length. cbn [length]. lia.
Qed.

(* ================================================================== *)
(* BUint::from_le_slice                                                *)
(* ================================================================== *)

Lemma U_from_le_slice_store w n bs :
  U_from_le_slice w n bs = store_list (U_set_digit n) (le_digits w 0 bs) 0 (ZERO n).
Proof.
  unfold U_from_le_slice, le_digits. rewrite slice_loop_store, store_list_app.
  rewrite map_length, seq_length. cbn [Nat.add].
  change (fun i : nat => u_from_le_bytes (sub_bytes bs (i * dbytes w) (dbytes w))) with (le_digit (dbytes w) bs).
  destruct (store_list (U_set_digit n) (map (le_digit (dbytes w) bs) (seq 0 (length bs / dbytes w))) 0 (ZERO n)); [|reflexivity].
  destruct (length bs mod dbytes w =? 0)%nat; [reflexivity|].
  cbn [store_list]. destruct (U_set_digit n _ _ l); reflexivity.
Qed.

Theorem U_from_le_slice_ok w n bs : width_ok w -> bytes_ok bs ->
  U_from_le_slice w n bs =
  if le_value bs <? Mod w n then Some (digits_of w n (le_value bs)) else None.
Proof.
  intros Hw Hb. assert (Hw0 : 0 < w) by (destruct Hw; lia).
  rewrite U_from_le_slice_store.
  destruct (le_digits_value w 0 bs Hw ltac:(unfold byte_ok; lia) Hb) as (Hv & Hok & _).
  rewrite le_value_app, le_value_repeat0, Z.mul_0_r, Z.add_0_r in Hv.
  pose proof (U_store n (le_digits w 0 bs) [] (ZERO n)) as Hs.
  unfold ZERO in *. rewrite repeat_length in Hs. cbn [length app] in Hs. rewrite Hs by reflexivity.
  rewrite skipn_repeat.
  pose proof (U_accept_value w n _ Hw0 Hok) as Ha. rewrite Hv in Ha.
  destruct (forallb is0 (skipn n (le_digits w 0 bs))).
  - destruct Ha as [Hlt Heq]. rewrite Heq. destruct (Z.ltb_spec (le_value bs) (Mod w n)); [reflexivity | lia].
  - destruct (Z.ltb_spec (le_value bs) (Mod w n)); [lia | reflexivity].
Qed.

(* ================================================================== *)
(* BInt: the set_digit! macro as an acceptance test                    *)
(* ================================================================== *)

Definition eqsign (sign d : Z) : bool := d =? sign.
Definition sign_eq (w : Z) (neg : bool) (d : Z) : bool := Bool.eqb (sd w d <? 0) neg.

(* k = number of digits still to be stored *)
Fixpoint I_accept (w : Z) (neg : bool) (sign : Z) (k : nat) (ds : list Z) : bool :=
  match ds with
  | [] => true
  | d :: r =>
      match k with
      | O => eqsign sign d && I_accept w neg sign 0 r
      | S O => sign_eq w neg d && I_accept w neg sign 0 r
      | S k' => I_accept w neg sign k' r
      end
  end.

Lemma I_accept_0 w neg sign ds : I_accept w neg sign 0 ds = forallb (eqsign sign) ds.
Proof. induction ds as [|d r IH]; [reflexivity|]. cbn [I_accept forallb]. rewrite IH. reflexivity. Qed.

Lemma I_accept_short w neg sign : forall k ds, (length ds < k)%nat -> I_accept w neg sign k ds = true.
Proof.
  induction k as [|k IH]; intros ds H; [lia|].
  destruct ds as [|d r]; [reflexivity|]. cbn [length] in H. cbn [I_accept].
  destruct k as [|k']; [lia|]. apply IH. lia.
Qed.

Lemma I_accept_split w neg sign : forall lo t hi,
  I_accept w neg sign (S (length lo)) (lo ++ t :: hi) = sign_eq w neg t && forallb (eqsign sign) hi.
Proof.
  induction lo as [|x lo IH]; intros t hi.
  - cbn [length app I_accept]. rewrite I_accept_0. reflexivity.
  - cbn [length app I_accept]. apply IH.
Qed.

Lemma I_store_past w n neg sign ds : (1 <= n)%nat -> forall i out, (n <= i)%nat ->
  store_list (I_set_digit w n neg sign) ds i out = if forallb (eqsign sign) ds then Some out else None.
Proof.
  intros Hn. induction ds as [|d r IH]; intros i out Hi; [reflexivity|].
  cbn [store_list forallb]. unfold I_set_digit, eqsign at 1.
  destruct (Nat.eqb_spec i (n - 1)) as [E|_]; [lia|].
  destruct (Nat.ltb_spec i n) as [Hlt|_]; [lia|].
  destruct (d =? sign); cbn [negb andb]; [apply IH; lia | reflexivity].
Qed.

Lemma I_store w n neg sign ds : (1 <= n)%nat -> forall pre post, (length pre + length post = n)%nat ->
  store_list (I_set_digit w n neg sign) ds (length pre) (pre ++ post) =
  if I_accept w neg sign (length post) ds
  then Some (pre ++ firstn (length post) ds ++ skipn (length ds) post) else None.
Proof.
  intros Hn1. induction ds as [|d r IH]; intros pre post Hn.
  - cbn [store_list I_accept]. rewrite firstn_nil. cbn [length skipn app]. reflexivity.
  - destruct post as [|p post'].
    + rewrite I_store_past by (cbn [length] in Hn; lia).
      cbn [length]. rewrite I_accept_0. cbn [skipn firstn]. rewrite ?skipn_nil. reflexivity.
    + cbn [store_list]. cbn [length] in Hn.
      assert (Hstep : forall post'', post' = post'' ->
                store_list (I_set_digit w n neg sign) r (S (length pre)) (pre ++ d :: post') =
                if I_accept w neg sign (length post') r
                then Some (pre ++ d :: firstn (length post') r ++ skipn (length r) post') else None).
      { intros _ _.
        replace (pre ++ d :: post') with ((pre ++ [d]) ++ post') by (rewrite <- app_assoc; reflexivity).
        replace (S (length pre)) with (length (pre ++ [d])) by (rewrite app_length; cbn [length]; lia).
        rewrite IH by (rewrite app_length; cbn [length]; lia). rewrite <- !app_assoc. reflexivity. }
      destruct post' as [|q post''].
      * cbn [length] in *.
        assert (Es : I_set_digit w n neg sign (length pre) d (pre ++ [p]) =
                     if sign_eq w neg d then Some (pre ++ [d]) else None).
        { unfold I_set_digit. destruct (Nat.eqb_spec (length pre) (n - 1)) as [_|E]; [|lia].
          fold (sign_eq w neg d). rewrite set_nth_app by reflexivity. reflexivity. }
        rewrite Es. cbn [I_accept]. destruct (sign_eq w neg d); cbn [andb]; [|reflexivity].
        rewrite (Hstep [] eq_refl). cbn [length firstn skipn]. reflexivity.
      * cbn [length] in *.
        assert (Es : I_set_digit w n neg sign (length pre) d (pre ++ p :: q :: post'') =
                     Some (pre ++ d :: q :: post'')).
        { unfold I_set_digit. destruct (Nat.eqb_spec (length pre) (n - 1)) as [E|_]; [lia|].
          destruct (Nat.ltb_spec (length pre) n) as [_|Hge]; [|lia].
          rewrite set_nth_app by reflexivity. reflexivity. }
        rewrite Es. rewrite (Hstep _ eq_refl). cbn [length I_accept firstn skipn]. reflexivity.
Qed.

(* ---------- value-level facts for the signed acceptance test ---------- *)

Lemma B_even w : 0 < w -> B w = 2 * (B w / 2) /\ 0 < B w / 2.
Proof.
  intros Hw. pose proof (Mod_even w 1 Hw ltac:(lia)) as H. unfold Mod in H. rewrite Z.mul_1_r in H.
  fold (B w) in H. pose proof (B_ge_2 w Hw). split; [exact H | lia].
Qed.

Lemma sd_neg w d : 0 < w -> digit_ok w d -> (sd w d <? 0) = (B w / 2 <=? d).
Proof.
  intros Hw Hd. destruct (B_even w Hw) as [He Hp]. unfold sd, to_signed, digit_ok in *.
  destruct (Z.ltb_spec d (B w / 2)); destruct (Z.leb_spec (B w / 2) d); lia.
Qed.

Lemma half_mul a b : (a * (2 * b)) / 2 = a * b.
Proof. replace (a * (2 * b)) with (a * b * 2) by ring. apply Z.div_mul. lia. Qed.

Lemma top_neg w lo t : 0 < w -> Forall (digit_ok w) (lo ++ [t]) ->
  (B w / 2 <=? t) = (Mod w (S (length lo)) / 2 <=? uval w (lo ++ [t])).
Proof.
  intros Hw H. apply Forall_app in H. destruct H as [Hlo Ht]. inversion Ht as [|? ? Ht' _]; subst. clear Ht.
  destruct (B_even w Hw) as [He Hp]. assert (Hw0 : 0 <= w) by lia.
  pose proof (uval_nonneg w lo Hw0 Hlo). pose proof (uval_lt_Mod w lo Hw0 Hlo).
  pose proof (Mod_pos w (length lo) Hw0).
  rewrite uval_app by lia. cbn [uval]. rewrite Mod_S by lia.
  rewrite He at 2. rewrite (Z.mul_comm (2 * (B w / 2))), half_mul.
  unfold digit_ok in Ht'.
  destruct (Z.leb_spec (B w / 2) t); destruct (Z.leb_spec (Mod w (length lo) * (B w / 2)) (uval w lo + Mod w (length lo) * (t + B w * 0))); try reflexivity; nia.
Qed.

Lemma uval_repeat_max w k : 0 <= w -> uval w (repeat (u_max w) k) = Mod w k - 1.
Proof.
  intros Hw. induction k as [|k IH]; [rewrite Mod_0; reflexivity|].
  cbn [repeat uval]. rewrite IH, Mod_S by lia. unfold u_max. ring.
Qed.

Lemma all_max w hi : 0 <= w -> Forall (digit_ok w) hi ->
  (forallb (eqsign (u_max w)) hi = true <-> uval w hi = Mod w (length hi) - 1).
Proof.
  intros Hw H. induction H as [|d r Hd Hr IH]; cbn [forallb uval length].
  - rewrite Mod_0. split; [reflexivity | reflexivity].
  - pose proof (uval_nonneg w r Hw Hr). pose proof (uval_lt_Mod w r Hw Hr). pose proof (B_pos w Hw).
    pose proof (Mod_pos w (length r) Hw).
    rewrite andb_true_iff, IH, Mod_S by lia. unfold eqsign, u_max, digit_ok in *. rewrite Z.eqb_eq.
    split; [intros [-> ->]; ring | nia].
Qed.

Lemma signed_range_arith M M2 Mh Mh2 a b :
  0 < M2 -> M = 2 * M2 -> 0 < Mh2 -> Mh = 2 * Mh2 -> 0 <= a < M -> 0 <= b < Mh ->
  forall neg : bool, (neg = true <-> M * Mh2 <= a + M * b) ->
  ((((M2 <= a) <-> neg = true) /\ b = (if neg then Mh - 1 else 0))
   <-> - M2 <= a + M * b - (if neg then M * Mh else 0) < M2).
Proof.
  intros HM2 HM HMh2 HMh Ha Hb neg Hneg. destruct neg.
  - assert (Hn : M * Mh2 <= a + M * b) by (apply Hneg; reflexivity). clear Hneg.
    assert (Mh2 <= b) by nia.
    split.
    + intros [H1 H2]. assert (M2 <= a) by (apply H1; reflexivity). subst b. nia.
    + intros Hr. assert (b = Mh - 1) by nia. split; [|assumption]. subst b. split; [reflexivity | nia].
  - assert (Hn : ~ M * Mh2 <= a + M * b) by (intros H; apply Hneg in H; discriminate). clear Hneg.
    assert (b < Mh2) by nia.
    split.
    + intros [H1 H2]. assert (~ M2 <= a) by (intros H'; apply H1 in H'; discriminate). subst b. lia.
    + intros Hr. assert (b = 0) by nia. split; [|assumption]. subst b. split; [lia | discriminate].
Qed.

Lemma mod_shift V M k a : 0 < M -> 0 <= a < M -> V = a + k * M -> V mod M = a.
Proof. intros HM Ha ->. rewrite Z_mod_plus_full. apply Z.mod_small. exact Ha. Qed.

Lemma sign_digit_ok w (neg : bool) : 0 <= w -> digit_ok w (if neg then u_max w else 0).
Proof. intros Hw. pose proof (B_pos w Hw). unfold digit_ok, u_max. destruct neg; lia. Qed.

Lemma inS_false M x : inS M x = false <-> ~ (- (M / 2) <= x < M / 2).
Proof. rewrite <- inS_true. destruct (inS M x); split; congruence. Qed.

(* acceptance test of the signed loops <-> the two's complement value fits; result = its encoding *)
Lemma I_accept_value w n ds (neg : bool) : 0 < w -> (1 <= n)%nat -> Forall (digit_ok w) ds -> ds <> [] ->
  neg = (Mod w (length ds) / 2 <=? uval w ds) ->
  let sign := if neg then u_max w else 0 in
  let V := uval w ds - (if neg then Mod w (length ds) else 0) in
  if I_accept w neg sign n ds
  then inS (Mod w n) V = true /\
       firstn n ds ++ repeat sign (n - length ds) = digits_of w n (V mod Mod w n)
  else inS (Mod w n) V = false.
Proof.
  intros Hw Hn Hds Hne Hneg sign V. assert (Hw0 : 0 <= w) by lia.
  assert (HL : (1 <= length ds)%nat) by (destruct ds; [congruence | cbn [length]; lia]).
  pose proof (uval_nonneg w ds Hw0 Hds) as Hu0. pose proof (uval_lt_Mod w ds Hw0 Hds) as Hu1.
  pose proof (Mod_pos w n Hw0) as HMpos. pose proof (Mod_even w n Hw Hn) as HMev.
  destruct (Nat.ltb_spec (length ds) n) as [Hshort|Hlong].
  - (* the slice is shorter than the type: sign extension *)
    rewrite I_accept_short by assumption. rewrite firstn_all2 by lia.
    pose proof (Mod_even w (length ds) Hw HL) as HLev.
    pose proof (Mod_even w (n - length ds) Hw ltac:(lia)) as HKev.
    pose proof (Mod_pos w (n - length ds) Hw0) as HKpos.
    assert (HM : Mod w n = Mod w (length ds) * Mod w (n - length ds)).
    { rewrite <- Mod_add by lia. f_equal. lia. }
    set (ML := Mod w (length ds)) in *. set (K := Mod w (n - length ds)) in *. set (M := Mod w n) in *.
    assert (HM2 : M / 2 = ML / 2 * K).
    { rewrite HM, HLev. replace (2 * (ML / 2) * K) with (K * (2 * (ML / 2))) by ring. rewrite half_mul.
      rewrite <- HLev. ring. }
    assert (Hr : - (M / 2) <= V < M / 2).
    { unfold V. destruct neg.
      - symmetry in Hneg. apply Z.leb_le in Hneg. nia.
      - symmetry in Hneg. apply Z.leb_gt in Hneg. nia. }
    split; [apply inS_true; exact Hr|].
    apply (uval_inj w n); [lia | | apply digits_of_wf; lia |].
    + split; [rewrite app_length, repeat_length; lia|].
      apply Forall_app; split; [exact Hds | apply Forall_repeat, sign_digit_ok; lia].
    + rewrite uval_app, digits_of_uval by lia. fold M. rewrite Z.mod_mod by lia. fold ML.
      unfold sign, V. destruct neg.
      * rewrite uval_repeat_max by lia. fold K. symmetry.
        apply (mod_shift _ M (-1)); [lia | | ring_simplify; rewrite HM; ring].
        symmetry in Hneg. apply Z.leb_le in Hneg. fold ML in Hneg. rewrite HM. nia.
      * rewrite uval_repeat0. symmetry. apply (mod_shift _ M 0); [lia | | ring].
        symmetry in Hneg. apply Z.leb_gt in Hneg. fold ML in Hneg. rewrite HM. nia.
  - (* at least as many digits as the type: top digit sign check + excess digits = sign fill *)
    replace (n - length ds)%nat with 0%nat by lia. cbn [repeat]. rewrite app_nil_r.
    pose proof (firstn_skipn n ds) as Hsplit.
    assert (Hlo_len : length (firstn n ds) = n) by (rewrite firstn_length; lia).
    pose proof (Forall_firstn _ n _ Hds) as Hlo. pose proof (Forall_skipn _ n _ Hds) as Hhi.
    set (lo := firstn n ds) in *. set (hi := skipn n ds) in *.
    assert (Hlo_ne : lo <> []) by (intros E; rewrite E in Hlo_len; cbn [length] in Hlo_len; lia).
    destruct (exists_last Hlo_ne) as (lo' & t & Elo).
    assert (Hlo'_len : S (length lo') = n).
    { rewrite Elo, app_length in Hlo_len. cbn [length] in Hlo_len. lia. }
    assert (Hacc : I_accept w neg sign n ds = sign_eq w neg t && forallb (eqsign sign) hi).
    { rewrite <- Hsplit, Elo, <- app_assoc. cbn [app]. rewrite <- Hlo'_len. apply I_accept_split. }
    rewrite Hacc. clear Hacc.
    (* the sign check on the top retained digit, as a comparison of values *)
    assert (Ht : Forall (digit_ok w) (lo' ++ [t])) by (rewrite <- Elo; exact Hlo).
    assert (Htd : digit_ok w t) by (apply Forall_app in Ht; destruct Ht as [_ Ht]; inversion Ht; assumption).
    assert (Hse : sign_eq w neg t = Bool.eqb (Mod w n / 2 <=? uval w lo) neg).
    { unfold sign_eq. rewrite sd_neg by assumption. rewrite (top_neg w lo' t Hw Ht), Hlo'_len, <- Elo. reflexivity. }
    pose proof (uval_nonneg w lo Hw0 Hlo) as Ha0. pose proof (uval_lt_Mod w lo Hw0 Hlo) as Ha1. rewrite Hlo_len in Ha1.
    pose proof (uval_nonneg w hi Hw0 Hhi) as Hb0. pose proof (uval_lt_Mod w hi Hw0 Hhi) as Hb1.
    assert (Eu : uval w ds = uval w lo + Mod w n * uval w hi).
    { rewrite <- Hsplit at 1. rewrite uval_app, Hlo_len by lia. reflexivity. }
    assert (EL : Mod w (length ds) = Mod w n * Mod w (length hi)).
    { rewrite <- Mod_add by lia. f_equal. rewrite <- Hsplit at 1. rewrite app_length. lia. }
    set (M := Mod w n) in *. set (a := uval w lo) in *. set (b := uval w hi) in *.
    destruct (Nat.eq_dec (length hi) 0) as [Eh|Hh].
    + (* exactly n digits *)
      assert (Ehi : hi = []) by (destruct hi; [reflexivity | discriminate]).
      assert (Eb : b = 0) by (unfold b; rewrite Ehi; reflexivity).
      rewrite Ehi. cbn [forallb]. rewrite andb_true_r. rewrite Eh, Mod_0, Z.mul_1_r in EL.
      rewrite Eb, Z.mul_0_r, Z.add_0_r in Eu.
      rewrite EL, Eu in Hneg. rewrite Hse, <- Hneg. rewrite eqb_reflx.
      assert (Hr : - (M / 2) <= V < M / 2).
      { unfold V. rewrite EL, Eu. destruct neg; symmetry in Hneg; [apply Z.leb_le in Hneg | apply Z.leb_gt in Hneg]; lia. }
      split; [apply inS_true; exact Hr|].
      apply (uval_inj w n); [lia | split; [exact Hlo_len | exact Hlo] | apply digits_of_wf; lia |].
      rewrite digits_of_uval by lia. fold M. rewrite Z.mod_mod by lia. fold a. symmetry.
      unfold V. rewrite EL, Eu. destruct neg.
      * apply (mod_shift _ M (-1)); [lia | lia | ring].
      * apply (mod_shift _ M 0); [lia | lia | ring].
    + (* more digits than the type *)
      pose proof (Mod_even w (length hi) Hw ltac:(lia)) as Hhev.
      pose proof (Mod_pos w (length hi) Hw0) as Hhpos.
      set (Mh := Mod w (length hi)) in *.
      assert (Hnegiff : neg = true <-> M * (Mh / 2) <= a + M * b).
      { rewrite Hneg, EL, Eu, Z.leb_le. rewrite Hhev at 1. rewrite half_mul. tauto. }
      pose proof (signed_range_arith M (M / 2) Mh (Mh / 2) a b ltac:(lia) HMev ltac:(lia) Hhev
                    ltac:(lia) ltac:(lia) neg Hnegiff) as Hiff.
      assert (Hall : forallb (eqsign sign) hi = true <-> b = (if neg then Mh - 1 else 0)).
      { unfold sign. destruct neg; [apply all_max; assumption | apply (uval_is0 w hi Hw0 Hhi)]. }
      assert (Hsgn : Bool.eqb (M / 2 <=? a) neg = true <-> ((M / 2 <= a) <-> neg = true)).
      { rewrite eqb_true_iff, <- Z.leb_le. destruct (M / 2 <=? a), neg; intuition congruence. }
      assert (HV : V = a + M * b - (if neg then M * Mh else 0)).
      { unfold V. rewrite EL, Eu. reflexivity. }
      rewrite Hse.
      destruct (Bool.eqb (M / 2 <=? a) neg && forallb (eqsign sign) hi) eqn:Eacc.
      * apply andb_true_iff in Eacc. destruct Eacc as [E1 E2].
        assert (Hr : - (M / 2) <= V < M / 2).
        { rewrite HV. apply Hiff. split; [apply Hsgn; exact E1 | apply Hall; exact E2]. }
        split; [apply inS_true; exact Hr|].
        apply (uval_inj w n); [lia | split; [exact Hlo_len | exact Hlo] | apply digits_of_wf; lia |].
        rewrite digits_of_uval by lia. fold M. rewrite Z.mod_mod by lia. fold a. symmetry.
        rewrite HV. destruct neg.
        -- apply (mod_shift _ M (b - Mh)); [lia | lia | ring].
        -- apply (mod_shift _ M b); [lia | lia | ring].
      * apply inS_false. intros Hr. rewrite HV in Hr. apply Hiff in Hr. destruct Hr as [H1 H2].
        apply Hsgn in H1. apply Hall in H2. rewrite H1, H2 in Eacc. discriminate.
Qed.

(* ================================================================== *)
(* BInt::from_le_slice                                                 *)
(* ================================================================== *)

Lemma byte_is_negative_spec b : byte_ok b -> byte_is_negative b = (128 <=? b).
Proof.
  intros Hb. unfold byte_is_negative, sd, to_signed, byte_ok in *. change (B 8) with 256. change (256 / 2) with 128.
  destruct (Z.ltb_spec b 128); destruct (Z.leb_spec 128 b); lia.
Qed.

Lemma le_top_byte bs t : bytes_ok (bs ++ [t]) ->
  (128 <=? t) = (P256 (S (length bs)) / 2 <=? le_value (bs ++ [t])).
Proof.
  intros H. apply bytes_ok_app in H. destruct H as [Hbs Ht]. inversion Ht as [|? ? Ht' _]; subst.
  pose proof (le_value_bounds bs Hbs). pose proof (P256_pos (length bs)).
  rewrite le_value_app, le_value_cons, le_value_nil, P256_even.
  rewrite (Z.mul_comm 2), Z.div_mul by lia. unfold byte_ok in Ht'.
  destruct (Z.leb_spec 128 t); destruct (Z.leb_spec (128 * P256 (length bs)) (le_value bs + P256 (length bs) * (t + 256 * 0))); try reflexivity; nia.
Qed.

Lemma le_signed_value_snoc bs t :
  le_signed_value (bs ++ [t]) =
  le_value (bs ++ [t]) - (if 128 <=? t then P256 (S (length bs)) else 0).
Proof.
  unfold le_signed_value. rewrite rev_unit. unfold be_signed_value.
  replace (be_value (t :: rev bs)) with (le_value (bs ++ [t])) by (unfold le_value; rewrite rev_unit; reflexivity).
  cbn [length]. rewrite rev_length. destruct (128 <=? t); lia.
Qed.

Lemma digits_of_0 w n : 0 < w -> digits_of w n 0 = repeat 0 n.
Proof.
  intros Hw. induction n as [|n IH]; [reflexivity|]. cbn [digits_of repeat].
  rewrite Z.mod_0_l, Z.div_0_l, IH by (pose proof (B_pos w ltac:(lia)); lia). reflexivity.
Qed.

Lemma nth_snoc (bs : list Z) t : nth (length (bs ++ [t]) - 1) (bs ++ [t]) 0 = t.
Proof.
  rewrite app_length. cbn [length]. replace (length bs + 1 - 1)%nat with (length bs) by lia.
  rewrite app_nth2 by lia. rewrite Nat.sub_diag. reflexivity.
Qed.

Lemma I_from_le_slice_store w n bs : bs <> [] ->
  let neg := byte_is_negative (nth (length bs - 1) bs 0) in
  let sign := if neg then u_max w else 0 in
  I_from_le_slice w n bs =
  store_list (I_set_digit w n neg sign) (le_digits w (if neg then 255 else 0) bs) 0 (repeat sign n).
Proof.
  intros Hne neg sign. unfold I_from_le_slice, le_digits.
  destruct (Nat.eqb_spec (length bs) 0) as [E|_]; [destruct bs; [congruence | discriminate]|].
  fold neg. fold sign. rewrite slice_loop_store, store_list_app.
  rewrite map_length, seq_length. cbn [Nat.add].
  change (fun i : nat => u_from_le_bytes (sub_bytes bs (i * dbytes w) (dbytes w))) with (le_digit (dbytes w) bs).
  destruct (store_list (I_set_digit w n neg sign) (map (le_digit (dbytes w) bs) (seq 0 (length bs / dbytes w))) 0 (repeat sign n)); [|reflexivity].
  destruct (length bs mod dbytes w =? 0)%nat; [reflexivity|].
  cbn [store_list]. destruct (I_set_digit w n neg sign _ _ l); reflexivity.
Qed.

Theorem I_from_le_slice_ok w n bs : width_ok w -> (1 <= n)%nat -> bytes_ok bs ->
  I_from_le_slice w n bs =
  if inS (Mod w n) (le_signed_value bs)
  then Some (digits_of w n (le_signed_value bs mod Mod w n)) else None.
Proof.
  intros Hw Hn Hb. assert (Hw0 : 0 < w) by (destruct Hw; lia). destruct (width_db w Hw) as [_ Hdb].
  destruct bs as [|b0 bs0].
  - (* the empty slice is zero *)
    cbn. pose proof (Mod_even w n Hw0 Hn). pose proof (Mod_pos w n ltac:(lia)).
    replace (inS (Mod w n) 0) with true by (symmetry; apply inS_true; lia).
    rewrite Z.mod_0_l by lia. rewrite digits_of_0 by lia. reflexivity.
  - assert (Hne : b0 :: bs0 <> []) by discriminate.
    destruct (exists_last Hne) as (bs' & t & E). rewrite E in *. clear E Hne b0 bs0.
    rewrite I_from_le_slice_store by (destruct bs'; discriminate).
    rewrite nth_snoc.
    assert (Htb : byte_ok t) by (apply bytes_ok_app in Hb; destruct Hb as [_ Ht]; inversion Ht; assumption).
    rewrite byte_is_negative_spec by assumption.
    set (bs := bs' ++ [t]) in *. set (neg := 128 <=? t). set (sign := if neg then u_max w else 0).
    set (pad := if neg then 255 else 0).
    assert (Hpad : byte_ok pad) by (unfold pad, byte_ok; destruct neg; lia).
    destruct (le_digits_value w pad bs Hw Hpad Hb) as (Hv & Hok & Hlen).
    set (ds := le_digits w pad bs) in *. set (k := npad w (length bs)) in *.
    assert (Hlenbs : length bs = S (length bs')) by (unfold bs; rewrite app_length; cbn [length]; lia).
    (* values *)
    pose proof (le_top_byte bs' t Hb) as Htop. fold bs in Htop. fold neg in Htop.
    pose proof (le_value_bounds bs Hb) as Hvb. rewrite Hlenbs in Hvb.
    pose proof (P256_even (length bs')) as Hev. pose proof (P256_pos (length bs')) as Hp'.
    pose proof (P256_pos k) as Hpk.
    assert (HML : Mod w (length ds) = P256 (S (length bs')) * P256 k).
    { rewrite Mod_P256 by assumption. rewrite Hlen, Hlenbs, P256_add. reflexivity. }
    assert (Hv2 : uval w ds = le_value bs + P256 (S (length bs')) * (if neg then P256 k - 1 else 0)).
    { rewrite Hv, le_value_app, Hlenbs. unfold pad. destruct neg; [rewrite le_value_repeat255 | rewrite le_value_repeat0]; reflexivity. }
    rewrite Hev, (Z.mul_comm 2), Z.div_mul in Htop by lia.
    assert (Hneg : neg = (Mod w (length ds) / 2 <=? uval w ds)).
    { rewrite HML, Hv2, Hev. replace (2 * (128 * P256 (length bs')) * P256 k) with (128 * P256 (length bs') * P256 k * 2) by ring.
      rewrite Z.div_mul by lia. destruct neg; symmetry in Htop; symmetry.
      - apply Z.leb_le in Htop. apply Z.leb_le. nia.
      - apply Z.leb_gt in Htop. apply Z.leb_gt. nia. }
    assert (HV : uval w ds - (if neg then Mod w (length ds) else 0) = le_signed_value bs).
    { replace (le_signed_value bs) with (le_value bs - (if neg then P256 (S (length bs')) else 0))
        by (unfold bs, neg; rewrite le_signed_value_snoc; reflexivity).
      rewrite HML, Hv2. destruct neg; ring. }
    assert (Hdsne : ds <> []).
    { intros E. rewrite E in Hlen. cbn [length] in Hlen. lia. }
    pose proof (I_store w n neg sign ds Hn [] (repeat sign n)) as Hs.
    rewrite repeat_length in Hs. cbn [length app] in Hs. rewrite Hs by reflexivity. clear Hs.
    rewrite skipn_repeat.
    pose proof (I_accept_value w n ds neg Hw0 Hn Hok Hdsne Hneg) as Ha. cbv zeta in Ha. fold sign in Ha.
    rewrite HV in Ha.
    destruct (I_accept w neg sign n ds).
    + destruct Ha as [Hin Heq]. rewrite Hin, Heq. reflexivity.
    + rewrite Ha. reflexivity.
Qed.

(* ================================================================== *)
(* big endian = little endian on the reversed slice                    *)
(* ================================================================== *)

Lemma rev_sub_bytes (l : list Z) s c : (s + c <= length l)%nat ->
  rev (sub_bytes l s c) = sub_bytes (rev l) (length l - s - c) c.
Proof.
  intros H. unfold sub_bytes. rewrite skipn_rev.
  replace (length l - (length l - s - c))%nat with (s + c)%nat by lia.
  rewrite firstn_rev, firstn_length. replace (Nat.min (s + c) (length l) - c)%nat with s by lia.
  rewrite firstn_skipn_comm. reflexivity.
Qed.

Lemma be_digit_rev db (bs : list Z) i : ((i + 1) * db <= length bs)%nat ->
  u_from_be_bytes (sub_bytes bs (length bs - db - i * db) db) = le_digit db (rev bs) i.
Proof.
  intros H. unfold le_digit. rewrite u_from_be_bytes_value, u_from_le_bytes_value, be_value_rev.
  rewrite rev_sub_bytes by lia. f_equal. f_equal. lia.
Qed.

Lemma be_partial_rev db (bs : list Z) pad : (0 < db)%nat ->
  let len := length bs in
  u_from_be_bytes (repeat pad (db - len mod db) ++ firstn (len mod db) bs) =
  u_from_le_bytes (skipn (len / db * db) (rev bs) ++ repeat pad (db - (len - len / db * db))).
Proof.
  intros Hdb len. destruct (divmod_facts db len Hdb) as [Hdm Hlt].
  rewrite u_from_be_bytes_value, u_from_le_bytes_value, be_value_rev, rev_app_distr, rev_repeat.
  rewrite skipn_rev. fold len.
  replace (len - len / db * db)%nat with (len mod db)%nat by lia. reflexivity.
Qed.

Lemma be_digits_rev w (bs : list Z) : width_ok w ->
  map (fun i => u_from_be_bytes (sub_bytes bs (length bs - dbytes w - i * dbytes w) (dbytes w)))
      (seq 0 (length bs / dbytes w)) =
  map (fun i => u_from_le_bytes (sub_bytes (rev bs) (i * dbytes w) (dbytes w))) (seq 0 (length bs / dbytes w)).
Proof.
  intros Hw. destruct (width_db w Hw) as [_ Hdb].
  destruct (divmod_facts (dbytes w) (length bs) Hdb) as [Hdm Hlt].
  apply map_seq_ext. intros k Hk. apply be_digit_rev. nia.
Qed.

Lemma U_from_be_slice_rev w n bs : width_ok w -> U_from_be_slice w n bs = U_from_le_slice w n (rev bs).
Proof.
  intros Hw. destruct (width_db w Hw) as [_ Hdb].
  unfold U_from_be_slice, U_from_le_slice. rewrite rev_length, !slice_loop_store, be_digits_rev by assumption.
  destruct (store_list _ _ _ _); [|reflexivity].
  destruct (length bs mod dbytes w =? 0)%nat; [reflexivity|].
  rewrite (be_partial_rev (dbytes w) bs 0 Hdb). reflexivity.
Qed.

Lemma I_from_be_slice_rev w n bs : width_ok w -> I_from_be_slice w n bs = I_from_le_slice w n (rev bs).
Proof.
  intros Hw. destruct (width_db w Hw) as [_ Hdb].
  unfold I_from_be_slice, I_from_le_slice. rewrite rev_length.
  destruct (Nat.eqb_spec (length bs) 0) as [E|Hne]; [reflexivity|].
  rewrite rev_nth by lia. replace (length bs - S (length bs - 1))%nat with 0%nat by lia.
  set (neg := byte_is_negative (nth 0 bs 0)).
  replace (if neg then repeat (u_max w) n else repeat 0 n) with (repeat (if neg then u_max w else 0) n)
    by (destruct neg; reflexivity).
  rewrite !slice_loop_store, be_digits_rev by assumption.
  destruct (store_list _ _ _ _); [|reflexivity].
  destruct (length bs mod dbytes w =? 0)%nat; [reflexivity|].
  rewrite (be_partial_rev (dbytes w) bs _ Hdb). reflexivity.
Qed.

Lemma le_value_rev bs : le_value (rev bs) = be_value bs.
Proof. unfold le_value. rewrite rev_involutive. reflexivity. Qed.

Lemma le_signed_value_rev bs : le_signed_value (rev bs) = be_signed_value bs.
Proof. unfold le_signed_value. rewrite rev_involutive. reflexivity. Qed.

Theorem U_from_be_slice_ok w n bs : width_ok w -> bytes_ok bs ->
  U_from_be_slice w n bs =
  if be_value bs <? Mod w n then Some (digits_of w n (be_value bs)) else None.
Proof.
  intros Hw Hb. rewrite U_from_be_slice_rev, U_from_le_slice_ok, le_value_rev by (auto using bytes_ok_rev).
  reflexivity.
Qed.

Theorem I_from_be_slice_ok w n bs : width_ok w -> (1 <= n)%nat -> bytes_ok bs ->
  I_from_be_slice w n bs =
  if inS (Mod w n) (be_signed_value bs)
  then Some (digits_of w n (be_signed_value bs mod Mod w n)) else None.
Proof.
  intros Hw Hn Hb. rewrite I_from_be_slice_rev, I_from_le_slice_ok, le_signed_value_rev by (auto using bytes_ok_rev).
  reflexivity.
Qed.

(* ================================================================== *)
(* bytes of a digit; swap_bytes                                        *)
(* ================================================================== *)

Lemma u_to_le_bytes_length k : forall x, length (u_to_le_bytes k x) = k.
Proof. induction k as [|k IH]; intros x; [reflexivity|]. cbn [u_to_le_bytes length]. rewrite IH. reflexivity. Qed.

Lemma u_to_le_bytes_ok k : forall x, bytes_ok (u_to_le_bytes k x).
Proof.
  induction k as [|k IH]; intros x; [constructor|]. cbn [u_to_le_bytes]. constructor; [|apply IH].
  unfold byte_ok. apply Z.mod_pos_bound. lia.
Qed.

Lemma le_value_to_le_bytes k : forall x, 0 <= x < P256 k -> le_value (u_to_le_bytes k x) = x.
Proof.
  induction k as [|k IH]; intros x Hx.
  - rewrite P256_0 in Hx. cbn [u_to_le_bytes]. rewrite le_value_nil. lia.
  - rewrite P256_S in Hx. cbn [u_to_le_bytes]. rewrite le_value_cons, IH.
    + pose proof (Z.div_mod x 256 ltac:(lia)). lia.
    + split; [apply Z.div_pos; lia | apply Z.div_lt_upper_bound; lia].
Qed.

Lemma le_value_uval8 bs : le_value bs = uval 8 bs.
Proof.
  induction bs as [|b r IH]; [reflexivity|]. rewrite le_value_cons. cbn [uval]. change (B 8) with 256. rewrite IH. reflexivity.
Qed.

(* a byte string is determined by its length and its value *)
Lemma le_value_inj a b : bytes_ok a -> bytes_ok b -> length a = length b -> le_value a = le_value b -> a = b.
Proof.
  intros Ha Hb Hl He. rewrite !le_value_uval8 in He.
  apply (uval_inj 8 (length a)); [lia | split; [reflexivity | exact Ha] | split; [symmetry; exact Hl | exact Hb] | exact He].
Qed.

Lemma to_le_bytes_le_value bs : bytes_ok bs -> u_to_le_bytes (length bs) (le_value bs) = bs.
Proof.
  intros H. apply le_value_inj; [apply u_to_le_bytes_ok | exact H | apply u_to_le_bytes_length |].
  apply le_value_to_le_bytes. apply le_value_bounds. exact H.
Qed.

Lemma rev_bytes_value k : forall x, rev_bytes k x = be_value (u_to_le_bytes k x).
Proof.
  induction k as [|k IH]; intros x; [reflexivity|].
  cbn [rev_bytes u_to_le_bytes]. rewrite be_value_cons, u_to_le_bytes_length, IH. reflexivity.
Qed.

Lemma u_swap_bytes_value w d : u_swap_bytes w d = le_value (rev (u_to_le_bytes (dbytes w) d)).
Proof. unfold u_swap_bytes. fold (dbytes w). rewrite rev_bytes_value, be_value_rev. reflexivity. Qed.

(* the bytes of the swapped digit are the bytes of the digit in reverse order *)
Lemma u_swap_bytes_bytes w d :
  u_to_le_bytes (dbytes w) (u_swap_bytes w d) = rev (u_to_le_bytes (dbytes w) d).
Proof.
  rewrite u_swap_bytes_value.
  rewrite <- (u_to_le_bytes_length (dbytes w) d) at 1. rewrite <- rev_length.
  apply to_le_bytes_le_value. apply bytes_ok_rev, u_to_le_bytes_ok.
Qed.

Lemma u_swap_bytes_ok w d : width_ok w -> digit_ok w (u_swap_bytes w d).
Proof.
  intros Hw. unfold digit_ok. rewrite u_swap_bytes_value, B_P256 by assumption.
  pose proof (le_value_bounds _ (bytes_ok_rev _ (u_to_le_bytes_ok (dbytes w) d))) as H.
  rewrite rev_length, u_to_le_bytes_length in H. exact H.
Qed.

Lemma u_swap_bytes_involutive w d : width_ok w -> digit_ok w d -> u_swap_bytes w (u_swap_bytes w d) = d.
Proof.
  intros Hw Hd. rewrite (u_swap_bytes_value w (u_swap_bytes w d)), u_swap_bytes_bytes, rev_involutive.
  apply le_value_to_le_bytes. unfold digit_ok in Hd. rewrite B_P256 in Hd by assumption. exact Hd.
Qed.

Lemma swap_bytes_wf w n a : width_ok w -> wf w n a -> wf w n (swap_bytes w a).
Proof.
  intros Hw [Hl _]. unfold swap_bytes. split; [rewrite map_length, rev_length; exact Hl|].
  apply Forall_forall. intros x Hx. apply in_map_iff in Hx. destruct Hx as (d & <- & _). apply u_swap_bytes_ok. exact Hw.
Qed.

Theorem swap_bytes_involutive w n a : width_ok w -> wf w n a -> swap_bytes w (swap_bytes w a) = a.
Proof.
  intros Hw [_ Hf]. unfold swap_bytes. rewrite <- map_rev, rev_involutive, map_map.
  rewrite <- (map_id a) at 2. apply map_ext_in. intros d Hd.
  apply u_swap_bytes_involutive; [exact Hw|]. rewrite Forall_forall in Hf. apply Hf. exact Hd.
Qed.

Lemma rev_flat_map {A C} (f : A -> list C) l : rev (flat_map f l) = flat_map (fun x => rev (f x)) (rev l).
Proof.
  induction l as [|x l IH]; [reflexivity|]. cbn [flat_map rev].
  rewrite rev_app_distr, IH, flat_map_app. cbn [flat_map]. rewrite app_nil_r. reflexivity.
Qed.

Lemma flat_map_map {A C D} (g : A -> C) (f : C -> list D) l : flat_map f (map g l) = flat_map (fun x => f (g x)) l.
Proof. induction l as [|x l IH]; [reflexivity|]. cbn [map flat_map]. rewrite IH. reflexivity. Qed.

(* swap_bytes reverses the byte image of the whole number *)
Theorem swap_bytes_bytes w a : U_to_le_bytes w (swap_bytes w a) = rev (U_to_le_bytes w a).
Proof.
  unfold U_to_le_bytes, swap_bytes. rewrite flat_map_map, rev_flat_map.
  apply flat_map_ext. intros d. apply u_swap_bytes_bytes.
Qed.

(* ================================================================== *)
(* to_*_bytes / from_*_bytes                                           *)
(* ================================================================== *)

Lemma U_to_le_bytes_length w a : length (U_to_le_bytes w a) = (length a * dbytes w)%nat.
Proof.
  unfold U_to_le_bytes. induction a as [|d r IH]; [reflexivity|].
  cbn [flat_map length]. rewrite app_length, u_to_le_bytes_length, IH. lia.
Qed.

Lemma U_to_le_bytes_ok w a : bytes_ok (U_to_le_bytes w a).
Proof.
  unfold U_to_le_bytes. induction a as [|d r IH]; [constructor|].
  cbn [flat_map]. apply bytes_ok_app. split; [apply u_to_le_bytes_ok | exact IH].
Qed.

(* the bytes denote the value (unsigned reading of the two's complement pattern) *)
Theorem U_to_le_bytes_value w n a : width_ok w -> wf w n a -> le_value (U_to_le_bytes w a) = uval w a.
Proof.
  intros Hw [_ Hf]. unfold U_to_le_bytes. induction Hf as [|d r Hd Hr IH]; [reflexivity|].
  cbn [flat_map uval]. rewrite le_value_app, u_to_le_bytes_length, IH, <- B_P256 by assumption.
  rewrite le_value_to_le_bytes; [reflexivity|]. unfold digit_ok in Hd. rewrite <- B_P256 by assumption. exact Hd.
Qed.

Lemma fold_prepend {A C} (g : A -> list C) l : forall acc,
  fold_left (fun acc d => g d ++ acc) l acc = flat_map g (rev l) ++ acc.
Proof.
  induction l as [|x l IH]; intros acc; [reflexivity|].
  cbn [fold_left rev]. rewrite IH, flat_map_app. cbn [flat_map]. rewrite app_nil_r, <- app_assoc. reflexivity.
Qed.

Theorem U_to_be_bytes_rev w a : U_to_be_bytes w a = rev (U_to_le_bytes w a).
Proof.
  unfold U_to_be_bytes, U_to_le_bytes. rewrite fold_prepend, app_nil_r, rev_flat_map. reflexivity.
Qed.

Lemma U_from_le_bytes_wf w n bs : width_ok w -> bytes_ok bs -> wf w n (U_from_le_bytes w n bs).
Proof.
  intros Hw Hb. unfold U_from_le_bytes. split; [rewrite map_length, seq_length; reflexivity|].
  apply Forall_forall. intros x Hx. apply in_map_iff in Hx. destruct Hx as (i & <- & _).
  apply (le_digit_ok w bs i Hw Hb).
Qed.

Theorem U_from_le_bytes_value w n bs : width_ok w -> length bs = (n * dbytes w)%nat ->
  uval w (U_from_le_bytes w n bs) = le_value bs.
Proof.
  intros Hw Hl. rewrite (le_chunks w bs n Hw ltac:(lia)). rewrite skipn_all2 by lia. rewrite le_value_nil.
  unfold U_from_le_bytes, le_digit. lia.
Qed.

Theorem U_from_le_to_le_bytes w n a : width_ok w -> wf w n a -> U_from_le_bytes w n (U_to_le_bytes w a) = a.
Proof.
  intros Hw Ha. assert (Hw0 : 0 <= w) by (destruct Hw; lia).
  apply (uval_inj w n); [lia | apply U_from_le_bytes_wf; [exact Hw | apply U_to_le_bytes_ok] | exact Ha |].
  rewrite U_from_le_bytes_value by (auto; rewrite U_to_le_bytes_length, (wf_length _ _ _ Ha); reflexivity).
  apply (U_to_le_bytes_value w n); assumption.
Qed.

Theorem U_to_le_from_le_bytes w n bs : width_ok w -> bytes_ok bs -> length bs = (n * dbytes w)%nat ->
  U_to_le_bytes w (U_from_le_bytes w n bs) = bs.
Proof.
  intros Hw Hb Hl. pose proof (U_from_le_bytes_wf w n bs Hw Hb) as Hwf.
  apply le_value_inj; [apply U_to_le_bytes_ok | exact Hb | |].
  - rewrite U_to_le_bytes_length, (wf_length _ _ _ Hwf). lia.
  - rewrite (U_to_le_bytes_value w n) by assumption. apply U_from_le_bytes_value; assumption.
Qed.

Lemma U_from_be_bytes_rev w n bs : length bs = (n * dbytes w)%nat ->
  U_from_be_bytes w n bs = U_from_le_bytes w n (rev bs).
Proof.
  intros Hl. unfold U_from_be_bytes, U_from_le_bytes. apply map_seq_ext. intros k Hk.
  rewrite <- Hl. rewrite be_digit_rev by nia. reflexivity.
Qed.

Theorem U_from_be_to_be_bytes w n a : width_ok w -> wf w n a -> U_from_be_bytes w n (U_to_be_bytes w a) = a.
Proof.
  intros Hw Ha. rewrite U_from_be_bytes_rev.
  - rewrite U_to_be_bytes_rev, rev_involutive. apply U_from_le_to_le_bytes; assumption.
  - rewrite U_to_be_bytes_rev, rev_length, U_to_le_bytes_length, (wf_length _ _ _ Ha). reflexivity.
Qed.

Theorem U_to_be_from_be_bytes w n bs : width_ok w -> bytes_ok bs -> length bs = (n * dbytes w)%nat ->
  U_to_be_bytes w (U_from_be_bytes w n bs) = bs.
Proof.
  intros Hw Hb Hl. rewrite U_from_be_bytes_rev by assumption. rewrite U_to_be_bytes_rev.
  rewrite U_to_le_from_le_bytes by (auto using bytes_ok_rev; rewrite rev_length; assumption).
  apply rev_involutive.
Qed.

Theorem U_to_be_bytes_value w n a : width_ok w -> wf w n a -> be_value (U_to_be_bytes w a) = uval w a.
Proof.
  intros Hw Ha. rewrite U_to_be_bytes_rev, be_value_rev, rev_involutive. apply (U_to_le_bytes_value w n); assumption.
Qed.

(* signed reading: the bytes are the two's complement bytes of sval *)
Theorem I_to_le_bytes_signed_value w n a : width_ok w -> (1 <= n)%nat -> wf w n a ->
  le_signed_value (I_to_le_bytes w a) = sval w a.
Proof.
  intros Hw Hn Ha. destruct (width_db w Hw) as [_ Hdb]. unfold I_to_le_bytes.
  pose proof (U_to_le_bytes_length w a) as Hl. rewrite (wf_length _ _ _ Ha) in Hl.
  pose proof (U_to_le_bytes_ok w a) as Hok. pose proof (U_to_le_bytes_value w n a Hw Ha) as Hv.
  set (bs := U_to_le_bytes w a) in *.
  assert (Hne : bs <> []) by (intros E; rewrite E in Hl; cbn [length] in Hl; nia).
  destruct (exists_last Hne) as (bs' & t & E).
  assert (Hl' : S (length bs') = (n * dbytes w)%nat) by (rewrite E, app_length in Hl; cbn [length] in Hl; lia).
  rewrite E in Hok. pose proof (le_top_byte bs' t Hok) as Htop. rewrite <- E in Htop.
  rewrite E at 1. rewrite le_signed_value_snoc, <- E, Htop, Hv.
  unfold sval, to_signed. rewrite (wf_length _ _ _ Ha), Mod_P256, <- Hl' by assumption.
  destruct (Z.leb_spec (P256 (S (length bs')) / 2) (uval w a)); destruct (Z.ltb_spec (uval w a) (P256 (S (length bs')) / 2)); lia.
Qed.

(* ================================================================== *)
(* readable corollaries                                                *)
(* ================================================================== *)

Lemma digits_of_unsigned w n v : 0 < w -> 0 <= v < Mod w n ->
  wf w n (digits_of w n v) /\ uval w (digits_of w n v) = v.
Proof.
  intros Hw Hv. split; [apply digits_of_wf; exact Hw|]. rewrite digits_of_uval by exact Hw. apply Z.mod_small. exact Hv.
Qed.

Lemma digits_of_signed w n v : 0 < w -> (1 <= n)%nat -> inS (Mod w n) v = true ->
  wf w n (digits_of w n (v mod Mod w n)) /\ sval w (digits_of w n (v mod Mod w n)) = v.
Proof.
  intros Hw Hn Hv. pose proof (digits_of_wf w n (v mod Mod w n) Hw) as Hwf. split; [exact Hwf|].
  pose proof (Mod_pos w n ltac:(lia)) as HM. pose proof (Mod_even w n Hw Hn) as He.
  unfold sval. rewrite (wf_length _ _ _ Hwf), digits_of_uval, Z.mod_mod by lia.
  rewrite to_signed_of_mod by assumption. apply wrapS_id; [assumption | assumption | apply inS_true; exact Hv].
Qed.

Lemma be_value_bounds bs : bytes_ok bs -> 0 <= be_value bs < P256 (length bs).
Proof. intros H. rewrite be_value_rev, <- rev_length. apply le_value_bounds, bytes_ok_rev, H. Qed.

(* Some r <-> r is the well-formed array denoting the value; None <-> the value does not fit *)
Theorem U_from_be_slice_denotes w n bs : width_ok w -> bytes_ok bs ->
  match U_from_be_slice w n bs with
  | Some r => wf w n r /\ uval w r = be_value bs
  | None => Mod w n <= be_value bs
  end.
Proof.
  intros Hw Hb. rewrite U_from_be_slice_ok by assumption. pose proof (be_value_bounds bs Hb).
  destruct (Z.ltb_spec (be_value bs) (Mod w n)); [apply digits_of_unsigned; destruct Hw; lia | assumption].
Qed.

Theorem U_from_le_slice_denotes w n bs : width_ok w -> bytes_ok bs ->
  match U_from_le_slice w n bs with
  | Some r => wf w n r /\ uval w r = le_value bs
  | None => Mod w n <= le_value bs
  end.
Proof.
  intros Hw Hb. rewrite U_from_le_slice_ok by assumption. pose proof (le_value_bounds bs Hb).
  destruct (Z.ltb_spec (le_value bs) (Mod w n)); [apply digits_of_unsigned; destruct Hw; lia | assumption].
Qed.

Theorem I_from_be_slice_denotes w n bs : width_ok w -> (1 <= n)%nat -> bytes_ok bs ->
  match I_from_be_slice w n bs with
  | Some r => wf w n r /\ sval w r = be_signed_value bs
  | None => ~ (- (Mod w n / 2) <= be_signed_value bs < Mod w n / 2)
  end.
Proof.
  intros Hw Hn Hb. rewrite I_from_be_slice_ok by assumption.
  destruct (inS (Mod w n) (be_signed_value bs)) eqn:E.
  - apply digits_of_signed; [destruct Hw; lia | assumption | assumption].
  - apply inS_false. exact E.
Qed.

Theorem I_from_le_slice_denotes w n bs : width_ok w -> (1 <= n)%nat -> bytes_ok bs ->
  match I_from_le_slice w n bs with
  | Some r => wf w n r /\ sval w r = le_signed_value bs
  | None => ~ (- (Mod w n / 2) <= le_signed_value bs < Mod w n / 2)
  end.
Proof.
  intros Hw Hn Hb. rewrite I_from_le_slice_ok by assumption.
  destruct (inS (Mod w n) (le_signed_value bs)) eqn:E.
  - apply digits_of_signed; [destruct Hw; lia | assumption | assumption].
  - apply inS_false. exact E.
Qed.

(* padding: leading zero bytes do not change the unsigned value; leading copies of the sign
   byte (0x00 / 0xff according to the top bit of the first byte) do not change the signed value *)
Lemma be_value_repeat0 k : be_value (repeat 0 k) = 0.
Proof. rewrite be_value_rev, rev_repeat. apply le_value_repeat0. Qed.

Lemma be_value_repeat255 k : be_value (repeat 255 k) = P256 k - 1.
Proof. rewrite be_value_rev, rev_repeat. apply le_value_repeat255. Qed.

Theorem be_value_zero_pad k bs : be_value (repeat 0 k ++ bs) = be_value bs.
Proof. rewrite be_value_app, be_value_repeat0. lia. Qed.

Theorem be_signed_value_sign_pad k b bs : byte_ok b ->
  be_signed_value (repeat (if 128 <=? b then 255 else 0) k ++ b :: bs) = be_signed_value (b :: bs).
Proof.
  intros Hb. destruct k as [|k]; [reflexivity|].
  unfold be_signed_value at 1. cbn [repeat app].
  change ((if 128 <=? b then 255 else 0) :: repeat (if 128 <=? b then 255 else 0) k ++ b :: bs)
    with (repeat (if 128 <=? b then 255 else 0) (S k) ++ b :: bs).
  rewrite be_value_app, app_length, repeat_length, P256_add. unfold be_signed_value.
  destruct (Z.leb_spec 128 b).
  - change (128 <=? 255) with true. cbv iota. rewrite be_value_repeat255. ring.
  - change (128 <=? 0) with false. cbv iota. rewrite be_value_repeat0. ring.
Qed.

Theorem U_from_be_slice_zero_pad w n k bs : width_ok w -> bytes_ok bs ->
  U_from_be_slice w n (repeat 0 k ++ bs) = U_from_be_slice w n bs.
Proof.
  intros Hw Hb. rewrite !U_from_be_slice_ok, be_value_zero_pad; auto.
  apply bytes_ok_app. split; [apply bytes_ok_repeat; unfold byte_ok; lia | exact Hb].
Qed.

Theorem I_from_be_slice_sign_pad w n k b bs : width_ok w -> (1 <= n)%nat -> bytes_ok (b :: bs) ->
  I_from_be_slice w n (repeat (if 128 <=? b then 255 else 0) k ++ b :: bs) = I_from_be_slice w n (b :: bs).
Proof.
  intros Hw Hn Hb. assert (Hb0 : byte_ok b) by (inversion Hb; assumption).
  rewrite !I_from_be_slice_ok, be_signed_value_sign_pad; auto.
  apply bytes_ok_app. split; [apply bytes_ok_repeat; unfold byte_ok; destruct (128 <=? b); lia | exact Hb].
Qed.

Theorem from_slice_empty w n : width_ok w -> (1 <= n)%nat ->
  U_from_be_slice w n [] = Some (ZERO n) /\ U_from_le_slice w n [] = Some (ZERO n) /\
  I_from_be_slice w n [] = Some (ZERO n) /\ I_from_le_slice w n [] = Some (ZERO n).
Proof.
  intros Hw Hn. assert (Hw0 : 0 < w) by (destruct Hw; lia). pose proof (Mod_pos w n ltac:(lia)) as HM.
  rewrite U_from_be_slice_ok, U_from_le_slice_ok by (auto; constructor).
  change (be_value []) with 0. change (le_value []) with 0.
  destruct (Z.ltb_spec 0 (Mod w n)); [|lia]. rewrite digits_of_0 by assumption. repeat split; reflexivity.
Qed.

(* ---------- to_be / from_be / to_le / from_le ---------- *)

Theorem to_be_from_be_spec w n a : width_ok w -> wf w n a ->
  U_to_be w a = swap_bytes w a /\ U_from_be w a = swap_bytes w a /\
  U_from_be w (U_to_be w a) = a /\ U_to_be w (U_from_be w a) = a /\
  wf w n (U_to_be w a) /\
  U_to_le_bytes w (U_to_be w a) = rev (U_to_le_bytes w a) /\
  be_value (U_to_le_bytes w (U_to_be w a)) = uval w a /\
  I_to_be w a = swap_bytes w a /\ I_from_be w a = swap_bytes w a /\
  I_from_be w (I_to_be w a) = a /\ I_to_be w (I_from_be w a) = a.
Proof.
  intros Hw Ha. unfold I_to_be, I_from_be, U_to_be, U_from_be.
  pose proof (swap_bytes_involutive w n a Hw Ha) as Hi.
  repeat match goal with |- _ /\ _ => split end; try reflexivity; try exact Hi.
  - apply swap_bytes_wf; assumption.
  - apply swap_bytes_bytes.
  - rewrite swap_bytes_bytes, be_value_rev, rev_involutive. apply (U_to_le_bytes_value w n); assumption.
Qed.

Theorem to_le_from_le_spec (a : list Z) :
  U_to_le a = a /\ U_from_le a = a /\ I_to_le a = a /\ I_from_le a = a.
Proof. repeat match goal with |- _ /\ _ => split end; reflexivity. Qed.

(* ---------- nightly: *_bytes ---------- *)

Theorem bytes_roundtrip w n a : width_ok w -> wf w n a ->
  U_from_le_bytes w n (U_to_le_bytes w a) = a /\
  U_from_be_bytes w n (U_to_be_bytes w a) = a /\
  U_from_ne_bytes w n (U_to_ne_bytes w a) = a /\
  I_from_le_bytes w n (I_to_le_bytes w a) = a /\
  I_from_be_bytes w n (I_to_be_bytes w a) = a /\
  I_from_ne_bytes w n (I_to_ne_bytes w a) = a.
Proof.
  intros Hw Ha. unfold I_from_le_bytes, I_to_le_bytes, I_from_be_bytes, I_to_be_bytes, I_from_ne_bytes, I_to_ne_bytes,
    U_from_ne_bytes, U_to_ne_bytes.
  pose proof (U_from_le_to_le_bytes w n a Hw Ha). pose proof (U_from_be_to_be_bytes w n a Hw Ha). tauto.
Qed.

Theorem bytes_roundtrip_inv w n bs : width_ok w -> bytes_ok bs -> length bs = (n * dbytes w)%nat ->
  U_to_le_bytes w (U_from_le_bytes w n bs) = bs /\
  U_to_be_bytes w (U_from_be_bytes w n bs) = bs /\
  U_to_ne_bytes w (U_from_ne_bytes w n bs) = bs /\
  wf w n (U_from_le_bytes w n bs) /\ wf w n (U_from_be_bytes w n bs) /\
  uval w (U_from_le_bytes w n bs) = le_value bs /\ uval w (U_from_be_bytes w n bs) = be_value bs.
Proof.
  intros Hw Hb Hl. unfold U_from_ne_bytes, U_to_ne_bytes.
  pose proof (U_to_le_from_le_bytes w n bs Hw Hb Hl). pose proof (U_to_be_from_be_bytes w n bs Hw Hb Hl).
  pose proof (U_from_le_bytes_wf w n bs Hw Hb).
  assert (Hr : length (rev bs) = (n * dbytes w)%nat) by (rewrite rev_length; exact Hl).
  repeat match goal with |- _ /\ _ => split end; try assumption; try tauto.
  - rewrite U_from_be_bytes_rev by assumption. apply U_from_le_bytes_wf; auto using bytes_ok_rev.
  - apply U_from_le_bytes_value; assumption.
  - rewrite U_from_be_bytes_rev by assumption. rewrite U_from_le_bytes_value by assumption. apply le_value_rev.
Qed.

Theorem bytes_denote w n a : width_ok w -> (1 <= n)%nat -> wf w n a ->
  length (U_to_le_bytes w a) = (n * dbytes w)%nat /\ bytes_ok (U_to_le_bytes w a) /\
  U_to_be_bytes w a = rev (U_to_le_bytes w a) /\ U_to_ne_bytes w a = U_to_le_bytes w a /\
  le_value (U_to_le_bytes w a) = uval w a /\ be_value (U_to_be_bytes w a) = uval w a /\
  le_signed_value (I_to_le_bytes w a) = sval w a /\ be_signed_value (I_to_be_bytes w a) = sval w a.
Proof.
  intros Hw Hn Ha. repeat match goal with |- _ /\ _ => split end.
  - rewrite U_to_le_bytes_length, (wf_length _ _ _ Ha). reflexivity.
  - apply U_to_le_bytes_ok.
  - apply U_to_be_bytes_rev.
  - reflexivity.
  - apply (U_to_le_bytes_value w n); assumption.
  - apply (U_to_be_bytes_value w n); assumption.
  - apply (I_to_le_bytes_signed_value w n); assumption.
  - unfold I_to_be_bytes. rewrite U_to_be_bytes_rev, <- le_signed_value_rev, rev_involutive.
    apply (I_to_le_bytes_signed_value w n); assumption.
Qed.

Theorem from_le_slice_is_be_on_rev w n bs : width_ok w ->
  U_from_le_slice w n bs = U_from_be_slice w n (rev bs) /\
  I_from_le_slice w n bs = I_from_be_slice w n (rev bs).
Proof.
  intros Hw. rewrite U_from_be_slice_rev, I_from_be_slice_rev, rev_involutive by assumption. split; reflexivity.
Qed.

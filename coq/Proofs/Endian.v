From Bnum Require Import Base Prim.
From Bnum.Model Require Import Core Shift Bits Endian.

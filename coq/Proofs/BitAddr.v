(* Proofs/BitAddr.v — general facts about the little-endian digit-list
   denotation: bit addressing, slicing (firstn / skipn / app / repeat / rev),
   disjoint `lor` = `+`, and powers of two.  Depends only on Base.v. *)
From Bnum Require Import Base.

Local Open Scope Z_scope.

(* ---------- powers of two ---------- *)

Lemma pow2_pos k : 0 <= k -> 0 < 2 ^ k.
Proof. intros; apply Z.pow_pos_nonneg; lia. Qed.

Lemma pow2_split a b : 0 <= a -> 0 <= b -> 2 ^ (a + b) = 2 ^ a * 2 ^ b.
Proof. intros; apply Z.pow_add_r; lia. Qed.

Lemma pow2_le_mono a b : 0 <= a <= b -> 2 ^ a <= 2 ^ b.
Proof. intros; apply Z.pow_le_mono_r; lia. Qed.

Lemma pow2_div a b : 0 <= b <= a -> 2 ^ a / 2 ^ b = 2 ^ (a - b).
Proof.
  intros H. replace a with ((a - b) + b) at 1 by lia.
  rewrite pow2_split by lia. apply Z.div_mul. pose proof (pow2_pos b); lia.
Qed.

Lemma Mod_as_pow w n : Mod w n = 2 ^ (w * Z.of_nat n).
Proof. reflexivity. Qed.

Lemma Mod_add w a b : 0 <= w -> Mod w (a + b) = Mod w a * Mod w b.
Proof.
  intros Hw. unfold Mod. rewrite <- Z.pow_add_r by lia. f_equal. lia.
Qed.

Lemma Mod_1 w : Mod w 1 = B w.
Proof. unfold Mod, B. f_equal. lia. Qed.

(* ---------- disjoint lor is addition ---------- *)

Lemma land_shifted_small k a b : 0 <= k -> 0 <= a < 2 ^ k -> Z.land (b * 2 ^ k) a = 0.
Proof.
  intros Hk Ha. apply Z.bits_inj'. intros i Hi.
  rewrite Z.land_spec, Z.bits_0.
  destruct (Z.lt_ge_cases i k) as [Hlt|Hge].
  - rewrite Z.mul_pow2_bits_low by lia. reflexivity.
  - rewrite <- (Z.mod_small a (2 ^ k)) by lia.
    rewrite Z.mod_pow2_bits_high by lia. apply andb_false_r.
Qed.

Lemma lor_disjoint_add k a b : 0 <= k -> 0 <= a < 2 ^ k -> Z.lor (b * 2 ^ k) a = b * 2 ^ k + a.
Proof.
  intros Hk Ha. pose proof (land_shifted_small k a b Hk Ha) as H.
  rewrite <- Z.lxor_lor by exact H. symmetry. apply Z.add_nocarry_lxor. exact H.
Qed.

Lemma lor_disjoint_add' k a b : 0 <= k -> 0 <= a < 2 ^ k -> Z.lor a (b * 2 ^ k) = a + b * 2 ^ k.
Proof. intros. rewrite Z.lor_comm, lor_disjoint_add by assumption. lia. Qed.

(* ---------- Forall digit_ok through list surgery ---------- *)

Lemma Forall_firstn {A} (P : A -> Prop) k l : Forall P l -> Forall P (firstn k l).
Proof.
  intros H. rewrite <- (firstn_skipn k l) in H. apply Forall_app in H. tauto.
Qed.

Lemma Forall_skipn {A} (P : A -> Prop) k l : Forall P l -> Forall P (skipn k l).
Proof.
  intros H. rewrite <- (firstn_skipn k l) in H. apply Forall_app in H. tauto.
Qed.

Lemma Forall_repeat {A} (P : A -> Prop) x k : P x -> Forall P (repeat x k).
Proof. intros H. induction k; cbn [repeat]; constructor; auto. Qed.

Lemma digit_ok_0 w : 0 <= w -> digit_ok w 0.
Proof. intros H. unfold digit_ok. pose proof (B_pos w H). lia. Qed.

Lemma digit_ok_max w : 0 <= w -> digit_ok w (B w - 1).
Proof. intros H. unfold digit_ok. pose proof (B_pos w H). lia. Qed.

Lemma wf_self w ds : Forall (digit_ok w) ds -> wf w (length ds) ds.
Proof. intros; split; auto. Qed.

Lemma wf_Forall w n ds : wf w n ds -> Forall (digit_ok w) ds.
Proof. intros [_ H]; exact H. Qed.

Lemma uval_bounds_F w ds : 0 <= w -> Forall (digit_ok w) ds -> 0 <= uval w ds < Mod w (length ds).
Proof. intros Hw H. apply uval_bounds; auto using wf_self. Qed.

(* ---------- values of slices ---------- *)

Lemma uval_repeat_0 w k : uval w (repeat 0 k) = 0.
Proof. induction k; cbn [repeat uval]; [reflexivity | rewrite IHk; lia]. Qed.

Lemma uval_repeat_max w k : 0 <= w -> uval w (repeat (B w - 1) k) = Mod w k - 1.
Proof.
  intros Hw. induction k; cbn [repeat uval].
  - rewrite Mod_0. reflexivity.
  - rewrite IHk, Mod_S by lia. ring.
Qed.

Lemma uval_split w k ds : 0 <= w -> (k <= length ds)%nat ->
  uval w ds = uval w (firstn k ds) + Mod w k * uval w (skipn k ds).
Proof.
  intros Hw Hk. rewrite <- (firstn_skipn k ds) at 1.
  rewrite uval_app, firstn_length_le by auto. reflexivity.
Qed.

Lemma uval_firstn w k ds : 0 <= w -> (k <= length ds)%nat -> Forall (digit_ok w) ds ->
  uval w (firstn k ds) = uval w ds mod Mod w k.
Proof.
  intros Hw Hk HF. rewrite (uval_split w k ds Hw Hk).
  pose proof (uval_bounds_F w (firstn k ds) Hw (Forall_firstn _ k _ HF)) as Hb.
  rewrite firstn_length_le in Hb by auto.
  rewrite (Z.mul_comm (Mod w k)), Z.mod_add by lia. symmetry. apply Z.mod_small. exact Hb.
Qed.

Lemma uval_skipn w k ds : 0 <= w -> (k <= length ds)%nat -> Forall (digit_ok w) ds ->
  uval w (skipn k ds) = uval w ds / Mod w k.
Proof.
  intros Hw Hk HF. rewrite (uval_split w k ds Hw Hk).
  pose proof (uval_bounds_F w (firstn k ds) Hw (Forall_firstn _ k _ HF)) as Hb.
  rewrite firstn_length_le in Hb by auto.
  rewrite (Z.mul_comm (Mod w k)), Z.div_add by lia.
  rewrite Z.div_small by exact Hb. lia.
Qed.

Lemma uval_snoc w l a : 0 <= w -> uval w (l ++ [a]) = uval w l + Mod w (length l) * a.
Proof. intros Hw. rewrite uval_app by auto. cbn [uval]. f_equal. ring. Qed.

(* most significant digit *)
Lemma uval_last w ds : 0 <= w -> ds <> [] ->
  uval w ds = uval w (removelast ds) + Mod w (length ds - 1) * last ds 0.
Proof.
  intros Hw Hne. rewrite (app_removelast_last 0 Hne) at 1.
  rewrite uval_snoc by auto. do 2 f_equal.
  rewrite (app_removelast_last 0 Hne) at 2. rewrite app_length. cbn [length]. f_equal. lia.
Qed.

(* ---------- bit addressing ---------- *)

Lemma testbit_uval_cons_low w d r i : 0 <= w -> 0 <= d < B w -> 0 <= i < w ->
  Z.testbit (uval w (d :: r)) i = Z.testbit d i.
Proof.
  intros Hw Hd Hi. cbn [uval]. unfold B in *.
  rewrite <- (Z.mod_pow2_bits_low (d + 2 ^ w * uval w r) w i) by lia.
  rewrite (Z.mul_comm (2 ^ w)), Z.mod_add by (pose proof (pow2_pos w); lia).
  rewrite Z.mod_small by lia. reflexivity.
Qed.

Lemma testbit_uval_cons_high w d r i : 0 <= w -> 0 <= d < B w -> w <= i ->
  Z.testbit (uval w (d :: r)) i = Z.testbit (uval w r) (i - w).
Proof.
  intros Hw Hd Hi. cbn [uval]. unfold B in *.
  replace i with ((i - w) + w) at 1 by lia.
  rewrite <- Z.div_pow2_bits by lia.
  rewrite (Z.mul_comm (2 ^ w)), Z.div_add by (pose proof (pow2_pos w); lia).
  rewrite Z.div_small by lia. f_equal.
Qed.

(* bit i of the number is bit (i mod w) of digit (i / w); past the end nth
   yields the default 0 whose bits are all false *)
Theorem testbit_uval w ds i : 0 < w -> Forall (digit_ok w) ds -> 0 <= i ->
  Z.testbit (uval w ds) i = Z.testbit (nth (Z.to_nat (i / w)) ds 0) (i mod w).
Proof.
  intros Hw HF. revert i. induction HF as [|d r Hd HF IH]; intros i Hi.
  - cbn [uval]. rewrite Z.bits_0. destruct (Z.to_nat (i / w)); cbn [nth]; rewrite Z.bits_0; reflexivity.
  - destruct (Z.lt_ge_cases i w) as [Hlt|Hge].
    + rewrite testbit_uval_cons_low by (auto; lia).
      rewrite Z.div_small, Z.mod_small by lia. reflexivity.
    + rewrite testbit_uval_cons_high by (auto; lia).
      rewrite IH by lia.
      replace i with ((i - w) + 1 * w) at 3 4 by lia.
      rewrite Z.div_add, Z.mod_add by lia.
      assert (0 <= (i - w) / w) by (apply Z.div_pos; lia).
      rewrite Z2Nat.inj_add by lia. change (Z.to_nat 1) with 1%nat.
      rewrite Nat.add_1_r. reflexivity.
Qed.

Corollary testbit_uval_wf w n ds i : 0 < w -> wf w n ds -> 0 <= i ->
  Z.testbit (uval w ds) i = Z.testbit (nth (Z.to_nat (i / w)) ds 0) (i mod w).
Proof. intros Hw [_ HF]. apply testbit_uval; auto. Qed.

Corollary testbit_uval_high w n ds i : 0 < w -> wf w n ds -> bits w n <= i ->
  Z.testbit (uval w ds) i = false.
Proof.
  intros Hw Hwf Hi. unfold bits in Hi.
  assert (0 <= i) by nia.
  rewrite (testbit_uval_wf w n) by auto.
  rewrite nth_overflow; [apply Z.bits_0|].
  rewrite (wf_length _ _ _ Hwf).
  assert (Z.of_nat n <= i / w) by (apply Z.div_le_lower_bound; lia). lia.
Qed.

(* a digit extracted arithmetically *)
Lemma nth_uval w ds k : 0 <= w -> Forall (digit_ok w) ds -> (k < length ds)%nat ->
  nth k ds 0 = (uval w ds / Mod w k) mod B w.
Proof.
  intros Hw HF. revert k. induction HF as [|d r Hd HF IH]; intros k Hk; cbn [length] in Hk; [lia|].
  pose proof (B_pos w Hw) as HB. unfold digit_ok in Hd.
  destruct k as [|k]; cbn [nth uval].
  - rewrite Mod_0, Z.div_1_r. rewrite (Z.mul_comm (B w)), Z.mod_add by lia.
    symmetry; apply Z.mod_small; lia.
  - rewrite IH by lia. rewrite Mod_S by lia.
    rewrite <- Z.div_div by (try apply Mod_pos; lia).
    rewrite (Z.mul_comm (B w) (uval w r)), Z.div_add by lia.
    rewrite (Z.div_small d) by lia. rewrite Z.add_0_l. reflexivity.
Qed.

(* Proofs/Convert.v — C13: the checked conversions of Model/Convert.v succeed exactly when the value is
   representable, for all digit widths, digit counts and inputs.  Uses the cast theorems of Proofs/Cast.v (C09)
   and the leading_zeros / leading_ones theorems of Proofs/Bits.v (C06). *)
From Bnum Require Import Base Prim.
From Bnum.Model Require Import Core Bits Cast Convert.
From Bnum.Proofs Require Import BitsLemmas Bits CastLemmas Cast.
Local Open Scope Z_scope.

(* ================================================================== *)
(** * 1. The control combinators of Model/Convert.v *)

Lemma while_ext {St : Type} (c1 c2 : nat -> St -> bool) (b1 b2 : nat -> St -> outcome St) :
  (forall i s, c1 i s = c2 i s) -> (forall i s, b1 i s = b2 i s) ->
  forall fuel i s, while_ fuel c1 b1 i s = while_ fuel c2 b2 i s.
Proof.
  intros Hc Hb. induction fuel as [|f IH]; intros i s; cbn [while_]; [reflexivity|].
  rewrite Hc, Hb. destruct (c2 i s); [|reflexivity]. destruct (b2 i s); cbn [obind]; auto.
Qed.

(* where `loop_i` stops depends on the break test only *)
Fixpoint first_brk (fuel : nat) (brk : nat -> bool) (i : nat) : nat :=
  match fuel with
  | O => i
  | S f => if brk i then i else first_brk f brk (S i)
  end.

Lemma loop_i_while {St : Type} fuel brk (body : nat -> St -> outcome St) i s :
  loop_i fuel brk body i s =
  omap (fun s' => (s', first_brk fuel brk i)) (while_ fuel (fun i _ => negb (brk i)) body i s).
Proof.
  revert i s. induction fuel as [|f IH]; intros i s; cbn [loop_i while_ first_brk]; [reflexivity|].
  destruct (brk i); cbn [negb omap]; [reflexivity|].
  destruct (body i s); cbn [obind omap]; auto.
Qed.

Lemma first_brk_props fuel brk i :
  let j := first_brk fuel brk i in
  (i <= j <= i + fuel)%nat /\ (forall k, (i <= k < j)%nat -> brk k = false) /\
  (brk j = true \/ j = (i + fuel)%nat).
Proof.
  revert i. induction fuel as [|f IH]; intros i; cbn [first_brk].
  - split; [lia|]. split; [intros; lia | right; lia].
  - destruct (brk i) eqn:E.
    + split; [lia|]. split; [intros; lia | left; exact E].
    + destruct (IH (S i)) as (H1 & H2 & H3). split; [lia|]. split.
      * intros k Hk. destruct (Nat.eq_dec k i) as [->|]; [exact E | apply H2; lia].
      * destruct H3; [left; assumption | right; lia].
Qed.

Lemma skipn_nth_cons (l : list Z) i : (i < length l)%nat -> skipn i l = nth i l 0 :: skipn (S i) l.
Proof.
  revert i. induction l as [|x l IH]; intros i Hi; cbn [length] in Hi; [lia|].
  destruct i; [reflexivity|]. cbn [skipn nth]. rewrite IH by lia. reflexivity.
Qed.

Lemma pad_loop_ok ds padding fuel i : (length ds <= i + fuel)%nat ->
  pad_loop fuel ds padding i = Ret (forallb (fun d => d =? padding) (skipn i ds)).
Proof.
  revert i. induction fuel as [|f IH]; intros i Hf; cbn [pad_loop].
  - rewrite skipn_all2 by lia. reflexivity.
  - destruct (Nat.ltb_spec i (length ds)) as [Hlt | Hge].
    + rewrite rd_ok by lia. cbn [obind]. rewrite (skipn_nth_cons ds i Hlt). cbn [forallb].
      destruct (nth i ds 0 =? padding); cbn [negb andb]; [apply IH; lia | reflexivity].
    + rewrite skipn_all2 by lia. reflexivity.
Qed.

(* ================================================================== *)
(** * 2. "All digits from position j upwards are the padding digit", on the value *)

Lemma all_zero_uval w l : 0 <= w -> Forall (digit_ok w) l ->
  forallb (fun d => d =? 0) l = (uval w l =? 0).
Proof.
  intros Hw. induction l as [|d r IH]; intros HF; cbn [forallb uval]; [reflexivity|].
  inversion HF as [|x l' Hd Hr]; subst. rewrite (IH Hr). unfold digit_ok in Hd.
  pose proof (B_pos w Hw) as HB.
  assert (Hu : 0 <= uval w r) by (apply (uval_bounds w (length r)); [lia | split; auto]).
  destruct (Z.eqb_spec d 0), (Z.eqb_spec (uval w r) 0), (Z.eqb_spec (d + B w * uval w r) 0);
    cbn [andb]; try reflexivity; nia.
Qed.

Lemma all_max_uval w l : 0 <= w -> Forall (digit_ok w) l ->
  forallb (fun d => d =? u_max w) l = (uval w l =? Mod w (length l) - 1).
Proof.
  intros Hw. induction l as [|d r IH]; intros HF; cbn [forallb uval length].
  - rewrite Mod_0. reflexivity.
  - inversion HF as [|x l' Hd Hr]; subst. rewrite (IH Hr). unfold digit_ok in Hd. unfold u_max.
    pose proof (B_pos w Hw) as HB. rewrite Mod_S by lia.
    assert (Hu : 0 <= uval w r < Mod w (length r)) by (apply uval_bounds; [lia | split; auto]).
    destruct (Z.eqb_spec d (B w - 1)), (Z.eqb_spec (uval w r) (Mod w (length r) - 1)),
      (Z.eqb_spec (d + B w * uval w r) (B w * Mod w (length r) - 1));
      cbn [andb]; try reflexivity; nia.
Qed.

Lemma split_at w n ds j : 0 < w -> wf w n ds -> (j <= n)%nat ->
  wf w (n - j) (skipn j ds) /\ uval w (skipn j ds) = uval w ds / Mod w j.
Proof.
  intros Hw Hwf Hj. destruct (uval_firstn w n ds j Hw Hwf Hj) as [Hf Ef].
  assert (Hs : wf w (n - j) (skipn j ds)).
  { destruct Hwf as [Hl HF]. split; [rewrite skipn_length; lia|].
    rewrite <- (firstn_skipn j ds) in HF. apply Forall_app in HF. tauto. }
  split; [exact Hs|].
  pose proof (uval_app w (firstn j ds) (skipn j ds) ltac:(lia)) as E.
  rewrite firstn_skipn in E. rewrite (wf_length _ _ _ Hf) in E.
  pose proof (Mod_pos w j ltac:(lia)) as HM.
  pose proof (uval_bounds w j _ ltac:(lia) Hf) as Hb.
  rewrite E. rewrite (Z.mul_comm (Mod w j)), Z.div_add by lia. rewrite Z.div_small by lia. lia.
Qed.

(* zero padding above digit j  <->  the value is below 2^(w j) *)
Lemma pad_zero_ok w n ds j : 0 < w -> wf w n ds -> (j <= n)%nat ->
  forallb (fun d => d =? 0) (skipn j ds) = (uval w ds <? 2 ^ (w * Z.of_nat j)).
Proof.
  intros Hw Hwf Hj. destruct (split_at w n ds j Hw Hwf Hj) as [Hs Es].
  rewrite (all_zero_uval w) by (try lia; apply Hs). rewrite Es.
  pose proof (uval_bounds w n ds ltac:(lia) Hwf) as Hb.
  pose proof (Mod_pos w j ltac:(lia)) as HM. unfold Mod in *.
  destruct (Z.ltb_spec (uval w ds) (2 ^ (w * Z.of_nat j))) as [Hlt | Hge].
  - rewrite Z.div_small by lia. reflexivity.
  - apply Z.eqb_neq. intros E. apply Z.div_small_iff in E; lia.
Qed.

(* MAX padding above digit j  <->  the value is at least 2^(w n) - 2^(w j) *)
Lemma pad_max_ok w n ds j : 0 < w -> wf w n ds -> (j <= n)%nat ->
  forallb (fun d => d =? u_max w) (skipn j ds) = (Mod w n - 2 ^ (w * Z.of_nat j) <=? uval w ds).
Proof.
  intros Hw Hwf Hj. destruct (split_at w n ds j Hw Hwf Hj) as [Hs Es].
  rewrite (all_max_uval w) by (try lia; apply Hs). rewrite Es, (wf_length _ _ _ Hs).
  pose proof (uval_bounds w n ds ltac:(lia) Hwf) as Hb.
  pose proof (Mod_pos w j ltac:(lia)) as HM. pose proof (Mod_pos w (n - j) ltac:(lia)) as HM'.
  assert (EM : Mod w n = Mod w j * Mod w (n - j)) by (apply Mod_split; lia).
  change (2 ^ (w * Z.of_nat j)) with (Mod w j).
  set (X := uval w ds) in *. set (A := Mod w j) in *. set (C := Mod w (n - j)) in *.
  pose proof (Z.div_mod X A ltac:(lia)) as Ed. pose proof (Z.mod_pos_bound X A ltac:(lia)) as Hm.
  assert (Hq : X / A < C) by (apply Z.div_lt_upper_bound; lia).
  destruct (Z.leb_spec (Mod w n - A) X) as [Hle | Hgt]; destruct (Z.eqb_spec (X / A) (C - 1)); try reflexivity; nia.
Qed.

(* ================================================================== *)
(** * 3. The assembling loops of try_from_buint! / int_try_from_bint! are those of the `as` casts *)

Lemma try_brk_cond pb w n i (s : Z) : negb (try_brk pb w n i) = as_int_cond pb w n i s.
Proof.
  unfold try_brk, as_int_cond.
  destruct (Nat.leb_spec n i), (Z.leb_spec pb (Z.of_nat i * w)), (Z.ltb_spec (Z.of_nat i * w) pb), (Nat.ltb_spec i n);
    cbn [orb andb negb]; try reflexivity; lia.
Qed.

Lemma try_or_loop_ok dbg pb w n ds : 0 < w -> 0 < pb -> wf w n ds ->
  loop_i n (try_brk pb w n) (try_or_body dbg pb w ds) 0%nat 0 =
  Ret (uval w ds mod 2 ^ pb, first_brk n (try_brk pb w n) 0%nat).
Proof.
  intros Hw Hpb Hwf. rewrite loop_i_while.
  pose proof (U_as_int_bits_ok dbg pb w n ds Hw Hpb Hwf) as H. unfold U_as_int_bits in H.
  rewrite (wf_length _ _ _ Hwf) in H.
  rewrite (while_ext _ (as_int_cond pb w n) _
             (fun i out => obind (rd ds i) (fun d =>
                           obind (shl_chk dbg pb (ud pb d) (Z.of_nat i * w)) (fun t => Ret (u_or out t))))).
  - rewrite H. reflexivity.
  - intros i s. apply try_brk_cond.
  - intros i s. reflexivity.
Qed.

Lemma try_and_loop_ok dbg pb w n ds : 0 < w -> 0 < pb -> (0 < n)%nat -> wf w n ds -> is_negative w ds = true ->
  loop_i n (try_brk pb w n) (try_and_body dbg pb w ds) 0%nat (u_not pb 0) =
  Ret (sval w ds mod 2 ^ pb, first_brk n (try_brk pb w n) 0%nat).
Proof.
  intros Hw Hpb Hn Hwf Hneg. rewrite loop_i_while.
  pose proof (I_as_int_bits_ok dbg pb w n ds Hw Hpb Hn Hwf) as H. unfold I_as_int_bits in H.
  rewrite Hneg, (wf_length _ _ _ Hwf) in H.
  rewrite (while_ext _ (as_int_cond pb w n) _
             (fun i out => obind (rd ds i) (fun d =>
                           obind (shl_chk dbg pb (ud pb (u_not w d)) (Z.of_nat i * w)) (fun t =>
                           Ret (u_and out (u_not pb t)))))).
  - rewrite H. reflexivity.
  - intros i s. apply try_brk_cond.
  - intros i s. reflexivity.
Qed.

(* where the assembling loop stops: after the digits that cover min(BITS of the source, BITS of the primitive) *)
Lemma try_first_ok pb w n : 0 < w -> 0 < pb -> (w | pb) ->
  let j := first_brk n (try_brk pb w n) 0%nat in
  (j <= n)%nat /\ w * Z.of_nat j = Z.min (bits w n) pb.
Proof.
  intros Hw Hpb [q Hq] j. destruct (first_brk_props n (try_brk pb w n) 0%nat) as (H1 & H2 & H3). fold j in H1, H2, H3.
  split; [lia|]. unfold bits.
  assert (Hq0 : 0 < q) by nia.
  assert (Hbrk : try_brk pb w n j = true \/ j = n) by (destruct H3; [left; assumption | right; lia]).
  assert (Hprev : (0 < j)%nat -> (j - 1 < n)%nat /\ Z.of_nat (j - 1) * w < pb).
  { intros Hj. specialize (H2 (j - 1)%nat ltac:(lia)). unfold try_brk in H2.
    apply orb_false_iff in H2. destruct H2 as [A C]. apply Nat.leb_gt in A. apply Z.leb_gt in C. lia. }
  destruct (Nat.eq_dec j 0) as [Ej | Ej].
  - (* no iteration: n = 0 *)
    destruct Hbrk as [Hb | Hb].
    + unfold try_brk in Hb. rewrite Ej in Hb. apply orb_true_iff in Hb. destruct Hb as [A | C].
      * apply Nat.leb_le in A. rewrite Ej. replace n with 0%nat by lia. lia.
      * apply Z.leb_le in C. lia.
    + rewrite Ej, <- Hb, Ej. lia.
  - destruct (Hprev ltac:(lia)) as [P1 P2].
    assert (Hjq : Z.of_nat j <= q) by nia.
    destruct Hbrk as [Hb | Hb].
    + unfold try_brk in Hb. apply orb_true_iff in Hb. destruct Hb as [A | C].
      * apply Nat.leb_le in A. assert (Ejn : Z.of_nat j = Z.of_nat n) by lia. clearbody j. nia.
      * apply Z.leb_le in C. assert (Z.of_nat j = q) by nia. nia.
    + assert (Ejn : Z.of_nat j = Z.of_nat n) by lia. clearbody j. nia.
Qed.

(* ================================================================== *)
(** * 4. Representability as a boolean, and the value-level case analyses *)

Definition prim_inb (pb : Z) (ps : bool) (v : Z) : bool :=
  if ps then (- 2 ^ (pb - 1) <=? v) && (v <? 2 ^ (pb - 1)) else (0 <=? v) && (v <? 2 ^ pb).

Lemma prim_inb_spec pb ps v : prim_inb pb ps v = true <-> prim_range pb ps v.
Proof.
  unfold prim_inb, prim_range. destruct ps; rewrite andb_true_iff, Z.leb_le, Z.ltb_lt; tauto.
Qed.

Lemma pow2_half pb : 0 < pb -> 2 ^ pb = 2 * 2 ^ (pb - 1) /\ 2 ^ pb / 2 = 2 ^ (pb - 1) /\ 0 < 2 ^ (pb - 1).
Proof.
  intros Hpb. assert (E : 2 ^ pb = 2 * 2 ^ (pb - 1)).
  { replace pb with (1 + (pb - 1)) at 1 by lia. rewrite pow2_add by lia. reflexivity. }
  split; [exact E|]. split; [rewrite E, Z.mul_comm, Z.div_mul by lia; reflexivity | apply pow2_pos; lia].
Qed.

(* reading a pattern below 2^pb as a signed value *)
Lemma sd_cases pb x : 0 < pb -> 0 <= x < 2 ^ pb ->
  (x < 2 ^ (pb - 1) /\ sd pb x = x) \/ (2 ^ (pb - 1) <= x /\ sd pb x = x - 2 ^ pb).
Proof.
  intros Hpb Hx. destruct (pow2_half pb Hpb) as (E & Eh & Hh).
  unfold sd, to_signed. change (B pb) with (2 ^ pb). rewrite Eh.
  destruct (Z.ltb_spec x (2 ^ (pb - 1))); [left | right]; lia.
Qed.

Ltac bdestr :=
  repeat match goal with
  | |- context [?a <? ?b] => destruct (Z.ltb_spec a b)
  | |- context [?a <=? ?b] => destruct (Z.leb_spec a b)
  | |- context [?a =? ?b] => destruct (Z.eqb_spec a b)
  end; cbn [andb orb negb Bool.eqb].
Ltac res_eq := first [reflexivity | (f_equal; lia) | (exfalso; lia)].

(* try_from_buint!, loop branch: `out` holds the source value mod 2^pb, the padding test says X < 2^pb *)
Lemma U_tail_val pb ps X : 0 < pb -> 0 <= X ->
  (if ps && (sd pb (X mod 2 ^ pb) <? 0) then Err
   else if X <? 2 ^ pb then Ok (p_of_bits pb ps (X mod 2 ^ pb)) else Err)
  = if prim_inb pb ps X then Ok X else Err.
Proof.
  intros Hpb HX. destruct (pow2_half pb Hpb) as (E & Eh & Hh).
  pose proof (Z.mod_pos_bound X (2 ^ pb) ltac:(lia)) as Hr.
  unfold prim_inb, p_of_bits.
  destruct (Z.ltb_spec X (2 ^ pb)) as [Hlt | Hge].
  - rewrite Z.mod_small by lia.
    destruct (sd_cases pb X Hpb ltac:(lia)) as [[Hc Es] | [Hc Es]]; rewrite Es; destruct ps; cbn [andb];
      repeat match goal with |- context [?a <? ?b] => destruct (Z.ltb_spec a b) end;
      repeat match goal with |- context [?a <=? ?b] => destruct (Z.leb_spec a b) end;
      cbn [andb]; res_eq.
  - assert (EL : (if ps && (sd pb (X mod 2 ^ pb) <? 0) then @Err Z else Err) = Err)
      by (destruct (ps && (sd pb (X mod 2 ^ pb) <? 0)); reflexivity).
    rewrite EL. destruct ps; bdestr; res_eq.
Qed.

Lemma mod_neg_W s W : - W <= s < 0 -> s mod W = s + W.
Proof. intros. apply mod_intro with (q := -1); lia. Qed.

(* `x as $Digit` of a primitive value x in [-2^(pb-1), 2^pb), digit wider than the primitive *)
Lemma as_digit_cases pb w s : 0 < pb < w -> - 2 ^ (pb - 1) <= s < 2 ^ pb ->
  s mod 2 ^ w = if s <? 0 then s + 2 ^ w else s.
Proof.
  intros Hpb Hs. destruct (pow2_half pb ltac:(lia)) as (E & _ & Hh).
  pose proof (pow2_lt pb w ltac:(lia)) as HPW.
  destruct (Z.ltb_spec s 0); [apply mod_neg_W; lia | apply Z.mod_small; lia].
Qed.

Ltac all_err :=
  repeat match goal with |- context [if ?c then _ else _] => destruct c end; reflexivity.

(* try_from_buint!, branch `Digit::BITS > int::BITS`, unsigned source of value X *)
Lemma U_tailA_val pb ps w X : 0 < pb < w -> 0 <= X ->
  let d0 := X mod 2 ^ w in
  let small := d0 mod 2 ^ pb in
  (if negb (d0 =? (p_of_bits pb ps small) mod 2 ^ w) then Err
   else if ps && (sd pb small <? 0) then Err
   else if X <? 2 ^ w then Ok (p_of_bits pb ps small) else Err)
  = if prim_inb pb ps X then Ok X else Err.
Proof.
  intros Hpb HX d0 small. destruct (pow2_half pb ltac:(lia)) as (E & Eh & Hh).
  pose proof (pow2_lt pb w ltac:(lia)) as HPW.
  assert (Esm : small = X mod 2 ^ pb) by (unfold small, d0; apply mod_mod_pow2; lia).
  pose proof (Z.mod_pos_bound X (2 ^ pb) ltac:(lia)) as Hr. rewrite <- Esm in Hr.
  destruct (Z.ltb_spec X (2 ^ w)) as [HltW | HgeW].
  2: { assert (EP : prim_inb pb ps X = false).
       { unfold prim_inb. destruct ps; bdestr; try reflexivity; lia. }
       rewrite EP. all_err. }
  assert (Ed0 : d0 = X) by (unfold d0; apply Z.mod_small; lia).
  assert (Hsm : X < 2 ^ pb -> small = X) by (intros; rewrite Esm; apply Z.mod_small; lia).
  assert (Hsm' : 2 ^ pb <= X -> small <> X) by lia.
  clearbody small d0. subst d0.
  assert (Et : p_of_bits pb ps small mod 2 ^ w =
               if p_of_bits pb ps small <? 0 then p_of_bits pb ps small + 2 ^ w else p_of_bits pb ps small).
  { apply (as_digit_cases pb); [lia|]. unfold p_of_bits. destruct ps; [|lia].
    destruct (sd_cases pb small ltac:(lia) Hr) as [[? ->] | [? ->]]; lia. }
  rewrite Et. unfold prim_inb, p_of_bits.
  destruct (sd_cases pb small ltac:(lia) Hr) as [[Hc Es] | [Hc Es]]; rewrite ?Es; destruct ps; cbn [andb];
    destruct (Z.ltb_spec X (2 ^ pb)); try (rewrite (Hsm ltac:(lia)) in *); try specialize (Hsm' ltac:(lia));
    bdestr; res_eq.
Qed.

(* ================================================================== *)
(** * 5. TryFrom<BUint<N>> for the primitive integers *)

Theorem U_try_to_prim_ok dbg pb ps w n ds :
  0 < w -> 0 < pb -> (0 < n)%nat -> pb < w \/ (w | pb) -> wf w n ds ->
  U_try_to_prim dbg pb ps w ds = Ret (if prim_inb pb ps (uval w ds) then Ok (uval w ds) else Err).
Proof.
  intros Hw Hpb Hn Hdiv Hwf. unfold U_try_to_prim. rewrite (wf_length _ _ _ Hwf).
  pose proof (uval_bounds w n ds ltac:(lia) Hwf) as HX. set (X := uval w ds) in *.
  destruct (Z.ltb_spec pb w) as [Hlt | Hge].
  - (* the low digit alone *)
    rewrite rd_ok by (rewrite (wf_length _ _ _ Hwf); lia). cbn [obind].
    rewrite (nth_bf w n ds 0 Hw Hwf Hn). fold X. change (Z.of_nat 0) with 0. rewrite Z.mul_0_r.
    unfold bf. rewrite Z.pow_0_r, Z.div_1_r. unfold ud, B.
    rewrite <- (U_tailA_val pb ps w X) by lia. cbv zeta.
    destruct (negb (X mod 2 ^ w =? p_of_bits pb ps ((X mod 2 ^ w) mod 2 ^ pb) mod 2 ^ w)); [reflexivity|].
    unfold U_try_tail. destruct (ps && (sd pb ((X mod 2 ^ w) mod 2 ^ pb) <? 0)); [reflexivity|].
    rewrite (wf_length _ _ _ Hwf), pad_loop_ok by (rewrite (wf_length _ _ _ Hwf); lia). cbn [obind].
    rewrite (pad_zero_ok w n ds 1 Hw Hwf ltac:(lia)). fold X. change (Z.of_nat 1) with 1. rewrite Z.mul_1_r.
    reflexivity.
  - (* the assembling loop *)
    destruct Hdiv as [Hlt | Hdiv]; [lia|].
    rewrite (try_or_loop_ok dbg pb w n ds Hw Hpb Hwf). cbn [obind fst snd]. fold X.
    destruct (try_first_ok pb w n Hw Hpb Hdiv) as [Hj Ej]. set (j := first_brk n (try_brk pb w n) 0%nat) in *.
    rewrite <- (U_tail_val pb ps X) by lia. unfold U_try_tail.
    destruct (ps && (sd pb (X mod 2 ^ pb) <? 0)); [reflexivity|].
    rewrite (wf_length _ _ _ Hwf), pad_loop_ok by (rewrite (wf_length _ _ _ Hwf); lia). cbn [obind].
    rewrite (pad_zero_ok w n ds j Hw Hwf Hj). fold X. rewrite Ej.
    assert (Epad : (X <? 2 ^ Z.min (bits w n) pb) = (X <? 2 ^ pb)).
    { unfold Mod in HX. unfold bits. destruct (Z.min_spec (w * Z.of_nat n) pb) as [[Hm ->] | [Hm ->]]; [|reflexivity].
      pose proof (pow2_le (w * Z.of_nat n) pb ltac:(nia)).
      destruct (Z.ltb_spec X (2 ^ (w * Z.of_nat n))), (Z.ltb_spec X (2 ^ pb)); try reflexivity; lia. }
    rewrite Epad. reflexivity.
Qed.

(* ================================================================== *)
(** * 6. TryFrom<BInt<N>> for the primitive integers *)

Definition i_tail_pure (pb : Z) (fell_through neg : bool) (out : Z) : result Z :=
  if negb fell_through then Err
  else if negb (Bool.eqb (sd pb out <? 0) neg) then Err
  else Ok (p_of_bits pb true out).

Lemma I_try_tail_pure pb ds neg padding out i ft :
  pad_loop (length ds) ds padding i = Ret ft ->
  I_try_tail pb ds neg padding out i = Ret (i_tail_pure pb ft neg out).
Proof.
  intros H. unfold I_try_tail, i_tail_pure. rewrite H. cbn [obind].
  destruct (negb ft); [reflexivity|]. destruct (negb (Bool.eqb (sd pb out <? 0) neg)); reflexivity.
Qed.

Lemma I_tailB_pos pb X : 0 < pb -> 0 <= X ->
  i_tail_pure pb (X <? 2 ^ pb) false (X mod 2 ^ pb) = if prim_inb pb true X then Ok X else Err.
Proof.
  intros Hpb HX. destruct (pow2_half pb Hpb) as (E & Eh & Hh).
  unfold i_tail_pure, prim_inb, p_of_bits.
  destruct (Z.ltb_spec X (2 ^ pb)) as [Hlt | Hge]; cbn [negb].
  - rewrite Z.mod_small by lia.
    destruct (sd_cases pb X Hpb ltac:(lia)) as [[Hc Es] | [Hc Es]]; rewrite Es; bdestr; res_eq.
  - bdestr; res_eq.
Qed.

Lemma I_tailB_neg pb S : 0 < pb -> S < 0 ->
  i_tail_pure pb (- 2 ^ pb <=? S) true (S mod 2 ^ pb) = if prim_inb pb true S then Ok S else Err.
Proof.
  intros Hpb HS. destruct (pow2_half pb Hpb) as (E & Eh & Hh).
  unfold i_tail_pure, prim_inb, p_of_bits.
  destruct (Z.leb_spec (- 2 ^ pb) S) as [Hle | Hgt]; cbn [negb].
  - rewrite (mod_neg_W S (2 ^ pb)) by lia.
    destruct (sd_cases pb (S + 2 ^ pb) Hpb ltac:(lia)) as [[Hc Es] | [Hc Es]]; rewrite Es; bdestr; res_eq.
  - bdestr; res_eq.
Qed.

Lemma I_tailA_pos pb w X : 0 < pb < w -> 0 <= X ->
  let d0 := X mod 2 ^ w in
  let small := d0 mod 2 ^ pb in
  (if negb (d0 =? (p_of_bits pb true small) mod 2 ^ w) then Err
   else i_tail_pure pb (X <? 2 ^ w) false small)
  = if prim_inb pb true X then Ok X else Err.
Proof.
  intros Hpb HX d0 small. destruct (pow2_half pb ltac:(lia)) as (E & Eh & Hh).
  pose proof (pow2_lt pb w ltac:(lia)) as HPW.
  assert (Esm : small = X mod 2 ^ pb) by (unfold small, d0; apply mod_mod_pow2; lia).
  pose proof (Z.mod_pos_bound X (2 ^ pb) ltac:(lia)) as Hr. rewrite <- Esm in Hr.
  unfold i_tail_pure.
  destruct (Z.ltb_spec X (2 ^ w)) as [HltW | HgeW]; cbn [negb].
  2: { assert (EP : prim_inb pb true X = false) by (unfold prim_inb; bdestr; try reflexivity; lia).
       rewrite EP. all_err. }
  assert (Ed0 : d0 = X) by (unfold d0; apply Z.mod_small; lia).
  assert (Hsm : X < 2 ^ pb -> small = X) by (intros; rewrite Esm; apply Z.mod_small; lia).
  assert (Hsm' : 2 ^ pb <= X -> small <> X) by lia.
  clearbody small d0. subst d0.
  assert (Et : p_of_bits pb true small mod 2 ^ w =
               if p_of_bits pb true small <? 0 then p_of_bits pb true small + 2 ^ w else p_of_bits pb true small).
  { apply (as_digit_cases pb); [lia|]. unfold p_of_bits.
    destruct (sd_cases pb small ltac:(lia) Hr) as [[? ->] | [? ->]]; lia. }
  rewrite Et. unfold prim_inb, p_of_bits.
  destruct (sd_cases pb small ltac:(lia) Hr) as [[Hc Es] | [Hc Es]]; rewrite ?Es;
    destruct (Z.ltb_spec X (2 ^ pb)); try (rewrite (Hsm ltac:(lia)) in *); try specialize (Hsm' ltac:(lia));
    bdestr; res_eq.
Qed.

(* negative source: X = M + S is the bit pattern, M = 2^BITS a multiple of 2^w *)
Lemma I_tailA_neg pb w M K X S : 0 < pb < w -> S < 0 -> 0 < K -> M = 2 ^ w * K -> X = M + S -> 0 <= X ->
  let d0 := X mod 2 ^ w in
  let small := d0 mod 2 ^ pb in
  (if negb (d0 =? (p_of_bits pb true small) mod 2 ^ w) then Err
   else i_tail_pure pb (M - 2 ^ w <=? X) true small)
  = if prim_inb pb true S then Ok S else Err.
Proof.
  intros Hpb HS HK EM EX HX d0 small. destruct (pow2_half pb ltac:(lia)) as (E & Eh & Hh).
  pose proof (pow2_lt pb w ltac:(lia)) as HPW. pose proof (pow2_pos w ltac:(lia)) as HW.
  assert (Esm : small = X mod 2 ^ pb) by (unfold small, d0; apply mod_mod_pow2; lia).
  pose proof (Z.mod_pos_bound X (2 ^ pb) ltac:(lia)) as Hr. rewrite <- Esm in Hr.
  unfold i_tail_pure.
  destruct (Z.leb_spec (M - 2 ^ w) X) as [Hle | Hgt]; cbn [negb].
  2: { assert (EP : prim_inb pb true S = false) by (unfold prim_inb; bdestr; try reflexivity; lia).
       rewrite EP. all_err. }
  assert (Ed0 : d0 = S + 2 ^ w).
  { unfold d0. apply mod_intro with (q := K - 1); lia. }
  assert (EWP : 2 ^ w = 2 ^ pb * 2 ^ (w - pb)) by (apply pow2_split; lia).
  pose proof (pow2_pos (w - pb) ltac:(lia)) as HWP.
  assert (Hsm : - 2 ^ pb <= S -> small = S + 2 ^ pb).
  { intros. rewrite Esm. apply mod_intro with (q := 2 ^ (w - pb) * K - 1); [lia|]. rewrite EX, EM, EWP. ring. }
  clearbody small d0. subst d0.
  assert (Et : p_of_bits pb true small mod 2 ^ w =
               if p_of_bits pb true small <? 0 then p_of_bits pb true small + 2 ^ w else p_of_bits pb true small).
  { apply (as_digit_cases pb); [lia|]. unfold p_of_bits.
    destruct (sd_cases pb small ltac:(lia) Hr) as [[? ->] | [? ->]]; lia. }
  rewrite Et. unfold prim_inb, p_of_bits.
  destruct (sd_cases pb small ltac:(lia) Hr) as [[Hc Es] | [Hc Es]]; rewrite ?Es;
    destruct (Z.leb_spec (- 2 ^ pb) S); try (rewrite (Hsm ltac:(lia)) in *);
    bdestr; res_eq.
Qed.

Theorem I_try_to_iprim_ok dbg pb w n ds :
  0 < w -> 0 < pb -> (0 < n)%nat -> pb < w \/ (w | pb) -> wf w n ds ->
  I_try_to_iprim dbg pb w ds = Ret (if prim_inb pb true (sval w ds) then Ok (sval w ds) else Err).
Proof.
  intros Hw Hpb Hn Hdiv Hwf. unfold I_try_to_iprim. rewrite (wf_length _ _ _ Hwf).
  pose proof (uval_bounds w n ds ltac:(lia) Hwf) as HX.
  pose proof (Mod_pos w n ltac:(lia)) as HM. pose proof (Mod_even w n Hw Hn) as HMe.
  assert (Hlen : length ds = n) by (apply (wf_length _ _ _ Hwf)).
  assert (Hd0 : nth 0 ds 0 = uval w ds mod 2 ^ w).
  { rewrite (nth_bf w n ds 0 Hw Hwf Hn). change (Z.of_nat 0) with 0. rewrite Z.mul_0_r.
    unfold bf. rewrite Z.pow_0_r, Z.div_1_r. reflexivity. }
  destruct (sval_cases w n ds Hw Hn Hwf) as [(Eneg & Es & Hlt) | (Eneg & Es & Hge)]; rewrite Eneg, Es;
    set (X := uval w ds) in *.
  - (* non-negative source *)
    destruct (Z.ltb_spec pb w) as [Hlt' | Hge'].
    + rewrite rd_ok by lia. cbn [obind]. rewrite Hd0. unfold ud, B.
      rewrite <- (I_tailA_pos pb w X) by lia. cbv zeta.
      destruct (negb (X mod 2 ^ w =? p_of_bits pb true ((X mod 2 ^ w) mod 2 ^ pb) mod 2 ^ w)); [reflexivity|].
      apply I_try_tail_pure. rewrite pad_loop_ok by lia. f_equal.
      rewrite (pad_zero_ok w n ds 1 Hw Hwf ltac:(lia)). fold X. change (Z.of_nat 1) with 1. rewrite Z.mul_1_r.
      reflexivity.
    + destruct Hdiv as [Hlt' | Hdiv]; [lia|].
      rewrite (try_or_loop_ok dbg pb w n ds Hw Hpb Hwf). cbn [obind fst snd]. fold X.
      destruct (try_first_ok pb w n Hw Hpb Hdiv) as [Hj Ej]. set (j := first_brk n (try_brk pb w n) 0%nat) in *.
      rewrite <- (I_tailB_pos pb X) by lia.
      apply I_try_tail_pure. rewrite pad_loop_ok by lia. f_equal.
      rewrite (pad_zero_ok w n ds j Hw Hwf Hj). fold X. rewrite Ej.
      unfold Mod in HX. unfold bits. destruct (Z.min_spec (w * Z.of_nat n) pb) as [[Hm ->] | [Hm ->]]; [|reflexivity].
      pose proof (pow2_le (w * Z.of_nat n) pb ltac:(nia)).
      destruct (Z.ltb_spec X (2 ^ (w * Z.of_nat n))), (Z.ltb_spec X (2 ^ pb)); try reflexivity; lia.
  - (* negative source *)
    set (Sv := X - Mod w n). assert (HS : Sv < 0) by (unfold Sv; lia).
    destruct (Z.ltb_spec pb w) as [Hlt' | Hge'].
    + rewrite rd_ok by lia. cbn [obind]. rewrite Hd0. unfold ud, B.
      assert (EMW : Mod w n = 2 ^ w * Mod w (n - 1)).
      { replace n with (S (n - 1)) at 1 by lia. rewrite Mod_S by lia. reflexivity. }
      pose proof (Mod_pos w (n - 1) ltac:(lia)) as HK.
      rewrite <- (I_tailA_neg pb w (Mod w n) (Mod w (n - 1)) X Sv) by (try lia; unfold Sv; lia). cbv zeta.
      destruct (negb (X mod 2 ^ w =? p_of_bits pb true ((X mod 2 ^ w) mod 2 ^ pb) mod 2 ^ w)); [reflexivity|].
      apply I_try_tail_pure. rewrite pad_loop_ok by lia. f_equal.
      rewrite (pad_max_ok w n ds 1 Hw Hwf ltac:(lia)). fold X. change (Z.of_nat 1) with 1. rewrite Z.mul_1_r.
      reflexivity.
    + destruct Hdiv as [Hlt' | Hdiv]; [lia|].
      rewrite (try_and_loop_ok dbg pb w n ds Hw Hpb Hn Hwf Eneg). cbn [obind fst snd].
      rewrite Es. fold X. fold Sv.
      destruct (try_first_ok pb w n Hw Hpb Hdiv) as [Hj Ej]. set (j := first_brk n (try_brk pb w n) 0%nat) in *.
      rewrite <- (I_tailB_neg pb Sv) by lia.
      apply I_try_tail_pure. rewrite pad_loop_ok by lia. f_equal.
      rewrite (pad_max_ok w n ds j Hw Hwf Hj). fold X. rewrite Ej.
      unfold Mod in *. unfold bits. unfold Sv.
      destruct (Z.min_spec (w * Z.of_nat n) pb) as [[Hm ->] | [Hm ->]].
      * pose proof (pow2_le (w * Z.of_nat n) pb ltac:(nia)).
        destruct (Z.leb_spec (2 ^ (w * Z.of_nat n) - 2 ^ (w * Z.of_nat n)) X),
          (Z.leb_spec (- 2 ^ pb) (X - 2 ^ (w * Z.of_nat n))); try reflexivity; lia.
      * destruct (Z.leb_spec (2 ^ (w * Z.of_nat n) - 2 ^ pb) X),
          (Z.leb_spec (- 2 ^ pb) (X - 2 ^ (w * Z.of_nat n))); try reflexivity; lia.
Qed.

Theorem I_try_to_uprim_ok dbg pb w n ds :
  0 < w -> 0 < pb -> (0 < n)%nat -> pb < w \/ (w | pb) -> wf w n ds ->
  I_try_to_uprim dbg pb w ds = Ret (if prim_inb pb false (sval w ds) then Ok (sval w ds) else Err).
Proof.
  intros Hw Hpb Hn Hdiv Hwf. unfold I_try_to_uprim, to_bits.
  pose proof (uval_bounds w n ds ltac:(lia) Hwf) as HX.
  destruct (sval_cases w n ds Hw Hn Hwf) as [(Eneg & Es & Hlt) | (Eneg & Es & Hge)]; rewrite Eneg, Es.
  - apply (U_try_to_prim_ok dbg pb false w n); assumption.
  - unfold prim_inb. destruct (Z.leb_spec 0 (uval w ds - Mod w n)); [lia | reflexivity].
Qed.

(* TryFrom<bnum> for prim: Ok(value) exactly when the value is in the primitive's range, Err otherwise;
   both code branches, signed and unsigned source *)
Theorem try_to_prim_ok dbg pb ps w n src_signed a :
  0 < w -> 0 < pb -> (0 < n)%nat -> pb < w \/ (w | pb) -> wf w n a ->
  try_to_prim dbg pb ps w src_signed a =
  Ret (if prim_inb pb ps (source_value src_signed w a) then Ok (source_value src_signed w a) else Err).
Proof.
  intros Hw Hpb Hn Hdiv Hwf. unfold try_to_prim, source_value. destruct src_signed.
  - destruct ps; [apply (I_try_to_iprim_ok dbg pb w n) | apply (I_try_to_uprim_ok dbg pb w n)]; assumption.
  - apply (U_try_to_prim_ok dbg pb ps w n); assumption.
Qed.

Theorem try_to_prim_in_range dbg pb ps w n src_signed a :
  0 < w -> 0 < pb -> (0 < n)%nat -> pb < w \/ (w | pb) -> wf w n a ->
  prim_range pb ps (source_value src_signed w a) ->
  try_to_prim dbg pb ps w src_signed a = Ret (Ok (source_value src_signed w a)).
Proof.
  intros Hw Hpb Hn Hdiv Hwf Hr. rewrite (try_to_prim_ok dbg pb ps w n) by assumption.
  apply prim_inb_spec in Hr. rewrite Hr. reflexivity.
Qed.

Theorem try_to_prim_out_of_range dbg pb ps w n src_signed a :
  0 < w -> 0 < pb -> (0 < n)%nat -> pb < w \/ (w | pb) -> wf w n a ->
  ~ prim_range pb ps (source_value src_signed w a) ->
  try_to_prim dbg pb ps w src_signed a = Ret Err.
Proof.
  intros Hw Hpb Hn Hdiv Hwf Hr. rewrite (try_to_prim_ok dbg pb ps w n) by assumption.
  destruct (prim_inb pb ps (source_value src_signed w a)) eqn:E; [|reflexivity].
  apply prim_inb_spec in E. contradiction.
Qed.

Theorem try_to_prim_total dbg pb ps w n src_signed a :
  0 < w -> 0 < pb -> (0 < n)%nat -> pb < w \/ (w | pb) -> wf w n a ->
  try_to_prim dbg pb ps w src_signed a <> Panic.
Proof. intros. rewrite (try_to_prim_ok dbg pb ps w n) by assumption. discriminate. Qed.

(* ================================================================== *)
(** * 7. BTryFrom between two bnum integers *)

Definition representable (dst_signed : bool) (w' : Z) (n' : nat) (v : Z) : Prop :=
  if dst_signed then - (Mod w' n' / 2) <= v < Mod w' n' / 2 else 0 <= v < Mod w' n'.

Definition rep_inb (dst_signed : bool) (w' : Z) (n' : nat) (v : Z) : bool :=
  if dst_signed then (- (Mod w' n' / 2) <=? v) && (v <? Mod w' n' / 2) else (0 <=? v) && (v <? Mod w' n').

Lemma rep_inb_spec dsg w' n' v : rep_inb dsg w' n' v = true <-> representable dsg w' n' v.
Proof.
  unfold rep_inb, representable. destruct dsg; rewrite andb_true_iff, Z.leb_le, Z.ltb_lt; tauto.
Qed.

Lemma bitlen_le_iff X T : 0 <= X -> 0 <= T -> (bitlen X <=? T) = (X <? 2 ^ T).
Proof.
  intros HX HT. destruct (bitlen_spec X HX) as (H0 & H1 & H2).
  destruct (Z.leb_spec (bitlen X) T) as [Hle | Hgt]; destruct (Z.ltb_spec X (2 ^ T)) as [Hlt | Hge]; try reflexivity.
  - pose proof (pow2_le (bitlen X) T ltac:(lia)). lia.
  - assert (0 < X).
    { destruct (Z.eq_dec X 0) as [-> |]; [rewrite bitlen_0 in Hgt; lia | lia]. }
    pose proof (pow2_le T (bitlen X - 1) ltac:(lia)). specialize (H2 ltac:(lia)). lia.
Qed.

Lemma exp_sub_ok dbg a b : b <= a -> exp_sub dbg a b = Ret (a - b).
Proof. intros. unfold exp_sub. destruct (Z.leb_spec b a); [reflexivity | lia]. Qed.

(* From::BITS - from.leading_zeros() is the bit length of the pattern *)
Lemma sig_zeros_ok dbg w n a : 0 < w -> wf w n a ->
  exp_sub dbg (bits w n) (leading_zeros w a) = Ret (bitlen (uval w a)).
Proof.
  intros Hw Hwf. rewrite (leading_zeros_ok w n a Hw Hwf).
  pose proof (uval_bounds w n a ltac:(lia) Hwf) as HX.
  destruct (bitlen_spec (uval w a) ltac:(lia)) as (H0 & _).
  rewrite exp_sub_ok by lia. f_equal. lia.
Qed.

Lemma sig_ones_ok dbg w n a : 0 < w -> wf w n a ->
  exp_sub dbg (bits w n) (leading_ones w a) = Ret (bitlen (Mod w n - 1 - uval w a)).
Proof.
  intros Hw Hwf. rewrite (leading_ones_ok w n a Hw Hwf).
  pose proof (uval_bounds w n a ltac:(lia) Hwf) as HX.
  destruct (bitlen_spec (Mod w n - 1 - uval w a) ltac:(lia)) as (H0 & _).
  rewrite exp_sub_ok by lia. f_equal. lia.
Qed.

Lemma Mod_bits w n : Mod w n = 2 ^ bits w n.
Proof. reflexivity. Qed.

Lemma Mod_half w n : 0 < w -> (0 < n)%nat -> Mod w n / 2 = 2 ^ (bits w n - 1) /\ Mod w n = 2 * 2 ^ (bits w n - 1).
Proof.
  intros Hw Hn. assert (0 < bits w n) by (unfold bits; nia).
  destruct (pow2_half (bits w n) ltac:(lia)) as (E & Eh & _). rewrite Mod_bits. split; assumption.
Qed.

(* the decision each of the four impls takes *)
Lemma btry_from_decide dbg w n w' n' ss dsg a :
  0 < w -> 0 < w' -> (0 < n)%nat -> (0 < n')%nat -> wf w n a ->
  btry_from dbg w w' n' ss dsg a =
  if rep_inb dsg w' n' (source_value ss w a) then ok_cast dbg w w' n' ss dsg a else Ret Err.
Proof.
  intros Hw Hw' Hn Hn' Hwf.
  pose proof (uval_bounds w n a ltac:(lia) Hwf) as HX. rewrite Mod_bits in HX.
  assert (Hfb : 0 < bits w n) by (unfold bits; nia).
  assert (Hsb : 0 < bits w' n') by (unfold bits; nia).
  destruct (Mod_half w n Hw Hn) as [EhM EM]. destruct (Mod_half w' n' Hw' Hn') as [EhM' EM'].
  pose proof (pow2_pos (bits w n - 1) ltac:(lia)) as HpM. pose proof (pow2_pos (bits w' n' - 1) ltac:(lia)) as HpM'.
  pose proof (sig_zeros_ok dbg w n a Hw Hwf) as Hz. pose proof (sig_ones_ok dbg w n a Hw Hwf) as Ho.
  unfold btry_from, rep_inb, source_value.
  destruct (sval_cases w n a Hw Hn Hwf) as [(Eneg & Es & Hlt) | (Eneg & Es & Hge)];
    rewrite EhM in *; rewrite ?EhM'; rewrite (Mod_bits w n) in *; rewrite ?(Mod_bits w' n');
    set (X := uval w a) in *; set (fb := bits w n) in *; set (sb := bits w' n') in *.
  - (* pattern below 2^(fb-1): both readings give X *)
    destruct ss, dsg; rewrite ?Es.
    + (* I -> I *)
      unfold I_btry_from_I. rewrite (wf_length _ _ _ Hwf), Eneg. fold fb sb.
      destruct (Z.leb_spec fb sb) as [Hle | Hgt].
      * pose proof (pow2_le (fb - 1) (sb - 1) ltac:(lia)). bdestr; try reflexivity; lia.
      * rewrite Hz. cbn [obind]. rewrite exp_sub_ok by lia. cbn [obind].
        fold X. rewrite (bitlen_le_iff X (sb - 1)) by lia. bdestr; try reflexivity; lia.
    + (* I -> U *)
      unfold U_btry_from_I. rewrite (wf_length _ _ _ Hwf), Eneg. fold fb sb.
      unfold or_else, exp_saturating_sub. rewrite Hz. cbn [omap]. fold X.
      rewrite (bitlen_le_iff X sb) by lia.
      destruct (Z.leb_spec (Z.max 0 (fb - 1)) sb) as [Hle | Hgt]; cbn [obind].
      * pose proof (pow2_le (fb - 1) sb ltac:(lia)). bdestr; try reflexivity; lia.
      * bdestr; try reflexivity; lia.
    + (* U -> I *)
      unfold I_btry_from_U. rewrite (wf_length _ _ _ Hwf). fold fb sb.
      rewrite exp_sub_ok by lia. cbn [obind].
      unfold or_else. rewrite Hz. cbn [omap]. fold X.
      rewrite (bitlen_le_iff X (sb - 1)) by lia.
      destruct (Z.leb_spec fb (sb - 1)) as [Hle | Hgt]; cbn [obind].
      * pose proof (pow2_le (fb - 1) (sb - 1) ltac:(lia)). bdestr; try reflexivity; lia.
      * bdestr; try reflexivity; lia.
    + (* U -> U *)
      unfold U_btry_from_U. rewrite (wf_length _ _ _ Hwf). fold fb sb.
      unfold or_else. rewrite Hz. cbn [omap]. fold X.
      rewrite (bitlen_le_iff X sb) by lia.
      destruct (Z.leb_spec fb sb) as [Hle | Hgt]; cbn [obind].
      * pose proof (pow2_le fb sb ltac:(lia)). bdestr; try reflexivity; lia.
      * bdestr; try reflexivity; lia.
  - (* top bit set: a signed source is negative *)
    destruct ss, dsg; rewrite ?Es.
    + (* I -> I *)
      unfold I_btry_from_I. rewrite (wf_length _ _ _ Hwf), Eneg. fold fb sb.
      destruct (Z.leb_spec fb sb) as [Hle | Hgt].
      * pose proof (pow2_le (fb - 1) (sb - 1) ltac:(lia)). bdestr; try reflexivity; lia.
      * rewrite Ho. cbn [obind]. rewrite exp_sub_ok by lia. cbn [obind].
        rewrite (bitlen_le_iff (2 ^ fb - 1 - X) (sb - 1)) by lia.
        bdestr; try reflexivity; lia.
    + (* I -> U: negative *)
      unfold U_btry_from_I. rewrite Eneg. bdestr; try reflexivity; lia.
    + (* U -> I *)
      unfold I_btry_from_U. rewrite (wf_length _ _ _ Hwf). fold fb sb.
      rewrite exp_sub_ok by lia. cbn [obind].
      unfold or_else. rewrite Hz. cbn [omap]. fold X.
      rewrite (bitlen_le_iff X (sb - 1)) by lia.
      destruct (Z.leb_spec fb (sb - 1)) as [Hle | Hgt]; cbn [obind].
      * pose proof (pow2_le fb (sb - 1) ltac:(lia)). bdestr; try reflexivity; lia.
      * bdestr; try reflexivity; lia.
    + (* U -> U *)
      unfold U_btry_from_U. rewrite (wf_length _ _ _ Hwf). fold fb sb.
      unfold or_else. rewrite Hz. cbn [omap]. fold X.
      rewrite (bitlen_le_iff X sb) by lia.
      destruct (Z.leb_spec fb sb) as [Hle | Hgt]; cbn [obind].
      * pose proof (pow2_le fb sb ltac:(lia)). bdestr; try reflexivity; lia.
      * bdestr; try reflexivity; lia.
Qed.

(* BTryFrom between any two configurations: Ok(the cast, which keeps the value) exactly when the source value
   is representable in the target, Err otherwise *)
Theorem btry_from_ok dbg w n w' n' src_signed dst_signed a :
  0 < w -> 0 < w' -> (0 < n)%nat -> (0 < n')%nat -> (w' | w) \/ (w | w') -> wf w n a ->
  (representable dst_signed w' n' (source_value src_signed w a) ->
     exists r, btry_from dbg w w' n' src_signed dst_signed a = Ret (Ok r) /\ wf w' n' r /\
               cast dbg w w' n' src_signed dst_signed a = Ret r /\
               source_value dst_signed w' r = source_value src_signed w a) /\
  (~ representable dst_signed w' n' (source_value src_signed w a) ->
     btry_from dbg w w' n' src_signed dst_signed a = Ret Err).
Proof.
  intros Hw Hw' Hn Hn' Hdiv Hwf.
  rewrite (btry_from_decide dbg w n w' n' src_signed dst_signed a Hw Hw' Hn Hn' Hwf).
  split; intros Hrep.
  - pose proof Hrep as Hb. apply rep_inb_spec in Hb. rewrite Hb.
    destruct (cast_preserves_value dbg w n w' n' src_signed dst_signed a Hw Hw' Hn Hn' Hdiv Hwf Hrep)
      as (r & Hr & Hwfr & Hv).
    exists r. unfold ok_cast. rewrite Hr. cbn [omap]. auto.
  - destruct (rep_inb dst_signed w' n' (source_value src_signed w a)) eqn:E; [|reflexivity].
    apply rep_inb_spec in E. contradiction.
Qed.

Theorem btry_from_total dbg w n w' n' src_signed dst_signed a :
  0 < w -> 0 < w' -> (0 < n)%nat -> (0 < n')%nat -> (w' | w) \/ (w | w') -> wf w n a ->
  btry_from dbg w w' n' src_signed dst_signed a <> Panic.
Proof.
  intros Hw Hw' Hn Hn' Hdiv Hwf.
  destruct (btry_from_ok dbg w n w' n' src_signed dst_signed a Hw Hw' Hn Hn' Hdiv Hwf) as [H1 H2].
  destruct (rep_inb dst_signed w' n' (source_value src_signed w a)) eqn:E.
  - apply rep_inb_spec in E. destruct (H1 E) as (r & Hr & _). rewrite Hr. discriminate.
  - assert (Hn0 : ~ representable dst_signed w' n' (source_value src_signed w a)).
    { intros C. apply rep_inb_spec in C. congruence. }
    rewrite (H2 Hn0). discriminate.
Qed.

(* every value of a target at least as wide (and, from unsigned to signed, strictly wider) is representable *)
Lemma widening_representable w n w' n' (src_signed dst_signed : bool) a :
  0 < w -> 0 < w' -> (0 < n)%nat -> (0 < n')%nat -> wf w n a ->
  (if src_signed then (if dst_signed then bits w n <= bits w' n' else False)
   else (if dst_signed then bits w n < bits w' n' else bits w n <= bits w' n')) ->
  representable dst_signed w' n' (source_value src_signed w a).
Proof.
  intros Hw Hw' Hn Hn' Hwf Hwide.
  pose proof (uval_bounds w n a ltac:(lia) Hwf) as HX. rewrite Mod_bits in HX.
  assert (Hfb : 0 < bits w n) by (unfold bits; nia).
  assert (Hsb : 0 < bits w' n') by (unfold bits; nia).
  destruct (Mod_half w n Hw Hn) as [EhM EM]. destruct (Mod_half w' n' Hw' Hn') as [EhM' EM'].
  unfold representable, source_value.
  destruct (sval_cases w n a Hw Hn Hwf) as [(Eneg & Es & Hlt) | (Eneg & Es & Hge)];
    rewrite EhM in *; rewrite ?EhM'; rewrite (Mod_bits w n) in *; rewrite ?(Mod_bits w' n');
    destruct src_signed, dst_signed; rewrite ?Es; try contradiction;
    first [pose proof (pow2_le (bits w n - 1) (bits w' n' - 1) ltac:(lia)); pose proof (pow2_pos (bits w n - 1) ltac:(lia)); lia
          | pose proof (pow2_le (bits w n) (bits w' n' - 1) ltac:(lia)); lia
          | pose proof (pow2_le (bits w n) (bits w' n') ltac:(lia)); lia ].
Qed.

(* ================================================================== *)
(** * 8. Primitive integer -> bnum *)

Lemma source_value_of_mod w n (dsg : bool) r v : 0 < w -> (0 < n)%nat -> wf w n r ->
  uval w r = v mod Mod w n -> representable dsg w n v -> source_value dsg w r = v.
Proof.
  intros Hw Hn Hwf Hu Hrep.
  pose proof (Mod_pos w n ltac:(lia)) as HM. pose proof (Mod_even w n Hw Hn) as He.
  unfold source_value, representable in *. destruct dsg.
  - unfold sval. rewrite (wf_length _ _ _ Hwf), Hu. rewrite to_signed_of_mod by auto. apply wrapS_id; auto.
  - rewrite Hu. apply Z.mod_small. exact Hrep.
Qed.

(* From<uN> for BUint: the digits of v, as long as v fits *)
Theorem U_from_uint_ok dbg pb w n v :
  0 < w -> 0 < pb -> 0 <= v < 2 ^ pb -> v < Mod w n ->
  U_from_uint dbg pb w n v = Ret (digits_of w n v).
Proof.
  intros Hw Hpb Hv Hfit. unfold U_from_uint, ZERO.
  pose (P := fun (i : nat) (out : list Z) =>
               out = digits_of w (Nat.min i n) v ++ repeat 0 (n - Nat.min i n)).
  destruct (while_inv P (fun (i : nat) (_ : list Z) => Z.of_nat i * w <? pb)
              (fun i out => obind (shr_chk dbg pb v (Z.of_nat i * w)) (fun t =>
                            let d := ud w t in if negb (d =? 0) then wr out i d else Ret out))
              (Z.to_nat pb)) with (fuel := Z.to_nat pb) (i := 0%nat) (s := repeat 0 n)
    as (i' & out' & Hrun & Hout' & Hc).
  - intros i out Hout Hc. apply Z.ltb_lt in Hc. split; [nia|].
    rewrite shr_chk_ok by lia. cbn [obind]. cbv zeta.
    replace (ud w (v / 2 ^ (Z.of_nat i * w))) with (bf v (w * Z.of_nat i) w)
      by (unfold ud, bf, B; rewrite (Z.mul_comm w); reflexivity).
    unfold P in *.
    destruct (Nat.lt_ge_cases i n) as [Hin | Hin].
    + rewrite (Nat.min_l i n) in Hout by lia. rewrite (Nat.min_l (S i) n) by lia.
      replace (n - i)%nat with (S (n - S i)) in Hout by lia.
      rewrite digits_of_snoc by lia.
      destruct (Z.eqb_spec (bf v (w * Z.of_nat i) w) 0) as [E0 | E0]; cbn [negb].
      * eexists; split; [reflexivity|]. rewrite Hout, E0. cbn [repeat]. rewrite <- app_assoc. reflexivity.
      * rewrite Hout, (wr_prefix _ _ _ _ _ (digits_of_length w i v)). eexists; split; reflexivity.
    + assert (E0 : bf v (w * Z.of_nat i) w = 0).
      { apply bf_small; [nia | lia |]. unfold Mod in Hfit. pose proof (pow2_le (w * Z.of_nat n) (w * Z.of_nat i) ltac:(nia)). lia. }
      rewrite E0. cbn [Z.eqb negb]. eexists; split; [reflexivity|].
      rewrite (Nat.min_r (S i) n) by lia. rewrite (Nat.min_r i n) in Hout by lia. exact Hout.
  - lia.
  - unfold P. cbn [Nat.min digits_of app]. f_equal. lia.
  - cbv zeta in Hrun. rewrite Hrun. f_equal. unfold P in Hout'. rewrite Hout'. symmetry.
    apply Z.ltb_ge in Hc.
    apply (digits_of_pad w n (Nat.min i' n) v false); [lia | lia |].
    unfold pad_above. apply Z.div_small. split; [lia|].
    destruct (Nat.lt_ge_cases i' n) as [Hin | Hin].
    + rewrite Nat.min_l by lia. unfold Mod. pose proof (pow2_le pb (w * Z.of_nat i') ltac:(lia)). lia.
    + rewrite Nat.min_r by lia. exact Hfit.
Qed.

Lemma bitnot_ZERO w n : bitnot w (ZERO n) = repeat (u_max w) n.
Proof.
  unfold bitnot, ZERO, u_not, u_max. induction n as [|n IH]; cbn [repeat map]; [reflexivity|].
  rewrite IH. f_equal. lia.
Qed.

(* From<iN> for BInt, target at least as wide as the primitive: the digits of v mod 2^BITS *)
Theorem I_from_iint_ok dbg pb w n v :
  0 < w -> 0 < pb -> prim_range pb true v -> pb <= bits w n ->
  I_from_iint dbg pb w n v = Ret (digits_of w n (v mod Mod w n)).
Proof.
  intros Hw Hpb Hv Hwide. unfold I_from_iint. rewrite bitnot_ZERO. unfold ZERO.
  unfold prim_range in Hv. destruct (pow2_half pb Hpb) as (EP & _ & HH).
  set (T := w * Z.of_nat n). assert (HT : 0 <= T) by (unfold T; nia). unfold bits in Hwide. fold T in Hwide.
  pose proof (pow2_pos T HT) as HpT.
  set (V := v mod Mod w n). assert (EV : V = v mod 2 ^ T) by reflexivity.
  set (neg := v <? 0). set (pad := if neg then u_max w else 0).
  replace (if neg then repeat (u_max w) n else repeat 0 n) with (repeat pad n) by (unfold pad; destruct neg; reflexivity).
  pose (P := fun (i : nat) (out : list Z) => (i <= n)%nat /\ out = digits_of w i V ++ repeat pad (n - i)).
  destruct (while_inv P (fun (i : nat) (_ : list Z) => Z.of_nat i * w <? pb)
              (fun i out => obind (shr_chk dbg pb v (Z.of_nat i * w)) (fun t => wr out i (ud w t)))
              (Z.to_nat pb)) with (fuel := Z.to_nat pb) (i := 0%nat) (s := repeat pad n)
    as (i' & out' & Hrun & (Hi' & Hout') & Hc).
  - intros i out [Hi Hout] Hc. apply Z.ltb_lt in Hc. split; [nia|].
    assert (Hin : (i < n)%nat) by (unfold T in Hwide; nia).
    rewrite shr_chk_ok by lia. cbn [obind].
    replace (ud w (v / 2 ^ (Z.of_nat i * w))) with (bf v (w * Z.of_nat i) w)
      by (unfold ud, bf, B; rewrite (Z.mul_comm w); reflexivity).
    assert (Ebf : bf v (w * Z.of_nat i) w = bf V (w * Z.of_nat i) w).
    { apply (bf_congr v V T); [nia | lia | unfold T; nia | rewrite EV; symmetry; apply Z.mod_mod; lia]. }
    rewrite Ebf.
    replace (n - i)%nat with (S (n - S i)) in Hout by lia.
    rewrite Hout, (wr_prefix _ _ _ _ _ (digits_of_length w i V)).
    eexists; split; [reflexivity|]. split; [lia|]. rewrite digits_of_snoc by lia. reflexivity.
  - lia.
  - split; [lia|]. cbn [digits_of app]. f_equal. lia.
  - rewrite Hrun. f_equal. rewrite Hout'. symmetry. apply Z.ltb_ge in Hc.
    apply digits_of_pad; [lia | exact Hi' |]. apply high_pad_above; [lia | exact Hi' |]. fold T.
    set (L := w * Z.of_nat i'). assert (HL : 0 <= L <= T) by (unfold L, T; nia).
    assert (HpbL : pb <= L) by (unfold L; lia).
    pose proof (pow2_le pb L ltac:(lia)) as HPL.
    destruct (Z.ltb_spec v 0) as [Hneg | Hpos]; unfold neg.
    + destruct (neg_facts (v + 2 ^ L) L T HL ltac:(lia)) as (_ & F2 & _).
      replace V with (v + 2 ^ L + 2 ^ T - 2 ^ L); [exact F2|].
      rewrite EV. symmetry. apply mod_intro with (q := -1); [|lia].
      pose proof (pow2_le L T ltac:(lia)). lia.
    + replace V with v; [apply widen_facts; lia|].
      rewrite EV. symmetry. apply Z.mod_small. pose proof (pow2_le L T ltac:(lia)). lia.
Qed.

(* From / TryFrom of a primitive value the target can represent gives that value.  (From<iN> for BInt writes
   every digit the primitive covers, so it additionally needs the target to be at least as wide as iN.) *)
Theorem conv_from_prim_ok dbg pb ps w n (dst_signed : bool) v :
  0 < w -> 0 < pb -> (0 < n)%nat -> prim_range pb ps v -> representable dst_signed w n v ->
  (ps = true -> dst_signed = true -> pb <= bits w n) ->
  exists r, conv_from_prim dbg pb ps w n dst_signed v = Ret (Ok r) /\ wf w n r /\
            source_value dst_signed w r = v.
Proof.
  intros Hw Hpb Hn Hv Hrep Hwide.
  pose proof (Mod_pos w n ltac:(lia)) as HM. pose proof (Mod_even w n Hw Hn) as He.
  destruct (pow2_half pb Hpb) as (EP & _ & HH).
  assert (HU : 0 <= v < 2 ^ pb -> v < Mod w n ->
               exists r, U_from_uint dbg pb w n v = Ret r /\ wf w n r /\ uval w r = v mod Mod w n).
  { intros H1 H2. rewrite (U_from_uint_ok dbg pb w n v Hw Hpb H1 H2). eexists; split; [reflexivity|].
    split; [apply digits_of_wf; lia | apply digits_of_uval; lia]. }
  unfold conv_from_prim, prim_range, representable in *.
  destruct ps, dst_signed.
  - rewrite (I_from_iint_ok dbg pb w n v Hw Hpb Hv (Hwide eq_refl eq_refl)). cbn [omap].
    eexists; split; [reflexivity|]. split; [apply digits_of_wf; lia|].
    apply (source_value_of_mod w n true); auto; [apply digits_of_wf; lia | rewrite digits_of_uval by lia; apply Z.mod_mod; lia].
  - unfold U_try_from_iint. destruct (Z.ltb_spec v 0); [lia|].
    unfold ud, B. rewrite Z.mod_small by lia.
    destruct (HU ltac:(lia) ltac:(lia)) as (r & Hr & Hwfr & Hu). rewrite Hr. cbn [omap].
    exists r. split; [reflexivity|]. split; [exact Hwfr|].
    apply (source_value_of_mod w n false); auto.
  - unfold I_from_uint. rewrite omap_from_bits.
    destruct (HU ltac:(lia) ltac:(lia)) as (r & Hr & Hwfr & Hu). rewrite Hr. cbn [omap].
    exists r. split; [reflexivity|]. split; [exact Hwfr|].
    apply (source_value_of_mod w n true); auto.
  - destruct (HU ltac:(lia) ltac:(lia)) as (r & Hr & Hwfr & Hu). rewrite Hr. cbn [omap].
    exists r. split; [reflexivity|]. split; [exact Hwfr|].
    apply (source_value_of_mod w n false); auto.
Qed.

(* TryFrom<iN> for BUint: Err exactly for the negative values *)
Theorem try_from_iint_err_iff dbg pb w n v :
  conv_from_prim dbg pb true w n false v = Ret Err <-> v < 0.
Proof.
  unfold conv_from_prim, U_try_from_iint. destruct (Z.ltb_spec v 0) as [Hneg | Hpos].
  - split; [intros; assumption | reflexivity].
  - split; [|lia]. intros H. destruct (U_from_uint dbg pb w n (ud pb v)); cbn [omap] in H; discriminate.
Qed.

(* no panic whenever the target is at least as wide as the primitive *)
Theorem conv_from_prim_total dbg pb ps w n dst_signed v :
  0 < w -> 0 < pb -> prim_range pb ps v -> pb <= bits w n ->
  conv_from_prim dbg pb ps w n dst_signed v <> Panic.
Proof.
  intros Hw Hpb Hv Hwide. destruct (pow2_half pb Hpb) as (EP & _ & HH).
  pose proof (pow2_le pb (bits w n) ltac:(lia)) as HPM. rewrite <- Mod_bits in HPM.
  unfold conv_from_prim, prim_range in *. destruct ps, dst_signed.
  - rewrite (I_from_iint_ok dbg pb w n v Hw Hpb Hv Hwide). discriminate.
  - unfold U_try_from_iint. destruct (Z.ltb_spec v 0); [discriminate|].
    unfold ud, B. rewrite Z.mod_small by lia. rewrite U_from_uint_ok by lia. discriminate.
  - unfold I_from_uint. rewrite U_from_uint_ok by lia. discriminate.
  - rewrite U_from_uint_ok by lia. discriminate.
Qed.

(* ================================================================== *)
(** * 9. bool, char *)

Theorem conv_from_bool_ok w n (dst_signed b : bool) : 0 < w -> (0 < n)%nat ->
  representable dst_signed w n (if b then 1 else 0) ->
  let r := if dst_signed then I_conv_from_bool n b else U_conv_from_bool n b in
  wf w n r /\ source_value dst_signed w r = if b then 1 else 0.
Proof.
  intros Hw Hn Hrep r. destruct (from_bool_ok w n dst_signed b Hw) as [Hwf Hu].
  unfold r, I_conv_from_bool, U_conv_from_bool. split; [exact Hwf|].
  apply (source_value_of_mod w n dst_signed); auto.
Qed.

(* a bool always fits an unsigned target and a signed target of at least two bits *)
Lemma bool_representable w n (dst_signed b : bool) : 0 < w -> (0 < n)%nat ->
  (dst_signed = true -> 2 <= bits w n) -> representable dst_signed w n (if b then 1 else 0).
Proof.
  intros Hw Hn H2. destruct (Mod_half w n Hw Hn) as [Eh EM].
  assert (0 < bits w n) by (unfold bits; nia).
  pose proof (pow2_pos (bits w n - 1) ltac:(lia)).
  unfold representable. destruct dst_signed.
  - rewrite Eh. pose proof (pow2_le 1 (bits w n - 1) ltac:(specialize (H2 eq_refl); lia)).
    change (2 ^ 1) with 2 in *. destruct b; lia.
  - rewrite EM. destruct b; lia.
Qed.

Theorem conv_from_char_ok w n c : 0 < w -> (0 < n)%nat -> 0 <= c < 1114112 -> c < Mod w n ->
  exists r, U_conv_from_char w n c = Ret r /\ wf w n r /\ uval w r = c.
Proof.
  intros Hw Hn Hc Hfit. destruct (from_char_ok w n false c Hw Hc) as (r & Hr & Hwf & Hu).
  exists r. unfold U_conv_from_char. split; [exact Hr|]. split; [exact Hwf|].
  rewrite Hu. apply Z.mod_small. lia.
Qed.

Theorem conv_from_char_total w n c : 0 < w -> 0 <= c < 1114112 -> U_conv_from_char w n c <> Panic.
Proof.
  intros Hw Hc. destruct (from_char_ok w n false c Hw Hc) as (r & Hr & _).
  unfold U_conv_from_char. rewrite Hr. discriminate.
Qed.

(* ================================================================== *)
(** * 10. The digit array accessors *)

Theorem digits_id a :
  from_digits a = a /\ digits a = a /\ from_array a = a /\ into_array a = a /\
  digits (from_digits a) = a /\ digits (from_array a) = a /\ into_array (from_digits a) = a.
Proof. repeat split; reflexivity. Qed.

Theorem from_digit_ok w n d : 0 < w -> (0 < n)%nat -> digit_ok w d ->
  wf w n (from_digit n d) /\ uval w (from_digit n d) = d /\
  nth 0 (from_digit n d) 0 = d /\ (forall i, (0 < i)%nat -> nth i (from_digit n d) 0 = 0).
Proof.
  intros Hw Hn Hd. destruct n as [|k]; [lia|]. unfold from_digit.
  split; [apply wf_cons; split; [exact Hd | apply wf_repeat; apply zero_ok; lia]|].
  split; [cbn [uval]; rewrite uval_repeat_0; lia|].
  split; [reflexivity|].
  intros i Hi. destruct i; [lia|]. cbn [nth].
  destruct (Nat.lt_ge_cases i k) as [Hlt | Hge].
  - apply nth_repeat.
  - apply nth_overflow. rewrite repeat_length. lia.
Qed.

(* ================================================================== *)
(** * 11. Rust's digit and primitive widths are powers of two: the divisibility side conditions hold *)

Lemma pow2_prim_digit k kp : 0 <= k -> 0 <= kp -> 2 ^ kp < 2 ^ k \/ (2 ^ k | 2 ^ kp).
Proof.
  intros Hk Hkp. destruct (Z_lt_le_dec kp k) as [Hlt | Hle].
  - left. apply pow2_lt. lia.
  - right. exists (2 ^ (kp - k)). rewrite <- pow2_add by lia. f_equal. lia.
Qed.

Theorem try_to_prim_pow2_ok dbg kp ps k n src_signed a :
  0 <= k -> 0 <= kp -> (0 < n)%nat -> wf (2 ^ k) n a ->
  try_to_prim dbg (2 ^ kp) ps (2 ^ k) src_signed a =
  Ret (if prim_inb (2 ^ kp) ps (source_value src_signed (2 ^ k) a)
       then Ok (source_value src_signed (2 ^ k) a) else Err).
Proof.
  intros Hk Hkp Hn Hwf. apply (try_to_prim_ok dbg (2 ^ kp) ps (2 ^ k) n); auto using pow2_pos, pow2_prim_digit.
Qed.

Theorem btry_from_pow2_ok dbg k n k' n' src_signed dst_signed a :
  0 <= k -> 0 <= k' -> (0 < n)%nat -> (0 < n')%nat -> wf (2 ^ k) n a ->
  (representable dst_signed (2 ^ k') n' (source_value src_signed (2 ^ k) a) ->
     exists r, btry_from dbg (2 ^ k) (2 ^ k') n' src_signed dst_signed a = Ret (Ok r) /\ wf (2 ^ k') n' r /\
               cast dbg (2 ^ k) (2 ^ k') n' src_signed dst_signed a = Ret r /\
               source_value dst_signed (2 ^ k') r = source_value src_signed (2 ^ k) a) /\
  (~ representable dst_signed (2 ^ k') n' (source_value src_signed (2 ^ k) a) ->
     btry_from dbg (2 ^ k) (2 ^ k') n' src_signed dst_signed a = Ret Err).
Proof.
  intros Hk Hk' Hn Hn' Hwf. apply (btry_from_ok dbg (2 ^ k) n); auto using pow2_pos, pow2_divide.
Qed.

(* a target that can hold every source value: always Ok *)
Theorem btry_from_widening dbg w n w' n' (src_signed dst_signed : bool) a :
  0 < w -> 0 < w' -> (0 < n)%nat -> (0 < n')%nat -> (w' | w) \/ (w | w') -> wf w n a ->
  (if src_signed then (if dst_signed then bits w n <= bits w' n' else False)
   else (if dst_signed then bits w n < bits w' n' else bits w n <= bits w' n')) ->
  exists r, btry_from dbg w w' n' src_signed dst_signed a = Ret (Ok r) /\ wf w' n' r /\
            source_value dst_signed w' r = source_value src_signed w a.
Proof.
  intros Hw Hw' Hn Hn' Hdiv Hwf Hwide.
  destruct (btry_from_ok dbg w n w' n' src_signed dst_signed a Hw Hw' Hn Hn' Hdiv Hwf) as [H1 _].
  destruct (H1 (widening_representable w n w' n' src_signed dst_signed a Hw Hw' Hn Hn' Hwf Hwide))
    as (r & Hr & Hwfr & _ & Hv).
  exists r. auto.
Qed.

(* Proofs/Convert.v — C13 (placeholder, filled in below) *)
From Bnum Require Import Base Prim.
From Bnum.Model Require Import Core Bits Cast Convert.
Lemma from_digits_id a : from_digits a = a.
Proof. reflexivity. Qed.

(* Proofs/DigitIndep.v — C16: results depend only on width, signedness and value.
   Corollaries of the Model = Spec theorems: every spec is a function of BITS and the operand
   VALUES only, so two configurations (w1, n1), (w2, n2) with w1*n1 = w2*n2 agree, and a wider
   configuration agrees whenever the exact result is representable in the narrower one. *)
From Bnum Require Import Base Prim.
From Bnum.Model Require Import Digit Core Shift AddSub Mul Div Bits Pow.
From Bnum.Proofs Require Import AddSub Mul Shift Cmp PowDeps Pow Discharge.

Lemma Mod_eq_bits w1 n1 w2 n2 : bits w1 n1 = bits w2 n2 -> Mod w1 n1 = Mod w2 n2.
Proof. unfold bits, Mod. intros H. rewrite H. reflexivity. Qed.

Lemma Mod_le_bits w1 n1 w2 n2 : 0 <= bits w1 n1 <= bits w2 n2 -> Mod w1 n1 <= Mod w2 n2.
Proof. unfold bits, Mod. intros H. apply Z.pow_le_mono_r; lia. Qed.

Section Equal_width.
  (* two representations of the same width holding the same values *)
  Context (w1 w2 : Z) (n1 n2 : nat) (a1 b1 a2 b2 : list Z).
  Context (Hw1 : 0 < w1) (Hw2 : 0 < w2) (Hbits : bits w1 n1 = bits w2 n2).
  Context (Ha1 : wf w1 n1 a1) (Hb1 : wf w1 n1 b1) (Ha2 : wf w2 n2 a2) (Hb2 : wf w2 n2 b2).

  Lemma U_add_indep : uval w1 a1 = uval w2 a2 -> uval w1 b1 = uval w2 b2 ->
    uval w1 (fst (U_overflowing_add w1 a1 b1)) = uval w2 (fst (U_overflowing_add w2 a2 b2)) /\
    snd (U_overflowing_add w1 a1 b1) = snd (U_overflowing_add w2 a2 b2).
  Proof.
    intros Ea Eb. pose proof (U_overflowing_add_ok w1 n1 a1 b1 Hw1 Ha1 Hb1) as H1.
    pose proof (U_overflowing_add_ok w2 n2 a2 b2 Hw2 Ha2 Hb2) as H2.
    destruct (U_overflowing_add w1 a1 b1) as [r1 f1], (U_overflowing_add w2 a2 b2) as [r2 f2].
    destruct H1 as (_ & V1 & F1), H2 as (_ & V2 & F2). cbn [fst snd].
    rewrite V1, V2, F1, F2, Ea, Eb, (Mod_eq_bits _ _ _ _ Hbits). split; reflexivity.
  Qed.

  Lemma U_sub_indep : uval w1 a1 = uval w2 a2 -> uval w1 b1 = uval w2 b2 ->
    uval w1 (fst (U_overflowing_sub w1 a1 b1)) = uval w2 (fst (U_overflowing_sub w2 a2 b2)) /\
    snd (U_overflowing_sub w1 a1 b1) = snd (U_overflowing_sub w2 a2 b2).
  Proof.
    intros Ea Eb. pose proof (U_overflowing_sub_ok w1 n1 a1 b1 Hw1 Ha1 Hb1) as H1.
    pose proof (U_overflowing_sub_ok w2 n2 a2 b2 Hw2 Ha2 Hb2) as H2.
    destruct (U_overflowing_sub w1 a1 b1) as [r1 f1], (U_overflowing_sub w2 a2 b2) as [r2 f2].
    destruct H1 as (_ & V1 & F1), H2 as (_ & V2 & F2). cbn [fst snd].
    rewrite V1, V2, F1, F2, Ea, Eb, (Mod_eq_bits _ _ _ _ Hbits). split; reflexivity.
  Qed.

  Lemma U_mul_indep : uval w1 a1 = uval w2 a2 -> uval w1 b1 = uval w2 b2 ->
    uval w1 (fst (U_overflowing_mul w1 a1 b1)) = uval w2 (fst (U_overflowing_mul w2 a2 b2)) /\
    snd (U_overflowing_mul w1 a1 b1) = snd (U_overflowing_mul w2 a2 b2).
  Proof.
    intros Ea Eb. unfold U_overflowing_mul.
    pose proof (long_mul_ok w1 n1 a1 b1 Hw1 Ha1 Hb1) as H1.
    pose proof (long_mul_ok w2 n2 a2 b2 Hw2 Ha2 Hb2) as H2.
    destruct (long_mul w1 a1 b1) as [r1 f1], (long_mul w2 a2 b2) as [r2 f2].
    destruct H1 as (_ & V1 & F1), H2 as (_ & V2 & F2). cbn [fst snd].
    rewrite V1, V2, F1, F2, Ea, Eb, (Mod_eq_bits _ _ _ _ Hbits). split; reflexivity.
  Qed.

  Lemma U_cmp_indep : uval w1 a1 = uval w2 a2 -> uval w1 b1 = uval w2 b2 -> ucmp a1 b1 = ucmp a2 b2.
  Proof.
    intros Ea Eb. rewrite (ucmp_ok w1 n1 a1 b1), (ucmp_ok w2 n2 a2 b2) by (assumption || lia).
    rewrite Ea, Eb. reflexivity.
  Qed.

  Lemma U_shl_indep s : 0 <= s < bits w1 n1 -> uval w1 a1 = uval w2 a2 ->
    uval w1 (shl_internal w1 a1 s) = uval w2 (shl_internal w2 a2 s).
  Proof.
    intros Hs Ea. destruct (shl_internal_ok w1 n1 a1 s Hw1 Ha1 Hs) as (_ & V1).
    destruct (shl_internal_ok w2 n2 a2 s Hw2 Ha2 ltac:(rewrite <- Hbits; exact Hs)) as (_ & V2).
    rewrite V1, V2, Ea, (Mod_eq_bits _ _ _ _ Hbits). reflexivity.
  Qed.

  Lemma U_shr_indep s : 0 <= s < bits w1 n1 -> uval w1 a1 = uval w2 a2 ->
    uval w1 (shr_pad_internal w1 false a1 s) = uval w2 (shr_pad_internal w2 false a2 s).
  Proof.
    intros Hs Ea. destruct (shr_internal_ok w1 n1 a1 s Hw1 Ha1 Hs) as (_ & V1).
    destruct (shr_internal_ok w2 n2 a2 s Hw2 Ha2 ltac:(rewrite <- Hbits; exact Hs)) as (_ & V2).
    rewrite V1, V2, Ea. reflexivity.
  Qed.

  Lemma U_pow_indep e : (0 < n1)%nat -> (0 < n2)%nat -> 0 <= e -> uval w1 a1 = uval w2 a2 ->
    uval w1 (fst (U_overflowing_pow w1 a1 e)) = uval w2 (fst (U_overflowing_pow w2 a2 e)) /\
    snd (U_overflowing_pow w1 a1 e) = snd (U_overflowing_pow w2 a2 e).
  Proof.
    intros Hn1 Hn2 He Ea.
    pose proof (U_overflowing_pow_ok mul_spec_holds w1 n1 a1 e Hw1 Hn1 Ha1 He) as H1.
    pose proof (U_overflowing_pow_ok mul_spec_holds w2 n2 a2 e Hw2 Hn2 Ha2 He) as H2.
    destruct (U_overflowing_pow w1 a1 e) as [r1 f1], (U_overflowing_pow w2 a2 e) as [r2 f2].
    destruct H1 as (_ & V1 & F1), H2 as (_ & V2 & F2). cbn [fst snd].
    rewrite V1, V2, F1, F2, Ea, (Mod_eq_bits _ _ _ _ Hbits). split; reflexivity.
  Qed.

  (* signed: the same statements through sval *)
  Context (Hn1 : (0 < n1)%nat) (Hn2 : (0 < n2)%nat).

  Lemma I_add_indep : sval w1 a1 = sval w2 a2 -> sval w1 b1 = sval w2 b2 ->
    sval w1 (fst (I_overflowing_add w1 a1 b1)) = sval w2 (fst (I_overflowing_add w2 a2 b2)) /\
    snd (I_overflowing_add w1 a1 b1) = snd (I_overflowing_add w2 a2 b2).
  Proof.
    intros Ea Eb. pose proof (I_overflowing_add_ok w1 n1 a1 b1 Hw1 Hn1 Ha1 Hb1) as H1.
    pose proof (I_overflowing_add_ok w2 n2 a2 b2 Hw2 Hn2 Ha2 Hb2) as H2.
    destruct (I_overflowing_add w1 a1 b1) as [r1 f1], (I_overflowing_add w2 a2 b2) as [r2 f2].
    destruct H1 as (_ & V1 & F1), H2 as (_ & V2 & F2). cbn [fst snd].
    rewrite V1, V2, F1, F2, Ea, Eb, (Mod_eq_bits _ _ _ _ Hbits). split; reflexivity.
  Qed.

  Lemma I_mul_indep : sval w1 a1 = sval w2 a2 -> sval w1 b1 = sval w2 b2 ->
    sval w1 (fst (I_overflowing_mul w1 a1 b1)) = sval w2 (fst (I_overflowing_mul w2 a2 b2)) /\
    snd (I_overflowing_mul w1 a1 b1) = snd (I_overflowing_mul w2 a2 b2).
  Proof.
    intros Ea Eb. pose proof (I_overflowing_mul_ok w1 n1 a1 b1 Hw1 Hn1 Ha1 Hb1) as H1.
    pose proof (I_overflowing_mul_ok w2 n2 a2 b2 Hw2 Hn2 Ha2 Hb2) as H2.
    destruct (I_overflowing_mul w1 a1 b1) as [r1 f1], (I_overflowing_mul w2 a2 b2) as [r2 f2].
    destruct H1 as (_ & V1 & F1), H2 as (_ & V2 & F2). cbn [fst snd].
    rewrite V1, V2, F1, F2, Ea, Eb, (Mod_eq_bits _ _ _ _ Hbits). split; reflexivity.
  Qed.

  Lemma I_cmp_indep : sval w1 a1 = sval w2 a2 -> sval w1 b1 = sval w2 b2 -> icmp w1 a1 b1 = icmp w2 a2 b2.
  Proof.
    intros Ea Eb. rewrite (icmp_ok w1 n1 a1 b1), (icmp_ok w2 n2 a2 b2) by assumption.
    rewrite Ea, Eb. reflexivity.
  Qed.
End Equal_width.

Section Extension.
  (* a narrow (w1, n1) and a wider (w2, n2) configuration holding the same values *)
  Context (w1 w2 : Z) (n1 n2 : nat) (a1 b1 a2 b2 : list Z).
  Context (Hw1 : 0 < w1) (Hw2 : 0 < w2) (Hbits : 0 <= bits w1 n1 <= bits w2 n2).
  Context (Ha1 : wf w1 n1 a1) (Hb1 : wf w1 n1 b1) (Ha2 : wf w2 n2 a2) (Hb2 : wf w2 n2 b2).

  Lemma U_add_ext : uval w1 a1 = uval w2 a2 -> uval w1 b1 = uval w2 b2 ->
    uval w1 a1 + uval w1 b1 < Mod w1 n1 ->
    U_checked_add w1 a1 b1 <> None /\ U_checked_add w2 a2 b2 <> None /\
    uval w1 (fst (U_overflowing_add w1 a1 b1)) = uval w1 a1 + uval w1 b1 /\
    uval w2 (fst (U_overflowing_add w2 a2 b2)) = uval w1 a1 + uval w1 b1.
  Proof.
    intros Ea Eb Hfit. pose proof (Mod_le_bits _ _ _ _ Hbits) as HM.
    pose proof (U_overflowing_add_ok w1 n1 a1 b1 Hw1 Ha1 Hb1) as H1.
    pose proof (U_overflowing_add_ok w2 n2 a2 b2 Hw2 Ha2 Hb2) as H2.
    unfold U_checked_add, tuple_to_option.
    destruct (U_overflowing_add w1 a1 b1) as [r1 f1], (U_overflowing_add w2 a2 b2) as [r2 f2].
    destruct H1 as (_ & V1 & F1), H2 as (_ & V2 & F2). cbn [fst snd].
    pose proof (uval_bounds w1 n1 a1 ltac:(lia) Ha1). pose proof (uval_bounds w1 n1 b1 ltac:(lia) Hb1).
    assert (Hf1 : f1 = false) by (rewrite F1; apply Z.leb_gt; lia).
    assert (Hf2 : f2 = false) by (rewrite F2, <- Ea, <- Eb; apply Z.leb_gt; lia).
    rewrite Hf1, Hf2. cbv beta iota delta [fst snd]. split; [discriminate|]. split; [discriminate|]. split.
    - rewrite V1. apply Z.mod_small. lia.
    - rewrite V2, <- Ea, <- Eb. apply Z.mod_small. lia.
  Qed.

  Lemma U_sub_ext : uval w1 a1 = uval w2 a2 -> uval w1 b1 = uval w2 b2 ->
    uval w1 b1 <= uval w1 a1 ->
    uval w1 (fst (U_overflowing_sub w1 a1 b1)) = uval w1 a1 - uval w1 b1 /\
    uval w2 (fst (U_overflowing_sub w2 a2 b2)) = uval w1 a1 - uval w1 b1 /\
    snd (U_overflowing_sub w1 a1 b1) = false /\ snd (U_overflowing_sub w2 a2 b2) = false.
  Proof.
    intros Ea Eb Hfit. pose proof (Mod_le_bits _ _ _ _ Hbits) as HM.
    pose proof (U_overflowing_sub_ok w1 n1 a1 b1 Hw1 Ha1 Hb1) as H1.
    pose proof (U_overflowing_sub_ok w2 n2 a2 b2 Hw2 Ha2 Hb2) as H2.
    destruct (U_overflowing_sub w1 a1 b1) as [r1 f1], (U_overflowing_sub w2 a2 b2) as [r2 f2].
    destruct H1 as (_ & V1 & F1), H2 as (_ & V2 & F2). cbn [fst snd].
    pose proof (uval_bounds w1 n1 a1 ltac:(lia) Ha1). pose proof (uval_bounds w1 n1 b1 ltac:(lia) Hb1).
    repeat split.
    - rewrite V1. apply Z.mod_small. lia.
    - rewrite V2, <- Ea, <- Eb. apply Z.mod_small. lia.
    - rewrite F1. apply Z.ltb_ge. lia.
    - rewrite F2, <- Ea, <- Eb. apply Z.ltb_ge. lia.
  Qed.

  Lemma U_mul_ext : uval w1 a1 = uval w2 a2 -> uval w1 b1 = uval w2 b2 ->
    uval w1 a1 * uval w1 b1 < Mod w1 n1 ->
    uval w1 (fst (U_overflowing_mul w1 a1 b1)) = uval w1 a1 * uval w1 b1 /\
    uval w2 (fst (U_overflowing_mul w2 a2 b2)) = uval w1 a1 * uval w1 b1 /\
    snd (U_overflowing_mul w1 a1 b1) = false /\ snd (U_overflowing_mul w2 a2 b2) = false.
  Proof.
    intros Ea Eb Hfit. pose proof (Mod_le_bits _ _ _ _ Hbits) as HM. unfold U_overflowing_mul.
    pose proof (long_mul_ok w1 n1 a1 b1 Hw1 Ha1 Hb1) as H1.
    pose proof (long_mul_ok w2 n2 a2 b2 Hw2 Ha2 Hb2) as H2.
    destruct (long_mul w1 a1 b1) as [r1 f1], (long_mul w2 a2 b2) as [r2 f2].
    destruct H1 as (_ & V1 & F1), H2 as (_ & V2 & F2). cbn [fst snd].
    pose proof (uval_bounds w1 n1 a1 ltac:(lia) Ha1). pose proof (uval_bounds w1 n1 b1 ltac:(lia) Hb1).
    assert (0 <= uval w1 a1 * uval w1 b1) by nia.
    repeat split.
    - rewrite V1. apply Z.mod_small. lia.
    - rewrite V2, <- Ea, <- Eb. apply Z.mod_small. lia.
    - rewrite F1. apply Z.leb_gt. lia.
    - rewrite F2, <- Ea, <- Eb. apply Z.leb_gt. lia.
  Qed.

  Lemma U_cmp_ext : uval w1 a1 = uval w2 a2 -> uval w1 b1 = uval w2 b2 -> ucmp a1 b1 = ucmp a2 b2.
  Proof.
    intros Ea Eb. rewrite (ucmp_ok w1 n1 a1 b1), (ucmp_ok w2 n2 a2 b2) by (assumption || lia).
    rewrite Ea, Eb. reflexivity.
  Qed.

  Lemma I_cmp_ext : (0 < n1)%nat -> (0 < n2)%nat ->
    sval w1 a1 = sval w2 a2 -> sval w1 b1 = sval w2 b2 -> icmp w1 a1 b1 = icmp w2 a2 b2.
  Proof.
    intros Hn1 Hn2 Ea Eb. rewrite (icmp_ok w1 n1 a1 b1), (icmp_ok w2 n2 a2 b2) by assumption.
    rewrite Ea, Eb. reflexivity.
  Qed.

  Lemma I_add_ext : (0 < n1)%nat -> (0 < n2)%nat ->
    sval w1 a1 = sval w2 a2 -> sval w1 b1 = sval w2 b2 ->
    inS (Mod w1 n1) (sval w1 a1 + sval w1 b1) = true ->
    sval w1 (fst (I_overflowing_add w1 a1 b1)) = sval w1 a1 + sval w1 b1 /\
    sval w2 (fst (I_overflowing_add w2 a2 b2)) = sval w1 a1 + sval w1 b1 /\
    snd (I_overflowing_add w1 a1 b1) = false /\ snd (I_overflowing_add w2 a2 b2) = false.
  Proof.
    intros Hn1 Hn2 Ea Eb Hfit. pose proof (Mod_le_bits _ _ _ _ Hbits) as HM.
    pose proof (I_overflowing_add_ok w1 n1 a1 b1 Hw1 Hn1 Ha1 Hb1) as H1.
    pose proof (I_overflowing_add_ok w2 n2 a2 b2 Hw2 Hn2 Ha2 Hb2) as H2.
    destruct (I_overflowing_add w1 a1 b1) as [r1 f1], (I_overflowing_add w2 a2 b2) as [r2 f2].
    destruct H1 as (_ & V1 & F1), H2 as (_ & V2 & F2). cbn [fst snd].
    apply inS_true in Hfit.
    pose proof (Mod_pos w1 n1 ltac:(lia)) as P1. pose proof (Mod_pos w2 n2 ltac:(lia)) as P2.
    pose proof (Mod_even w1 n1 Hw1 Hn1) as E1. pose proof (Mod_even w2 n2 Hw2 Hn2) as E2.
    assert (Hfit2 : - (Mod w2 n2 / 2) <= sval w1 a1 + sval w1 b1 < Mod w2 n2 / 2) by lia.
    repeat split.
    - rewrite V1. apply wrapS_id; assumption.
    - rewrite V2, <- Ea, <- Eb. apply wrapS_id; assumption.
    - rewrite F1. apply negb_false_iff. apply inS_true. exact Hfit.
    - rewrite F2, <- Ea, <- Eb. apply negb_false_iff. apply inS_true. exact Hfit2.
  Qed.
End Extension.

(* Proofs/LoopsTieC05.v — shifts / rotations / byte and bit reversal: src/buint/mod.rs.
   Part of the tie between the loop functions GENERATED from /repo/src/buint/*.rs on every run
   (Generated/Loops.v, by tools/rs2v_loops.py) and the hand-written model: for every digit width, every
   digit count and all well-formed operands, with fuel >= N the generated function neither panics nor
   runs out of fuel and returns exactly what the model function returns. *)
From Bnum Require Import Base Prim.
From Bnum.Model Require Import DigitPrims LoopPrims Digit Core Shift AddSub Mul Bits Imp.
From Bnum.Generated Require Import DigitGen Loops.
From Bnum.Proofs Require Import DigitTie ImpLemmas.

(* ================= (e) src/buint/mod.rs: shifts, rotations, byte / bit reversal ================= *)

(* the digit width is a power of two: `rhs >> BIT_SHIFT` is rhs / w and `rhs & BITS_MINUS_1` is rhs mod w *)
Lemma tz_pow2 m : u_trailing_zeros 32 (2 ^ Z.of_nat m) = Z.of_nat m.
Proof.
  induction m as [|m IH]; [reflexivity|].
  rewrite Nat2Z.inj_succ, Z.pow_succ_r by lia.
  assert (Hp : 0 < 2 ^ Z.of_nat m) by (apply Z.pow_pos_nonneg; lia).
  destruct (2 ^ Z.of_nat m) as [|p|p] eqn:E; try lia.
  change (2 * Z.pos p) with (Z.pos p~0). cbn [u_trailing_zeros tz_pos] in *. rewrite IH. lia.
Qed.

Lemma pow2_split w lg rhs : 0 <= lg -> w = 2 ^ lg -> 0 <= rhs ->
  ix_shr rhs (digit_BIT_SHIFT w) = rhs / w /\ ix_and rhs (digit_BITS_MINUS_1 w) = rhs mod w.
Proof.
  intros Hlg -> Hr. unfold ix_shr, ix_and, digit_BIT_SHIFT, digit_BITS_MINUS_1.
  rewrite <- (Z2Nat.id lg) at 1 by lia. rewrite tz_pow2, Z2Nat.id by lia.
  split; [apply Z.shiftr_div_pow2; lia|].
  replace (2 ^ lg - 1) with (Z.ones lg) by (rewrite Z.ones_equiv; lia). apply Z.land_ones; lia.
Qed.

Lemma shl_bits_scan1 w bs ds c :
  shl_bits w bs ds c = fst (scan1 (fun d c => (u_or (u_shl w d bs) c, u_shr d (w - bs))) ds c) /\
  shl_bits_carry w bs ds c = snd (scan1 (fun d c => (u_or (u_shl w d bs) c, u_shr d (w - bs))) ds c).
Proof.
  revert c. induction ds as [|d r IH]; intros c; [split; reflexivity|].
  cbn [shl_bits shl_bits_carry scan1 fst snd]. destruct (IH (u_shr d (w - bs))) as [-> ->]. split; reflexivity.
Qed.

Lemma shr_bits_scan1 w bs ds c :
  shr_bits w bs ds c = fst (scan1 (fun d c => (u_or (u_shr d bs) c, u_shl w d (w - bs))) ds c).
Proof.
  revert c. induction ds as [|d r IH]; intros c; [reflexivity|].
  cbn [shr_bits scan1 fst snd]. rewrite IH. reflexivity.
Qed.

Lemma loops_unchecked_shl_internal w lg n a rhs : 0 <= lg -> w = 2 ^ lg -> wf w n a ->
  0 <= rhs < bits w n ->
  forall fuel, (n <= fuel)%nat ->
  Loops.unchecked_shl_internal w (Z.of_nat n) fuel a rhs = Done (shl_internal w a rhs).
Proof.
  intros Hlg Hwl [Ha _] Hr fuel Hf.
  assert (Hw : 0 < w) by (subst w; apply Z.pow_pos_nonneg; lia).
  unfold Loops.unchecked_shl_internal, shl_internal. rewrite Nat2Z.id.
  destruct (pow2_split w lg rhs Hlg Hwl ltac:(lia)) as [-> ->].
  unfold bits in Hr.
  assert (Hq : 0 <= rhs / w < Z.of_nat n) by (split; [apply Z.div_pos; lia | apply Z.div_lt_upper_bound; lia]).
  pose proof (Z.mod_pos_bound rhs w Hw) as Hm.
  set (ds := Z.to_nat (rhs / w)). assert (Hds : rhs / w = Z.of_nat ds) by (unfold ds; lia).
  rewrite Hds. set (bs := rhs mod w) in *. rewrite Ha.
  set (src := firstn (n - ds) a).
  assert (Hsrc : length src = (n - ds)%nat) by (unfold src; rewrite firstn_length; lia).
  destruct (bs =? 0) eqn:Ebs; cbn [negb].
  - (* digit copy *)
    rewrite (loop_writes0 (fun out (_ : unit) j => (out, Z.of_nat (ds + j))) (fun j => (ds + j)%nat)
               (fun j c => (nth j src 0, tt)) _ _ (n - ds) n fuel (ZERO n) tt);
      try first [reflexivity | apply repeat_length | lia | (rewrite Nat.add_0_r; reflexivity)].
    + rewrite run_writes_up by (unfold ZERO; rewrite repeat_length; lia). cbn [bind fst snd].
      rewrite <- Hsrc. rewrite (scan_idx_scan1 (fun x (_ : unit) => (x, tt)) src) by (intros; reflexivity).
      rewrite (scan1_map (fun x => x)). cbn [fst]. rewrite map_id. rewrite Nat.add_0_r.
      unfold ZERO. rewrite firstn_repeat, skipn_repeat.
      replace (Nat.min ds n) with ds by lia. replace (n - (ds + length src))%nat with 0%nat by lia.
      cbn [repeat]. rewrite app_nil_r.
      rewrite firstn_all2 by (rewrite app_length, repeat_length; lia). reflexivity.
    + intros out c j Hj. rewrite ltb_of_nat. apply Nat.ltb_lt. lia.
    + intros out c. rewrite ltb_of_nat. apply Nat.ltb_ge. lia.
    + intros out c j Hj Hl. body_red. rewrite usub_nat by lia. cbn [bind].
      rewrite arr_get_nat by lia. cbn [bind]. rewrite arr_set_nat by lia. cbn [bind fst snd].
      replace (ds + j - ds)%nat with j by lia. unfold src. rewrite nth_firstn_lt by lia.
      rewrite Nat.add_succ_r, Nat2Z.inj_succ. reflexivity.
  - (* digit copy with bit shift *)
    apply Z.eqb_neq in Ebs. rewrite usub_ok by lia. cbn [bind].
    rewrite (loop_writes0 (fun out c j => (out, c, Z.of_nat (ds + j))) (fun j => (ds + j)%nat)
               (fun j c => (u_or (u_shl w (nth j src 0) bs) c, u_shr (nth j src 0) (w - bs)))
               _ _ (n - ds) n fuel (ZERO n) 0);
      try first [reflexivity | apply repeat_length | lia | (rewrite Nat.add_0_r; reflexivity)].
    + rewrite run_writes_up by (unfold ZERO; rewrite repeat_length; lia). cbn [bind fst snd].
      rewrite <- Hsrc.
      rewrite (scan_idx_scan1 (fun d c => (u_or (u_shl w d bs) c, u_shr d (w - bs))) src) by (intros; reflexivity).
      destruct (shl_bits_scan1 w bs src 0) as [<- _]. rewrite Nat.add_0_r.
      unfold ZERO. rewrite firstn_repeat, skipn_repeat.
      replace (Nat.min ds n) with ds by lia. replace (n - (ds + length src))%nat with 0%nat by lia.
      cbn [repeat]. rewrite app_nil_r.
      assert (Hlen : length (shl_bits w bs src 0) = length src).
      { destruct (shl_bits_scan1 w bs src 0) as [-> _].
        rewrite <- (scan_idx_scan1 _ src (fun j c => (u_or (u_shl w (nth j src 0) bs) c, u_shr (nth j src 0) (w - bs))) 0%nat)
          by (intros; reflexivity).
        apply scan_idx_length. }
      rewrite firstn_all2 by (rewrite app_length, repeat_length, Hlen; lia). reflexivity.
    + intros out c j Hj. rewrite ltb_of_nat. apply Nat.ltb_lt. lia.
    + intros out c. rewrite ltb_of_nat. apply Nat.ltb_ge. lia.
    + intros out c j Hj Hl. body_red. rewrite usub_nat by lia. cbn [bind].
      rewrite arr_get_nat by lia. cbn [bind]. rewrite dshl_ok by lia. cbn [bind].
      rewrite arr_set_nat by lia. cbn [bind]. rewrite dshr_ok by lia. cbn [bind fst snd].
      replace (ds + j - ds)%nat with j by lia. unfold src. rewrite nth_firstn_lt by lia.
      rewrite Nat.add_succ_r, Nat2Z.inj_succ. reflexivity.
Qed.

Lemma set_nth_list_set f l k : (k < length l)%nat -> set_nth k f l = list_set l k (f (nth k l 0)).
Proof.
  intros Hk. unfold set_nth. rewrite list_set_split by exact Hk.
  rewrite (skipn_nth_cons l k) by exact Hk. reflexivity.
Qed.

Lemma loops_unchecked_shr_pad_internal w lg n neg a rhs : 0 <= lg -> w = 2 ^ lg -> wf w n a ->
  0 <= rhs < bits w n ->
  forall fuel, (n <= fuel)%nat ->
  Loops.unchecked_shr_pad_internal w (Z.of_nat n) fuel neg a rhs = Done (shr_pad_internal w neg a rhs).
Proof.
  intros Hlg Hwl [Ha _] Hr fuel Hf.
  assert (Hw : 0 < w) by (subst w; apply Z.pow_pos_nonneg; lia).
  unfold Loops.unchecked_shr_pad_internal, shr_pad_internal. rewrite Nat2Z.id.
  destruct (pow2_split w lg rhs Hlg Hwl ltac:(lia)) as [-> ->].
  unfold bits in Hr.
  assert (Hq : 0 <= rhs / w < Z.of_nat n) by (split; [apply Z.div_pos; lia | apply Z.div_lt_upper_bound; lia]).
  pose proof (Z.mod_pos_bound rhs w Hw) as Hm.
  set (ds := Z.to_nat (rhs / w)). assert (Hds : rhs / w = Z.of_nat ds) by (unfold ds; lia).
  rewrite Hds. set (bs := rhs mod w) in *. rewrite Ha.
  set (pad := if neg then u_max w else 0).
  assert (Hout0 : (if neg then UMAX w n else ZERO n) = repeat pad n) by (unfold pad; destruct neg; reflexivity).
  rewrite Hout0.
  set (src := skipn ds a).
  assert (Hsrc : length src = (n - ds)%nat) by (unfold src; rewrite skipn_length; lia).
  destruct (bs =? 0) eqn:Ebs; cbn [negb].
  - (* digit copy *)
    rewrite (loop_writes0 (fun out (_ : unit) j => (out, Z.of_nat (ds + j))) (fun j => (0 + j)%nat)
               (fun j c => (nth j src 0, tt)) _ _ (n - ds) n fuel (repeat pad n) tt);
      try first [reflexivity | apply repeat_length | lia | (rewrite Nat.add_0_r; reflexivity)].
    + rewrite run_writes_up by (rewrite repeat_length; lia). cbn [bind fst snd].
      rewrite <- Hsrc. rewrite (scan_idx_scan1 (fun x (_ : unit) => (x, tt)) src) by (intros; reflexivity).
      rewrite (scan1_map (fun x => x)). cbn [fst Nat.add firstn app]. rewrite map_id.
      rewrite skipn_repeat. replace (n - length src)%nat with ds by lia.
      rewrite firstn_all2 by (rewrite app_length, repeat_length; lia). reflexivity.
    + intros out c j Hj. rewrite ltb_of_nat. apply Nat.ltb_lt. lia.
    + intros out c. rewrite ltb_of_nat. apply Nat.ltb_ge. lia.
    + intros out c j Hj Hl. body_red. rewrite arr_get_nat by lia. cbn [bind].
      rewrite usub_nat by lia. cbn [bind]. rewrite arr_set_nat by lia. cbn [bind fst snd Nat.add].
      replace (ds + j - ds)%nat with j by lia. unfold src. rewrite nth_skipn_add.
      rewrite Nat.add_succ_r, Nat2Z.inj_succ. reflexivity.
  - (* with bit shift: from the top digit of the window downwards *)
    apply Z.eqb_neq in Ebs. rewrite usub_ok by lia. cbn [bind].
    set (g := fun d c => (u_or (u_shr d bs) c, u_shl w d (w - bs))).
    rewrite (loop_writes0 (fun out c j => (out, c, Z.of_nat (ds + j))) (fun j => (n - ds - 1 - j)%nat)
               (fun j c => g (nth j (rev src) 0) c) _ _ (n - ds) n fuel (repeat pad n) 0);
      try first [reflexivity | apply repeat_length | lia | (rewrite Nat.add_0_r; reflexivity)].
    + rewrite run_writes_down by (try rewrite repeat_length; lia). cbn [bind fst snd].
      replace (n - ds - 0 - (n - ds))%nat with 0%nat by lia. rewrite Nat.sub_0_r. cbn [firstn app].
      rewrite skipn_repeat. replace (n - (n - ds))%nat with ds by lia.
      assert (Hsc : fst (scan_idx (fun j c => g (nth j (rev src) 0) c) 0 (n - ds) 0) = shr_bits w bs (rev src) 0).
      { rewrite <- Hsrc, <- rev_length. rewrite (scan_idx_scan1 g (rev src)) by (intros; reflexivity).
        rewrite shr_bits_scan1. reflexivity. }
      assert (Hlow : length (rev (shr_bits w bs (rev src) 0)) = (n - ds)%nat).
      { rewrite <- Hsc. rewrite rev_length. apply scan_idx_length. }
      rewrite Hsc. set (low := rev (shr_bits w bs (rev src) 0)) in *.
      destruct neg.
      * rewrite dshl_ok by lia. cbn [bind]. unfold ix_saturating_sub.
        destruct (Z.ltb_spec (Z.of_nat n) (Z.of_nat ds)) as [?|_]; [lia|].
        rewrite usub_ok by lia. cbn [bind].
        replace (Z.of_nat n - Z.of_nat ds - 1) with (Z.of_nat (n - ds - 1)) by lia.
        rewrite arr_get_nat by (rewrite app_length, repeat_length; lia). cbn [bind].
        rewrite arr_set_nat by (rewrite app_length, repeat_length; lia). cbn [bind].
        rewrite app_nth1 by lia. rewrite list_set_app_l by lia.
        rewrite set_nth_list_set by lia.
        rewrite firstn_all2 by (rewrite app_length, list_set_length, repeat_length; lia). reflexivity.
      * rewrite firstn_all2 by (rewrite app_length, repeat_length; lia). reflexivity.
    + intros out c j Hj. rewrite ltb_of_nat. apply Nat.ltb_lt. lia.
    + intros out c. rewrite ltb_of_nat. apply Nat.ltb_ge. lia.
    + intros out c j Hj Hl. body_red. rewrite (usub_ok (Z.of_nat n) 1) by lia. cbn [bind].
      rewrite usub_ok by lia. cbn [bind].
      replace (Z.of_nat n - 1 - Z.of_nat (ds + j)) with (Z.of_nat (n - ds - 1 - j)) by lia.
      rewrite <- Nat2Z.inj_add. rewrite arr_get_nat by lia. cbn [bind].
      rewrite dshr_ok by lia. cbn [bind]. rewrite arr_set_nat by lia. cbn [bind].
      rewrite dshl_ok by lia. cbn [bind].
      rewrite rev_nth by lia. rewrite Hsrc. unfold src. rewrite !nth_skipn_add.
      replace (ds + (n - ds - S j))%nat with (n - ds - 1 - j + ds)%nat by lia.
      unfold g. cbn [fst snd]. rewrite Nat.add_succ_r, Nat2Z.inj_succ. reflexivity.
Qed.

Lemma loops_rotate_digits_left w n a k : 0 < w -> wf w n a -> (k <= n)%nat ->
  forall fuel, (n <= fuel)%nat ->
  Loops.rotate_digits_left w (Z.of_nat n) fuel a (Z.of_nat k) = Done (rotate_digits_left a k).
Proof.
  intros Hw [Ha _] Hk fuel Hf. unfold Loops.rotate_digits_left, rotate_digits_left. rewrite Nat2Z.id, Ha.
  set (lo := firstn (n - k) a). set (hi := skipn (n - k) a).
  assert (Hlo : length lo = (n - k)%nat) by (unfold lo; rewrite firstn_length; lia).
  assert (Hhi : length hi = k) by (unfold hi; rewrite skipn_length; lia).
  (* first loop: out[k..n) := a[0..n-k) *)
  rewrite (loop_writes0 (fun out (_ : unit) j => (out, Z.of_nat (k + j))) (fun j => (k + j)%nat)
             (fun j c => (nth j lo 0, tt)) _ _ (n - k) n fuel (ZERO n) tt);
    try first [reflexivity | apply repeat_length | lia | (rewrite Nat.add_0_r; reflexivity)].
  - rewrite run_writes_up by (unfold ZERO; rewrite repeat_length; lia). cbn [bind fst snd].
    rewrite <- Hlo. rewrite (scan_idx_scan1 (fun x (_ : unit) => (x, tt)) lo) by (intros; reflexivity).
    rewrite (scan1_map (fun x => x)). cbn [fst]. rewrite map_id. rewrite Nat.add_0_r.
    unfold ZERO. rewrite firstn_repeat, skipn_repeat.
    replace (Nat.min k n) with k by lia. replace (n - (k + length lo))%nat with 0%nat by lia.
    cbn [repeat]. rewrite app_nil_r.
    rewrite usub_nat by lia. cbn [bind].
    (* second loop: out[0..k) := a[n-k..n) *)
    rewrite (loop_writes0 (fun out (_ : unit) j => (out, Z.of_nat (n - k + j))) (fun j => (0 + j)%nat)
               (fun j c => (nth j hi 0, tt)) _ _ k n fuel (repeat 0 k ++ lo) tt);
      try first [reflexivity | lia | (rewrite Nat.add_0_r; reflexivity) | (rewrite app_length, repeat_length; lia)].
    + rewrite run_writes_up by (rewrite app_length, repeat_length; lia). cbn [bind fst snd Nat.add firstn app].
      rewrite <- Hhi at 1. rewrite (scan_idx_scan1 (fun x (_ : unit) => (x, tt)) hi) by (intros; reflexivity).
      rewrite (scan1_map (fun x => x)). cbn [fst]. rewrite map_id.
      rewrite skipn_app, repeat_length, Nat.sub_diag. rewrite skipn_all2 by (rewrite repeat_length; lia).
      reflexivity.
    + intros out c j Hj. rewrite ltb_of_nat. apply Nat.ltb_lt. lia.
    + intros out c. rewrite ltb_of_nat. apply Nat.ltb_ge. lia.
    + intros out c j Hj Hl. body_red. rewrite arr_get_nat by lia. cbn [bind].
      rewrite usub_nat by lia. cbn [bind]. rewrite arr_set_nat by lia. cbn [bind fst snd Nat.add].
      replace (n - k + j - (n - k))%nat with j by lia. unfold hi. rewrite nth_skipn_add.
      rewrite Nat.add_succ_r, Nat2Z.inj_succ. reflexivity.
  - intros out c j Hj. rewrite ltb_of_nat. apply Nat.ltb_lt. lia.
  - intros out c. rewrite ltb_of_nat. apply Nat.ltb_ge. lia.
  - intros out c j Hj Hl. body_red. rewrite usub_nat by lia. cbn [bind].
    rewrite arr_get_nat by lia. cbn [bind]. rewrite arr_set_nat by lia. cbn [bind fst snd].
    replace (k + j - k)%nat with j by lia. unfold lo. rewrite nth_firstn_lt by lia.
    rewrite Nat.add_succ_r, Nat2Z.inj_succ. reflexivity.
Qed.

Lemma loops_swap_bytes w n a : 0 < w -> wf w n a ->
  forall fuel, (n <= fuel)%nat -> Loops.swap_bytes w (Z.of_nat n) fuel a = Done (swap_bytes w a).
Proof.
  intros Hw [Ha _] fuel Hf. unfold Loops.swap_bytes, swap_bytes. rewrite Nat2Z.id.
  rewrite <- Ha, <- rev_length.
  rewrite (loop_map1_all_c (u_swap_bytes w) (rev a)); try first [apply repeat_length | reflexivity | (rewrite rev_length; lia) | (intros; rewrite ?rev_length in *; zbool_lia)].
  intros out j Hj Hl. rewrite rev_length in *. body_red.
  rewrite (usub_ok (Z.of_nat (length a)) 1) by lia. cbn [bind]. rewrite usub_ok by lia. cbn [bind].
  replace (Z.of_nat (length a) - 1 - Z.of_nat j) with (Z.of_nat (length a - S j)) by lia.
  rewrite arr_get_nat by lia. cbn [bind]. rewrite arr_set_nat by lia. cbn [bind].
  rewrite rev_nth by lia. reflexivity.
Qed.

Lemma loops_reverse_bits w n a : 0 < w -> wf w n a ->
  forall fuel, (n <= fuel)%nat -> Loops.reverse_bits w (Z.of_nat n) fuel a = Done (reverse_bits w a).
Proof.
  intros Hw [Ha _] fuel Hf. unfold Loops.reverse_bits, reverse_bits. rewrite Nat2Z.id.
  rewrite <- Ha, <- rev_length.
  rewrite (loop_map1_all_c (u_reverse_bits w) (rev a)); try first [apply repeat_length | reflexivity | (rewrite rev_length; lia) | (intros; rewrite ?rev_length in *; zbool_lia)].
  intros out j Hj Hl. rewrite rev_length in *. body_red.
  rewrite (usub_ok (Z.of_nat (length a)) 1) by lia. cbn [bind]. rewrite usub_ok by lia. cbn [bind].
  replace (Z.of_nat (length a) - 1 - Z.of_nat j) with (Z.of_nat (length a - S j)) by lia.
  rewrite arr_get_nat by lia. cbn [bind]. rewrite arr_set_nat by lia. cbn [bind].
  rewrite rev_nth by lia. reflexivity.
Qed.

Lemma loops_unchecked_rotate_left w lg n a rhs : 0 <= lg -> w = 2 ^ lg -> wf w n a ->
  0 <= rhs <= bits w n ->
  forall fuel, (n <= fuel)%nat ->
  Loops.unchecked_rotate_left w (Z.of_nat n) fuel a rhs = Done (unchecked_rotate_left w a rhs).
Proof.
  intros Hlg Hwl Hwf Hr fuel Hf. pose proof Hwf as [Ha _].
  assert (Hw : 0 < w) by (subst w; apply Z.pow_pos_nonneg; lia).
  unfold Loops.unchecked_rotate_left, unchecked_rotate_left.
  destruct (pow2_split w lg rhs Hlg Hwl ltac:(lia)) as [-> ->].
  unfold bits in Hr.
  assert (Hq : 0 <= rhs / w <= Z.of_nat n).
  { split; [apply Z.div_pos; lia|]. apply Z.div_le_upper_bound; lia. }
  pose proof (Z.mod_pos_bound rhs w Hw) as Hm.
  set (ds := Z.to_nat (rhs / w)). assert (Hds : rhs / w = Z.of_nat ds) by (unfold ds; lia).
  rewrite Hds. set (bs := rhs mod w) in *.
  rewrite (loops_rotate_digits_left w n a ds Hw Hwf ltac:(lia) fuel Hf). cbn [bind].
  set (out0 := rotate_digits_left a ds).
  assert (Hout0 : length out0 = n).
  { unfold out0, rotate_digits_left. rewrite app_length, skipn_length, firstn_length. lia. }
  destruct (bs =? 0) eqn:Ebs; cbn [negb]; [reflexivity|].
  apply Z.eqb_neq in Ebs. rewrite usub_ok by lia. cbn [bind].
  assert (Hn : (0 < n)%nat).
  { destruct n; [|lia]. exfalso. assert (rhs = 0) by lia. subst rhs. unfold bs in Ebs.
    rewrite Z.mod_0_l in Ebs by lia. lia. }
  apply while_count_bind with (n := n) (k := 0%nat)
    (Inv := fun k '(out, carry, i) =>
       i = Z.of_nat k /\ (k <= n)%nat /\ length out = n /\ skipn k out = skipn k out0 /\
       shl_bits w bs out0 0 = firstn k out ++ shl_bits w bs (skipn k out0) carry /\
       shl_bits_carry w bs out0 0 = shl_bits_carry w bs (skipn k out0) carry).
  - intros k [[out carry] i] (-> & Hk & Hlen & Hsk & Hsb & Hsc) Hc.
    cond_true_in Hc. split; [exact Hc|].
    rewrite arr_get_nat by lia. cbn [bind]. rewrite dshl_ok by lia. cbn [bind].
    rewrite arr_set_nat by lia. cbn [bind]. rewrite dshr_ok by lia. cbn [bind].
    assert (Hd : nth k out 0 = nth k out0 0).
    { pose proof (nth_skipn_add out k 0) as H1. pose proof (nth_skipn_add out0 k 0) as H2.
      rewrite Nat.add_0_r in H1, H2. rewrite <- H1, <- H2, Hsk. reflexivity. }
    rewrite Hd. rewrite (skipn_nth_cons out0 k) in Hsb, Hsc by lia. cbn [shl_bits shl_bits_carry] in Hsb, Hsc.
    split; [lia|]. split; [lia|]. split; [rewrite list_set_length; exact Hlen|].
    split.
    { rewrite skipn_S_list_set. rewrite !skipn_S_tl, Hsk. reflexivity. }
    split.
    { rewrite Hsb. rewrite firstn_S_list_set by lia. rewrite <- app_assoc. reflexivity. }
    exact Hsc.
  - intros k [[out carry] i] (-> & Hk & Hlen & Hsk & Hsb & Hsc) Hc.
    cond_false_in Hc. assert (k = n) by lia. subst k.
    rewrite (skipn_all2 out0) in Hsb, Hsc by lia. cbn [shl_bits shl_bits_carry] in Hsb, Hsc.
    rewrite app_nil_r, firstn_all2 in Hsb by lia. rewrite Hsb, Hsc.
    destruct out as [|d t]; [cbn [length] in Hlen; lia|].
    change 0 with (Z.of_nat 0) at 1 2. rewrite arr_get_nat by (cbn [length]; lia). cbn [bind].
    rewrite arr_set_nat by (cbn [length]; lia). reflexivity.
  - split; [reflexivity|]. split; [lia|]. split; [exact Hout0|]. split; [reflexivity|].
    split; reflexivity.
  - lia.
Qed.

(* ---- all obligations of the group in one statement; the digit width is a power of two ---- *)
Theorem loops_C05_match_model w lg : 0 <= lg -> w = 2 ^ lg ->
  (forall n a rhs fuel, wf w n a -> 0 <= rhs < bits w n -> (n <= fuel)%nat ->
     Loops.unchecked_shl_internal w (Z.of_nat n) fuel a rhs = Done (shl_internal w a rhs)) /\
  (forall n neg a rhs fuel, wf w n a -> 0 <= rhs < bits w n -> (n <= fuel)%nat ->
     Loops.unchecked_shr_pad_internal w (Z.of_nat n) fuel neg a rhs = Done (shr_pad_internal w neg a rhs)) /\
  (forall n a k fuel, wf w n a -> (k <= n)%nat -> (n <= fuel)%nat ->
     Loops.rotate_digits_left w (Z.of_nat n) fuel a (Z.of_nat k) = Done (rotate_digits_left a k)) /\
  (forall n a rhs fuel, wf w n a -> 0 <= rhs <= bits w n -> (n <= fuel)%nat ->
     Loops.unchecked_rotate_left w (Z.of_nat n) fuel a rhs = Done (unchecked_rotate_left w a rhs)) /\
  (forall n a fuel, wf w n a -> (n <= fuel)%nat ->
     Loops.swap_bytes w (Z.of_nat n) fuel a = Done (swap_bytes w a)) /\
  (forall n a fuel, wf w n a -> (n <= fuel)%nat ->
     Loops.reverse_bits w (Z.of_nat n) fuel a = Done (reverse_bits w a)).
Proof.
  intros Hlg Hwl. assert (Hw : 0 < w) by (subst w; apply Z.pow_pos_nonneg; lia).
  repeat split; intros.
  - apply (loops_unchecked_shl_internal w lg); assumption.
  - apply (loops_unchecked_shr_pad_internal w lg); assumption.
  - apply loops_rotate_digits_left; assumption.
  - apply (loops_unchecked_rotate_left w lg); assumption.
  - apply loops_swap_bytes; assumption.
  - apply loops_reverse_bits; assumption.
Qed.

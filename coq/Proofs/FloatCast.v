(* Proofs/FloatCast.v — C14: the float/integer cast models equal an integer-only specification. *)
From Bnum Require Import Base Prim.
From Bnum.Model Require Import Digit Core Shift AddSub Bits FloatCast.
From Bnum.Proofs Require Import FloatCastDeps.

Local Ltac Zify.zify_post_hook ::= Z.div_mod_to_equations.

(* ================= Z-level bit facts ================= *)

Lemma pow2_pos k : 0 <= k -> 0 < 2 ^ k.
Proof. intros; apply Z.pow_pos_nonneg; lia. Qed.

Lemma pow2_split a b : 0 <= a -> 0 <= b -> 2 ^ (a + b) = 2 ^ a * 2 ^ b.
Proof. intros; apply Z.pow_add_r; lia. Qed.

Lemma pow2_le a b : 0 <= a <= b -> 2 ^ a <= 2 ^ b.
Proof. intros; apply Z.pow_le_mono_r; lia. Qed.

Lemma pow2_lt a b : 0 <= a < b -> 2 ^ a < 2 ^ b.
Proof. intros; apply Z.pow_lt_mono_r; lia. Qed.

Lemma land_ones_mod x k : 0 <= k -> Z.land x (2 ^ k - 1) = x mod 2 ^ k.
Proof.
  intros Hk. rewrite <- Z.land_ones by lia. f_equal. rewrite Z.ones_equiv. lia.
Qed.

Lemma pow2_sub1_div a b : 0 <= b <= a -> (2 ^ a - 1) / 2 ^ b = 2 ^ (a - b) - 1.
Proof.
  intros H. replace a with (b + (a - b)) at 1 by lia. rewrite pow2_split by lia.
  pose proof (pow2_pos b ltac:(lia)). pose proof (pow2_pos (a - b) ltac:(lia)).
  symmetry. apply Z.div_unique with (2 ^ b - 1); nia.
Qed.

Lemma testbit_pow2 k i : 0 <= k -> 0 <= i -> Z.testbit (2 ^ k) i = (k =? i).
Proof. intros. rewrite Z.pow2_bits_eqb by lia. reflexivity. Qed.

Lemma testbit_small x k i : 0 <= x < 2 ^ k -> 0 <= k <= i -> Z.testbit x i = false.
Proof.
  intros Hx Hi. destruct (Z.eq_dec x 0) as [->|Hn]; [apply Z.bits_0|].
  apply Z.bits_above_log2; [lia|]. apply Z.log2_lt_pow2; try lia.
  eapply Z.lt_le_trans; [apply Hx|]. apply pow2_le; lia.
Qed.

Lemma land_mul_pow2_small hi lo k : 0 <= k -> 0 <= lo < 2 ^ k -> Z.land (hi * 2 ^ k) lo = 0.
Proof.
  intros Hk Hlo. apply Z.bits_inj'. intros i Hi. rewrite Z.land_spec, Z.bits_0.
  destruct (Z.lt_ge_cases i k).
  - rewrite Z.mul_pow2_bits_low by lia. reflexivity.
  - rewrite (testbit_small lo k i) by lia. apply andb_false_r.
Qed.

Lemma lor_mul_pow2_add hi lo k : 0 <= k -> 0 <= lo < 2 ^ k -> Z.lor (hi * 2 ^ k) lo = hi * 2 ^ k + lo.
Proof.
  intros Hk Hlo. pose proof (land_mul_pow2_small hi lo k Hk Hlo) as H.
  rewrite (Z.add_nocarry_lxor _ _ H). symmetry. apply Z.lxor_lor. exact H.
Qed.

Lemma land_pow2 x k : 0 <= k -> Z.land x (2 ^ k) = if Z.testbit x k then 2 ^ k else 0.
Proof.
  intros Hk. apply Z.bits_inj'. intros i Hi. rewrite Z.land_spec, testbit_pow2 by lia.
  destruct (Z.eqb_spec k i) as [->|Hne].
  - destruct (Z.testbit x i); [rewrite testbit_pow2, Z.eqb_refl by lia; reflexivity | rewrite Z.bits_0; reflexivity].
  - rewrite andb_false_r. destruct (Z.testbit x k); [rewrite testbit_pow2 by lia; apply Z.eqb_neq in Hne; rewrite Hne; reflexivity | rewrite Z.bits_0; reflexivity].
Qed.

Lemma lxor_pow2_clear x k : 0 <= k -> Z.testbit x k = true -> Z.lxor x (2 ^ k) = x - 2 ^ k.
Proof.
  intros Hk Hb.
  assert (H : Z.land (Z.lxor x (2 ^ k)) (2 ^ k) = 0).
  { rewrite land_pow2 by lia. rewrite Z.lxor_spec, Hb, testbit_pow2, Z.eqb_refl by lia. reflexivity. }
  pose proof (Z.add_nocarry_lxor _ _ H) as A.
  rewrite Z.lxor_assoc, Z.lxor_nilpotent, Z.lxor_0_r in A. lia.
Qed.

Lemma lxor_pow2_set x k : 0 <= k -> Z.testbit x k = false -> Z.lxor x (2 ^ k) = x + 2 ^ k.
Proof.
  intros Hk Hb. symmetry. apply Z.add_nocarry_lxor. rewrite land_pow2, Hb by lia. reflexivity.
Qed.

Lemma testbit_top x k : 0 <= k -> 0 <= x < 2 ^ (k + 1) -> Z.testbit x k = (2 ^ k <=? x).
Proof.
  intros Hk Hx. rewrite Z.testbit_eqb by lia (* (x / 2^k) mod 2 =? 1 *).
  rewrite pow2_split in Hx by lia. change (2 ^ 1) with 2 in Hx.
  pose proof (pow2_pos k Hk).
  destruct (Z.leb_spec (2 ^ k) x).
  - assert (x / 2 ^ k = 1) by (symmetry; apply Z.div_unique with (x - 2 ^ k); lia).
    rewrite H1. reflexivity.
  - rewrite Z.div_small by lia. reflexivity.
Qed.

Lemma testbit_div_mod x i : 0 <= i -> Z.testbit x i = ((x / 2 ^ i) mod 2 =? 1).
Proof. intros. apply Z.testbit_eqb; lia. Qed.

(* bitlen characterisation *)
Lemma bitlen_bounds x : 0 < x -> 2 ^ (bitlen x - 1) <= x < 2 ^ bitlen x.
Proof.
  intros Hx. unfold bitlen. destruct (Z.eqb_spec x 0); [lia|].
  replace (Z.log2 x + 1 - 1) with (Z.log2 x) by lia.
  pose proof (Z.log2_spec x Hx). replace (Z.log2 x + 1) with (Z.succ (Z.log2 x)) by lia. lia.
Qed.

Lemma bitlen_unique x k : 0 < k -> 2 ^ (k - 1) <= x < 2 ^ k -> bitlen x = k.
Proof.
  intros Hk Hx. pose proof (pow2_pos (k - 1) ltac:(lia)).
  unfold bitlen. destruct (Z.eqb_spec x 0); [lia|].
  rewrite (Z.log2_unique x (k - 1)); try lia.
  replace (Z.succ (k - 1)) with k by lia. lia.
Qed.

Lemma bitlen_0 : bitlen 0 = 0.
Proof. reflexivity. Qed.

Lemma bitlen_nonneg x : 0 <= bitlen x.
Proof. unfold bitlen. destruct (x =? 0); [lia|]. pose proof (Z.log2_nonneg x). lia. Qed.

Lemma bitlen_pos x : 0 < x -> 0 < bitlen x.
Proof. intros. unfold bitlen. destruct (Z.eqb_spec x 0); [lia|]. pose proof (Z.log2_nonneg x). lia. Qed.

Lemma bitlen_le x k : 0 <= k -> 0 <= x < 2 ^ k -> bitlen x <= k.
Proof.
  intros Hk Hx. destruct (Z.eq_dec x 0) as [->|]; [rewrite bitlen_0; lia|].
  pose proof (bitlen_bounds x ltac:(lia)) as Hb. pose proof (bitlen_pos x ltac:(lia)).
  destruct (Z.le_gt_cases (bitlen x) k); [assumption|].
  assert (2 ^ k <= 2 ^ (bitlen x - 1)) by (apply pow2_le; lia). lia.
Qed.

(* ================= the integer-only specification ================= *)

(* side conditions on a format; F32 and F64 satisfy them (fmt_ok_F32, fmt_ok_F64 below) *)
Definition fmt_ok (F : ffmt) : Prop :=
  2 <= fp F /\ 2 <= ebits F <= 31 /\ fp F + 1 <= MAX_EXP F.

(* fields of a bit pattern, by arithmetic *)
Definition f_sign (F : ffmt) (x : Z) : bool := 2 ^ (fbits F - 1) <=? x.
Definition f_E (F : ffmt) (x : Z) : Z := (x mod 2 ^ (fbits F - 1)) / 2 ^ (fp F - 1).
Definition f_m (F : ffmt) (x : Z) : Z := x mod 2 ^ (fp F - 1).
Definition E_max (F : ffmt) : Z := 2 ^ ebits F - 1.
Definition f_nan (F : ffmt) (x : Z) : bool := (f_E F x =? E_max F) && negb (f_m F x =? 0).
Definition f_inf (F : ffmt) (x : Z) : bool := (f_E F x =? E_max F) && (f_m F x =? 0).
Definition f_finite (F : ffmt) (x : Z) : bool := f_E F x <? E_max F.
(* a finite float denotes  (-1)^sign * f_mant * 2^f_exp *)
Definition f_mant (F : ffmt) (x : Z) : Z :=
  if f_E F x =? 0 then f_m F x else 2 ^ (fp F - 1) + f_m F x.
Definition f_exp (F : ffmt) (x : Z) : Z :=
  (if f_E F x =? 0 then 1 else f_E F x) - EXP_BIAS F - (fp F - 1).
(* floor of the magnitude *)
Definition f_trunc (F : ffmt) (x : Z) : Z :=
  if 0 <=? f_exp F x then f_mant F x * 2 ^ f_exp F x else f_mant F x / 2 ^ (- f_exp F x).
(* truncation toward zero of the signed value *)
Definition f_trunc_signed (F : ffmt) (x : Z) : Z :=
  if f_sign F x then - f_trunc F x else f_trunc F x.

Definition sat_U (M v : Z) : Z := if v <? 0 then 0 else if M <=? v then M - 1 else v.
Definition sat_S (M v : Z) : Z := if v <? - (M / 2) then - (M / 2) else if M / 2 <=? v then M / 2 - 1 else v.

Definition float_to_U_spec (F : ffmt) (M x : Z) : Z :=
  if f_nan F x then 0
  else if f_inf F x then (if f_sign F x then 0 else M - 1)
  else sat_U M (f_trunc_signed F x).
Definition float_to_S_spec (F : ffmt) (M x : Z) : Z :=
  if f_nan F x then 0
  else if f_inf F x then (if f_sign F x then - (M / 2) else M / 2 - 1)
  else sat_S M (f_trunc_signed F x).

Lemma fmt_ok_F32 : fmt_ok F32.
Proof. unfold fmt_ok, MAX_EXP, ebits; cbn. lia. Qed.
Lemma fmt_ok_F64 : fmt_ok F64.
Proof. unfold fmt_ok, MAX_EXP, ebits; cbn. lia. Qed.

(* ---------- powers attached to a format ---------- *)

Lemma fmt_pows F : fmt_ok F ->
  2 <= 2 ^ (fp F - 1) /\ 4 <= 2 ^ ebits F /\
  2 ^ (fbits F - 1) = 2 ^ ebits F * 2 ^ (fp F - 1) /\
  2 ^ fbits F = 2 * (2 ^ ebits F * 2 ^ (fp F - 1)) /\
  2 * MAX_EXP F = 2 ^ ebits F /\ 2 <= MAX_EXP F /\
  F_INFINITY F = (2 ^ ebits F - 1) * 2 ^ (fp F - 1) /\
  2 * 2 ^ (fp F - 1) = 2 ^ fp F.
Proof.
  intros (Hp & He & Hm). unfold MAX_EXP, F_INFINITY, ebits in *.
  assert (A1 : 2 ^ 1 <= 2 ^ (fp F - 1)) by (apply pow2_le; lia).
  assert (A2 : 2 ^ 2 <= 2 ^ (fbits F - fp F)) by (apply pow2_le; lia).
  assert (A3 : 2 ^ (fbits F - 1) = 2 ^ (fbits F - fp F) * 2 ^ (fp F - 1))
    by (rewrite <- pow2_split by lia; f_equal; lia).
  assert (A4 : 2 ^ fbits F = 2 ^ 1 * 2 ^ (fbits F - 1)) by (rewrite <- pow2_split by lia; f_equal; lia).
  assert (A5 : 2 ^ 1 * 2 ^ (fbits F - fp F - 1) = 2 ^ (fbits F - fp F)) by (rewrite <- pow2_split by lia; f_equal; lia).
  assert (A6 : 2 ^ 1 <= 2 ^ (fbits F - fp F - 1)) by (apply pow2_le; lia).
  assert (A7 : 2 ^ 1 * 2 ^ (fp F - 1) = 2 ^ fp F) by (rewrite <- pow2_split by lia; f_equal; lia).
  change (2 ^ 1) with 2 in *. change (2 ^ 2) with 4 in *.
  repeat split; try lia.
Qed.

(* decomposition of a bit pattern into its fields *)
Lemma f_decomp F x : fmt_ok F -> 0 <= x < 2 ^ fbits F ->
  exists S, (S = 0 \/ S = 1) /\
    x = S * 2 ^ (fbits F - 1) + f_E F x * 2 ^ (fp F - 1) + f_m F x /\
    0 <= f_E F x < 2 ^ ebits F /\ 0 <= f_m F x < 2 ^ (fp F - 1) /\
    f_sign F x = (S =? 1) /\
    x mod 2 ^ (fbits F - 1) = f_E F x * 2 ^ (fp F - 1) + f_m F x.
Proof.
  intros Hok Hx. destruct (fmt_pows F Hok) as (HP & HQ & HQP & Hfb & _).
  unfold f_E, f_m, f_sign. rewrite HQP in *. rewrite Hfb in Hx.
  set (P := 2 ^ (fp F - 1)) in *. set (Q := 2 ^ ebits F) in *.
  assert (HQPpos : 0 < Q * P) by nia.
  exists (x / (Q * P)).
  pose proof (Z.div_mod x (Q * P) ltac:(lia)) as D1.
  pose proof (Z.mod_pos_bound x (Q * P) HQPpos) as B1.
  set (a := x mod (Q * P)) in *. set (S := x / (Q * P)) in *.
  pose proof (Z.div_mod a P ltac:(lia)) as D2.
  pose proof (Z.mod_pos_bound a P ltac:(lia)) as B2.
  assert (Hm : x mod P = a mod P).
  { symmetry. apply Z.mod_unique with (Q * S + a / P); [left; lia | nia]. }
  rewrite Hm.
  assert (HS : 0 <= S < 2) by (subst S; split; [apply Z.div_pos; lia | apply Z.div_lt_upper_bound; lia]).
  assert (HE : 0 <= a / P < Q) by (split; [apply Z.div_pos; lia | apply Z.div_lt_upper_bound; nia]).
  repeat split; try lia; try nia.
  all: destruct (Z.leb_spec (Q * P) x); destruct (Z.eqb_spec S 1); try reflexivity; nia.
Qed.

(* fields of a pattern assembled from fields *)
Lemma f_fields_of F S E m : fmt_ok F -> (S = 0 \/ S = 1) -> 0 <= E < 2 ^ ebits F -> 0 <= m < 2 ^ (fp F - 1) ->
  let x := S * 2 ^ (fbits F - 1) + E * 2 ^ (fp F - 1) + m in
  0 <= x < 2 ^ fbits F /\ f_E F x = E /\ f_m F x = m /\ f_sign F x = (S =? 1).
Proof.
  intros Hok HS HE Hm x. destruct (fmt_pows F Hok) as (HP & HQ & HQP & Hfb & _).
  unfold f_E, f_m, f_sign. subst x. rewrite HQP, Hfb.
  set (P := 2 ^ (fp F - 1)) in *. set (Q := 2 ^ ebits F) in *.
  assert (HQPpos : 0 < Q * P) by nia.
  assert (Ha : (S * (Q * P) + E * P + m) mod (Q * P) = E * P + m).
  { symmetry. apply Z.mod_unique with S; [left; nia | lia]. }
  rewrite Ha.
  assert (HE' : (E * P + m) / P = E) by (symmetry; apply Z.div_unique with m; lia).
  assert (Hm' : (S * (Q * P) + E * P + m) mod P = m).
  { symmetry. apply Z.mod_unique with (S * Q + E); [left; lia | lia]. }
  clearbody P Q. clear HQP Hfb Hok.
  split; [|split; [assumption | split; [assumption|]]].
  - destruct HS as [-> | ->]; split; nia.
  - destruct HS as [-> | ->].
    + destruct (Z.leb_spec (Q * P) (0 * (Q * P) + E * P + m)); [nia | reflexivity].
    + destruct (Z.leb_spec (Q * P) (1 * (Q * P) + E * P + m)); [reflexivity | nia].
Qed.

(* ================= model primitives = spec fields ================= *)

Lemma raw_parts_spec F x : fmt_ok F -> 0 <= x < 2 ^ fbits F ->
  into_raw_parts F x = (f_sign F x, f_E F x, f_m F x).
Proof.
  intros Hok Hx. destruct Hok as (Hp & He & Hm). unfold ebits in *.
  unfold into_raw_parts, f_is_sign_negative, f_to_bits, u_shr, u_and, u_max, B, f_sign, f_E, f_m.
  rewrite (testbit_top x (fbits F - 1)) by (try lia; replace (fbits F - 1 + 1) with (fbits F) by lia; lia).
  rewrite (pow2_sub1_div (fbits F) 1) by lia.
  rewrite land_ones_mod by lia.
  rewrite (pow2_sub1_div (fbits F) (fbits F - (fp F - 1))) by lia.
  replace (fbits F - (fbits F - (fp F - 1))) with (fp F - 1) by lia.
  rewrite land_ones_mod by lia. reflexivity.
Qed.

Lemma sign_negative_spec F x : fmt_ok F -> 0 <= x < 2 ^ fbits F -> f_is_sign_negative F x = f_sign F x.
Proof.
  intros Hok Hx. destruct Hok as (Hp & He & Hm). unfold ebits in *. unfold f_is_sign_negative, f_sign.
  apply testbit_top; [lia|]. replace (fbits F - 1 + 1) with (fbits F) by lia. lia.
Qed.

Lemma nan_core P Q E m : 2 <= P -> 4 <= Q -> 0 <= E < Q -> 0 <= m < P ->
  ((Q - 1) * P <? E * P + m) = ((E =? Q - 1) && negb (m =? 0)).
Proof.
  intros. destruct (Z.ltb_spec ((Q - 1) * P) (E * P + m));
    destruct (Z.eqb_spec E (Q - 1)); destruct (Z.eqb_spec m 0); cbn; try reflexivity; nia.
Qed.

Lemma inf_core P Q E m : 2 <= P -> 4 <= Q -> 0 <= E < Q -> 0 <= m < P ->
  (E * P + m =? (Q - 1) * P) = ((E =? Q - 1) && (m =? 0)).
Proof.
  intros. destruct (Z.eqb_spec (E * P + m) ((Q - 1) * P));
    destruct (Z.eqb_spec E (Q - 1)); destruct (Z.eqb_spec m 0); cbn; try reflexivity; nia.
Qed.

Lemma is_nan_spec F x : fmt_ok F -> 0 <= x < 2 ^ fbits F -> f_is_nan F x = f_nan F x.
Proof.
  intros Hok Hx. destruct (f_decomp F x Hok Hx) as (S & HS & Hxe & HE & Hm & Hs & Ha).
  destruct (fmt_pows F Hok) as (HP & HQ & HQP & Hfb & HME & _ & Hinf & _).
  unfold f_is_nan, f_abs_bits, f_nan, E_max. rewrite Ha, Hinf.
  apply nan_core; assumption.
Qed.

Lemma is_infinite_spec F x : fmt_ok F -> 0 <= x < 2 ^ fbits F -> f_is_infinite F x = f_inf F x.
Proof.
  intros Hok Hx. destruct (f_decomp F x Hok Hx) as (S & HS & Hxe & HE & Hm & Hs & Ha).
  destruct (fmt_pows F Hok) as (HP & HQ & HQP & Hfb & HME & _ & Hinf & _).
  unfold f_is_infinite, f_abs_bits, f_inf, E_max. rewrite Ha, Hinf.
  apply inf_core; assumption.
Qed.

Lemma u_shl_one mb i : 0 <= i < mb -> u_shl mb 1 i = 2 ^ i.
Proof.
  intros Hi. unfold u_shl, B. rewrite Z.mul_1_l. apply Z.mod_small.
  split; [pose proof (pow2_pos i ltac:(lia)); lia | apply pow2_lt; lia].
Qed.

Lemma norm_parts_normal F x : fmt_ok F -> 0 <= x < 2 ^ fbits F -> f_E F x <> 0 ->
  into_normalised_signed_parts F x = (f_sign F x, f_E F x - EXP_BIAS F, 2 ^ (fp F - 1) + f_m F x).
Proof.
  intros Hok Hx HE0. destruct (f_decomp F x Hok Hx) as (S & HS & Hxe & HE & Hm & Hs & Ha).
  destruct (fmt_pows F Hok) as (HP & HQ & HQP & Hfb & HME & _ & Hinf & H2P).
  pose proof Hok as (Hp & He & Hmx). unfold ebits in He.
  unfold into_normalised_signed_parts, into_signed_parts, into_signed_biased_parts, into_biased_parts.
  rewrite raw_parts_spec by assumption.
  destruct (Z.eqb_spec (f_E F x) 0) as [|_]; [contradiction|].
  rewrite u_shl_one by lia. unfold u_or.
  assert (Hl : Z.lor (f_m F x) (2 ^ (fp F - 1)) = 2 ^ (fp F - 1) + f_m F x).
  { rewrite Z.lor_comm. pose proof (lor_mul_pow2_add 1 (f_m F x) (fp F - 1) ltac:(lia) Hm) as L.
    rewrite Z.mul_1_l in L. exact L. }
  rewrite Hl.
  rewrite (bitlen_unique (2 ^ (fp F - 1) + f_m F x) (fp F)) by lia.
  rewrite Z.sub_diag, Z.eqb_refl, orb_true_r. reflexivity.
Qed.

Lemma norm_parts_subnormal F x : fmt_ok F -> 0 <= x < 2 ^ fbits F -> f_E F x = 0 ->
  exists e m, into_normalised_signed_parts F x = (f_sign F x, e, m) /\ (m = 0 \/ e <= -1).
Proof.
  intros Hok Hx HE0. destruct (f_decomp F x Hok Hx) as (S & HS & Hxe & HE & Hm & Hs & Ha).
  destruct (fmt_pows F Hok) as (HP & HQ & HQP & Hfb & HME & HME2 & Hinf & H2P).
  pose proof Hok as (Hp & He & Hmx).
  unfold into_normalised_signed_parts, into_signed_parts, into_signed_biased_parts, into_biased_parts.
  rewrite raw_parts_spec by assumption. rewrite HE0, Z.eqb_refl. cbv beta iota.
  destruct (Z.eqb_spec (f_m F x) 0) as [Hm0|Hm0].
  - cbn [orb]. eexists _, _. split; [reflexivity|]. left; assumption.
  - cbn [orb]. pose proof (bitlen_le (f_m F x) (fp F - 1) ltac:(lia) Hm) as Hbl.
    destruct (Z.eqb_spec (fp F - bitlen (f_m F x)) 0) as [Hz|Hz]; [lia|].
    eexists _, _. split; [reflexivity|]. right. unfold EXP_BIAS. lia.
Qed.

(* ================= constants of Core.v ================= *)

Lemma wf_repeat w n d : digit_ok w d -> wf w n (repeat d n).
Proof.
  intros Hd. split; [apply repeat_length|]. apply Forall_forall. intros y Hy.
  apply repeat_spec in Hy. subst; assumption.
Qed.

Lemma uval_repeat0 w n : uval w (repeat 0 n) = 0.
Proof. induction n as [|n IH]; cbn [repeat uval]; [reflexivity | rewrite IH; lia]. Qed.

Lemma uval_repeat_max w n : 0 <= w -> uval w (repeat (u_max w) n) = Mod w n - 1.
Proof.
  intros Hw. induction n as [|n IH]; cbn [repeat uval].
  - rewrite Mod_0. reflexivity.
  - rewrite IH, Mod_S by lia. unfold u_max. lia.
Qed.

Lemma ZERO_spec w n : 0 <= w -> wf w n (ZERO n) /\ uval w (ZERO n) = 0.
Proof.
  intros Hw. split; [|apply uval_repeat0]. apply wf_repeat. unfold digit_ok. pose proof (B_pos w Hw). lia.
Qed.

Lemma UMAX_spec w n : 0 <= w -> wf w n (UMAX w n) /\ uval w (UMAX w n) = Mod w n - 1.
Proof.
  intros Hw. split; [|apply uval_repeat_max; assumption]. apply wf_repeat.
  unfold digit_ok, u_max. pose proof (B_pos w Hw). lia.
Qed.

Lemma B_half w : 0 < w -> B w = 2 * (B w / 2) /\ 0 < B w / 2.
Proof.
  intros Hw. unfold B. replace w with (1 + (w - 1)) by lia. rewrite pow2_split by lia. change (2 ^ 1) with 2.
  pose proof (pow2_pos (w - 1) ltac:(lia)).
  rewrite (Z.mul_comm 2), Z.div_mul by lia. lia.
Qed.

Lemma Mod_S_half w k : 0 < w -> Mod w (S k) / 2 = Mod w k * (B w / 2).
Proof.
  intros Hw. rewrite Mod_S by lia. destruct (B_half w Hw) as [Hb Hh].
  rewrite Hb at 1. replace (2 * (B w / 2) * Mod w k) with (Mod w k * (B w / 2) * 2) by lia.
  apply Z.div_mul. lia.
Qed.

Lemma IMIN_spec w n : 0 < w -> (0 < n)%nat -> wf w n (IMIN w n) /\ uval w (IMIN w n) = Mod w n / 2.
Proof.
  intros Hw Hn. destruct n as [|k]; [lia|]. unfold IMIN. destruct (B_half w Hw) as [Hb Hh].
  split.
  - replace (S k) with (k + 1)%nat by lia. apply wf_app.
    + apply wf_repeat. unfold digit_ok. lia.
    + split; [reflexivity|]. constructor; [unfold digit_ok; lia | constructor].
  - rewrite uval_app by lia. rewrite uval_repeat0, repeat_length. cbn [uval].
    rewrite Mod_S_half by lia. lia.
Qed.

Lemma IMAX_spec w n : 0 < w -> (0 < n)%nat -> wf w n (IMAX w n) /\ uval w (IMAX w n) = Mod w n / 2 - 1.
Proof.
  intros Hw Hn. destruct n as [|k]; [lia|]. unfold IMAX. destruct (B_half w Hw) as [Hb Hh].
  split.
  - replace (S k) with (k + 1)%nat by lia. apply wf_app.
    + apply wf_repeat. unfold digit_ok, u_max. lia.
    + split; [reflexivity|]. constructor; [unfold digit_ok; lia | constructor].
  - rewrite uval_app by lia. rewrite uval_repeat_max, repeat_length by lia. cbn [uval].
    rewrite Mod_S_half by lia. pose proof (Mod_pos w k ltac:(lia)). lia.
Qed.

(* ================= as_buint (u32/u64 -> BUint) ================= *)

Lemma as_buint_spec tb w n v : 0 < w -> 0 <= v < 2 ^ tb ->
  wf w n (as_buint tb w n v) /\ uval w (as_buint tb w n v) = v mod Mod w n.
Proof.
  intros Hw. unfold as_buint. revert v. induction n as [|k IH]; intros v Hv.
  - cbn [as_buint_loop]. split; [apply wf_nil|]. rewrite Mod_0, Z.mod_1_r. reflexivity.
  - cbn [as_buint_loop]. destruct (Z.eqb_spec v 0) as [->|Hv0].
    + split; [apply (ZERO_spec w (S k)); lia|]. rewrite (uval_repeat0 w (S k)), Z.mod_0_l; [reflexivity|].
      pose proof (Mod_pos w (S k) ltac:(lia)). lia.
    + pose proof (B_pos w ltac:(lia)) as HB. pose proof (Mod_pos w k ltac:(lia)) as HM.
      assert (Hd : digit_ok w (v mod B w)) by (apply Z.mod_pos_bound; lia).
      destruct (Z.leb_spec tb w) as [Htb|Htb].
      * destruct (IH 0 ltac:(pose proof (pow2_pos tb); lia)) as [Hwf Hu].
        split; [apply wf_cons; split; assumption|].
        cbn [uval]. rewrite Hu, Z.mod_0_l by lia. rewrite Mod_S by lia.
        assert (0 <= tb) by (destruct (Z.lt_ge_cases tb 0); [rewrite Z.pow_neg_r in Hv by lia; lia | lia]).
        assert (v < B w) by (unfold B; eapply Z.lt_le_trans; [apply Hv | apply pow2_le; lia]).
        rewrite !Z.mod_small by nia. lia.
      * unfold u_shr. fold (B w).
        destruct (IH (v / B w)) as [Hwf Hu].
        { split; [apply Z.div_pos; lia|]. apply Z.div_lt_upper_bound; [lia|]. nia. }
        split; [apply wf_cons; split; assumption|].
        cbn [uval]. rewrite Hu, Mod_S by lia. rewrite Z.rem_mul_r by lia. reflexivity.
Qed.

(* ================= shifts through the inherent shl / shr ================= *)

Lemma U_shl_ok dbg w n x s : shl_internal_spec -> 0 < w -> wf w n x -> 0 <= s < bits w n ->
  exists r, U_shl dbg w x s = Ret r /\ wf w n r /\ uval w r = (uval w x * 2 ^ s) mod Mod w n.
Proof.
  intros Hshl Hw Hx Hs. destruct (Hshl w n x s Hw Hx Hs) as [Hwf Hu].
  exists (shl_internal w x s). split; [|split; assumption].
  unfold U_shl, U_strict_shl, U_checked_shl, U_wrapping_shl, U_overflowing_shl.
  rewrite (wf_length _ _ _ Hx). destruct (Z.leb_spec (bits w n) s); [lia|]. destruct dbg; reflexivity.
Qed.

Lemma U_shr_ok dbg w n x s : shr_pad_internal_spec -> 0 < w -> wf w n x -> 0 <= s < bits w n ->
  exists r, U_shr dbg w x s = Ret r /\ wf w n r /\ uval w r = uval w x / 2 ^ s.
Proof.
  intros Hshr Hw Hx Hs. destruct (Hshr w n x s Hw Hx Hs) as [Hwf Hu].
  exists (shr_pad_internal w false x s). split; [|split; assumption].
  unfold U_shr, U_strict_shr, U_checked_shr, U_wrapping_shr, U_overflowing_shr.
  rewrite (wf_length _ _ _ Hx). destruct (Z.leb_spec (bits w n) s); [lia|]. destruct dbg; reflexivity.
Qed.

(* ================= magnitude of a normal float ================= *)

Lemma scaled_bounds_down Mt p e : 1 <= p -> 2 ^ (p - 1) <= Mt < 2 ^ p -> 0 <= e <= p - 1 ->
  2 ^ e <= Mt / 2 ^ (p - 1 - e) < 2 ^ (e + 1).
Proof.
  intros Hp HM He.
  assert (A : 2 ^ (p - 1) = 2 ^ e * 2 ^ (p - 1 - e)) by (rewrite <- pow2_split by lia; f_equal; lia).
  assert (A' : 2 ^ p = 2 ^ (e + 1) * 2 ^ (p - 1 - e)) by (rewrite <- pow2_split by lia; f_equal; lia).
  pose proof (pow2_pos (p - 1 - e) ltac:(lia)).
  split; [apply Z.div_le_lower_bound; lia | apply Z.div_lt_upper_bound; lia].
Qed.

Lemma scaled_bounds_up Mt p e : 1 <= p -> 2 ^ (p - 1) <= Mt < 2 ^ p -> p - 1 <= e ->
  2 ^ e <= Mt * 2 ^ (e - (p - 1)) < 2 ^ (e + 1).
Proof.
  intros Hp HM He.
  assert (A : 2 ^ e = 2 ^ (p - 1) * 2 ^ (e - (p - 1))) by (rewrite <- pow2_split by lia; f_equal; lia).
  assert (A' : 2 ^ (e + 1) = 2 ^ p * 2 ^ (e - (p - 1))) by (rewrite <- pow2_split by lia; f_equal; lia).
  pose proof (pow2_pos (e - (p - 1)) ltac:(lia)). nia.
Qed.

Lemma f_trunc_normal F x : fmt_ok F -> 0 <= x < 2 ^ fbits F -> f_E F x <> 0 ->
  let e := f_E F x - EXP_BIAS F in
  let Mt := 2 ^ (fp F - 1) + f_m F x in
  (e <= -1 -> f_trunc F x = 0) /\
  (0 <= e -> 2 ^ e <= f_trunc F x < 2 ^ (e + 1)) /\
  (0 <= e <= fp F - 1 -> f_trunc F x = Mt / 2 ^ (fp F - 1 - e)) /\
  (fp F - 1 <= e -> f_trunc F x = Mt * 2 ^ (e - (fp F - 1))).
Proof.
  intros Hok Hx HE0 e Mt. destruct (f_decomp F x Hok Hx) as (S & HS & Hxe & HE & Hm & Hs & Ha).
  destruct (fmt_pows F Hok) as (HP & HQ & HQP & Hfb & HME & HME2 & Hinf & H2P).
  pose proof Hok as (Hp & He & Hmx).
  assert (HMt : 2 ^ (fp F - 1) <= Mt < 2 ^ fp F) by (subst Mt; lia).
  unfold f_trunc, f_exp, f_mant. destruct (Z.eqb_spec (f_E F x) 0) as [|_]; [contradiction|].
  fold e. fold Mt.
  destruct (Z.leb_spec 0 (e - (fp F - 1))) as [Hge|Hlt].
  - (split; [|split; [|split]]); intros Hc.
    + lia.
    + apply scaled_bounds_up; lia.
    + replace e with (fp F - 1) by lia. replace (fp F - 1 - (fp F - 1)) with 0 by lia.
      change (2 ^ 0) with 1. rewrite Z.div_1_r. lia.
    + reflexivity.
  - replace (- (e - (fp F - 1))) with (fp F - 1 - e) by lia.
    (split; [|split; [|split]]); intros Hc.
    + apply Z.div_small. split; [lia|]. eapply Z.lt_le_trans; [apply HMt|]. apply pow2_le; lia.
    + apply scaled_bounds_down; lia.
    + reflexivity.
    + lia.
Qed.

Lemma f_trunc_subnormal F x : fmt_ok F -> 0 <= x < 2 ^ fbits F -> f_E F x = 0 -> f_trunc F x = 0.
Proof.
  intros Hok Hx HE0. destruct (f_decomp F x Hok Hx) as (S & HS & Hxe & HE & Hm & Hs & Ha).
  destruct (fmt_pows F Hok) as (HP & HQ & HQP & Hfb & HME & HME2 & Hinf & H2P).
  pose proof Hok as (Hp & He & Hmx).
  unfold f_trunc, f_exp, f_mant. rewrite HE0, Z.eqb_refl. unfold EXP_BIAS.
  destruct (Z.leb_spec 0 (1 - (MAX_EXP F - 1) - (fp F - 1))); [lia|].
  apply Z.div_small. split; [lia|]. eapply Z.lt_le_trans; [apply Hm|]. apply pow2_le; lia.
Qed.

Lemma f_trunc_nonneg F x : fmt_ok F -> 0 <= x < 2 ^ fbits F -> 0 <= f_trunc F x.
Proof.
  intros Hok Hx. destruct (Z.eq_dec (f_E F x) 0) as [H0|H0].
  - rewrite f_trunc_subnormal by assumption. lia.
  - destruct (f_trunc_normal F x Hok Hx H0) as (A & B & _).
    destruct (Z.le_gt_cases 0 (f_E F x - EXP_BIAS F)).
    + pose proof (pow2_pos (f_E F x - EXP_BIAS F) ltac:(lia)). lia.
    + rewrite A by lia. lia.
Qed.

(* ================= float -> unsigned ================= *)

Ltac Zify.zify_post_hook ::= idtac.

Lemma sat_U_big M v : 0 < M -> M <= v -> sat_U M v = M - 1.
Proof. intros. unfold sat_U. destruct (Z.ltb_spec v 0); [lia|]. destruct (Z.leb_spec M v); lia. Qed.
Lemma sat_U_id M v : 0 <= v < M -> sat_U M v = v.
Proof. intros. unfold sat_U. destruct (Z.ltb_spec v 0); [lia|]. destruct (Z.leb_spec M v); lia. Qed.
Lemma sat_U_nonpos M v : 0 < M -> v <= 0 -> sat_U M v = 0.
Proof. intros. unfold sat_U. destruct (Z.ltb_spec v 0); [lia|]. destruct (Z.leb_spec M v); lia. Qed.

Lemma Mod_le_pow w n e : 0 < w -> bits w n <= e -> Mod w n <= 2 ^ e.
Proof. intros Hw He. unfold Mod, bits in *. apply pow2_le. split; [apply Z.mul_nonneg_nonneg; lia | lia]. Qed.
Lemma pow_le_Mod w n e : 0 < w -> 0 <= e <= bits w n -> 2 ^ e <= Mod w n.
Proof. intros Hw He. unfold Mod, bits in *. apply pow2_le. lia. Qed.

Lemma div_pow2_le a k : 0 <= a -> 0 <= k -> a / 2 ^ k <= a.
Proof.
  intros Ha Hk. pose proof (pow2_pos k Hk). apply Z.div_le_upper_bound; [lia | nia].
Qed.

Theorem cast_uint_from_float_ok dbg F w n x :
  shl_internal_spec -> fmt_ok F -> 0 < w -> 0 <= x < 2 ^ fbits F ->
  exists r, cast_uint_from_float dbg F w n x = Ret r /\ wf w n r /\
            uval w r = float_to_U_spec F (Mod w n) x.
Proof.
  intros Hshl Hok Hw Hx.
  destruct (f_decomp F x Hok Hx) as (S & _ & _ & HE & Hm & _ & _).
  destruct (fmt_pows F Hok) as (HP & HQ & _ & _ & HME & HME2 & _ & H2P).
  pose proof Hok as (Hp & He & Hmx).
  pose proof (Mod_pos w n ltac:(lia)) as HMod.
  pose proof (f_trunc_nonneg F x Hok Hx) as Htr0.
  destruct (ZERO_spec w n ltac:(lia)) as [Zwf Zu]. destruct (UMAX_spec w n ltac:(lia)) as [Mwf Mu].
  unfold cast_uint_from_float, float_to_U_spec, f_trunc_signed.
  rewrite is_nan_spec, is_infinite_spec by assumption.
  destruct (f_nan F x) eqn:Hnan; [exists (ZERO n); auto|].
  destruct (Z.eq_dec (f_E F x) 0) as [HE0|HE0].
  - (* zero / subnormal *)
    destruct (norm_parts_subnormal F x Hok Hx HE0) as (e & m & Hnp & Hem). rewrite Hnp.
    assert (Hinf0 : f_inf F x = false).
    { unfold f_inf, E_max. destruct (Z.eqb_spec (f_E F x) (2 ^ ebits F - 1)); [lia | reflexivity]. }
    rewrite Hinf0. rewrite (f_trunc_subnormal F x Hok Hx HE0).
    assert (Hsat : sat_U (Mod w n) (if f_sign F x then - 0 else 0) = 0).
    { destruct (f_sign F x); apply sat_U_nonpos; lia. }
    rewrite Hsat.
    destruct (f_sign F x); [exists (ZERO n); auto|].
    destruct (Z.eqb_spec m 0); [exists (ZERO n); auto|].
    destruct (Z.ltb_spec e (-1)); [exists (ZERO n); auto|].
    destruct (Z.eqb_spec e (-1)); [exists (ZERO n); auto|]. lia.
  - (* normal, infinite *)
    rewrite (norm_parts_normal F x Hok Hx HE0).
    destruct (f_trunc_normal F x Hok Hx HE0) as (T1 & T2 & T3 & T4).
    set (e := f_E F x - EXP_BIAS F) in *. set (Mt := 2 ^ (fp F - 1) + f_m F x) in *.
    assert (HMt : 2 ^ (fp F - 1) <= Mt < 2 ^ fp F) by (subst Mt; lia).
    clearbody e Mt. clear Hm HE HE0 Hx Hnan.
    destruct (f_sign F x) eqn:Hsg.
    { exists (ZERO n). split; [reflexivity|]. split; [assumption|]. rewrite Zu.
      destruct (f_inf F x); [reflexivity|]. symmetry. apply sat_U_nonpos; lia. }
    destruct (f_inf F x) eqn:Hinff; [exists (UMAX w n); auto|].
    destruct (Z.eqb_spec Mt 0) as [|_]; [lia|].
    assert (Hsat0 : f_trunc F x = 0 -> sat_U (Mod w n) (f_trunc F x) = 0).
    { intros ->. apply sat_U_nonpos; lia. }
    destruct (Z.ltb_spec e (-1)); [exists (ZERO n); rewrite Hsat0 by (apply T1; lia); auto|].
    destruct (Z.eqb_spec e (-1)); [exists (ZERO n); rewrite Hsat0 by (apply T1; lia); auto|].
    destruct (Z.ltb_spec e 0); [lia|].
    specialize (T2 ltac:(lia)). clear T1 Hsat0.
    destruct (Z.leb_spec (bits w n) e) as [Hbe|Hbe].
    { exists (UMAX w n). split; [reflexivity|]. split; [assumption|]. rewrite Mu.
      pose proof (Mod_le_pow w n e Hw Hbe). symmetry. apply sat_U_big; lia. }
    pose proof (pow_le_Mod w n (e + 1) Hw ltac:(lia)) as HpM.
    assert (Hlt : f_trunc F x < Mod w n) by lia.
    rewrite (sat_U_id (Mod w n) (f_trunc F x)) by lia.
    rewrite (bitlen_unique Mt (fp F)) by lia.
    assert (HMtb : 0 <= Mt < 2 ^ fbits F).
    { split; [lia|]. eapply Z.lt_le_trans; [apply HMt|]. apply pow2_le. unfold ebits in He. lia. }
    destruct (Z.leb_spec e (fp F - 1)) as [Hle|Hgt].
    + unfold u_shr.
      destruct (as_buint_spec (fbits F) w n (Mt / 2 ^ (fp F - 1 - e)) Hw) as [Awf Au].
      { pose proof (div_pow2_le Mt (fp F - 1 - e) ltac:(lia) ltac:(lia)).
        split; [apply Z.div_pos; [lia | apply pow2_pos; lia] | lia]. }
      eexists. split; [reflexivity|]. split; [assumption|].
      rewrite Au, <- T3 by lia. apply Z.mod_small. lia.
    + destruct (as_buint_spec (fbits F) w n Mt Hw HMtb) as [Awf Au].
      destruct (U_shl_ok dbg w n _ (e - (fp F - 1)) Hshl Hw Awf ltac:(lia)) as (r & Hr & Rwf & Ru).
      exists r. split; [assumption|]. split; [assumption|].
      rewrite Ru, Au. rewrite Z.mul_mod_idemp_l by lia. rewrite <- T4 by lia. apply Z.mod_small. lia.
Qed.

(* ================= float negation on the bit pattern ================= *)

Lemma f_neg_fields F x : fmt_ok F -> 0 <= x < 2 ^ fbits F ->
  0 <= f_neg F x < 2 ^ fbits F /\ f_E F (f_neg F x) = f_E F x /\ f_m F (f_neg F x) = f_m F x /\
  f_sign F (f_neg F x) = negb (f_sign F x) /\
  f_neg F x = if f_sign F x then x - 2 ^ (fbits F - 1) else x + 2 ^ (fbits F - 1).
Proof.
  intros Hok Hx. destruct (f_decomp F x Hok Hx) as (S & HS & Hxe & HE & Hm & Hs & Ha).
  pose proof Hok as (Hp & He & Hmx). unfold ebits in He.
  assert (Hb : Z.testbit x (fbits F - 1) = f_sign F x) by (apply sign_negative_spec; assumption).
  assert (Hn : f_neg F x = if f_sign F x then x - 2 ^ (fbits F - 1) else x + 2 ^ (fbits F - 1)).
  { unfold f_neg. destruct (f_sign F x); [apply lxor_pow2_clear | apply lxor_pow2_set]; auto; lia. }
  destruct HS as [-> | ->]; rewrite Hs in Hn; rewrite Hs; cbn [Z.eqb negb] in *.
  - change (0 =? 1) with false in *. cbv iota in Hn.
    destruct (f_fields_of F 1 (f_E F x) (f_m F x) Hok ltac:(auto) HE Hm) as (R & E1 & E2 & E3).
    replace (1 * 2 ^ (fbits F - 1) + f_E F x * 2 ^ (fp F - 1) + f_m F x) with (f_neg F x) in * by lia.
    rewrite E1, E2, E3. repeat split; lia.
  - change (1 =? 1) with true in *. cbv iota in Hn.
    destruct (f_fields_of F 0 (f_E F x) (f_m F x) Hok ltac:(auto) HE Hm) as (R & E1 & E2 & E3).
    replace (0 * 2 ^ (fbits F - 1) + f_E F x * 2 ^ (fp F - 1) + f_m F x) with (f_neg F x) in * by lia.
    rewrite E1, E2, E3. repeat split; lia.
Qed.

(* ================= float -> signed ================= *)

Lemma I_neg_ok dbg w n u : I_overflowing_neg_spec -> 0 < w -> (0 < n)%nat -> wf w n u ->
  uval w u < Mod w n / 2 ->
  exists r, I_neg dbg w u = Ret r /\ wf w n r /\ sval w r = - uval w u.
Proof.
  intros Hneg Hw Hn Hu Hlt. destruct (Hneg w n u Hw Hn Hu) as (Rwf & Ru & Ro).
  pose proof (uval_bounds w n u ltac:(lia) Hu) as Hb.
  pose proof (Mod_pos w n ltac:(lia)) as HM. pose proof (Mod_even w n Hw Hn) as HMe.
  exists (fst (I_overflowing_neg w u)). split.
  - unfold I_neg, I_strict_neg, I_checked_neg, I_wrapping_neg, tuple_to_option. rewrite Ro.
    destruct (Z.eqb_spec (uval w u) (Mod w n / 2)); [lia|]. destruct dbg; reflexivity.
  - split; [assumption|]. unfold sval. rewrite (wf_length _ _ _ Rwf), Ru.
    rewrite to_signed_of_mod by assumption. apply wrapS_id; lia.
Qed.

Theorem I_from_float_ok dbg F w n x :
  shl_internal_spec -> I_overflowing_neg_spec -> is_negative_spec -> ucmp_spec ->
  fmt_ok F -> 0 < w -> (0 < n)%nat -> 0 <= x < 2 ^ fbits F ->
  exists r, I_from_float dbg F w n x = Ret r /\ wf w n r /\
            sval w r = float_to_S_spec F (Mod w n) x.
Proof.
  intros Hshl Hneg Hisneg Hcmp Hok Hw Hn Hx.
  pose proof (Mod_pos w n ltac:(lia)) as HM. pose proof (Mod_even w n Hw Hn) as HMe.
  pose proof (f_trunc_nonneg F x Hok Hx) as Htr0.
  destruct (IMIN_spec w n Hw Hn) as [Nwf Nu]. destruct (IMAX_spec w n Hw Hn) as [Xwf Xu].
  unfold I_from_float, U_from_float. rewrite sign_negative_spec by assumption.
  unfold float_to_S_spec, f_trunc_signed.
  destruct (f_sign F x) eqn:Hsg.
  - destruct (f_neg_fields F x Hok Hx) as (Rn & En & Mn & Sn & _). rewrite Hsg in Sn. cbn [negb] in Sn.
    destruct (cast_uint_from_float_ok dbg F w n (f_neg F x) Hshl Hok Hw Rn) as (u & Hu & Uwf & Uu).
    rewrite Hu. cbn [obind].
    assert (HU : uval w u = if f_nan F x then 0 else if f_inf F x then Mod w n - 1 else sat_U (Mod w n) (f_trunc F x)).
    { rewrite Uu. unfold float_to_U_spec, f_trunc_signed, f_nan, f_inf, f_trunc, f_mant, f_exp.
      rewrite En, Mn, Sn. reflexivity. }
    rewrite (Hcmp w n u (IMIN w n) Hw Uwf Nwf), Nu.
    destruct (Z.compare_spec (uval w u) (Mod w n / 2)) as [Hc|Hc|Hc]; cbn [cmp_ge].
    + exists (IMIN w n). split; [reflexivity|]. split; [assumption|].
      unfold sval. rewrite (wf_length _ _ _ Nwf), Nu. unfold to_signed. rewrite Z.ltb_irrefl.
      rewrite HU in Hc. destruct (f_nan F x); [lia|]. destruct (f_inf F x); [lia|].
      unfold sat_U in Hc. unfold sat_S.
      destruct (Z.ltb_spec (f_trunc F x) 0); [lia|].
      destruct (Z.leb_spec (Mod w n) (f_trunc F x)); destruct (Z.ltb_spec (- f_trunc F x) (- (Mod w n / 2)));
        destruct (Z.leb_spec (Mod w n / 2) (- f_trunc F x)); lia.
    + destruct (I_neg_ok dbg w n u Hneg Hw Hn Uwf Hc) as (r & Hr & Rwf & Rs).
      exists r. split; [assumption|]. split; [assumption|]. rewrite Rs.
      rewrite HU in Hc |- *. destruct (f_nan F x); [lia|]. destruct (f_inf F x); [lia|].
      unfold sat_U in *. unfold sat_S.
      destruct (Z.ltb_spec (f_trunc F x) 0); [lia|].
      destruct (Z.leb_spec (Mod w n) (f_trunc F x)); destruct (Z.ltb_spec (- f_trunc F x) (- (Mod w n / 2)));
        destruct (Z.leb_spec (Mod w n / 2) (- f_trunc F x)); lia.
    + exists (IMIN w n). split; [reflexivity|]. split; [assumption|].
      unfold sval. rewrite (wf_length _ _ _ Nwf), Nu. unfold to_signed. rewrite Z.ltb_irrefl.
      rewrite HU in Hc. destruct (f_nan F x); [lia|]. destruct (f_inf F x); [lia|].
      unfold sat_U in Hc. unfold sat_S.
      destruct (Z.ltb_spec (f_trunc F x) 0); [lia|].
      destruct (Z.leb_spec (Mod w n) (f_trunc F x)); destruct (Z.ltb_spec (- f_trunc F x) (- (Mod w n / 2)));
        destruct (Z.leb_spec (Mod w n / 2) (- f_trunc F x)); lia.
  - destruct (cast_uint_from_float_ok dbg F w n x Hshl Hok Hw Hx) as (u & Hu & Uwf & Uu).
    rewrite Hu. cbn [obind].
    assert (HU : uval w u = if f_nan F x then 0 else if f_inf F x then Mod w n - 1 else sat_U (Mod w n) (f_trunc F x)).
    { rewrite Uu. unfold float_to_U_spec, f_trunc_signed. rewrite Hsg. reflexivity. }
    rewrite (Hisneg w n u Hw Hn Uwf).
    destruct (Z.leb_spec (Mod w n / 2) (uval w u)) as [Hc|Hc].
    + exists (IMAX w n). split; [reflexivity|]. split; [assumption|].
      unfold sval. rewrite (wf_length _ _ _ Xwf), Xu. unfold to_signed.
      destruct (Z.ltb_spec (Mod w n / 2 - 1) (Mod w n / 2)); [|lia].
      rewrite HU in Hc. destruct (f_nan F x); [lia|]. destruct (f_inf F x); [lia|].
      unfold sat_U in Hc. unfold sat_S.
      destruct (Z.ltb_spec (f_trunc F x) 0); [lia|].
      destruct (Z.leb_spec (Mod w n) (f_trunc F x)); destruct (Z.ltb_spec (f_trunc F x) (- (Mod w n / 2)));
        destruct (Z.leb_spec (Mod w n / 2) (f_trunc F x)); lia.
    + exists u. split; [reflexivity|]. split; [assumption|].
      unfold sval. rewrite (wf_length _ _ _ Uwf). unfold to_signed.
      destruct (Z.ltb_spec (uval w u) (Mod w n / 2)); [|lia].
      rewrite HU in Hc |- *. destruct (f_nan F x); [lia|]. destruct (f_inf F x); [lia|].
      unfold sat_U in *. unfold sat_S.
      destruct (Z.ltb_spec (f_trunc F x) 0); [lia|].
      destruct (Z.leb_spec (Mod w n) (f_trunc F x)); destruct (Z.ltb_spec (f_trunc F x) (- (Mod w n / 2)));
        destruct (Z.leb_spec (Mod w n / 2) (f_trunc F x)); lia.
Qed.

(* ================= the pinned (pre-fix) float -> unsigned cast violates the specification ================= *)

(* 0.75f64 = 0x3fe8000000000000: the old code returns 1, truncation toward zero gives 0 *)
Theorem float_to_int_refuted :
  exists x r, 0 <= x < 2 ^ fbits F64 /\ cast_uint_from_float_prefix true F64 64 2 x = Ret r /\
              uval 64 r <> float_to_U_spec F64 (Mod 64 2) x.
Proof.
  exists 0x3fe8000000000000, [1; 0]. split; [vm_compute; split; [discriminate | reflexivity]|].
  split; [vm_compute; reflexivity|]. vm_compute. discriminate.
Qed.

(* Proofs/NtGenTieRoots.v — tie, part 3: the inherent `fixpoint` (higher-order: the closure is a function argument, related
   to the model's step function pointwise), the three Newton closures, and `impl Roots for $BUint<N>` (sqrt, cbrt, nth_root
   with the expanded check_zero_or_one! macro and the to_u128 shortcut) of src/buint/numtraits.rs.
   The model's `fixpoint` runs each of its two loops for at most 2^depth steps (run_pow2); the generated code runs them on
   `fuel`: for every fuel >= 2^depth the generated result is the model's, whenever the model's budget suffices (the C18
   theorems prove it does: TU_sqrt_contract ..). *)
From Bnum Require Import Base Prim.
From Bnum.Model Require Import Digit DigitPrims Core Shift AddSub Mul Div Bits Pow Imp ImpParse NumTraits.
From Bnum.Model Require Ops.
From Bnum.Generated Require Import NtGen.
From Bnum.Proofs Require Import ImpLemmas ImpLemmas2 NtGenTieBase.

(* ---------- fixpoint ---------- *)

Section FixpointTie.
  Context (w : Z) (n : nat) (max_bits : Z).
  Context (f : list Z -> outcome (list Z)) (f' : list Z -> res (list Z)).
  Context (Hf : forall s, f' s = of_outcome (f s)).
  Context {A : Type}.

  (* `while self > xn { self = xn; xn = f(self); }` followed by `after` *)
  Lemma fixpoint_down_tie (cond : list Z * list Z -> bool) (body : list Z * list Z -> res (flow (list Z * list Z) (list Z)))
        (after : loop_exit (list Z * list Z) (list Z) -> res A) (fin : list Z -> res A) :
    (forall s sn, cond (s, sn) = cmp_gt (ucmp s sn)) ->
    (forall s sn, body (s, sn) = bind (f' sn) (fun xn' => Done (Continue (sn, xn')))) ->
    (forall s sn, after (Exited (s, sn)) = fin s) ->
    forall depth st r, run_pow2 (fixpoint_down_step f) depth st = inr r ->
    forall fuel, (2 ^ depth <= fuel)%nat ->
    bind (while_loop fuel cond body st) after = match r with Ret x => fin x | Panic => Panicked end.
  Proof.
    intros Hc Hb Ha depth st r E fuel Hfuel.
    refine (run_pow2_stop (fixpoint_down_step f) cond body after
             (fun r => match r with Ret x => fin x | Panic => Panicked end) _ depth st r E fuel Hfuel).
    intros [s sn]. unfold fixpoint_down_step. rewrite Hc, Hb, Hf.
    destruct (cmp_gt (ucmp s sn)).
    - destruct (f sn) as [xn'|]; cbn [of_outcome bind].
      + split; reflexivity.
      + right. repeat split; reflexivity.
    - left. split; [reflexivity|apply Ha].
  Qed.

  (* `while self < xn { self = if xn.bits() > max_bits { power_of_two(max_bits) } else { xn }; xn = f(self); }` *)
  Lemma fixpoint_up_tie (cond : list Z * list Z -> bool) (body : list Z * list Z -> res (flow (list Z * list Z) (list Z)))
        (after : loop_exit (list Z * list Z) (list Z) -> res A) :
    (forall s sn, cond (s, sn) = cmp_lt (ucmp s sn)) ->
    (forall s sn, body (s, sn) =
       bind (if bits_of w sn >? max_bits then bind (of_outcome (power_of_two w n max_bits)) (fun t => Done t) else Done sn)
            (fun s' => bind (f' s') (fun xn' => Done (Continue (s', xn'))))) ->
    forall depth st o, run_pow2 (fixpoint_up_step w n max_bits f) depth st = inr o ->
    forall fuel, (2 ^ depth <= fuel)%nat ->
    bind (while_loop fuel cond body st) after = match o with Ret st' => after (Exited st') | Panic => Panicked end.
  Proof.
    intros Hc Hb depth st o E fuel Hfuel.
    refine (run_pow2_stop (fixpoint_up_step w n max_bits f) cond body after
             (fun o => match o with Ret st' => after (Exited st') | Panic => Panicked end) _ depth st o E fuel Hfuel).
    intros [s sn]. unfold fixpoint_up_step. rewrite Hc, Hb, Z.gtb_ltb.
    destruct (cmp_lt (ucmp s sn)).
    - destruct (max_bits <? bits_of w sn).
      + destruct (power_of_two w n max_bits) as [x'|]; cbn [of_outcome bind].
        * rewrite Hf. destruct (f x') as [xn'|]; cbn [of_outcome bind].
          -- split; reflexivity.
          -- right. repeat split; reflexivity.
        * right. repeat split; reflexivity.
      + cbn [bind]. rewrite Hf. destruct (f sn) as [xn'|]; cbn [of_outcome bind].
        * split; reflexivity.
        * right. repeat split; reflexivity.
    - left. split; reflexivity.
  Qed.
End FixpointTie.

Lemma nt_fixpoint depth w N x max_bits (f : list Z -> outcome (list Z)) (f' : list Z -> res (list Z)) :
  N = Z.of_nat (length x) ->
  (forall s, f' s = of_outcome (f s)) ->
  forall fuel, (2 ^ depth <= fuel)%nat ->
  fo_matches (NumTraits.fixpoint depth w x max_bits f) (NtGen.fixpoint w N fuel x max_bits f').
Proof.
  intros -> Hf fuel Hfuel. unfold NumTraits.fixpoint, NtGen.fixpoint. rewrite Hf, Nat2Z.id.
  destruct (f x) as [xn|]; cbn [of_outcome bind]; [|reflexivity].
  destruct (run_pow2 (fixpoint_up_step w (length x) max_bits f) depth (x, xn)) as [st|[[s sn]|]] eqn:E1; [exact I| |].
  - destruct (run_pow2 (fixpoint_down_step f) depth (s, sn)) as [st2|r] eqn:E2; [exact I|].
    erewrite (fixpoint_up_tie w (length x) max_bits f f' Hf _ _ _ _ _ depth (x, xn) (Ret (s, sn)) E1 fuel Hfuel).
    cbv beta iota.
    erewrite (fixpoint_down_tie f f' Hf _ _ _ (fun x => Done x) _ _ _ depth (s, sn) r E2 fuel Hfuel).
    destruct r; reflexivity.
  - erewrite (fixpoint_up_tie w (length x) max_bits f f' Hf _ _ _ _ _ depth (x, xn) Panic E1 fuel Hfuel).
    reflexivity.
  Unshelve.
  all: cbv beta; try (intros s0 sn0; reflexivity).
Qed.

(* ---------- sqrt, cbrt, nth_root ---------- *)

(* the part after check_zero_or_one!: the to_u128 shortcut, else bits / k + 1, power_of_two, fixpoint with the closure *)
Ltac root_tail Hfuel :=
  unfold root_shortcut, root_newton;
  match goal with |- context [U_to_u128 ?w ?a] => destruct (U_to_u128 w a) as [[v|]|] end;
  cbn [of_outcome bind];
  [ rewrite bind_done_r; apply fo_matches_flift | | reflexivity ].

(* after check_zero_or_one!: N = 0 / a single digit 0 or 1 return self; the two remaining paths run the same code *)
Ltac czo_split d r :=
  destruct (Z.eqb_spec (Z.of_nat (length (d :: r))) 0) as [E|_]; [cbn [length] in E; lia|];
  rewrite Zofnat_eqb_0;
  destruct (Nat.eqb (last_digit_index (d :: r)) 0);
  [ rewrite arr_get_head; cbn [bind]; cbv zeta; destruct ((d =? 0) || (d =? 1))%bool; [reflexivity|] | ].

Lemma nt_U_sqrt dbg w a fuel : (2 ^ fixpoint_depth w (length a) <= fuel)%nat ->
  fo_matches (TU_sqrt dbg w a) (NtGen.U_sqrt dbg w (Z.of_nat (length a)) fuel a).
Proof.
  intros Hfuel. unfold TU_sqrt, NtGen.U_sqrt, check_zero_or_one.
  destruct a as [|d r]; [reflexivity|].
  czo_split d r.
  all: rewrite Nat2Z.id; root_tail Hfuel.
  all: cbv zeta; rewrite udiv_ok by discriminate; cbn [bind].
  all: destruct (power_of_two w (length (d :: r)) (bits_of w (d :: r) / 2 + 1)) as [guess|] eqn:Ep; cbn [of_outcome bind]; [|reflexivity].
  all: rewrite bind_done_r; apply nt_fixpoint; [rewrite (power_of_two_length _ _ _ _ Ep); reflexivity| |exact Hfuel].
  all: intros s; unfold sqrt_step.
  all: destruct (U_div w (d :: r) s) as [q|]; cbn [of_outcome bind obind]; [|reflexivity].
  all: destruct (U_add dbg w s q) as [t|]; cbn [of_outcome bind obind]; [|reflexivity].
  all: rewrite U_Shr_prim_i32_1; apply bind_done_r.
Qed.

Lemma nt_U_cbrt dbg w a fuel : (2 ^ fixpoint_depth w (length a) <= fuel)%nat ->
  fo_matches (TU_cbrt dbg w a) (NtGen.U_cbrt dbg w (Z.of_nat (length a)) fuel a).
Proof.
  intros Hfuel. unfold TU_cbrt, NtGen.U_cbrt, check_zero_or_one.
  destruct a as [|d r]; [reflexivity|].
  czo_split d r.
  all: rewrite Nat2Z.id; root_tail Hfuel.
  all: cbv zeta; rewrite udiv_ok by discriminate; cbn [bind].
  all: destruct (power_of_two w (length (d :: r)) (bits_of w (d :: r) / 3 + 1)) as [guess|] eqn:Ep; cbn [of_outcome bind]; [|reflexivity].
  all: rewrite bind_done_r; apply nt_fixpoint; [rewrite (power_of_two_length _ _ _ _ Ep); reflexivity| |exact Hfuel].
  all: intros s; unfold cbrt_step.
  all: destruct (U_mul dbg w s s) as [ss|]; cbn [of_outcome bind obind]; [|reflexivity].
  all: destruct (U_div w (d :: r) ss) as [q|]; cbn [of_outcome bind obind]; [|reflexivity].
  all: rewrite U_Shl_prim_i32_1.
  all: destruct (U_shl dbg w s 1) as [s2|]; cbn [of_outcome bind obind]; [|reflexivity].
  all: destruct (U_add dbg w s2 q) as [t|]; cbn [of_outcome bind obind]; reflexivity.
Qed.

(* n : u32, hence 0 <= k *)
Lemma nt_U_nth_root dbg w a k fuel : 0 <= k -> (2 ^ fixpoint_depth w (length a) <= fuel)%nat ->
  fo_matches (TU_nth_root dbg w a k) (NtGen.U_nth_root dbg w (Z.of_nat (length a)) fuel a k).
Proof.
  intros Hk Hfuel. unfold TU_nth_root, NtGen.U_nth_root.
  destruct (Z.eqb_spec k 0) as [|K0]; [reflexivity|]. destruct (Z.eqb_spec k 1) as [|K1]; [reflexivity|].
  destruct (Z.eqb_spec k 2) as [|K2]; [rewrite bind_done_r; apply nt_U_sqrt; exact Hfuel|].
  destruct (Z.eqb_spec k 3) as [|K3]; [rewrite bind_done_r; apply nt_U_cbrt; exact Hfuel|].
  unfold check_zero_or_one.
  destruct a as [|d r]; [reflexivity|].
  czo_split d r.
  all: rewrite Nat2Z.id; root_tail Hfuel.
  all: cbv zeta; destruct (bits_of w (d :: r) <=? k); [reflexivity|].
  all: rewrite udiv_ok by lia; cbn [bind].
  all: destruct (power_of_two w (length (d :: r)) (bits_of w (d :: r) / k + 1)) as [guess|] eqn:Ep; cbn [of_outcome bind]; [|reflexivity].
  all: rewrite usub_ok by lia; cbn [bind].
  all: rewrite bind_done_r; apply nt_fixpoint; [rewrite (power_of_two_length _ _ _ _ Ep); reflexivity| |exact Hfuel].
  all: intros s; unfold nth_root_step; cbv zeta.
  all: destruct (U_checked_pow w s (k - 1)) as [p|];
       [destruct (U_div w (d :: r) p) as [q|]; cbn [of_outcome bind obind]; [|reflexivity]|cbn [of_outcome bind obind]].
  all: destruct (U_from_u32 w (length (d :: r)) (k - 1)) as [mul|]; cbn [of_outcome bind obind]; [|reflexivity].
  all: match goal with |- context [U_mul ?b ?ww ?x ?m] => destruct (U_mul b ww x m) as [sm|]; cbn [of_outcome bind obind]; [|reflexivity] end.
  all: match goal with |- context [U_add ?b ?ww ?x ?q] => destruct (U_add b ww x q) as [t|]; cbn [of_outcome bind obind]; [|reflexivity] end.
  all: destruct (U_from_u32 w (length (d :: r)) k) as [kk|]; cbn [of_outcome bind obind]; reflexivity.
Qed.

(* ---------- summary ---------- *)
Theorem nt_U_roots_match_model :
  (forall depth w x max_bits (f : list Z -> outcome (list Z)) (f' : list Z -> res (list Z)) fuel,
     (forall s, f' s = match f s with Ret r => Done r | Panic => Panicked end) -> (2 ^ depth <= fuel)%nat ->
     match NumTraits.fixpoint depth w x max_bits f with
     | Some (Ret r) => NtGen.fixpoint w (Z.of_nat (length x)) fuel x max_bits f' = Done r
     | Some Panic => NtGen.fixpoint w (Z.of_nat (length x)) fuel x max_bits f' = Panicked
     | None => True
     end) /\
  (forall dbg w a fuel, (2 ^ fixpoint_depth w (length a) <= fuel)%nat ->
     match TU_sqrt dbg w a with
     | Some (Ret r) => NtGen.U_sqrt dbg w (Z.of_nat (length a)) fuel a = Done r
     | Some Panic => NtGen.U_sqrt dbg w (Z.of_nat (length a)) fuel a = Panicked
     | None => True
     end) /\
  (forall dbg w a fuel, (2 ^ fixpoint_depth w (length a) <= fuel)%nat ->
     match TU_cbrt dbg w a with
     | Some (Ret r) => NtGen.U_cbrt dbg w (Z.of_nat (length a)) fuel a = Done r
     | Some Panic => NtGen.U_cbrt dbg w (Z.of_nat (length a)) fuel a = Panicked
     | None => True
     end) /\
  (forall dbg w a k fuel, 0 <= k -> (2 ^ fixpoint_depth w (length a) <= fuel)%nat ->
     match TU_nth_root dbg w a k with
     | Some (Ret r) => NtGen.U_nth_root dbg w (Z.of_nat (length a)) fuel a k = Done r
     | Some Panic => NtGen.U_nth_root dbg w (Z.of_nat (length a)) fuel a k = Panicked
     | None => True
     end).
Proof.
  repeat split.
  - intros depth w x max_bits f f' fuel Hf Hfuel. apply (nt_fixpoint depth w _ x max_bits f f' eq_refl Hf fuel Hfuel).
  - intros. apply nt_U_sqrt. assumption.
  - intros. apply nt_U_cbrt. assumption.
  - intros. apply nt_U_nth_root; assumption.
Qed.

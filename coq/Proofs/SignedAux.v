(* Proofs/SignedAux.v — facts about Model/Core.v and Model/AddSub.v used by the signed division
   proofs (Proofs/DivSigned.v) and the unsigned wrappers (Proofs/DivUnsignedWrap.v):
   inherent / checked / wrapping add, sub, neg in both signednesses, the sign test, the signed
   constants, unsigned_abs. *)
From Bnum Require Import Base Prim.
From Bnum.Model Require Import Digit Core Shift AddSub.
From Bnum.Proofs Require Import DivAux.

(* result predicates: the outcome is `Ret r` with r well formed and of the given value *)
Definition URet (w : Z) (n : nat) (o : outcome (list Z)) (v : Z) : Prop :=
  exists r, o = Ret r /\ wf w n r /\ uval w r = v.
Definition SRet (w : Z) (n : nat) (o : outcome (list Z)) (v : Z) : Prop :=
  exists r, o = Ret r /\ wf w n r /\ sval w r = v.

(* ---------- unsigned add / sub projections ---------- *)

Lemma U_wrapping_add_spec w n a b : 0 <= w -> wf w n a -> wf w n b ->
  wf w n (U_wrapping_add w a b) /\
  uval w (U_wrapping_add w a b) = (uval w a + uval w b) mod Mod w n.
Proof.
  intros Hw Ha Hb. destruct (U_overflowing_add_spec w n a b Hw Ha Hb) as (H1 & H2 & _).
  split; assumption.
Qed.

Lemma U_wrapping_sub_spec w n a b : 0 <= w -> wf w n a -> wf w n b ->
  wf w n (U_wrapping_sub w a b) /\
  uval w (U_wrapping_sub w a b) = (uval w a - uval w b) mod Mod w n.
Proof.
  intros Hw Ha Hb. destruct (U_overflowing_sub_spec w n a b Hw Ha Hb) as (H1 & H2 & _).
  split; assumption.
Qed.

Lemma U_checked_add_spec w n a b : 0 <= w -> wf w n a -> wf w n b ->
  (uval w a + uval w b < Mod w n ->
     exists r, U_checked_add w a b = Some r /\ wf w n r /\ uval w r = uval w a + uval w b) /\
  (Mod w n <= uval w a + uval w b -> U_checked_add w a b = None).
Proof.
  intros Hw Ha Hb. destruct (U_overflowing_add_spec w n a b Hw Ha Hb) as (H1 & H2 & H3).
  pose proof (uval_bounds w n a Hw Ha). pose proof (uval_bounds w n b Hw Hb).
  unfold U_checked_add, tuple_to_option. rewrite H3. split; intros Hc.
  - destruct (Z.leb_spec (Mod w n) (uval w a + uval w b)); [lia|].
    eexists; split; [reflexivity|]. split; [exact H1|]. rewrite H2. apply Z.mod_small; lia.
  - destruct (Z.leb_spec (Mod w n) (uval w a + uval w b)); [reflexivity | lia].
Qed.

Lemma U_checked_sub_spec w n a b : 0 <= w -> wf w n a -> wf w n b ->
  (uval w b <= uval w a ->
     exists r, U_checked_sub w a b = Some r /\ wf w n r /\ uval w r = uval w a - uval w b) /\
  (uval w a < uval w b -> U_checked_sub w a b = None).
Proof.
  intros Hw Ha Hb. destruct (U_overflowing_sub_spec w n a b Hw Ha Hb) as (H1 & H2 & H3).
  pose proof (uval_bounds w n a Hw Ha). pose proof (uval_bounds w n b Hw Hb).
  unfold U_checked_sub, tuple_to_option. rewrite H3. split; intros Hc.
  - destruct (Z.ltb_spec (uval w a) (uval w b)); [lia|].
    eexists; split; [reflexivity|]. split; [exact H1|]. rewrite H2. apply Z.mod_small; lia.
  - destruct (Z.ltb_spec (uval w a) (uval w b)); [reflexivity | lia].
Qed.

(* inherent add: exact in range in both build modes; out of range it panics with debug
   assertions and wraps without *)
Lemma U_add_spec dbg w n a b : 0 <= w -> wf w n a -> wf w n b ->
  (uval w a + uval w b < Mod w n -> URet w n (U_add dbg w a b) (uval w a + uval w b)) /\
  (Mod w n <= uval w a + uval w b ->
     if dbg then U_add dbg w a b = Panic
     else URet w n (U_add dbg w a b) ((uval w a + uval w b) mod Mod w n)).
Proof.
  intros Hw Ha Hb. destruct (U_checked_add_spec w n a b Hw Ha Hb) as [Hin Hout].
  destruct (U_wrapping_add_spec w n a b Hw Ha Hb) as [Hwf Hwv].
  pose proof (uval_bounds w n a Hw Ha). pose proof (uval_bounds w n b Hw Hb).
  unfold URet, U_add, U_strict_add. split; intros Hc.
  - destruct dbg.
    + destruct (Hin Hc) as (r & -> & Hr & Hv). exists r; cbn [option_expect]; auto.
    + eexists; split; [reflexivity|]. split; [exact Hwf|]. rewrite Hwv. apply Z.mod_small; lia.
  - destruct dbg.
    + rewrite (Hout Hc). reflexivity.
    + eexists; split; [reflexivity|]. split; assumption.
Qed.

Lemma U_sub_spec dbg w n a b : 0 <= w -> wf w n a -> wf w n b ->
  (uval w b <= uval w a -> URet w n (U_sub dbg w a b) (uval w a - uval w b)) /\
  (uval w a < uval w b ->
     if dbg then U_sub dbg w a b = Panic
     else URet w n (U_sub dbg w a b) ((uval w a - uval w b) mod Mod w n)).
Proof.
  intros Hw Ha Hb. destruct (U_checked_sub_spec w n a b Hw Ha Hb) as [Hin Hout].
  destruct (U_wrapping_sub_spec w n a b Hw Ha Hb) as [Hwf Hwv].
  pose proof (uval_bounds w n a Hw Ha). pose proof (uval_bounds w n b Hw Hb).
  unfold URet, U_sub, U_strict_sub. split; intros Hc.
  - destruct dbg.
    + destruct (Hin Hc) as (r & -> & Hr & Hv). exists r; cbn [option_expect]; auto.
    + eexists; split; [reflexivity|]. split; [exact Hwf|]. rewrite Hwv. apply Z.mod_small; lia.
  - destruct dbg.
    + rewrite (Hout Hc). reflexivity.
    + eexists; split; [reflexivity|]. split; assumption.
Qed.

(* ---------- small arithmetic helpers ---------- *)

Lemma B_even w : 0 < w -> B w = 2 * (B w / 2) /\ 1 <= B w / 2.
Proof.
  intros Hw. pose proof (B_half w Hw) as E. pose proof (pow2_pos (w - 1) ltac:(lia)).
  assert (B w / 2 = 2 ^ (w - 1)) by (rewrite E, Z.mul_comm, Z.div_mul; lia). lia.
Qed.

Lemma Mod_half_S w n : 0 < w -> Mod w (S n) / 2 = Mod w n * (B w / 2).
Proof.
  intros Hw. rewrite Mod_S by lia. destruct (B_even w Hw) as [E _].
  replace (B w * Mod w n) with (Mod w n * (B w / 2) * 2) by lia. apply Z.div_mul. lia.
Qed.

Lemma Mod_half_pos w n : 0 < w -> (0 < n)%nat -> 1 <= Mod w n / 2.
Proof.
  intros Hw Hn. pose proof (Mod_even w n Hw Hn). pose proof (Mod_pos w n ltac:(lia)). lia.
Qed.

Lemma mod_shift M x y k : x = y + k * M -> x mod M = y mod M.
Proof. intros ->. apply Z_mod_plus_full. Qed.

Lemma mod_add_congr M a a' b : a mod M = a' mod M -> (a + b) mod M = (a' + b) mod M.
Proof. intros H. rewrite <- Zplus_mod_idemp_l, H, Zplus_mod_idemp_l. reflexivity. Qed.

Lemma mod_sub_congr M a a' b b' : a mod M = a' mod M -> b mod M = b' mod M ->
  (a - b) mod M = (a' - b') mod M.
Proof. intros H1 H2. rewrite Zminus_mod, H1, H2, <- Zminus_mod. reflexivity. Qed.

Lemma mod_add_congr2 M a a' b b' : a mod M = a' mod M -> b mod M = b' mod M ->
  (a + b) mod M = (a' + b') mod M.
Proof. intros H1 H2. rewrite Zplus_mod, H1, H2, <- Zplus_mod. reflexivity. Qed.

Lemma mod_opp_congr M a a' : a mod M = a' mod M -> (- a) mod M = (- a') mod M.
Proof. intros H. apply (mod_sub_congr M 0 0 a a' eq_refl H). Qed.

Lemma wrapS_congr M x y : 0 < M -> M = 2 * (M / 2) -> x mod M = y mod M -> wrapS M x = wrapS M y.
Proof.
  intros HM He H. apply signed_unique with M; auto using wrapS_range.
  rewrite !wrapS_mod by lia. exact H.
Qed.

Lemma wrapS_cases M x : 0 < M -> M = 2 * (M / 2) -> - M - M / 2 <= x < M + M / 2 ->
  wrapS M x = if x <? - (M / 2) then x + M else if x <? M / 2 then x else x - M.
Proof.
  intros HM He Hx. unfold wrapS.
  destruct (Z.ltb_spec x (- (M / 2))); [|destruct (Z.ltb_spec x (M / 2))].
  - rewrite (mod_shift M (x + M / 2) (x + M / 2 + M) (-1)) by lia. rewrite Z.mod_small; lia.
  - rewrite Z.mod_small; lia.
  - rewrite (mod_shift M (x + M / 2) (x + M / 2 - M) 1) by lia. rewrite Z.mod_small; lia.
Qed.

(* (s + Bw*T) mod (Bw*Mn) digit by digit *)
Lemma mod_cons Bw Mn s T : 0 < Bw -> 0 < Mn -> 0 <= s < Bw ->
  (s + Bw * T) mod (Bw * Mn) = s + Bw * (T mod Mn).
Proof.
  intros HB HM Hs. pose proof (Z.div_mod T Mn ltac:(lia)) as E.
  pose proof (Z.mod_pos_bound T Mn HM).
  symmetry. apply Z.mod_unique with (q := T / Mn); nia.
Qed.

Lemma inS_cons Bw Mn s T : 0 < Bw -> 0 < Mn -> Mn = 2 * (Mn / 2) -> 0 <= s < Bw ->
  inS (Bw * Mn) (s + Bw * T) = inS Mn T.
Proof.
  intros HB HM He Hs.
  assert (Hh : Bw * Mn / 2 = Bw * (Mn / 2)).
  { rewrite He at 1. replace (Bw * (2 * (Mn / 2))) with (Bw * (Mn / 2) * 2) by lia.
    apply Z.div_mul; lia. }
  unfold inS. rewrite Hh. set (h := Mn / 2) in *.
  destruct (Z.leb_spec (- h) T); destruct (Z.ltb_spec T h);
    destruct (Z.leb_spec (- (Bw * h)) (s + Bw * T)); destruct (Z.ltb_spec (s + Bw * T) (Bw * h));
    cbn [andb]; try reflexivity; nia.
Qed.

(* ---------- the sign test and the two readings ---------- *)

Lemma wf_snoc_inv w n ds : wf w (S n) ds ->
  exists init t, ds = init ++ [t] /\ wf w n init /\ digit_ok w t.
Proof.
  intros [Hl Hf]. destruct (exists_last (l := ds)) as (init & t & ->).
  { intros ->. discriminate. }
  exists init, t. split; [reflexivity|]. rewrite app_length in Hl. cbn [length] in Hl.
  apply Forall_app in Hf. destruct Hf as [Hi Ht]. inversion Ht; subst.
  split; [split; [lia | exact Hi] | assumption].
Qed.

Lemma is_negative_uval w n a : 0 < w -> (0 < n)%nat -> wf w n a ->
  is_negative w a = (Mod w n / 2 <=? uval w a).
Proof.
  intros Hw Hn Ha. destruct n as [|n]; [lia|].
  destruct (wf_snoc_inv w n a Ha) as (init & t & -> & Hi & Ht).
  unfold is_negative, signed_digit, top_digit. rewrite last_last.
  rewrite uval_app by lia. rewrite (wf_length _ _ _ Hi). cbn [uval].
  rewrite Mod_half_S by lia. destruct (B_even w Hw) as [HB Hh].
  pose proof (uval_bounds w n init ltac:(lia) Hi) as HI. unfold digit_ok in Ht.
  unfold sd, to_signed. set (h := B w / 2) in *. set (I := uval w init) in *.
  pose proof (Mod_pos w n ltac:(lia)).
  destruct (Z.ltb_spec t h);
    [destruct (Z.ltb_spec t 0) | destruct (Z.ltb_spec (t - B w) 0)];
    destruct (Z.leb_spec (Mod w n * h) (I + Mod w n * (t + B w * 0))); try reflexivity; nia.
Qed.

Lemma sval_uval w n a : 0 < w -> (0 < n)%nat -> wf w n a ->
  sval w a = uval w a - (if is_negative w a then Mod w n else 0).
Proof.
  intros Hw Hn Ha. rewrite (is_negative_uval w n) by assumption.
  unfold sval, to_signed. rewrite (wf_length _ _ _ Ha).
  destruct (Z.ltb_spec (uval w a) (Mod w n / 2)); destruct (Z.leb_spec (Mod w n / 2) (uval w a)); lia.
Qed.

Lemma is_negative_spec w n a : 0 < w -> (0 < n)%nat -> wf w n a ->
  is_negative w a = (sval w a <? 0).
Proof.
  intros Hw Hn Ha. rewrite (sval_uval w n) by assumption.
  rewrite (is_negative_uval w n) by assumption.
  pose proof (uval_bounds w n a ltac:(lia) Ha). pose proof (Mod_even w n Hw Hn).
  destruct (Z.leb_spec (Mod w n / 2) (uval w a));
    [destruct (Z.ltb_spec (uval w a - Mod w n) 0) | destruct (Z.ltb_spec (uval w a - 0) 0)]; lia.
Qed.

Lemma uval_sval w n a : 0 < w -> (0 < n)%nat -> wf w n a ->
  uval w a = sval w a + (if sval w a <? 0 then Mod w n else 0).
Proof.
  intros Hw Hn Ha. rewrite <- (is_negative_spec w n) by assumption.
  rewrite (sval_uval w n) by assumption. lia.
Qed.

(* introduction rules for sval *)
Lemma sval_intro w n a x : 0 < w -> (0 < n)%nat -> wf w n a ->
  uval w a mod Mod w n = x mod Mod w n -> - (Mod w n / 2) <= x < Mod w n / 2 -> sval w a = x.
Proof.
  intros Hw Hn Ha Hm Hx. pose proof (Mod_pos w n ltac:(lia)).
  apply signed_unique with (Mod w n); auto using Mod_even.
  - apply sval_range; auto.
  - rewrite sval_mod by auto. exact Hm.
Qed.

Lemma sval_intro_k w n a x k : 0 < w -> (0 < n)%nat -> wf w n a ->
  uval w a = x + k * Mod w n -> - (Mod w n / 2) <= x < Mod w n / 2 -> sval w a = x.
Proof.
  intros Hw Hn Ha Hm Hx. apply (sval_intro w n); auto. apply (mod_shift _ _ _ k). exact Hm.
Qed.

Lemma sval_of_uval_mod w n r x : 0 < w -> (0 < n)%nat -> wf w n r ->
  uval w r mod Mod w n = x mod Mod w n -> sval w r = wrapS (Mod w n) x.
Proof.
  intros Hw Hn Hr Hm. pose proof (Mod_pos w n ltac:(lia)). pose proof (Mod_even w n Hw Hn).
  apply (sval_intro w n); auto.
  - rewrite wrapS_mod by lia. exact Hm.
  - apply wrapS_range; auto.
Qed.

(* equality of bit patterns is equality in either reading *)
Lemma uval_eqb_sval w n a b : 0 < w -> (0 < n)%nat -> wf w n a -> wf w n b ->
  (uval w a =? uval w b) = (sval w a =? sval w b).
Proof.
  intros Hw Hn Ha Hb.
  pose proof (sval_range w n a Hw Hn Ha). pose proof (sval_range w n b Hw Hn Hb).
  pose proof (Mod_even w n Hw Hn).
  rewrite (uval_sval w n a), (uval_sval w n b) by assumption.
  destruct (Z.ltb_spec (sval w a) 0); destruct (Z.ltb_spec (sval w b) 0);
    destruct (Z.eqb_spec (sval w a) (sval w b)); try (apply Z.eqb_eq; lia); apply Z.eqb_neq; lia.
Qed.

Lemma eq_digits_sval w n a b : 0 < w -> (0 < n)%nat -> wf w n a -> wf w n b ->
  eq_digits a b = (sval w a =? sval w b).
Proof.
  intros. rewrite (eq_digits_spec w n) by (lia || assumption). apply (uval_eqb_sval w n); auto.
Qed.

Lemma sval_cons w n x r : 0 < w -> (0 < n)%nat -> digit_ok w x -> wf w n r ->
  sval w (x :: r) = x + B w * sval w r.
Proof.
  intros Hw Hn Hx Hr. assert (Hxr : wf w (S n) (x :: r)) by (apply wf_cons; auto).
  pose proof (sval_range w n r Hw Hn Hr) as Hrg. pose proof (Mod_even w n Hw Hn).
  pose proof (B_pos w ltac:(lia)). unfold digit_ok in Hx.
  assert (Hh : Mod w (S n) / 2 = B w * (Mod w n / 2)).
  { rewrite Mod_S by lia. rewrite H at 1.
    replace (B w * (2 * (Mod w n / 2))) with (B w * (Mod w n / 2) * 2) by lia.
    apply Z.div_mul; lia. }
  apply (sval_intro_k w (S n) _ _ (if sval w r <? 0 then 1 else 0)); auto; try lia.
  - cbn [uval]. rewrite (uval_sval w n r) by assumption. rewrite Mod_S by lia.
    destruct (sval w r <? 0); lia.
  - rewrite Hh. nia.
Qed.

Lemma sval_single w x : 0 <= w -> sval w [x] = sd w x.
Proof.
  intros. unfold sval, sd. cbn [length uval]. rewrite Mod_1 by lia. f_equal. lia.
Qed.

(* ---------- constants ---------- *)

Lemma digit_ok_umax w : 0 < w -> digit_ok w (u_max w).
Proof. intros. unfold digit_ok, u_max. pose proof (B_ge_2 w H). lia. Qed.

Lemma uval_repeat_umax w k : 0 <= w -> uval w (repeat (u_max w) k) = Mod w k - 1.
Proof.
  intros Hw. induction k; cbn [repeat uval].
  - rewrite Mod_0. reflexivity.
  - rewrite IHk, Mod_S by lia. unfold u_max. lia.
Qed.

Lemma wf_UMAX w n : 0 < w -> wf w n (UMAX w n).
Proof. intros. apply wf_repeat. apply digit_ok_umax; auto. Qed.
Lemma uval_UMAX w n : 0 <= w -> uval w (UMAX w n) = Mod w n - 1.
Proof. apply uval_repeat_umax. Qed.
Lemma wf_NEG_ONE w n : 0 < w -> wf w n (NEG_ONE w n).
Proof. apply wf_UMAX. Qed.
Lemma uval_NEG_ONE w n : 0 <= w -> uval w (NEG_ONE w n) = Mod w n - 1.
Proof. apply uval_UMAX. Qed.

Lemma wf_IMIN w n : 0 < w -> wf w n (IMIN w n).
Proof.
  intros Hw. destruct n; [apply wf_nil|]. cbn [IMIN]. replace (S n) with (n + 1)%nat by lia.
  apply wf_app; [apply wf_repeat, digit_ok_0; lia|].
  apply wf_cons. split; [|apply wf_nil]. destruct (B_even w Hw). unfold digit_ok. lia.
Qed.

Lemma uval_IMIN w n : 0 < w -> (0 < n)%nat -> uval w (IMIN w n) = Mod w n / 2.
Proof.
  intros Hw Hn. destruct n; [lia|]. cbn [IMIN]. rewrite uval_app by lia.
  rewrite uval_repeat0, repeat_length, Mod_half_S by lia. cbn [uval]. lia.
Qed.

Lemma wf_IMAX w n : 0 < w -> wf w n (IMAX w n).
Proof.
  intros Hw. destruct n; [apply wf_nil|]. cbn [IMAX]. replace (S n) with (n + 1)%nat by lia.
  apply wf_app; [apply wf_repeat, digit_ok_umax; lia|].
  apply wf_cons. split; [|apply wf_nil]. destruct (B_even w Hw). unfold digit_ok. lia.
Qed.

Lemma uval_IMAX w n : 0 < w -> (0 < n)%nat -> uval w (IMAX w n) = Mod w n / 2 - 1.
Proof.
  intros Hw Hn. destruct n; [lia|]. cbn [IMAX]. rewrite uval_app by lia.
  rewrite uval_repeat_umax, repeat_length, Mod_half_S by lia. cbn [uval]. lia.
Qed.

Lemma sval_ZERO w n : 0 < w -> (0 < n)%nat -> sval w (ZERO n) = 0.
Proof.
  intros Hw Hn. pose proof (Mod_half_pos w n Hw Hn).
  apply (sval_intro_k w n _ _ 0); auto; [apply wf_ZERO; lia | rewrite uval_ZERO; lia | lia].
Qed.

(* ONE is the signed value 1 except in the 1-bit type (w = 1, n = 1), where [1] reads -1 *)
Lemma sval_ONE w n : 0 < w -> (0 < n)%nat -> 4 <= Mod w n -> sval w (ONE n) = 1.
Proof.
  intros Hw Hn H4. pose proof (Mod_even w n Hw Hn).
  apply (sval_intro_k w n _ _ 0); auto; [apply wf_ONE; lia | rewrite uval_ONE; lia | lia].
Qed.

Lemma sval_NEG_ONE w n : 0 < w -> (0 < n)%nat -> sval w (NEG_ONE w n) = -1.
Proof.
  intros Hw Hn. pose proof (Mod_half_pos w n Hw Hn).
  apply (sval_intro_k w n _ _ 1); auto; [apply wf_NEG_ONE; lia | rewrite uval_NEG_ONE; lia | lia].
Qed.

Lemma sval_UMAX w n : 0 < w -> (0 < n)%nat -> sval w (UMAX w n) = -1.
Proof. apply sval_NEG_ONE. Qed.

Lemma sval_IMIN w n : 0 < w -> (0 < n)%nat -> sval w (IMIN w n) = - (Mod w n / 2).
Proof.
  intros Hw Hn. pose proof (Mod_half_pos w n Hw Hn). pose proof (Mod_even w n Hw Hn).
  apply (sval_intro_k w n _ _ 1); auto; [apply wf_IMIN; lia | rewrite uval_IMIN; lia | lia].
Qed.

Lemma sval_IMAX w n : 0 < w -> (0 < n)%nat -> sval w (IMAX w n) = Mod w n / 2 - 1.
Proof.
  intros Hw Hn. pose proof (Mod_half_pos w n Hw Hn). pose proof (Mod_even w n Hw Hn).
  apply (sval_intro_k w n _ _ 0); auto; [apply wf_IMAX; lia | rewrite uval_IMAX; lia | lia].
Qed.

(* the tests of the division wrappers, on signed values *)
Lemma eq_IMIN_spec w n a : 0 < w -> (0 < n)%nat -> wf w n a ->
  eq_digits a (IMIN w n) = (sval w a =? - (Mod w n / 2)).
Proof.
  intros Hw Hn Ha. rewrite (eq_digits_sval w n) by auto using wf_IMIN.
  rewrite sval_IMIN by auto. reflexivity.
Qed.

Lemma eq_NEG_ONE_spec w n b : 0 < w -> (0 < n)%nat -> wf w n b ->
  eq_digits b (NEG_ONE w n) = (sval w b =? -1).
Proof.
  intros Hw Hn Hb. rewrite (eq_digits_sval w n) by auto using wf_NEG_ONE.
  rewrite sval_NEG_ONE by auto. reflexivity.
Qed.

Lemma is_zero_sval w n b : 0 < w -> (0 < n)%nat -> wf w n b ->
  is_zero b = (sval w b =? 0).
Proof.
  intros Hw Hn Hb. rewrite (is_zero_spec w n) by (lia || auto).
  assert (Hz : wf w n (ZERO n)) by (apply wf_ZERO; lia).
  replace (uval w b =? 0) with (uval w b =? uval w (ZERO n)) by (rewrite uval_ZERO; reflexivity).
  rewrite (uval_eqb_sval w n) by auto. rewrite sval_ZERO by auto. reflexivity.
Qed.

Lemma is_one_sval w n b : 0 < w -> (0 < n)%nat -> 4 <= Mod w n -> wf w n b ->
  is_one b = (sval w b =? 1).
Proof.
  intros Hw Hn H4 Hb. rewrite (is_one_spec w n) by auto.
  replace (uval w b =? 1) with (uval w b =? uval w (ONE n)) by (rewrite uval_ONE by auto; reflexivity).
  rewrite (uval_eqb_sval w n) by auto using wf_ONE. rewrite sval_ONE by auto. reflexivity.
Qed.

(* in the 1-bit type is_one is the test for -1 *)
Lemma is_one_sval_gen w n b : 0 < w -> (0 < n)%nat -> wf w n b ->
  is_one b = if 4 <=? Mod w n then sval w b =? 1 else sval w b =? -1.
Proof.
  intros Hw Hn Hb. destruct (Z.leb_spec 4 (Mod w n)) as [H4|H4].
  - apply (is_one_sval w n); auto.
  - rewrite (is_one_spec w n) by auto. pose proof (Mod_even w n Hw Hn).
    pose proof (Mod_half_pos w n Hw Hn). rewrite (uval_sval w n b) by auto.
    pose proof (sval_range w n b Hw Hn Hb).
    destruct (Z.ltb_spec (sval w b) 0); destruct (Z.eqb_spec (sval w b) (-1));
      try (apply Z.eqb_eq; lia); apply Z.eqb_neq; lia.
Qed.

(* ---------- negation ---------- *)

Lemma bitnot_spec w n r : 0 <= w -> wf w n r ->
  wf w n (bitnot w r) /\ uval w (bitnot w r) = Mod w n - 1 - uval w r.
Proof.
  intros Hw. revert r. induction n as [|n IH]; intros r Hr.
  - apply wf_inv_0 in Hr; subst. cbn. rewrite Mod_0. split; [apply wf_nil | reflexivity].
  - destruct (wf_inv_S _ _ _ Hr) as (d & r' & -> & Hd & Hr').
    destruct (IH r' Hr') as [IH1 IH2]. unfold bitnot in *. cbn [map uval].
    split.
    + apply wf_cons. split; [|exact IH1]. unfold digit_ok, u_not in *. lia.
    + rewrite IH2, Mod_S by lia. unfold u_not. lia.
Qed.

Lemma ineg_loop_cons2 w d d' r :
  ineg_loop w (d :: d' :: r) =
  let '(s, o) := u_ovf_add w (u_not w d) 1 in
  if o then let '(r', f) := ineg_loop w (d' :: r) in (s :: r', f)
  else (s :: bitnot w (d' :: r), false).
Proof. reflexivity. Qed.

(* top digit: the signed overflowing increment of the complemented digit *)
Lemma neg_top_digit Bw d : 0 < Bw -> Bw = 2 * (Bw / 2) -> 0 <= d < Bw ->
  (wrapS Bw (to_signed Bw (Bw - 1 - d) + 1)) mod Bw = (- d) mod Bw /\
  negb (inS Bw (to_signed Bw (Bw - 1 - d) + 1)) = (d =? Bw / 2).
Proof.
  intros HB He Hd. split.
  - rewrite wrapS_mod by lia.
    rewrite (mod_add_congr Bw _ (Bw - 1 - d) 1) by (apply to_signed_mod; lia).
    apply (mod_shift _ _ _ 1). lia.
  - unfold to_signed, inS. set (h := Bw / 2) in *.
    destruct (Z.ltb_spec (Bw - 1 - d) h); destruct (Z.eqb_spec d h);
      match goal with |- negb ((?a <=? ?b) && (?c <? ?e)) = _ =>
        destruct (Z.leb_spec a b); destruct (Z.ltb_spec c e) end; cbn [andb negb]; try reflexivity; lia.
Qed.

Lemma ineg_loop_spec w n a : 0 < w -> (0 < n)%nat -> wf w n a ->
  wf w n (fst (ineg_loop w a)) /\
  uval w (fst (ineg_loop w a)) = (- uval w a) mod Mod w n /\
  snd (ineg_loop w a) = (uval w a =? Mod w n / 2).
Proof.
  intros Hw Hn. destruct n as [|n]; [lia|]. clear Hn. revert a.
  pose proof (B_pos w ltac:(lia)) as HB. destruct (B_even w Hw) as [HBe HBh].
  induction n as [|n IH]; intros a Ha.
  - destruct (wf_inv_S _ _ _ Ha) as (d & r & -> & Hd & Hr). apply wf_inv_0 in Hr; subst.
    cbn [ineg_loop s_ovf_add fst snd uval]. rewrite Mod_1 by lia. unfold digit_ok in Hd.
    destruct (neg_top_digit (B w) d HB HBe Hd) as [H1 H2]. unfold sd, u_not, ud.
    split; [|split].
    + apply wf_cons. split; [|apply wf_nil]. apply Z.mod_pos_bound; lia.
    + rewrite H1. replace (d + B w * 0) with d by lia. lia.
    + rewrite H2. replace (d + B w * 0) with d by lia. reflexivity.
  - destruct (wf_inv_S _ _ _ Ha) as (d & r & -> & Hd & Hr).
    destruct (wf_inv_S _ _ _ Hr) as (d' & r' & -> & Hd' & Hr').
    rewrite ineg_loop_cons2. specialize (IH _ Hr). destruct IH as (IH1 & IH2 & IH3).
    destruct (bitnot_spec w (S n) (d' :: r') ltac:(lia) Hr) as [Hb1 Hb2].
    pose proof (uval_bounds w (S n) _ ltac:(lia) Hr) as HR.
    pose proof (Mod_pos w (S n) ltac:(lia)) as HM. pose proof (Mod_even w (S n) Hw ltac:(lia)) as HMe.
    set (R := d' :: r') in *. set (Mn := Mod w (S n)) in *.
    assert (Hh : Mod w (S (S n)) / 2 = B w * (Mn / 2)).
    { rewrite Mod_S by lia. fold Mn. rewrite HMe at 1.
      replace (B w * (2 * (Mn / 2))) with (B w * (Mn / 2) * 2) by lia. apply Z.div_mul; lia. }
    rewrite Hh. rewrite (Mod_S w (S n)) by lia. fold Mn.
    unfold u_ovf_add, u_not. unfold digit_ok in Hd. cbn [uval]. fold (uval w R).
    replace (B w - 1 - d + 1) with (B w - d) by lia.
    destruct (Z.leb_spec (B w) (B w - d)) as [Hz|Hz].
    + assert (d = 0) by lia. subst d. destruct (ineg_loop w R) as [r1 f1]. cbn [fst snd] in *.
      rewrite Z.sub_0_r, Z_mod_same_full.
      split; [|split].
      * apply wf_cons. split; [unfold digit_ok; lia | exact IH1].
      * cbn [uval]. rewrite IH2. replace (- (0 + B w * uval w R)) with (0 + B w * (- uval w R)) by lia.
        rewrite mod_cons by lia. reflexivity.
      * rewrite IH3. destruct (Z.eqb_spec (uval w R) (Mn / 2));
          [apply eq_sym, Z.eqb_eq | apply eq_sym, Z.eqb_neq]; nia.
    + cbn [fst snd]. rewrite Z.mod_small by lia.
      split; [|split].
      * apply wf_cons. split; [unfold digit_ok; lia | exact Hb1].
      * cbn [uval]. rewrite Hb2. fold Mn.
        rewrite (mod_shift (B w * Mn) (- (d + B w * uval w R)) (B w * Mn - (d + B w * uval w R)) (-1)) by lia.
        rewrite Z.mod_small by nia. lia.
      * apply eq_sym, Z.eqb_neq. set (h := Mn / 2) in *. set (u := uval w R) in *.
        intros E. assert (E2 : d = B w * (h - u)) by (rewrite Z.mul_sub_distr_l; lia). assert (0 < h - u) by nia. assert (h - u < 1) by nia. lia.
Qed.

Lemma sval_min_uval w n a : 0 < w -> (0 < n)%nat -> wf w n a ->
  (uval w a =? Mod w n / 2) = (sval w a =? - (Mod w n / 2)).
Proof.
  intros Hw Hn Ha. pose proof (uval_eqb_sval w n a (IMIN w n) Hw Hn Ha (wf_IMIN w n Hw)) as E.
  rewrite uval_IMIN, sval_IMIN in E by auto. exact E.
Qed.

Lemma I_overflowing_neg_spec w n a : 0 < w -> (0 < n)%nat -> wf w n a ->
  wf w n (fst (I_overflowing_neg w a)) /\
  uval w (fst (I_overflowing_neg w a)) = (- uval w a) mod Mod w n /\
  sval w (fst (I_overflowing_neg w a)) = wrapS (Mod w n) (- sval w a) /\
  snd (I_overflowing_neg w a) = (sval w a =? - (Mod w n / 2)).
Proof.
  intros Hw Hn Ha. unfold I_overflowing_neg.
  destruct (ineg_loop_spec w n a Hw Hn Ha) as (H1 & H2 & H3).
  pose proof (Mod_pos w n ltac:(lia)).
  split; [exact H1|]. split; [exact H2|]. split.
  - apply (sval_of_uval_mod w n); auto. rewrite H2, Z.mod_mod by lia.
    apply mod_opp_congr. symmetry. apply sval_mod; auto.
  - rewrite H3. apply sval_min_uval; auto.
Qed.

Lemma I_wrapping_neg_spec w n a : 0 < w -> (0 < n)%nat -> wf w n a ->
  wf w n (I_wrapping_neg w a) /\
  uval w (I_wrapping_neg w a) = (- uval w a) mod Mod w n /\
  sval w (I_wrapping_neg w a) = wrapS (Mod w n) (- sval w a).
Proof.
  intros Hw Hn Ha. destruct (I_overflowing_neg_spec w n a Hw Hn Ha) as (H1 & H2 & H3 & _).
  unfold I_wrapping_neg. auto.
Qed.

(* negation is exact except at MIN, which it maps to itself *)
Lemma wrapS_neg M s : 0 < M -> M = 2 * (M / 2) -> - (M / 2) <= s < M / 2 ->
  wrapS M (- s) = if s =? - (M / 2) then - (M / 2) else - s.
Proof.
  intros HM He Hs. destruct (Z.eqb_spec s (- (M / 2))) as [->|Hne].
  - rewrite (wrapS_congr M _ (- (M / 2))); auto; [apply wrapS_id; lia|].
    apply (mod_shift _ _ _ 1). lia.
  - apply wrapS_id; lia.
Qed.

Lemma I_checked_neg_spec w n a : 0 < w -> (0 < n)%nat -> wf w n a ->
  (sval w a = - (Mod w n / 2) -> I_checked_neg w a = None) /\
  (sval w a <> - (Mod w n / 2) ->
     exists r, I_checked_neg w a = Some r /\ wf w n r /\ sval w r = - sval w a).
Proof.
  intros Hw Hn Ha. destruct (I_overflowing_neg_spec w n a Hw Hn Ha) as (H1 & _ & H3 & H4).
  pose proof (Mod_pos w n ltac:(lia)). pose proof (Mod_even w n Hw Hn).
  pose proof (sval_range w n a Hw Hn Ha).
  unfold I_checked_neg, tuple_to_option. rewrite H4. split; intros Hc.
  - rewrite Hc, Z.eqb_refl. reflexivity.
  - destruct (Z.eqb_spec (sval w a) (- (Mod w n / 2))); [contradiction|].
    eexists; split; [reflexivity|]. split; [exact H1|]. rewrite H3. apply wrapS_id; lia.
Qed.

Lemma I_neg_spec dbg w n a : 0 < w -> (0 < n)%nat -> wf w n a ->
  (sval w a <> - (Mod w n / 2) -> SRet w n (I_neg dbg w a) (- sval w a)) /\
  (sval w a = - (Mod w n / 2) ->
     if dbg then I_neg dbg w a = Panic else SRet w n (I_neg dbg w a) (- (Mod w n / 2))).
Proof.
  intros Hw Hn Ha. destruct (I_checked_neg_spec w n a Hw Hn Ha) as [Hmin Hok].
  destruct (I_wrapping_neg_spec w n a Hw Hn Ha) as (W1 & _ & W3).
  pose proof (Mod_pos w n ltac:(lia)). pose proof (Mod_even w n Hw Hn).
  pose proof (sval_range w n a Hw Hn Ha).
  rewrite wrapS_neg in W3 by lia.
  unfold SRet, I_neg, I_strict_neg. split; intros Hc.
  - destruct dbg.
    + destruct (Hok Hc) as (r & -> & Hr & Hv). exists r. cbn [option_expect]. auto.
    + eexists; split; [reflexivity|]. split; [exact W1|]. rewrite W3.
      destruct (Z.eqb_spec (sval w a) (- (Mod w n / 2))); [contradiction | reflexivity].
  - destruct dbg.
    + rewrite (Hmin Hc). reflexivity.
    + eexists; split; [reflexivity|]. split; [exact W1|]. rewrite W3, Hc, Z.eqb_refl. reflexivity.
Qed.

(* unsigned_abs: the magnitude as an unsigned value, MIN included *)
Lemma I_unsigned_abs_spec w n a : 0 < w -> (0 < n)%nat -> wf w n a ->
  wf w n (I_unsigned_abs w a) /\ uval w (I_unsigned_abs w a) = Z.abs (sval w a).
Proof.
  intros Hw Hn Ha. unfold I_unsigned_abs.
  destruct (I_wrapping_neg_spec w n a Hw Hn Ha) as (W1 & W2 & _).
  pose proof (Mod_pos w n ltac:(lia)). pose proof (Mod_even w n Hw Hn).
  pose proof (sval_range w n a Hw Hn Ha). pose proof (uval_bounds w n a ltac:(lia) Ha).
  pose proof (uval_sval w n a Hw Hn Ha) as Hu.
  rewrite (is_negative_spec w n) by auto.
  destruct (Z.ltb_spec (sval w a) 0).
  - split; [exact W1|]. rewrite W2.
    rewrite (mod_shift _ (- uval w a) (- sval w a) (-1)) by lia. rewrite Z.mod_small; lia.
  - split; [exact Ha|]. lia.
Qed.

(* ---------- signed add / sub chains ---------- *)

Local Ltac cmp_cases :=
  repeat match goal with
  | |- context [?a <? ?b] => destruct (Z.ltb_spec a b)
  | |- context [?a <=? ?b] => destruct (Z.leb_spec a b)
  end.

(* flag of the top-digit carrying add: xor of the two partial overflows *)
Lemma sadd_flag M sx sy (c : bool) : 0 < M -> M = 2 * (M / 2) ->
  - (M / 2) <= sx < M / 2 -> - (M / 2) <= sy < M / 2 ->
  (if c then xorb (negb (inS M (sx + sy))) (negb (inS M (wrapS M (sx + sy) + 1)))
   else negb (inS M (sx + sy))) = negb (inS M (sx + sy + bz c)).
Proof.
  intros HM He Hx Hy. destruct c; cbn [bz]; [|f_equal; f_equal; lia].
  rewrite wrapS_cases by lia. unfold inS. set (h := M / 2) in *.
  cmp_cases; cbn [andb negb xorb]; try reflexivity; lia.
Qed.

Lemma ssub_flag M sx sy (c : bool) : 0 < M -> M = 2 * (M / 2) ->
  - (M / 2) <= sx < M / 2 -> - (M / 2) <= sy < M / 2 ->
  (if c then xorb (negb (inS M (sx - sy))) (negb (inS M (wrapS M (sx - sy) - 1)))
   else negb (inS M (sx - sy))) = negb (inS M (sx - sy - bz c)).
Proof.
  intros HM He Hx Hy. destruct c; cbn [bz]; [|f_equal; f_equal; lia].
  rewrite wrapS_cases by lia. unfold inS. set (h := M / 2) in *.
  cmp_cases; cbn [andb negb xorb]; try reflexivity; lia.
Qed.

Lemma carrying_add_signed_spec w x y c s o : 0 < w -> digit_ok w x -> digit_ok w y ->
  carrying_add_signed w (sd w x) (sd w y) c = (s, o) ->
  ud w s = (x + y + bz c) mod B w /\ o = negb (inS (B w) (sd w x + sd w y + bz c)).
Proof.
  intros Hw Hx Hy E. pose proof (B_pos w ltac:(lia)) as HB. destruct (B_even w Hw) as [HBe _].
  unfold digit_ok in *.
  assert (Rx : - (B w / 2) <= sd w x < B w / 2) by (apply to_signed_range; lia).
  assert (Ry : - (B w / 2) <= sd w y < B w / 2) by (apply to_signed_range; lia).
  assert (Hm : (sd w x + sd w y) mod B w = (x + y) mod B w).
  { apply mod_add_congr2; apply to_signed_mod; lia. }
  pose proof (sadd_flag (B w) (sd w x) (sd w y) c HB HBe Rx Ry) as Hf.
  unfold carrying_add_signed, s_ovf_add in E. unfold ud. destruct c; cbn [bz] in *;
    inversion E; subst; clear E; (split; [|exact Hf]).
  - rewrite wrapS_mod by lia. apply mod_add_congr. rewrite wrapS_mod by lia. exact Hm.
  - rewrite wrapS_mod by lia. rewrite Z.add_0_r. exact Hm.
Qed.

Lemma borrowing_sub_signed_spec w x y c s o : 0 < w -> digit_ok w x -> digit_ok w y ->
  borrowing_sub_signed w (sd w x) (sd w y) c = (s, o) ->
  ud w s = (x - y - bz c) mod B w /\ o = negb (inS (B w) (sd w x - sd w y - bz c)).
Proof.
  intros Hw Hx Hy E. pose proof (B_pos w ltac:(lia)) as HB. destruct (B_even w Hw) as [HBe _].
  unfold digit_ok in *.
  assert (Rx : - (B w / 2) <= sd w x < B w / 2) by (apply to_signed_range; lia).
  assert (Ry : - (B w / 2) <= sd w y < B w / 2) by (apply to_signed_range; lia).
  assert (Hm : (sd w x - sd w y) mod B w = (x - y) mod B w).
  { apply mod_sub_congr; apply to_signed_mod; lia. }
  pose proof (ssub_flag (B w) (sd w x) (sd w y) c HB HBe Rx Ry) as Hf.
  unfold borrowing_sub_signed, s_ovf_sub in E. unfold ud. destruct c; cbn [bz] in *;
    inversion E; subst; clear E; (split; [|exact Hf]).
  - rewrite wrapS_mod by lia. apply (mod_sub_congr _ _ _ 1 1); [|reflexivity].
    rewrite wrapS_mod by lia. exact Hm.
  - rewrite wrapS_mod by lia. rewrite Z.sub_0_r. exact Hm.
Qed.

Lemma iadd_loop_cons2 w x x' a y y' b c :
  iadd_loop w (x :: x' :: a) (y :: y' :: b) c =
  let '(s, c1) := carrying_add w x y c in
  let '(r, o) := iadd_loop w (x' :: a) (y' :: b) c1 in (s :: r, o).
Proof. reflexivity. Qed.

Lemma isub_loop_cons2 w x x' a y y' b c :
  isub_loop w (x :: x' :: a) (y :: y' :: b) c =
  let '(s, c1) := borrowing_sub w x y c in
  let '(r, o) := isub_loop w (x' :: a) (y' :: b) c1 in (s :: r, o).
Proof. reflexivity. Qed.

Lemma iadd_loop_spec w n a b c r o : 0 < w -> (0 < n)%nat -> wf w n a -> wf w n b ->
  iadd_loop w a b c = (r, o) ->
  wf w n r /\ uval w r = (uval w a + uval w b + bz c) mod Mod w n /\
  o = negb (inS (Mod w n) (sval w a + sval w b + bz c)).
Proof.
  intros Hw Hn. destruct n as [|n]; [lia|]. clear Hn. revert a b c r o.
  pose proof (B_pos w ltac:(lia)) as HB.
  induction n as [|n IH]; intros a b c r o Ha Hb E.
  - destruct (wf_inv_S _ _ _ Ha) as (x & a' & -> & Hx & Ha'). apply wf_inv_0 in Ha'; subst.
    destruct (wf_inv_S _ _ _ Hb) as (y & b' & -> & Hy & Hb'). apply wf_inv_0 in Hb'; subst.
    cbn [iadd_loop] in E.
    destruct (carrying_add_signed w (sd w x) (sd w y) c) as [s o'] eqn:E1.
    inversion E; subst; clear E.
    destruct (carrying_add_signed_spec _ _ _ _ _ _ Hw Hx Hy E1) as [Hs Ho].
    rewrite !sval_single by lia. rewrite Mod_1 by lia. cbn [uval].
    rewrite !Z.mul_0_r, !Z.add_0_r. rewrite Hs.
    split; [|split; [reflexivity | exact Ho]].
    apply wf_cons. split; [|apply wf_nil]. rewrite <- Hs. apply Z.mod_pos_bound; lia.
  - destruct (wf_inv_S _ _ _ Ha) as (x & a' & -> & Hx & Ha').
    destruct (wf_inv_S _ _ _ Hb) as (y & b' & -> & Hy & Hb').
    destruct (wf_inv_S _ _ _ Ha') as (x' & a'' & -> & Hx' & Ha'').
    destruct (wf_inv_S _ _ _ Hb') as (y' & b'' & -> & Hy' & Hb'').
    rewrite iadd_loop_cons2 in E.
    destruct (carrying_add w x y c) as [s c1] eqn:E1.
    destruct (iadd_loop w (x' :: a'') (y' :: b'') c1) as [r' o'] eqn:E2.
    inversion E; subst; clear E.
    destruct (carrying_add_spec w x y c s c1 ltac:(lia) Hx Hy E1) as [Hs Hv1].
    destruct (IH _ _ _ _ _ Ha' Hb' E2) as (Hr & Hv2 & Ho).
    set (A' := x' :: a'') in *. set (B' := y' :: b'') in *.
    pose proof (Mod_pos w (S n) ltac:(lia)) as HM. pose proof (Mod_even w (S n) Hw ltac:(lia)) as HMe.
    unfold digit_ok in Hs.
    split; [apply wf_cons; auto|]. split.
    + cbn [uval]. rewrite Hv2, (Mod_S w (S n)) by lia. rewrite <- mod_cons by lia. f_equal. lia.
    + rewrite (sval_cons w (S n) x A'), (sval_cons w (S n) y B') by (auto; lia).
      rewrite (Mod_S w (S n)) by lia. rewrite Ho.
      rewrite <- (inS_cons (B w) (Mod w (S n)) s) by lia. f_equal. f_equal. lia.
Qed.

Lemma isub_loop_spec w n a b c r o : 0 < w -> (0 < n)%nat -> wf w n a -> wf w n b ->
  isub_loop w a b c = (r, o) ->
  wf w n r /\ uval w r = (uval w a - uval w b - bz c) mod Mod w n /\
  o = negb (inS (Mod w n) (sval w a - sval w b - bz c)).
Proof.
  intros Hw Hn. destruct n as [|n]; [lia|]. clear Hn. revert a b c r o.
  pose proof (B_pos w ltac:(lia)) as HB.
  induction n as [|n IH]; intros a b c r o Ha Hb E.
  - destruct (wf_inv_S _ _ _ Ha) as (x & a' & -> & Hx & Ha'). apply wf_inv_0 in Ha'; subst.
    destruct (wf_inv_S _ _ _ Hb) as (y & b' & -> & Hy & Hb'). apply wf_inv_0 in Hb'; subst.
    cbn [isub_loop] in E.
    destruct (borrowing_sub_signed w (sd w x) (sd w y) c) as [s o'] eqn:E1.
    inversion E; subst; clear E.
    destruct (borrowing_sub_signed_spec _ _ _ _ _ _ Hw Hx Hy E1) as [Hs Ho].
    rewrite !sval_single by lia. rewrite Mod_1 by lia. cbn [uval].
    rewrite !Z.mul_0_r, !Z.add_0_r. rewrite Hs.
    split; [|split; [reflexivity | exact Ho]].
    apply wf_cons. split; [|apply wf_nil]. rewrite <- Hs. apply Z.mod_pos_bound; lia.
  - destruct (wf_inv_S _ _ _ Ha) as (x & a' & -> & Hx & Ha').
    destruct (wf_inv_S _ _ _ Hb) as (y & b' & -> & Hy & Hb').
    destruct (wf_inv_S _ _ _ Ha') as (x' & a'' & -> & Hx' & Ha'').
    destruct (wf_inv_S _ _ _ Hb') as (y' & b'' & -> & Hy' & Hb'').
    rewrite isub_loop_cons2 in E.
    destruct (borrowing_sub w x y c) as [s c1] eqn:E1.
    destruct (isub_loop w (x' :: a'') (y' :: b'') c1) as [r' o'] eqn:E2.
    inversion E; subst; clear E.
    destruct (borrowing_sub_spec w x y c s c1 ltac:(lia) Hx Hy E1) as [Hs Hv1].
    destruct (IH _ _ _ _ _ Ha' Hb' E2) as (Hr & Hv2 & Ho).
    set (A' := x' :: a'') in *. set (B' := y' :: b'') in *.
    pose proof (Mod_pos w (S n) ltac:(lia)) as HM. pose proof (Mod_even w (S n) Hw ltac:(lia)) as HMe.
    unfold digit_ok in Hs.
    split; [apply wf_cons; auto|]. split.
    + cbn [uval]. rewrite Hv2, (Mod_S w (S n)) by lia. rewrite <- mod_cons by lia. f_equal. lia.
    + rewrite (sval_cons w (S n) x A'), (sval_cons w (S n) y B') by (auto; lia).
      rewrite (Mod_S w (S n)) by lia. rewrite Ho.
      rewrite <- (inS_cons (B w) (Mod w (S n)) s) by lia. f_equal. f_equal. lia.
Qed.

(* ---------- signed add / sub projections ---------- *)

Lemma I_overflowing_add_spec w n a b : 0 < w -> (0 < n)%nat -> wf w n a -> wf w n b ->
  wf w n (fst (I_overflowing_add w a b)) /\
  uval w (fst (I_overflowing_add w a b)) = (uval w a + uval w b) mod Mod w n /\
  sval w (fst (I_overflowing_add w a b)) = wrapS (Mod w n) (sval w a + sval w b) /\
  snd (I_overflowing_add w a b) = negb (inS (Mod w n) (sval w a + sval w b)).
Proof.
  intros Hw Hn Ha Hb. unfold I_overflowing_add.
  destruct (iadd_loop w a b false) as [r o] eqn:E.
  destruct (iadd_loop_spec w n a b false r o Hw Hn Ha Hb E) as (H1 & H2 & H3).
  cbn [bz fst snd] in *. rewrite Z.add_0_r in H2, H3. pose proof (Mod_pos w n ltac:(lia)).
  repeat (split; [assumption|]). split; [|exact H3].
  apply (sval_of_uval_mod w n); auto. rewrite H2, Z.mod_mod by lia.
  apply mod_add_congr2; symmetry; apply sval_mod; auto.
Qed.

Lemma I_overflowing_sub_spec w n a b : 0 < w -> (0 < n)%nat -> wf w n a -> wf w n b ->
  wf w n (fst (I_overflowing_sub w a b)) /\
  uval w (fst (I_overflowing_sub w a b)) = (uval w a - uval w b) mod Mod w n /\
  sval w (fst (I_overflowing_sub w a b)) = wrapS (Mod w n) (sval w a - sval w b) /\
  snd (I_overflowing_sub w a b) = negb (inS (Mod w n) (sval w a - sval w b)).
Proof.
  intros Hw Hn Ha Hb. unfold I_overflowing_sub.
  destruct (isub_loop w a b false) as [r o] eqn:E.
  destruct (isub_loop_spec w n a b false r o Hw Hn Ha Hb E) as (H1 & H2 & H3).
  cbn [bz fst snd] in *. rewrite Z.sub_0_r in H2, H3. pose proof (Mod_pos w n ltac:(lia)).
  repeat (split; [assumption|]). split; [|exact H3].
  apply (sval_of_uval_mod w n); auto. rewrite H2, Z.mod_mod by lia.
  apply mod_sub_congr; symmetry; apply sval_mod; auto.
Qed.

(* BInt::wrapping_add / wrapping_sub run the unsigned loops on the bit pattern *)
Lemma I_wrapping_add_spec w n a b : 0 < w -> (0 < n)%nat -> wf w n a -> wf w n b ->
  wf w n (I_wrapping_add w a b) /\
  uval w (I_wrapping_add w a b) = (uval w a + uval w b) mod Mod w n /\
  sval w (I_wrapping_add w a b) = wrapS (Mod w n) (sval w a + sval w b).
Proof.
  intros Hw Hn Ha Hb. unfold I_wrapping_add.
  destruct (U_wrapping_add_spec w n a b ltac:(lia) Ha Hb) as [H1 H2].
  pose proof (Mod_pos w n ltac:(lia)).
  split; [exact H1|]. split; [exact H2|].
  apply (sval_of_uval_mod w n); auto. rewrite H2, Z.mod_mod by lia.
  apply mod_add_congr2; symmetry; apply sval_mod; auto.
Qed.

Lemma I_wrapping_sub_spec w n a b : 0 < w -> (0 < n)%nat -> wf w n a -> wf w n b ->
  wf w n (I_wrapping_sub w a b) /\
  uval w (I_wrapping_sub w a b) = (uval w a - uval w b) mod Mod w n /\
  sval w (I_wrapping_sub w a b) = wrapS (Mod w n) (sval w a - sval w b).
Proof.
  intros Hw Hn Ha Hb. unfold I_wrapping_sub.
  destruct (U_wrapping_sub_spec w n a b ltac:(lia) Ha Hb) as [H1 H2].
  pose proof (Mod_pos w n ltac:(lia)).
  split; [exact H1|]. split; [exact H2|].
  apply (sval_of_uval_mod w n); auto. rewrite H2, Z.mod_mod by lia.
  apply mod_sub_congr; symmetry; apply sval_mod; auto.
Qed.

Lemma I_checked_add_spec w n a b : 0 < w -> (0 < n)%nat -> wf w n a -> wf w n b ->
  (inS (Mod w n) (sval w a + sval w b) = true ->
     exists r, I_checked_add w a b = Some r /\ wf w n r /\ sval w r = sval w a + sval w b) /\
  (inS (Mod w n) (sval w a + sval w b) = false -> I_checked_add w a b = None).
Proof.
  intros Hw Hn Ha Hb. destruct (I_overflowing_add_spec w n a b Hw Hn Ha Hb) as (H1 & _ & H3 & H4).
  pose proof (Mod_pos w n ltac:(lia)). pose proof (Mod_even w n Hw Hn).
  unfold I_checked_add, tuple_to_option. rewrite H4. split; intros Hc; rewrite Hc; cbn [negb].
  - eexists; split; [reflexivity|]. split; [exact H1|]. rewrite H3.
    apply wrapS_id; auto. apply inS_true; exact Hc.
  - reflexivity.
Qed.

Lemma I_checked_sub_spec w n a b : 0 < w -> (0 < n)%nat -> wf w n a -> wf w n b ->
  (inS (Mod w n) (sval w a - sval w b) = true ->
     exists r, I_checked_sub w a b = Some r /\ wf w n r /\ sval w r = sval w a - sval w b) /\
  (inS (Mod w n) (sval w a - sval w b) = false -> I_checked_sub w a b = None).
Proof.
  intros Hw Hn Ha Hb. destruct (I_overflowing_sub_spec w n a b Hw Hn Ha Hb) as (H1 & _ & H3 & H4).
  pose proof (Mod_pos w n ltac:(lia)). pose proof (Mod_even w n Hw Hn).
  unfold I_checked_sub, tuple_to_option. rewrite H4. split; intros Hc; rewrite Hc; cbn [negb].
  - eexists; split; [reflexivity|]. split; [exact H1|]. rewrite H3.
    apply wrapS_id; auto. apply inS_true; exact Hc.
  - reflexivity.
Qed.

(* inherent add / sub: exact in range in both build modes; out of range: panic with debug
   assertions, two's complement wrap without *)
Lemma I_add_spec dbg w n a b : 0 < w -> (0 < n)%nat -> wf w n a -> wf w n b ->
  (inS (Mod w n) (sval w a + sval w b) = true ->
     SRet w n (I_add dbg w a b) (sval w a + sval w b)) /\
  (inS (Mod w n) (sval w a + sval w b) = false ->
     if dbg then I_add dbg w a b = Panic
     else SRet w n (I_add dbg w a b) (wrapS (Mod w n) (sval w a + sval w b))).
Proof.
  intros Hw Hn Ha Hb. destruct (I_checked_add_spec w n a b Hw Hn Ha Hb) as [Hin Hout].
  destruct (I_wrapping_add_spec w n a b Hw Hn Ha Hb) as (W1 & _ & W3).
  pose proof (Mod_pos w n ltac:(lia)). pose proof (Mod_even w n Hw Hn).
  unfold SRet, I_add, I_strict_add. split; intros Hc.
  - destruct dbg.
    + destruct (Hin Hc) as (r & -> & Hr & Hv). exists r. cbn [option_expect]. auto.
    + eexists; split; [reflexivity|]. split; [exact W1|]. rewrite W3.
      apply wrapS_id; auto. apply inS_true; exact Hc.
  - destruct dbg.
    + rewrite (Hout Hc). reflexivity.
    + eexists; split; [reflexivity|]. split; assumption.
Qed.

Lemma I_sub_spec dbg w n a b : 0 < w -> (0 < n)%nat -> wf w n a -> wf w n b ->
  (inS (Mod w n) (sval w a - sval w b) = true ->
     SRet w n (I_sub dbg w a b) (sval w a - sval w b)) /\
  (inS (Mod w n) (sval w a - sval w b) = false ->
     if dbg then I_sub dbg w a b = Panic
     else SRet w n (I_sub dbg w a b) (wrapS (Mod w n) (sval w a - sval w b))).
Proof.
  intros Hw Hn Ha Hb. destruct (I_checked_sub_spec w n a b Hw Hn Ha Hb) as [Hin Hout].
  destruct (I_wrapping_sub_spec w n a b Hw Hn Ha Hb) as (W1 & _ & W3).
  pose proof (Mod_pos w n ltac:(lia)). pose proof (Mod_even w n Hw Hn).
  unfold SRet, I_sub, I_strict_sub. split; intros Hc.
  - destruct dbg.
    + destruct (Hin Hc) as (r & -> & Hr & Hv). exists r. cbn [option_expect]. auto.
    + eexists; split; [reflexivity|]. split; [exact W1|]. rewrite W3.
      apply wrapS_id; auto. apply inS_true; exact Hc.
  - destruct dbg.
    + rewrite (Hout Hc). reflexivity.
    + eexists; split; [reflexivity|]. split; assumption.
Qed.

(* range form of the in-range cases, convenient for callers *)
Lemma I_add_ok dbg w n a b : 0 < w -> (0 < n)%nat -> wf w n a -> wf w n b ->
  - (Mod w n / 2) <= sval w a + sval w b < Mod w n / 2 ->
  SRet w n (I_add dbg w a b) (sval w a + sval w b).
Proof. intros Hw Hn Ha Hb Hr. apply I_add_spec; auto. apply inS_true. exact Hr. Qed.

Lemma I_sub_ok dbg w n a b : 0 < w -> (0 < n)%nat -> wf w n a -> wf w n b ->
  - (Mod w n / 2) <= sval w a - sval w b < Mod w n / 2 ->
  SRet w n (I_sub dbg w a b) (sval w a - sval w b).
Proof. intros Hw Hn Ha Hb Hr. apply I_sub_spec; auto. apply inS_true. exact Hr. Qed.

Lemma inS_false M x : inS M x = false <-> ~ (- (M / 2) <= x < M / 2).
Proof. rewrite <- inS_true. destruct (inS M x); split; intros; congruence. Qed.

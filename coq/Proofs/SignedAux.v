(* Proofs/SignedAux.v — facts about Model/Core.v and Model/AddSub.v used by the signed division
   proofs (Proofs/DivSigned.v) and the unsigned wrappers (Proofs/DivUnsignedWrap.v):
   inherent / checked / wrapping add, sub, neg in both signednesses, the sign test, the signed
   constants, unsigned_abs. *)
From Bnum Require Import Base Prim.
From Bnum.Model Require Import Digit Core Shift AddSub.
From Bnum.Proofs Require Import DivAux.

(* result predicates: the outcome is `Ret r` with r well formed and of the given value *)
Definition URet (w : Z) (n : nat) (o : outcome (list Z)) (v : Z) : Prop :=
  exists r, o = Ret r /\ wf w n r /\ uval w r = v.
Definition SRet (w : Z) (n : nat) (o : outcome (list Z)) (v : Z) : Prop :=
  exists r, o = Ret r /\ wf w n r /\ sval w r = v.

(* ---------- unsigned add / sub projections ---------- *)

Lemma U_wrapping_add_spec w n a b : 0 <= w -> wf w n a -> wf w n b ->
  wf w n (U_wrapping_add w a b) /\
  uval w (U_wrapping_add w a b) = (uval w a + uval w b) mod Mod w n.
Proof.
  intros Hw Ha Hb. destruct (U_overflowing_add_spec w n a b Hw Ha Hb) as (H1 & H2 & _).
  split; assumption.
Qed.

Lemma U_wrapping_sub_spec w n a b : 0 <= w -> wf w n a -> wf w n b ->
  wf w n (U_wrapping_sub w a b) /\
  uval w (U_wrapping_sub w a b) = (uval w a - uval w b) mod Mod w n.
Proof.
  intros Hw Ha Hb. destruct (U_overflowing_sub_spec w n a b Hw Ha Hb) as (H1 & H2 & _).
  split; assumption.
Qed.

Lemma U_checked_add_spec w n a b : 0 <= w -> wf w n a -> wf w n b ->
  (uval w a + uval w b < Mod w n ->
     exists r, U_checked_add w a b = Some r /\ wf w n r /\ uval w r = uval w a + uval w b) /\
  (Mod w n <= uval w a + uval w b -> U_checked_add w a b = None).
Proof.
  intros Hw Ha Hb. destruct (U_overflowing_add_spec w n a b Hw Ha Hb) as (H1 & H2 & H3).
  pose proof (uval_bounds w n a Hw Ha). pose proof (uval_bounds w n b Hw Hb).
  unfold U_checked_add, tuple_to_option. rewrite H3. split; intros Hc.
  - destruct (Z.leb_spec (Mod w n) (uval w a + uval w b)); [lia|].
    eexists; split; [reflexivity|]. split; [exact H1|]. rewrite H2. apply Z.mod_small; lia.
  - destruct (Z.leb_spec (Mod w n) (uval w a + uval w b)); [reflexivity | lia].
Qed.

Lemma U_checked_sub_spec w n a b : 0 <= w -> wf w n a -> wf w n b ->
  (uval w b <= uval w a ->
     exists r, U_checked_sub w a b = Some r /\ wf w n r /\ uval w r = uval w a - uval w b) /\
  (uval w a < uval w b -> U_checked_sub w a b = None).
Proof.
  intros Hw Ha Hb. destruct (U_overflowing_sub_spec w n a b Hw Ha Hb) as (H1 & H2 & H3).
  pose proof (uval_bounds w n a Hw Ha). pose proof (uval_bounds w n b Hw Hb).
  unfold U_checked_sub, tuple_to_option. rewrite H3. split; intros Hc.
  - destruct (Z.ltb_spec (uval w a) (uval w b)); [lia|].
    eexists; split; [reflexivity|]. split; [exact H1|]. rewrite H2. apply Z.mod_small; lia.
  - destruct (Z.ltb_spec (uval w a) (uval w b)); [reflexivity | lia].
Qed.

(* inherent add: exact in range in both build modes; out of range it panics with debug
   assertions and wraps without *)
Lemma U_add_spec dbg w n a b : 0 <= w -> wf w n a -> wf w n b ->
  (uval w a + uval w b < Mod w n -> URet w n (U_add dbg w a b) (uval w a + uval w b)) /\
  (Mod w n <= uval w a + uval w b ->
     if dbg then U_add dbg w a b = Panic
     else URet w n (U_add dbg w a b) ((uval w a + uval w b) mod Mod w n)).
Proof.
  intros Hw Ha Hb. destruct (U_checked_add_spec w n a b Hw Ha Hb) as [Hin Hout].
  destruct (U_wrapping_add_spec w n a b Hw Ha Hb) as [Hwf Hwv].
  pose proof (uval_bounds w n a Hw Ha). pose proof (uval_bounds w n b Hw Hb).
  unfold URet, U_add, U_strict_add. split; intros Hc.
  - destruct dbg.
    + destruct (Hin Hc) as (r & -> & Hr & Hv). exists r; cbn [option_expect]; auto.
    + eexists; split; [reflexivity|]. split; [exact Hwf|]. rewrite Hwv. apply Z.mod_small; lia.
  - destruct dbg.
    + rewrite (Hout Hc). reflexivity.
    + eexists; split; [reflexivity|]. split; assumption.
Qed.

Lemma U_sub_spec dbg w n a b : 0 <= w -> wf w n a -> wf w n b ->
  (uval w b <= uval w a -> URet w n (U_sub dbg w a b) (uval w a - uval w b)) /\
  (uval w a < uval w b ->
     if dbg then U_sub dbg w a b = Panic
     else URet w n (U_sub dbg w a b) ((uval w a - uval w b) mod Mod w n)).
Proof.
  intros Hw Ha Hb. destruct (U_checked_sub_spec w n a b Hw Ha Hb) as [Hin Hout].
  destruct (U_wrapping_sub_spec w n a b Hw Ha Hb) as [Hwf Hwv].
  pose proof (uval_bounds w n a Hw Ha). pose proof (uval_bounds w n b Hw Hb).
  unfold URet, U_sub, U_strict_sub. split; intros Hc.
  - destruct dbg.
    + destruct (Hin Hc) as (r & -> & Hr & Hv). exists r; cbn [option_expect]; auto.
    + eexists; split; [reflexivity|]. split; [exact Hwf|]. rewrite Hwv. apply Z.mod_small; lia.
  - destruct dbg.
    + rewrite (Hout Hc). reflexivity.
    + eexists; split; [reflexivity|]. split; assumption.
Qed.

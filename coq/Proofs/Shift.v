(* Proofs/Shift.v — C05: the shift / rotate models of Model/Shift.v compute
   the arithmetic specifications. *)
From Bnum Require Import Base Prim.
From Bnum.Model Require Import Core Shift.
From Bnum.Proofs Require Import BitAddr.

Local Open Scope Z_scope.

(* ================================================================== *)
(* digit steps (pure Z)                                                *)
(* ================================================================== *)

Lemma shl_digit w bs d c : 0 < bs < w -> 0 <= d < 2 ^ w -> 0 <= c < 2 ^ bs ->
  0 <= Z.lor ((d * 2 ^ bs) mod 2 ^ w) c < 2 ^ w /\
  0 <= d / 2 ^ (w - bs) < 2 ^ bs /\
  Z.lor ((d * 2 ^ bs) mod 2 ^ w) c + 2 ^ w * (d / 2 ^ (w - bs)) = d * 2 ^ bs + c.
Proof.
  intros Hbs Hd Hc.
  assert (HP : 0 < 2 ^ (w - bs)) by (apply pow2_pos; lia).
  assert (HQ : 0 < 2 ^ bs) by (apply pow2_pos; lia).
  assert (HPQ : 2 ^ w = 2 ^ (w - bs) * 2 ^ bs) by (rewrite <- pow2_split by lia; f_equal; lia).
  rewrite HPQ in *. set (P := 2 ^ (w - bs)) in *. set (Q := 2 ^ bs) in *.
  rewrite Z.mul_mod_distr_r by lia.
  assert (Hlor : Z.lor (d mod P * Q) c = d mod P * Q + c)
    by (unfold Q; apply lor_disjoint_add; fold Q; lia).
  rewrite Hlor.
  pose proof (Z.div_mod d P ltac:(lia)) as Hdm.
  pose proof (Z.mod_pos_bound d P HP) as Hm.
  assert (Hq : 0 <= d / P < Q).
  { split; [apply Z.div_pos; lia | apply Z.div_lt_upper_bound; lia]. }
  set (q := d / P) in *. set (m := d mod P) in *.
  assert (m * Q <= (P - 1) * Q) by (apply Z.mul_le_mono_nonneg_r; lia).
  assert (0 <= m * Q) by (apply Z.mul_nonneg_nonneg; lia).
  split; [lia|]. split; [lia|]. replace (d * Q) with ((P * q + m) * Q) by (rewrite <- Hdm; reflexivity). ring.
Qed.

Lemma shr_digit w bs d c : 0 < bs < w -> 0 <= d < 2 ^ w -> 0 <= c < 2 ^ bs ->
  Z.lor (d / 2 ^ bs) (c * 2 ^ (w - bs)) = d / 2 ^ bs + c * 2 ^ (w - bs) /\
  0 <= d / 2 ^ bs + c * 2 ^ (w - bs) < 2 ^ w /\
  (d * 2 ^ (w - bs)) mod 2 ^ w = (d mod 2 ^ bs) * 2 ^ (w - bs) /\
  0 <= d mod 2 ^ bs < 2 ^ bs.
Proof.
  intros Hbs Hd Hc.
  assert (HP : 0 < 2 ^ (w - bs)) by (apply pow2_pos; lia).
  assert (HQ : 0 < 2 ^ bs) by (apply pow2_pos; lia).
  assert (HPQ : 2 ^ w = 2 ^ bs * 2 ^ (w - bs)) by (rewrite <- pow2_split by lia; f_equal; lia).
  assert (Hq : 0 <= d / 2 ^ bs < 2 ^ (w - bs)).
  { split; [apply Z.div_pos; lia | apply Z.div_lt_upper_bound; lia]. }
  split; [apply lor_disjoint_add'; lia|].
  split; [nia|].
  split; [|apply Z.mod_pos_bound; lia].
  rewrite HPQ. apply Z.mul_mod_distr_r; lia.
Qed.

(* ================================================================== *)
(* shl_bits                                                            *)
(* ================================================================== *)

Lemma shl_bits_length w bs ds c : length (shl_bits w bs ds c) = length ds.
Proof. revert c; induction ds as [|d r IH]; intros c; cbn [shl_bits length]; auto. Qed.

Lemma shl_bits_spec w bs ds c : 0 < bs < w -> Forall (digit_ok w) ds -> 0 <= c < 2 ^ bs ->
  Forall (digit_ok w) (shl_bits w bs ds c) /\
  0 <= shl_bits_carry w bs ds c < 2 ^ bs /\
  uval w (shl_bits w bs ds c) + Mod w (length ds) * shl_bits_carry w bs ds c
    = uval w ds * 2 ^ bs + c.
Proof.
  intros Hbs HF. revert c. induction HF as [|d r Hd HF IH]; intros c Hc;
    cbn [shl_bits shl_bits_carry uval length].
  - rewrite Mod_0. split; [constructor|]. split; lia.
  - unfold digit_ok, B in Hd. unfold u_or, u_shl, u_shr, B.
    destruct (shl_digit w bs d c Hbs Hd Hc) as (Hr & Hc' & He).
    destruct (IH (d / 2 ^ (w - bs)) Hc') as (IHF & IHc & IHe).
    split; [constructor; [exact Hr | exact IHF]|]. split; [exact IHc|].
    rewrite Mod_S by lia. unfold B.
    set (R := shl_bits w bs r (d / 2 ^ (w - bs))) in *.
    set (C := shl_bits_carry w bs r (d / 2 ^ (w - bs))) in *.
    set (dg := Z.lor ((d * 2 ^ bs) mod 2 ^ w) c) in *.
    transitivity (dg + 2 ^ w * (uval w R + Mod w (length r) * C)); [ring|].
    rewrite IHe. transitivity ((dg + 2 ^ w * (d / 2 ^ (w - bs))) + 2 ^ w * (uval w r * 2 ^ bs)); [ring|].
    rewrite He. ring.
Qed.

(* only the first digit and nothing of the carry-out depends on the carry-in *)
Lemma shl_bits_carry_in w bs d r c :
  shl_bits w bs (d :: r) c = u_or (u_shl w d bs) c :: tl (shl_bits w bs (d :: r) 0) /\
  shl_bits_carry w bs (d :: r) c = shl_bits_carry w bs (d :: r) 0.
Proof. cbn [shl_bits shl_bits_carry tl]. auto. Qed.

(* ================================================================== *)
(* 1. shl_internal                                                     *)
(* ================================================================== *)

Lemma amount_split w n s : 0 < w -> 0 <= s < bits w n ->
  0 <= s mod w < w /\ 0 <= s / w < Z.of_nat n /\ s = w * (s / w) + s mod w /\
  (Z.to_nat (s / w) < n)%nat /\ Z.of_nat (Z.to_nat (s / w)) = s / w.
Proof.
  intros Hw Hs. unfold bits in Hs.
  assert (0 <= s / w) by (apply Z.div_pos; lia).
  assert (s / w < Z.of_nat n) by (apply Z.div_lt_upper_bound; lia).
  split; [apply Z.mod_pos_bound; lia|]. split; [lia|].
  split; [apply Z.div_mod; lia|]. split; lia.
Qed.

Theorem shl_internal_ok w n x s : 0 < w -> wf w n x -> 0 <= s < bits w n ->
  wf w n (shl_internal w x s) /\
  uval w (shl_internal w x s) = (uval w x * 2 ^ s) mod Mod w n.
Proof.
  intros Hw [Hl HF] Hs.
  destruct (amount_split w n s Hw Hs) as (Hbs & Hq & Hsplit & Hd & Hdz).
  unfold shl_internal. rewrite Hl.
  set (d := Z.to_nat (s / w)) in *. set (bs := s mod w) in *.
  set (src := firstn (n - d) x).
  assert (Hsrc_len : length src = (n - d)%nat) by (unfold src; apply firstn_length_le; lia).
  assert (Hsrc_F : Forall (digit_ok w) src) by (apply Forall_firstn; exact HF).
  assert (Hsrc_v : uval w src = uval w x mod Mod w (n - d))
    by (unfold src; apply uval_firstn; auto; lia).
  pose proof (Mod_pos w (n - d) ltac:(lia)) as HMnd.
  set (body := if bs =? 0 then src else shl_bits w bs src 0).
  assert (Hbody : Forall (digit_ok w) body /\ length body = (n - d)%nat /\
                  uval w body = (uval w x * 2 ^ bs) mod Mod w (n - d)).
  { unfold body. destruct (Z.eqb_spec bs 0) as [E|E].
    - rewrite E, Z.pow_0_r, Z.mul_1_r. auto.
    - assert (Hc0 : 0 <= 0 < 2 ^ bs) by (pose proof (pow2_pos bs); lia).
      destruct (shl_bits_spec w bs src 0 ltac:(lia) Hsrc_F Hc0) as (HF' & Hc & He).
      split; [exact HF'|]. split; [rewrite shl_bits_length; exact Hsrc_len|].
      rewrite Hsrc_len, Z.add_0_r in He.
      pose proof (uval_bounds_F w _ ltac:(lia) HF') as Hb.
      rewrite shl_bits_length, Hsrc_len in Hb.
      rewrite <- (Z.mul_mod_idemp_l (uval w x)) by lia. rewrite <- Hsrc_v, <- He.
      rewrite (Z.mul_comm (Mod w (n - d))), Z.mod_add by lia.
      symmetry; apply Z.mod_small; exact Hb. }
  destruct Hbody as (HbF & Hbl & Hbv).
  assert (Hlen : length (repeat 0 d ++ body) = n) by (rewrite app_length, repeat_length; lia).
  rewrite firstn_all2 by lia.
  split.
  - split; [exact Hlen|]. apply Forall_app; split; [|exact HbF].
    apply Forall_repeat, digit_ok_0; lia.
  - rewrite uval_app, uval_repeat_0, repeat_length, Hbv by lia.
    pose proof (Mod_pos w d ltac:(lia)) as HMd.
    rewrite Z.add_0_l. rewrite <- Z.mul_mod_distr_l by lia.
    rewrite <- Mod_add by lia. replace (d + (n - d))%nat with n by lia.
    f_equal. replace (2 ^ s) with (Mod w d * 2 ^ bs); [ring|].
    unfold Mod. rewrite Hdz, <- pow2_split by nia. f_equal. lia.
Qed.

(* ================================================================== *)
(* shr_bits                                                            *)
(* ================================================================== *)

Lemma shr_bits_length w bs rds c : length (shr_bits w bs rds c) = length rds.
Proof. revert c; induction rds as [|d r IH]; intros c; cbn [shr_bits length]; auto. Qed.

(* the carry-in is always a multiple c * 2^(w-bs) of 2^(w-bs) with c < 2^bs:
   the bs bits shifted out of the digit above *)
Lemma shr_bits_spec w bs rds cy c : 0 < bs < w -> Forall (digit_ok w) rds ->
  0 <= c < 2 ^ bs -> cy = c * 2 ^ (w - bs) ->
  Forall (digit_ok w) (shr_bits w bs rds cy) /\
  uval w (rev (shr_bits w bs rds cy)) = (uval w (rev rds) + c * Mod w (length rds)) / 2 ^ bs.
Proof.
  intros Hbs HF. revert cy c. induction HF as [|d r Hd HF IH]; intros cy c Hc Hcy;
    cbn [shr_bits rev uval length].
  - split; [constructor|]. rewrite Mod_0, Z.mul_1_r. symmetry. apply Z.div_small. lia.
  - unfold digit_ok, B in Hd. unfold u_or, u_shl, u_shr, B. subst cy.
    destruct (shr_digit w bs d c Hbs Hd Hc) as (Hlor & Hr & Hcy' & Hc').
    destruct (IH _ (d mod 2 ^ bs) Hc' Hcy') as (IHF & IHv).
    rewrite Hlor. split; [constructor; [exact Hr | exact IHF]|].
    rewrite !uval_snoc by lia. rewrite IHv, !rev_length, shr_bits_length.
    rewrite Mod_S by lia. unfold B.
    assert (HQ : 0 < 2 ^ bs) by (apply pow2_pos; lia).
    assert (HPQ : 2 ^ w = 2 ^ bs * 2 ^ (w - bs)) by (rewrite <- pow2_split by lia; f_equal; lia).
    set (U := uval w (rev r)). set (Mn := Mod w (length r)).
    set (Q := 2 ^ bs) in *. set (P := 2 ^ (w - bs)) in *.
    pose proof (Z.div_mod d Q ltac:(lia)) as Hdm.
    rewrite HPQ.
    replace (U + Mn * d + c * (Q * P * Mn))
      with ((U + d mod Q * Mn) + (Mn * (d / Q) + c * P * Mn) * Q)
      by (rewrite Hdm at 3; ring).
    rewrite Z.div_add by lia. ring.
Qed.

(* shifting a whole (little-endian) window right by bs < w bits: the window as
   the model builds it (reverse, scan from the top, reverse back) *)
Lemma shr_window w bs src : 0 < bs < w -> Forall (digit_ok w) src -> src <> [] ->
  let low := rev (shr_bits w bs (rev src) 0) in
  Forall (digit_ok w) low /\ length low = length src /\
  uval w low = uval w src / 2 ^ bs /\
  exists l a, low = l ++ [a] /\ 0 <= a < 2 ^ (w - bs).
Proof.
  intros Hbs HF Hne low.
  assert (Hc0 : 0 <= 0 < 2 ^ bs) by (pose proof (pow2_pos bs); lia).
  destruct (shr_bits_spec w bs (rev src) 0 0 Hbs (Forall_rev HF) Hc0 eq_refl) as (HF' & Hv).
  split; [apply Forall_rev; exact HF'|].
  split; [unfold low; rewrite rev_length, shr_bits_length, rev_length; reflexivity|].
  split; [unfold low; rewrite Hv, rev_involutive; f_equal; lia|].
  unfold low. destruct (rev src) as [|dt r] eqn:E.
  - exfalso. apply Hne. rewrite <- (rev_involutive src), E. reflexivity.
  - cbn [shr_bits rev]. eexists _, _. split; [reflexivity|].
    unfold u_or, u_shr. rewrite Z.lor_0_r.
    assert (Hdt : digit_ok w dt).
    { assert (HFr : Forall (digit_ok w) (dt :: r)) by (rewrite <- E; apply Forall_rev; exact HF).
      inversion HFr; assumption. }
    unfold digit_ok, B in Hdt. pose proof (pow2_pos bs ltac:(lia)).
    split; [apply Z.div_pos; lia|]. apply Z.div_lt_upper_bound; [lia|].
    rewrite <- pow2_split by lia. replace (bs + (w - bs)) with w by lia. lia.
Qed.

Lemma set_nth_snoc f l a : set_nth (length l) f (l ++ [a]) = l ++ [f a].
Proof.
  unfold set_nth. rewrite firstn_app, skipn_app, firstn_all, skipn_all, Nat.sub_diag.
  cbn [firstn skipn app]. rewrite app_nil_r. reflexivity.
Qed.

(* the `|= MAX << carry_shift` repair of the top copied digit *)
Lemma sar_fix_digit w bs a : 0 < bs < w -> 0 <= a < 2 ^ (w - bs) ->
  Z.lor a (((2 ^ w - 1) * 2 ^ (w - bs)) mod 2 ^ w) = a + (2 ^ bs - 1) * 2 ^ (w - bs) /\
  0 <= a + (2 ^ bs - 1) * 2 ^ (w - bs) < 2 ^ w.
Proof.
  intros Hbs Ha.
  assert (HP : 0 < 2 ^ (w - bs)) by (apply pow2_pos; lia).
  assert (HQ : 0 < 2 ^ bs) by (apply pow2_pos; lia).
  assert (HPQ : 2 ^ w = 2 ^ bs * 2 ^ (w - bs)) by (rewrite <- pow2_split by lia; f_equal; lia).
  rewrite HPQ. set (Q := 2 ^ bs) in *. set (P := 2 ^ (w - bs)) in *.
  rewrite Z.mul_mod_distr_r by lia.
  replace ((Q * P - 1) mod Q) with (Q - 1).
  2:{ replace (Q * P - 1) with ((Q - 1) + (P - 1) * Q) by ring.
      rewrite Z.mod_add by lia. symmetry; apply Z.mod_small; lia. }
  split; [unfold P; apply lor_disjoint_add'; fold P; lia|]. nia.
Qed.

(* ================================================================== *)
(* 2. shr_pad_internal, both paddings, as a value                      *)
(* ================================================================== *)

Theorem shr_pad_internal_val w n x s neg : 0 < w -> wf w n x -> 0 <= s < bits w n ->
  wf w n (shr_pad_internal w neg x s) /\
  uval w (shr_pad_internal w neg x s)
    = uval w x / 2 ^ s + (if neg then Mod w n - 2 ^ (bits w n - s) else 0).
Proof.
  intros Hw [Hl HF] Hs.
  destruct (amount_split w n s Hw Hs) as (Hbs & Hq & Hsplit & Hd & Hdz).
  unfold shr_pad_internal. rewrite Hl.
  set (d := Z.to_nat (s / w)) in *. set (bs := s mod w) in *.
  set (pad := if neg then u_max w else 0).
  set (src := skipn d x).
  assert (Hsrc_len : length src = (n - d)%nat) by (unfold src; rewrite skipn_length; lia).
  assert (Hsrc_F : Forall (digit_ok w) src) by (apply Forall_skipn; exact HF).
  assert (Hsrc_v : uval w src = uval w x / Mod w d)
    by (unfold src; apply uval_skipn; auto; lia).
  assert (Hsrc_ne : src <> []) by (intros E; rewrite E in Hsrc_len; cbn in Hsrc_len; lia).
  assert (Hpad_ok : digit_ok w pad).
  { unfold pad, u_max. destruct neg; [apply digit_ok_max | apply digit_ok_0]; lia. }
  assert (Hpad_v : uval w (repeat pad d) = if neg then Mod w d - 1 else 0).
  { unfold pad, u_max. destruct neg; [apply uval_repeat_max; lia | apply uval_repeat_0]. }
  pose proof (Mod_pos w d ltac:(lia)) as HMd.
  pose proof (Mod_pos w (n - d) ltac:(lia)) as HMnd.
  assert (HMn : Mod w n = Mod w (n - d) * Mod w d)
    by (rewrite <- Mod_add by lia; f_equal; lia).
  assert (Hwd : w * Z.of_nat d = s - bs) by lia.
  (* the common tail: a window `lo` of n-d digits followed by d pad digits *)
  assert (Hfin : forall lo, Forall (digit_ok w) lo -> length lo = (n - d)%nat ->
            wf w n (firstn n (lo ++ repeat pad d)) /\
            uval w (firstn n (lo ++ repeat pad d))
              = uval w lo + Mod w (n - d) * (if neg then Mod w d - 1 else 0)).
  { intros lo HloF Hlol.
    assert (Hlen : length (lo ++ repeat pad d) = n) by (rewrite app_length, repeat_length; lia).
    rewrite firstn_all2 by lia. split.
    - split; [exact Hlen|]. apply Forall_app; split; [exact HloF|]. apply Forall_repeat; exact Hpad_ok.
    - rewrite uval_app, Hpad_v, Hlol by lia. reflexivity. }
  destruct (Z.eqb_spec bs 0) as [E|E].
  - destruct (Hfin src Hsrc_F Hsrc_len) as (Hwf & Hv). split; [exact Hwf|].
    rewrite Hv, Hsrc_v.
    assert (HsM : 2 ^ s = Mod w d) by (unfold Mod; f_equal; lia).
    assert (HbM : 2 ^ (bits w n - s) = Mod w (n - d)) by (unfold Mod, bits; f_equal; lia).
    rewrite HsM, HbM. destruct neg; [rewrite HMn; ring | ring].
  - assert (Hbs' : 0 < bs < w) by lia.
    destruct (shr_window w bs src Hbs' Hsrc_F Hsrc_ne) as (HlowF & Hlowl & Hlowv & l & a & Hlow & Ha).
    set (low := rev (shr_bits w bs (rev src) 0)) in *.
    assert (Hll : length l = (n - d - 1)%nat).
    { rewrite Hlow, app_length in Hlowl. cbn [length] in Hlowl. lia. }
    assert (Hvs : uval w low = uval w x / 2 ^ s).
    { rewrite Hlowv, Hsrc_v. unfold Mod in *. pose proof (pow2_pos bs ltac:(lia)).
      rewrite Z.div_div by lia.
      rewrite <- pow2_split by lia. do 2 f_equal. lia. }
    destruct neg.
    + replace (n - d - 1)%nat with (length l) by exact Hll.
      rewrite Hlow, set_nth_snoc.
      destruct (sar_fix_digit w bs a Hbs' Ha) as (Hfix & Hfixr).
      unfold u_or, u_shl, u_max, B. rewrite Hfix.
      rewrite Hlow in HlowF. apply Forall_app in HlowF. destruct HlowF as (HlF & _).
      destruct (Hfin (l ++ [a + (2 ^ bs - 1) * 2 ^ (w - bs)])) as (Hwf & Hv).
      { apply Forall_app; split; [exact HlF|]. constructor; [exact Hfixr | constructor]. }
      { rewrite app_length; cbn [length]; lia. }
      split; [exact Hwf|]. rewrite Hv, <- Hvs, Hlow, !uval_snoc by lia.
      assert (HMnd' : Mod w (n - d) = Mod w (length l) * 2 ^ w).
      { rewrite Hll. replace (n - d)%nat with ((n - d - 1) + 1)%nat at 1 by lia.
        rewrite Mod_add, Mod_1 by lia. reflexivity. }
      assert (HPQ : 2 ^ w = 2 ^ bs * 2 ^ (w - bs)) by (rewrite <- pow2_split by lia; f_equal; lia).
      assert (Hb : 2 ^ (bits w n - s) = Mod w (length l) * 2 ^ (w - bs)).
      { unfold Mod, bits. rewrite <- pow2_split by lia. f_equal. rewrite Hll.
        replace (Z.of_nat (n - d - 1)) with (Z.of_nat n - Z.of_nat d - 1) by lia. lia. }
      rewrite Hb, HMn, HMnd', HPQ. ring.
    + destruct (Hfin low HlowF) as (Hwf & Hv); [lia|].
      split; [exact Hwf|]. rewrite Hv, Hvs. ring.
Qed.

Theorem shr_internal_ok w n x s : 0 < w -> wf w n x -> 0 <= s < bits w n ->
  wf w n (shr_pad_internal w false x s) /\
  uval w (shr_pad_internal w false x s) = uval w x / 2 ^ s.
Proof.
  intros Hw Hwf Hs. destruct (shr_pad_internal_val w n x s false Hw Hwf Hs) as (H1 & H2).
  split; [exact H1|]. rewrite H2. lia.
Qed.

(* ================================================================== *)
(* sign of a digit list                                                *)
(* ================================================================== *)

Lemma is_negative_spec w n x : 0 < w -> (0 < n)%nat -> wf w n x ->
  is_negative w x = (Mod w n / 2 <=? uval w x).
Proof.
  intros Hw Hn [Hl HF].
  assert (Hne : x <> []) by (intros E; rewrite E in Hl; cbn in Hl; lia).
  pose proof (uval_last w x ltac:(lia) Hne) as Hv.
  rewrite (app_removelast_last 0 Hne) in HF. apply Forall_app in HF. destruct HF as (HFl & HFt).
  inversion HFt as [|t0 l0 Ht _]; subst t0 l0.
  assert (Hlen : length (removelast x) = (n - 1)%nat).
  { pose proof (f_equal (@length Z) (app_removelast_last 0 Hne)) as E.
    rewrite app_length in E. cbn [length] in E. lia. }
  pose proof (uval_bounds_F w _ ltac:(lia) HFl) as Hb. rewrite Hlen in Hb.
  rewrite Hl in Hv.
  replace (Z.to_nat (Z.of_nat n - 1)) with (n - 1)%nat in * by lia.
  unfold is_negative, signed_digit, sd, top_digit, to_signed.
  set (t := last x 0) in *. unfold digit_ok, B in *.
  assert (HB2 : 2 ^ w = 2 * 2 ^ (w - 1)).
  { replace w with (1 + (w - 1)) at 1 by lia. rewrite pow2_split by lia. reflexivity. }
  assert (HB2' : 2 ^ w / 2 = 2 ^ (w - 1)) by (rewrite HB2, Z.mul_comm, Z.div_mul by lia; reflexivity).
  assert (HM : Mod w n = Mod w (n - 1) * 2 ^ w).
  { replace n with ((n - 1) + 1)%nat at 1 by lia. rewrite Mod_add, Mod_1 by lia. reflexivity. }
  assert (HM2 : Mod w n / 2 = Mod w (n - 1) * 2 ^ (w - 1)).
  { rewrite HM, HB2. replace (Mod w (n - 1) * (2 * 2 ^ (w - 1))) with (Mod w (n - 1) * 2 ^ (w - 1) * 2) by ring.
    apply Z.div_mul; lia. }
  rewrite HB2', HM2, Hv.
  replace (Z.of_nat n - 1) with (Z.of_nat (n - 1)) by lia.
  fold (Mod w (n - 1)).
  replace (Mod w (Z.to_nat (Z.of_nat (n - 1)))) with (Mod w (n - 1)) by (f_equal; lia).
  pose proof (pow2_pos (w - 1) ltac:(lia)) as HH.
  set (L := uval w (removelast x)) in *. set (Mn := Mod w (n - 1)) in *. set (H := 2 ^ (w - 1)) in *.
  destruct (Z.ltb_spec t H) as [Hlt|Hge].
  - assert (Mn * t <= Mn * (H - 1)) by (apply Z.mul_le_mono_nonneg_l; lia).
    destruct (Z.ltb_spec t 0); destruct (Z.leb_spec (Mn * H) (L + Mn * t)); try reflexivity; lia.
  - assert (Mn * H <= Mn * t) by (apply Z.mul_le_mono_nonneg_l; lia).
    destruct (Z.ltb_spec (t - 2 ^ w) 0); destruct (Z.leb_spec (Mn * H) (L + Mn * t)); try reflexivity; lia.
Qed.

Lemma sval_cases w n x : 0 < w -> (0 < n)%nat -> wf w n x ->
  sval w x = if is_negative w x then uval w x - Mod w n else uval w x.
Proof.
  intros Hw Hn Hwf. rewrite (is_negative_spec w n) by auto.
  unfold sval, to_signed. rewrite (wf_length _ _ _ Hwf).
  destruct (Z.ltb_spec (uval w x) (Mod w n / 2)); destruct (Z.leb_spec (Mod w n / 2) (uval w x));
    try reflexivity; lia.
Qed.

Lemma is_negative_sval w n x : 0 < w -> (0 < n)%nat -> wf w n x ->
  is_negative w x = (sval w x <? 0).
Proof.
  intros Hw Hn Hwf. rewrite (sval_cases w n) by auto.
  pose proof (uval_bounds w n x ltac:(lia) Hwf).
  destruct (is_negative w x); symmetry; [apply Z.ltb_lt | apply Z.ltb_ge]; lia.
Qed.

Lemma bits_pos_n w n s : 0 <= s < bits w n -> 0 < w -> (0 < n)%nat.
Proof. unfold bits. intros. destruct n; [lia | lia]. Qed.

(* ================================================================== *)
(* 2 (signed). arithmetic shift right                                  *)
(* ================================================================== *)

Theorem sar_internal_ok w n x s : 0 < w -> wf w n x -> 0 <= s < bits w n ->
  wf w n (shr_pad_internal w (is_negative w x) x s) /\
  sval w (shr_pad_internal w (is_negative w x) x s) = sval w x / 2 ^ s.
Proof.
  intros Hw Hwf Hs. pose proof (bits_pos_n w n s Hs Hw) as Hn.
  destruct (shr_pad_internal_val w n x s (is_negative w x) Hw Hwf Hs) as (Hwfr & Hv).
  split; [exact Hwfr|].
  rewrite (sval_cases w n x) by auto.
  pose proof (is_negative_spec w n x Hw Hn Hwf) as Hneg.
  pose proof (uval_bounds w n x ltac:(lia) Hwf) as HX.
  unfold sval, to_signed. rewrite (wf_length _ _ _ Hwfr), Hv.
  set (X := uval w x) in *. set (M := Mod w n) in *.
  pose proof (pow2_pos s ltac:(lia)) as H2s.
  assert (HXs : 0 <= X / 2 ^ s) by (apply Z.div_pos; lia).
  assert (HXs' : X / 2 ^ s <= X) by (apply Z.div_le_upper_bound; nia).
  destruct (is_negative w x).
  - symmetry in Hneg. apply Z.leb_le in Hneg.
    set (T2 := 2 ^ (bits w n - s - 1)).
    assert (HT2 : 0 < T2) by (apply pow2_pos; lia).
    assert (HT : 2 ^ (bits w n - s) = 2 * T2).
    { unfold T2. replace (bits w n - s) with (1 + (bits w n - s - 1)) at 1 by lia.
      rewrite pow2_split by lia. reflexivity. }
    assert (HM : M = 2 * T2 * 2 ^ s).
    { rewrite <- HT, <- pow2_split by lia. unfold M, Mod, bits. f_equal. lia. }
    assert (HM2 : M / 2 = T2 * 2 ^ s).
    { rewrite HM. replace (2 * T2 * 2 ^ s) with (T2 * 2 ^ s * 2) by ring. apply Z.div_mul; lia. }
    rewrite HT, HM2 in *.
    assert (T2 <= X / 2 ^ s) by (apply Z.div_le_lower_bound; lia).
    assert (T2 <= T2 * 2 ^ s) by nia.
    destruct (Z.ltb_spec (X / 2 ^ s + (M - 2 * T2)) (T2 * 2 ^ s)); [lia|].
    replace (X - M) with (X + (- (2 * T2)) * 2 ^ s) by (rewrite HM; ring).
    rewrite Z.div_add by lia. lia.
  - symmetry in Hneg. apply Z.leb_gt in Hneg. rewrite Z.add_0_r.
    destruct (Z.ltb_spec (X / 2 ^ s) (M / 2)); [reflexivity | lia].
Qed.

(* ================================================================== *)
(* 4. amount reduction                                                 *)
(* ================================================================== *)

Definition is_pow2 (b : Z) : Prop := exists k, 0 <= k /\ b = 2 ^ k.

Theorem mask_amount_pow2 w n s : is_pow2 (bits w n) -> mask_amount w n s = s mod bits w n.
Proof.
  intros (k & Hk & E). unfold mask_amount. rewrite E.
  replace (2 ^ k - 1) with (Z.ones k) by (rewrite Z.ones_equiv; lia).
  apply Z.land_ones; exact Hk.
Qed.

(* ================================================================== *)
(* 3. unfoldings of the API wrappers                                   *)
(* ================================================================== *)

Lemma U_overflowing_shl_eq w n x s : length x = n ->
  U_overflowing_shl w x s =
    if bits w n <=? s then (shl_internal w x (mask_amount w n s), true) else (shl_internal w x s, false).
Proof. intros <-; reflexivity. Qed.

Lemma U_overflowing_shr_eq w n x s : length x = n ->
  U_overflowing_shr w x s =
    if bits w n <=? s then (shr_pad_internal w false x (mask_amount w n s), true)
    else (shr_pad_internal w false x s, false).
Proof. intros <-; reflexivity. Qed.

Lemma I_overflowing_shr_eq w n x s : length x = n ->
  I_overflowing_shr w x s =
    if bits w n <=? s then (shr_pad_internal w (is_negative w x) x (mask_amount w n s), true)
    else (shr_pad_internal w (is_negative w x) x s, false).
Proof. intros <-. unfold I_overflowing_shr. destruct (bits w (length x) <=? s); reflexivity. Qed.

Lemma U_checked_shl_eq w n x s : length x = n ->
  U_checked_shl w x s = if bits w n <=? s then None else Some (shl_internal w x s).
Proof. intros <-; reflexivity. Qed.

Lemma U_checked_shr_eq w n x s : length x = n ->
  U_checked_shr w x s = if bits w n <=? s then None else Some (shr_pad_internal w false x s).
Proof. intros <-; reflexivity. Qed.

Lemma I_checked_shl_eq w n x s : length x = n ->
  I_checked_shl w x s = if bits w n <=? s then None else Some (shl_internal w x s).
Proof.
  intros <-. unfold I_checked_shl, I_overflowing_shl, U_overflowing_shl, tuple_to_option.
  destruct (bits w (length x) <=? s); reflexivity.
Qed.

Lemma I_checked_shr_eq w n x s : length x = n ->
  I_checked_shr w x s =
    if bits w n <=? s then None else Some (shr_pad_internal w (is_negative w x) x s).
Proof.
  intros <-. unfold I_checked_shr, I_overflowing_shr, tuple_to_option.
  destruct (bits w (length x) <=? s); reflexivity.
Qed.

(* a uniform shape for the eight "checked / strict / inherent" results *)
Lemma checked_shape {A} (b : bool) (v : A) (bitsn s : Z) (P : A -> Prop) :
  b = (bitsn <=? s) -> (s < bitsn -> P v) ->
  ((if b then None else Some v) = None <-> bitsn <= s) /\
  (s < bitsn -> exists r, (if b then None else Some v) = Some r /\ P r).
Proof.
  intros -> HP. destruct (Z.leb_spec bitsn s) as [H|H]; split.
  - split; [intros _; exact H | reflexivity].
  - intros; lia.
  - split; [discriminate | intros; lia].
  - intros _. exists v. split; [reflexivity | apply HP; exact H].
Qed.

Definition shl_post (w : Z) (n : nat) (x : list Z) (s : Z) (r : list Z) : Prop :=
  wf w n r /\ uval w r = (uval w x * 2 ^ s) mod Mod w n.
Definition shr_post (w : Z) (n : nat) (x : list Z) (s : Z) (r : list Z) : Prop :=
  wf w n r /\ uval w r = uval w x / 2 ^ s.
Definition sar_post (w : Z) (n : nat) (x : list Z) (s : Z) (r : list Z) : Prop :=
  wf w n r /\ sval w r = sval w x / 2 ^ s.

Theorem U_checked_shl_ok w n x s : 0 < w -> wf w n x -> 0 <= s ->
  (U_checked_shl w x s = None <-> bits w n <= s) /\
  (s < bits w n -> exists r, U_checked_shl w x s = Some r /\ shl_post w n x s r).
Proof.
  intros Hw Hwf Hs. rewrite (U_checked_shl_eq w n) by (apply Hwf).
  apply checked_shape; [reflexivity|]. intros; apply shl_internal_ok; auto.
Qed.

Theorem U_checked_shr_ok w n x s : 0 < w -> wf w n x -> 0 <= s ->
  (U_checked_shr w x s = None <-> bits w n <= s) /\
  (s < bits w n -> exists r, U_checked_shr w x s = Some r /\ shr_post w n x s r).
Proof.
  intros Hw Hwf Hs. rewrite (U_checked_shr_eq w n) by (apply Hwf).
  apply checked_shape; [reflexivity|]. intros; apply shr_internal_ok; auto.
Qed.

Theorem I_checked_shl_ok w n x s : 0 < w -> wf w n x -> 0 <= s ->
  (I_checked_shl w x s = None <-> bits w n <= s) /\
  (s < bits w n -> exists r, I_checked_shl w x s = Some r /\ shl_post w n x s r).
Proof.
  intros Hw Hwf Hs. rewrite (I_checked_shl_eq w n) by (apply Hwf).
  apply checked_shape; [reflexivity|]. intros; apply shl_internal_ok; auto.
Qed.

Theorem I_checked_shr_ok w n x s : 0 < w -> wf w n x -> 0 <= s ->
  (I_checked_shr w x s = None <-> bits w n <= s) /\
  (s < bits w n -> exists r, I_checked_shr w x s = Some r /\ sar_post w n x s r).
Proof.
  intros Hw Hwf Hs. rewrite (I_checked_shr_eq w n) by (apply Hwf).
  apply checked_shape; [reflexivity|]. intros; apply sar_internal_ok; auto.
Qed.

(* overflowing: flag, in-range value, and (item 4) the wrapped value when BITS is a power of two *)
Lemma mod_bits_range w n s : 0 < w -> (0 < n)%nat -> 0 <= s mod bits w n < bits w n.
Proof. intros. apply Z.mod_pos_bound. unfold bits. nia. Qed.

Lemma reduced_amount w n s : is_pow2 (bits w n) -> 0 <= s ->
  (if bits w n <=? s then mask_amount w n s else s) = s mod bits w n.
Proof.
  intros Hp Hs. destruct (Z.leb_spec (bits w n) s).
  - apply mask_amount_pow2; exact Hp.
  - symmetry; apply Z.mod_small; lia.
Qed.

Theorem U_overflowing_shl_ok w n x s : 0 < w -> (0 < n)%nat -> wf w n x -> 0 <= s ->
  snd (U_overflowing_shl w x s) = (bits w n <=? s) /\
  (s < bits w n -> shl_post w n x s (fst (U_overflowing_shl w x s))) /\
  (is_pow2 (bits w n) ->
     fst (U_overflowing_shl w x s) = shl_internal w x (s mod bits w n) /\
     shl_post w n x (s mod bits w n) (fst (U_overflowing_shl w x s))).
Proof.
  intros Hw Hn Hwf Hs. rewrite (U_overflowing_shl_eq w n) by (apply Hwf).
  split; [destruct (bits w n <=? s); reflexivity|]. split.
  - intros Hlt. destruct (Z.leb_spec (bits w n) s); [lia|]. apply shl_internal_ok; auto.
  - intros Hp. pose proof (reduced_amount w n s Hp Hs) as Hr.
    assert (E : fst (if bits w n <=? s then (shl_internal w x (mask_amount w n s), true)
                     else (shl_internal w x s, false)) = shl_internal w x (s mod bits w n)).
    { rewrite <- Hr. destruct (bits w n <=? s); reflexivity. }
    rewrite E. split; [reflexivity|]. apply shl_internal_ok; auto. apply mod_bits_range; auto.
Qed.

Theorem U_overflowing_shr_ok w n x s : 0 < w -> (0 < n)%nat -> wf w n x -> 0 <= s ->
  snd (U_overflowing_shr w x s) = (bits w n <=? s) /\
  (s < bits w n -> shr_post w n x s (fst (U_overflowing_shr w x s))) /\
  (is_pow2 (bits w n) ->
     fst (U_overflowing_shr w x s) = shr_pad_internal w false x (s mod bits w n) /\
     shr_post w n x (s mod bits w n) (fst (U_overflowing_shr w x s))).
Proof.
  intros Hw Hn Hwf Hs. rewrite (U_overflowing_shr_eq w n) by (apply Hwf).
  split; [destruct (bits w n <=? s); reflexivity|]. split.
  - intros Hlt. destruct (Z.leb_spec (bits w n) s); [lia|]. apply shr_internal_ok; auto.
  - intros Hp. pose proof (reduced_amount w n s Hp Hs) as Hr.
    assert (E : fst (if bits w n <=? s then (shr_pad_internal w false x (mask_amount w n s), true)
                     else (shr_pad_internal w false x s, false))
                = shr_pad_internal w false x (s mod bits w n)).
    { rewrite <- Hr. destruct (bits w n <=? s); reflexivity. }
    rewrite E. split; [reflexivity|]. apply shr_internal_ok; auto. apply mod_bits_range; auto.
Qed.

Theorem I_overflowing_shr_ok w n x s : 0 < w -> (0 < n)%nat -> wf w n x -> 0 <= s ->
  snd (I_overflowing_shr w x s) = (bits w n <=? s) /\
  (s < bits w n -> sar_post w n x s (fst (I_overflowing_shr w x s))) /\
  (is_pow2 (bits w n) ->
     fst (I_overflowing_shr w x s) = shr_pad_internal w (is_negative w x) x (s mod bits w n) /\
     sar_post w n x (s mod bits w n) (fst (I_overflowing_shr w x s))).
Proof.
  intros Hw Hn Hwf Hs. rewrite (I_overflowing_shr_eq w n) by (apply Hwf).
  split; [destruct (bits w n <=? s); reflexivity|]. split.
  - intros Hlt. destruct (Z.leb_spec (bits w n) s); [lia|]. apply sar_internal_ok; auto.
  - intros Hp. pose proof (reduced_amount w n s Hp Hs) as Hr.
    assert (E : fst (if bits w n <=? s
                     then (shr_pad_internal w (is_negative w x) x (mask_amount w n s), true)
                     else (shr_pad_internal w (is_negative w x) x s, false))
                = shr_pad_internal w (is_negative w x) x (s mod bits w n)).
    { rewrite <- Hr. destruct (bits w n <=? s); reflexivity. }
    rewrite E. split; [reflexivity|]. apply sar_internal_ok; auto. apply mod_bits_range; auto.
Qed.

(* I_overflowing_shl is U_overflowing_shl; the wrapping forms are the first components *)
Lemma I_overflowing_shl_is_U : I_overflowing_shl = U_overflowing_shl.
Proof. reflexivity. Qed.
Lemma wrapping_is_fst w x s :
  U_wrapping_shl w x s = fst (U_overflowing_shl w x s) /\
  U_wrapping_shr w x s = fst (U_overflowing_shr w x s) /\
  I_wrapping_shl w x s = fst (U_overflowing_shl w x s) /\
  I_wrapping_shr w x s = fst (I_overflowing_shr w x s).
Proof. repeat split. Qed.

(* ================================================================== *)
(* 3 (cont.). unbounded shifts                                         *)
(* ================================================================== *)

Lemma wf_ZERO w n : 0 <= w -> wf w n (ZERO n).
Proof.
  intros. unfold ZERO. split; [apply repeat_length | apply Forall_repeat, digit_ok_0; lia].
Qed.

Lemma uval_ZERO w n : uval w (ZERO n) = 0.
Proof. apply uval_repeat_0. Qed.

Lemma wf_UMAX w n : 0 <= w -> wf w n (UMAX w n).
Proof.
  intros. unfold UMAX, u_max. split; [apply repeat_length | apply Forall_repeat, digit_ok_max; lia].
Qed.

Lemma pow2_ge_Mod w n s : 0 < w -> bits w n <= s -> exists t, 0 < t /\ 2 ^ s = t * Mod w n.
Proof.
  intros Hw Hs. exists (2 ^ (s - bits w n)). unfold bits in *.
  assert (0 <= w * Z.of_nat n) by nia.
  split; [apply pow2_pos; lia|]. unfold Mod. rewrite <- pow2_split by lia. f_equal. lia.
Qed.

Theorem U_unbounded_shl_ok w n x s : 0 < w -> wf w n x -> 0 <= s ->
  (bits w n <= s -> U_unbounded_shl w x s = ZERO n) /\
  shl_post w n x s (U_unbounded_shl w x s).
Proof.
  intros Hw Hwf Hs. unfold U_unbounded_shl. rewrite (wf_length _ _ _ Hwf).
  destruct (Z.leb_spec (bits w n) s) as [H|H].
  - split; [reflexivity|]. split; [apply wf_ZERO; lia|].
    rewrite uval_ZERO. destruct (pow2_ge_Mod w n s Hw H) as (t & _ & ->).
    rewrite Z.mul_assoc, Z.mod_mul; [reflexivity|]. pose proof (Mod_pos w n); lia.
  - split; [lia|]. apply shl_internal_ok; auto.
Qed.

Theorem U_unbounded_shr_ok w n x s : 0 < w -> wf w n x -> 0 <= s ->
  (bits w n <= s -> U_unbounded_shr w x s = ZERO n) /\
  shr_post w n x s (U_unbounded_shr w x s).
Proof.
  intros Hw Hwf Hs. unfold U_unbounded_shr. rewrite (wf_length _ _ _ Hwf).
  destruct (Z.leb_spec (bits w n) s) as [H|H].
  - split; [reflexivity|]. split; [apply wf_ZERO; lia|].
    rewrite uval_ZERO. destruct (pow2_ge_Mod w n s Hw H) as (t & Ht & ->).
    pose proof (uval_bounds w n x ltac:(lia) Hwf). pose proof (Mod_pos w n ltac:(lia)).
    symmetry. apply Z.div_small. nia.
  - split; [lia|]. apply shr_internal_ok; auto.
Qed.

Lemma I_unbounded_shl_is_U : I_unbounded_shl = U_unbounded_shl.
Proof. reflexivity. Qed.

Lemma Mod_ge_2 w n : 0 < w -> (0 < n)%nat -> 2 <= Mod w n /\ Mod w n = 2 * (Mod w n / 2).
Proof.
  intros Hw Hn. pose proof (Mod_even w n Hw Hn). pose proof (Mod_pos w n ltac:(lia)). lia.
Qed.

Lemma sval_UMAX w n : 0 < w -> (0 < n)%nat -> sval w (UMAX w n) = -1.
Proof.
  intros Hw Hn. unfold sval, UMAX, u_max. rewrite repeat_length, uval_repeat_max by lia.
  destruct (Mod_ge_2 w n Hw Hn). unfold to_signed.
  destruct (Z.ltb_spec (Mod w n - 1) (Mod w n / 2)); lia.
Qed.

Lemma sval_ZERO w n : 0 < w -> (0 < n)%nat -> sval w (ZERO n) = 0.
Proof.
  intros Hw Hn. unfold sval. rewrite uval_ZERO. unfold ZERO. rewrite repeat_length.
  unfold to_signed. destruct (Mod_ge_2 w n Hw Hn).
  destruct (Z.ltb_spec 0 (Mod w n / 2)); [reflexivity | lia].
Qed.

Theorem I_unbounded_shr_ok w n x s : 0 < w -> (0 < n)%nat -> wf w n x -> 0 <= s ->
  sar_post w n x s (I_unbounded_shr w x s) /\
  (bits w n <= s ->
     I_unbounded_shr w x s = (if sval w x <? 0 then NEG_ONE w n else ZERO n) /\
     sval w (I_unbounded_shr w x s) = if sval w x <? 0 then -1 else 0).
Proof.
  intros Hw Hn Hwf Hs. unfold I_unbounded_shr. rewrite (wf_length _ _ _ Hwf).
  rewrite (is_negative_sval w n x Hw Hn Hwf).
  destruct (Z.leb_spec (bits w n) s) as [H|H].
  - pose proof (sval_range w n x Hw Hn Hwf) as Hr.
    destruct (pow2_ge_Mod w n s Hw H) as (t & Ht & Hts).
    destruct (Mod_ge_2 w n Hw Hn) as (HM2 & HMe).
    assert (Hv : sval w (if sval w x <? 0 then NEG_ONE w n else ZERO n)
                 = if sval w x <? 0 then -1 else 0).
    { destruct (sval w x <? 0); [apply sval_UMAX | apply sval_ZERO]; auto. }
    split; [|intros _; split; [reflexivity | exact Hv]].
    split.
    + destruct (sval w x <? 0); [apply wf_UMAX | apply wf_ZERO]; lia.
    + rewrite Hv. destruct (Z.ltb_spec (sval w x) 0) as [Hlt|Hge].
      * apply (Z.div_unique (sval w x) (2 ^ s) (-1) (sval w x + 2 ^ s)); [left; nia | ring].
      * symmetry. apply Z.div_small. nia.
  - split; [|lia]. rewrite <- (is_negative_sval w n x Hw Hn Hwf). apply sar_internal_ok; auto.
Qed.

(* ================================================================== *)
(* 3 (cont.). strict and inherent (debug-checked) shifts               *)
(* ================================================================== *)

Lemma inherent_shape {A} (dbg b : bool) (v wr : A) (bitsn s : Z) (P : A -> Prop) :
  b = (bitsn <=? s) -> (s < bitsn -> P v) -> (s < bitsn -> wr = v) ->
  let o := if dbg then option_expect (if b then None else Some v) else Ret wr in
  (o = Panic <-> dbg = true /\ bitsn <= s) /\
  (s < bitsn -> exists r, o = Ret r /\ P r) /\
  (dbg = false -> o = Ret wr).
Proof.
  intros -> HP Hwr o. unfold o. destruct dbg; cbn [option_expect].
  - destruct (Z.leb_spec bitsn s) as [H|H]; cbn [option_expect].
    + split; [split; auto|]. split; [intros; lia | discriminate].
    + split; [split; [discriminate | intros [_ ?]; lia]|].
      split; [intros _; exists v; auto | discriminate].
  - split; [split; [discriminate | intros [? _]; discriminate]|].
    split; [|reflexivity]. intros H. exists wr. split; [reflexivity|]. rewrite Hwr by exact H. auto.
Qed.

Theorem U_shl_ok dbg w n x s : 0 < w -> wf w n x -> 0 <= s ->
  (U_shl dbg w x s = Panic <-> dbg = true /\ bits w n <= s) /\
  (s < bits w n -> exists r, U_shl dbg w x s = Ret r /\ shl_post w n x s r) /\
  (dbg = false -> U_shl dbg w x s = Ret (U_wrapping_shl w x s)).
Proof.
  intros Hw Hwf Hs. unfold U_shl, U_strict_shl, U_wrapping_shl.
  rewrite (U_checked_shl_eq w n), (U_overflowing_shl_eq w n) by (apply Hwf).
  apply inherent_shape; [reflexivity | intros; apply shl_internal_ok; auto |].
  intros H. destruct (Z.leb_spec (bits w n) s); [lia | reflexivity].
Qed.

Theorem U_shr_ok dbg w n x s : 0 < w -> wf w n x -> 0 <= s ->
  (U_shr dbg w x s = Panic <-> dbg = true /\ bits w n <= s) /\
  (s < bits w n -> exists r, U_shr dbg w x s = Ret r /\ shr_post w n x s r) /\
  (dbg = false -> U_shr dbg w x s = Ret (U_wrapping_shr w x s)).
Proof.
  intros Hw Hwf Hs. unfold U_shr, U_strict_shr, U_wrapping_shr.
  rewrite (U_checked_shr_eq w n), (U_overflowing_shr_eq w n) by (apply Hwf).
  apply inherent_shape; [reflexivity | intros; apply shr_internal_ok; auto |].
  intros H. destruct (Z.leb_spec (bits w n) s); [lia | reflexivity].
Qed.

Theorem I_shl_ok dbg w n x s : 0 < w -> wf w n x -> 0 <= s ->
  (I_shl dbg w x s = Panic <-> dbg = true /\ bits w n <= s) /\
  (s < bits w n -> exists r, I_shl dbg w x s = Ret r /\ shl_post w n x s r) /\
  (dbg = false -> I_shl dbg w x s = Ret (I_wrapping_shl w x s)).
Proof.
  intros Hw Hwf Hs. unfold I_shl, I_strict_shl, I_wrapping_shl, I_overflowing_shl.
  rewrite (I_checked_shl_eq w n), (U_overflowing_shl_eq w n) by (apply Hwf).
  apply inherent_shape; [reflexivity | intros; apply shl_internal_ok; auto |].
  intros H. destruct (Z.leb_spec (bits w n) s); [lia | reflexivity].
Qed.

Theorem I_shr_ok dbg w n x s : 0 < w -> wf w n x -> 0 <= s ->
  (I_shr dbg w x s = Panic <-> dbg = true /\ bits w n <= s) /\
  (s < bits w n -> exists r, I_shr dbg w x s = Ret r /\ sar_post w n x s r) /\
  (dbg = false -> I_shr dbg w x s = Ret (I_wrapping_shr w x s)).
Proof.
  intros Hw Hwf Hs. unfold I_shr, I_strict_shr, I_wrapping_shr.
  rewrite (I_checked_shr_eq w n), (I_overflowing_shr_eq w n) by (apply Hwf).
  apply inherent_shape; [reflexivity | intros; apply sar_internal_ok; auto |].
  intros H. destruct (Z.leb_spec (bits w n) s); [lia | reflexivity].
Qed.

Lemma strict_is_dbg w x s :
  U_strict_shl w x s = U_shl true w x s /\ U_strict_shr w x s = U_shr true w x s /\
  I_strict_shl w x s = I_shl true w x s /\ I_strict_shr w x s = I_shr true w x s.
Proof. repeat split. Qed.

(* ================================================================== *)
(* 5. rotations                                                        *)
(* ================================================================== *)

(* rotating an N-bit pattern X left by r places, as arithmetic *)
Definition rotv (N X r : Z) : Z := (X * 2 ^ r) mod 2 ^ N + X / 2 ^ (N - r).

(* abstract form: the modulus is P * C, rotate by P *)
Lemma rot_decomp P C H L : 0 < P -> 0 < C -> 0 <= L < C -> 0 <= H < P ->
  ((H * C + L) * P) mod (P * C) + (H * C + L) / C = L * P + H.
Proof.
  intros HP HC HL HH.
  replace ((H * C + L) * P) with (L * P + H * (P * C)) by ring.
  rewrite Z.mod_add by nia. rewrite Z.mod_small by nia.
  rewrite (Z.add_comm (H * C)), Z.div_add by lia. rewrite Z.div_small by lia. lia.
Qed.

Lemma rot_compose P Q R X : 0 < P -> 0 < Q -> 0 < R -> 0 <= X < P * Q * R ->
  let Y := (X * P) mod (P * (Q * R)) + X / (Q * R) in
  (Y * Q) mod (Q * (P * R)) + Y / (P * R) = (X * (P * Q)) mod (P * Q * R) + X / R.
Proof.
  intros HP HQ HR HX Y.
  assert (HQR : 0 < Q * R) by nia.
  pose proof (Z.div_mod X (Q * R) ltac:(lia)) as E1.
  pose proof (Z.mod_pos_bound X (Q * R) HQR) as HL.
  set (H := X / (Q * R)) in *. set (L := X mod (Q * R)) in *.
  assert (HH : 0 <= H < P).
  { unfold H. split; [apply Z.div_pos; lia | apply Z.div_lt_upper_bound; nia]. }
  pose proof (Z.div_mod L R ltac:(lia)) as E2.
  pose proof (Z.mod_pos_bound L R HR) as HL0.
  set (L1 := L / R) in *. set (L0 := L mod R) in *.
  assert (HL1 : 0 <= L1 < Q).
  { unfold L1. split; [apply Z.div_pos; lia | apply Z.div_lt_upper_bound; nia]. }
  assert (EY : Y = L * P + H).
  { unfold Y. fold H. replace X with (H * (Q * R) + L) at 1 by lia.
    replace (H + 0) with H by lia.
    pose proof (rot_decomp P (Q * R) H L HP HQR HL HH) as D.
    replace ((H * (Q * R) + L) / (Q * R)) with H in D; [lia|].
    rewrite (Z.add_comm (H * (Q * R))), Z.div_add, Z.div_small by lia. lia. }
  assert (EY' : Y = L1 * (P * R) + (L0 * P + H)) by (rewrite EY, E2; ring).
  assert (HLo : 0 <= L0 * P + H < P * R) by nia.
  assert (HPR : 0 < P * R) by nia.
  rewrite EY'. rewrite (rot_decomp Q (P * R) L1 (L0 * P + H) HQ HPR HLo HL1).
  assert (EX : X = (H * Q + L1) * R + L0) by (rewrite E1, E2; ring).
  assert (HHQ : 0 <= H * Q + L1 < P * Q) by nia.
  assert (HPQ : 0 < P * Q) by nia.
  rewrite EX. rewrite (rot_decomp (P * Q) R (H * Q + L1) L0 HPQ HR HL0 HHQ). ring.
Qed.

Lemma rotv_compose N X a b : 0 <= a -> 0 <= b -> a + b <= N -> 0 <= X < 2 ^ N ->
  rotv N (rotv N X a) b = rotv N X (a + b).
Proof.
  intros Ha Hb Hab HX. unfold rotv.
  pose proof (pow2_pos a Ha) as HP. pose proof (pow2_pos b Hb) as HQ.
  pose proof (pow2_pos (N - a - b) ltac:(lia)) as HR.
  set (P := 2 ^ a) in *. set (Q := 2 ^ b) in *. set (R := 2 ^ (N - a - b)) in *.
  assert (E1 : 2 ^ (N - a) = Q * R) by (unfold Q, R; rewrite <- pow2_split by lia; f_equal; lia).
  assert (E2 : 2 ^ (N - b) = P * R) by (unfold P, R; rewrite <- pow2_split by lia; f_equal; lia).
  assert (E3 : 2 ^ (a + b) = P * Q) by (apply pow2_split; lia).
  assert (E4 : 2 ^ N = P * Q * R).
  { unfold P, Q, R. rewrite <- !pow2_split by lia. f_equal. lia. }
  replace (N - (a + b)) with (N - a - b) by lia. fold R.
  rewrite E1, E2, E3. rewrite E4 in HX.
  pose proof (rot_compose P Q R X HP HQ HR HX) as C. cbv zeta in C.
  replace (P * (Q * R)) with (P * Q * R) in C by ring.
  replace (Q * (P * R)) with (P * Q * R) in C by ring.
  rewrite E4. exact C.
Qed.

Lemma rotv_0 N X : 0 <= N -> 0 <= X < 2 ^ N -> rotv N X 0 = X.
Proof.
  intros HN HX. unfold rotv. rewrite Z.pow_0_r, Z.mul_1_r, Z.sub_0_r.
  rewrite Z.mod_small, Z.div_small by lia. lia.
Qed.

Lemma rotv_full N X : 0 <= N -> 0 <= X < 2 ^ N -> rotv N X N = X.
Proof.
  intros HN HX. unfold rotv. rewrite Z.sub_diag, Z.pow_0_r, Z.div_1_r.
  rewrite Z.mod_mul by lia. lia.
Qed.

Lemma rotv_range N X r : 0 <= r <= N -> 0 <= X < 2 ^ N -> 0 <= rotv N X r < 2 ^ N.
Proof.
  intros Hr HX.
  pose proof (pow2_pos r ltac:(lia)) as HP. pose proof (pow2_pos (N - r) ltac:(lia)) as HC.
  assert (E : 2 ^ N = 2 ^ r * 2 ^ (N - r)) by (rewrite <- pow2_split by lia; f_equal; lia).
  unfold rotv. rewrite E in *. set (P := 2 ^ r) in *. set (C := 2 ^ (N - r)) in *.
  pose proof (Z.div_mod X C ltac:(lia)) as E1.
  pose proof (Z.mod_pos_bound X C HC) as HL.
  assert (HH : 0 <= X / C < P).
  { split; [apply Z.div_pos; lia | apply Z.div_lt_upper_bound; nia]. }
  pose proof (rot_decomp P C (X / C) (X mod C) HP HC HL HH) as D.
  replace (X / C * C + X mod C) with X in D by lia.
  rewrite D. nia.
Qed.

(* whole-digit rotation *)
Lemma rotate_digits_left_ok w n x k : 0 < w -> wf w n x -> (k <= n)%nat ->
  wf w n (rotate_digits_left x k) /\
  uval w (rotate_digits_left x k) = rotv (bits w n) (uval w x) (w * Z.of_nat k).
Proof.
  intros Hw [Hl HF] Hk. unfold rotate_digits_left. rewrite Hl.
  assert (Hsl : length (skipn (n - k) x) = k) by (rewrite skipn_length; lia).
  assert (Hfl : length (firstn (n - k) x) = (n - k)%nat) by (apply firstn_length_le; lia).
  split.
  - split; [rewrite app_length; lia|].
    apply Forall_app; split; [apply Forall_skipn | apply Forall_firstn]; exact HF.
  - rewrite uval_app, Hsl by lia.
    rewrite uval_skipn, uval_firstn by (auto; lia).
    pose proof (Mod_pos w k ltac:(lia)). pose proof (Mod_pos w (n - k) ltac:(lia)).
    rewrite <- Z.mul_mod_distr_l by lia. rewrite <- Mod_add by lia.
    replace (k + (n - k))%nat with n by lia.
    unfold rotv, Mod, bits.
    replace (w * Z.of_nat n - w * Z.of_nat k) with (w * Z.of_nat (n - k)) by nia.
    rewrite (Z.mul_comm (uval w x)). lia.
Qed.

Lemma amount_split_le w n r : 0 < w -> 0 <= r <= bits w n ->
  0 <= r mod w < w /\ r = w * (r / w) + r mod w /\
  (Z.to_nat (r / w) <= n)%nat /\ Z.of_nat (Z.to_nat (r / w)) = r / w /\
  (r mod w <> 0 -> (Z.to_nat (r / w) < n)%nat).
Proof.
  intros Hw Hr. unfold bits in Hr.
  assert (0 <= r / w) by (apply Z.div_pos; lia).
  pose proof (Z.div_mod r w ltac:(lia)) as E.
  pose proof (Z.mod_pos_bound r w Hw) as Hm.
  assert (r / w <= Z.of_nat n) by (apply Z.div_le_upper_bound; lia).
  split; [exact Hm|]. split; [exact E|]. split; [lia|]. split; [lia|].
  intros Hne. assert (r / w < Z.of_nat n) by nia. lia.
Qed.

Theorem unchecked_rotate_left_ok w n x r : 0 < w -> (0 < n)%nat -> wf w n x ->
  0 <= r <= bits w n ->
  wf w n (unchecked_rotate_left w x r) /\
  uval w (unchecked_rotate_left w x r) = rotv (bits w n) (uval w x) r.
Proof.
  intros Hw Hn Hwf Hr.
  destruct (amount_split_le w n r Hw Hr) as (Hbs & Hsplit & Hd & Hdz & Hdlt).
  unfold unchecked_rotate_left.
  set (d := Z.to_nat (r / w)) in *. set (bs := r mod w) in *.
  destruct (rotate_digits_left_ok w n x d Hw Hwf Hd) as (Hwfo & Hvo).
  set (out := rotate_digits_left x d) in *.
  destruct (Z.eqb_spec bs 0) as [E|E].
  - split; [exact Hwfo|]. rewrite Hvo. f_equal. lia.
  - specialize (Hdlt E).
    destruct Hwfo as [Hlo HFo].
    destruct out as [|d0 t] eqn:Eout; [cbn in Hlo; lia|].
    assert (Hbs' : 0 < bs < w) by lia.
    assert (Hc0 : 0 <= 0 < 2 ^ bs) by (pose proof (pow2_pos bs); lia).
    destruct (shl_bits_spec w bs (d0 :: t) 0 Hbs' HFo Hc0) as (HF0 & Hc & He0).
    set (c := shl_bits_carry w bs (d0 :: t) 0) in *.
    assert (Hres : match shl_bits w bs (d0 :: t) 0 with [] => [] | dg :: tl => u_or dg c :: tl end
                   = shl_bits w bs (d0 :: t) c).
    { cbn [shl_bits]. unfold u_or. rewrite Z.lor_0_r. reflexivity. }
    rewrite Hres.
    destruct (shl_bits_spec w bs (d0 :: t) c Hbs' HFo Hc) as (HF1 & _ & He1).
    destruct (shl_bits_carry_in w bs d0 t c) as (_ & Hcc). rewrite Hcc in He1. fold c in He1.
    split; [split; [rewrite shl_bits_length; exact Hlo | exact HF1]|].
    rewrite Hlo in He0, He1. rewrite Z.add_0_r in He0.
    pose proof (uval_bounds_F w _ ltac:(lia) HF0) as Hb0. rewrite shl_bits_length, Hlo in Hb0.
    set (Y := uval w (d0 :: t)) in *. set (M := Mod w n) in *.
    set (r0 := uval w (shl_bits w bs (d0 :: t) 0)) in *.
    assert (HM : 0 < M) by (apply Mod_pos; lia).
    assert (Hmod : (Y * 2 ^ bs) mod M = r0).
    { rewrite <- He0. rewrite (Z.mul_comm M), Z.mod_add by lia. apply Z.mod_small; exact Hb0. }
    assert (Hdiv : (Y * 2 ^ bs) / M = c).
    { rewrite <- He0. rewrite (Z.mul_comm M), Z.div_add by lia. rewrite Z.div_small by exact Hb0. lia. }
    assert (Hv : uval w (shl_bits w bs (d0 :: t) c) = (Y * 2 ^ bs) mod M + (Y * 2 ^ bs) / M) by lia.
    rewrite Hv.
    (* Y = rotv BITS X (w*d); the bit part rotates by bs more *)
    pose proof (uval_bounds w n x ltac:(lia) Hwf) as HX.
    assert (HN : bits w n = w * Z.of_nat n) by reflexivity.
    assert (HMp : M = 2 ^ bits w n) by reflexivity.
    transitivity (rotv (bits w n) Y bs).
    + unfold rotv. rewrite <- HMp. f_equal.
      assert (HMs : M = 2 ^ (bits w n - bs) * 2 ^ bs).
      { rewrite HMp, <- pow2_split by lia. f_equal. lia. }
      rewrite HMs at 1. apply Z.div_mul_cancel_r; apply Z.neq_sym, Z.lt_neq, pow2_pos; lia.
    + assert (0 <= w * Z.of_nat d) by nia.
      assert (w * Z.of_nat d + bs = r) by (rewrite Hdz; lia).
      rewrite Hvo. rewrite rotv_compose by (try exact HX; lia).
      f_equal. lia.
Qed.

Theorem rotate_left_ok w n x k : 0 < w -> (0 < n)%nat -> wf w n x -> 0 <= k ->
  wf w n (rotate_left w x k) /\
  uval w (rotate_left w x k) = rotv (bits w n) (uval w x) (k mod bits w n).
Proof.
  intros Hw Hn Hwf Hk. unfold rotate_left. rewrite (wf_length _ _ _ Hwf).
  pose proof (mod_bits_range w n k Hw Hn).
  apply unchecked_rotate_left_ok; auto. lia.
Qed.

Theorem rotate_right_ok w n x k : 0 < w -> (0 < n)%nat -> wf w n x -> 0 <= k ->
  wf w n (rotate_right w x k) /\
  uval w (rotate_right w x k)
    = rotv (bits w n) (uval w x) ((bits w n - k mod bits w n) mod bits w n) /\
  uval w (rotate_right w x k) = rotv (bits w n) (uval w x) (bits w n - k mod bits w n).
Proof.
  intros Hw Hn Hwf Hk. unfold rotate_right. rewrite (wf_length _ _ _ Hwf).
  pose proof (mod_bits_range w n k Hw Hn) as Hm.
  destruct (unchecked_rotate_left_ok w n x (bits w n - k mod bits w n) Hw Hn Hwf ltac:(lia)) as (H1 & H2).
  split; [exact H1|]. split; [|exact H2]. rewrite H2.
  pose proof (uval_bounds w n x ltac:(lia) Hwf) as HX. change (Mod w n) with (2 ^ bits w n) in HX.
  destruct (Z.eq_dec (k mod bits w n) 0) as [E|E].
  - rewrite E, Z.sub_0_r, Z.mod_same by lia.
    rewrite rotv_full, rotv_0 by lia. reflexivity.
  - rewrite (Z.mod_small (bits w n - k mod bits w n)) by lia. reflexivity.
Qed.

Theorem rotate_right_left w n x k : 0 < w -> (0 < n)%nat -> wf w n x -> 0 <= k ->
  rotate_right w (rotate_left w x k) k = x.
Proof.
  intros Hw Hn Hwf Hk.
  destruct (rotate_left_ok w n x k Hw Hn Hwf Hk) as (Hwl & Hvl).
  destruct (rotate_right_ok w n _ k Hw Hn Hwl Hk) as (Hwr & _ & Hvr).
  apply (uval_inj w n); [lia | exact Hwr | exact Hwf |].
  pose proof (mod_bits_range w n k Hw Hn) as Hm.
  pose proof (uval_bounds w n x ltac:(lia) Hwf) as HX. change (Mod w n) with (2 ^ bits w n) in HX.
  rewrite Hvr, Hvl, rotv_compose by lia.
  replace (k mod bits w n + (bits w n - k mod bits w n)) with (bits w n) by lia.
  apply rotv_full; lia.
Qed.

Theorem rotate_left_right w n x k : 0 < w -> (0 < n)%nat -> wf w n x -> 0 <= k ->
  rotate_left w (rotate_right w x k) k = x.
Proof.
  intros Hw Hn Hwf Hk.
  destruct (rotate_right_ok w n x k Hw Hn Hwf Hk) as (Hwr & _ & Hvr).
  destruct (rotate_left_ok w n _ k Hw Hn Hwr Hk) as (Hwl & Hvl).
  apply (uval_inj w n); [lia | exact Hwl | exact Hwf |].
  pose proof (mod_bits_range w n k Hw Hn) as Hm.
  pose proof (uval_bounds w n x ltac:(lia) Hwf) as HX. change (Mod w n) with (2 ^ bits w n) in HX.
  rewrite Hvl, Hvr, rotv_compose by lia.
  replace (bits w n - k mod bits w n + k mod bits w n) with (bits w n) by lia.
  apply rotv_full; lia.
Qed.

(* ================================================================== *)
(* 6. the pre-fix rotate_left (amount & (BITS-1)) is wrong for BITS    *)
(*    not a power of two                                               *)
(* ================================================================== *)

Theorem rotl_prefix_refuted :
  exists w n x k, wf w n x /\
    uval w (rotate_left_prefix w x k)
      <> (uval w x * 2 ^ (k mod bits w n)) mod Mod w n + uval w x / 2 ^ (bits w n - k mod bits w n).
Proof.
  exists 8, 3%nat, [1; 2; 3], 8. split.
  - apply wfb_wf. vm_compute. reflexivity.
  - vm_compute. discriminate.
Qed.

(* ================================================================== *)
(* packaging for Properties/C05.v                                      *)
(* ================================================================== *)

Lemma is_pow2_of_exists w n : 0 < w -> (0 < n)%nat -> (exists k, bits w n = 2 ^ k) -> is_pow2 (bits w n).
Proof.
  intros Hw Hn (k & E). exists k. split; [|exact E].
  destruct (Z.lt_ge_cases k 0) as [Hk|Hk]; [|exact Hk].
  rewrite Z.pow_neg_r in E by exact Hk. unfold bits in E. nia.
Qed.

(* the literal form of item 2: padding with ones on a negative operand *)
Theorem shr_pad_true_negative w n x s : 0 < w -> wf w n x -> 0 <= s < bits w n ->
  is_negative w x = true ->
  wf w n (shr_pad_internal w true x s) /\
  sval w (shr_pad_internal w true x s) = sval w x / 2 ^ s.
Proof.
  intros Hw Hwf Hs Hneg. pose proof (sar_internal_ok w n x s Hw Hwf Hs) as H.
  rewrite Hneg in H. exact H.
Qed.

(* left shift read as a signed number: wraps in two's complement *)
Theorem shl_post_signed w n x s r : 0 < w -> (0 < n)%nat -> wf w n x -> 0 <= s ->
  shl_post w n x s r -> sval w r = wrapS (Mod w n) (sval w x * 2 ^ s).
Proof.
  intros Hw Hn Hwf Hs (Hwfr & Hv).
  destruct (Mod_ge_2 w n Hw Hn) as (HM2 & HMe).
  unfold sval at 1. rewrite (wf_length _ _ _ Hwfr), Hv.
  rewrite to_signed_of_mod by (auto; lia).
  rewrite (sval_cases w n x) by auto.
  destruct (is_negative w x); [|reflexivity].
  unfold wrapS. f_equal.
  replace ((uval w x - Mod w n) * 2 ^ s + Mod w n / 2)
    with (uval w x * 2 ^ s + Mod w n / 2 + (- 2 ^ s) * Mod w n) by ring.
  rewrite Z.mod_add by lia. reflexivity.
Qed.

Theorem U_wrapping_shl_ok w n x s : 0 < w -> (0 < n)%nat -> wf w n x -> 0 <= s ->
  (s < bits w n -> shl_post w n x s (U_wrapping_shl w x s)) /\
  ((exists k, bits w n = 2 ^ k) ->
     U_wrapping_shl w x s = shl_internal w x (s mod bits w n) /\
     shl_post w n x (s mod bits w n) (U_wrapping_shl w x s)).
Proof.
  intros Hw Hn Hwf Hs. destruct (U_overflowing_shl_ok w n x s Hw Hn Hwf Hs) as (_ & H1 & H2).
  split; [exact H1|]. intros Hp. apply H2, is_pow2_of_exists; auto.
Qed.

Theorem U_wrapping_shr_ok w n x s : 0 < w -> (0 < n)%nat -> wf w n x -> 0 <= s ->
  (s < bits w n -> shr_post w n x s (U_wrapping_shr w x s)) /\
  ((exists k, bits w n = 2 ^ k) ->
     U_wrapping_shr w x s = shr_pad_internal w false x (s mod bits w n) /\
     shr_post w n x (s mod bits w n) (U_wrapping_shr w x s)).
Proof.
  intros Hw Hn Hwf Hs. destruct (U_overflowing_shr_ok w n x s Hw Hn Hwf Hs) as (_ & H1 & H2).
  split; [exact H1|]. intros Hp. apply H2, is_pow2_of_exists; auto.
Qed.

Theorem I_wrapping_shl_ok w n x s : 0 < w -> (0 < n)%nat -> wf w n x -> 0 <= s ->
  (s < bits w n -> shl_post w n x s (I_wrapping_shl w x s)) /\
  ((exists k, bits w n = 2 ^ k) ->
     I_wrapping_shl w x s = shl_internal w x (s mod bits w n) /\
     shl_post w n x (s mod bits w n) (I_wrapping_shl w x s)).
Proof. exact (U_wrapping_shl_ok w n x s). Qed.

Theorem I_wrapping_shr_ok w n x s : 0 < w -> (0 < n)%nat -> wf w n x -> 0 <= s ->
  (s < bits w n -> sar_post w n x s (I_wrapping_shr w x s)) /\
  ((exists k, bits w n = 2 ^ k) ->
     I_wrapping_shr w x s = shr_pad_internal w (is_negative w x) x (s mod bits w n) /\
     sar_post w n x (s mod bits w n) (I_wrapping_shr w x s)).
Proof.
  intros Hw Hn Hwf Hs. destruct (I_overflowing_shr_ok w n x s Hw Hn Hwf Hs) as (_ & H1 & H2).
  split; [exact H1|]. intros Hp. apply H2, is_pow2_of_exists; auto.
Qed.

Theorem overflowing_pow2 w n x s : 0 < w -> (0 < n)%nat -> wf w n x -> 0 <= s ->
  (exists k, bits w n = 2 ^ k) ->
  U_overflowing_shl w x s = (shl_internal w x (s mod bits w n), bits w n <=? s) /\
  U_overflowing_shr w x s = (shr_pad_internal w false x (s mod bits w n), bits w n <=? s) /\
  I_overflowing_shl w x s = (shl_internal w x (s mod bits w n), bits w n <=? s) /\
  I_overflowing_shr w x s = (shr_pad_internal w (is_negative w x) x (s mod bits w n), bits w n <=? s).
Proof.
  intros Hw Hn Hwf Hs Hp. apply (is_pow2_of_exists w n Hw Hn) in Hp.
  destruct (U_overflowing_shl_ok w n x s Hw Hn Hwf Hs) as (A1 & _ & A2).
  destruct (U_overflowing_shr_ok w n x s Hw Hn Hwf Hs) as (B1 & _ & B2).
  destruct (I_overflowing_shr_ok w n x s Hw Hn Hwf Hs) as (C1 & _ & C2).
  destruct (A2 Hp) as (A3 & _). destruct (B2 Hp) as (B3 & _). destruct (C2 Hp) as (C3 & _).
  unfold I_overflowing_shl.
  repeat split; apply injective_projections; cbn [fst snd]; assumption.
Qed.

Theorem mask_amount_ok w n s : 0 < w -> (0 < n)%nat -> (exists k, bits w n = 2 ^ k) ->
  0 <= s < 2 ^ 32 -> mask_amount w n s = s mod bits w n.
Proof. intros Hw Hn Hp _. apply mask_amount_pow2, is_pow2_of_exists; auto. Qed.

(* Proofs/Shift.v — C05: the shift / rotate models of Model/Shift.v compute
   the arithmetic specifications. *)
From Bnum Require Import Base Prim.
From Bnum.Model Require Import Core Shift.
From Bnum.Proofs Require Import BitAddr.

Local Open Scope Z_scope.

(* ================================================================== *)
(* digit steps (pure Z)                                                *)
(* ================================================================== *)

Lemma shl_digit w bs d c : 0 < bs < w -> 0 <= d < 2 ^ w -> 0 <= c < 2 ^ bs ->
  0 <= Z.lor ((d * 2 ^ bs) mod 2 ^ w) c < 2 ^ w /\
  0 <= d / 2 ^ (w - bs) < 2 ^ bs /\
  Z.lor ((d * 2 ^ bs) mod 2 ^ w) c + 2 ^ w * (d / 2 ^ (w - bs)) = d * 2 ^ bs + c.
Proof.
  intros Hbs Hd Hc.
  assert (HP : 0 < 2 ^ (w - bs)) by (apply pow2_pos; lia).
  assert (HQ : 0 < 2 ^ bs) by (apply pow2_pos; lia).
  assert (HPQ : 2 ^ w = 2 ^ (w - bs) * 2 ^ bs) by (rewrite <- pow2_split by lia; f_equal; lia).
  rewrite HPQ in *. set (P := 2 ^ (w - bs)) in *. set (Q := 2 ^ bs) in *.
  rewrite Z.mul_mod_distr_r by lia.
  assert (Hlor : Z.lor (d mod P * Q) c = d mod P * Q + c)
    by (unfold Q; apply lor_disjoint_add; fold Q; lia).
  rewrite Hlor.
  pose proof (Z.div_mod d P ltac:(lia)) as Hdm.
  pose proof (Z.mod_pos_bound d P HP) as Hm.
  assert (Hq : 0 <= d / P < Q).
  { split; [apply Z.div_pos; lia | apply Z.div_lt_upper_bound; lia]. }
  set (q := d / P) in *. set (m := d mod P) in *.
  assert (m * Q <= (P - 1) * Q) by (apply Z.mul_le_mono_nonneg_r; lia).
  assert (0 <= m * Q) by (apply Z.mul_nonneg_nonneg; lia).
  split; [lia|]. split; [lia|]. replace (d * Q) with ((P * q + m) * Q) by (rewrite <- Hdm; reflexivity). ring.
Qed.

Lemma shr_digit w bs d c : 0 < bs < w -> 0 <= d < 2 ^ w -> 0 <= c < 2 ^ bs ->
  Z.lor (d / 2 ^ bs) (c * 2 ^ (w - bs)) = d / 2 ^ bs + c * 2 ^ (w - bs) /\
  0 <= d / 2 ^ bs + c * 2 ^ (w - bs) < 2 ^ w /\
  (d * 2 ^ (w - bs)) mod 2 ^ w = (d mod 2 ^ bs) * 2 ^ (w - bs) /\
  0 <= d mod 2 ^ bs < 2 ^ bs.
Proof.
  intros Hbs Hd Hc.
  assert (HP : 0 < 2 ^ (w - bs)) by (apply pow2_pos; lia).
  assert (HQ : 0 < 2 ^ bs) by (apply pow2_pos; lia).
  assert (HPQ : 2 ^ w = 2 ^ bs * 2 ^ (w - bs)) by (rewrite <- pow2_split by lia; f_equal; lia).
  assert (Hq : 0 <= d / 2 ^ bs < 2 ^ (w - bs)).
  { split; [apply Z.div_pos; lia | apply Z.div_lt_upper_bound; lia]. }
  split; [apply lor_disjoint_add'; lia|].
  split; [nia|].
  split; [|apply Z.mod_pos_bound; lia].
  rewrite HPQ. apply Z.mul_mod_distr_r; lia.
Qed.

(* ================================================================== *)
(* shl_bits                                                            *)
(* ================================================================== *)

Lemma shl_bits_length w bs ds c : length (shl_bits w bs ds c) = length ds.
Proof. revert c; induction ds as [|d r IH]; intros c; cbn [shl_bits length]; auto. Qed.

Lemma shl_bits_spec w bs ds c : 0 < bs < w -> Forall (digit_ok w) ds -> 0 <= c < 2 ^ bs ->
  Forall (digit_ok w) (shl_bits w bs ds c) /\
  0 <= shl_bits_carry w bs ds c < 2 ^ bs /\
  uval w (shl_bits w bs ds c) + Mod w (length ds) * shl_bits_carry w bs ds c
    = uval w ds * 2 ^ bs + c.
Proof.
  intros Hbs HF. revert c. induction HF as [|d r Hd HF IH]; intros c Hc;
    cbn [shl_bits shl_bits_carry uval length].
  - rewrite Mod_0. split; [constructor|]. split; lia.
  - unfold digit_ok, B in Hd. unfold u_or, u_shl, u_shr, B.
    destruct (shl_digit w bs d c Hbs Hd Hc) as (Hr & Hc' & He).
    destruct (IH (d / 2 ^ (w - bs)) Hc') as (IHF & IHc & IHe).
    split; [constructor; [exact Hr | exact IHF]|]. split; [exact IHc|].
    rewrite Mod_S by lia. unfold B.
    set (R := shl_bits w bs r (d / 2 ^ (w - bs))) in *.
    set (C := shl_bits_carry w bs r (d / 2 ^ (w - bs))) in *.
    set (dg := Z.lor ((d * 2 ^ bs) mod 2 ^ w) c) in *.
    transitivity (dg + 2 ^ w * (uval w R + Mod w (length r) * C)); [ring|].
    rewrite IHe. transitivity ((dg + 2 ^ w * (d / 2 ^ (w - bs))) + 2 ^ w * (uval w r * 2 ^ bs)); [ring|].
    rewrite He. ring.
Qed.

(* only the first digit and nothing of the carry-out depends on the carry-in *)
Lemma shl_bits_carry_in w bs d r c :
  shl_bits w bs (d :: r) c = u_or (u_shl w d bs) c :: tl (shl_bits w bs (d :: r) 0) /\
  shl_bits_carry w bs (d :: r) c = shl_bits_carry w bs (d :: r) 0.
Proof. cbn [shl_bits shl_bits_carry tl]. auto. Qed.

(* ================================================================== *)
(* 1. shl_internal                                                     *)
(* ================================================================== *)

Lemma amount_split w n s : 0 < w -> 0 <= s < bits w n ->
  0 <= s mod w < w /\ 0 <= s / w < Z.of_nat n /\ s = w * (s / w) + s mod w /\
  (Z.to_nat (s / w) < n)%nat /\ Z.of_nat (Z.to_nat (s / w)) = s / w.
Proof.
  intros Hw Hs. unfold bits in Hs.
  assert (0 <= s / w) by (apply Z.div_pos; lia).
  assert (s / w < Z.of_nat n) by (apply Z.div_lt_upper_bound; lia).
  split; [apply Z.mod_pos_bound; lia|]. split; [lia|].
  split; [apply Z.div_mod; lia|]. split; lia.
Qed.

Theorem shl_internal_ok w n x s : 0 < w -> wf w n x -> 0 <= s < bits w n ->
  wf w n (shl_internal w x s) /\
  uval w (shl_internal w x s) = (uval w x * 2 ^ s) mod Mod w n.
Proof.
  intros Hw [Hl HF] Hs.
  destruct (amount_split w n s Hw Hs) as (Hbs & Hq & Hsplit & Hd & Hdz).
  unfold shl_internal. rewrite Hl.
  set (d := Z.to_nat (s / w)) in *. set (bs := s mod w) in *.
  set (src := firstn (n - d) x).
  assert (Hsrc_len : length src = (n - d)%nat) by (unfold src; apply firstn_length_le; lia).
  assert (Hsrc_F : Forall (digit_ok w) src) by (apply Forall_firstn; exact HF).
  assert (Hsrc_v : uval w src = uval w x mod Mod w (n - d))
    by (unfold src; apply uval_firstn; auto; lia).
  pose proof (Mod_pos w (n - d) ltac:(lia)) as HMnd.
  set (body := if bs =? 0 then src else shl_bits w bs src 0).
  assert (Hbody : Forall (digit_ok w) body /\ length body = (n - d)%nat /\
                  uval w body = (uval w x * 2 ^ bs) mod Mod w (n - d)).
  { unfold body. destruct (Z.eqb_spec bs 0) as [E|E].
    - rewrite E, Z.pow_0_r, Z.mul_1_r. auto.
    - assert (Hc0 : 0 <= 0 < 2 ^ bs) by (pose proof (pow2_pos bs); lia).
      destruct (shl_bits_spec w bs src 0 ltac:(lia) Hsrc_F Hc0) as (HF' & Hc & He).
      split; [exact HF'|]. split; [rewrite shl_bits_length; exact Hsrc_len|].
      rewrite Hsrc_len, Z.add_0_r in He.
      pose proof (uval_bounds_F w _ ltac:(lia) HF') as Hb.
      rewrite shl_bits_length, Hsrc_len in Hb.
      rewrite <- (Z.mul_mod_idemp_l (uval w x)) by lia. rewrite <- Hsrc_v, <- He.
      rewrite (Z.mul_comm (Mod w (n - d))), Z.mod_add by lia.
      symmetry; apply Z.mod_small; exact Hb. }
  destruct Hbody as (HbF & Hbl & Hbv).
  assert (Hlen : length (repeat 0 d ++ body) = n) by (rewrite app_length, repeat_length; lia).
  rewrite firstn_all2 by lia.
  split.
  - split; [exact Hlen|]. apply Forall_app; split; [|exact HbF].
    apply Forall_repeat, digit_ok_0; lia.
  - rewrite uval_app, uval_repeat_0, repeat_length, Hbv by lia.
    pose proof (Mod_pos w d ltac:(lia)) as HMd.
    rewrite Z.add_0_l. rewrite <- Z.mul_mod_distr_l by lia.
    rewrite <- Mod_add by lia. replace (d + (n - d))%nat with n by lia.
    f_equal. replace (2 ^ s) with (Mod w d * 2 ^ bs); [ring|].
    unfold Mod. rewrite Hdz, <- pow2_split by nia. f_equal. lia.
Qed.

(* Proofs/NtGenTie.v — umbrella of the tie between Generated/NtGen.v (tools/rs2v_nt.py: the num-traits / num-integer code of
   src/buint/numtraits.rs and src/bint/numtraits.rs) and the hand-written model Model/NumTraits.v: one theorem with the
   statement in full (Properties/C18.v restates it as C18_nt_rs_matches_model).
   Reading: a model function of type `outcome` panics exactly when the generated code does; a model function of type `fo`
   (its own loop budget; None = budget exhausted, excluded by the C18 theorems TU_gcd_ok / TU_sqrt_contract ..) gives the
   generated code's result for every fuel at least as large as the model's budget: gcd_fuel iterations of the gcd loop,
   2^fixpoint_depth iterations of each loop of `fixpoint`. *)
From Bnum Require Import Base Prim.
From Bnum.Model Require Import Digit Core Shift AddSub Mul Div Bits Pow Imp NumTraits.
From Bnum.Generated Require Import NtGen.
From Bnum.Proofs Require Export NtGenTieBase NtGenTieU NtGenTieRoots NtGenTieI.

Theorem nt_rs_matches_model :
  (forall w N fuel a b, NtGen.U_div_floor w N fuel a b =
     match TU_div_floor w a b with Ret r => Done r | Panic => Panicked end) /\
  (forall w N fuel a b, NtGen.U_mod_floor w N fuel a b =
     match TU_mod_floor w a b with Ret r => Done r | Panic => Panicked end) /\
  (forall dbg w N a b fuel, (gcd_fuel w (length a) <= fuel)%nat ->
     match TU_gcd dbg w a b with
     | Some (Ret r) => NtGen.U_gcd dbg w N fuel a b = Done r
     | Some Panic => NtGen.U_gcd dbg w N fuel a b = Panicked
     | None => True
     end) /\
  (forall dbg w N a b, NtGen.U_gcd dbg w N (gcd_fuel w (length a)) a b =
     match TU_gcd dbg w a b with Some (Ret r) => Done r | Some Panic => Panicked | None => NoFuel end) /\
  (forall dbg w a b fuel, (gcd_fuel w (length a) <= fuel)%nat ->
     match TU_lcm dbg w a b with
     | Some (Ret r) => NtGen.U_lcm dbg w (Z.of_nat (length a)) fuel a b = Done r
     | Some Panic => NtGen.U_lcm dbg w (Z.of_nat (length a)) fuel a b = Panicked
     | None => True
     end) /\
  (forall w N fuel a b, NtGen.U_is_multiple_of w N fuel a b =
     match TU_is_multiple_of w a b with Ret r => Done r | Panic => Panicked end) /\
  (forall w N fuel a b, NtGen.U_divides w N fuel a b =
     match TU_divides w a b with Ret r => Done r | Panic => Panicked end) /\
  (forall w N fuel a, (0 < length a)%nat -> NtGen.U_is_even w N fuel a = Done (TU_is_even a)) /\
  (forall w N fuel a, (0 < length a)%nat -> NtGen.U_is_odd w N fuel a = Done (TU_is_odd a)) /\
  (forall w N fuel a b, NtGen.U_div_rem w N fuel a b =
     match TU_div_rem w a b with Ret r => Done r | Panic => Panicked end) /\
  (forall dbg w N fuel a k, NtGen.U_signed_shl dbg w N fuel a k =
     match TU_signed_shl dbg w a k with Ret r => Done r | Panic => Panicked end) /\
  (forall dbg w N fuel a k, NtGen.U_signed_shr dbg w N fuel a k =
     match TU_signed_shr dbg w a k with Ret r => Done r | Panic => Panicked end) /\
  (forall dbg w N fuel a k, NtGen.U_unsigned_shl dbg w N fuel a k =
     match TU_unsigned_shl dbg w a k with Ret r => Done r | Panic => Panicked end) /\
  (forall dbg w N fuel a k, NtGen.U_unsigned_shr dbg w N fuel a k =
     match TU_unsigned_shr dbg w a k with Ret r => Done r | Panic => Panicked end) /\
  (forall depth w x max_bits (f : list Z -> outcome (list Z)) (f' : list Z -> res (list Z)) fuel,
     (forall s, f' s = match f s with Ret r => Done r | Panic => Panicked end) -> (2 ^ depth <= fuel)%nat ->
     match NumTraits.fixpoint depth w x max_bits f with
     | Some (Ret r) => NtGen.fixpoint w (Z.of_nat (length x)) fuel x max_bits f' = Done r
     | Some Panic => NtGen.fixpoint w (Z.of_nat (length x)) fuel x max_bits f' = Panicked
     | None => True
     end) /\
  (forall dbg w a fuel, (2 ^ fixpoint_depth w (length a) <= fuel)%nat ->
     match TU_sqrt dbg w a with
     | Some (Ret r) => NtGen.U_sqrt dbg w (Z.of_nat (length a)) fuel a = Done r
     | Some Panic => NtGen.U_sqrt dbg w (Z.of_nat (length a)) fuel a = Panicked
     | None => True
     end) /\
  (forall dbg w a fuel, (2 ^ fixpoint_depth w (length a) <= fuel)%nat ->
     match TU_cbrt dbg w a with
     | Some (Ret r) => NtGen.U_cbrt dbg w (Z.of_nat (length a)) fuel a = Done r
     | Some Panic => NtGen.U_cbrt dbg w (Z.of_nat (length a)) fuel a = Panicked
     | None => True
     end) /\
  (forall dbg w a k fuel, 0 <= k -> (2 ^ fixpoint_depth w (length a) <= fuel)%nat ->
     match TU_nth_root dbg w a k with
     | Some (Ret r) => NtGen.U_nth_root dbg w (Z.of_nat (length a)) fuel a k = Done r
     | Some Panic => NtGen.U_nth_root dbg w (Z.of_nat (length a)) fuel a k = Panicked
     | None => True
     end) /\
  (forall dbg w N fuel a, NtGen.I_abs dbg w N fuel a =
     match TI_abs dbg w a with Ret r => Done r | Panic => Panicked end) /\
  (forall dbg w fuel a b, NtGen.I_abs_sub dbg w (Z.of_nat (length a)) fuel a b =
     match TI_abs_sub dbg w a b with Ret r => Done r | Panic => Panicked end) /\
  (forall w N fuel a, NtGen.I_signum w N fuel a = Done (TI_signum w a)) /\
  (forall w N fuel a, NtGen.I_is_positive w N fuel a = Done (TI_is_positive w a)) /\
  (forall w N fuel a, NtGen.I_is_negative w N fuel a = Done (TI_is_negative w a)) /\
  (forall dbg w fuel a b, NtGen.I_div_floor dbg w (Z.of_nat (length a)) fuel a b =
     match TI_div_floor dbg w a b with Ret r => Done r | Panic => Panicked end) /\
  (forall dbg w N fuel a b, NtGen.I_mod_floor dbg w N fuel a b =
     match TI_mod_floor dbg w a b with Ret r => Done r | Panic => Panicked end) /\
  (forall dbg w N a b fuel, (gcd_fuel w (length a) <= fuel)%nat ->
     match TI_gcd dbg w a b with
     | Some (Ret r) => NtGen.I_gcd dbg w N fuel a b = Done r
     | Some Panic => NtGen.I_gcd dbg w N fuel a b = Panicked
     | None => True
     end) /\
  (forall dbg w a b fuel, (gcd_fuel w (length a) <= fuel)%nat ->
     match TI_lcm dbg w a b with
     | Some (Ret r) => NtGen.I_lcm dbg w (Z.of_nat (length a)) fuel a b = Done r
     | Some Panic => NtGen.I_lcm dbg w (Z.of_nat (length a)) fuel a b = Panicked
     | None => True
     end) /\
  (forall dbg w N fuel a b, NtGen.I_is_multiple_of dbg w N fuel a b =
     match TI_is_multiple_of dbg w a b with Ret r => Done r | Panic => Panicked end) /\
  (forall dbg w N fuel a b, NtGen.I_divides dbg w N fuel a b =
     match TI_divides dbg w a b with Ret r => Done r | Panic => Panicked end) /\
  (forall w N fuel a, (0 < length a)%nat -> NtGen.I_is_even w N fuel a = Done (TI_is_even a)) /\
  (forall w N fuel a, (0 < length a)%nat -> NtGen.I_is_odd w N fuel a = Done (TI_is_odd a)) /\
  (forall dbg w N fuel a b, NtGen.I_div_rem dbg w N fuel a b =
     match TI_div_rem dbg w a b with Ret r => Done r | Panic => Panicked end) /\
  (forall dbg w N fuel a k, NtGen.I_signed_shl dbg w N fuel a k =
     match TI_signed_shl dbg w a k with Ret r => Done r | Panic => Panicked end) /\
  (forall dbg w N fuel a k, NtGen.I_signed_shr dbg w N fuel a k =
     match TI_signed_shr dbg w a k with Ret r => Done r | Panic => Panicked end) /\
  (forall dbg w N fuel a k, NtGen.I_unsigned_shl dbg w N fuel a k =
     match TI_unsigned_shl dbg w a k with Ret r => Done r | Panic => Panicked end) /\
  (forall dbg w N fuel a k, NtGen.I_unsigned_shr dbg w N fuel a k =
     match TI_unsigned_shr dbg w a k with Ret r => Done r | Panic => Panicked end) /\
  (forall dbg w a fuel, (2 ^ fixpoint_depth w (length a) <= fuel)%nat ->
     match TI_sqrt dbg w a with
     | Some (Ret r) => NtGen.I_sqrt dbg w (Z.of_nat (length a)) fuel a = Done r
     | Some Panic => NtGen.I_sqrt dbg w (Z.of_nat (length a)) fuel a = Panicked
     | None => True
     end) /\
  (forall dbg w a fuel, (2 ^ fixpoint_depth w (length a) <= fuel)%nat ->
     match TI_cbrt dbg w a with
     | Some (Ret r) => NtGen.I_cbrt dbg w (Z.of_nat (length a)) fuel a = Done r
     | Some Panic => NtGen.I_cbrt dbg w (Z.of_nat (length a)) fuel a = Panicked
     | None => True
     end) /\
  (forall dbg w a k fuel, 0 <= k -> (2 ^ fixpoint_depth w (length a) <= fuel)%nat ->
     match TI_nth_root dbg w a k with
     | Some (Ret r) => NtGen.I_nth_root dbg w (Z.of_nat (length a)) fuel a k = Done r
     | Some Panic => NtGen.I_nth_root dbg w (Z.of_nat (length a)) fuel a k = Panicked
     | None => True
     end).
Proof.
  repeat split.
  - exact nt_U_div_floor.
  - exact nt_U_mod_floor.
  - intros. apply (nt_U_gcd dbg w N a b fuel). assumption.
  - exact nt_U_gcd_exact.
  - intros. apply (nt_U_lcm dbg w a b fuel). assumption.
  - exact nt_U_is_multiple_of.
  - exact nt_U_divides.
  - exact nt_U_is_even.
  - exact nt_U_is_odd.
  - exact nt_U_div_rem.
  - exact nt_U_signed_shl.
  - exact nt_U_signed_shr.
  - exact nt_U_unsigned_shl.
  - exact nt_U_unsigned_shr.
  - intros depth w x max_bits f f' fuel Hf Hfuel. apply (nt_fixpoint depth w _ x max_bits f f' eq_refl Hf fuel Hfuel).
  - intros. apply nt_U_sqrt. assumption.
  - intros. apply nt_U_cbrt. assumption.
  - intros. apply nt_U_nth_root; assumption.
  - exact nt_I_abs.
  - exact nt_I_abs_sub.
  - exact nt_I_div_floor.
  - exact nt_I_mod_floor.
  - intros. apply (nt_I_gcd dbg w N a b fuel). assumption.
  - intros. apply (nt_I_lcm dbg w a b fuel). assumption.
  - exact nt_I_is_multiple_of.
  - exact nt_I_divides.
  - exact nt_I_is_even.
  - exact nt_I_is_odd.
  - exact nt_I_div_rem.
  - exact nt_I_signed_shl.
  - exact nt_I_signed_shr.
  - exact nt_I_unsigned_shl.
  - exact nt_I_unsigned_shr.
  - intros. apply nt_I_sqrt. assumption.
  - intros. apply nt_I_cbrt. assumption.
  - intros. apply nt_I_nth_root; assumption.
Qed.

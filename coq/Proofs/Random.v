(* Proofs/Random.v — Model/Random.v = Spec, for ALL digit widths w, ALL digit counts n, ALL RNG streams.
   The stream `s` is a universally quantified argument everywhere (the RNG is an oracle).
   Facts about functions of other model files come in as explicit premises (Proofs/RandomDeps.v). *)
From Bnum Require Import Base Prim.
From Bnum.Model Require Import Digit Core Shift AddSub Mul Div Bits Random.
From Bnum.Proofs Require Import RandomZ RandomDeps.

Local Open Scope Z_scope.

(* ================= lists ================= *)

Lemma Forall_firstn {A} (P : A -> Prop) k l : Forall P l -> Forall P (firstn k l).
Proof.
  revert l; induction k as [|k IH]; intros l H; cbn [firstn]; [constructor|].
  destruct l as [|x l]; [constructor|]. inversion H; subst. constructor; auto.
Qed.

Lemma Forall_skipn {A} (P : A -> Prop) k l : Forall P l -> Forall P (skipn k l).
Proof.
  revert l; induction k as [|k IH]; intros l H; cbn [skipn]; [exact H|].
  destruct l as [|x l]; [constructor|]. inversion H; subst. auto.
Qed.

Lemma skipn_skipn' {A} a b (l : list A) : skipn a (skipn b l) = skipn (b + a) l.
Proof.
  revert l; induction b as [|b IH]; intros l; cbn [skipn Nat.add]; [reflexivity|].
  destruct l as [|x l]; [apply skipn_nil|]. apply IH.
Qed.

Lemma firstn_firstn_le {A} a b (l : list A) : (a <= b)%nat -> firstn a (firstn b l) = firstn a l.
Proof. intros H. rewrite firstn_firstn. f_equal. lia. Qed.

(* ================= bytes ================= *)

Definition bytes_ok (s : list Z) : Prop := Forall (digit_ok 8) s.

Lemma bytes_wf s : bytes_ok s -> wf 8 (length s) s.
Proof. intros H; split; [reflexivity | exact H]. Qed.

Lemma try_fill_bytes_enough k s : (k <= length s)%nat ->
  try_fill_bytes k s = Some (firstn k s, skipn k s).
Proof. intros H. unfold try_fill_bytes. destruct (Nat.ltb_spec (length s) k); [lia | reflexivity]. Qed.

Lemma try_fill_bytes_short k s : (length s < k)%nat -> try_fill_bytes k s = None.
Proof. intros H. unfold try_fill_bytes. destruct (Nat.ltb_spec (length s) k); [reflexivity | lia]. Qed.

Lemma Mod_mono w a b : 0 <= w -> (a <= b)%nat -> Mod w a <= Mod w b.
Proof. intros Hw H. unfold Mod. apply Z.pow_le_mono_r; nia. Qed.

(* a digit decoded from at most digit_bytes w bytes fits the digit *)
Lemma Mod8_digit_bytes_le w : 0 < w -> Mod 8 (digit_bytes w) <= B w.
Proof.
  intros Hw. unfold Mod, B, digit_bytes. apply Z.pow_le_mono_r; [lia|].
  rewrite Z2Nat.id by (apply Z.div_pos; lia).
  pose proof (Z.mul_div_le w 8 ltac:(lia)). lia.
Qed.

Lemma div8 k : 8 * k / 8 = k.
Proof. rewrite Z.mul_comm. apply Z.div_mul. lia. Qed.

Lemma Mod8_digit_bytes_eq k : 0 < k -> Mod 8 (digit_bytes (8 * k)) = B (8 * k).
Proof.
  intros Hk. unfold Mod, B, digit_bytes. f_equal.
  rewrite div8. rewrite Z2Nat.id by lia. lia.
Qed.

Lemma digit_of_le_bytes_ok w bs : 0 < w -> bytes_ok bs -> (length bs <= digit_bytes w)%nat ->
  digit_ok w (digit_of_le_bytes bs).
Proof.
  intros Hw Hb Hl. unfold digit_ok, digit_of_le_bytes.
  pose proof (uval_bounds 8 (length bs) bs ltac:(lia) (bytes_wf bs Hb)) as Bd.
  pose proof (Mod_mono 8 (length bs) (digit_bytes w) ltac:(lia) Hl).
  pose proof (Mod8_digit_bytes_le w Hw). lia.
Qed.

Lemma chunks_length sz cnt bs : length (chunks sz cnt bs) = cnt.
Proof. revert bs; induction cnt as [|c IH]; intros bs; cbn [chunks length]; [reflexivity | rewrite IH; reflexivity]. Qed.

Lemma digits_of_bytes_wf w n bs : 0 < w -> bytes_ok bs -> wf w n (digits_of_bytes w n bs).
Proof.
  intros Hw. unfold digits_of_bytes. revert bs. induction n as [|n IH]; intros bs Hb; cbn [chunks map].
  - apply wf_nil.
  - apply wf_cons. split.
    + apply digit_of_le_bytes_ok; [assumption | apply Forall_firstn; exact Hb | apply firstn_le_length].
    + apply IH. apply Forall_skipn. exact Hb.
Qed.

(* with w = 8k the digit array decodes to the little-endian value of the whole byte string *)
Lemma digits_of_bytes_uval k n bs : 0 < k -> length bs = BYTES (8 * k) n ->
  uval (8 * k) (digits_of_bytes (8 * k) n bs) = uval 8 bs.
Proof.
  intros Hk. unfold digits_of_bytes, BYTES. set (db := digit_bytes (8 * k)).
  revert bs. induction n as [|n IH]; intros bs Hl; cbn [chunks map uval].
  - destruct bs; [reflexivity | discriminate].
  - rewrite IH.
    2:{ rewrite skipn_length, Hl. cbn [Nat.mul]. lia. }
    rewrite <- (firstn_skipn db bs) at 3. rewrite uval_app by lia.
    rewrite firstn_length_le by (rewrite Hl; cbn [Nat.mul]; lia).
    replace (Mod 8 db) with (B (8 * k)) by (symmetry; apply Mod8_digit_bytes_eq; lia). reflexivity.
Qed.

Lemma Mod8_BYTES k n : 0 < k -> Mod 8 (BYTES (8 * k) n) = Mod (8 * k) n.
Proof.
  intros Hk. unfold Mod, BYTES, digit_bytes. f_equal.
  rewrite div8. rewrite Nat2Z.inj_mul, Z2Nat.id by lia. lia.
Qed.

(* ================= Standard ================= *)

Lemma U_standard_enough w n s : (BYTES w n <= length s)%nat ->
  U_standard w n s = RVal (digits_of_bytes w n (firstn (BYTES w n) s)) (skipn (BYTES w n) s).
Proof. intros H. unfold U_standard. rewrite try_fill_bytes_enough by assumption. reflexivity. Qed.

Lemma U_standard_short w n s : (length s < BYTES w n)%nat -> U_standard w n s = ROutOfStream.
Proof. intros H. unfold U_standard. rewrite try_fill_bytes_short by assumption. reflexivity. Qed.

(* whatever U_standard returns is a well-formed value and leaves a suffix of the stream *)
Lemma U_standard_inv w n s v rest : 0 < w -> bytes_ok s -> U_standard w n s = RVal v rest ->
  wf w n v /\ bytes_ok rest /\ rest = skipn (BYTES w n) s /\ (BYTES w n <= length s)%nat /\
  v = digits_of_bytes w n (firstn (BYTES w n) s).
Proof.
  intros Hw Hb H. destruct (Nat.lt_ge_cases (length s) (BYTES w n)) as [Hs|Hs].
  - rewrite U_standard_short in H by assumption. discriminate.
  - rewrite U_standard_enough in H by assumption. inversion H; subst.
    split; [apply digits_of_bytes_wf; [assumption | apply Forall_firstn; exact Hb]|].
    split; [apply Forall_skipn; exact Hb|]. auto.
Qed.

(* standard: the value sampled is the little-endian decoding of the BYTES bytes consumed *)
Theorem standard_decode k n s : 0 < k -> bytes_ok s -> (BYTES (8 * k) n <= length s)%nat ->
  exists v, U_standard (8 * k) n s = RVal v (skipn (BYTES (8 * k) n) s) /\
            wf (8 * k) n v /\ uval (8 * k) v = uval 8 (firstn (BYTES (8 * k) n) s).
Proof.
  intros Hk Hb Hl. eexists. split; [apply U_standard_enough; exact Hl|]. split.
  - apply digits_of_bytes_wf; [lia | apply Forall_firstn; exact Hb].
  - apply digits_of_bytes_uval; [lia | apply firstn_length_le; exact Hl].
Qed.

(* decode_le is a bijection from byte strings of length BYTES onto [0, 2^BITS) *)
Theorem decode_le_injective m a b : wf 8 m a -> wf 8 m b -> uval 8 a = uval 8 b -> a = b.
Proof. intros. eapply uval_inj; eauto. lia. Qed.

Theorem decode_le_range k n bs : 0 < k -> wf 8 (BYTES (8 * k) n) bs -> 0 <= uval 8 bs < Mod (8 * k) n.
Proof. intros Hk H. rewrite <- Mod8_BYTES by assumption. apply uval_bounds; [lia | exact H]. Qed.

Theorem decode_le_surjective k n x : 0 < k -> 0 <= x < Mod (8 * k) n ->
  let bs := digits_of 8 (BYTES (8 * k) n) x in wf 8 (BYTES (8 * k) n) bs /\ uval 8 bs = x.
Proof.
  intros Hk Hx bs. split; [apply digits_of_wf; lia|].
  unfold bs. rewrite digits_of_uval by lia. rewrite Mod8_BYTES by assumption. apply Z.mod_small. exact Hx.
Qed.

(* all 2^BITS values are reachable: some script makes Standard return any given value *)
Theorem standard_reachable k n x rest : 0 < k -> 0 <= x < Mod (8 * k) n ->
  exists bs v, wf 8 (BYTES (8 * k) n) bs /\ U_standard (8 * k) n (bs ++ rest) = RVal v rest /\
               wf (8 * k) n v /\ uval (8 * k) v = x.
Proof.
  intros Hk Hx. destruct (decode_le_surjective k n x Hk Hx) as [Hwf Hu].
  set (bs := digits_of 8 (BYTES (8 * k) n) x) in *.
  destruct Hwf as [Hl Hf].
  exists bs, (digits_of_bytes (8 * k) n bs). split; [split; assumption|].
  assert (E1 : firstn (BYTES (8 * k) n) (bs ++ rest) = bs).
  { rewrite <- Hl. rewrite firstn_app, Nat.sub_diag, firstn_all. cbn [firstn]. apply app_nil_r. }
  assert (E2 : skipn (BYTES (8 * k) n) (bs ++ rest) = rest).
  { rewrite <- Hl. rewrite skipn_app, Nat.sub_diag, skipn_all. reflexivity. }
  split.
  - rewrite U_standard_enough by (rewrite app_length; lia). rewrite E1, E2. reflexivity.
  - split; [apply digits_of_bytes_wf; [lia | exact Hf]|].
    rewrite digits_of_bytes_uval by (try lia; exact Hl). exact Hu.
Qed.

(* ================= slice fill ================= *)

(* filling each element in turn from the stream *)
Fixpoint standard_each (w : Z) (n len : nat) (s : stream) : rres (list (list Z)) :=
  match len with
  | O => RVal [] s
  | S l =>
      match U_standard w n s with
      | RVal v r =>
          match standard_each w n l r with
          | RVal vs r' => RVal (v :: vs) r'
          | RPanic => RPanic
          | ROutOfStream => ROutOfStream
          | ROutOfFuel => ROutOfFuel
          end
      | RPanic => RPanic
      | ROutOfStream => ROutOfStream
      | ROutOfFuel => ROutOfFuel
      end
  end.

Lemma standard_each_closed w n len s :
  standard_each w n len s =
    if (length s <? len * BYTES w n)%nat then ROutOfStream
    else RVal (map (digits_of_bytes w n) (chunks (BYTES w n) len (firstn (len * BYTES w n) s)))
              (skipn (len * BYTES w n) s).
Proof.
  set (Bn := BYTES w n). revert s. induction len as [|l IH]; intros s; cbn [standard_each].
  - cbn [Nat.mul chunks map firstn skipn]. destruct (Nat.ltb_spec (length s) 0); [lia | reflexivity].
  - destruct (Nat.lt_ge_cases (length s) Bn) as [Hs|Hs].
    + rewrite U_standard_short by exact Hs.
      destruct (Nat.ltb_spec (length s) (S l * Bn)); [reflexivity | cbn [Nat.mul] in *; lia].
    + rewrite U_standard_enough by exact Hs. fold Bn. rewrite IH. rewrite skipn_length.
      destruct (Nat.ltb_spec (length s - Bn) (l * Bn)); destruct (Nat.ltb_spec (length s) (S l * Bn));
        cbn [Nat.mul] in *; try lia; [reflexivity|].
      cbn [chunks map]. f_equal.
      * f_equal.
        -- f_equal. apply eq_sym. apply firstn_firstn_le. lia.
        -- f_equal. f_equal. rewrite firstn_skipn_comm. reflexivity.
      * apply skipn_skipn'.
Qed.

(* fill_slice: one request of len*BYTES bytes, cut into elements = filling each element in turn,
   for EVERY stream (including the ones that run dry) *)
Theorem fill_slice_each w n len s : try_fill_slice w n len s = standard_each w n len s.
Proof.
  rewrite standard_each_closed. unfold try_fill_slice.
  destruct len as [|l].
  - cbn [Nat.ltb Nat.leb Nat.mul chunks map firstn skipn]. destruct (Nat.ltb_spec (length s) 0); [lia | reflexivity].
  - replace (0 <? S l)%nat with true by (symmetry; apply Nat.ltb_lt; lia).
    unfold try_fill_bytes. destruct (Nat.ltb_spec (length s) (S l * BYTES w n)); reflexivity.
Qed.

Lemma nth_error_chunks sz cnt bs i : (i < cnt)%nat ->
  nth_error (chunks sz cnt bs) i = Some (firstn sz (skipn (i * sz) bs)).
Proof.
  revert bs i. induction cnt as [|c IH]; intros bs i Hi; [lia|]. cbn [chunks].
  destruct i as [|i]; cbn [nth_error Nat.mul]; [reflexivity|].
  rewrite IH by lia. rewrite skipn_skipn'. reflexivity.
Qed.

(* element i of a slice fill = the decoding of bytes i*BYTES .. (i+1)*BYTES of the stream *)
Theorem fill_slice_element w n len s vs rest i :
  try_fill_slice w n len s = RVal vs rest -> (i < len)%nat ->
  nth_error vs i = Some (digits_of_bytes w n (firstn (BYTES w n) (skipn (i * BYTES w n) s))) /\
  rest = skipn (len * BYTES w n) s /\ length vs = len.
Proof.
  intros H Hi. rewrite fill_slice_each, standard_each_closed in H.
  destruct (Nat.ltb_spec (length s) (len * BYTES w n)) as [Hs|Hs]; [discriminate|].
  inversion H; subst. split; [|split; [reflexivity | rewrite map_length, chunks_length; reflexivity]].
  erewrite map_nth_error; [|apply nth_error_chunks; exact Hi].
  f_equal. f_equal.
  rewrite skipn_firstn_comm. apply firstn_firstn_le. nia.
Qed.

(* ================= small facts about Core / AddSub used below ================= *)

Lemma uval_nonneg w ds : 0 <= w -> Forall (digit_ok w) ds -> 0 <= uval w ds.
Proof. intros Hw H. apply (uval_bounds w (length ds) ds Hw). split; [reflexivity | exact H]. Qed.

Lemma is_zero_uval w ds : 0 <= w -> Forall (digit_ok w) ds -> (is_zero ds = true <-> uval w ds = 0).
Proof.
  intros Hw. induction ds as [|d r IH]; intros H; cbn [is_zero uval]; [tauto|].
  inversion H as [|x l Hd Hr]; subst. specialize (IH Hr).
  pose proof (uval_nonneg w r Hw Hr). pose proof (B_pos w Hw). unfold digit_ok in Hd.
  destruct (Z.eqb_spec d 0) as [->|Hn].
  - rewrite IH. split; intros; nia.
  - split; [discriminate | intros; nia].
Qed.

Lemma uval_repeat0 w k : uval w (repeat 0 k) = 0.
Proof. induction k as [|k IH]; cbn [repeat uval]; [reflexivity | rewrite IH; lia]. Qed.

Lemma ONE_uval w n : (0 < n)%nat -> uval w (ONE n) = 1.
Proof. intros Hn. destruct n as [|k]; [lia|]. unfold ONE, from_digit. cbn [uval]. rewrite uval_repeat0. lia. Qed.

Lemma ONE_wf w n : 0 < w -> wf w n (ONE n).
Proof.
  intros Hw. destruct n as [|k]; [apply wf_nil|]. unfold ONE, from_digit. apply wf_cons. split.
  - unfold digit_ok. pose proof (B_ge_2 w Hw). lia.
  - split; [apply repeat_length|]. apply Forall_forall. intros x Hx. apply repeat_spec in Hx. subst.
    unfold digit_ok. pose proof (B_pos w ltac:(lia)). lia.
Qed.

Lemma U_sub_ret dbg w a b r : U_sub dbg w a b = Ret r -> r = U_wrapping_sub w a b.
Proof.
  unfold U_sub, U_strict_sub, U_checked_sub, tuple_to_option, option_expect, U_wrapping_sub.
  destruct dbg; [|intros H; inversion H; reflexivity].
  destruct (snd (U_overflowing_sub w a b)); intros H; inversion H; reflexivity.
Qed.

Lemma I_sub_ret dbg w a b r : I_sub dbg w a b = Ret r ->
  r = U_wrapping_sub w a b \/ r = fst (I_overflowing_sub w a b).
Proof.
  unfold I_sub, I_strict_sub, I_checked_sub, tuple_to_option, option_expect, I_wrapping_sub.
  destruct dbg; [|intros H; inversion H; left; reflexivity].
  destruct (snd (I_overflowing_sub w a b)); intros H; inversion H; right; reflexivity.
Qed.

(* ================= the type's own reading of a bit pattern ================= *)

Definition tval (sg : bool) (w : Z) (ds : list Z) : Z := if sg then sval w ds else uval w ds.
Definition tmin (sg : bool) (w : Z) (n : nat) : Z := if sg then - (Mod w n / 2) else 0.

Lemma tval_window sg w n ds : 0 < w -> (0 < n)%nat -> wf w n ds ->
  tmin sg w n <= tval sg w ds < tmin sg w n + Mod w n.
Proof.
  intros Hw Hn H. destruct sg; cbn [tval tmin].
  - pose proof (sval_range w n ds Hw Hn H). pose proof (Mod_even w n Hw Hn). lia.
  - pose proof (uval_bounds w n ds ltac:(lia) H). lia.
Qed.

Lemma tval_shift sg w n ds : wf w n ds -> exists e, tval sg w ds = uval w ds - e * Mod w n.
Proof.
  intros H. destruct sg; cbn [tval].
  - unfold sval, to_signed. rewrite (wf_length _ _ _ H).
    destruct (uval w ds <? Mod w n / 2); [exists 0 | exists 1]; lia.
  - exists 0; lia.
Qed.

Lemma tval_unique sg w n ds t : 0 < w -> (0 < n)%nat -> wf w n ds ->
  tmin sg w n <= t < tmin sg w n + Mod w n -> uval w ds mod Mod w n = t mod Mod w n -> tval sg w ds = t.
Proof.
  intros Hw Hn H Ht E.
  pose proof (tval_window sg w n ds Hw Hn H) as Wd.
  destruct (tval_shift sg w n ds H) as [e He].
  pose proof (Mod_pos w n ltac:(lia)) as HM.
  assert (D : (tval sg w ds - t) mod Mod w n = 0).
  { rewrite He. replace (uval w ds - e * Mod w n - t) with ((uval w ds - t) + (- e) * Mod w n) by ring.
    rewrite Z_mod_plus_full. rewrite Zminus_mod, E, Z.sub_diag. apply Z.mod_0_l. lia. }
  apply Z.mod_divide in D; [|lia]. destruct D as [c Dc].
  assert (c = 0) by nia. lia.
Qed.

(* ================= range ================= *)

Lemma ty_wrapping_add_U sg w a b : ty_wrapping_add sg w a b = U_wrapping_add w a b.
Proof. destruct sg; reflexivity. Qed.
Lemma ty_wrapping_sub_U sg w a b : ty_wrapping_sub sg w a b = U_wrapping_sub w a b.
Proof. destruct sg; reflexivity. Qed.
Lemma ty_standard_U sg w n s : ty_standard sg w n s = U_standard w n s.
Proof. destruct sg; reflexivity. Qed.

Lemma range_of_spec (PA : wrapping_add_spec) (PS : wrapping_sub_spec) sg w n low high :
  0 < w -> (0 < n)%nat -> wf w n low -> wf w n high ->
  wf w n (range_of sg w low high) /\
  uval w (range_of sg w low high) = (tval sg w high - tval sg w low + 1) mod Mod w n.
Proof.
  intros Hw Hn Hl Hh. unfold range_of. rewrite ty_wrapping_add_U, ty_wrapping_sub_U.
  rewrite (wf_length _ _ _ Hl).
  destruct (PS w n high low Hw Hh Hl) as [W1 E1].
  destruct (PA w n _ (ONE n) Hw W1 (ONE_wf w n Hw)) as [W2 E2].
  split; [exact W2|]. rewrite E2, E1, ONE_uval by exact Hn.
  pose proof (Mod_pos w n ltac:(lia)) as HM.
  rewrite Zplus_mod_idemp_l.
  destruct (tval_shift sg w n high Hh) as [eh Eh]. destruct (tval_shift sg w n low Hl) as [el El].
  rewrite Eh, El.
  replace (uval w high - eh * Mod w n - (uval w low - el * Mod w n) + 1)
    with (uval w high - uval w low + 1 + (el - eh) * Mod w n) by ring.
  rewrite Z_mod_plus_full. reflexivity.
Qed.

(* ================= the rejection loop ================= *)

Lemma sample_loop_inv (PW : widening_mul_spec) (PA : wrapping_add_spec) sg w n low range zone :
  0 < w -> wf w n low -> wf w n range ->
  forall fuel s r rest, bytes_ok s ->
    sample_loop fuel sg w low range zone s = RVal r rest ->
    wf w n r /\ bytes_ok rest /\
    exists k, 0 <= k /\ (uval w range <> 0 -> k < uval w range) /\ uval w r = (uval w low + k) mod Mod w n.
Proof.
  intros Hw Hl Hr. induction fuel as [|f IH]; intros s r rest Hb H; cbn [sample_loop] in H; [discriminate|].
  rewrite (wf_length _ _ _ Hl) in H.
  destruct (U_standard w n s) as [v rest'| | |] eqn:Es; try discriminate.
  destruct (U_standard_inv w n s v rest' Hw Hb Es) as (Wv & Hb' & _).
  destruct (U_widening_mul w v range) as [lo hi] eqn:Em.
  pose proof (PW w n v range Hw Wv Hr) as PWs. rewrite Em in PWs. cbn [fst snd] in PWs.
  destruct PWs as (Wlo & Whi & Eprod).
  destruct (cmp_le (ucmp lo zone)).
  - inversion H; subst. rewrite ty_wrapping_add_U.
    destruct (PA w n low hi Hw Hl Whi) as [Wr Er].
    split; [exact Wr|]. split; [exact Hb'|].
    exists (uval w hi).
    pose proof (uval_bounds w n hi ltac:(lia) Whi). pose proof (uval_bounds w n lo ltac:(lia) Wlo).
    pose proof (uval_bounds w n v ltac:(lia) Wv). pose proof (uval_bounds w n range ltac:(lia) Hr).
    split; [lia|]. split; [|exact Er].
    intros Hne. nia.
  - eapply IH; eauto.
Qed.

(* ================= in_range ================= *)


(* the two ways a draw is produced once `range` is known *)
Lemma full_case (PW : widening_mul_spec) (PA : wrapping_add_spec) (PS : wrapping_sub_spec) sg w n low high s r rest :
  0 < w -> (0 < n)%nat -> wf w n low -> wf w n high -> bytes_ok s ->
  tval sg w low <= tval sg w high ->
  uval w (range_of sg w low high) = 0 ->
  ty_standard sg w n s = RVal r rest ->
  wf w n r /\ tval sg w low <= tval sg w r <= tval sg w high.
Proof.
  intros Hw Hn Hl Hh Hb Hle Hz H. rewrite ty_standard_U in H.
  destruct (U_standard_inv w n s r rest Hw Hb H) as (Wr & _).
  split; [exact Wr|].
  destruct (range_of_spec PA PS sg w n low high Hw Hn Hl Hh) as [_ Er]. rewrite Er in Hz.
  pose proof (tval_window sg w n low Hw Hn Hl). pose proof (tval_window sg w n high Hw Hn Hh).
  pose proof (tval_window sg w n r Hw Hn Wr). pose proof (Mod_pos w n ltac:(lia)).
  apply (full_range (Mod w n) (tmin sg w n)) in Hz; lia.
Qed.

Lemma loop_case (PW : widening_mul_spec) (PA : wrapping_add_spec) (PS : wrapping_sub_spec) sg w n low high zone fuel s r rest :
  0 < w -> (0 < n)%nat -> wf w n low -> wf w n high -> bytes_ok s ->
  tval sg w low <= tval sg w high ->
  uval w (range_of sg w low high) <> 0 ->
  sample_loop fuel sg w low (range_of sg w low high) zone s = RVal r rest ->
  wf w n r /\ tval sg w low <= tval sg w r <= tval sg w high.
Proof.
  intros Hw Hn Hl Hh Hb Hle Hnz H.
  destruct (range_of_spec PA PS sg w n low high Hw Hn Hl Hh) as [Wrg Er].
  destruct (sample_loop_inv PW PA sg w n low _ zone Hw Hl Wrg fuel s r rest Hb H) as (Wr & _ & k & Hk0 & Hk & Eu).
  split; [exact Wr|]. specialize (Hk Hnz). rewrite Er in Hk, Hnz.
  pose proof (tval_window sg w n low Hw Hn Hl). pose proof (tval_window sg w n high Hw Hn Hh).
  pose proof (tval_window sg w n r Hw Hn Wr). pose proof (Mod_pos w n ltac:(lia)) as HM.
  apply (offset_in_range (Mod w n) (tmin sg w n) _ _ _ k); try lia.
  destruct (tval_shift sg w n r Wr) as [er Eer]. destruct (tval_shift sg w n low Hl) as [el Eel].
  rewrite Eer, Eel, Eu.
  replace ((uval w low + k) mod Mod w n - er * Mod w n) with ((uval w low + k) mod Mod w n + (- er) * Mod w n) by ring.
  rewrite Z_mod_plus_full, Z.mod_mod by lia.
  replace (uval w low - el * Mod w n + k) with (uval w low + k + (- el) * Mod w n) by ring.
  rewrite Z_mod_plus_full. reflexivity.
Qed.

Theorem sample_single_inclusive_in_range (PW : widening_mul_spec) (PA : wrapping_add_spec) (PS : wrapping_sub_spec) fuel sg dbg w n low high s r rest :
  0 < w -> (0 < n)%nat -> wf w n low -> wf w n high -> bytes_ok s ->
  tval sg w low <= tval sg w high ->
  sample_single_inclusive fuel sg dbg w low high s = RVal r rest ->
  wf w n r /\ tval sg w low <= tval sg w r <= tval sg w high.
Proof.
  intros Hw Hn Hl Hh Hb Hle H. unfold sample_single_inclusive in H.
  destruct (negb (ty_le sg w low high)); [discriminate|].
  destruct (range_of_spec PA PS sg w n low high Hw Hn Hl Hh) as [Wrg _].
  rewrite (wf_length _ _ _ Hl) in H.
  destruct (is_zero (range_of sg w low high)) eqn:Ez.
  - apply (is_zero_uval w) in Ez; [|lia | apply Wrg]. eapply full_case; eauto.
  - assert (uval w (range_of sg w low high) <> 0).
    { intros E. apply (is_zero_uval w) in E; [congruence | lia | apply Wrg]. }
    destruct (single_zone dbg w (range_of sg w low high)) as [zone|]; [|discriminate].
    eapply loop_case; eauto.
Qed.

Lemma uniform_new_inclusive_inv sg dbg w low high u :
  uniform_new_inclusive sg dbg w low high = Ret u ->
  u_low u = low /\ u_range u = range_of sg w low high.
Proof.
  unfold uniform_new_inclusive. destruct (negb (ty_le sg w low high)); [discriminate|].
  destruct (if negb (is_zero (range_of sg w low high)) then _ else _); cbn [obind]; [|discriminate].
  intros H; inversion H; subst; cbn [u_low u_range]. auto.
Qed.

Theorem uniform_new_inclusive_sample_in_range (PW : widening_mul_spec) (PA : wrapping_add_spec) (PS : wrapping_sub_spec) fuel sg dbg w n low high s r rest :
  0 < w -> (0 < n)%nat -> wf w n low -> wf w n high -> bytes_ok s ->
  tval sg w low <= tval sg w high ->
  uniform_new_inclusive_sample fuel sg dbg w low high s = RVal r rest ->
  wf w n r /\ tval sg w low <= tval sg w r <= tval sg w high.
Proof.
  intros Hw Hn Hl Hh Hb Hle H. unfold uniform_new_inclusive_sample in H.
  destruct (uniform_new_inclusive sg dbg w low high) as [u|] eqn:Eu; [|discriminate].
  destruct (uniform_new_inclusive_inv sg dbg w low high u Eu) as [E1 E2].
  unfold uniform_sample in H. rewrite E1, E2 in H.
  destruct (range_of_spec PA PS sg w n low high Hw Hn Hl Hh) as [Wrg _].
  rewrite (wf_length _ _ _ Hl) in H.
  destruct (is_zero (range_of sg w low high)) eqn:Ez; cbn [negb] in H.
  - apply (is_zero_uval w) in Ez; [|lia | apply Wrg]. eapply full_case; eauto.
  - assert (uval w (range_of sg w low high) <> 0).
    { intros E. apply (is_zero_uval w) in E; [congruence | lia | apply Wrg]. }
    destruct (U_sub dbg w _ (u_z u)) as [zone|]; [|discriminate].
    eapply loop_case; eauto.
Qed.

Theorem gen_range_inclusive_in_range (PW : widening_mul_spec) (PA : wrapping_add_spec) (PS : wrapping_sub_spec) fuel sg dbg w n low high s r rest :
  0 < w -> (0 < n)%nat -> wf w n low -> wf w n high -> bytes_ok s ->
  tval sg w low <= tval sg w high ->
  gen_range_inclusive fuel sg dbg w low high s = RVal r rest ->
  wf w n r /\ tval sg w low <= tval sg w r <= tval sg w high.
Proof.
  intros Hw Hn Hl Hh Hb Hle H. unfold gen_range_inclusive in H.
  destruct (negb (ty_le sg w low high)); [discriminate|].
  eapply sample_single_inclusive_in_range; eauto.
Qed.

(* ---- exclusive forms: high - ONE does not wrap because low < high ---- *)

Lemma ty_sub_one (PW : widening_mul_spec) (PA : wrapping_add_spec) (PS : wrapping_sub_spec) (PIS : I_overflowing_sub_spec) sg dbg w n low high h1 :
  0 < w -> (0 < n)%nat -> wf w n low -> wf w n high ->
  tval sg w low < tval sg w high ->
  ty_sub sg dbg w high (ONE (length low)) = Ret h1 ->
  wf w n h1 /\ tval sg w h1 = tval sg w high - 1.
Proof.
  intros Hw Hn Hl Hh Hlt H. rewrite (wf_length _ _ _ Hl) in H.
  pose proof (ONE_wf w n Hw) as W1.
  assert (Hs : wf w n h1 /\ uval w h1 = (uval w high - 1) mod Mod w n).
  { unfold ty_sub in H. destruct sg.
    - apply I_sub_ret in H. destruct H as [-> | ->].
      + destruct (PS w n high (ONE n) Hw Hh W1) as [Wa Ea]. rewrite ONE_uval in Ea by exact Hn. auto.
      + destruct (PIS w n high (ONE n) Hw Hh W1) as [Wa Ea]. rewrite ONE_uval in Ea by exact Hn. auto.
    - apply U_sub_ret in H. subst.
      destruct (PS w n high (ONE n) Hw Hh W1) as [Wa Ea]. rewrite ONE_uval in Ea by exact Hn. auto. }
  destruct Hs as [Wh Eh]. split; [exact Wh|].
  pose proof (tval_window sg w n low Hw Hn Hl). pose proof (tval_window sg w n high Hw Hn Hh).
  pose proof (Mod_pos w n ltac:(lia)) as HM.
  apply (tval_unique sg w n h1 _ Hw Hn Wh); [lia|].
  rewrite Eh, Z.mod_mod by lia.
  destruct (tval_shift sg w n high Hh) as [e Ee]. rewrite Ee.
  replace (uval w high - e * Mod w n - 1) with (uval w high - 1 + (- e) * Mod w n) by ring.
  rewrite Z_mod_plus_full. reflexivity.
Qed.

Theorem sample_single_in_range (PW : widening_mul_spec) (PA : wrapping_add_spec) (PS : wrapping_sub_spec) (PIS : I_overflowing_sub_spec) fuel sg dbg w n low high s r rest :
  0 < w -> (0 < n)%nat -> wf w n low -> wf w n high -> bytes_ok s ->
  tval sg w low < tval sg w high ->
  sample_single fuel sg dbg w low high s = RVal r rest ->
  wf w n r /\ tval sg w low <= tval sg w r < tval sg w high.
Proof.
  intros Hw Hn Hl Hh Hb Hlt H. unfold sample_single in H.
  destruct (negb (ty_lt sg w low high)); [discriminate|].
  destruct (ty_sub sg dbg w high (ONE (length low))) as [h1|] eqn:E1; [|discriminate].
  destruct (ty_sub_one PW PA PS PIS sg dbg w n low high h1 Hw Hn Hl Hh Hlt E1) as [Wh Eh].
  destruct (sample_single_inclusive_in_range PW PA PS fuel sg dbg w n low h1 s r rest Hw Hn Hl Wh Hb ltac:(lia) H) as [Wr Rr].
  split; [exact Wr | lia].
Qed.

Theorem gen_range_in_range (PW : widening_mul_spec) (PA : wrapping_add_spec) (PS : wrapping_sub_spec) (PIS : I_overflowing_sub_spec) fuel sg dbg w n low high s r rest :
  0 < w -> (0 < n)%nat -> wf w n low -> wf w n high -> bytes_ok s ->
  tval sg w low < tval sg w high ->
  gen_range fuel sg dbg w low high s = RVal r rest ->
  wf w n r /\ tval sg w low <= tval sg w r < tval sg w high.
Proof.
  intros Hw Hn Hl Hh Hb Hlt H. unfold gen_range in H.
  destruct (negb (ty_lt sg w low high)); [discriminate|].
  eapply sample_single_in_range; eauto.
Qed.

Theorem uniform_new_sample_in_range (PW : widening_mul_spec) (PA : wrapping_add_spec) (PS : wrapping_sub_spec) (PIS : I_overflowing_sub_spec) fuel sg dbg w n low high s r rest :
  0 < w -> (0 < n)%nat -> wf w n low -> wf w n high -> bytes_ok s ->
  tval sg w low < tval sg w high ->
  uniform_new_sample fuel sg dbg w low high s = RVal r rest ->
  wf w n r /\ tval sg w low <= tval sg w r < tval sg w high.
Proof.
  intros Hw Hn Hl Hh Hb Hlt H. unfold uniform_new_sample, uniform_new in H.
  destruct (negb (ty_lt sg w low high)); [discriminate|].
  destruct (ty_sub sg dbg w high (ONE (length low))) as [h1|] eqn:E1; cbn [obind] in H; [|discriminate].
  destruct (ty_sub_one PW PA PS PIS sg dbg w n low high h1 Hw Hn Hl Hh Hlt E1) as [Wh Eh].
  destruct (uniform_new_inclusive_sample_in_range PW PA PS fuel sg dbg w n low h1 s r rest Hw Hn Hl Wh Hb ltac:(lia)) as [Wr Rr].
  { unfold uniform_new_inclusive_sample. exact H. }
  split; [exact Wr | lia].
Qed.

(* ================= Add<Digit> ================= *)

Lemma add_digit_carry_spec w : 0 < w -> forall m ds c, wf w m ds ->
  wf w m (add_digit_carry w ds c) /\
  uval w (add_digit_carry w ds c) = (uval w ds + (if c then 1 else 0)) mod Mod w m.
Proof.
  intros Hw. induction m as [|m IH]; intros ds c H.
  - apply wf_inv_0 in H; subst. cbn [add_digit_carry uval]. split; [apply wf_nil|].
    rewrite Mod_0, Z.mod_1_r. reflexivity.
  - destruct (wf_inv_S _ _ _ H) as (d & r & -> & Hd & Hr).
    pose proof (uval_bounds w m r ltac:(lia) Hr) as Br. pose proof (B_pos w ltac:(lia)) as HB.
    pose proof (Mod_pos w m ltac:(lia)) as HM. unfold digit_ok in Hd.
    cbn [add_digit_carry]. destruct c.
    + unfold u_ovf_add. destruct (IH r (B w <=? d + 1) Hr) as [Wr Er].
      split.
      * apply wf_cons. split; [|exact Wr]. unfold digit_ok. apply Z.mod_pos_bound; lia.
      * cbn [uval]. rewrite Er, Mod_S by lia.
        destruct (Z.leb_spec (B w) (d + 1)).
        -- assert (d + 1 = B w) by lia. rewrite H1, Z_mod_same_full.
           replace (d + B w * uval w r + 1) with (B w * (uval w r + 1)) by lia.
           rewrite Z.mul_mod_distr_l by lia. lia.
        -- rewrite (Z.mod_small (d + 1)) by lia. rewrite Z.add_0_r, (Z.mod_small (uval w r)) by lia.
           rewrite Z.mod_small by nia. lia.
    + split; [exact H|]. cbn [uval]. rewrite Z.add_0_r.
      rewrite Z.mod_small; [reflexivity|]. rewrite Mod_S by lia. nia.
Qed.

Theorem U_add_digit_spec w n a d : 0 < w -> (0 < n)%nat -> wf w n a -> digit_ok w d ->
  exists r, U_add_digit w a d = Ret r /\ wf w n r /\ uval w r = (uval w a + d) mod Mod w n.
Proof.
  intros Hw Hn H Hd. destruct n as [|m]; [lia|].
  destruct (wf_inv_S _ _ _ H) as (x & r & -> & Hx & Hr).
  unfold U_add_digit, carrying_add, u_ovf_add.
  destruct (add_digit_carry_spec w Hw m r (B w <=? x + d) Hr) as [Wr Er].
  eexists. split; [reflexivity|].
  pose proof (uval_bounds w m r ltac:(lia) Hr) as Br. pose proof (B_pos w ltac:(lia)) as HB.
  pose proof (Mod_pos w m ltac:(lia)) as HM. unfold digit_ok in Hx, Hd.
  split.
  - apply wf_cons. split; [|exact Wr]. unfold digit_ok. apply Z.mod_pos_bound; lia.
  - cbn [uval]. rewrite Er, Mod_S by lia.
    destruct (Z.leb_spec (B w) (x + d)).
    + assert (E : (x + d) mod B w = x + d - B w).
      { replace (x + d) with ((x + d - B w) + 1 * B w) at 1 by ring. rewrite Z_mod_plus_full. apply Z.mod_small. lia. }
      rewrite E. replace (x + B w * uval w r + d) with ((x + d - B w) + B w * (uval w r + 1)) by ring.
      rewrite Z.rem_mul_r by lia.
      rewrite (Z.mul_comm (B w) (uval w r + 1)), Z_mod_plus_full, Z.div_add by lia.
      rewrite (Z.mod_small (x + d - B w)), (Z.div_small (x + d - B w)) by lia. rewrite Z.add_0_l. reflexivity.
    + rewrite (Z.mod_small (x + d)) by lia. rewrite Z.add_0_r, (Z.mod_small (uval w r)) by lia.
      rewrite Z.mod_small by nia. lia.
Qed.

(* ================= zone_ok on the model ================= *)

Lemma UMAX_spec w n : 0 < w -> wf w n (UMAX w n) /\ uval w (UMAX w n) = Mod w n - 1.
Proof.
  intros Hw. unfold UMAX, u_max. pose proof (B_pos w ltac:(lia)) as HB. induction n as [|n [IW IU]]; cbn [repeat uval].
  - split; [apply wf_nil | rewrite Mod_0; reflexivity].
  - split; [apply wf_cons; split; [unfold digit_ok; lia | exact IW]|].
    rewrite IU, Mod_S by lia. ring.
Qed.

(* (MAX - range + 1) % range, whenever it is computed (no panic) *)
Lemma ints_to_reject_spec (PS : wrapping_sub_spec) (PR : rem_spec) dbg w n range z :
  0 < w -> (0 < n)%nat -> wf w n range -> 0 < uval w range ->
  ints_to_reject dbg w range = Ret z ->
  wf w n z /\ uval w z = (Mod w n - 1 - uval w range + 1) mod uval w range.
Proof.
  intros Hw Hn Hr Hpos H. unfold ints_to_reject in H. rewrite (wf_length _ _ _ Hr) in H.
  destruct (UMAX_spec w n Hw) as [WM EM].
  pose proof (uval_bounds w n range ltac:(lia) Hr) as Br. pose proof (Mod_pos w n ltac:(lia)) as HM.
  destruct (U_sub dbg w (UMAX w n) range) as [t|] eqn:Et; cbn [obind] in H; [|discriminate].
  apply U_sub_ret in Et. subst t.
  destruct (PS w n (UMAX w n) range Hw WM Hr) as [Wt Eu]. rewrite EM in Eu.
  rewrite (Z.mod_small (Mod w n - 1 - uval w range)) in Eu by lia.
  assert (Hone : digit_ok w 1) by (unfold digit_ok; pose proof (B_ge_2 w Hw); lia).
  destruct (U_add_digit_spec w n _ 1 Hw Hn Wt Hone) as (t1 & E1 & W1 & U1).
  rewrite E1 in H. cbn [obind] in H. rewrite Eu in U1.
  rewrite (Z.mod_small (Mod w n - 1 - uval w range + 1)) in U1 by lia.
  destruct (PR w n t1 range Hw W1 Hr ltac:(lia)) as (r & Er & Wr & Ur).
  rewrite Er in H. inversion H; subst. split; [exact Wr|]. rewrite Ur, U1. reflexivity.
Qed.

Lemma sub_from_MAX (PS : wrapping_sub_spec) dbg w n z zone :
  0 < w -> wf w n z -> U_sub dbg w (UMAX w n) z = Ret zone ->
  wf w n zone /\ uval w zone = Mod w n - 1 - uval w z.
Proof.
  intros Hw Hz H. apply U_sub_ret in H. subst zone.
  destruct (UMAX_spec w n Hw) as [WM EM].
  destruct (PS w n (UMAX w n) z Hw WM Hz) as [Wt Eu].
  pose proof (uval_bounds w n z ltac:(lia) Hz).
  split; [exact Wt|]. rewrite Eu, EM. apply Z.mod_small. lia.
Qed.

Lemma U_shl_small dbg w ds k t : 0 <= k < bits w (length ds) -> U_shl dbg w ds k = Ret t -> t = shl_internal w ds k.
Proof.
  intros Hk. unfold U_shl, U_strict_shl, U_checked_shl, U_wrapping_shl, U_overflowing_shl, option_expect.
  destruct (Z.leb_spec (bits w (length ds)) k) as [Hle|Hgt]; [lia|].
  destruct dbg; intros Heq; inversion Heq; reflexivity.
Qed.

(* zone_ok for sample_single_inclusive: whichever formula is used, zone + 1 = range * q <= 2^BITS *)
Theorem single_zone_ok (PS : wrapping_sub_spec) (PR : rem_spec) (PSH : shl_spec) (PLZ : leading_zeros_spec)
    dbg w n range zone :
  0 < w -> (0 < n)%nat -> wf w n range -> 0 < uval w range ->
  single_zone dbg w range = Ret zone ->
  wf w n zone /\ 0 <= uval w zone < Mod w n /\
  exists q, uval w zone + 1 = uval w range * q /\
            (q = Mod w n / uval w range \/ q = 2 ^ (bits w n - bitlen (uval w range))).
Proof.
  intros Hw Hn Hr Hpos H. unfold single_zone in H. rewrite (wf_length _ _ _ Hr) in H.
  pose proof (uval_bounds w n range ltac:(lia) Hr) as Br. pose proof (Mod_pos w n ltac:(lia)) as HM.
  destruct (bits_of w (UMAX w n) <=? 16).
  - destruct (ints_to_reject dbg w range) as [z|] eqn:Ez; cbn [obind] in H; [|discriminate].
    destruct (ints_to_reject_spec PS PR dbg w n range z Hw Hn Hr Hpos Ez) as [Wz Uz].
    destruct (sub_from_MAX PS dbg w n z zone Hw Wz H) as [Wzone Uzone].
    destruct (zone_ok_rem (Mod w n) (uval w range) Hpos ltac:(lia)) as (Z1 & Z2 & _).
    rewrite <- Uz, <- Uzone in Z1, Z2.
    split; [exact Wzone|]. split; [exact Z2|]. exists (Mod w n / uval w range). auto.
  - destruct (U_shl dbg w range (leading_zeros w range)) as [t|] eqn:Et; cbn [obind] in H; [|discriminate].
    inversion H; subst zone. clear H.
    rewrite (PLZ w n range Hw Hr) in Et.
    assert (Ebl : bitlen (uval w range) = Z.log2 (uval w range) + 1).
    { unfold bitlen. destruct (Z.eqb_spec (uval w range) 0); [lia | reflexivity]. }
    destruct (zone_ok_shift (bits w n) (uval w range) Hpos ltac:(unfold bits; apply Br) ltac:(unfold bits; lia))
      as (L0 & Z1 & Z2 & _).
    rewrite <- Ebl in L0, Z1, Z2.
    assert (Hlz : 0 <= bits w n - bitlen (uval w range) < bits w (length range)).
    { rewrite (wf_length _ _ _ Hr). pose proof (Z.log2_nonneg (uval w range)). lia. }
    apply U_shl_small in Et; [|exact Hlz]. subst t.
    destruct (PSH w n range _ Hw Hr ltac:(rewrite (wf_length _ _ _ Hr) in Hlz; exact Hlz)) as [Wt Ut].
    destruct (PS w n _ (ONE n) Hw Wt (ONE_wf w n Hw)) as [Wz Uz].
    rewrite ONE_uval in Uz by exact Hn. rewrite Ut in Uz.
    unfold Mod, bits in *.
    rewrite <- Uz in Z1, Z2.
    split; [exact Wz|]. split; [exact Z2|]. eexists. split; [exact Z1|]. right. reflexivity.
Qed.

(* zone_ok for Uniform::sample: z as stored by new_inclusive, zone = MAX - z *)
Theorem uniform_zone_ok (PS : wrapping_sub_spec) (PR : rem_spec) sg dbg w n low high u zone :
  0 < w -> (0 < n)%nat -> wf w n low -> wf w n (range_of sg w low high) -> 0 < uval w (range_of sg w low high) ->
  uniform_new_inclusive sg dbg w low high = Ret u ->
  U_sub dbg w (UMAX w (length (u_range u))) (u_z u) = Ret zone ->
  wf w n zone /\ 0 <= uval w zone < Mod w n /\
  uval w zone + 1 = uval w (u_range u) * (Mod w n / uval w (u_range u)).
Proof.
  intros Hw Hn Hl Hr Hpos Hu Hz. unfold uniform_new_inclusive in Hu.
  destruct (negb (ty_le sg w low high)); [discriminate|].
  set (range := range_of sg w low high) in *.
  assert (Enz : is_zero range = false).
  { destruct (is_zero range) eqn:E; [|reflexivity]. apply (is_zero_uval w) in E; [lia | lia | apply Hr]. }
  rewrite Enz in Hu. cbn [negb] in Hu.
  destruct (ints_to_reject dbg w range) as [z|] eqn:Ez; cbn [obind] in Hu; [|discriminate].
  inversion Hu; subst u. cbn [u_range u_z] in *.
  rewrite (wf_length _ _ _ Hr) in Hz.
  destruct (ints_to_reject_spec PS PR dbg w n range z Hw Hn Hr Hpos Ez) as [Wz Uz].
  destruct (sub_from_MAX PS dbg w n z zone Hw Wz Hz) as [Wzone Uzone].
  pose proof (uval_bounds w n range ltac:(lia) Hr) as Br.
  destruct (zone_ok_rem (Mod w n) (uval w range) Hpos ltac:(lia)) as (Z1 & Z2 & _).
  rewrite <- Uz, <- Uzone in Z1, Z2. auto.
Qed.

(* ================= accept_bij on the model ================= *)

(* C07's fact, proved here: BUint comparison = comparison of the values *)
Lemma ucmp_value w : 0 < w -> forall n a b, wf w n a -> wf w n b -> ucmp a b = (uval w a ?= uval w b).
Proof.
  intros Hw. induction n as [|n IH]; intros a b Ha Hb.
  - apply wf_inv_0 in Ha, Hb; subst. reflexivity.
  - destruct (wf_inv_S _ _ _ Ha) as (x & a' & -> & Hx & Ha').
    destruct (wf_inv_S _ _ _ Hb) as (y & b' & -> & Hy & Hb').
    cbn [ucmp uval]. rewrite (IH a' b' Ha' Hb').
    pose proof (B_pos w ltac:(lia)) as HB. unfold digit_ok in *.
    destruct (Z.compare_spec (uval w a') (uval w b')) as [E|E|E].
    + rewrite E. destruct (Z.ltb_spec y x); [symmetry; apply Z.compare_gt_iff; lia|].
      destruct (Z.ltb_spec x y); [symmetry; apply Z.compare_lt_iff; lia|].
      symmetry; apply Z.compare_eq_iff; lia.
    + symmetry; apply Z.compare_lt_iff; nia.
    + symmetry; apply Z.compare_gt_iff; nia.
Qed.

(* what one loop iteration decides about a word v, in terms of values *)
Lemma word_decision (PW : widening_mul_spec) w n v range zone :
  0 < w -> wf w n v -> wf w n range -> wf w n zone ->
  let M := Mod w n in
  wf w n (snd (U_widening_mul w v range)) /\
  uval w (snd (U_widening_mul w v range)) = hi_of M (uval w range) (uval w v) /\
  (cmp_le (ucmp (fst (U_widening_mul w v range)) zone) = true <->
   lo_of M (uval w range) (uval w v) <= uval w zone).
Proof.
  intros Hw Hv Hr Hz M. destruct (PW w n v range Hw Hv Hr) as (Wlo & Whi & E).
  pose proof (uval_bounds w n _ ltac:(lia) Wlo) as Blo. pose proof (uval_bounds w n _ ltac:(lia) Whi) as Bhi.
  pose proof (Mod_pos w n ltac:(lia)) as HM. fold M in E, Blo, Bhi, HM.
  set (lo := uval w (fst (U_widening_mul w v range))) in *.
  set (hi := uval w (snd (U_widening_mul w v range))) in *.
  assert (Ehi : hi = hi_of M (uval w range) (uval w v)).
  { unfold hi_of. rewrite <- E. rewrite Z.mul_comm, Z.div_add by lia. rewrite Z.div_small by lia. lia. }
  assert (Elo : lo = lo_of M (uval w range) (uval w v)).
  { unfold lo_of. rewrite <- E. rewrite Z.mul_comm, Z_mod_plus_full. symmetry. apply Z.mod_small. lia. }
  split; [exact Whi|]. split; [exact Ehi|].
  rewrite (ucmp_value w Hw n _ zone Wlo Hz). fold lo. rewrite <- Elo.
  unfold cmp_le. destruct (Z.compare_spec lo (uval w zone)); split; intros; try lia; try discriminate; reflexivity.
Qed.

(* accept_bij for the model: the words (digit arrays) that one loop iteration accepts with offset h are
   exactly those whose value lies in [v0(h), v0(h) + q) — q of them, for every h < range, every BITS *)
Theorem model_accept_bij (PW : widening_mul_spec) w n range zone q :
  0 < w -> wf w n range -> wf w n zone -> 0 < uval w range ->
  uval w zone + 1 = uval w range * q ->
  forall h, 0 <= h < uval w range ->
    let M := Mod w n in
    let v0 := v0_of M (uval w range) h in
    (0 <= v0 /\ v0 + q <= M) /\
    forall v, wf w n v ->
      ((cmp_le (ucmp (fst (U_widening_mul w v range)) zone) = true /\
        uval w (snd (U_widening_mul w v range)) = h) <-> v0 <= uval w v < v0 + q).
Proof.
  intros Hw Hr Hz Hpos Hq h Hh M v0.
  pose proof (uval_bounds w n range ltac:(lia) Hr) as Br. pose proof (uval_bounds w n zone ltac:(lia) Hz) as Bz.
  fold M in Br, Bz.
  destruct (accept_bij M (uval w range) (uval w zone) q Hpos ltac:(lia) Hq Bz h Hh) as [Hb Hiff].
  split; [exact Hb|]. intros v Hv.
  destruct (word_decision PW w n v range zone Hw Hv Hr Hz) as (_ & Ehi & Elo). fold M in Ehi, Elo.
  rewrite Elo, Ehi. apply Hiff. apply (uval_bounds w n v ltac:(lia) Hv).
Qed.

(* first iteration of the loop, spelled out *)
Lemma sample_loop_first f sg w low range zone s v rest :
  U_standard w (length low) s = RVal v rest ->
  sample_loop (S f) sg w low range zone s =
    if cmp_le (ucmp (fst (U_widening_mul w v range)) zone)
    then RVal (ty_wrapping_add sg w low (snd (U_widening_mul w v range))) rest
    else sample_loop f sg w low range zone rest.
Proof. intros H. cbn [sample_loop]. rewrite H. destruct (U_widening_mul w v range); reflexivity. Qed.

(* ================= fuel ================= *)

Lemma sample_loop_fuel sg w low range zone : (0 < BYTES w (length low))%nat ->
  forall fuel s, (length s < fuel)%nat -> sample_loop fuel sg w low range zone s <> ROutOfFuel.
Proof.
  intros HB. induction fuel as [|f IH]; intros s Hs; [lia|]. cbn [sample_loop].
  destruct (Nat.lt_ge_cases (length s) (BYTES w (length low))) as [Hsh|Hen].
  - rewrite U_standard_short by exact Hsh. discriminate.
  - rewrite U_standard_enough by exact Hen.
    destruct (U_widening_mul w _ range) as [lo hi].
    destruct (cmp_le (ucmp lo zone)); [discriminate|].
    apply IH. rewrite skipn_length. lia.
Qed.

Theorem fuel_suffices sg w low range zone s : (0 < BYTES w (length low))%nat ->
  sample_loop (fuel_for s) sg w low range zone s <> ROutOfFuel.
Proof. intros H. apply sample_loop_fuel; [exact H | unfold fuel_for; lia]. Qed.

(* ================= unbiased by construction: preimages of every value of the range ================= *)

(* what one iteration of the rejection loop does with the word v *)
Definition one_draw (sg : bool) (w : Z) (low range zone v : list Z) : option (list Z) :=
  if cmp_le (ucmp (fst (U_widening_mul w v range)) zone)
  then Some (ty_wrapping_add sg w low (snd (U_widening_mul w v range))) else None.

Lemma sample_loop_one_draw f sg w low range zone s v rest :
  U_standard w (length low) s = RVal v rest ->
  sample_loop (S f) sg w low range zone s =
    match one_draw sg w low range zone v with
    | Some r => RVal r rest
    | None => sample_loop f sg w low range zone rest
    end.
Proof.
  intros H. rewrite (sample_loop_first f sg w low range zone s v rest H). unfold one_draw.
  destruct (cmp_le (ucmp (fst (U_widening_mul w v range)) zone)); reflexivity.
Qed.

(* For every value t of [low, high] (in the type's own reading, signed ranges spanning zero included),
   the words v on which one iteration returns t are exactly v0(t - low) .. v0(t - low) + q - 1:
   every value of the range has exactly q accepted preimages, whatever BITS is. *)
Theorem one_draw_preimages (PW : widening_mul_spec) (PA : wrapping_add_spec) (PS : wrapping_sub_spec)
    sg w n low high zone q :
  0 < w -> (0 < n)%nat -> wf w n low -> wf w n high -> wf w n zone ->
  tval sg w low <= tval sg w high ->
  let range := range_of sg w low high in
  uval w range <> 0 ->
  uval w zone + 1 = uval w range * q ->
  forall t, tval sg w low <= t <= tval sg w high ->
    let v0 := v0_of (Mod w n) (uval w range) (t - tval sg w low) in
    (0 <= v0 /\ v0 + q <= Mod w n) /\
    forall v, wf w n v ->
      ((exists r, one_draw sg w low range zone v = Some r /\ tval sg w r = t) <-> v0 <= uval w v < v0 + q).
Proof.
  intros Hw Hn Hl Hh Hz Hle range Hnz Hq t Ht v0.
  destruct (range_of_spec PA PS sg w n low high Hw Hn Hl Hh) as [Wrg Er]. fold range in Wrg, Er.
  pose proof (uval_bounds w n range ltac:(lia) Wrg) as Br. pose proof (Mod_pos w n ltac:(lia)) as HM.
  pose proof (tval_window sg w n low Hw Hn Hl) as Wl. pose proof (tval_window sg w n high Hw Hn Hh) as Wh.
  assert (Erange : uval w range = tval sg w high - tval sg w low + 1).
  { rewrite Er in *. destruct (Z.eq_dec (tval sg w high - tval sg w low + 1) (Mod w n)) as [E|E].
    - rewrite E, Z_mod_same_full in Hnz. contradiction.
    - apply Z.mod_small. lia. }
  assert (Hh' : 0 <= t - tval sg w low < uval w range) by lia.
  destruct (model_accept_bij PW w n range zone q Hw Wrg Hz ltac:(lia) Hq (t - tval sg w low) Hh') as [Hb Hiff].
  split; [exact Hb|]. intros v Hv. unfold v0. rewrite <- (Hiff v Hv). clear Hiff.
  destruct (PW w n v range Hw Hv Wrg) as (Wlo & Whi & Eprod).
  pose proof (uval_bounds w n _ ltac:(lia) Whi) as Bhi. pose proof (uval_bounds w n _ ltac:(lia) Wlo) as Blo.
  pose proof (uval_bounds w n v ltac:(lia) Hv) as Bv.
  assert (Hhi : uval w (snd (U_widening_mul w v range)) < uval w range) by nia.
  (* the value of low + hi in the type's reading *)
  assert (Eval : tval sg w (ty_wrapping_add sg w low (snd (U_widening_mul w v range)))
                 = tval sg w low + uval w (snd (U_widening_mul w v range))).
  { rewrite ty_wrapping_add_U. destruct (PA w n low _ Hw Hl Whi) as [Wr Eu].
    apply (tval_unique sg w n _ _ Hw Hn Wr); [lia|].
    rewrite Eu, Z.mod_mod by lia.
    destruct (tval_shift sg w n low Hl) as [el Eel]. rewrite Eel.
    replace (uval w low - el * Mod w n + uval w (snd (U_widening_mul w v range)))
      with (uval w low + uval w (snd (U_widening_mul w v range)) + (- el) * Mod w n) by ring.
    rewrite Z_mod_plus_full. reflexivity. }
  unfold one_draw. destruct (cmp_le (ucmp (fst (U_widening_mul w v range)) zone)).
  - split.
    + intros (r & Hr & Ht').
      assert (Hr' : ty_wrapping_add sg w low (snd (U_widening_mul w v range)) = r) by congruence.
      rewrite <- Hr', Eval in Ht'. split; [reflexivity | lia].
    + intros [_ Hhi']. eexists. split; [reflexivity|]. rewrite Eval. lia.
  - split; [intros (r & Hr & _); discriminate | intros [Hf _]; discriminate].
Qed.

(* the two zones the code computes, plugged into one_draw_preimages *)
Definition equal_preimages (sg : bool) (w : Z) (n : nat) (low high zone : list Z) : Prop :=
  let range := range_of sg w low high in
  exists q, 0 < q /\
    forall t, tval sg w low <= t <= tval sg w high ->
      let v0 := v0_of (Mod w n) (uval w range) (t - tval sg w low) in
      (0 <= v0 /\ v0 + q <= Mod w n) /\
      forall v, wf w n v ->
        ((exists r, one_draw sg w low range zone v = Some r /\ tval sg w r = t) <-> v0 <= uval w v < v0 + q).

Theorem sample_single_inclusive_unbiased
    (PW : widening_mul_spec) (PA : wrapping_add_spec) (PS : wrapping_sub_spec)
    (PR : rem_spec) (PSH : shl_spec) (PLZ : leading_zeros_spec) sg dbg w n low high zone :
  0 < w -> (0 < n)%nat -> wf w n low -> wf w n high ->
  tval sg w low <= tval sg w high ->
  uval w (range_of sg w low high) <> 0 ->
  single_zone dbg w (range_of sg w low high) = Ret zone ->
  equal_preimages sg w n low high zone.
Proof.
  intros Hw Hn Hl Hh Hle Hnz Hz.
  destruct (range_of_spec PA PS sg w n low high Hw Hn Hl Hh) as [Wrg _].
  pose proof (uval_bounds w n _ ltac:(lia) Wrg) as Br.
  destruct (single_zone_ok PS PR PSH PLZ dbg w n _ zone Hw Hn Wrg ltac:(lia) Hz) as (Wz & Bz & q & Eq & _).
  exists q. split; [nia|]. intros t Ht.
  exact (one_draw_preimages PW PA PS sg w n low high zone q Hw Hn Hl Hh Wz Hle Hnz Eq t Ht).
Qed.

Theorem uniform_sample_unbiased
    (PW : widening_mul_spec) (PA : wrapping_add_spec) (PS : wrapping_sub_spec) (PR : rem_spec)
    sg dbg w n low high u zone :
  0 < w -> (0 < n)%nat -> wf w n low -> wf w n high ->
  tval sg w low <= tval sg w high ->
  uval w (range_of sg w low high) <> 0 ->
  uniform_new_inclusive sg dbg w low high = Ret u ->
  U_sub dbg w (UMAX w (length (u_range u))) (u_z u) = Ret zone ->
  equal_preimages sg w n low high zone.
Proof.
  intros Hw Hn Hl Hh Hle Hnz Hu Hz.
  destruct (range_of_spec PA PS sg w n low high Hw Hn Hl Hh) as [Wrg _].
  pose proof (uval_bounds w n _ ltac:(lia) Wrg) as Br.
  destruct (uniform_zone_ok PS PR sg dbg w n low high u zone Hw Hn Hl Wrg ltac:(lia) Hu Hz) as (Wz & Bz & Eq).
  destruct (uniform_new_inclusive_inv sg dbg w low high u Hu) as [_ E2]. rewrite E2 in Eq.
  exists (Mod w n / uval w (range_of sg w low high)). split; [nia|]. intros t Ht.
  exact (one_draw_preimages PW PA PS sg w n low high zone _ Hw Hn Hl Hh Wz Hle Hnz Eq t Ht).
Qed.

(* ================= readable corollaries: unsigned = uval, signed = sval ================= *)

Definition range_premises : Prop := widening_mul_spec /\ wrapping_add_spec /\ wrapping_sub_spec.

Corollary U_gen_range_inclusive_in_range : range_premises ->
  forall fuel dbg w n low high s r rest,
    0 < w -> (0 < n)%nat -> wf w n low -> wf w n high -> bytes_ok s ->
    uval w low <= uval w high ->
    gen_range_inclusive fuel false dbg w low high s = RVal r rest ->
    wf w n r /\ uval w low <= uval w r <= uval w high.
Proof.
  intros (PW & PA & PS) fuel dbg w n low high s r rest.
  exact (gen_range_inclusive_in_range PW PA PS fuel false dbg w n low high s r rest).
Qed.

Corollary I_gen_range_inclusive_in_range : range_premises ->
  forall fuel dbg w n low high s r rest,
    0 < w -> (0 < n)%nat -> wf w n low -> wf w n high -> bytes_ok s ->
    sval w low <= sval w high ->
    gen_range_inclusive fuel true dbg w low high s = RVal r rest ->
    wf w n r /\ sval w low <= sval w r <= sval w high.
Proof.
  intros (PW & PA & PS) fuel dbg w n low high s r rest.
  exact (gen_range_inclusive_in_range PW PA PS fuel true dbg w n low high s r rest).
Qed.

Corollary U_gen_range_in_range : range_premises -> I_overflowing_sub_spec ->
  forall fuel dbg w n low high s r rest,
    0 < w -> (0 < n)%nat -> wf w n low -> wf w n high -> bytes_ok s ->
    uval w low < uval w high ->
    gen_range fuel false dbg w low high s = RVal r rest ->
    wf w n r /\ uval w low <= uval w r < uval w high.
Proof.
  intros (PW & PA & PS) PIS fuel dbg w n low high s r rest.
  exact (gen_range_in_range PW PA PS PIS fuel false dbg w n low high s r rest).
Qed.

Corollary I_gen_range_in_range : range_premises -> I_overflowing_sub_spec ->
  forall fuel dbg w n low high s r rest,
    0 < w -> (0 < n)%nat -> wf w n low -> wf w n high -> bytes_ok s ->
    sval w low < sval w high ->
    gen_range fuel true dbg w low high s = RVal r rest ->
    wf w n r /\ sval w low <= sval w r < sval w high.
Proof.
  intros (PW & PA & PS) PIS fuel dbg w n low high s r rest.
  exact (gen_range_in_range PW PA PS PIS fuel true dbg w n low high s r rest).
Qed.

(* signed Standard and signed fills are the unsigned ones on the bit pattern *)
Lemma I_standard_is_U w n s : I_standard w n s = U_standard w n s.
Proof. reflexivity. Qed.

(* ================= no panic, no fuel exhaustion: a draw returns a value or runs the script dry ================= *)

Lemma sample_loop_no_panic sg w low range zone fuel s : sample_loop fuel sg w low range zone s <> RPanic.
Proof.
  revert s. induction fuel as [|f IH]; intros s; cbn [sample_loop]; [discriminate|].
  unfold U_standard. destruct (try_fill_bytes _ s) as [[bs rest]|]; [|discriminate].
  destruct (U_widening_mul w _ range) as [lo hi]. destruct (cmp_le (ucmp lo zone)); [discriminate | apply IH].
Qed.

Lemma ty_standard_no_panic sg w n s : ty_standard sg w n s <> RPanic.
Proof. rewrite ty_standard_U. unfold U_standard. destruct (try_fill_bytes _ s) as [[bs rest]|]; discriminate. Qed.

Lemma U_sub_total (PF : U_overflowing_sub_flag_spec) dbg w n a b :
  0 < w -> wf w n a -> wf w n b -> uval w b <= uval w a -> U_sub dbg w a b = Ret (U_wrapping_sub w a b).
Proof.
  intros Hw Ha Hb Hle. unfold U_sub, U_strict_sub, U_checked_sub, tuple_to_option, option_expect, U_wrapping_sub.
  destruct dbg; [|reflexivity]. rewrite (PF w n a b Hw Ha Hb).
  destruct (Z.ltb_spec (uval w a) (uval w b)); [lia | reflexivity].
Qed.

Lemma ty_le_true (PI : icmp_spec) sg w n a b : 0 < w -> (0 < n)%nat -> wf w n a -> wf w n b ->
  tval sg w a <= tval sg w b -> ty_le sg w a b = true.
Proof.
  intros Hw Hn Ha Hb H. unfold ty_le. destruct sg; cbn [tval] in H.
  - rewrite (PI w n a b Hw Hn Ha Hb). unfold cmp_le. destruct (Z.compare_spec (sval w a) (sval w b)); try reflexivity; lia.
  - rewrite (ucmp_value w Hw n a b Ha Hb). unfold cmp_le. destruct (Z.compare_spec (uval w a) (uval w b)); try reflexivity; lia.
Qed.

Lemma ty_lt_true (PI : icmp_spec) sg w n a b : 0 < w -> (0 < n)%nat -> wf w n a -> wf w n b ->
  tval sg w a < tval sg w b -> ty_lt sg w a b = true.
Proof.
  intros Hw Hn Ha Hb H. unfold ty_lt. destruct sg; cbn [tval] in H.
  - rewrite (PI w n a b Hw Hn Ha Hb). unfold cmp_lt. destruct (Z.compare_spec (sval w a) (sval w b)); try reflexivity; lia.
  - rewrite (ucmp_value w Hw n a b Ha Hb). unfold cmp_lt. destruct (Z.compare_spec (uval w a) (uval w b)); try reflexivity; lia.
Qed.

Lemma ints_to_reject_total (PS : wrapping_sub_spec) (PR : rem_spec) (PF : U_overflowing_sub_flag_spec)
    dbg w n range : 0 < w -> (0 < n)%nat -> wf w n range -> 0 < uval w range ->
  exists z, ints_to_reject dbg w range = Ret z.
Proof.
  intros Hw Hn Hr Hpos. unfold ints_to_reject. rewrite (wf_length _ _ _ Hr).
  destruct (UMAX_spec w n Hw) as [WM EM].
  pose proof (uval_bounds w n range ltac:(lia) Hr) as Br.
  rewrite (U_sub_total PF dbg w n _ _ Hw WM Hr ltac:(lia)). cbn [obind].
  destruct (PS w n (UMAX w n) range Hw WM Hr) as [Wt _].
  assert (Hone : digit_ok w 1) by (unfold digit_ok; pose proof (B_ge_2 w Hw); lia).
  destruct (U_add_digit_spec w n _ 1 Hw Hn Wt Hone) as (t1 & E1 & W1 & _).
  rewrite E1. cbn [obind].
  destruct (PR w n t1 range Hw W1 Hr ltac:(lia)) as (r & Er & _). exists r. exact Er.
Qed.

Lemma single_zone_total (PS : wrapping_sub_spec) (PR : rem_spec) (PF : U_overflowing_sub_flag_spec)
    (PLZ : leading_zeros_spec) dbg w n range : 0 < w -> (0 < n)%nat -> wf w n range -> 0 < uval w range ->
  exists zone, single_zone dbg w range = Ret zone.
Proof.
  intros Hw Hn Hr Hpos. unfold single_zone. rewrite (wf_length _ _ _ Hr).
  pose proof (uval_bounds w n range ltac:(lia) Hr) as Br.
  destruct (bits_of w (UMAX w n) <=? 16).
  - destruct (ints_to_reject_total PS PR PF dbg w n range Hw Hn Hr Hpos) as [z Ez].
    rewrite Ez. cbn [obind].
    destruct (ints_to_reject_spec PS PR dbg w n range z Hw Hn Hr Hpos Ez) as [Wz Uz].
    destruct (UMAX_spec w n Hw) as [WM EM].
    pose proof (Z.mod_pos_bound (Mod w n - 1 - uval w range + 1) (uval w range) Hpos).
    eexists. apply (U_sub_total PF dbg w n _ _ Hw WM Wz). lia.
  - rewrite (PLZ w n range Hw Hr).
    assert (Ebl : bitlen (uval w range) = Z.log2 (uval w range) + 1).
    { unfold bitlen. destruct (Z.eqb_spec (uval w range) 0); [lia | reflexivity]. }
    assert (Hlt : Z.log2 (uval w range) < bits w n).
    { apply Z.log2_lt_pow2; [lia | apply Br]. }
    pose proof (Z.log2_nonneg (uval w range)).
    unfold U_shl, U_strict_shl, U_checked_shl, U_wrapping_shl, U_overflowing_shl, option_expect.
    rewrite (wf_length _ _ _ Hr).
    destruct (Z.leb_spec (bits w n) (bits w n - bitlen (uval w range))) as [Hle|Hgt]; [lia|].
    destruct dbg; cbn [obind]; eexists; reflexivity.
Qed.

(* total form of in_range for sample_single_inclusive: with the fuel the run table passes, on any stream,
   the outcome is a value inside [low, high] or the stream ran dry — never a panic, never out of fuel *)
Theorem sample_single_inclusive_total
    (PW : widening_mul_spec) (PA : wrapping_add_spec) (PS : wrapping_sub_spec) (PR : rem_spec)
    (PLZ : leading_zeros_spec) (PF : U_overflowing_sub_flag_spec) (PI : icmp_spec)
    sg dbg w n low high s :
  0 < w -> (0 < n)%nat -> (0 < BYTES w n)%nat -> wf w n low -> wf w n high -> bytes_ok s ->
  tval sg w low <= tval sg w high ->
  sample_single_inclusive (fuel_for s) sg dbg w low high s = ROutOfStream \/
  exists r rest, sample_single_inclusive (fuel_for s) sg dbg w low high s = RVal r rest /\
                 wf w n r /\ tval sg w low <= tval sg w r <= tval sg w high.
Proof.
  intros Hw Hn HB Hl Hh Hb Hle.
  destruct (sample_single_inclusive (fuel_for s) sg dbg w low high s) as [r rest| | |] eqn:E.
  - right. exists r, rest. split; [reflexivity|].
    exact (sample_single_inclusive_in_range PW PA PS (fuel_for s) sg dbg w n low high s r rest Hw Hn Hl Hh Hb Hle E).
  - exfalso. unfold sample_single_inclusive in E.
    rewrite (ty_le_true PI sg w n low high Hw Hn Hl Hh Hle) in E. cbn [negb] in E.
    destruct (range_of_spec PA PS sg w n low high Hw Hn Hl Hh) as [Wrg _].
    destruct (is_zero (range_of sg w low high)) eqn:Ez.
    + exact (ty_standard_no_panic _ _ _ _ E).
    + assert (0 < uval w (range_of sg w low high)).
      { pose proof (uval_bounds w n _ ltac:(lia) Wrg).
        destruct (Z.eq_dec (uval w (range_of sg w low high)) 0) as [E0|]; [|lia].
        apply (is_zero_uval w) in E0; [congruence | lia | apply Wrg]. }
      destruct (single_zone_total PS PR PF PLZ dbg w n _ Hw Hn Wrg H) as [zone Ezn].
      rewrite Ezn in E. exact (sample_loop_no_panic _ _ _ _ _ _ _ E).
  - left. reflexivity.
  - exfalso. unfold sample_single_inclusive in E.
    destruct (negb (ty_le sg w low high)); [discriminate|].
    destruct (is_zero (range_of sg w low high)).
    + rewrite ty_standard_U in E. unfold U_standard in E.
      destruct (try_fill_bytes _ s) as [[bs rest]|]; discriminate.
    + destruct (single_zone dbg w (range_of sg w low high)); [|discriminate].
      revert E. apply fuel_suffices. rewrite (wf_length _ _ _ Hl). exact HB.
Qed.

(* the same for the other entry points *)
Lemma rres_cases {A} (r : rres A) (P : A -> Prop) :
  r <> RPanic -> r <> ROutOfFuel -> (forall a rest, r = RVal a rest -> P a) ->
  r = ROutOfStream \/ exists a rest, r = RVal a rest /\ P a.
Proof.
  intros H1 H2 H3. destruct r as [a rest| | |]; [right; exists a, rest; split; [reflexivity | eapply H3; reflexivity] | congruence | left; reflexivity | congruence].
Qed.

Lemma range_pos w n range : 0 < w -> wf w n range -> is_zero range = false -> 0 < uval w range.
Proof.
  intros Hw Wrg Ez. pose proof (uval_bounds w n _ ltac:(lia) Wrg).
  destruct (Z.eq_dec (uval w range) 0) as [E0|]; [|lia].
  apply (is_zero_uval w) in E0; [congruence | lia | apply Wrg].
Qed.

Lemma sample_single_inclusive_no_panic
    (PA : wrapping_add_spec) (PS : wrapping_sub_spec) (PR : rem_spec)
    (PLZ : leading_zeros_spec) (PF : U_overflowing_sub_flag_spec) (PI : icmp_spec)
    fuel sg dbg w n low high s :
  0 < w -> (0 < n)%nat -> wf w n low -> wf w n high -> tval sg w low <= tval sg w high ->
  sample_single_inclusive fuel sg dbg w low high s <> RPanic.
Proof.
  intros Hw Hn Hl Hh Hle E. unfold sample_single_inclusive in E.
  rewrite (ty_le_true PI sg w n low high Hw Hn Hl Hh Hle) in E. cbn [negb] in E.
  destruct (range_of_spec PA PS sg w n low high Hw Hn Hl Hh) as [Wrg _].
  destruct (is_zero (range_of sg w low high)) eqn:Ez.
  - exact (ty_standard_no_panic _ _ _ _ E).
  - destruct (single_zone_total PS PR PF PLZ dbg w n _ Hw Hn Wrg (range_pos w n _ Hw Wrg Ez)) as [zone Ezn].
    rewrite Ezn in E. exact (sample_loop_no_panic _ _ _ _ _ _ _ E).
Qed.

Lemma sample_single_inclusive_no_fuel sg dbg w n low high s :
  (0 < BYTES w n)%nat -> length low = n ->
  sample_single_inclusive (fuel_for s) sg dbg w low high s <> ROutOfFuel.
Proof.
  intros HB Hl E. unfold sample_single_inclusive in E.
  destruct (negb (ty_le sg w low high)); [discriminate|].
  destruct (is_zero (range_of sg w low high)).
  - rewrite ty_standard_U in E. unfold U_standard in E.
    destruct (try_fill_bytes _ s) as [[bs rest]|]; discriminate.
  - destruct (single_zone dbg w (range_of sg w low high)); [|discriminate].
    revert E. apply fuel_suffices. rewrite Hl. exact HB.
Qed.

Lemma uniform_new_inclusive_sample_no_panic
    (PA : wrapping_add_spec) (PS : wrapping_sub_spec) (PR : rem_spec)
    (PF : U_overflowing_sub_flag_spec) (PI : icmp_spec)
    fuel sg dbg w n low high s :
  0 < w -> (0 < n)%nat -> wf w n low -> wf w n high -> tval sg w low <= tval sg w high ->
  uniform_new_inclusive_sample fuel sg dbg w low high s <> RPanic.
Proof.
  intros Hw Hn Hl Hh Hle E. unfold uniform_new_inclusive_sample, uniform_new_inclusive in E.
  rewrite (ty_le_true PI sg w n low high Hw Hn Hl Hh Hle) in E. cbn [negb] in E.
  destruct (range_of_spec PA PS sg w n low high Hw Hn Hl Hh) as [Wrg _].
  destruct (is_zero (range_of sg w low high)) eqn:Ez; cbn [negb obind] in E.
  - unfold uniform_sample in E. cbn [u_range u_low u_z] in E. rewrite Ez in E. cbn [negb] in E.
    exact (ty_standard_no_panic _ _ _ _ E).
  - pose proof (range_pos w n _ Hw Wrg Ez) as Hpos.
    destruct (ints_to_reject_total PS PR PF dbg w n _ Hw Hn Wrg Hpos) as [z Ezr].
    rewrite Ezr in E. cbn [obind] in E.
    unfold uniform_sample in E. cbn [u_range u_low u_z] in E. rewrite Ez in E. cbn [negb] in E.
    destruct (ints_to_reject_spec PS PR dbg w n _ z Hw Hn Wrg Hpos Ezr) as [Wz Uz].
    destruct (UMAX_spec w n Hw) as [WM EM].
    pose proof (uval_bounds w n z ltac:(lia) Wz).
    rewrite (wf_length _ _ _ Wrg) in E.
    rewrite (U_sub_total PF dbg w n _ _ Hw WM Wz ltac:(lia)) in E.
    exact (sample_loop_no_panic _ _ _ _ _ _ _ E).
Qed.

Lemma uniform_new_inclusive_sample_no_fuel sg dbg w n low high s :
  (0 < BYTES w n)%nat -> length low = n ->
  uniform_new_inclusive_sample (fuel_for s) sg dbg w low high s <> ROutOfFuel.
Proof.
  intros HB Hl E. unfold uniform_new_inclusive_sample in E.
  destruct (uniform_new_inclusive sg dbg w low high) as [u|] eqn:Eu; [|discriminate].
  destruct (uniform_new_inclusive_inv sg dbg w low high u Eu) as [E1 E2].
  unfold uniform_sample in E. rewrite E1 in E.
  destruct (negb (is_zero (u_range u))).
  - destruct (U_sub dbg w _ (u_z u)); [|discriminate].
    revert E. apply fuel_suffices. rewrite Hl. exact HB.
  - rewrite ty_standard_U in E. unfold U_standard in E.
    destruct (try_fill_bytes _ s) as [[bs rest]|]; discriminate.
Qed.

Theorem uniform_new_inclusive_sample_total
    (PW : widening_mul_spec) (PA : wrapping_add_spec) (PS : wrapping_sub_spec) (PR : rem_spec)
    (PF : U_overflowing_sub_flag_spec) (PI : icmp_spec)
    sg dbg w n low high s :
  0 < w -> (0 < n)%nat -> (0 < BYTES w n)%nat -> wf w n low -> wf w n high -> bytes_ok s ->
  tval sg w low <= tval sg w high ->
  uniform_new_inclusive_sample (fuel_for s) sg dbg w low high s = ROutOfStream \/
  exists r rest, uniform_new_inclusive_sample (fuel_for s) sg dbg w low high s = RVal r rest /\
                 (wf w n r /\ tval sg w low <= tval sg w r <= tval sg w high).
Proof.
  intros Hw Hn HB Hl Hh Hb Hle. apply rres_cases.
  - apply (uniform_new_inclusive_sample_no_panic PA PS PR PF PI _ sg dbg w n); assumption.
  - apply (uniform_new_inclusive_sample_no_fuel sg dbg w n); [exact HB | apply Hl].
  - intros r rest E.
    exact (uniform_new_inclusive_sample_in_range PW PA PS _ sg dbg w n low high s r rest Hw Hn Hl Hh Hb Hle E).
Qed.

(* exclusive forms: high - ONE does not panic in debug builds because low < high *)
Lemma ty_sub_one_total (PS : wrapping_sub_spec) (PF : U_overflowing_sub_flag_spec) (PFI : I_overflowing_sub_flag_spec)
    sg dbg w n low high :
  1 < w -> (0 < n)%nat -> wf w n low -> wf w n high -> tval sg w low < tval sg w high ->
  exists h1, ty_sub sg dbg w high (ONE (length low)) = Ret h1.
Proof.
  intros Hw1 Hn Hl Hh Hlt. assert (Hw : 0 < w) by lia. rewrite (wf_length _ _ _ Hl).
  assert (H4 : 4 <= Mod w n).
  { unfold Mod. change 4 with (2 ^ 2). apply Z.pow_le_mono_r; nia. }
  pose proof (ONE_wf w n Hw) as W1. pose proof (tval_window sg w n low Hw Hn Hl) as Wl.
  pose proof (tval_window sg w n high Hw Hn Hh) as Wh.
  unfold ty_sub. destruct sg; cbn [tval tmin] in *.
  - unfold I_sub, I_strict_sub, I_checked_sub, tuple_to_option, option_expect.
    destruct dbg; [|eexists; reflexivity].
    rewrite (PFI w n high (ONE n) Hw Hn Hh W1).
    assert (Es1 : sval w (ONE n) = 1).
    { unfold sval, to_signed. rewrite (wf_length _ _ _ W1), ONE_uval by exact Hn.
      pose proof (Mod_even w n Hw Hn). pose proof (Mod_pos w n ltac:(lia)).
      destruct (Z.ltb_spec 1 (Mod w n / 2)); [reflexivity|].
      lia. }
    rewrite Es1. pose proof (Mod_even w n Hw Hn).
    replace (inS (Mod w n) (sval w high - 1)) with true; [eexists; reflexivity|].
    symmetry. apply inS_true. lia.
  - eexists. apply (U_sub_total PF dbg w n _ _ Hw Hh W1). rewrite ONE_uval by exact Hn. lia.
Qed.

Theorem sample_single_total
    (PW : widening_mul_spec) (PA : wrapping_add_spec) (PS : wrapping_sub_spec) (PIS : I_overflowing_sub_spec)
    (PR : rem_spec) (PLZ : leading_zeros_spec) (PF : U_overflowing_sub_flag_spec)
    (PFI : I_overflowing_sub_flag_spec) (PI : icmp_spec)
    sg dbg w n low high s :
  1 < w -> (0 < n)%nat -> (0 < BYTES w n)%nat -> wf w n low -> wf w n high -> bytes_ok s ->
  tval sg w low < tval sg w high ->
  sample_single (fuel_for s) sg dbg w low high s = ROutOfStream \/
  exists r rest, sample_single (fuel_for s) sg dbg w low high s = RVal r rest /\
                 (wf w n r /\ tval sg w low <= tval sg w r < tval sg w high).
Proof.
  intros Hw1 Hn HB Hl Hh Hb Hlt. assert (Hw : 0 < w) by lia.
  destruct (ty_sub_one_total PS PF PFI sg dbg w n low high Hw1 Hn Hl Hh Hlt) as [h1 E1].
  destruct (ty_sub_one PW PA PS PIS sg dbg w n low high h1 Hw Hn Hl Hh Hlt E1) as [Wh Eh].
  apply rres_cases.
  - unfold sample_single. rewrite (ty_lt_true PI sg w n low high Hw Hn Hl Hh Hlt), E1. cbn [negb].
    apply (sample_single_inclusive_no_panic PA PS PR PLZ PF PI _ sg dbg w n); try assumption. lia.
  - unfold sample_single. rewrite (ty_lt_true PI sg w n low high Hw Hn Hl Hh Hlt), E1. cbn [negb].
    apply (sample_single_inclusive_no_fuel sg dbg w n); [exact HB | apply Hl].
  - intros r rest E.
    exact (sample_single_in_range PW PA PS PIS _ sg dbg w n low high s r rest Hw Hn Hl Hh Hb Hlt E).
Qed.

Theorem gen_range_total
    (PW : widening_mul_spec) (PA : wrapping_add_spec) (PS : wrapping_sub_spec) (PIS : I_overflowing_sub_spec)
    (PR : rem_spec) (PLZ : leading_zeros_spec) (PF : U_overflowing_sub_flag_spec)
    (PFI : I_overflowing_sub_flag_spec) (PI : icmp_spec)
    sg dbg w n low high s :
  1 < w -> (0 < n)%nat -> (0 < BYTES w n)%nat -> wf w n low -> wf w n high -> bytes_ok s ->
  tval sg w low < tval sg w high ->
  gen_range (fuel_for s) sg dbg w low high s = ROutOfStream \/
  exists r rest, gen_range (fuel_for s) sg dbg w low high s = RVal r rest /\
                 (wf w n r /\ tval sg w low <= tval sg w r < tval sg w high).
Proof.
  intros Hw1 Hn HB Hl Hh Hb Hlt. assert (Hw : 0 < w) by lia. unfold gen_range.
  rewrite (ty_lt_true PI sg w n low high Hw Hn Hl Hh Hlt). cbn [negb].
  apply (sample_single_total PW PA PS PIS PR PLZ PF PFI PI); assumption.
Qed.

Theorem gen_range_inclusive_total
    (PW : widening_mul_spec) (PA : wrapping_add_spec) (PS : wrapping_sub_spec) (PR : rem_spec)
    (PLZ : leading_zeros_spec) (PF : U_overflowing_sub_flag_spec) (PI : icmp_spec)
    sg dbg w n low high s :
  0 < w -> (0 < n)%nat -> (0 < BYTES w n)%nat -> wf w n low -> wf w n high -> bytes_ok s ->
  tval sg w low <= tval sg w high ->
  gen_range_inclusive (fuel_for s) sg dbg w low high s = ROutOfStream \/
  exists r rest, gen_range_inclusive (fuel_for s) sg dbg w low high s = RVal r rest /\
                 wf w n r /\ tval sg w low <= tval sg w r <= tval sg w high.
Proof.
  intros Hw Hn HB Hl Hh Hb Hle. unfold gen_range_inclusive.
  rewrite (ty_le_true PI sg w n low high Hw Hn Hl Hh Hle). cbn [negb].
  apply (sample_single_inclusive_total PW PA PS PR PLZ PF PI); assumption.
Qed.

Theorem uniform_new_sample_total
    (PW : widening_mul_spec) (PA : wrapping_add_spec) (PS : wrapping_sub_spec) (PIS : I_overflowing_sub_spec)
    (PR : rem_spec) (PF : U_overflowing_sub_flag_spec)
    (PFI : I_overflowing_sub_flag_spec) (PI : icmp_spec)
    sg dbg w n low high s :
  1 < w -> (0 < n)%nat -> (0 < BYTES w n)%nat -> wf w n low -> wf w n high -> bytes_ok s ->
  tval sg w low < tval sg w high ->
  uniform_new_sample (fuel_for s) sg dbg w low high s = ROutOfStream \/
  exists r rest, uniform_new_sample (fuel_for s) sg dbg w low high s = RVal r rest /\
                 (wf w n r /\ tval sg w low <= tval sg w r < tval sg w high).
Proof.
  intros Hw1 Hn HB Hl Hh Hb Hlt. assert (Hw : 0 < w) by lia.
  destruct (ty_sub_one_total PS PF PFI sg dbg w n low high Hw1 Hn Hl Hh Hlt) as [h1 E1].
  destruct (ty_sub_one PW PA PS PIS sg dbg w n low high h1 Hw Hn Hl Hh Hlt E1) as [Wh Eh].
  assert (Eq : uniform_new_sample (fuel_for s) sg dbg w low high s
               = uniform_new_inclusive_sample (fuel_for s) sg dbg w low h1 s).
  { unfold uniform_new_sample, uniform_new, uniform_new_inclusive_sample.
    rewrite (ty_lt_true PI sg w n low high Hw Hn Hl Hh Hlt), E1. reflexivity. }
  apply rres_cases.
  - rewrite Eq. apply (uniform_new_inclusive_sample_no_panic PA PS PR PF PI _ sg dbg w n); try assumption. lia.
  - rewrite Eq. apply (uniform_new_inclusive_sample_no_fuel sg dbg w n); [exact HB | apply Hl].
  - intros r rest E.
    exact (uniform_new_sample_in_range PW PA PS PIS _ sg dbg w n low high s r rest Hw Hn Hl Hh Hb Hlt E).
Qed.

(* Proofs/GlueTieC03.v — glue functions of C03 (div / rem families): generated (Generated/Glue.v) = hand-written model.
   Split out of Proofs/GlueTie.v so that an edit of one family's source breaks only that property's check. *)
From Bnum Require Import Base Prim.
From Bnum.Model Require Import Digit Core Shift AddSub Mul Div Bits Pow.
From Bnum.Generated Require Import Glue.
From Bnum.Proofs Require Import GlueTieCommon.

(* ---------- div / rem families ---------- *)
Lemma glue_U_div_rem : forall w a b, Glue.U_div_rem w a b = U_div_rem w a b.
Proof. glue_tac. Qed.
Lemma glue_U_checked_div : forall w a b, Glue.U_checked_div w a b = U_checked_div w a b.
Proof. glue_tac. Qed.
Lemma glue_U_checked_div_euclid : forall w a b, Glue.U_checked_div_euclid w a b = U_checked_div_euclid w a b.
Proof. glue_tac. Qed.
Lemma glue_U_checked_rem : forall w a b, Glue.U_checked_rem w a b = U_checked_rem w a b.
Proof. glue_tac. Qed.
Lemma glue_U_checked_rem_euclid : forall w a b, Glue.U_checked_rem_euclid w a b = U_checked_rem_euclid w a b.
Proof. glue_tac. Qed.
Lemma glue_U_wrapping_div : forall w a b, Glue.U_wrapping_div w a b = U_wrapping_div w a b.
Proof. glue_tac. Qed.
Lemma glue_U_wrapping_div_euclid : forall w a b, Glue.U_wrapping_div_euclid w a b = U_wrapping_div_euclid w a b.
Proof. glue_tac. Qed.
Lemma glue_U_wrapping_rem : forall w a b, Glue.U_wrapping_rem w a b = U_wrapping_rem w a b.
Proof. glue_tac. Qed.
Lemma glue_U_wrapping_rem_euclid : forall w a b, Glue.U_wrapping_rem_euclid w a b = U_wrapping_rem_euclid w a b.
Proof. glue_tac. Qed.
Lemma glue_U_saturating_div : forall w a b, Glue.U_saturating_div w a b = U_saturating_div w a b.
Proof. glue_tac. Qed.
Lemma glue_U_strict_div : forall w a b, Glue.U_strict_div w a b = U_strict_div w a b.
Proof. glue_tac. Qed.
Lemma glue_U_strict_div_euclid : forall w a b, Glue.U_strict_div_euclid w a b = U_div_euclid w a b.
Proof. glue_tac. Qed.
Lemma glue_U_strict_rem : forall w a b, Glue.U_strict_rem w a b = U_strict_rem w a b.
Proof. glue_tac. Qed.
Lemma glue_U_strict_rem_euclid : forall w a b, Glue.U_strict_rem_euclid w a b = U_rem_euclid w a b.
Proof. glue_tac. Qed.
Lemma glue_I_strict_div : forall dbg w a b, Glue.I_strict_div dbg w a b = I_strict_div dbg w a b.
Proof. glue_tac. Qed.
Lemma glue_I_strict_div_euclid : forall dbg w a b, Glue.I_strict_div_euclid dbg w a b = I_div_euclid dbg w a b.
Proof. glue_tac. Qed.
Lemma glue_I_strict_rem : forall dbg w a b, Glue.I_strict_rem dbg w a b = I_strict_rem dbg w a b.
Proof. glue_tac. Qed.
Lemma glue_I_strict_rem_euclid : forall dbg w a b, Glue.I_strict_rem_euclid dbg w a b = I_rem_euclid dbg w a b.
Proof. glue_tac. Qed.
Lemma glue_I_checked_div : forall dbg w a b, Glue.I_checked_div dbg w a b = I_checked_div dbg w a b.
Proof. glue_tac. Qed.
Lemma glue_I_checked_div_euclid : forall dbg w a b, Glue.I_checked_div_euclid dbg w a b = I_checked_div_euclid dbg w a b.
Proof. glue_tac. Qed.
Lemma glue_I_checked_rem : forall dbg w a b, Glue.I_checked_rem dbg w a b = I_checked_rem dbg w a b.
Proof. glue_tac. Qed.
Lemma glue_I_checked_rem_euclid : forall dbg w a b, Glue.I_checked_rem_euclid dbg w a b = I_checked_rem_euclid dbg w a b.
Proof. glue_tac. Qed.
Lemma glue_I_wrapping_div : forall dbg w a b, Glue.I_wrapping_div dbg w a b = I_wrapping_div dbg w a b.
Proof. glue_tac. Qed.
Lemma glue_I_wrapping_div_euclid : forall dbg w a b, Glue.I_wrapping_div_euclid dbg w a b = I_wrapping_div_euclid dbg w a b.
Proof. glue_tac. Qed.
Lemma glue_I_wrapping_rem : forall dbg w a b, Glue.I_wrapping_rem dbg w a b = I_wrapping_rem dbg w a b.
Proof. glue_tac. Qed.
Lemma glue_I_wrapping_rem_euclid : forall dbg w a b, Glue.I_wrapping_rem_euclid dbg w a b = I_wrapping_rem_euclid dbg w a b.
Proof. glue_tac. Qed.
Lemma glue_I_saturating_div : forall dbg w a b, Glue.I_saturating_div dbg w a b = I_saturating_div dbg w a b.
Proof. glue_tac. Qed.
Lemma glue_U_overflowing_div : forall w a b, Glue.U_overflowing_div w a b = U_overflowing_div w a b.
Proof. glue_tac. Qed.
Lemma glue_U_overflowing_div_euclid : forall w a b, Glue.U_overflowing_div_euclid w a b = U_overflowing_div_euclid w a b.
Proof. glue_tac. Qed.
Lemma glue_U_overflowing_rem : forall w a b, Glue.U_overflowing_rem w a b = U_overflowing_rem w a b.
Proof. glue_tac. Qed.
Lemma glue_U_overflowing_rem_euclid : forall w a b, Glue.U_overflowing_rem_euclid w a b = U_overflowing_rem_euclid w a b.
Proof. glue_tac. Qed.
Lemma glue_I_overflowing_rem : forall dbg w a b, Glue.I_overflowing_rem dbg w a b = I_overflowing_rem dbg w a b.
Proof. glue_tac. Qed.


Definition glue_div_statement : Prop :=
  (forall w a b, Glue.U_div_rem w a b = U_div_rem w a b) /\
  (forall w a b, Glue.U_checked_div w a b = U_checked_div w a b) /\
  (forall w a b, Glue.U_checked_div_euclid w a b = U_checked_div_euclid w a b) /\
  (forall w a b, Glue.U_checked_rem w a b = U_checked_rem w a b) /\
  (forall w a b, Glue.U_checked_rem_euclid w a b = U_checked_rem_euclid w a b) /\
  (forall w a b, Glue.U_wrapping_div w a b = U_wrapping_div w a b) /\
  (forall w a b, Glue.U_wrapping_div_euclid w a b = U_wrapping_div_euclid w a b) /\
  (forall w a b, Glue.U_wrapping_rem w a b = U_wrapping_rem w a b) /\
  (forall w a b, Glue.U_wrapping_rem_euclid w a b = U_wrapping_rem_euclid w a b) /\
  (forall w a b, Glue.U_saturating_div w a b = U_saturating_div w a b) /\
  (forall w a b, Glue.U_strict_div w a b = U_strict_div w a b) /\
  (forall w a b, Glue.U_strict_div_euclid w a b = U_div_euclid w a b) /\
  (forall w a b, Glue.U_strict_rem w a b = U_strict_rem w a b) /\
  (forall w a b, Glue.U_strict_rem_euclid w a b = U_rem_euclid w a b) /\
  (forall dbg w a b, Glue.I_strict_div dbg w a b = I_strict_div dbg w a b) /\
  (forall dbg w a b, Glue.I_strict_div_euclid dbg w a b = I_div_euclid dbg w a b) /\
  (forall dbg w a b, Glue.I_strict_rem dbg w a b = I_strict_rem dbg w a b) /\
  (forall dbg w a b, Glue.I_strict_rem_euclid dbg w a b = I_rem_euclid dbg w a b) /\
  (forall dbg w a b, Glue.I_checked_div dbg w a b = I_checked_div dbg w a b) /\
  (forall dbg w a b, Glue.I_checked_div_euclid dbg w a b = I_checked_div_euclid dbg w a b) /\
  (forall dbg w a b, Glue.I_checked_rem dbg w a b = I_checked_rem dbg w a b) /\
  (forall dbg w a b, Glue.I_checked_rem_euclid dbg w a b = I_checked_rem_euclid dbg w a b) /\
  (forall dbg w a b, Glue.I_wrapping_div dbg w a b = I_wrapping_div dbg w a b) /\
  (forall dbg w a b, Glue.I_wrapping_div_euclid dbg w a b = I_wrapping_div_euclid dbg w a b) /\
  (forall dbg w a b, Glue.I_wrapping_rem dbg w a b = I_wrapping_rem dbg w a b) /\
  (forall dbg w a b, Glue.I_wrapping_rem_euclid dbg w a b = I_wrapping_rem_euclid dbg w a b) /\
  (forall dbg w a b, Glue.I_saturating_div dbg w a b = I_saturating_div dbg w a b) /\
  (forall w a b, Glue.U_overflowing_div w a b = U_overflowing_div w a b) /\
  (forall w a b, Glue.U_overflowing_div_euclid w a b = U_overflowing_div_euclid w a b) /\
  (forall w a b, Glue.U_overflowing_rem w a b = U_overflowing_rem w a b) /\
  (forall w a b, Glue.U_overflowing_rem_euclid w a b = U_overflowing_rem_euclid w a b) /\
  (forall dbg w a b, Glue.I_overflowing_rem dbg w a b = I_overflowing_rem dbg w a b).
Theorem glue_div_matches_model : glue_div_statement.
Proof.
  unfold glue_div_statement. repeat apply conj.
  - exact glue_U_div_rem.
  - exact glue_U_checked_div.
  - exact glue_U_checked_div_euclid.
  - exact glue_U_checked_rem.
  - exact glue_U_checked_rem_euclid.
  - exact glue_U_wrapping_div.
  - exact glue_U_wrapping_div_euclid.
  - exact glue_U_wrapping_rem.
  - exact glue_U_wrapping_rem_euclid.
  - exact glue_U_saturating_div.
  - exact glue_U_strict_div.
  - exact glue_U_strict_div_euclid.
  - exact glue_U_strict_rem.
  - exact glue_U_strict_rem_euclid.
  - exact glue_I_strict_div.
  - exact glue_I_strict_div_euclid.
  - exact glue_I_strict_rem.
  - exact glue_I_strict_rem_euclid.
  - exact glue_I_checked_div.
  - exact glue_I_checked_div_euclid.
  - exact glue_I_checked_rem.
  - exact glue_I_checked_rem_euclid.
  - exact glue_I_wrapping_div.
  - exact glue_I_wrapping_div_euclid.
  - exact glue_I_wrapping_rem.
  - exact glue_I_wrapping_rem_euclid.
  - exact glue_I_saturating_div.
  - exact glue_U_overflowing_div.
  - exact glue_U_overflowing_div_euclid.
  - exact glue_U_overflowing_rem.
  - exact glue_U_overflowing_rem_euclid.
  - exact glue_I_overflowing_rem.
Qed.

(* ==== round 2 (tools/mk_gluetie.py) ==== *)
(* div_euclid, rem_euclid, div_floor, div_ceil, next_multiple_of, checked_next_multiple_of; bint div_rem_unchecked, overflowing_div, overflowing_div_euclid, overflowing_rem_euclid; the inherent div / rem of const_trait_fillers.rs *)
Lemma glue_U_div_euclid : forall w a b, Glue.U_div_euclid w a b = U_div_euclid w a b.
Proof. glue_tac. Qed.
Lemma glue_U_rem_euclid : forall w a b, Glue.U_rem_euclid w a b = U_rem_euclid w a b.
Proof. glue_tac. Qed.
Lemma glue_U_next_multiple_of : forall dbg w a b, Glue.U_next_multiple_of dbg w a b = U_next_multiple_of dbg w a b.
Proof. glue_tac. Qed.
Lemma glue_U_div_floor : forall w a b, Glue.U_div_floor w a b = U_div_floor w a b.
Proof. glue_tac. Qed.
Lemma glue_U_div_ceil : forall dbg w a b, Glue.U_div_ceil dbg w a b = U_div_ceil dbg w a b.
Proof. glue_tac. Qed.
Lemma glue_I_div_euclid : forall dbg w a b, Glue.I_div_euclid dbg w a b = I_div_euclid dbg w a b.
Proof. glue_tac. Qed.
Lemma glue_I_rem_euclid : forall dbg w a b, Glue.I_rem_euclid dbg w a b = I_rem_euclid dbg w a b.
Proof. glue_tac. Qed.
Lemma glue_I_next_multiple_of : forall dbg w a b, Glue.I_next_multiple_of dbg w a b = I_next_multiple_of dbg w a b.
Proof. glue_tac. Qed.
Lemma glue_I_div_floor : forall dbg w a b, Glue.I_div_floor dbg w a b = I_div_floor dbg w a b.
Proof. glue_tac. Qed.
Lemma glue_I_div_ceil : forall dbg w a b, Glue.I_div_ceil dbg w a b = I_div_ceil dbg w a b.
Proof. glue_tac. Qed.
Lemma glue_U_checked_next_multiple_of : forall dbg w a b, Glue.U_checked_next_multiple_of dbg w a b = U_checked_next_multiple_of dbg w a b.
Proof. glue_tac. Qed.
Lemma glue_I_checked_next_multiple_of : forall dbg w a b, Glue.I_checked_next_multiple_of dbg w a b = I_checked_next_multiple_of dbg w a b.
Proof. glue_tac. Qed.
Lemma glue_I_div_rem_unchecked : forall dbg w a b, Glue.I_div_rem_unchecked dbg w a b = I_div_rem_unchecked dbg w a b.
Proof. glue_tac. Qed.
Lemma glue_I_overflowing_div : forall dbg w a b, Glue.I_overflowing_div dbg w a b = I_overflowing_div dbg w a b.
Proof. glue_tac. Qed.
Lemma glue_I_overflowing_div_euclid : forall dbg w a b, Glue.I_overflowing_div_euclid dbg w a b = I_overflowing_div_euclid dbg w a b.
Proof. glue_tac. Qed.
Lemma glue_I_overflowing_rem_euclid : forall dbg w a b, Glue.I_overflowing_rem_euclid dbg w a b = I_overflowing_rem_euclid dbg w a b.
Proof. glue_tac. Qed.
Lemma glue_U_div : forall w a b, Glue.U_div w a b = U_div w a b.
Proof. glue_tac. Qed.
Lemma glue_U_rem : forall w a b, Glue.U_rem w a b = U_rem w a b.
Proof. glue_tac. Qed.
Lemma glue_I_div : forall dbg w a b, Glue.I_div dbg w a b = I_div dbg w a b.
Proof. glue_tac. Qed.
Lemma glue_I_rem : forall dbg w a b, Glue.I_rem dbg w a b = I_rem dbg w a b.
Proof. glue_tac. Qed.

Definition glue_div2_statement : Prop :=
  (forall w a b, Glue.U_div_euclid w a b = U_div_euclid w a b) /\
  (forall w a b, Glue.U_rem_euclid w a b = U_rem_euclid w a b) /\
  (forall dbg w a b, Glue.U_next_multiple_of dbg w a b = U_next_multiple_of dbg w a b) /\
  (forall w a b, Glue.U_div_floor w a b = U_div_floor w a b) /\
  (forall dbg w a b, Glue.U_div_ceil dbg w a b = U_div_ceil dbg w a b) /\
  (forall dbg w a b, Glue.I_div_euclid dbg w a b = I_div_euclid dbg w a b) /\
  (forall dbg w a b, Glue.I_rem_euclid dbg w a b = I_rem_euclid dbg w a b) /\
  (forall dbg w a b, Glue.I_next_multiple_of dbg w a b = I_next_multiple_of dbg w a b) /\
  (forall dbg w a b, Glue.I_div_floor dbg w a b = I_div_floor dbg w a b) /\
  (forall dbg w a b, Glue.I_div_ceil dbg w a b = I_div_ceil dbg w a b) /\
  (forall dbg w a b, Glue.U_checked_next_multiple_of dbg w a b = U_checked_next_multiple_of dbg w a b) /\
  (forall dbg w a b, Glue.I_checked_next_multiple_of dbg w a b = I_checked_next_multiple_of dbg w a b) /\
  (forall dbg w a b, Glue.I_div_rem_unchecked dbg w a b = I_div_rem_unchecked dbg w a b) /\
  (forall dbg w a b, Glue.I_overflowing_div dbg w a b = I_overflowing_div dbg w a b) /\
  (forall dbg w a b, Glue.I_overflowing_div_euclid dbg w a b = I_overflowing_div_euclid dbg w a b) /\
  (forall dbg w a b, Glue.I_overflowing_rem_euclid dbg w a b = I_overflowing_rem_euclid dbg w a b) /\
  (forall w a b, Glue.U_div w a b = U_div w a b) /\
  (forall w a b, Glue.U_rem w a b = U_rem w a b) /\
  (forall dbg w a b, Glue.I_div dbg w a b = I_div dbg w a b) /\
  (forall dbg w a b, Glue.I_rem dbg w a b = I_rem dbg w a b).
Theorem glue_div2_matches_model : glue_div2_statement.
Proof.
  unfold glue_div2_statement. repeat apply conj.
  - exact glue_U_div_euclid.
  - exact glue_U_rem_euclid.
  - exact glue_U_next_multiple_of.
  - exact glue_U_div_floor.
  - exact glue_U_div_ceil.
  - exact glue_I_div_euclid.
  - exact glue_I_rem_euclid.
  - exact glue_I_next_multiple_of.
  - exact glue_I_div_floor.
  - exact glue_I_div_ceil.
  - exact glue_U_checked_next_multiple_of.
  - exact glue_I_checked_next_multiple_of.
  - exact glue_I_div_rem_unchecked.
  - exact glue_I_overflowing_div.
  - exact glue_I_overflowing_div_euclid.
  - exact glue_I_overflowing_rem_euclid.
  - exact glue_U_div.
  - exact glue_U_rem.
  - exact glue_I_div.
  - exact glue_I_rem.
Qed.
(* ==== end of round 2 ==== *)

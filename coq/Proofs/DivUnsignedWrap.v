(* Proofs/DivUnsignedWrap.v — every unsigned wrapper of Model/Div.v around U_div_rem_unchecked,
   relative to the functional spec `U_div_rem_spec w` of the latter (Proofs/DivSpec.v). *)
From Bnum Require Import Base Prim.
From Bnum.Model Require Import Digit Core Shift AddSub Mul Div.
From Bnum.Proofs Require Import DivAux DivSpec SignedAux.

(* ---------- pure Z facts ---------- *)

Lemma ceil_div_cases A Bv : 0 <= A -> 0 < Bv ->
  (A + Bv - 1) / Bv = if A mod Bv =? 0 then A / Bv else A / Bv + 1.
Proof.
  intros HA HB. pose proof (Z.div_mod A Bv ltac:(lia)) as E.
  pose proof (Z.mod_pos_bound A Bv HB) as Hr.
  destruct (Z.eqb_spec (A mod Bv) 0) as [Hz|Hz]; symmetry.
  - apply Z.div_unique with (r := Bv - 1); lia.
  - apply Z.div_unique with (r := A mod Bv - 1); lia.
Qed.

(* the least multiple of Bv that is >= A *)
Definition next_mult (A Bv : Z) : Z := ((A + Bv - 1) / Bv) * Bv.

Lemma next_mult_cases A Bv : 0 <= A -> 0 < Bv ->
  next_mult A Bv = if A mod Bv =? 0 then A else A + (Bv - A mod Bv).
Proof.
  intros HA HB. unfold next_mult. rewrite ceil_div_cases by lia.
  pose proof (Z.div_mod A Bv ltac:(lia)) as E.
  destruct (Z.eqb_spec (A mod Bv) 0); lia.
Qed.

Lemma next_mult_least A Bv : 0 <= A -> 0 < Bv ->
  (exists k, next_mult A Bv = k * Bv) /\ A <= next_mult A Bv /\
  (forall k, A <= k * Bv -> next_mult A Bv <= k * Bv).
Proof.
  intros HA HB. split; [eexists; reflexivity|].
  rewrite next_mult_cases by lia.
  pose proof (Z.div_mod A Bv ltac:(lia)) as E.
  pose proof (Z.mod_pos_bound A Bv HB) as Hr.
  destruct (Z.eqb_spec (A mod Bv) 0) as [Hz|Hz]; split; try lia; intros k Hk.
  assert (A / Bv < k) by nia. nia.
Qed.

(* a nonzero remainder leaves room for the + 1 *)
Lemma ceil_no_overflow A Bv M : 0 <= A < M -> 0 < Bv -> A mod Bv <> 0 -> A / Bv + 1 < M.
Proof.
  intros HA HB Hr. pose proof (Z.div_mod A Bv ltac:(lia)) as E.
  pose proof (Z.mod_pos_bound A Bv HB).
  assert (Bv <> 1) by (intros ->; rewrite Z.mod_1_r in Hr; lia).
  assert (0 <= A / Bv) by (apply Z.div_pos; lia). nia.
Qed.

(* ---------- the unchecked core, in closed form ---------- *)

Lemma wf_nz_pos w n b : wf w n b -> uval w b <> 0 -> (0 < n)%nat.
Proof.
  intros H Hnz. destruct n; [|lia]. apply wf_inv_0 in H; subst. cbn [uval] in Hnz. congruence.
Qed.

Lemma U_div_rem_unchecked_val w n a b : 0 < w -> U_div_rem_spec w ->
  wf w n a -> wf w n b -> uval w b <> 0 ->
  wf w n (fst (U_div_rem_unchecked w a b)) /\
  wf w n (snd (U_div_rem_unchecked w a b)) /\
  uval w (fst (U_div_rem_unchecked w a b)) = uval w a / uval w b /\
  uval w (snd (U_div_rem_unchecked w a b)) = uval w a mod uval w b.
Proof.
  intros Hw HS Ha Hb Hnz. destruct (HS n a b Ha Hb Hnz) as (H1 & H2 & _).
  destruct (U_div_rem_spec_div w ltac:(lia) HS n a b Ha Hb Hnz) as (H3 & H4). auto.
Qed.

Local Ltac zerotest w n b :=
  rewrite (is_zero_spec w n b) by (solve [lia | assumption]);
  let E := fresh "Ez" in destruct (Z.eqb_spec (uval w b) 0) as [E|E]; [try lia | try lia].

(* ---------- div_rem and the plain projections ---------- *)

Theorem U_div_rem_ok w n a b : 0 < w -> U_div_rem_spec w -> wf w n a -> wf w n b ->
  (uval w b = 0 -> U_div_rem w a b = Panic) /\
  (uval w b <> 0 -> exists q r, U_div_rem w a b = Ret (q, r) /\ wf w n q /\ wf w n r /\
     uval w q = uval w a / uval w b /\ uval w r = uval w a mod uval w b /\
     uval w a = uval w q * uval w b + uval w r /\ 0 <= uval w r < uval w b).
Proof.
  intros Hw HS Ha Hb. unfold U_div_rem. split; intros Hz; zerotest w n b; [reflexivity|].
  destruct (U_div_rem_unchecked_val w n a b Hw HS Ha Hb Hz) as (H1 & H2 & H3 & H4).
  destruct (HS n a b Ha Hb Hz) as (_ & _ & H5 & H6).
  destruct (U_div_rem_unchecked w a b) as [q r]. cbn [fst snd] in *.
  exists q, r. split; [reflexivity|]. split; [exact H1|]. split; [exact H2|]. repeat split; auto; lia.
Qed.

Theorem U_checked_div_ok w n a b : 0 < w -> U_div_rem_spec w -> wf w n a -> wf w n b ->
  (uval w b = 0 -> U_checked_div w a b = None) /\
  (uval w b <> 0 -> exists q, U_checked_div w a b = Some q /\ wf w n q /\
     uval w q = uval w a / uval w b).
Proof.
  intros Hw HS Ha Hb. unfold U_checked_div. split; intros Hz; zerotest w n b; [reflexivity|].
  destruct (U_div_rem_unchecked_val w n a b Hw HS Ha Hb Hz) as (H1 & H2 & H3 & H4).
  eexists; split; [reflexivity|]. auto.
Qed.

Theorem U_checked_rem_ok w n a b : 0 < w -> U_div_rem_spec w -> wf w n a -> wf w n b ->
  (uval w b = 0 -> U_checked_rem w a b = None) /\
  (uval w b <> 0 -> exists r, U_checked_rem w a b = Some r /\ wf w n r /\
     uval w r = uval w a mod uval w b).
Proof.
  intros Hw HS Ha Hb. unfold U_checked_rem. split; intros Hz; zerotest w n b; [reflexivity|].
  destruct (U_div_rem_unchecked_val w n a b Hw HS Ha Hb Hz) as (H1 & H2 & H3 & H4).
  eexists; split; [reflexivity|]. auto.
Qed.

Theorem U_checked_div_euclid_ok w n a b : 0 < w -> U_div_rem_spec w -> wf w n a -> wf w n b ->
  (uval w b = 0 -> U_checked_div_euclid w a b = None) /\
  (uval w b <> 0 -> exists q, U_checked_div_euclid w a b = Some q /\ wf w n q /\
     uval w q = uval w a / uval w b).
Proof. exact (U_checked_div_ok w n a b). Qed.

Theorem U_checked_rem_euclid_ok w n a b : 0 < w -> U_div_rem_spec w -> wf w n a -> wf w n b ->
  (uval w b = 0 -> U_checked_rem_euclid w a b = None) /\
  (uval w b <> 0 -> exists r, U_checked_rem_euclid w a b = Some r /\ wf w n r /\
     uval w r = uval w a mod uval w b).
Proof. exact (U_checked_rem_ok w n a b). Qed.

(* wrapping_div / wrapping_rem: `Panic` exactly on a zero divisor *)
Theorem U_wrapping_div_ok w n a b : 0 < w -> U_div_rem_spec w -> wf w n a -> wf w n b ->
  (uval w b = 0 -> U_wrapping_div w a b = Panic) /\
  (uval w b <> 0 -> URet w n (U_wrapping_div w a b) (uval w a / uval w b)).
Proof.
  intros Hw HS Ha Hb. destruct (U_checked_div_ok w n a b Hw HS Ha Hb) as [Hz Hnz].
  unfold U_wrapping_div, URet. split; intros Hc.
  - rewrite (Hz Hc). reflexivity.
  - destruct (Hnz Hc) as (q & -> & Hq & Hv). exists q. cbn [option_expect]. auto.
Qed.

Theorem U_wrapping_rem_ok w n a b : 0 < w -> U_div_rem_spec w -> wf w n a -> wf w n b ->
  (uval w b = 0 -> U_wrapping_rem w a b = Panic) /\
  (uval w b <> 0 -> URet w n (U_wrapping_rem w a b) (uval w a mod uval w b)).
Proof.
  intros Hw HS Ha Hb. destruct (U_checked_rem_ok w n a b Hw HS Ha Hb) as [Hz Hnz].
  unfold U_wrapping_rem, URet. split; intros Hc.
  - rewrite (Hz Hc). reflexivity.
  - destruct (Hnz Hc) as (q & -> & Hq & Hv). exists q. cbn [option_expect]. auto.
Qed.

(* all the aliases: one statement per model name *)
Definition U_div_like (f : Z -> list Z -> list Z -> outcome (list Z)) : Prop :=
  forall w n a b, 0 < w -> U_div_rem_spec w -> wf w n a -> wf w n b ->
  (uval w b = 0 -> f w a b = Panic) /\
  (uval w b <> 0 -> URet w n (f w a b) (uval w a / uval w b)).
Definition U_rem_like (f : Z -> list Z -> list Z -> outcome (list Z)) : Prop :=
  forall w n a b, 0 < w -> U_div_rem_spec w -> wf w n a -> wf w n b ->
  (uval w b = 0 -> f w a b = Panic) /\
  (uval w b <> 0 -> URet w n (f w a b) (uval w a mod uval w b)).

Theorem U_wrapping_div_euclid_ok : U_div_like U_wrapping_div_euclid.
Proof. exact U_wrapping_div_ok. Qed.
Theorem U_wrapping_rem_euclid_ok : U_rem_like U_wrapping_rem_euclid.
Proof. exact U_wrapping_rem_ok. Qed.
Theorem U_div_ok : U_div_like U_div.
Proof. exact U_wrapping_div_ok. Qed.
Theorem U_rem_ok : U_rem_like U_rem.
Proof. exact U_wrapping_rem_ok. Qed.
Theorem U_div_euclid_ok : U_div_like U_div_euclid.
Proof. exact U_wrapping_div_ok. Qed.
Theorem U_rem_euclid_ok : U_rem_like U_rem_euclid.
Proof. exact U_wrapping_rem_ok. Qed.
Theorem U_saturating_div_ok : U_div_like U_saturating_div.
Proof. exact U_wrapping_div_ok. Qed.
Theorem U_strict_div_ok : U_div_like U_strict_div.
Proof. exact U_wrapping_div_ok. Qed.
Theorem U_strict_rem_ok : U_rem_like U_strict_rem.
Proof. exact U_wrapping_rem_ok. Qed.
Theorem U_div_floor_ok : U_div_like U_div_floor.
Proof. exact U_wrapping_div_ok. Qed.

(* overflowing forms: same value, flag always false *)
Theorem U_overflowing_div_ok w n a b : 0 < w -> U_div_rem_spec w -> wf w n a -> wf w n b ->
  (uval w b = 0 -> U_overflowing_div w a b = Panic) /\
  (uval w b <> 0 -> exists q, U_overflowing_div w a b = Ret (q, false) /\ wf w n q /\
     uval w q = uval w a / uval w b).
Proof.
  intros Hw HS Ha Hb. destruct (U_wrapping_div_ok w n a b Hw HS Ha Hb) as [Hz Hnz].
  unfold U_overflowing_div. split; intros Hc.
  - rewrite (Hz Hc). reflexivity.
  - destruct (Hnz Hc) as (q & -> & Hq & Hv). exists q. cbn [omap]. auto.
Qed.

Theorem U_overflowing_rem_ok w n a b : 0 < w -> U_div_rem_spec w -> wf w n a -> wf w n b ->
  (uval w b = 0 -> U_overflowing_rem w a b = Panic) /\
  (uval w b <> 0 -> exists r, U_overflowing_rem w a b = Ret (r, false) /\ wf w n r /\
     uval w r = uval w a mod uval w b).
Proof.
  intros Hw HS Ha Hb. destruct (U_wrapping_rem_ok w n a b Hw HS Ha Hb) as [Hz Hnz].
  unfold U_overflowing_rem. split; intros Hc.
  - rewrite (Hz Hc). reflexivity.
  - destruct (Hnz Hc) as (q & -> & Hq & Hv). exists q. cbn [omap]. auto.
Qed.

Theorem U_overflowing_div_euclid_ok w n a b : 0 < w -> U_div_rem_spec w -> wf w n a -> wf w n b ->
  (uval w b = 0 -> U_overflowing_div_euclid w a b = Panic) /\
  (uval w b <> 0 -> exists q, U_overflowing_div_euclid w a b = Ret (q, false) /\ wf w n q /\
     uval w q = uval w a / uval w b).
Proof. exact (U_overflowing_div_ok w n a b). Qed.

Theorem U_overflowing_rem_euclid_ok w n a b : 0 < w -> U_div_rem_spec w -> wf w n a -> wf w n b ->
  (uval w b = 0 -> U_overflowing_rem_euclid w a b = Panic) /\
  (uval w b <> 0 -> exists r, U_overflowing_rem_euclid w a b = Ret (r, false) /\ wf w n r /\
     uval w r = uval w a mod uval w b).
Proof. exact (U_overflowing_rem_ok w n a b). Qed.

(* ---------- div_ceil: never overflows ---------- *)

Theorem U_div_ceil_ok dbg w n a b : 0 < w -> U_div_rem_spec w -> wf w n a -> wf w n b ->
  (uval w b = 0 -> U_div_ceil dbg w a b = Panic) /\
  (uval w b <> 0 -> URet w n (U_div_ceil dbg w a b) ((uval w a + uval w b - 1) / uval w b)).
Proof.
  intros Hw HS Ha Hb. destruct (U_div_rem_ok w n a b Hw HS Ha Hb) as [Hz Hnz].
  unfold U_div_ceil. split; intros Hc.
  - rewrite (Hz Hc). reflexivity.
  - destruct (Hnz Hc) as (q & r & -> & Hq & Hr & Hqv & Hrv & _ & _). cbn [obind].
    pose proof (wf_nz_pos w n b Hb Hc) as Hn.
    pose proof (uval_bounds w n a ltac:(lia) Ha) as HA.
    pose proof (uval_bounds w n b ltac:(lia) Hb) as HB.
    rewrite ceil_div_cases by lia.
    rewrite (is_zero_spec w n r) by (lia || assumption). rewrite Hrv.
    destruct (Z.eqb_spec (uval w a mod uval w b) 0) as [E|E].
    + exists q. auto.
    + rewrite (wf_length _ _ _ Ha).
      destruct (U_add_spec dbg w n q (ONE n) ltac:(lia) Hq (wf_ONE w n Hw)) as [Hin _].
      rewrite (uval_ONE w n Hn), Hqv in Hin. apply Hin.
      apply ceil_no_overflow; lia.
Qed.

(* ---------- next_multiple_of ---------- *)

Theorem U_next_multiple_of_ok dbg w n a b : 0 < w -> U_div_rem_spec w -> wf w n a -> wf w n b ->
  (uval w b = 0 -> U_next_multiple_of dbg w a b = Panic) /\
  (uval w b <> 0 -> next_mult (uval w a) (uval w b) < Mod w n ->
     URet w n (U_next_multiple_of dbg w a b) (next_mult (uval w a) (uval w b))) /\
  (uval w b <> 0 -> Mod w n <= next_mult (uval w a) (uval w b) ->
     if dbg then U_next_multiple_of dbg w a b = Panic
     else URet w n (U_next_multiple_of dbg w a b) (next_mult (uval w a) (uval w b) mod Mod w n)).
Proof.
  intros Hw HS Ha Hb. destruct (U_wrapping_rem_ok w n a b Hw HS Ha Hb) as [Hz Hnz].
  pose proof (uval_bounds w n a ltac:(lia) Ha) as HA.
  pose proof (uval_bounds w n b ltac:(lia) Hb) as HB.
  unfold U_next_multiple_of.
  split; [intros Hc; rewrite (Hz Hc); reflexivity|].
  assert (Hcore : uval w b <> 0 ->
    exists rem, U_wrapping_rem w a b = Ret rem /\ wf w n rem /\
      uval w rem = uval w a mod uval w b /\
      (uval w rem <> 0 -> URet w n (U_sub dbg w b rem) (uval w b - uval w rem))).
  { intros Hc. destruct (Hnz Hc) as (rem & E & Hrem & Hv). exists rem. split; [exact E|]. split; [exact Hrem|]. split; [exact Hv|].
    intros _. destruct (U_sub_spec dbg w n b rem ltac:(lia) Hb Hrem) as [Hin _]. apply Hin.
    rewrite Hv. pose proof (Z.mod_pos_bound (uval w a) (uval w b)). lia. }
  split; intros Hc Ht; destruct (Hcore Hc) as (rem & -> & Hrem & Hv & Hsub); cbn [obind];
    rewrite next_mult_cases in * by lia;
    rewrite (is_zero_spec w n rem) by (lia || assumption); rewrite <- Hv in *;
    destruct (Z.eqb_spec (uval w rem) 0) as [E|E].
  - exists a; auto.
  - destruct (Hsub E) as (d & -> & Hd & Hdv). cbn [obind].
    destruct (U_add_spec dbg w n a d ltac:(lia) Ha Hd) as [Hin _].
    rewrite Hdv in Hin. apply Hin. lia.
  - lia.
  - destruct (Hsub E) as (d & -> & Hd & Hdv). cbn [obind].
    destruct (U_add_spec dbg w n a d ltac:(lia) Ha Hd) as [_ Hout].
    rewrite Hdv in Hout. apply Hout. lia.
Qed.

(* checked_next_multiple_of never panics, although `rhs - rem` is the inherent sub *)
Theorem U_checked_next_multiple_of_ok dbg w n a b :
  0 < w -> U_div_rem_spec w -> wf w n a -> wf w n b ->
  (uval w b = 0 -> U_checked_next_multiple_of dbg w a b = Ret None) /\
  (uval w b <> 0 -> next_mult (uval w a) (uval w b) < Mod w n ->
     exists r, U_checked_next_multiple_of dbg w a b = Ret (Some r) /\ wf w n r /\
       uval w r = next_mult (uval w a) (uval w b)) /\
  (uval w b <> 0 -> Mod w n <= next_mult (uval w a) (uval w b) ->
     U_checked_next_multiple_of dbg w a b = Ret None).
Proof.
  intros Hw HS Ha Hb. destruct (U_checked_rem_ok w n a b Hw HS Ha Hb) as [Hz Hnz].
  pose proof (uval_bounds w n a ltac:(lia) Ha) as HA.
  pose proof (uval_bounds w n b ltac:(lia) Hb) as HB.
  unfold U_checked_next_multiple_of.
  split; [intros Hc; rewrite (Hz Hc); reflexivity|].
  assert (Hcore : uval w b <> 0 ->
    exists rem, U_checked_rem w a b = Some rem /\ wf w n rem /\
      uval w rem = uval w a mod uval w b /\
      (uval w rem <> 0 -> URet w n (U_sub dbg w b rem) (uval w b - uval w rem))).
  { intros Hc. destruct (Hnz Hc) as (rem & E & Hrem & Hv). exists rem. split; [exact E|]. split; [exact Hrem|]. split; [exact Hv|].
    intros _. destruct (U_sub_spec dbg w n b rem ltac:(lia) Hb Hrem) as [Hin _]. apply Hin.
    rewrite Hv. pose proof (Z.mod_pos_bound (uval w a) (uval w b)). lia. }
  split; intros Hc Ht; destruct (Hcore Hc) as (rem & -> & Hrem & Hv & Hsub);
    rewrite next_mult_cases in * by lia;
    rewrite (is_zero_spec w n rem) by (lia || assumption); rewrite <- Hv in *;
    destruct (Z.eqb_spec (uval w rem) 0) as [E|E].
  - exists a; auto.
  - destruct (Hsub E) as (d & -> & Hd & Hdv). cbn [omap].
    destruct (U_checked_add_spec w n a d ltac:(lia) Ha Hd) as [Hin _].
    rewrite Hdv in Hin. destruct Hin as (r & -> & Hr & Hrv); [lia|]. exists r; auto.
  - lia.
  - destruct (Hsub E) as (d & -> & Hd & Hdv). cbn [omap].
    destruct (U_checked_add_spec w n a d ltac:(lia) Ha Hd) as [_ Hout].
    rewrite Hdv in Hout. rewrite Hout by lia. reflexivity.
Qed.

Print Assumptions U_div_rem_ok.
Print Assumptions U_checked_div_ok.
Print Assumptions U_checked_rem_ok.
Print Assumptions U_wrapping_div_ok.
Print Assumptions U_wrapping_rem_ok.
Print Assumptions U_overflowing_div_ok.
Print Assumptions U_overflowing_rem_ok.
Print Assumptions U_div_ceil_ok.
Print Assumptions U_next_multiple_of_ok.
Print Assumptions U_checked_next_multiple_of_ok.

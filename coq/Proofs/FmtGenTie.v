(* Proofs/FmtGenTie.v — tie between the formatting-trait code GENERATED from /repo/src/buint/fmt.rs and /repo/src/bint/fmt.rs on
   every run (Generated/FmtGen.v, by tools/rs2v_fmt.py) and the hand-written model Model/Fmt.v (the functions the C12 theorems
   are about).  Every generated `fn fmt` returns the triple (is_nonnegative, prefix, body) handed to std's pad_integral; the ties
   say  generated = of_oo (hand model)  for ALL digit widths, digit counts, operands, budgets and (BInt) every std padder:
   `Some (Ret t)` <-> `Done t`, `Some Panic` <-> `Panicked`, `None` (the budget of the hand model's to_str_radix) <-> `NoFuel`.
   No precondition is needed: the loops are `for` loops over the digit array (no budget), to_str_radix / is_negative /
   unsigned_abs are called by their hand-model names on both sides.

   The loop of fmt_method! is related to the model's Fixpoint by a simulation lemma whose premise is a one-step equation for
   the loop BODY taken as a variable (sim_fmt_method), discharged at the use site by case analysis; the straight-line code of
   exp_fmt! by rewriting with value lemmas about the checked operations, so the proofs do not depend on the names or the order
   of independent `let`s of the generated terms. *)
From Bnum Require Import Base Prim.
From Bnum.Model Require Import Digit Core Imp ImpPrint ImpFmt.
From Bnum.Model Require AddSub RadixOut Fmt.
From Bnum.Generated Require Import FmtGen.

Lemma bind_Done {A C} (a : A) (f : A -> res C) : bind (Done a) f = f a.
Proof. reflexivity. Qed.

(* `x <- call ;; Done x` of a model call *)
Lemma bind_ret_oo {A} (x : option (outcome A)) : bind (of_oo x) (fun t => Done t) = of_oo x.
Proof. destruct x as [[a|]|]; reflexivity. Qed.

Lemma of_oo_oomap {A C} (f : A -> C) (x : option (outcome A)) (k : C -> res C) :
  (forall c, k c = Done c) ->
  bind (of_oo x) (fun a => k (f a)) = of_oo (RadixOut.oomap f x).
Proof. intros Hk. destruct x as [[a|]|]; cbn [of_oo bind RadixOut.oomap option_map omap]; [apply Hk | reflexivity | reflexivity]. Qed.

(* ---------- value lemmas about the checked operations ---------- *)

Lemma len0_is_nil (l : list Z) : (Z.of_nat (length l) =? 0) = Fmt.is_nil l.
Proof. destruct l as [|x l]; [reflexivity|]. cbn [Fmt.is_nil length]. apply Z.eqb_neq. lia. Qed.

Lemma usub_ok a b : b <= a -> usub a b = Done (a - b).
Proof. intros H. unfold usub. destruct (Z.ltb_spec a b); [exfalso; lia | reflexivity]. Qed.

Lemma usub_len_cons (c : Z) s : usub (Z.of_nat (length (c :: s))) 1 = Done (Fmt.len (c :: s) - 1).
Proof. unfold Fmt.len. apply usub_ok. cbn [length]. lia. Qed.

Lemma usub_len_nil : usub (Z.of_nat (length (@nil Z))) 1 = Panicked.
Proof. reflexivity. Qed.

Lemma str_slice_head h t : str_slice (h :: t) 0 1 = Done [h].
Proof.
  unfold str_slice.
  assert (E : (1 <=? Z.of_nat (length (h :: t))) = true) by (apply Z.leb_le; cbn [length]; lia).
  rewrite E. reflexivity.
Qed.

Lemma str_slice_nil : str_slice [] 0 1 = Panicked.
Proof. reflexivity. Qed.

Lemma str_slice_from_tail h t : str_slice_from (h :: t) 1 = Done t.
Proof.
  unfold str_slice_from.
  assert (E : (1 <=? Z.of_nat (length (h :: t))) = true) by (apply Z.leb_le; cbn [length]; lia).
  rewrite E. reflexivity.
Qed.

Lemma len_eq1_one (h : Z) : (Z.of_nat (length [h]) =? 1) = true.
Proof. reflexivity. Qed.

Lemma len_eq1_two (h h2 : Z) t : (Z.of_nat (length (h :: h2 :: t)) =? 1) = false.
Proof. apply Z.eqb_neq. cbn [length]. lia. Qed.

(* ---------- `for` loops ---------- *)

(* a `for` whose body always continues: a left fold *)
Lemma for_each_fold {St R : Type} (body : Z -> St -> res (flow St R)) (f : St -> Z -> St) :
  (forall x s, body x s = Done (Continue (f s x))) ->
  forall l s, for_each l body s = Done (Exited (fold_left f l s)).
Proof.
  intros Hb. induction l as [|x l IH]; intros s; [reflexivity|].
  cbn [for_each fold_left]. rewrite Hb. apply IH.
Qed.

(* ---------- fmt_method!: Binary, LowerHex, UpperHex ---------- *)

(* one iteration of the digit loop of fmt_method! *)
Definition fm_step (r : Z) (upper : bool) (pad : Z) (fs : list Z) (digit : Z) : list Z :=
  if Fmt.is_nil fs then (if digit =? 0 then fs else fs ++ Fmt.fmt_prim r upper digit)
  else fs ++ Fmt.fmt_prim_pad r upper pad digit.

Lemma fmt_method_loop_fold r upper pad ds : forall fs,
  Fmt.fmt_method_loop r upper pad ds fs = fold_left (fm_step r upper pad) ds fs.
Proof. induction ds as [|d ds IH]; intros fs; [reflexivity|]. cbn [Fmt.fmt_method_loop fold_left]. rewrite IH. reflexivity. Qed.

Lemma sim_fmt_method r upper pad (body : Z -> list Z -> res (flow (list Z) Fmt.fmt_args)) :
  (forall d fs, body d fs = Done (Continue (fm_step r upper pad fs d))) ->
  forall ds fs, for_each ds body fs = Done (Exited (Fmt.fmt_method_loop r upper pad ds fs)).
Proof.
  intros Hb ds fs. rewrite fmt_method_loop_fold. apply (for_each_fold body (fm_step r upper pad)). exact Hb.
Qed.

(* the body premise: `if s.is_empty() { if digit != &0 { write!(s, F, digit)? } } else { write!(s, FPAD, digit, PAD)? }` *)
Ltac fm_body :=
  let d := fresh "d" in let fs := fresh "fs" in
  intros d fs; cbv beta zeta; unfold fm_step, Fmt.hex_padding; rewrite len0_is_nil;
  destruct (Fmt.is_nil fs); [destruct (d =? 0); reflexivity | reflexivity].

Ltac tie_fmt_method r upper pad :=
  cbv zeta; rewrite (sim_fmt_method r upper pad) by fm_body;
  cbn [bind]; unfold Fmt.fmt_method, of_oo; rewrite len0_is_nil; reflexivity.

Lemma gen_U_fmt_Binary w N fuel a : FmtGen.U_fmt_Binary w N fuel a = of_oo (Fmt.U_fmt_Binary w a).
Proof. unfold FmtGen.U_fmt_Binary, Fmt.U_fmt_Binary. tie_fmt_method 2 false w. Qed.

Lemma gen_U_fmt_LowerHex w N fuel a : FmtGen.U_fmt_LowerHex w N fuel a = of_oo (Fmt.U_fmt_LowerHex w a).
Proof. unfold FmtGen.U_fmt_LowerHex, Fmt.U_fmt_LowerHex. tie_fmt_method 16 false (Fmt.hex_padding w). Qed.

Lemma gen_U_fmt_UpperHex w N fuel a : FmtGen.U_fmt_UpperHex w N fuel a = of_oo (Fmt.U_fmt_UpperHex w a).
Proof. unfold FmtGen.U_fmt_UpperHex, Fmt.U_fmt_UpperHex. tie_fmt_method 16 true (Fmt.hex_padding w). Qed.

(* ---------- Octal, Display, Debug: through to_str_radix ---------- *)

Lemma gen_U_fmt_Octal w N fuel a : FmtGen.U_fmt_Octal w N fuel a = of_oo (Fmt.U_fmt_Octal w a).
Proof.
  unfold FmtGen.U_fmt_Octal, Fmt.U_fmt_Octal. cbv zeta.
  destruct (RadixOut.U_to_str_radix w a 8) as [[s|]|]; reflexivity.
Qed.

Lemma gen_U_fmt_Display w N fuel a : FmtGen.U_fmt_Display w N fuel a = of_oo (Fmt.U_fmt_Display w a).
Proof.
  unfold FmtGen.U_fmt_Display, Fmt.U_fmt_Display. cbv zeta.
  destruct (RadixOut.U_to_str_radix w a 10) as [[s|]|]; reflexivity.
Qed.

Lemma gen_U_fmt_Debug w N fuel a : FmtGen.U_fmt_Debug w N fuel a = of_oo (Fmt.U_fmt_Debug w a).
Proof.
  (* by unfolding, so that `Display::fmt(&self, f)` and an inlined copy of Display's body are both accepted *)
  unfold FmtGen.U_fmt_Debug, FmtGen.U_fmt_Display, Fmt.U_fmt_Debug, Fmt.U_fmt_Display. cbv zeta.
  destruct (RadixOut.U_to_str_radix w a 10) as [[s|]|]; reflexivity.
Qed.

(* ---------- exp_fmt!: LowerExp, UpperExp ---------- *)

(* the code after `let decimal_str = self.to_str_radix(10);`, for every string: the cases of Fmt.exp_buf *)
Ltac exp_tail s :=
  cbn [of_oo bind]; cbv zeta; unfold Fmt.exp_buf, str_eqb;
  destruct (list_Z_eqb s [48]); [reflexivity|];
  destruct s as [|c s'];
  [ rewrite usub_len_nil; reflexivity |];
  rewrite usub_len_cons, bind_Done; cbn [Fmt.is_nil];
  generalize (Fmt.len (c :: s') - 1); intros ex;
  generalize (Fmt.trim_end_matches 48 (c :: s')); intros t;
  destruct t as [|h [|h2 t']];
  [ rewrite ?str_slice_nil; reflexivity
  | rewrite len_eq1_one, ?str_slice_head, ?bind_Done; reflexivity
  | rewrite len_eq1_two, ?str_slice_head, ?str_slice_from_tail, ?bind_Done; reflexivity ].

Lemma gen_U_fmt_LowerExp w N fuel a : FmtGen.U_fmt_LowerExp w N fuel a = of_oo (Fmt.U_fmt_LowerExp w a).
Proof.
  unfold FmtGen.U_fmt_LowerExp, Fmt.U_fmt_LowerExp, Fmt.exp_fmt.
  destruct (RadixOut.U_to_str_radix w a 10) as [[s|]|]; [|reflexivity|reflexivity].
  exp_tail s.
Qed.

Lemma gen_U_fmt_UpperExp w N fuel a : FmtGen.U_fmt_UpperExp w N fuel a = of_oo (Fmt.U_fmt_UpperExp w a).
Proof.
  unfold FmtGen.U_fmt_UpperExp, Fmt.U_fmt_UpperExp, Fmt.exp_fmt.
  destruct (RadixOut.U_to_str_radix w a 10) as [[s|]|]; [|reflexivity|reflexivity].
  exp_tail s.
Qed.

(* ---------- src/bint/fmt.rs ---------- *)

(* fmt_trait!: $trait::fmt(&self.bits, f) *)
Lemma gen_I_fmt_Binary w N fuel a : FmtGen.I_fmt_Binary w N fuel a = of_oo (Fmt.I_fmt_Binary w a).
Proof. unfold FmtGen.I_fmt_Binary, Fmt.I_fmt_Binary. rewrite gen_U_fmt_Binary. apply bind_ret_oo. Qed.

Lemma gen_I_fmt_LowerHex w N fuel a : FmtGen.I_fmt_LowerHex w N fuel a = of_oo (Fmt.I_fmt_LowerHex w a).
Proof. unfold FmtGen.I_fmt_LowerHex, Fmt.I_fmt_LowerHex. rewrite gen_U_fmt_LowerHex. apply bind_ret_oo. Qed.

Lemma gen_I_fmt_UpperHex w N fuel a : FmtGen.I_fmt_UpperHex w N fuel a = of_oo (Fmt.I_fmt_UpperHex w a).
Proof. unfold FmtGen.I_fmt_UpperHex, Fmt.I_fmt_UpperHex. rewrite gen_U_fmt_UpperHex. apply bind_ret_oo. Qed.

Lemma gen_I_fmt_Octal w N fuel a : FmtGen.I_fmt_Octal w N fuel a = of_oo (Fmt.I_fmt_Octal w a).
Proof. unfold FmtGen.I_fmt_Octal, Fmt.I_fmt_Octal. rewrite gen_U_fmt_Octal. apply bind_ret_oo. Qed.

(* sign + magnitude: f.pad_integral(!self.is_negative(), "", &format!("{..}", self.unsigned_abs())) *)
Lemma gen_I_fmt_Display w N fuel pad a :
  FmtGen.I_fmt_Display w N fuel pad a = of_oo (Fmt.I_fmt_Display pad w a).
Proof.
  unfold FmtGen.I_fmt_Display, Fmt.I_fmt_Display. cbv zeta. rewrite gen_U_fmt_Display.
  destruct (Fmt.U_fmt_Display w (AddSub.I_unsigned_abs w a)) as [[t|]|]; reflexivity.
Qed.

Lemma gen_I_fmt_Debug w N fuel pad a :
  FmtGen.I_fmt_Debug w N fuel pad a = of_oo (Fmt.I_fmt_Debug pad w a).
Proof. unfold FmtGen.I_fmt_Debug, Fmt.I_fmt_Debug. rewrite gen_I_fmt_Display. apply bind_ret_oo. Qed.

Lemma gen_I_fmt_LowerExp w N fuel pad a :
  FmtGen.I_fmt_LowerExp w N fuel pad a = of_oo (Fmt.I_fmt_LowerExp pad w a).
Proof.
  unfold FmtGen.I_fmt_LowerExp, Fmt.I_fmt_LowerExp. cbv zeta. rewrite gen_U_fmt_LowerExp.
  destruct (Fmt.U_fmt_LowerExp w (AddSub.I_unsigned_abs w a)) as [[t|]|]; reflexivity.
Qed.

Lemma gen_I_fmt_UpperExp w N fuel pad a :
  FmtGen.I_fmt_UpperExp w N fuel pad a = of_oo (Fmt.I_fmt_UpperExp pad w a).
Proof.
  unfold FmtGen.I_fmt_UpperExp, Fmt.I_fmt_UpperExp. cbv zeta. rewrite gen_U_fmt_UpperExp.
  destruct (Fmt.U_fmt_UpperExp w (AddSub.I_unsigned_abs w a)) as [[t|]|]; reflexivity.
Qed.

(* ---------- umbrella ---------- *)

Theorem fmt_C12_match_model : forall (w N : Z) (fuel : nat) (pad : Fmt.padder) (a : list Z),
  FmtGen.U_fmt_Binary w N fuel a = of_oo (Fmt.U_fmt_Binary w a) /\
  FmtGen.U_fmt_LowerHex w N fuel a = of_oo (Fmt.U_fmt_LowerHex w a) /\
  FmtGen.U_fmt_UpperHex w N fuel a = of_oo (Fmt.U_fmt_UpperHex w a) /\
  FmtGen.U_fmt_Octal w N fuel a = of_oo (Fmt.U_fmt_Octal w a) /\
  FmtGen.U_fmt_Display w N fuel a = of_oo (Fmt.U_fmt_Display w a) /\
  FmtGen.U_fmt_Debug w N fuel a = of_oo (Fmt.U_fmt_Debug w a) /\
  FmtGen.U_fmt_LowerExp w N fuel a = of_oo (Fmt.U_fmt_LowerExp w a) /\
  FmtGen.U_fmt_UpperExp w N fuel a = of_oo (Fmt.U_fmt_UpperExp w a) /\
  FmtGen.I_fmt_Binary w N fuel a = of_oo (Fmt.I_fmt_Binary w a) /\
  FmtGen.I_fmt_LowerHex w N fuel a = of_oo (Fmt.I_fmt_LowerHex w a) /\
  FmtGen.I_fmt_UpperHex w N fuel a = of_oo (Fmt.I_fmt_UpperHex w a) /\
  FmtGen.I_fmt_Octal w N fuel a = of_oo (Fmt.I_fmt_Octal w a) /\
  FmtGen.I_fmt_Display w N fuel pad a = of_oo (Fmt.I_fmt_Display pad w a) /\
  FmtGen.I_fmt_Debug w N fuel pad a = of_oo (Fmt.I_fmt_Debug pad w a) /\
  FmtGen.I_fmt_LowerExp w N fuel pad a = of_oo (Fmt.I_fmt_LowerExp pad w a) /\
  FmtGen.I_fmt_UpperExp w N fuel pad a = of_oo (Fmt.I_fmt_UpperExp pad w a).
Proof.
  intros w N fuel pad a.
  repeat split;
    [ apply gen_U_fmt_Binary | apply gen_U_fmt_LowerHex | apply gen_U_fmt_UpperHex | apply gen_U_fmt_Octal
    | apply gen_U_fmt_Display | apply gen_U_fmt_Debug | apply gen_U_fmt_LowerExp | apply gen_U_fmt_UpperExp
    | apply gen_I_fmt_Binary | apply gen_I_fmt_LowerHex | apply gen_I_fmt_UpperHex | apply gen_I_fmt_Octal
    | apply gen_I_fmt_Display | apply gen_I_fmt_Debug | apply gen_I_fmt_LowerExp | apply gen_I_fmt_UpperExp ].
Qed.

(* Proofs/ParseGenTieHalf.v — tie of the generated radix_base_half (Generated/ParseGen.v; src/buint/radix.rs, used by the
   radix OUTPUT code to_radix_digits_le) to the hand-written model Model/RadixOut.v: radix_base_half.  The generated loop
   and the model's recursion consume their budgets in lock step, so the tie holds for EVERY budget (None <-> NoFuel). *)
From Bnum Require Import Base Prim.
From Bnum.Model Require Import DigitPrims LoopPrims Imp ImpParse.
From Bnum.Model Require RadixOut.
From Bnum.Generated Require Import DigitGen ParseGen.
From Bnum.Proofs Require Import ImpLemmas ImpLemmas2.

Definition half_res (x : option (Z * nat)) : res (Z * Z) :=
  match x with Some (b, p) => Done (b, Z.of_nat p) | None => NoFuel end.

Lemma bind_Done' {A C} (a : A) (f : A -> res C) : bind (Done a) f = f a.
Proof. reflexivity. Qed.

Lemma half_loop w r : forall fuel base (power : nat),
  bind (while_loop (R := Z * Z) fuel (fun '(base, power) => true)
          (fun '(base, power) =>
             match dg_checked_mul w base r with
             | Some n => if n <=? RadixOut.half_bits_max w then Done (Continue (n, power + 1)) else Done (Return (base, power))
             | None => Done (Return (base, power))
             end) (base, Z.of_nat power))
       (fun t => match t with Exited (base, power) => Panicked | Returned v => Done v end)
  = half_res (RadixOut.radix_base_half_loop fuel w r base power).
Proof.
  induction fuel as [|fuel IH]; intros base power; [reflexivity|].
  rewrite while_loop_S. cbv beta iota. cbn [RadixOut.radix_base_half_loop]. unfold dg_checked_mul. cbv zeta.
  destruct (base * r <? B w); cbn [andb]; [|reflexivity].
  destruct (base * r <=? RadixOut.half_bits_max w); [|reflexivity].
  replace (Z.of_nat power + 1) with (Z.of_nat (S power)) by lia. apply IH.
Qed.

Lemma gen_radix_base_half_fuel w N fuel radix : 0 < w ->
  ParseGen.radix_base_half w N fuel radix =
  half_res (RadixOut.radix_base_half_loop fuel w (radix mod B w) (radix mod B w) 1).
Proof.
  intros Hw. unfold ParseGen.radix_base_half, ud, udiv.
  change (2 =? 0) with false. cbv iota. rewrite bind_Done'.
  rewrite dshr_ok by (split; [apply Z.div_pos; lia | apply Z.div_lt; lia]). rewrite bind_Done'.
  apply (half_loop w (radix mod B w) fuel (radix mod B w) 1%nat).
Qed.

Lemma radix_base_half_loop_mono w r : forall f f' base power x, (f <= f')%nat ->
  RadixOut.radix_base_half_loop f w r base power = Some x -> RadixOut.radix_base_half_loop f' w r base power = Some x.
Proof.
  induction f as [|f IH]; intros f' base power x Hf H; [discriminate|].
  destruct f' as [|f']; [lia|]. cbn [RadixOut.radix_base_half_loop] in *. cbv zeta in *.
  destruct ((base * r <? B w) && (base * r <=? RadixOut.half_bits_max w)); [apply (IH f'); [lia | exact H] | exact H].
Qed.

(* with the model's own budget (w iterations) or more, wherever the model terminates *)
Theorem gen_radix_base_half w N fuel radix b p : 0 < w -> (Z.to_nat w <= fuel)%nat ->
  RadixOut.radix_base_half w radix = Some (b, p) -> ParseGen.radix_base_half w N fuel radix = Done (b, Z.of_nat p).
Proof.
  intros Hw Hf H. rewrite gen_radix_base_half_fuel by exact Hw. unfold RadixOut.radix_base_half in H. cbv zeta in H.
  rewrite (radix_base_half_loop_mono w _ _ fuel _ _ _ Hf H). reflexivity.
Qed.

(* Proofs/NumConvDeps.v — what the C19 proofs need about the float casts of Model/FloatCast.v (property C14).
   (a) The integer -> float direction (`cast_float_from_uint`) is being proved in the C14 development and is not
       available here: the one fact C19 needs about it — it returns a float, it does not panic — is a named
       proposition, taken as an explicit premise by the theorems that need it (never as an axiom).
   (b) The float -> integer direction is proved in Proofs/FloatCast.v under premises about Shift / AddSub / Core;
       those premises are theorems of Proofs/Shift.v, Proofs/AddSub.v, Proofs/AddSubLemmas.v, Proofs/CastLemmas.v:
       discharged here. *)
From Bnum Require Import Base Prim.
From Bnum.Model Require Import Digit Core Shift AddSub Bits FloatCast.
From Bnum.Proofs Require Shift AddSub AddSubLemmas CastLemmas.
From Bnum.Proofs Require Import FloatCastDeps FloatCast.
Local Open Scope Z_scope.

(* (a) *)
Definition cast_float_from_uint_total_spec : Prop :=
  forall dbg F w n a, F = F32 \/ F = F64 -> 0 < w -> wf w n a ->
  exists r, cast_float_from_uint dbg F w a = Ret r /\ 0 <= r < 2 ^ fbits F.

(* the premise is satisfiable: instances checked by computation (exact, rounded up with carry into the exponent,
   tie to even, infinity), in both build modes *)
Example cast_float_from_uint_total_spec_instances :
  cast_float_from_uint true F32 8 [255; 255] = Ret 0x477fff00 /\
  cast_float_from_uint false F32 8 [255; 255; 255; 255] = Ret 0x4f800000 /\
  cast_float_from_uint true F64 16 [1; 0; 0; 32] = Ret 0x4340000000000000 /\
  cast_float_from_uint true F32 64 [0; 0; 1] = Ret 0x7f800000.
Proof. vm_compute. repeat split. Qed.

(* (b) *)
Lemma shl_internal_spec_holds : shl_internal_spec.
Proof. intros w n x s Hw Hx Hs. exact (Bnum.Proofs.Shift.shl_internal_ok w n x s Hw Hx Hs). Qed.

Lemma is_negative_spec_holds : is_negative_spec.
Proof. intros w n a Hw Hn Ha. exact (Bnum.Proofs.CastLemmas.is_negative_spec w n a Hw Hn Ha). Qed.

Lemma ucmp_spec_holds : ucmp_spec.
Proof. intros w n a b Hw Ha Hb. exact (Bnum.Proofs.AddSubLemmas.ucmp_spec w ltac:(lia) n a b Ha Hb). Qed.

Lemma I_overflowing_neg_spec_holds : I_overflowing_neg_spec.
Proof.
  intros w n a Hw Hn Ha.
  pose proof (Bnum.Proofs.AddSub.I_overflowing_neg_ok w n a Hw Hn Ha) as H.
  destruct (I_overflowing_neg w a) as [r f]. destruct H as (Hr & Hs & Hf). cbn [fst snd].
  pose proof (Mod_pos w n ltac:(lia)) as HM. pose proof (Mod_even w n Hw Hn) as HMe.
  pose proof (uval_bounds w n a ltac:(lia) Ha) as Hba. pose proof (uval_bounds w n r ltac:(lia) Hr) as Hbr.
  pose proof (sval_range w n a Hw Hn Ha) as Hsa.
  assert (Es : sval w a = if uval w a <? Mod w n / 2 then uval w a else uval w a - Mod w n).
  { unfold sval, to_signed. rewrite (wf_length _ _ _ Ha). reflexivity. }
  split; [exact Hr|]. split.
  - rewrite <- (Z.mod_small (uval w r) (Mod w n)) by lia.
    rewrite <- (sval_mod w n r Hw Hr), Hs, wrapS_mod by lia. rewrite Es.
    destruct (Z.ltb_spec (uval w a) (Mod w n / 2)); [reflexivity|].
    replace (- (uval w a - Mod w n)) with (- uval w a + 1 * Mod w n) by lia. apply Z_mod_plus_full.
  - subst f. unfold inS.
    destruct (Z.ltb_spec (uval w a) (Mod w n / 2));
      destruct (Z.leb_spec (- (Mod w n / 2)) (- sval w a)); destruct (Z.ltb_spec (- sval w a) (Mod w n / 2));
      destruct (Z.eqb_spec (uval w a) (Mod w n / 2)); cbn [andb negb]; try reflexivity; lia.
Qed.

(* hence the C14 float -> integer theorems without premises *)
Theorem U_from_float_ok dbg F w n x :
  fmt_ok F -> 0 < w -> 0 <= x < 2 ^ fbits F ->
  exists r, U_from_float dbg F w n x = Ret r /\ wf w n r /\ uval w r = float_to_U_spec F (Mod w n) x.
Proof. intros. apply cast_uint_from_float_ok; auto. exact shl_internal_spec_holds. Qed.

Theorem I_from_float_ok' dbg F w n x :
  fmt_ok F -> 0 < w -> (0 < n)%nat -> 0 <= x < 2 ^ fbits F ->
  exists r, I_from_float dbg F w n x = Ret r /\ wf w n r /\ sval w r = float_to_S_spec F (Mod w n) x.
Proof.
  intros. apply I_from_float_ok; auto.
  - exact shl_internal_spec_holds.
  - exact I_overflowing_neg_spec_holds.
  - exact is_negative_spec_holds.
  - exact ucmp_spec_holds.
Qed.

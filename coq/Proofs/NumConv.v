(* Proofs/NumConv.v — C19 (placeholder, proofs follow) *)
From Bnum Require Import Base Prim.
From Bnum.Model Require Import Core Cast Convert FloatCast NumConv.

Lemma NumCast_panics {A} (x : A) : NumCast_from x = Panic.
Proof. reflexivity. Qed.

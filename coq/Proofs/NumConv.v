(* Proofs/NumConv.v — C19: the num_traits conversions of Model/NumConv.v return Some exactly for representable
   values, for all digit widths w > 0, all digit counts n >= 1 and all inputs.
   Uses the proved theorems of Proofs/Convert.v (C13: the `to_*` macros are the text of the TryFrom macros),
   Proofs/Cast.v (C09: `cast_from` of a mantissa word), Proofs/Shift.v (C05: `<<`), Proofs/AddSub.v (C01: `-i`),
   Proofs/Cmp.v (C07: `==`) and the integer-only float specification of Proofs/FloatCast.v (C14). *)
From Bnum Require Import Base Prim.
From Bnum.Model Require Import Core Shift AddSub Bits Cast Convert FloatCast Ops NumConv.
From Bnum.Proofs Require Shift AddSub Cmp.
From Bnum.Proofs Require Import FloatCastDeps FloatCast NumConvDeps.
From Bnum.Proofs Require Import BitsLemmas Bits CastLemmas Cast Convert.
Local Open Scope Z_scope.

(* ================================================================== *)
(** * 1. The early-return loop *)

Lemma while_ret_inv {St : Type} (P : nat -> St -> Prop) (Q : Prop) cond body bound :
  (forall i s, P i s -> cond i = true ->
     (i < bound)%nat /\
     ((exists s', body i s = Ret (Some s') /\ P (S i) s') \/ (body i s = Ret None /\ Q))) ->
  forall fuel i (s : St), (bound <= i + fuel)%nat -> P i s ->
  (exists i' s', while_ret fuel cond body i s = Ret (Some s') /\ P i' s' /\ cond i' = false) \/
  (while_ret fuel cond body i s = Ret None /\ Q).
Proof.
  intros Hstep. induction fuel as [|f IH]; intros i s Hb HP; cbn [while_ret].
  - left. exists i, s. split; [reflexivity|]. split; [exact HP|].
    destruct (cond i) eqn:E; [|reflexivity]. destruct (Hstep i s HP E) as [Hlt _]. lia.
  - destruct (cond i) eqn:E.
    + destruct (Hstep i s HP E) as [Hlt [(s' & Hbody & HP') | [Hbody HQ]]]; rewrite Hbody; cbn [obind].
      * apply IH; [lia | exact HP'].
      * right. split; [reflexivity | exact HQ].
    + left. exists i, s. auto.
Qed.

(* ================================================================== *)
(** * 2. Value-level facts about the digits of a (possibly negative) primitive value *)

(* the value fits the T low bits with sign fill above *)
Definition fitsb (neg : bool) (T int : Z) : bool := if neg then - 2 ^ T <=? int else int <? 2 ^ T.
(* `int` is a value of a pb-bit primitive whose sign is `neg` *)
Definition int_range (neg : bool) (pb int : Z) : Prop := if neg then - 2 ^ pb <= int < 0 else 0 <= int < 2 ^ pb.

(* a digit at or above the target width is sign fill when the value fits *)
Lemma fits_digit (neg : bool) pb T lo w int : 0 <= T <= lo -> 0 < w -> int_range neg pb int ->
  fitsb neg T int = true -> bf int lo w = if neg then 2 ^ w - 1 else 0.
Proof.
  intros HT Hw Hr Hf. pose proof (pow2_le T lo ltac:(lia)) as Hle. pose proof (pow2_pos lo ltac:(lia)) as Hp.
  pose proof (pow2_pos w ltac:(lia)) as Hpw.
  unfold fitsb, int_range in *. destruct neg.
  - apply Z.leb_le in Hf. unfold bf.
    assert (E : int / 2 ^ lo = -1).
    { symmetry. apply Z.div_unique with (int + 2 ^ lo); lia. }
    rewrite E. apply mod_intro with (q := -1); lia.
  - apply Z.ltb_lt in Hf. apply bf_small; lia.
Qed.

(* sign fill in the r bits above T, where T + r covers the primitive, means the value fits *)
Lemma fits_from_pad (neg : bool) pb T r int : 0 <= T -> 0 <= r -> pb <= T + r -> int_range neg pb int ->
  bf int T r = (if neg then 2 ^ r - 1 else 0) -> fitsb neg T int = true.
Proof.
  intros HT Hr Hcov Hrange Hbf.
  pose proof (pow2_pos T HT) as HpT. pose proof (pow2_pos r Hr) as Hpr.
  assert (Hle : 2 ^ pb <= 2 ^ T * 2 ^ r).
  { rewrite <- pow2_add by lia. destruct (Z.lt_ge_cases pb 0) as [Hn | Hn].
    - rewrite (Z.pow_neg_r 2 pb) by lia. pose proof (pow2_pos (T + r) ltac:(lia)). lia.
    - apply pow2_le; lia. }
  unfold bf in Hbf. set (q := int / 2 ^ T) in *.
  pose proof (Z.div_mod int (2 ^ T) ltac:(lia)) as D. fold q in D.
  pose proof (Z.mod_pos_bound int (2 ^ T) HpT) as Bd. set (rem := int mod 2 ^ T) in *.
  unfold fitsb, int_range in *. destruct neg.
  - apply Z.leb_le.
    assert (Hq : - 2 ^ r <= q < 0) by nia.
    assert (E : q mod 2 ^ r = q + 2 ^ r) by (apply mod_intro with (q := -1); lia).
    assert (q = -1) by lia. nia.
  - apply Z.ltb_lt.
    assert (Hq : 0 <= q < 2 ^ r) by nia.
    rewrite Z.mod_small in Hbf by lia. nia.
Qed.

(* ================================================================== *)
(** * 3. The import loop of from_u64 / from_u128 / from_uint! / from_int! *)

Lemma pad_step (neg : bool) r w : 0 <= r -> 0 <= w ->
  (if neg then 2 ^ r - 1 else 0) + 2 ^ r * (if neg then 2 ^ w - 1 else 0) = if neg then 2 ^ (r + w) - 1 else 0.
Proof. intros. destruct neg; [rewrite pow2_add by lia|]; lia. Qed.

Theorem from_loop_ok dbg pb w n int (neg : bool) :
  0 < w -> 0 < pb -> int_range neg pb int ->
  let fill := if neg then u_max w else 0 in
  from_loop dbg pb w n int fill (repeat fill n) =
  Ret (if fitsb neg (w * Z.of_nat n) int then Some (digits_of w n (int mod Mod w n)) else None).
Proof.
  intros Hw Hpb Hrange fill. unfold from_loop.
  set (T := w * Z.of_nat n). assert (HT : 0 <= T) by (unfold T; nia).
  pose proof (pow2_pos T HT) as HpT.
  set (V := int mod Mod w n). assert (EV : V = int mod 2 ^ T) by reflexivity.
  assert (Efill : fill = if neg then 2 ^ w - 1 else 0) by (unfold fill, u_max, B; reflexivity).
  pose (P := fun (i : nat) (out : list Z) =>
               out = digits_of w (Nat.min i n) V ++ repeat fill (n - Nat.min i n) /\
               ((n <= i)%nat -> bf int T (w * Z.of_nat (i - n)) =
                                if neg then 2 ^ (w * Z.of_nat (i - n)) - 1 else 0)).
  destruct (while_ret_inv P (fitsb neg T int = false) (fun i : nat => Z.of_nat i * w <? pb)
              (from_body dbg pb w n int fill) (Z.to_nat pb)) with (fuel := Z.to_nat pb) (i := 0%nat) (s := repeat fill n)
    as [(i' & out' & Hrun & (Hout' & Hhigh') & Hc) | (Hrun & HQ)].
  - (* one iteration *)
    intros i out [Hout Hhigh] Hc. apply Z.ltb_lt in Hc. split; [nia|].
    unfold from_body. rewrite shr_chk_ok by lia. cbn [obind]. cbv zeta.
    replace (ud w (int / 2 ^ (Z.of_nat i * w))) with (bf int (w * Z.of_nat i) w)
      by (unfold ud, bf, B; rewrite (Z.mul_comm w); reflexivity).
    destruct (Nat.lt_ge_cases i n) as [Hin | Hin].
    + (* inside the target: the digit is stored (or already equals the fill digit) *)
      left. destruct (Nat.ltb_spec i n) as [_ | ?]; [|lia].
      assert (Ebf : bf int (w * Z.of_nat i) w = bf V (w * Z.of_nat i) w).
      { apply (bf_congr int V T); [nia | lia | unfold T; nia | rewrite EV; symmetry; apply Z.mod_mod; lia]. }
      rewrite (Nat.min_l i n) in Hout by lia.
      replace (n - i)%nat with (S (n - S i)) in Hout by lia.
      assert (HP' : forall out', out' = (digits_of w i V ++ [bf V (w * Z.of_nat i) w]) ++ repeat fill (n - S i) -> P (S i) out').
      { intros out'' E. split.
        - rewrite (Nat.min_l (S i) n) by lia. rewrite digits_of_snoc by lia. exact E.
        - intros Hle. replace (S i - n)%nat with 0%nat by lia. rewrite Z.mul_0_r, bf_0.
          change (2 ^ 0) with 1. destruct neg; reflexivity. }
      destruct (Z.eqb_spec (bf int (w * Z.of_nat i) w) fill) as [E0 | E0]; cbn [negb].
      * eexists; split; [reflexivity|]. apply HP'. rewrite Hout, <- Ebf, E0. cbn [repeat].
        rewrite <- app_assoc. reflexivity.
      * rewrite Hout, (wr_prefix _ _ _ _ _ (digits_of_length w i V)). cbn [omap].
        eexists; split; [reflexivity|]. apply HP'. rewrite Ebf. reflexivity.
    + (* beyond the target: a digit that is not sign fill rejects *)
      destruct (Nat.ltb_spec i n) as [? | _]; [lia|].
      destruct (Z.eqb_spec (bf int (w * Z.of_nat i) w) fill) as [E0 | E0]; cbn [negb].
      * left. eexists; split; [reflexivity|]. split.
        -- rewrite (Nat.min_r (S i) n) by lia. rewrite (Nat.min_r i n) in Hout by lia. exact Hout.
        -- intros _. specialize (Hhigh Hin).
           replace (w * Z.of_nat (S i - n)) with (w * Z.of_nat (i - n) + w) by nia.
           rewrite bf_split by nia. rewrite Hhigh.
           replace (T + w * Z.of_nat (i - n)) with (w * Z.of_nat i) by (unfold T; nia).
           rewrite E0, Efill. apply pad_step; nia.
      * right. split; [reflexivity|].
        destruct (fitsb neg T int) eqn:Ef; [|reflexivity]. exfalso. apply E0. rewrite Efill.
        apply (fits_digit neg pb T); auto. unfold T. nia.
  - lia.
  - split; [cbn [Nat.min digits_of app]; f_equal; lia|]. intros Hle.
    assert (n = 0)%nat by lia. subst n. cbn [Nat.sub]. rewrite Z.mul_0_r, bf_0. change (2 ^ 0) with 1.
    destruct neg; reflexivity.
  - (* the loop fell through: the value fits and every digit is in place *)
    rewrite Hrun. f_equal. apply Z.ltb_ge in Hc.
    assert (Hfit : fitsb neg T int = true).
    { destruct (Nat.lt_ge_cases i' n) as [Hin | Hin].
      - assert (Hle : pb <= T) by (unfold T; nia). pose proof (pow2_le pb T ltac:(lia)).
        unfold fitsb, int_range in *. destruct neg; [apply Z.leb_le | apply Z.ltb_lt]; lia.
      - apply (fits_from_pad neg pb T (w * Z.of_nat (i' - n))); auto; [nia | unfold T; nia]. }
    rewrite Hfit. f_equal. rewrite Hout'. symmetry.
    destruct (Nat.lt_ge_cases i' n) as [Hin | Hin].
    + rewrite Nat.min_l by lia. unfold fill.
      apply digits_of_pad; [lia | lia |]. apply high_pad_above; [lia | lia |]. fold T.
      set (L := w * Z.of_nat i'). assert (HL : 0 <= L <= T) by (unfold L, T; nia).
      assert (HpbL : pb <= L) by (unfold L; lia).
      pose proof (pow2_le pb L ltac:(lia)) as HPL. pose proof (pow2_le L T ltac:(lia)) as HLT.
      unfold int_range in Hrange. destruct neg.
      * destruct (neg_facts (int + 2 ^ L) L T HL ltac:(lia)) as (_ & F2 & _).
        replace V with (int + 2 ^ L + 2 ^ T - 2 ^ L); [exact F2|].
        rewrite EV. symmetry. apply mod_intro with (q := -1); lia.
      * replace V with int; [apply widen_facts; lia|].
        rewrite EV. symmetry. apply Z.mod_small. lia.
    + rewrite Nat.min_r by lia. rewrite Nat.sub_diag. cbn [repeat]. symmetry. apply app_nil_r.
  - rewrite Hrun, HQ. reflexivity.
Qed.

(* ================================================================== *)
(** * 4. FromPrimitive for the twelve primitive integer types *)

(* the bnum encoding of a representable value: the n digits of v mod 2^BITS *)
Definition enc (w : Z) (n : nat) (v : Z) : list Z := digits_of w n (v mod Mod w n).

Lemma enc_ok w n (dsg : bool) v : 0 < w -> (0 < n)%nat -> representable dsg w n v ->
  wf w n (enc w n v) /\ source_value dsg w (enc w n v) = v.
Proof.
  intros Hw Hn Hrep. pose proof (Mod_pos w n ltac:(lia)) as HM. unfold enc.
  split; [apply digits_of_wf; lia|].
  apply (source_value_of_mod w n dsg); auto; [apply digits_of_wf; lia|].
  rewrite digits_of_uval by lia. apply Z.mod_mod. lia.
Qed.

Lemma enc_uval w n v : 0 < w -> wf w n (enc w n v) /\ uval w (enc w n v) = v mod Mod w n.
Proof.
  intros Hw. pose proof (Mod_pos w n ltac:(lia)) as HM. unfold enc.
  split; [apply digits_of_wf; lia|]. rewrite digits_of_uval by lia. apply Z.mod_mod. lia.
Qed.

Lemma is_negative_enc w n v : 0 < w -> (0 < n)%nat ->
  is_negative w (enc w n v) = (Mod w n / 2 <=? v mod Mod w n).
Proof.
  intros Hw Hn. destruct (enc_uval w n v Hw) as [Hwf Hu].
  rewrite (is_negative_spec w n) by auto. rewrite Hu. reflexivity.
Qed.

(* buint from_u64 / from_u128 *)
Lemma U_from_uN_ok dbg pb w n v : 0 < w -> 0 < pb -> 0 <= v < 2 ^ pb ->
  U_from_uN dbg pb w n v = Ret (if v <? Mod w n then Some (enc w n v) else None).
Proof. intros Hw Hpb Hv. exact (from_loop_ok dbg pb w n v false Hw Hpb Hv). Qed.

(* buint from_i64 / from_i128 *)
Lemma U_from_iN_ok dbg pb w n v : 0 < w -> 0 < pb -> - 2 ^ pb <= v < 2 ^ pb ->
  U_from_iN dbg pb w n v = Ret (if (0 <=? v) && (v <? Mod w n) then Some (enc w n v) else None).
Proof.
  intros Hw Hpb Hv. unfold U_from_iN, uN_try_from_iN.
  destruct (Z.ltb_spec v 0) as [Hneg | Hpos]; destruct (Z.leb_spec 0 v); try lia; cbn [andb]; [reflexivity|].
  apply U_from_uN_ok; lia.
Qed.

(* bint from_uint! *)
Lemma I_from_uN_ok dbg pb w n v : 0 < w -> (0 < n)%nat -> 0 < pb -> 0 <= v < 2 ^ pb ->
  I_from_uN dbg pb w n v = Ret (if v <? Mod w n / 2 then Some (enc w n v) else None).
Proof.
  intros Hw Hn Hpb Hv. unfold I_from_uN, from_bits, ZERO, obind_opt.
  rewrite (from_loop_ok dbg pb w n v false Hw Hpb Hv). cbn [obind]. unfold fitsb.
  pose proof (Mod_pos w n ltac:(lia)) as HM. pose proof (Mod_even w n Hw Hn) as He.
  change (2 ^ (w * Z.of_nat n)) with (Mod w n).
  destruct (Z.ltb_spec v (Mod w n)) as [Hfit | Hno]; cbn [and_then].
  - fold (enc w n v). rewrite is_negative_enc by auto. rewrite Z.mod_small by lia.
    destruct (Z.leb_spec (Mod w n / 2) v); destruct (Z.ltb_spec v (Mod w n / 2)); try lia; reflexivity.
  - destruct (Z.ltb_spec v (Mod w n / 2)); [lia | reflexivity].
Qed.

(* bint from_int! *)
Lemma I_from_iN_ok dbg pb w n v : 0 < w -> (0 < n)%nat -> 0 < pb -> - 2 ^ pb <= v < 2 ^ pb ->
  I_from_iN dbg pb w n v = Ret (if rep_inb true w n v then Some (enc w n v) else None).
Proof.
  intros Hw Hn Hpb Hv. unfold I_from_iN, from_bits, from_digits, obind_opt.
  assert (Hr : int_range (v <? 0) pb v) by (unfold int_range; destruct (Z.ltb_spec v 0); lia).
  rewrite (from_loop_ok dbg pb w n v (v <? 0) Hw Hpb Hr). cbn [obind]. unfold fitsb, rep_inb.
  pose proof (Mod_pos w n ltac:(lia)) as HM. pose proof (Mod_even w n Hw Hn) as He.
  change (2 ^ (w * Z.of_nat n)) with (Mod w n).
  destruct (Z.ltb_spec v 0) as [Hneg | Hpos].
  - destruct (Z.leb_spec (- Mod w n) v) as [Hfit | Hno]; cbn [and_then].
    + fold (enc w n v). rewrite is_negative_enc by auto.
      replace (v mod Mod w n) with (v + Mod w n) by (symmetry; apply mod_intro with (q := -1); lia).
      destruct (Z.leb_spec (Mod w n / 2) (v + Mod w n)); destruct (Z.leb_spec (- (Mod w n / 2)) v);
        destruct (Z.ltb_spec v (Mod w n / 2)); try lia; reflexivity.
    + destruct (Z.leb_spec (- (Mod w n / 2)) v); [lia | reflexivity].
  - destruct (Z.ltb_spec v (Mod w n)) as [Hfit | Hno]; cbn [and_then].
    + fold (enc w n v). rewrite is_negative_enc by auto. rewrite Z.mod_small by lia.
      destruct (Z.leb_spec (Mod w n / 2) v); destruct (Z.leb_spec (- (Mod w n / 2)) v);
        destruct (Z.ltb_spec v (Mod w n / 2)); try lia; reflexivity.
    + destruct (Z.leb_spec (- (Mod w n / 2)) v); destruct (Z.ltb_spec v (Mod w n / 2)); try lia; reflexivity.
Qed.

Lemma pty_bits_pos t : 0 < pty_bits t.
Proof. destruct t; reflexivity. Qed.

(* from_prim_ok: every FromPrimitive integer method, for every target width (narrower than the source included):
   Some (the encoding of v) exactly when v is representable, None otherwise; never a panic *)
Theorem FromPrimitive_int_ok dbg w n (dsg : bool) t v :
  0 < w -> (0 < n)%nat -> prim_range (pty_bits t) (pty_signed t) v ->
  FromPrimitive_int dbg w n dsg t v = Ret (if rep_inb dsg w n v then Some (enc w n v) else None).
Proof.
  intros Hw Hn Hv. pose proof (pty_bits_pos t) as Hpb.
  pose proof (prim_range_weak _ _ _ Hpb Hv) as Hweak.
  unfold FromPrimitive_int. destruct dsg.
  - (* BInt: each method at its own width *)
    unfold I_FromPrimitive. destruct (pty_signed t) eqn:Es.
    + apply I_from_iN_ok; auto.
    + unfold prim_range in Hv. rewrite I_from_uN_ok by auto. unfold rep_inb.
      pose proof (Mod_pos w n ltac:(lia)).
      destruct (Z.leb_spec (- (Mod w n / 2)) v); [reflexivity|].
      assert (0 <= Mod w n / 2) by (apply Z.div_pos; lia). lia.
  - (* BUint: from_u64 / from_i64 / from_u128 / from_i128 and the num-traits defaults routed to them *)
    unfold rep_inb.
    assert (H64 : forall pb, 0 < pb -> 0 <= v < 2 ^ pb ->
                  U_from_uN dbg pb w n v = Ret (if (0 <=? v) && (v <? Mod w n) then Some (enc w n v) else None)).
    { intros pb Hp Hr. rewrite U_from_uN_ok by auto. destruct (Z.leb_spec 0 v); [reflexivity | lia]. }
    unfold prim_range in Hv.
    destruct t; cbn [pty_bits pty_signed] in *; unfold U_FromPrimitive, usize_to_u64, isize_to_i64, and_then;
      try (apply H64; [lia|]; split; [lia|]; eapply Z.lt_le_trans; [apply Hv | apply pow2_le; lia]);
      try (apply U_from_iN_ok; [lia | lia |]; split;
           [eapply Z.le_trans; [|apply Hv]; apply Z.opp_le_mono; rewrite !Z.opp_involutive; apply pow2_le; lia
           |eapply Z.lt_le_trans; [apply Hv | apply pow2_le; lia]]).
Qed.

(* corollaries in the shape of the property text *)
Theorem FromPrimitive_int_representable dbg w n (dsg : bool) t v :
  0 < w -> (0 < n)%nat -> prim_range (pty_bits t) (pty_signed t) v -> representable dsg w n v ->
  exists r, FromPrimitive_int dbg w n dsg t v = Ret (Some r) /\ wf w n r /\ source_value dsg w r = v.
Proof.
  intros Hw Hn Hv Hrep. rewrite FromPrimitive_int_ok by auto.
  apply rep_inb_spec in Hrep as Hb. rewrite Hb. exists (enc w n v). split; [reflexivity|]. apply enc_ok; auto.
Qed.

Theorem FromPrimitive_int_not_representable dbg w n (dsg : bool) t v :
  0 < w -> (0 < n)%nat -> prim_range (pty_bits t) (pty_signed t) v -> ~ representable dsg w n v ->
  FromPrimitive_int dbg w n dsg t v = Ret None.
Proof.
  intros Hw Hn Hv Hrep. rewrite FromPrimitive_int_ok by auto.
  destruct (rep_inb dsg w n v) eqn:Hb; [|reflexivity]. apply rep_inb_spec in Hb. contradiction.
Qed.

Theorem FromPrimitive_int_total dbg w n (dsg : bool) t v :
  0 < w -> (0 < n)%nat -> prim_range (pty_bits t) (pty_signed t) v ->
  FromPrimitive_int dbg w n dsg t v <> Panic.
Proof. intros. rewrite FromPrimitive_int_ok by auto. discriminate. Qed.

(* ================================================================== *)
(** * 5. ToPrimitive for the twelve primitive integer types *)

Definition res_opt {A} (r : result A) : option A := match r with Ok a => Some a | Err => None end.

(* the to_* macros of the numtraits files are the TryFrom macros of the convert files with None for Err *)
Lemma U_to_tail_eq pb ps ds out i : U_to_tail pb ps ds out i = omap res_opt (U_try_tail pb ps ds out i).
Proof.
  unfold U_to_tail, U_try_tail. destruct (ps && (sd pb out <? 0)); [reflexivity|].
  destruct (pad_loop (length ds) ds 0 i) as [[|]|]; reflexivity.
Qed.

Lemma U_to_int_eq dbg pb ps w ds : U_to_int dbg pb ps w ds = omap res_opt (U_try_to_prim dbg pb ps w ds).
Proof.
  unfold U_to_int, U_try_to_prim. destruct (pb <? w).
  - destruct (rd ds 0) as [d0|]; [|reflexivity]. cbn [obind].
    destruct (negb (d0 =? ud w (p_of_bits pb ps (ud pb d0)))); [reflexivity | apply U_to_tail_eq].
  - destruct (loop_i _ _ _ _ _) as [st|]; [|reflexivity]. cbn [obind]. apply U_to_tail_eq.
Qed.

Lemma I_to_tail_eq pb ds neg padding out i :
  I_to_tail pb ds neg padding out i = omap res_opt (I_try_tail pb ds neg padding out i).
Proof.
  unfold I_to_tail, I_try_tail. destruct (pad_loop (length ds) ds padding i) as [[|]|]; cbn [obind negb]; try reflexivity.
  destruct (negb (Bool.eqb (sd pb out <? 0) neg)); reflexivity.
Qed.

Lemma I_to_int_eq dbg pb w ds : I_to_int dbg pb w ds = omap res_opt (I_try_to_iprim dbg pb w ds).
Proof.
  unfold I_to_int, I_try_to_iprim. destruct (pb <? w).
  - destruct (rd ds 0) as [d0|]; [|reflexivity]. cbn [obind].
    destruct (negb (d0 =? ud w (p_of_bits pb true (ud pb d0)))); [reflexivity | apply I_to_tail_eq].
  - destruct (is_negative w ds).
    + destruct (loop_i _ _ _ _ _) as [st|]; [|reflexivity]. cbn [obind]. apply I_to_tail_eq.
    + destruct (loop_i _ _ _ _ _) as [st|]; [|reflexivity]. cbn [obind]. apply I_to_tail_eq.
Qed.

Lemma I_to_uint_eq dbg pb w ds : I_to_uint dbg pb w ds = omap res_opt (I_try_to_uprim dbg pb w ds).
Proof.
  unfold I_to_uint, I_try_to_uprim. destruct (is_negative w ds); [reflexivity | apply U_to_int_eq].
Qed.

Theorem ToPrimitive_int_eq dbg w (ss : bool) t ds :
  ToPrimitive_int dbg w ss t ds = omap res_opt (try_to_prim dbg (pty_bits t) (pty_signed t) w ss ds).
Proof.
  unfold ToPrimitive_int, try_to_prim. destruct ss; [destruct (pty_signed t)|].
  - apply I_to_int_eq.
  - apply I_to_uint_eq.
  - apply U_to_int_eq.
Qed.

(* to_prim_ok: Some (the value) exactly when it fits the primitive, None otherwise; never a panic.
   Side condition: the digit is wider than the primitive or its width divides the primitive's
   (true for all of Rust's widths: ToPrimitive_int_pow2_ok) *)
Theorem ToPrimitive_int_ok dbg w n (ss : bool) t a :
  0 < w -> (0 < n)%nat -> pty_bits t < w \/ (w | pty_bits t) -> wf w n a ->
  ToPrimitive_int dbg w ss t a =
  Ret (if prim_inb (pty_bits t) (pty_signed t) (source_value ss w a) then Some (source_value ss w a) else None).
Proof.
  intros Hw Hn Hdiv Hwf. rewrite ToPrimitive_int_eq.
  rewrite (try_to_prim_ok dbg (pty_bits t) (pty_signed t) w n ss a Hw (pty_bits_pos t) Hn Hdiv Hwf).
  cbn [omap]. destruct (prim_inb _ _ _); reflexivity.
Qed.

Lemma pty_bits_pow2 t : exists kp, 0 <= kp /\ pty_bits t = 2 ^ kp.
Proof.
  destruct t; cbn [pty_bits];
    [exists 3 | exists 4 | exists 5 | exists 6 | exists 7 | exists 6 | exists 3 | exists 4 | exists 5 | exists 6 | exists 7 | exists 6];
    split; try lia; reflexivity.
Qed.

Theorem ToPrimitive_int_pow2_ok dbg k n (ss : bool) t a :
  0 <= k -> (0 < n)%nat -> wf (2 ^ k) n a ->
  ToPrimitive_int dbg (2 ^ k) ss t a =
  Ret (if prim_inb (pty_bits t) (pty_signed t) (source_value ss (2 ^ k) a)
       then Some (source_value ss (2 ^ k) a) else None).
Proof.
  intros Hk Hn Hwf. destruct (pty_bits_pow2 t) as (kp & Hkp & E).
  apply (ToPrimitive_int_ok dbg (2 ^ k) n); auto; [apply pow2_pos; lia|].
  rewrite E. apply pow2_prim_digit; lia.
Qed.

Theorem ToPrimitive_int_in_range dbg w n (ss : bool) t a :
  0 < w -> (0 < n)%nat -> pty_bits t < w \/ (w | pty_bits t) -> wf w n a ->
  prim_range (pty_bits t) (pty_signed t) (source_value ss w a) ->
  ToPrimitive_int dbg w ss t a = Ret (Some (source_value ss w a)).
Proof.
  intros Hw Hn Hdiv Hwf Hr. rewrite (ToPrimitive_int_ok dbg w n) by auto.
  apply prim_inb_spec in Hr. rewrite Hr. reflexivity.
Qed.

Theorem ToPrimitive_int_out_of_range dbg w n (ss : bool) t a :
  0 < w -> (0 < n)%nat -> pty_bits t < w \/ (w | pty_bits t) -> wf w n a ->
  ~ prim_range (pty_bits t) (pty_signed t) (source_value ss w a) ->
  ToPrimitive_int dbg w ss t a = Ret None.
Proof.
  intros Hw Hn Hdiv Hwf Hr. rewrite (ToPrimitive_int_ok dbg w n) by auto.
  destruct (prim_inb _ _ _) eqn:Hb; [|reflexivity]. apply prim_inb_spec in Hb. contradiction.
Qed.

Theorem ToPrimitive_int_total dbg w n (ss : bool) t a :
  0 < w -> (0 < n)%nat -> pty_bits t < w \/ (w | pty_bits t) -> wf w n a ->
  ToPrimitive_int dbg w ss t a <> Panic.
Proof. intros. rewrite (ToPrimitive_int_ok dbg w n) by auto. discriminate. Qed.

(* ================================================================== *)
(** * 6. to_f32 / to_f64 and AsPrimitive: forwarding to the casts of C09 / C14 *)

(* to_float: ToPrimitive::to_f32 / to_f64 is Some of the C14 cast (so the C14 rounding theorem applies to it) *)
Theorem ToPrimitive_float_is_cast dbg F w (ss : bool) a :
  ToPrimitive_float dbg F w ss a = omap Some (if ss then I_to_float dbg F w a else U_to_float dbg F w a) /\
  ToPrimitive_float dbg F w ss a = omap Some (AsPrimitive_to_float dbg F w ss a).
Proof. split; reflexivity. Qed.

Theorem ToPrimitive_float_never_none dbg F w (ss : bool) a : ToPrimitive_float dbg F w ss a <> Ret None.
Proof. unfold ToPrimitive_float. destruct (if ss then _ else _); cbn [omap]; discriminate. Qed.

(* as_primitive: AsPrimitive::as_ is the `As` cast in every direction *)
Theorem AsPrimitive_is_cast :
  (forall dbg w ss t a, AsPrimitive_to_int dbg w ss t a = to_prim dbg (pty_bits t) (pty_signed t) w ss a) /\
  (forall dbg F w a, AsPrimitive_to_float dbg F w false a = U_to_float dbg F w a) /\
  (forall dbg F w a, AsPrimitive_to_float dbg F w true a = I_to_float dbg F w a) /\
  (forall w n dsg t v, AsPrimitive_from_int w n dsg t v = from_prim (pty_bits t) w n dsg v) /\
  (forall w n c, AsPrimitive_from_char w n false c = U_from_char w n c) /\
  (forall w n c, AsPrimitive_from_char w n true c = I_from_char w n c) /\
  (forall n b, AsPrimitive_from_bool n false b = U_from_bool n b) /\
  (forall n b, AsPrimitive_from_bool n true b = I_from_bool n b) /\
  (forall dbg F w n f, AsPrimitive_from_float dbg F w n false f = U_from_float dbg F w n f) /\
  (forall dbg F w n f, AsPrimitive_from_float dbg F w n true f = I_from_float dbg F w n f) /\
  (forall dbg w n' ss dsg a, AsPrimitive_bnum dbg w n' ss dsg a = cast dbg w w n' ss dsg a).
Proof. repeat split. Qed.

(* hence the C09 value theorems hold for as_: wrap-around value, no panic *)
Theorem AsPrimitive_to_int_ok dbg w n (ss : bool) t a :
  0 < w -> (0 < n)%nat -> wf w n a ->
  exists r, AsPrimitive_to_int dbg w ss t a = Ret r /\
            r = prim_wrap (pty_bits t) (pty_signed t) (source_value ss w a) /\
            prim_range (pty_bits t) (pty_signed t) r.
Proof.
  intros Hw Hn Hwf. unfold AsPrimitive_to_int.
  destruct (to_prim_ok dbg (pty_bits t) (pty_signed t) w n ss a Hw (pty_bits_pos t) Hn Hwf) as (r & Hr & E & Hrange & _).
  exists r. auto.
Qed.

Theorem AsPrimitive_from_int_ok w n (dsg : bool) t v :
  0 < w -> prim_range (pty_bits t) (pty_signed t) v ->
  exists r, AsPrimitive_from_int w n dsg t v = Ret r /\ wf w n r /\ uval w r = v mod Mod w n.
Proof. intros Hw Hv. exact (from_prim_ok (pty_bits t) (pty_signed t) w n dsg v Hw (pty_bits_pos t) Hv). Qed.

Theorem AsPrimitive_bnum_ok dbg w n n' (ss dsg : bool) a :
  0 < w -> (0 < n)%nat -> (0 < n')%nat -> wf w n a ->
  exists r, AsPrimitive_bnum dbg w n' ss dsg a = Ret r /\ wf w n' r /\
            uval w r = source_value ss w a mod Mod w n'.
Proof. intros. unfold AsPrimitive_bnum. apply (cast_same_digit_ok dbg w n n'); auto. Qed.

(* ================================================================== *)
(** * 7. from_f32 / from_f64 *)

(* a well-formed digit list is the encoding of its value *)
Lemma wf_uval_enc w n r v : 0 < w -> wf w n r -> uval w r = v mod Mod w n -> r = enc w n v.
Proof. intros Hw Hwf Hu. unfold enc. rewrite <- Hu. symmetry. apply uval_digits_of; auto. Qed.

Lemma enc_small w n v : 0 <= v < Mod w n -> enc w n v = digits_of w n v.
Proof. intros. unfold enc. rewrite Z.mod_small by lia. reflexivity. Qed.

(* ---------- the float primitives of Model/NumConv.v in terms of the fields ---------- *)

Lemma is_finite_spec F x : fmt_ok F -> 0 <= x < 2 ^ fbits F -> f_is_finite F x = f_finite F x.
Proof.
  intros Hok Hx. destruct (f_decomp F x Hok Hx) as (S & HS & Hxe & HE & Hm & Hs & Ha).
  destruct (fmt_pows F Hok) as (HP & HQ & HQP & Hfb & HME & _ & Hinf & _).
  unfold f_is_finite, f_abs_bits, f_finite, E_max. rewrite Ha, Hinf.
  set (P := 2 ^ (fp F - 1)) in *. set (Q := 2 ^ ebits F) in *.
  destruct (Z.ltb_spec (f_E F x * P + f_m F x) ((Q - 1) * P)); destruct (Z.ltb_spec (f_E F x) (Q - 1));
    try reflexivity; nia.
Qed.

Lemma eq_zero_spec F x : fmt_ok F -> 0 <= x < 2 ^ fbits F ->
  f_eq_zero F x = (f_E F x =? 0) && (f_m F x =? 0).
Proof.
  intros Hok Hx. destruct (f_decomp F x Hok Hx) as (S & HS & Hxe & HE & Hm & Hs & Ha).
  destruct (fmt_pows F Hok) as (HP & _).
  unfold f_eq_zero, f_abs_bits. rewrite Ha. set (P := 2 ^ (fp F - 1)) in *.
  destruct (Z.eqb_spec (f_E F x * P + f_m F x) 0); destruct (Z.eqb_spec (f_E F x) 0);
    destruct (Z.eqb_spec (f_m F x) 0); cbn [andb]; try reflexivity; nia.
Qed.

(* decode_f32 / decode_f64: the integer mantissa (with the implicit bit of a normal number) and
   E - (BIAS + MANTISSA_DIGITS - 1); for E = 0 this exponent is one less than the true one *)
Lemma decode_float_spec F x : fmt_ok F -> 0 <= x < 2 ^ fbits F ->
  decode_float F x = (f_mant F x, f_E F x - (MAX_EXP F - 1 + fp F - 1)).
Proof.
  intros Hok Hx. destruct (f_decomp F x Hok Hx) as (S & HS & Hxe & HE & Hm & Hs & Ha).
  pose proof Hok as (Hp & He & Hmx). unfold ebits in He.
  pose proof (raw_parts_spec F x Hok Hx) as R. unfold into_raw_parts in R. cbv zeta in R.
  injection R as _ RE Rm.
  unfold decode_float. cbv zeta. rewrite RE, Rm. unfold f_mant. f_equal.
  destruct (Z.eqb_spec (f_E F x) 0) as [E0 | E0]; cbn [negb]; [reflexivity|].
  rewrite u_shl_one by lia. unfold u_or. rewrite Z.lor_comm.
  pose proof (lor_mul_pow2_add 1 (f_m F x) (fp F - 1) ltac:(lia) Hm) as L.
  rewrite Z.mul_1_l in L. exact L.
Qed.

(* ---------- the specification: what from_f32 / from_f64 return, on the fields of the float ---------- *)

(* BUint: None for NaN and the infinities; Some 0 for +0.0 and -0.0; None for EVERY other negative float
   (also for -1 < f < 0, whose truncation 0 would be representable: the property makes no claim there);
   otherwise Some (trunc f) exactly when trunc f < 2^BITS *)
Definition from_float_U_spec (F : ffmt) (M x : Z) : option Z :=
  if negb (f_finite F x) then None
  else if (f_E F x =? 0) && (f_m F x =? 0) then Some 0
  else if f_sign F x then None
  else if f_trunc F x <? M then Some (f_trunc F x) else None.

(* BInt: None for NaN and the infinities; otherwise Some (f truncated toward zero) exactly when that integer is
   in [-2^(BITS-1), 2^(BITS-1)) (so -0.0 and -1 < f < 0 give Some 0) *)
Definition from_float_S_spec (F : ffmt) (M x : Z) : option Z :=
  if negb (f_finite F x) then None
  else let t := f_trunc_signed F x in
       if (- (M / 2) <=? t) && (t <? M / 2) then Some t else None.

Lemma uN_bits_bitlen pb u : uN_bits pb u = bitlen u.
Proof. unfold uN_bits, u_leading_zeros. lia. Qed.

Lemma amt_i16_ok dbg v : 0 <= v < 2 ^ 32 -> amt_to_exptype dbg AI16 v = Ret v.
Proof.
  intros Hv. unfold amt_to_exptype, u32_max. destruct dbg.
  - destruct (Z.leb_spec 0 v); destruct (Z.leb_spec v (2 ^ 32 - 1)); cbn [andb]; try lia; reflexivity.
  - rewrite Z.mod_small by lia. reflexivity.
Qed.

Lemma pow2_31_32 : 2 ^ 31 < 2 ^ 32.
Proof. reflexivity. Qed.

(* the part of buint from_float! after the three early returns *)
Definition U_from_fN_tail (dbg : bool) (F : ffmt) (w : Z) (n : nat) (x : Z) : outcome (option (list Z)) :=
  let '(mant, exp) := decode_float F x in
    if exp <? 0 then
      let mant := unwrap_or (p_checked_shr (fbits F) mant (ud 32 (- exp))) 0 in
      if bits w n <? uN_bits (fbits F) mant then Ret None
      else omap Some (U_from_int (fbits F) w n mant)
    else
      obind (exp_add dbg (uN_bits (fbits F) mant) (ud 32 exp)) (fun total =>
      if bits w n <? total then Ret None
      else obind (U_from_int (fbits F) w n mant) (fun c => omap Some (U_Shl_prim dbg w AI16 c exp))).

Lemma U_from_fN_unfold dbg F w n x :
  U_from_fN dbg F w n x =
  if negb (f_is_finite F x) then Ret None
  else if f_eq_zero F x then Ret (Some (ZERO n))
  else if f_is_sign_negative F x then Ret None
  else U_from_fN_tail dbg F w n x.
Proof. reflexivity. Qed.

(* a finite, non-zero, positive float *)
Lemma U_from_fN_positive dbg F w n x :
  fmt_ok F -> 0 < w -> 0 <= x < 2 ^ fbits F ->
  f_finite F x = true -> f_sign F x = false ->
  ((f_E F x =? 0) && (f_m F x =? 0)) = false ->
  U_from_fN_tail dbg F w n x =
  Ret (if f_trunc F x <? Mod w n then Some (enc w n (f_trunc F x)) else None).
Proof.
  intros Hok Hw Hx Hfin Hsign Hnz. unfold U_from_fN_tail.
  destruct (f_decomp F x Hok Hx) as (S & HS & Hxe & HE & Hm & Hs & Ha).
  destruct (fmt_pows F Hok) as (HP & HQ & HQP & Hfb & HME & HME2 & Hinf & H2P).
  pose proof Hok as (Hp & He & Hmx).
  assert (Hfbits : fbits F = fp F + ebits F) by (unfold ebits; lia).
  assert (HMAX : MAX_EXP F <= 2 ^ 30).
  { unfold MAX_EXP. apply pow2_le. lia. }
  assert (HQ31 : 2 ^ ebits F <= 2 ^ 31) by (apply pow2_le; lia).
  change (2 ^ 30) with 1073741824 in HMAX. change (2 ^ 31) with 2147483648 in HQ31.
  unfold f_finite, E_max in Hfin. apply Z.ltb_lt in Hfin.
  set (T := bits w n). assert (HT : 0 <= T) by (unfold T, bits; nia).
  assert (EMod : Mod w n = 2 ^ T) by reflexivity.
  pose proof (pow2_pos T HT) as HpT.
  pose proof (f_trunc_nonneg F x Hok Hx) as Htr0.
  rewrite decode_float_spec by assumption.
  set (mant := f_mant F x). set (exp := f_E F x - (MAX_EXP F - 1 + fp F - 1)).
  assert (Hmant_lt : 0 <= mant < 2 ^ fp F).
  { unfold mant, f_mant. destruct (f_E F x =? 0); lia. }
  assert (Hmb : 2 ^ fp F <= 2 ^ fbits F) by (apply pow2_le; lia).
  assert (Hcast : forall v, 0 <= v < 2 ^ fbits F ->
            exists r, U_from_int (fbits F) w n v = Ret r /\ wf w n r /\ uval w r = v mod Mod w n).
  { intros v Hv. apply U_from_int_ok; [lia | lia |]. intros Hle.
    pose proof (pow2_le (fbits F) w ltac:(lia)). lia. }
  destruct (Z.ltb_spec exp 0) as [Hneg | Hpos].
  - (* the value has a fractional part: shift the mantissa right *)
    set (s := - exp). assert (Hs0 : 0 < s) by (unfold s; lia).
    assert (Hs32 : s < 2 ^ 32) by (unfold s, exp; change (2 ^ 32) with 4294967296; lia).
    assert (Eud : ud 32 s = s) by (unfold ud, B; apply Z.mod_small; lia). rewrite Eud.
    assert (Eshift : unwrap_or (p_checked_shr (fbits F) mant s) 0 = mant / 2 ^ s).
    { unfold p_checked_shr, u_shr. destruct (Z.ltb_spec s (fbits F)); cbn [unwrap_or]; [reflexivity|].
      symmetry. apply Z.div_small. split; [lia|]. pose proof (pow2_le (fbits F) s ltac:(lia)). lia. }
    rewrite Eshift. cbv zeta.
    assert (Etr : mant / 2 ^ s = f_trunc F x).
    { destruct (Z.eq_dec (f_E F x) 0) as [E0 | E0].
      - rewrite f_trunc_subnormal by assumption. apply Z.div_small. split; [lia|].
        unfold mant, f_mant. rewrite E0. cbn [Z.eqb]. change (0 =? 0) with true. cbv iota.
        eapply Z.lt_le_trans; [apply Hm|]. apply pow2_le. unfold s, exp. lia.
      - unfold f_trunc, f_exp, f_mant, EXP_BIAS. destruct (Z.eqb_spec (f_E F x) 0) as [|_]; [contradiction|].
        replace (f_E F x - (MAX_EXP F - 1) - (fp F - 1)) with exp by (unfold exp; lia).
        destruct (Z.leb_spec 0 exp); [lia|]. unfold mant, f_mant.
        destruct (Z.eqb_spec (f_E F x) 0) as [|_]; [contradiction|]. reflexivity. }
    rewrite Etr, uN_bits_bitlen.
    rewrite Z.ltb_antisym, (bitlen_le_iff (f_trunc F x) T Htr0 HT), <- EMod.
    destruct (Z.ltb_spec (f_trunc F x) (Mod w n)) as [Hfit | Hno]; cbn [negb]; [|reflexivity].
    destruct (Hcast (f_trunc F x)) as (r & Hr & Hwf & Hu).
    { split; [lia|]. rewrite <- Etr. eapply Z.le_lt_trans; [apply div_pow2_le; lia|]. lia. }
    rewrite Hr. cbn [omap]. do 2 f_equal. apply wf_uval_enc; auto.
  - (* an integer: shift the mantissa left; exp >= 0 forces a normal number *)
    assert (E0 : f_E F x <> 0) by (unfold exp in Hpos; lia).
    assert (Emant : mant = 2 ^ (fp F - 1) + f_m F x).
    { unfold mant, f_mant. destruct (Z.eqb_spec (f_E F x) 0) as [|_]; [contradiction | reflexivity]. }
    assert (Hmant : 2 ^ (fp F - 1) <= mant < 2 ^ fp F) by lia.
    rewrite uN_bits_bitlen, (bitlen_unique mant (fp F)) by lia.
    assert (Hexp32 : 0 <= exp < 2 ^ 31) by (unfold exp; change (2 ^ 31) with 2147483648; lia).
    assert (Eud : ud 32 exp = exp).
    { unfold ud, B. apply Z.mod_small. pose proof pow2_31_32. lia. }
    rewrite Eud. unfold exp_add.
    destruct (Z.ltb_spec (fp F + exp) (2 ^ 32)) as [_ | Hbad];
      [|change (2 ^ 32) with 4294967296 in Hbad; change (2 ^ 31) with 2147483648 in Hexp32; lia].
    cbn [obind].
    assert (Etr : f_trunc F x = mant * 2 ^ exp).
    { unfold f_trunc, f_exp, f_mant, EXP_BIAS. destruct (Z.eqb_spec (f_E F x) 0) as [|_]; [contradiction|].
      replace (f_E F x - (MAX_EXP F - 1) - (fp F - 1)) with exp by (unfold exp; lia).
      destruct (Z.leb_spec 0 exp); [|lia]. rewrite Emant. reflexivity. }
    pose proof (pow2_pos exp ltac:(lia)) as Hpe.
    fold T.
    destruct (Z.ltb_spec T (fp F + exp)) as [Hbig | Hfit].
    + (* too long *)
      assert (Mod w n <= f_trunc F x).
      { rewrite Etr, EMod. assert (2 ^ T <= 2 ^ (fp F - 1 + exp)) by (apply pow2_le; lia).
        rewrite pow2_add in * by lia. nia. }
      destruct (Z.ltb_spec (f_trunc F x) (Mod w n)); [lia | reflexivity].
    + assert (Hlt : f_trunc F x < Mod w n).
      { rewrite Etr, EMod. assert (2 ^ (fp F + exp) <= 2 ^ T) by (apply pow2_le; lia).
        rewrite pow2_add in * by lia. nia. }
      destruct (Z.ltb_spec (f_trunc F x) (Mod w n)); [|lia].
      destruct (Hcast mant ltac:(lia)) as (c & Hc & Hwfc & Huc).
      rewrite Hc. cbn [obind]. unfold U_Shl_prim. rewrite amt_i16_ok by (pose proof pow2_31_32; lia).
      cbn [obind].
      destruct (Bnum.Proofs.Shift.U_shl_ok dbg w n c exp Hw Hwfc ltac:(lia)) as (_ & Hshl & _).
      destruct (Hshl ltac:(unfold T, bits in *; lia)) as (r & Hr & Hwfr & Hur).
      rewrite Hr. cbn [omap]. do 2 f_equal. apply wf_uval_enc; auto.
      rewrite Hur, Huc, Etr. pose proof (Mod_pos w n ltac:(lia)). apply Z.mul_mod_idemp_l. lia.
Qed.

(* from_float_ok, unsigned target *)
Theorem U_from_fN_ok dbg F w n x :
  fmt_ok F -> 0 < w -> 0 <= x < 2 ^ fbits F ->
  U_from_fN dbg F w n x = Ret (option_map (enc w n) (from_float_U_spec F (Mod w n) x)).
Proof.
  intros Hok Hw Hx. rewrite U_from_fN_unfold. unfold from_float_U_spec.
  rewrite is_finite_spec, eq_zero_spec, sign_negative_spec by assumption.
  destruct (f_finite F x) eqn:Hfin; cbn [negb]; [|reflexivity].
  destruct ((f_E F x =? 0) && (f_m F x =? 0)) eqn:Hz.
  - cbn [option_map]. do 2 f_equal. unfold ZERO, enc. pose proof (Mod_pos w n ltac:(lia)).
    rewrite Z.mod_0_l by lia. symmetry. apply digits_of_zero. lia.
  - destruct (f_sign F x) eqn:Hs; [reflexivity|].
    rewrite (U_from_fN_positive dbg F w n x Hok Hw Hx Hfin Hs Hz).
    destruct (f_trunc F x <? Mod w n); reflexivity.
Qed.

(* for a float without the sign bit the unsigned specification only looks at the truncation *)
Lemma from_float_U_spec_positive F M x : fmt_ok F -> 0 <= x < 2 ^ fbits F -> 0 < M -> f_sign F x = false ->
  from_float_U_spec F M x =
  if negb (f_finite F x) then None else if f_trunc F x <? M then Some (f_trunc F x) else None.
Proof.
  intros Hok Hx HM Hs. unfold from_float_U_spec. rewrite Hs.
  destruct (f_finite F x); cbn [negb]; [|reflexivity].
  destruct (Z.eqb_spec (f_E F x) 0) as [E0 | E0]; cbn [andb]; [|reflexivity].
  rewrite f_trunc_subnormal by assumption.
  destruct (Z.ltb_spec 0 M); [|lia]. destruct (f_m F x =? 0); reflexivity.
Qed.

Lemma I_neg_small dbg w n u : 0 < w -> (0 < n)%nat -> wf w n u -> uval w u < Mod w n / 2 ->
  exists r, I_neg dbg w u = Ret r /\ wf w n r /\ uval w r = (- uval w u) mod Mod w n.
Proof.
  intros Hw Hn Hu Hlt.
  pose proof (uval_bounds w n u ltac:(lia) Hu) as Hb.
  pose proof (Mod_pos w n ltac:(lia)) as HM. pose proof (Mod_even w n Hw Hn) as HMe.
  pose proof (Bnum.Proofs.AddSub.I_overflowing_neg_ok w n u Hw Hn Hu) as H1.
  pose proof (Bnum.Proofs.AddSub.I_neg_projections w u dbg) as H2.
  destruct (I_overflowing_neg w u) as [r f]. destruct H1 as (Rwf & Rs & Rf). destruct H2 as (_ & _ & _ & H2).
  assert (Es : sval w u = uval w u).
  { unfold sval, to_signed. rewrite (wf_length _ _ _ Hu). destruct (Z.ltb_spec (uval w u) (Mod w n / 2)); lia. }
  rewrite Es in *.
  assert (Hin : inS (Mod w n) (- uval w u) = true).
  { unfold inS. apply andb_true_iff. split; [apply Z.leb_le | apply Z.ltb_lt]; lia. }
  rewrite Hin in Rf. cbn [negb] in Rf. subst f.
  rewrite wrapS_id in Rs by (auto; lia).
  exists r. split; [exact H2|]. split; [exact Rwf|].
  pose proof (uval_bounds w n r ltac:(lia) Rwf) as Hbr.
  rewrite <- Rs. rewrite (sval_mod w n r Hw Rwf). symmetry. apply Z.mod_small. lia.
Qed.

(* from_float_ok, signed target *)
Theorem I_from_fN_ok dbg F w n x :
  fmt_ok F -> 0 < w -> (0 < n)%nat -> 0 <= x < 2 ^ fbits F ->
  I_from_fN dbg F w n x = Ret (option_map (enc w n) (from_float_S_spec F (Mod w n) x)).
Proof.
  intros Hok Hw Hn Hx.
  pose proof (Mod_pos w n ltac:(lia)) as HM. pose proof (Mod_even w n Hw Hn) as HMe.
  assert (Hhalf : 0 < Mod w n / 2) by lia.
  pose proof (f_trunc_nonneg F x Hok Hx) as Ht0.
  unfold I_from_fN, from_float_S_spec, f_trunc_signed, obind_opt, from_bits.
  rewrite sign_negative_spec by assumption.
  destruct (f_sign F x) eqn:Hs.
  - (* negative sign: convert the magnitude, then negate *)
    destruct (f_neg_fields F x Hok Hx) as (Hx' & HE' & Hm' & Hs' & _). rewrite Hs in Hs'. cbn [negb] in Hs'.
    rewrite (U_from_fN_ok dbg F w n (f_neg F x) Hok Hw Hx'). cbn [obind].
    rewrite (from_float_U_spec_positive F (Mod w n) (f_neg F x) Hok Hx' HM Hs').
    assert (Efin : f_finite F (f_neg F x) = f_finite F x) by (unfold f_finite; rewrite HE'; reflexivity).
    assert (Etr : f_trunc F (f_neg F x) = f_trunc F x).
    { unfold f_trunc, f_exp, f_mant. rewrite HE', Hm'. reflexivity. }
    rewrite Efin, Etr. set (t := f_trunc F x) in *.
    destruct (f_finite F x); cbn [negb]; [|reflexivity].
    destruct (Z.ltb_spec t (Mod w n)) as [Hfit | Hno]; cbn [option_map and_then].
    + destruct (enc_uval w n t Hw) as [Hwf Hu]. rewrite Z.mod_small in Hu by lia.
      destruct (IMIN_spec w n Hw Hn) as [Hwfm Hum].
      destruct (eq_digits (enc w n t) (IMIN w n)) eqn:Heq.
      * apply (Bnum.Proofs.Cmp.eq_digits_uval w n) in Heq; auto; [|lia]. rewrite Hu, Hum in Heq.
        destruct (Z.leb_spec (- (Mod w n / 2)) (- t)); [|lia]. destruct (Z.ltb_spec (- t) (Mod w n / 2)); [|lia].
        cbn [andb option_map]. do 2 f_equal. apply wf_uval_enc; auto. rewrite Hum, Heq.
        symmetry. apply mod_intro with (q := -1); lia.
      * assert (Hne : t <> Mod w n / 2).
        { intros E. assert (eq_digits (enc w n t) (IMIN w n) = true); [|congruence].
          apply (Bnum.Proofs.Cmp.eq_digits_uval w n); auto; [lia|]. rewrite Hu, Hum. exact E. }
        rewrite (is_negative_spec w n) by auto. rewrite Hu.
        destruct (Z.leb_spec (Mod w n / 2) t) as [Hbig | Hsmall].
        -- destruct (Z.leb_spec (- (Mod w n / 2)) (- t)); [lia|]. reflexivity.
        -- destruct (I_neg_small dbg w n (enc w n t) Hw Hn Hwf ltac:(lia)) as (r & Hr & Hwfr & Hur).
           rewrite Hr. cbn [omap].
           destruct (Z.leb_spec (- (Mod w n / 2)) (- t)); [|lia]. destruct (Z.ltb_spec (- t) (Mod w n / 2)); [|lia].
           cbn [andb option_map]. do 2 f_equal. apply wf_uval_enc; auto. rewrite Hur, Hu. reflexivity.
    + destruct (Z.leb_spec (- (Mod w n / 2)) (- t)); [lia|]. reflexivity.
  - (* positive sign *)
    rewrite (U_from_fN_ok dbg F w n x Hok Hw Hx). cbn [obind].
    rewrite (from_float_U_spec_positive F (Mod w n) x Hok Hx HM Hs).
    set (t := f_trunc F x) in *.
    destruct (f_finite F x); cbn [negb]; [|reflexivity].
    destruct (Z.leb_spec (- (Mod w n / 2)) t); [|lia]. cbn [andb].
    destruct (Z.ltb_spec t (Mod w n)) as [Hfit | Hno]; cbn [option_map and_then].
    + destruct (enc_uval w n t Hw) as [Hwf Hu]. rewrite Z.mod_small in Hu by lia.
      rewrite (is_negative_spec w n) by auto. rewrite Hu.
      destruct (Z.leb_spec (Mod w n / 2) t); destruct (Z.ltb_spec t (Mod w n / 2)); try lia; reflexivity.
    + destruct (Z.ltb_spec t (Mod w n / 2)); [lia | reflexivity].
Qed.

(* from_float_ok, both targets *)
Definition from_float_spec (dsg : bool) (F : ffmt) (M x : Z) : option Z :=
  if dsg then from_float_S_spec F M x else from_float_U_spec F M x.

Theorem FromPrimitive_float_ok dbg F w n (dsg : bool) x :
  fmt_ok F -> 0 < w -> (0 < n)%nat -> 0 <= x < 2 ^ fbits F ->
  FromPrimitive_float dbg F w n dsg x = Ret (option_map (enc w n) (from_float_spec dsg F (Mod w n) x)).
Proof.
  intros. unfold FromPrimitive_float, from_float_spec. destruct dsg; [apply I_from_fN_ok | apply U_from_fN_ok]; auto.
Qed.

(* the specification in the words of the property *)
Theorem from_float_spec_some (dsg : bool) F M x v : 0 < M ->
  fmt_ok F -> 0 <= x < 2 ^ fbits F ->
  from_float_spec dsg F M x = Some v ->
  f_finite F x = true /\ v = f_trunc_signed F x /\
  (if dsg then - (M / 2) <= v < M / 2 else 0 <= v < M).
Proof.
  intros HM Hok Hx. pose proof (f_trunc_nonneg F x Hok Hx) as Ht0.
  unfold from_float_spec, from_float_S_spec, from_float_U_spec, f_trunc_signed. destruct dsg.
  - destruct (f_finite F x); cbn [negb]; [|discriminate].
    destruct (Z.leb_spec (- (M / 2)) (if f_sign F x then - f_trunc F x else f_trunc F x));
      destruct (Z.ltb_spec (if f_sign F x then - f_trunc F x else f_trunc F x) (M / 2)); cbn [andb]; try discriminate.
    intros E. injection E as <-. auto.
  - destruct (f_finite F x); cbn [negb]; [|discriminate].
    destruct (Z.eqb_spec (f_E F x) 0) as [E0 | E0]; cbn [andb].
    + rewrite f_trunc_subnormal in * by assumption.
      destruct (f_m F x =? 0).
      * intros E. injection E as <-. split; [reflexivity|]. split; [destruct (f_sign F x); reflexivity | lia].
      * destruct (f_sign F x); [discriminate|]. destruct (Z.ltb_spec 0 M); [|discriminate].
        intros E. injection E as <-. split; [reflexivity|]. split; [reflexivity | lia].
    + destruct (f_sign F x); [discriminate|]. destruct (Z.ltb_spec (f_trunc F x) M); [|discriminate].
      intros E. injection E as <-. split; [reflexivity|]. split; [reflexivity | lia].
Qed.

(* Some whenever the float is finite, its truncation is in range and (unsigned target) the float is not negative:
   +0.0 / -0.0 count as not negative *)
Theorem from_float_spec_complete (dsg : bool) F M x : 0 < M ->
  fmt_ok F -> 0 <= x < 2 ^ fbits F -> f_finite F x = true ->
  (if dsg then - (M / 2) <= f_trunc_signed F x < M / 2
   else 0 <= f_trunc_signed F x < M /\ (f_sign F x = false \/ (f_E F x = 0 /\ f_m F x = 0))) ->
  from_float_spec dsg F M x = Some (f_trunc_signed F x).
Proof.
  intros HM Hok Hx Hfin Hr. pose proof (f_trunc_nonneg F x Hok Hx) as Ht0.
  unfold from_float_spec, from_float_S_spec, from_float_U_spec, f_trunc_signed in *. rewrite Hfin. cbn [negb].
  destruct dsg.
  - destruct (Z.leb_spec (- (M / 2)) (if f_sign F x then - f_trunc F x else f_trunc F x)); [|lia].
    destruct (Z.ltb_spec (if f_sign F x then - f_trunc F x else f_trunc F x) (M / 2)); [|lia]. reflexivity.
  - destruct Hr as [Hr [Hpos | [E0 Em0]]].
    + rewrite Hpos in *.
      destruct (Z.eqb_spec (f_E F x) 0) as [E0 | E0]; cbn [andb].
      * rewrite f_trunc_subnormal in * by assumption. destruct (f_m F x =? 0); [reflexivity|].
        destruct (Z.ltb_spec 0 M); [reflexivity | lia].
      * destruct (Z.ltb_spec (f_trunc F x) M); [reflexivity | lia].
    + rewrite E0, Em0. cbn [Z.eqb andb]. change (0 =? 0) with true. cbn [andb].
      rewrite f_trunc_subnormal by assumption. destruct (f_sign F x); reflexivity.
Qed.

(* None for NaN and the infinities, for both targets *)
Theorem from_float_spec_not_finite (dsg : bool) F M x : f_finite F x = false -> from_float_spec dsg F M x = None.
Proof.
  intros H. unfold from_float_spec, from_float_S_spec, from_float_U_spec. rewrite H. destruct dsg; reflexivity.
Qed.

(* what the code does for negative floats into an unsigned target: None unless the float is -0.0
   (in particular None for -1 < f < 0, although the truncation 0 is representable) *)
Theorem from_float_U_negative F M x : f_finite F x = true -> f_sign F x = true ->
  from_float_spec false F M x = if (f_E F x =? 0) && (f_m F x =? 0) then Some 0 else None.
Proof.
  intros Hfin Hs. unfold from_float_spec, from_float_U_spec. rewrite Hfin, Hs. cbn [negb].
  destruct ((f_E F x =? 0) && (f_m F x =? 0)); reflexivity.
Qed.

Theorem FromPrimitive_float_total dbg F w n (dsg : bool) x :
  fmt_ok F -> 0 < w -> (0 < n)%nat -> 0 <= x < 2 ^ fbits F ->
  FromPrimitive_float dbg F w n dsg x <> Panic.
Proof. intros. rewrite FromPrimitive_float_ok by auto. discriminate. Qed.

(* ================================================================== *)
(** * 8. Float results: to_f32 / to_f64 / as_ f32 / f64 (premise: C14's integer -> float cast returns a float),
        as_ from f32 / f64 (no premise: C14's float -> integer theorems with their premises discharged) *)

Lemma fmt_ok_of F : F = F32 \/ F = F64 -> fmt_ok F.
Proof. intros [-> | ->]; [apply fmt_ok_F32 | apply fmt_ok_F64]. Qed.

Theorem AsPrimitive_to_float_total dbg F w n (ss : bool) a :
  cast_float_from_uint_total_spec ->
  F = F32 \/ F = F64 -> 0 < w -> (0 < n)%nat -> wf w n a ->
  exists r, AsPrimitive_to_float dbg F w ss a = Ret r /\ 0 <= r < 2 ^ fbits F.
Proof.
  intros Hspec HF Hw Hn Hwf. unfold AsPrimitive_to_float, I_to_float, U_to_float. destruct ss.
  - destruct (Bnum.Proofs.AddSub.I_unsigned_abs_ok w n a Hw Hn Hwf) as [Hwfa _].
    destruct (Hspec dbg F w n (I_unsigned_abs w a) HF Hw Hwfa) as (r & Hr & Hrange).
    rewrite Hr. cbn [obind]. destruct (is_negative w a).
    + exists (f_neg F r). split; [reflexivity|]. apply (f_neg_fields F r (fmt_ok_of F HF) Hrange).
    + exists r. auto.
  - exact (Hspec dbg F w n a HF Hw Hwf).
Qed.

(* to_float: to_f32 / to_f64 are always Some, of the C14 cast; no panic *)
Theorem ToPrimitive_float_total dbg F w n (ss : bool) a :
  cast_float_from_uint_total_spec ->
  F = F32 \/ F = F64 -> 0 < w -> (0 < n)%nat -> wf w n a ->
  exists r, ToPrimitive_float dbg F w ss a = Ret (Some r) /\ AsPrimitive_to_float dbg F w ss a = Ret r /\
            0 <= r < 2 ^ fbits F.
Proof.
  intros Hspec HF Hw Hn Hwf.
  destruct (AsPrimitive_to_float_total dbg F w n ss a Hspec HF Hw Hn Hwf) as (r & Hr & Hrange).
  exists r. split; [|auto]. destruct (ToPrimitive_float_is_cast dbg F w ss a) as [_ E]. rewrite E, Hr. reflexivity.
Qed.

(* as_ from a float is the saturating, truncating C14 cast; no panic *)
Theorem AsPrimitive_from_float_ok dbg F w n (dsg : bool) x :
  fmt_ok F -> 0 < w -> (0 < n)%nat -> 0 <= x < 2 ^ fbits F ->
  exists r, AsPrimitive_from_float dbg F w n dsg x = Ret r /\ wf w n r /\
            source_value dsg w r = if dsg then float_to_S_spec F (Mod w n) x else float_to_U_spec F (Mod w n) x.
Proof.
  intros Hok Hw Hn Hx. unfold AsPrimitive_from_float, source_value. destruct dsg.
  - apply I_from_float_ok'; auto.
  - apply U_from_float_ok; auto.
Qed.

Theorem AsPrimitive_from_char_ok w n (dsg : bool) c : 0 < w -> 0 <= c < 1114112 ->
  exists r, AsPrimitive_from_char w n dsg c = Ret r /\ wf w n r /\ uval w r = c mod Mod w n.
Proof. intros. unfold AsPrimitive_from_char. apply from_char_ok; auto. Qed.

Theorem AsPrimitive_from_bool_ok w n (dsg b : bool) : 0 < w ->
  wf w n (AsPrimitive_from_bool n dsg b) /\ uval w (AsPrimitive_from_bool n dsg b) = (if b then 1 else 0) mod Mod w n.
Proof. intros Hw. unfold AsPrimitive_from_bool. exact (from_bool_ok w n dsg b Hw). Qed.

(* NumCast::from panics unconditionally (the trait is declared unsupported); the property makes no claim about it *)
Lemma NumCast_panics {A} (x : A) : NumCast_from x = Panic.
Proof. reflexivity. Qed.

(* the two conditional theorems with the premise in front (the form Properties/C19.v states) *)
Theorem ToPrimitive_float_total_cond :
  cast_float_from_uint_total_spec -> forall dbg F w n (ss : bool) a,
  F = F32 \/ F = F64 -> 0 < w -> (0 < n)%nat -> wf w n a ->
  exists r, ToPrimitive_float dbg F w ss a = Ret (Some r) /\ AsPrimitive_to_float dbg F w ss a = Ret r /\
            0 <= r < 2 ^ fbits F.
Proof. intros H dbg F w n ss a. exact (ToPrimitive_float_total dbg F w n ss a H). Qed.

Theorem AsPrimitive_to_float_total_cond :
  cast_float_from_uint_total_spec -> forall dbg F w n (ss : bool) a,
  F = F32 \/ F = F64 -> 0 < w -> (0 < n)%nat -> wf w n a ->
  exists r, AsPrimitive_to_float dbg F w ss a = Ret r /\ 0 <= r < 2 ^ fbits F.
Proof. intros H dbg F w n ss a. exact (AsPrimitive_to_float_total dbg F w n ss a H). Qed.

(* Proofs/ImpLemmas2.v — more reasoning principles for the control-flow vocabulary of Model/Imp.v
   (second batch of tools/rs2v_loops.py): one-step unfolding, loops whose condition is evaluated
   at the top of the body (`while true { if c { .. } else { break } }`: the translation of a `while`
   whose condition can panic), exponent loops (`while pow > 1 { ..; pow >>= 1 }`). *)
From Bnum Require Import Base Prim.
From Bnum.Model Require Import LoopPrims Imp.
From Bnum.Model Require Cast.
From Bnum.Proofs Require Import ImpLemmas.

Lemma while_loop_S {St R : Type} fuel (cond : St -> bool) (body : St -> res (flow St R)) s :
  while_loop (S fuel) cond body s =
  if cond s then
    match body s with
    | Done (Continue s') => while_loop fuel cond body s'
    | Done (Break s') => Done (Exited s')
    | Done (Return r) => Done (Returned r)
    | Panicked => Panicked
    | NoFuel => NoFuel
    end
  else Done (Exited s).
Proof. reflexivity. Qed.

(* ---------- PATTERN: loop_writes for a loop that leaves by `break` at iteration cnt ---------- *)
(* `while true { if j < cnt { out[pos j] = ..; j += 1 } else { break } }`: cnt writing iterations and one more
   that breaks, so the budget must exceed cnt *)
Lemma loop_writes_break {C St R : Type} (mk : list Z -> C -> nat -> St) (pos : nat -> nat) (f : nat -> C -> Z * C)
      (cond : St -> bool) (body : St -> res (flow St R)) (cnt n : nat) :
  (forall s, cond s = true) ->
  (forall out c j, (j < cnt)%nat -> length out = n ->
     body (mk out c j) = Done (Continue (mk (list_set out (pos j) (fst (f j c))) (snd (f j c)) (S j)))) ->
  (forall out c, length out = n -> body (mk out c cnt) = Done (Break (mk out c cnt))) ->
  forall fuel j out c, (j <= cnt)%nat -> (cnt - j < fuel)%nat -> length out = n ->
  while_loop fuel cond body (mk out c j) =
  Done (Exited (mk (fst (run_writes pos f j (cnt - j) out c)) (snd (run_writes pos f j (cnt - j) out c)) cnt)).
Proof.
  intros Hc Hb Hbrk fuel. induction fuel as [|fuel IH]; intros j out c Hj Hf Hlen; [lia|].
  rewrite while_loop_S, Hc. destruct (Nat.eq_dec j cnt) as [->|Hne].
  - rewrite Hbrk by assumption. rewrite Nat.sub_diag. reflexivity.
  - rewrite Hb by first [lia | assumption].
    rewrite IH by first [lia | rewrite list_set_length; assumption].
    replace (cnt - j)%nat with (S (cnt - S j)) by lia. reflexivity.
Qed.

Lemma loop_writes_break0 {C St R : Type} (mk : list Z -> C -> nat -> St) (pos : nat -> nat) (f : nat -> C -> Z * C)
      (cond : St -> bool) (body : St -> res (flow St R)) (cnt n : nat) fuel out c s0 :
  s0 = mk out c 0%nat -> (forall s, cond s = true) -> (cnt < fuel)%nat -> length out = n ->
  (forall out c j, (j < cnt)%nat -> length out = n ->
     body (mk out c j) = Done (Continue (mk (list_set out (pos j) (fst (f j c))) (snd (f j c)) (S j)))) ->
  (forall out c, length out = n -> body (mk out c cnt) = Done (Break (mk out c cnt))) ->
  while_loop fuel cond body s0 =
  Done (Exited (mk (fst (run_writes pos f 0 cnt out c)) (snd (run_writes pos f 0 cnt out c)) cnt)).
Proof.
  intros -> Hc Hf Hlen Hb Hbrk.
  rewrite (loop_writes_break mk pos f cond body cnt n Hc Hb Hbrk fuel 0%nat out c) by first [lia | assumption].
  rewrite Nat.sub_0_r. reflexivity.
Qed.

(* ---------- exponent loops: `while pow > 1 { .. pow >>= 1 }` ---------- *)

Lemma pos_size_nat_le_log2 p : Pos.size_nat p = S (Z.to_nat (Z.log2 (Zpos p))).
Proof.
  induction p as [p IH|p IH|]; cbn [Pos.size_nat]; [| |reflexivity].
  - rewrite IH. f_equal. rewrite (Pos2Z.inj_xI p), Z.log2_succ_double by lia.
    rewrite Z2Nat.inj_succ by apply Z.log2_nonneg. reflexivity.
  - rewrite IH. f_equal. rewrite (Pos2Z.inj_xO p), Z.log2_double by lia.
    rewrite Z2Nat.inj_succ by apply Z.log2_nonneg. reflexivity.
Qed.

(* scan_idx over the first m digits of two lists *)
Lemma scan_idx_scan2_firstn {C} (g : Z -> Z -> C -> Z * C) a b m c :
  (m <= length a)%nat -> (m <= length b)%nat ->
  scan_idx (fun j c => g (nth j a 0) (nth j b 0) c) 0 m c = scan2 g (firstn m a) (firstn m b) c.
Proof.
  intros Ha Hb.
  pose proof (scan_idx_scan2 g (firstn m a) (firstn m b) (fun j c => g (nth j a 0) (nth j b 0) c) 0%nat c) as H.
  rewrite !firstn_length, !Nat.min_l in H by assumption.
  apply H; [reflexivity|]. intros i c' Hi. cbn [Nat.add]. rewrite !nth_firstn_lt by assumption. reflexivity.
Qed.

Lemma scan2_length {C} (g : Z -> Z -> C -> Z * C) a b c : length a = length b ->
  length (fst (scan2 g a b c)) = length a.
Proof.
  revert b c. induction a as [|x a IH]; intros b c Hl; [reflexivity|].
  destruct b as [|y b]; [discriminate|]. cbn [scan2 fst length]. rewrite IH by (cbn [length] in Hl; lia). reflexivity.
Qed.

Lemma scan2_length_firstn {C} (g : Z -> Z -> C -> Z * C) a b m c : (m <= length a)%nat -> (m <= length b)%nat ->
  length (fst (scan2 g (firstn m a) (firstn m b) c)) = m.
Proof.
  intros Ha Hb. rewrite scan2_length by (rewrite !firstn_length; lia). rewrite firstn_length. lia.
Qed.

(* the loop-invariant rule composed with the code that follows the loop *)
Lemma while_inv_bind {St R A : Type} (Inv : St -> Prop) (m : St -> nat)
      (cond : St -> bool) (body : St -> res (flow St R)) (after : loop_exit St R -> res A) (v : A) :
  (forall s, Inv s -> cond s = true ->
     (0 < m s)%nat /\
     match body s with
     | Done (Continue s') => Inv s' /\ (m s' < m s)%nat
     | Done (Break s') => after (Exited s') = Done v
     | Done (Return r) => after (Returned r) = Done v
     | Panicked | NoFuel => False
     end) ->
  (forall s, Inv s -> cond s = false -> after (Exited s) = Done v) ->
  forall fuel s, Inv s -> (m s <= fuel)%nat ->
  bind (while_loop fuel cond body s) after = Done v.
Proof.
  intros Hstep Hexit fuel s HI Hf.
  destruct (while_loop_inv Inv m (fun e => after e = Done v) cond body Hstep Hexit fuel s HI Hf) as (e & He & HQ).
  rewrite He. exact HQ.
Qed.

(* the measure of `while pow > 1 { ..; pow >>= 1 }`: the number of binary digits of pow after the leading one *)
Definition pow_iters (pow : Z) : nat := match pow with Zpos p => pred (Pos.size_nat p) | _ => 0%nat end.

Lemma pow_iters_log2 pow : pow_iters pow = Z.to_nat (Z.log2 pow).
Proof.
  destruct pow as [|p|p]; try reflexivity. unfold pow_iters. rewrite pos_size_nat_le_log2. reflexivity.
Qed.

Lemma pos_size_nat_pos p : (0 < Pos.size_nat p)%nat.
Proof. destruct p; cbn [Pos.size_nat]; lia. Qed.

Lemma pow_iters_xI p : pow_iters (Zpos p~1) = S (pow_iters (Zpos p)).
Proof. unfold pow_iters. cbn [Pos.size_nat]. pose proof (pos_size_nat_pos p). lia. Qed.
Lemma pow_iters_xO p : pow_iters (Zpos p~0) = S (pow_iters (Zpos p)).
Proof. unfold pow_iters. cbn [Pos.size_nat]. pose proof (pos_size_nat_pos p). lia. Qed.

(* the three tests / updates of the exponent the generated code makes, on a binary numeral *)
Lemma pow_step_xI p : (Zpos p~1 >? 1) = true /\ (ix_and (Zpos p~1) 1 =? 1) = true /\ ix_shr (Zpos p~1) 1 = Zpos p.
Proof. repeat split. Qed.
Lemma pow_step_xO p : (Zpos p~0 >? 1) = true /\ (ix_and (Zpos p~0) 1 =? 1) = false /\ ix_shr (Zpos p~0) 1 = Zpos p.
Proof. repeat split. Qed.

(* ---------- bit addressing: the digit width is a power of two ---------- *)
(* (the same two facts as in LoopsTieC05.v, restated here so that the C06 / C08 ties do not depend on the C05 tie file) *)
Lemma tz32_pow2 m : u_trailing_zeros 32 (2 ^ Z.of_nat m) = Z.of_nat m.
Proof.
  induction m as [|m IH]; [reflexivity|].
  rewrite Nat2Z.inj_succ, Z.pow_succ_r by lia.
  assert (Hp : 0 < 2 ^ Z.of_nat m) by (apply Z.pow_pos_nonneg; lia).
  destruct (2 ^ Z.of_nat m) as [|p|p] eqn:E; try lia.
  change (2 * Z.pos p) with (Z.pos p~0). cbn [u_trailing_zeros tz_pos] in *. rewrite IH. lia.
Qed.

Lemma bit_addr_split w lg rhs : 0 <= lg -> w = 2 ^ lg -> 0 <= rhs ->
  ix_shr rhs (digit_BIT_SHIFT w) = rhs / w /\ ix_and rhs (digit_BITS_MINUS_1 w) = rhs mod w.
Proof.
  intros Hlg -> Hr. unfold ix_shr, ix_and, digit_BIT_SHIFT, digit_BITS_MINUS_1.
  rewrite <- (Z2Nat.id lg) at 1 by lia. rewrite tz32_pow2, Z2Nat.id by lia.
  split; [apply Z.shiftr_div_pow2; lia|].
  replace (2 ^ lg - 1) with (Z.ones lg) by (rewrite Z.ones_equiv; lia). apply Z.land_ones; lia.
Qed.

Lemma arr_get_cases a i : 0 <= i ->
  arr_get a i = if (Z.to_nat i <? length a)%nat then Done (nth (Z.to_nat i) a 0) else Panicked.
Proof.
  intros Hi. unfold arr_get, in_bounds. destruct (Z.leb_spec 0 i); [|lia].
  destruct (Z.ltb_spec i (Z.of_nat (length a))), (Nat.ltb_spec (Z.to_nat i) (length a)); try reflexivity; lia.
Qed.

Lemma arr_set_cases a i v : 0 <= i ->
  arr_set a i v = if (Z.to_nat i <? length a)%nat then Done (list_set a (Z.to_nat i) v) else Panicked.
Proof.
  intros Hi. unfold arr_set, in_bounds. destruct (Z.leb_spec 0 i); [|lia].
  destruct (Z.ltb_spec i (Z.of_nat (length a))), (Nat.ltb_spec (Z.to_nat i) (length a)); try reflexivity; lia.
Qed.

Lemma while_loop_cond_false {St R : Type} fuel (cond : St -> bool) (body : St -> res (flow St R)) s :
  cond s = false -> while_loop fuel cond body s = Done (Exited s).
Proof. intros H. destruct fuel; cbn [while_loop]; rewrite H; reflexivity. Qed.

(* `i << BIT_SHIFT` is i * w for a power-of-two digit width *)
Lemma ix_shl_BIT_SHIFT w lg i : 0 <= lg -> w = 2 ^ lg -> ix_shl i (digit_BIT_SHIFT w) = i * w.
Proof.
  intros Hlg ->. unfold ix_shl, digit_BIT_SHIFT.
  rewrite <- (Z2Nat.id lg) at 1 by lia. rewrite tz32_pow2, Z2Nat.id by lia.
  apply Z.shiftl_mul_pow2. lia.
Qed.

(* the array write of Model/Cast.v (the hand model of the conversion code) is arr_set *)
Lemma wr_as_arr_set out i d :
  match Cast.wr out i d with Ret r => Done r | Panic => Panicked end = arr_set out (Z.of_nat i) d.
Proof.
  unfold Cast.wr. rewrite arr_set_cases by lia. rewrite Nat2Z.id.
  destruct (Nat.ltb_spec i (length out)) as [Hlt|Hge]; [|reflexivity].
  rewrite list_set_split by exact Hlt. reflexivity.
Qed.

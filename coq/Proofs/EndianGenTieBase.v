(* Proofs/EndianGenTieBase.v — lemmas shared by the tie proofs of Generated/EndianGen.v (tools/rs2v_endian.py):
   the byte-addressing arithmetic for a digit of 2^bs bytes, the byte-copy loop (every inner `while` of endian.rs),
   the digit loop `while i < exact` against Model/Endian.v: slice_loop, and the two shapes of the digit store
   (`if i < N { out.digits[i] = digit } else if digit != 0 { return None }` and the macro set_digit!). *)
From Bnum Require Import Base Prim.
From Bnum.Model Require Import LoopPrims Core Shift Imp ImpEndian Endian.
From Bnum.Proofs Require Import ImpLemmas ImpLemmas2.

(* ---------- the digit width: BYTES = 2^bs bytes (Rust: u8 .. u64, bs = 0 .. 3; proved for every bs) ---------- *)

Definition byte_width (w : Z) (bs : nat) : Prop := w = 8 * 2 ^ Z.of_nat bs.

Lemma byte_width_facts w bs : byte_width w bs ->
  digit_BYTES w = Z.of_nat (dbytes w) /\ digit_BYTE_SHIFT w = Z.of_nat bs /\
  Z.of_nat (dbytes w) = 2 ^ Z.of_nat bs /\ (0 < dbytes w)%nat.
Proof.
  intros ->. assert (Hp : 0 < 2 ^ Z.of_nat bs) by (apply Z.pow_pos_nonneg; lia).
  assert (Hd : 8 * 2 ^ Z.of_nat bs / 8 = 2 ^ Z.of_nat bs) by (rewrite Z.mul_comm; apply Z.div_mul; lia).
  unfold digit_BYTE_SHIFT, digit_BYTES, dbytes. rewrite Hd, tz32_pow2, Z2Nat.id by lia.
  repeat split; lia.
Qed.

Section Addr.
Context (w : Z) (bs : nat) (Hbw : byte_width w bs).
Let db := dbytes w.

Lemma addr_shr len : ix_shr (Z.of_nat len) (digit_BYTE_SHIFT w) = Z.of_nat (len / db).
Proof.
  destruct (byte_width_facts w bs Hbw) as (_ & Hs & Hd & Hpos). fold db in Hd, Hpos.
  rewrite Hs. unfold ix_shr. rewrite Z.shiftr_div_pow2 by lia. rewrite <- Hd. symmetry. apply Nat2Z.inj_div.
Qed.

Lemma addr_shl i : ix_shl (Z.of_nat i) (digit_BYTE_SHIFT w) = Z.of_nat (i * db).
Proof.
  destruct (byte_width_facts w bs Hbw) as (_ & Hs & Hd & Hpos). fold db in Hd, Hpos.
  rewrite Hs. unfold ix_shl. rewrite Z.shiftl_mul_pow2 by lia. rewrite <- Hd. lia.
Qed.

Lemma addr_and len : ix_and (Z.of_nat len) (Z.of_nat db - 1) = Z.of_nat (len mod db).
Proof.
  destruct (byte_width_facts w bs Hbw) as (_ & Hs & Hd & Hpos). fold db in Hd, Hpos.
  unfold ix_and. rewrite Hd. replace (2 ^ Z.of_nat bs - 1) with (Z.ones (Z.of_nat bs)) by (rewrite Z.ones_equiv; lia).
  rewrite Z.land_ones by lia. rewrite <- Hd. symmetry. apply Nat2Z.inj_mod.
Qed.

Lemma addr_div_mod len : (len = len / db * db + len mod db)%nat /\ (len mod db < db)%nat.
Proof.
  destruct (byte_width_facts w bs Hbw) as (_ & _ & _ & Hpos). fold db in Hpos.
  split; [rewrite Nat.mul_comm; apply Nat.div_mod; lia | apply Nat.mod_upper_bound; lia].
Qed.

End Addr.

(* ---------- the byte-copy loop ---------- *)
(* `while <j in base .. base+cnt> { buf[d + (j - base)] = src[s + (j - base)]; j += 1 }`, state (j, buf) *)
Lemma copy_loop {R : Type} (src : list Z) (base s d cnt L : nat)
      (cond : Z * list Z -> bool) (body : Z * list Z -> res (flow (Z * list Z) R)) :
  (s + cnt <= length src)%nat -> (d + cnt <= L)%nat ->
  (forall k buf, (k < cnt)%nat -> cond (Z.of_nat (base + k), buf) = true) ->
  (forall buf, cond (Z.of_nat (base + cnt), buf) = false) ->
  (forall k buf, (k < cnt)%nat -> length buf = L ->
     body (Z.of_nat (base + k), buf) =
     Done (Continue (Z.of_nat (base + S k), list_set buf (d + k) (nth (s + k) src 0)))) ->
  forall fuel buf s0, s0 = (Z.of_nat base, buf) -> (cnt <= fuel)%nat -> length buf = L ->
  while_loop fuel cond body s0 =
  Done (Exited (Z.of_nat (base + cnt), firstn d buf ++ firstn cnt (skipn s src) ++ skipn (d + cnt) buf)).
Proof.
  intros Hs Hd Hct Hcf Hb fuel buf s0 -> Hf Hlen.
  assert (Hgen : forall m fuel k buf, (k + m = cnt)%nat -> (m <= fuel)%nat -> length buf = L ->
            while_loop fuel cond body (Z.of_nat (base + k), buf) =
            Done (Exited (Z.of_nat (base + cnt),
                          firstn (d + k) buf ++ firstn m (skipn (s + k) src) ++ skipn (d + cnt) buf))).
  { induction m as [|m IH]; intros fuel' k buf' Hk Hf' Hl.
    - assert (k = cnt) by lia. subst k. rewrite while_loop_cond_false by apply Hcf.
      cbn [firstn app]. rewrite firstn_skipn. reflexivity.
    - destruct fuel' as [|fuel']; [lia|]. rewrite while_loop_S, Hct by lia. rewrite Hb by (assumption || lia).
      rewrite IH by (try rewrite list_set_length; lia).
      do 3 f_equal. replace (d + S k)%nat with (S (d + k)) by lia.
      rewrite firstn_S_list_set by lia. rewrite skipn_list_set_gt by lia.
      rewrite (skipn_nth_cons src (s + k)) by lia. cbn [firstn]. rewrite <- app_assoc. cbn [app].
      replace (s + S k)%nat with (S (s + k)) by lia. reflexivity. }
  rewrite <- (Nat.add_0_r base) at 1. rewrite (Hgen cnt fuel 0%nat buf) by (assumption || lia).
  rewrite !Nat.add_0_r. reflexivity.
Qed.

(* ---------- the digit loop of from_{be,le}_slice ---------- *)
(* `while i < exact { <digit i>; <store or return None>; i += 1 }`, state (out, i) *)
Lemma slice_loop_tie (setd : nat -> Z -> list Z -> option (list Z)) (digit_at : nat -> Z) (n exact : nat)
      (cond : list Z * Z -> bool) (body : list Z * Z -> res (flow (list Z * Z) (option (list Z)))) :
  (forall out i, cond (out, Z.of_nat i) = (i <? exact)%nat) ->
  (forall i d out out', setd i d out = Some out' -> length out = n -> length out' = n) ->
  (forall out i, (i < exact)%nat -> length out = n ->
     body (out, Z.of_nat i) = match setd i (digit_at i) out with
                              | Some out' => Done (Continue (out', Z.of_nat (S i)))
                              | None => Done (Return None)
                              end) ->
  forall fuel out s0, s0 = (out, 0) -> (exact <= fuel)%nat -> length out = n ->
  while_loop fuel cond body s0 =
  match slice_loop setd digit_at exact 0%nat out with
  | Some out' => Done (Exited (out', Z.of_nat exact))
  | None => Done (Returned None)
  end.
Proof.
  intros Hc Hlen Hb fuel out s0 -> Hf Hl.
  assert (Hgen : forall count fuel i out, (i + count = exact)%nat -> (count <= fuel)%nat -> length out = n ->
            while_loop fuel cond body (out, Z.of_nat i) =
            match slice_loop setd digit_at count i out with
            | Some out' => Done (Exited (out', Z.of_nat exact))
            | None => Done (Returned None)
            end).
  { induction count as [|count IH]; intros fuel' i out' Hi Hf' Hl'.
    - assert (i = exact) by lia. subst i. rewrite while_loop_cond_false by (rewrite Hc; apply Nat.ltb_irrefl). reflexivity.
    - destruct fuel' as [|fuel']; [lia|]. rewrite while_loop_S, Hc.
      destruct (Nat.ltb_spec i exact) as [Hlt|?]; [|lia]. rewrite Hb by assumption. cbn [slice_loop].
      destruct (setd i (digit_at i) out') as [out''|] eqn:E; [|reflexivity].
      apply IH; [lia | lia | eapply Hlen; eassumption]. }
  apply (Hgen exact fuel 0%nat out); [reflexivity | assumption | assumption].
Qed.

Lemma slice_loop_length setd digit_at n :
  (forall i d out out', setd i d out = Some out' -> length out = n -> length out' = n) ->
  forall count i out out', slice_loop setd digit_at count i out = Some out' -> length out = n -> length out' = n.
Proof.
  intros Hlen. induction count as [|count IH]; intros i out out' H Hl; cbn [slice_loop] in H.
  - injection H as <-. exact Hl.
  - destruct (setd i (digit_at i) out) as [o|] eqn:E; [|discriminate]. eapply IH; [eassumption | eapply Hlen; eassumption].
Qed.

(* ---------- the digit store ---------- *)

Lemma set_nth_const_list_set v l k : (k < length l)%nat -> set_nth k (fun _ => v) l = list_set l k v.
Proof.
  intros Hk. unfold set_nth. rewrite list_set_split by exact Hk.
  rewrite (skipn_nth_cons l k) by exact Hk. reflexivity.
Qed.

Lemma list_set_out_of_range l k v : (length l <= k)%nat -> list_set l k v = l.
Proof.
  revert k. induction l as [|x l IH]; intros k Hk; [destruct k; reflexivity|].
  cbn [length] in Hk. destruct k; [lia|]. cbn [list_set]. rewrite IH by lia. reflexivity.
Qed.

Lemma U_set_digit_length n i d out out' : U_set_digit n i d out = Some out' -> length out = n -> length out' = n.
Proof.
  unfold U_set_digit. intros H Hl. destruct (i <? n)%nat eqn:E.
  - injection H as <-. apply Nat.ltb_lt in E. rewrite set_nth_const_list_set by lia. rewrite list_set_length. exact Hl.
  - destruct (negb (d =? 0)); [discriminate|]. injection H as <-. exact Hl.
Qed.

Lemma I_set_digit_length w n neg sb i d out out' :
  I_set_digit w n neg sb i d out = Some out' -> length out = n -> length out' = n.
Proof.
  unfold I_set_digit. intros H Hl.
  assert (Hs : forall k, length (set_nth k (fun _ => d) out) = n).
  { intros k. destruct (Nat.lt_ge_cases k (length out)) as [Hk|Hk].
    - rewrite set_nth_const_list_set by lia. rewrite list_set_length. exact Hl.
    - unfold set_nth. rewrite firstn_all2 by lia. rewrite skipn_all2 by lia. rewrite app_nil_r. exact Hl. }
  destruct (i =? n - 1)%nat.
  - destruct (Bool.eqb (sd w d <? 0) neg); [|discriminate]. injection H as <-. apply Hs.
  - destruct (i <? n)%nat; [injection H as <-; apply Hs|].
    destruct (negb (d =? sb)); [discriminate|]. injection H as <-. exact Hl.
Qed.

(* unsigned, inside the digit loop / after it *)
Lemma U_store_step {R : Type} n i d out (k : list Z -> res R) (none : res R) : length out = n ->
  (if Z.of_nat i <? Z.of_nat n then (out' <- arr_set out (Z.of_nat i) d ;; k out')
   else if negb (d =? 0) then none else k out) =
  match U_set_digit n i d out with Some out' => k out' | None => none end.
Proof.
  intros Hl. unfold U_set_digit. rewrite ltb_of_nat. destruct (Nat.ltb_spec i n) as [Hlt|Hge].
  - rewrite arr_set_nat by lia. cbn [bind]. rewrite set_nth_const_list_set by lia. reflexivity.
  - destruct (negb (d =? 0)); reflexivity.
Qed.

(* signed: the expansion of set_digit! *)
Lemma I_store_step {R : Type} w n neg sb i d out (k : list Z -> res R) (none : res R) : length out = n -> (0 < n)%nat ->
  (t <- usub (Z.of_nat n) 1 ;;
   if Z.of_nat i =? t then
     (if Bool.eqb (sd w d <? 0) neg then (out' <- arr_set out (Z.of_nat i) d ;; k out') else none)
   else if Z.of_nat i <? Z.of_nat n then (out' <- arr_set out (Z.of_nat i) d ;; k out')
   else if negb (d =? sb) then none else k out) =
  match I_set_digit w n neg sb i d out with Some out' => k out' | None => none end.
Proof.
  intros Hl Hn. unfold I_set_digit. rewrite usub_ok by lia. cbn [bind].
  replace (Z.of_nat n - 1) with (Z.of_nat (n - 1)) by lia.
  replace (Z.of_nat i =? Z.of_nat (n - 1)) with (i =? n - 1)%nat
    by (destruct (Nat.eqb_spec i (n - 1)), (Z.eqb_spec (Z.of_nat i) (Z.of_nat (n - 1))); try reflexivity; lia).
  rewrite ltb_of_nat. destruct (Nat.eqb_spec i (n - 1)) as [->|Hne].
  - destruct (Bool.eqb (sd w d <? 0) neg); [|reflexivity].
    rewrite arr_set_nat by lia. cbn [bind]. rewrite set_nth_const_list_set by lia. reflexivity.
  - destruct (Nat.ltb_spec i n) as [Hlt|Hge].
    + rewrite arr_set_nat by lia. cbn [bind]. rewrite set_nth_const_list_set by lia. reflexivity.
    + destruct (negb (d =? sb)); reflexivity.
Qed.

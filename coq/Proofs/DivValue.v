(* Proofs/DivValue.v — pure-Z content of Knuth's algorithm D: the quotient-digit estimate.
   Bw = digit base, S = B^(n-2) the scale of the digits below the top three of the window,
   W = wl + S*(u2 + Bw*t) the (n+1)-digit window (t = u_jn*Bw + u_{jn-1} its top two digits),
   V = vl + S*(v2 + Bw*v1) the normalised divisor (2*v1 >= Bw), q the true quotient digit:
   q*V <= W < (q+1)*V. *)
From Coq Require Import ZArith Lia.
Open Scope Z_scope.

Lemma mul_lt_cancel K a b : 0 < K -> K * a < K * b -> a < b.
Proof. intros HK H. nia. Qed.

Lemma mul_le_cancel K a b : 0 < K -> K * a <= K * b -> a <= b.
Proof. intros HK H. nia. Qed.

(* the first estimate t / v1 is not below q *)
Lemma qhat_init_ge Bw S wl vl u2 v1 v2 t q :
  0 < Bw -> 1 <= S -> 0 <= wl < S -> 0 <= vl -> 0 <= u2 < Bw -> 0 <= v2 -> 0 < v1 -> 0 <= t -> 0 <= q ->
  q * (vl + S * (v2 + Bw * v1)) <= wl + S * (u2 + Bw * t) ->
  q <= t / v1.
Proof.
  intros HB HS Hwl Hvl Hu2 Hv2 Hv1 Ht Hq Hle.
  apply Z.div_le_lower_bound; [lia|].
  assert (H1 : q * (S * Bw * v1) <= q * (vl + S * (v2 + Bw * v1))) by (apply Z.mul_le_mono_nonneg_l; nia).
  assert (H2 : wl + S * (u2 + Bw * t) < S * Bw * (t + 1)) by nia.
  assert (H3 : (S * Bw) * (q * v1) < (S * Bw) * (t + 1)) by lia.
  apply mul_lt_cancel in H3; [lia | nia].
Qed.

(* a successful test "qh*v2 > rh*Bw + u2" means qh is too large *)
Lemma qhat_test_gt Bw S wl vl u2 v1 v2 t qh :
  0 < Bw -> 1 <= S -> 0 <= wl < S -> 0 <= vl -> 0 <= qh ->
  u2 + Bw * t < qh * (v2 + Bw * v1) ->
  wl + S * (u2 + Bw * t) < qh * (vl + S * (v2 + Bw * v1)).
Proof.
  intros HB HS Hwl Hvl Hqh Hgt.
  assert (H1 : S * (u2 + Bw * t + 1) <= S * (qh * (v2 + Bw * v1))) by (apply Z.mul_le_mono_nonneg_l; lia).
  assert (H2 : 0 <= qh * vl) by nia.
  nia.
Qed.

(* a failed test means qh exceeds q by at most one *)
Lemma qhat_test_le Bw S wl vl u2 v1 v2 t qh :
  0 < Bw -> 1 <= S -> 0 <= wl -> 0 <= vl < S -> 0 <= v2 -> 0 < v1 -> 0 <= qh < Bw ->
  qh * (v2 + Bw * v1) <= u2 + Bw * t ->
  qh * (vl + S * (v2 + Bw * v1)) < wl + S * (u2 + Bw * t) + (vl + S * (v2 + Bw * v1)).
Proof.
  intros HB HS Hwl Hvl Hv2 Hv1 Hqh Hle.
  assert (H1 : S * (qh * (v2 + Bw * v1)) <= S * (u2 + Bw * t)) by (apply Z.mul_le_mono_nonneg_l; lia).
  assert (H2 : qh * vl < Bw * S) by nia.
  assert (H3 : S * Bw * 1 <= S * Bw * v1) by (apply Z.mul_le_mono_nonneg_l; nia).
  nia.
Qed.

(* when the running remainder reaches Bw the test cannot succeed *)
Lemma qhat_test_skip Bw u2 v1 v2 t qh :
  0 < Bw -> 0 <= u2 -> 0 <= v2 < Bw -> 0 <= qh < Bw ->
  Bw <= t - qh * v1 ->
  qh * (v2 + Bw * v1) <= u2 + Bw * t.
Proof.
  intros HB Hu2 Hv2 Hqh Hrh.
  assert (H1 : qh * v2 <= Bw * Bw) by nia.
  assert (H2 : Bw * Bw <= Bw * (t - qh * v1)) by (apply Z.mul_le_mono_nonneg_l; lia).
  nia.
Qed.

(* the estimate as computed by the code, on values *)
Definition qhat_calc (Bw t u2 v1 v2 : Z) : Z :=
  let qh := t / v1 in
  let rh := t mod v1 in
  if rh * Bw + u2 <? qh * v2 then
    if rh + v1 <? Bw then
      if (rh + v1) * Bw + u2 <? (qh - 1) * v2 then qh - 2 else qh - 1
    else qh - 1
  else qh.

Lemma between_le V W q qh : 0 < V -> q * V <= W -> qh * V < W + V -> W < (q + 1) * V -> qh <= q + 1.
Proof. intros. nia. Qed.

Lemma gt_lt V W q qh : 0 < V -> q * V <= W -> W < qh * V -> q < qh.
Proof. intros. nia. Qed.

Theorem qhat_calc_ok Bw S wl vl u0 u1 u2 v1 v2 q :
  0 < Bw -> 1 <= S -> 0 <= wl < S -> 0 <= vl < S ->
  0 <= u0 < v1 -> 0 <= u1 < Bw -> 0 <= u2 < Bw -> 0 <= v2 < Bw -> v1 < Bw -> Bw <= 2 * v1 ->
  let t := u0 * Bw + u1 in
  let W := wl + S * (u2 + Bw * t) in
  let V := vl + S * (v2 + Bw * v1) in
  0 <= q -> q * V <= W -> W < (q + 1) * V ->
  q <= qhat_calc Bw t u2 v1 v2 <= q + 1.
Proof.
  intros HB HS Hwl Hvl Hu0 Hu1 Hu2 Hv2 Hv1B Hnorm t W V Hq0 Hq1 Hq2.
  assert (Hv1 : 0 < v1) by lia.
  assert (Ht : 0 <= t < v1 * Bw) by (unfold t; nia).
  assert (HV : 0 < V) by (unfold V; nia).
  unfold qhat_calc.
  pose proof (Z.div_mod t v1 ltac:(lia)) as Hdm.
  pose proof (Z.mod_pos_bound t v1 Hv1) as Hrh.
  set (qh := t / v1) in *. set (rh := t mod v1) in *.
  assert (Hqh : 0 <= qh < Bw).
  { split; [apply Z.div_pos; lia | apply Z.div_lt_upper_bound; lia]. }
  assert (Hrh_eq : rh = t - qh * v1) by lia.
  assert (Hge0 : q <= qh).
  { apply (qhat_init_ge Bw S wl vl u2 v1 v2 t q); auto; lia. }
  destruct (Z.ltb_spec (rh * Bw + u2) (qh * v2)) as [T1|T1].
  - (* first correction *)
    assert (Hlt1 : q < qh).
    { apply (gt_lt V W); auto. apply qhat_test_gt; try lia; nia. }
    assert (Hrh1 : rh + v1 = t - (qh - 1) * v1) by lia.
    destruct (Z.ltb_spec (rh + v1) Bw) as [R1|R1].
    + destruct (Z.ltb_spec ((rh + v1) * Bw + u2) ((qh - 1) * v2)) as [T2|T2].
      * (* second correction *)
        assert (Hlt2 : q < qh - 1).
        { apply (gt_lt V W); auto. apply qhat_test_gt; try lia; nia. }
        split; [lia|].
        apply (between_le V W); auto.
        apply qhat_test_le; try lia.
        apply qhat_test_skip; try lia.
      * split; [lia|].
        apply (between_le V W); auto.
        apply qhat_test_le; try lia; nia.
    + split; [lia|].
      apply (between_le V W); auto.
      apply qhat_test_le; try lia.
      apply qhat_test_skip; try lia.
  - split; [lia|].
    apply (between_le V W); auto.
    apply qhat_test_le; try lia; nia.
Qed.

(* the branch u_jn >= v1: the estimate is Bw - 1 *)
Theorem qhat_max_ok Bw S wl vl u0 u1 u2 v1 v2 q :
  2 <= Bw -> 1 <= S -> 0 <= wl < S -> 0 <= vl < S ->
  v1 <= u0 -> 0 <= u1 < Bw -> 0 <= u2 < Bw -> 0 <= v2 < Bw -> 0 < v1 < Bw -> Bw <= 2 * v1 ->
  let t := u0 * Bw + u1 in
  let W := wl + S * (u2 + Bw * t) in
  let V := vl + S * (v2 + Bw * v1) in
  W < V * Bw ->
  0 <= q -> q * V <= W -> W < (q + 1) * V ->
  q <= Bw - 1 <= q + 1.
Proof.
  intros HB HS Hwl Hvl Hu0 Hu1 Hu2 Hv2 Hv1 Hnorm t W V HWV Hq0 Hq1 Hq2.
  assert (HV : 0 < V) by (unfold V; nia).
  split; [nia|].
  assert (HVlt : V < S * Bw * (v1 + 1)) by (unfold V; nia).
  assert (HWge : S * Bw * (Bw * v1) <= W).
  { unfold W, t. assert (S * Bw * (Bw * v1) <= S * Bw * (Bw * u0)) by (apply Z.mul_le_mono_nonneg_l; nia). nia. }
  assert (H1 : (Bw - 2) * V <= (Bw - 2) * (S * Bw * (v1 + 1))) by (apply Z.mul_le_mono_nonneg_l; lia).
  assert (H2 : (Bw - 2) * (v1 + 1) <= Bw * v1) by nia.
  assert (H3 : (S * Bw) * ((Bw - 2) * (v1 + 1)) <= (S * Bw) * (Bw * v1)) by (apply Z.mul_le_mono_nonneg_l; nia).
  assert (H4 : (Bw - 2) * V <= W) by nia.
  assert (H5 : V * (Bw - 2) < V * (q + 1)) by lia.
  apply mul_lt_cancel in H5; lia.
Qed.

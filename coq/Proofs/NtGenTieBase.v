(* Proofs/NtGenTieBase.v — tie between the num-traits / num-integer code GENERATED from /repo/src on every run
   (Generated/NtGen.v, by tools/rs2v_nt.py) and the hand-written model Model/NumTraits.v, part 1: how a model function with
   its OWN budget (`fo A = option (outcome A)`, None = out of budget) is related to generated code on `fuel`
   (`fo_matches`), the unbounded loops (the binary gcd `loop` against `gcd_loop` for EVERY budget; `while_loop` against
   `run_pow2`, the 2^d-step iteration the model's `fixpoint` is written with), and small facts about the vocabulary.
   The ties are structural: no arithmetic fact about gcd or Newton's iteration is used. *)
From Bnum Require Import Base Prim.
From Bnum.Model Require Import Digit DigitPrims Core Shift AddSub Mul Div Bits Pow Imp ImpParse NumTraits.
From Bnum.Model Require Ops.
From Bnum.Proofs Require Import ImpLemmas ImpLemmas2.

(* ---------- the relation the ties are stated with ----------
   `fo_matches m r`: the generated code's result r is what the model's m says - unless the model ran out of ITS budget
   (None), which the C18 theorems exclude (TU_gcd_ok, TU_sqrt_contract ..: `= Some (Ret r)`). *)
Definition fo_matches {A : Type} (m : fo A) (r : res A) : Prop :=
  match m with
  | Some (Ret a) => r = Done a
  | Some Panic => r = Panicked
  | None => True
  end.

(* the exact correspondence, used where model and generated code run on the SAME budget *)
Definition res_of_fo {A : Type} (m : fo A) : res A :=
  match m with
  | Some (Ret a) => Done a
  | Some Panic => Panicked
  | None => NoFuel
  end.

Lemma fo_matches_res_of_fo {A} (m : fo A) r : r = res_of_fo m -> fo_matches m r.
Proof. intros ->. destruct m as [[a|]|]; reflexivity. Qed.

Lemma fo_matches_flift {A} (o : outcome A) : fo_matches (flift o) (of_outcome o).
Proof. destruct o; reflexivity. Qed.

Lemma fo_matches_fret {A} (a : A) : fo_matches (fret a) (Done a).
Proof. reflexivity. Qed.

(* sequencing: generated `x <- r ;; k x` against the model's `fbind m f` *)
Lemma fo_matches_fbind {A C} (m : fo A) (f : A -> fo C) (r : res A) (k : A -> res C) :
  fo_matches m r -> (forall a, fo_matches (f a) (k a)) -> fo_matches (fbind m f) (bind r k).
Proof.
  intros Hm Hk. destruct m as [[a|]|]; cbn [fo_matches fbind] in *; [|subst r; reflexivity|exact I].
  subst r. cbn [bind]. apply Hk.
Qed.

Lemma bind_done_r {A} (x : res A) : bind x (fun a => Done a) = x.
Proof. destruct x; reflexivity. Qed.

Lemma bind_Done {A C} (a : A) (f : A -> res C) : bind (Done a) f = f a.
Proof. reflexivity. Qed.

Lemma of_outcome_obind {A C} (o : outcome A) (f : A -> outcome C) :
  of_outcome (obind o f) = bind (of_outcome o) (fun a => of_outcome (f a)).
Proof. destruct o; reflexivity. Qed.

Lemma of_outcome_omap {A C} (o : outcome A) (f : A -> C) :
  of_outcome (omap f o) = bind (of_outcome o) (fun a => Done (f a)).
Proof. destruct o; reflexivity. Qed.

(* ---------- vocabulary ---------- *)

Lemma Zofnat_eqb_0 k : (Z.of_nat k =? 0) = Nat.eqb k 0.
Proof. destruct k; [reflexivity|]. cbn [Nat.eqb]. apply Z.eqb_neq. lia. Qed.

Lemma arr_get_head d r : arr_get (d :: r) 0 = Done d.
Proof. rewrite arr_get_ok by (cbn [length]; lia). reflexivity. Qed.

Lemma udiv_ok a b : b <> 0 -> udiv a b = Done (a / b).
Proof. intros Hb. unfold udiv. destruct (Z.eqb_spec b 0); [contradiction|reflexivity]. Qed.

(* `x >> 1`, `x << 1` with an integer literal: the literal is an i32 (Rust's fallback), `impl Shr<i32>` converts the amount
   with `u32::try_from` (checked builds) / `as u32` (others): for the constant 1 both give 1 *)
Lemma U_Shr_prim_i32_1 dbg w a : Ops.U_Shr_prim dbg w Ops.AI32 a 1 = U_shr dbg w a 1.
Proof. destruct dbg; reflexivity. Qed.
Lemma U_Shl_prim_i32_1 dbg w a : Ops.U_Shl_prim dbg w Ops.AI32 a 1 = U_shl dbg w a 1.
Proof. destruct dbg; reflexivity. Qed.

Lemma set_nth_length i f ds : length (set_nth i f ds) = length ds.
Proof.
  unfold set_nth. rewrite <- (firstn_skipn i ds) at 3. rewrite !app_length.
  destruct (skipn i ds); reflexivity.
Qed.

Lemma ZERO_length n : length (ZERO n) = n.
Proof. unfold ZERO. apply repeat_length. Qed.

Lemma power_of_two_length w n p r : power_of_two w n p = Ret r -> length r = n.
Proof.
  unfold power_of_two. destruct (_ <? n)%nat; [|discriminate].
  intros E. injection E as <-. rewrite set_nth_length. apply ZERO_length.
Qed.

(* ---------- the binary gcd loop: equal to the model's for EVERY budget ---------- *)

Lemma gcd_loop_tie dbg w btz (cond : list Z * list Z -> bool)
      (body : list Z * list Z -> res (flow (list Z * list Z) (list Z))) :
  (forall s, cond s = true) ->
  (forall a b, body (a, b) =
     let '(a, b) := if cmp_lt (ucmp a b) then (b, a) else (a, b) in
     match U_sub dbg w a b with
     | Panic => Panicked
     | Ret a1 => if is_zero a1 then Done (Return (shl_internal w b btz))
                 else Done (Continue (shr_pad_internal w false a1 (trailing_zeros w a1), b))
     end) ->
  forall fuel a b,
    while_loop fuel cond body (a, b) =
    match gcd_loop fuel dbg w a b btz with
    | None => NoFuel
    | Some Panic => Panicked
    | Some (Ret r) => Done (Returned r)
    end.
Proof.
  intros Hc Hb. induction fuel as [|f IH]; intros a b.
  - cbn [while_loop gcd_loop]. rewrite Hc. reflexivity.
  - cbn [while_loop gcd_loop]. rewrite Hc, Hb.
    destruct (cmp_lt (ucmp a b)).
    + destruct (U_sub dbg w b a) as [a1|]; [|reflexivity].
      destruct (is_zero a1); [reflexivity|]. apply IH.
    + destruct (U_sub dbg w a b) as [a1|]; [|reflexivity].
      destruct (is_zero a1); [reflexivity|]. apply IH.
Qed.

(* more budget does not change a result the model has reached *)
Lemma gcd_loop_mono dbg w btz : forall f f' a b o, (f <= f')%nat ->
  gcd_loop f dbg w a b btz = Some o -> gcd_loop f' dbg w a b btz = Some o.
Proof.
  induction f as [|f IH]; intros f' a b o Hle E; [discriminate E|].
  destruct f' as [|f']; [lia|]. cbn [gcd_loop] in *.
  destruct (cmp_lt (ucmp a b)).
  - destruct (U_sub dbg w b a) as [a1|]; [|exact E].
    destruct (is_zero a1); [exact E|]. apply (IH f'); [lia|exact E].
  - destruct (U_sub dbg w a b) as [a1|]; [|exact E].
    destruct (is_zero a1); [exact E|]. apply (IH f'); [lia|exact E].
Qed.

(* ---------- run_pow2 (at most 2^d steps) against while_loop on fuel ---------- *)

Section RunPow2.
  Context {St R X A : Type}.
  Context (step : St -> St + X) (cond : St -> bool) (body : St -> res (flow St R)).
  Context (after : loop_exit St R -> res A) (fin : X -> res A).
  (* one step of the model's iteration is one test of the loop condition + one execution of the body:
     it continues (inl) exactly when the loop does; it stops (inr x) when the condition is false - then the code after the
     loop gives `fin x` - or when the body panics *)
  Context (Hstep : forall s,
    match step s with
    | inl s' => cond s = true /\ body s = Done (Continue s')
    | inr x => (cond s = false /\ after (Exited s) = fin x) \/ (cond s = true /\ body s = Panicked /\ fin x = Panicked)
    end).

  Lemma run_pow2_cont : forall d s s', run_pow2 step d s = inl s' ->
    forall fuel, while_loop (2 ^ d + fuel) cond body s = while_loop fuel cond body s'.
  Proof.
    induction d as [|d IH]; intros s s' E fuel.
    - cbn [run_pow2] in E. pose proof (Hstep s) as H. rewrite E in H. destruct H as [Hc Hb].
      change (2 ^ 0 + fuel)%nat with (S fuel). cbn [while_loop]. rewrite Hc, Hb. reflexivity.
    - cbn [run_pow2] in E. destruct (run_pow2 step d s) as [s1|x] eqn:E1; [|discriminate E].
      replace (2 ^ S d + fuel)%nat with (2 ^ d + (2 ^ d + fuel))%nat by (rewrite Nat.pow_succ_r'; lia).
      rewrite (IH s s1 E1). apply IH. exact E.
  Qed.

  Lemma run_pow2_stop : forall d s x, run_pow2 step d s = inr x ->
    forall fuel, (2 ^ d <= fuel)%nat -> bind (while_loop fuel cond body s) after = fin x.
  Proof.
    induction d as [|d IH]; intros s x E fuel Hf.
    - cbn [run_pow2] in E. pose proof (Hstep s) as H. rewrite E in H.
      destruct H as [[Hc Ha]|(Hc & Hb & Hx)].
      + rewrite while_loop_cond_false by exact Hc. cbn [bind]. exact Ha.
      + destruct fuel as [|fuel]; [cbn in Hf; lia|]. cbn [while_loop]. rewrite Hc, Hb, Hx. reflexivity.
    - cbn [run_pow2] in E. destruct (run_pow2 step d s) as [s1|x1] eqn:E1.
      + rewrite Nat.pow_succ_r' in Hf.
        replace fuel with (2 ^ d + (fuel - 2 ^ d))%nat by lia.
        rewrite (run_pow2_cont d s s1 E1). apply IH; [exact E|lia].
      + injection E as <-. apply IH; [exact E1|]. rewrite Nat.pow_succ_r' in Hf. lia.
  Qed.
End RunPow2.

(* Proofs/FloatGenTieParts.v — the decode / encode helpers of `ConvertFloatParts` (src/cast/float/mod.rs,
   impl_convert_float_parts_for_primitive_float!) and `Bits for u32 / u64` (src/helpers.rs, impl_bits_for_uint!): the functions
   GENERATED from /repo/src on every run (Generated/FloatGen.v, by tools/rs2v_float.py) equal the hand-written model
   Model/FloatCast.v, for every float format with `fmt_ok F` (f32 and f64 satisfy it) whose mantissa word has at least 32 bits,
   every bit pattern, both build modes.  Each tie also shows that no shift amount is out of range and no `u32` subtraction
   underflows (the generated code checks them, the hand model does not). *)
From Bnum Require Import Base Prim.
From Bnum.Model Require Import Core Imp ImpFloat.
From Bnum.Model Require FloatCast.
From Bnum.Generated Require Import FloatGen.
From Bnum.Proofs Require Import ImpLemmas FloatCastDeps FloatCast FloatCastTo.
Import Bnum.Model.FloatCast.
Local Open Scope Z_scope.

(* ---------- small facts ---------- *)

Lemma of_outcome_obind {A C} (o : outcome A) (f : A -> outcome C) :
  of_outcome (obind o f) = bind (of_outcome o) (fun a => of_outcome (f a)).
Proof. destruct o; reflexivity. Qed.

Lemma bind_done_r {A} (x : res A) : bind x (fun a => Done a) = x.
Proof. destruct x; reflexivity. Qed.

Lemma fmt_bits F : fmt_ok F -> 2 <= fp F /\ 2 <= ebits F <= 31 /\ fbits F = fp F + ebits F /\ fp F < 2 ^ 30.
Proof.
  intros (Hp & He & Hm). unfold ebits in *. repeat split; try lia.
  unfold MAX_EXP, ebits in Hm. pose proof (pow2_le (fbits F - fp F - 1) 30 ltac:(lia)). lia.
Qed.

Lemma ud_small k x : 0 <= x < 2 ^ k -> ud k x = x.
Proof. intros H. unfold ud, B. apply Z.mod_small. exact H. Qed.

Lemma sd_small k x : 0 < k -> 0 <= x < 2 ^ (k - 1) -> sd k x = x.
Proof.
  intros Hk H. unfold sd, to_signed, B.
  assert (H2 : 2 ^ k / 2 = 2 ^ (k - 1)).
  { replace k with (k - 1 + 1) at 1 by lia. rewrite Z.pow_add_r, Z.pow_1_r by lia. apply Z.div_mul. lia. }
  rewrite H2. destruct (Z.ltb_spec x (2 ^ (k - 1))); [reflexivity | lia].
Qed.

(* the checked operations of the generated code with their side conditions discharged by lia *)
Ltac step := cbn [bind negb]; repeat (first [rewrite usub_ok by lia | rewrite dshl_ok by lia | rewrite dshr_ok by lia]; cbn [bind negb]).

(* ---------- Bits for the mantissa words ---------- *)

(* `(Self::BITS - self.leading_zeros()) as ExpType` *)
Lemma floatgen_mant_bits F x : 0 <= fbits F -> 0 <= x < 2 ^ fbits F ->
  FloatGen.mant_bits F x = Done (bitlen x).
Proof.
  intros Hb Hx. unfold FloatGen.mant_bits, u_leading_zeros.
  pose proof (bitlen_nonneg x). rewrite usub_ok by lia. cbn [bind]. f_equal. lia.
Qed.

(* `self & (1 << index) != 0` *)
Lemma floatgen_mant_bit F x i : 0 <= i < fbits F ->
  FloatGen.mant_bit F x i = Done (m_bit (fbits F) x i).
Proof. intros Hi. unfold FloatGen.mant_bit, m_bit. rewrite dshl_ok by lia. reflexivity. Qed.

(* ---------- decoding ---------- *)

Lemma floatgen_into_raw_parts F x : fmt_ok F -> 0 <= x < 2 ^ fbits F ->
  FloatGen.into_raw_parts F x = Done (into_raw_parts F x).
Proof.
  intros Hok Hx. destruct (fmt_bits F Hok) as (Hp & He & Hfb & _).
  pose proof (raw_parts_spec F x Hok Hx) as Hraw.
  destruct (f_decomp F x Hok Hx) as (S & _ & _ & HE & _).
  unfold FloatGen.into_raw_parts. unfold into_raw_parts in *.
  rewrite (dshr_ok (fbits F) _ 1) by lia. cbn [bind].
  rewrite (usub_ok (fp F) 1) by lia. cbn [bind].
  rewrite dshr_ok by lia. cbn [bind].
  rewrite (usub_ok (fbits F)) by lia. cbn [bind].
  rewrite dshr_ok by lia. cbn [bind].
  pose proof (f_equal (fun t => snd (fst t)) Hraw) as HEq. cbn [fst snd] in HEq.
  rewrite HEq. rewrite ud_small; [reflexivity|].
  split; [lia|]. eapply Z.lt_le_trans; [apply HE | apply pow2_le; lia].
Qed.

(* what the biased parts are, with their ranges *)
Lemma biased_parts_range F x : fmt_ok F -> 0 <= x < 2 ^ fbits F ->
  exists s e m, into_biased_parts F x = (s, e, m) /\ 1 <= e < 2 ^ ebits F /\ 0 <= m < 2 ^ fp F.
Proof.
  intros Hok Hx. destruct (fmt_bits F Hok) as (Hp & He & Hfb & _).
  destruct (f_decomp F x Hok Hx) as (S & _ & _ & HE & Hm & _).
  destruct (fmt_pows F Hok) as (HP & HQ & _ & _ & _ & _ & _ & H2P).
  unfold into_biased_parts. rewrite raw_parts_spec by assumption.
  destruct (Z.eqb_spec (f_E F x) 0) as [E0|E0].
  - eexists _, _, _. split; [reflexivity|]. split; lia.
  - eexists _, _, _. split; [reflexivity|]. split; [lia|].
    rewrite u_shl_one by lia. unfold u_or. rewrite Z.lor_comm.
    pose proof (lor_mul_pow2_add 1 (f_m F x) (fp F - 1) ltac:(lia) Hm) as Hl. rewrite Z.mul_1_l in Hl.
    rewrite Hl. lia.
Qed.

Lemma floatgen_into_biased_parts F x : fmt_ok F -> 0 <= x < 2 ^ fbits F ->
  FloatGen.into_biased_parts F x = Done (into_biased_parts F x).
Proof.
  intros Hok Hx. destruct (fmt_bits F Hok) as (Hp & He & Hfb & _).
  unfold FloatGen.into_biased_parts. rewrite floatgen_into_raw_parts by assumption. cbn [bind].
  unfold into_biased_parts. destruct (into_raw_parts F x) as [[sign exp] mant].
  destruct (exp =? 0); [reflexivity|].
  rewrite usub_ok by lia. cbn [bind]. rewrite dshl_ok by lia. reflexivity.
Qed.

Lemma floatgen_into_signed_biased_parts F x : fmt_ok F -> 0 <= x < 2 ^ fbits F ->
  FloatGen.into_signed_biased_parts F x = Done (into_signed_biased_parts F x).
Proof.
  intros Hok Hx. destruct (fmt_bits F Hok) as (Hp & He & Hfb & _).
  unfold FloatGen.into_signed_biased_parts. rewrite floatgen_into_biased_parts by assumption. cbn [bind].
  unfold into_signed_biased_parts.
  destruct (biased_parts_range F x Hok Hx) as (s & e & m & -> & Hrange & _).
  rewrite sd_small; [reflexivity | lia |].
  split; [lia|]. eapply Z.lt_le_trans; [apply Hrange | apply pow2_le; lia].
Qed.

Lemma floatgen_into_signed_parts F x : fmt_ok F -> 0 <= x < 2 ^ fbits F ->
  FloatGen.into_signed_parts F x = Done (into_signed_parts F x).
Proof.
  intros Hok Hx. unfold FloatGen.into_signed_parts. rewrite floatgen_into_signed_biased_parts by assumption. cbn [bind].
  unfold into_signed_parts. destruct (into_signed_biased_parts F x) as [[sign exp] mant]. reflexivity.
Qed.

Lemma floatgen_into_normalised_signed_parts F x : fmt_ok F -> 0 <= x < 2 ^ fbits F ->
  FloatGen.into_normalised_signed_parts F x = Done (into_normalised_signed_parts F x).
Proof.
  intros Hok Hx. destruct (fmt_bits F Hok) as (Hp & He & Hfb & Hp30).
  unfold FloatGen.into_normalised_signed_parts. rewrite floatgen_into_signed_parts by assumption. cbn [bind].
  unfold into_normalised_signed_parts, into_signed_parts, into_signed_biased_parts.
  destruct (biased_parts_range F x Hok Hx) as (s & e & m & -> & _ & Hm).
  pose proof (bitlen_le m (fp F) ltac:(lia) Hm) as Hbl. pose proof (bitlen_nonneg m) as Hbl0.
  rewrite usub_ok by lia. cbn [bind].
  destruct ((m =? 0) || (fp F - bitlen m =? 0)); [reflexivity|].
  rewrite dshr_ok by lia. cbn [bind].
  rewrite sd_small; [reflexivity | lia |].
  split; [lia|]. eapply Z.le_lt_trans with (fp F); [lia|]. pose proof (pow2_le 30 31 ltac:(lia)). lia.
Qed.

(* ---------- encoding ---------- *)

Lemma floatgen_from_raw_parts dbg F sign e m : fmt_ok F -> 32 <= fbits F -> 0 <= e < 2 ^ 32 ->
  FloatGen.from_raw_parts dbg F sign e m = of_outcome (from_raw_parts dbg F sign e m).
Proof.
  intros Hok H32 He32. destruct (fmt_bits F Hok) as (Hp & He & Hfb & _).
  unfold FloatGen.from_raw_parts, from_raw_parts.
  assert (Hud : ud (fbits F) e = e).
  { apply ud_small. split; [lia|]. eapply Z.lt_le_trans; [apply He32 | apply pow2_le; lia]. }
  destruct dbg; cbn [andb bind]; step.
  - destruct (bitlen m <=? fp F - 1); cbn [negb]; [|reflexivity].
    step. rewrite Hud. destruct sign; [|reflexivity]. step. reflexivity.
  - rewrite Hud. destruct sign; [|reflexivity]. step. reflexivity.
Qed.

Lemma floatgen_from_biased_parts dbg F sign e m : fmt_ok F -> 32 <= fbits F -> 0 <= e < 2 ^ 32 ->
  FloatGen.from_biased_parts dbg F sign e m = of_outcome (from_biased_parts dbg F sign e m).
Proof.
  intros Hok H32 He32. destruct (fmt_bits F Hok) as (Hp & He & Hfb & _).
  unfold FloatGen.from_biased_parts, from_biased_parts.
  rewrite Bool.negb_involutive.
  destruct (dbg && (e =? 0)); [reflexivity|].
  step.
  destruct (m_bit (fbits F) m (fp F - 1)).
  - step. rewrite floatgen_from_raw_parts by assumption. apply bind_done_r.
  - destruct (dbg && negb (e =? 1)); [reflexivity|].
    cbv zeta. rewrite floatgen_from_raw_parts by (try assumption; lia). apply bind_done_r.
Qed.

Lemma floatgen_from_signed_biased_parts dbg F sign e m : fmt_ok F -> 32 <= fbits F ->
  FloatGen.from_signed_biased_parts dbg F sign e m = of_outcome (from_signed_biased_parts dbg F sign e m).
Proof.
  intros Hok H32. unfold FloatGen.from_signed_biased_parts, from_signed_biased_parts.
  rewrite Bool.negb_involutive.
  destruct (dbg && (e <? 0)); [reflexivity|]. cbv zeta.
  rewrite floatgen_from_biased_parts; [apply bind_done_r | assumption | assumption |].
  unfold ud, B. apply Z.mod_pos_bound. lia.
Qed.

Lemma floatgen_from_signed_parts dbg F sign e m : fmt_ok F -> 32 <= fbits F ->
  FloatGen.from_signed_parts dbg F sign e m = of_outcome (from_signed_parts dbg F sign e m).
Proof.
  intros Hok H32. unfold FloatGen.from_signed_parts, from_signed_parts, EXP_BIAS. cbv zeta.
  rewrite floatgen_from_signed_biased_parts by assumption. apply bind_done_r.
Qed.

(* Proofs/DischargeParse.v — the premises of the C10 development (Proofs/ParseDeps.v) discharged by
   the theorems of the owners of the other models: Proofs/AddSub.v (C01), Proofs/Bits.v (C06),
   Proofs/Cmp.v (C07).  Names are qualified: RadixOutDeps / PowDeps define premises with the same
   short names and different statements. *)
From Bnum Require Import Base Prim.
From Bnum.Model Require Import Digit Core Shift AddSub Bits.
From Bnum.Proofs Require AddSub Bits Cmp ParseDeps.

(* ---------- value-level bridges ---------- *)

(* a multiple of 2^k whose bit k is set is an odd multiple of 2^k *)
Lemma odd_multiple_of_pow2 A k : 0 <= k -> A mod 2 ^ k = 0 -> Z.testbit A k = true ->
  exists q, A = (2 * q + 1) * 2 ^ k.
Proof.
  intros Hk Hm Hb. pose proof (Z.pow_pos_nonneg 2 k ltac:(lia) Hk) as Hp.
  rewrite Z.testbit_true in Hb by lia.
  exists (A / 2 ^ k / 2).
  pose proof (Z.div_mod A (2 ^ k) ltac:(lia)) as H1.
  pose proof (Z.div_mod (A / 2 ^ k) 2 ltac:(lia)) as H2.
  rewrite Hm in H1. rewrite Hb in H2. rewrite <- H2. lia.
Qed.

(* the sign of the two's complement reading is the top half of the unsigned range *)
Lemma to_signed_neg_iff M v : 0 < M -> 0 <= v < M -> (to_signed M v <? 0) = (M / 2 <=? v).
Proof.
  intros HM Hv. unfold to_signed.
  assert (0 <= M / 2) by (apply Z.div_pos; lia).
  destruct (Z.ltb_spec v (M / 2)); destruct (Z.leb_spec (M / 2) v); lia.
Qed.

(* ---------- the premises ---------- *)

Lemma U_overflowing_add_spec_holds : ParseDeps.U_overflowing_add_spec.
Proof. intros w n a b Hw Ha Hb. exact (AddSub.U_overflowing_add_ok w n a b Hw Ha Hb). Qed.

Lemma bit_spec_holds : ParseDeps.bit_spec.
Proof.
  intros w n ds i Hw Hds Hi. rewrite (Bits.bit_ok w n ds i Hw Hds) by lia.
  destruct (Z.ltb_spec i (bits w n)); [reflexivity | lia].
Qed.

Lemma trailing_zeros_spec_holds : ParseDeps.trailing_zeros_spec.
Proof.
  intros w n ds Hw Hds. destruct (Bits.trailing_zeros_ok w n ds Hw Hds) as [H0 H1].
  split; [exact H0|]. intros Hnz. destruct (H1 Hnz) as (Hr & Hm & Hb).
  split; [lia|]. apply odd_multiple_of_pow2; [lia | exact Hm | exact Hb].
Qed.

Lemma I_wrapping_neg_spec_holds : ParseDeps.I_wrapping_neg_spec.
Proof.
  intros w n a Hw Hn Ha. pose proof (AddSub.I_overflowing_neg_ok w n a Hw Hn Ha) as H.
  unfold I_wrapping_neg. destruct (I_overflowing_neg w a) as [r f]. cbn [fst].
  destruct H as (Hr & Hs & _). split; [exact Hr|].
  pose proof (Mod_pos w n ltac:(lia)) as HM.
  pose proof (uval_bounds w n r ltac:(lia) Hr) as Hb.
  rewrite <- (Z.mod_small (uval w r) (Mod w n)) by exact Hb.
  rewrite <- (sval_mod w n r Hw Hr), Hs, wrapS_mod by exact HM.
  (* (- sval a) mod M = (- uval a) mod M *)
  pose proof (sval_mod w n a Hw Ha) as Ha'.
  rewrite <- (Z.sub_0_l (sval w a)), <- (Z.sub_0_l (uval w a)).
  rewrite (Zminus_mod 0 (sval w a)), (Zminus_mod 0 (uval w a)), Ha'. reflexivity.
Qed.

Lemma is_negative_spec_holds : ParseDeps.is_negative_spec.
Proof.
  intros w n a Hw Hn Ha. rewrite (Cmp.is_negative_ok w n a Hw Hn Ha).
  unfold sval. rewrite (wf_length _ _ _ Ha).
  apply to_signed_neg_iff; [apply Mod_pos; lia | apply uval_bounds; [lia | exact Ha]].
Qed.

(* Proofs/EndianGenTieU.v — src/buint/endian.rs: from_be / from_le / to_be / to_le and from_be_slice / from_le_slice, GENERATED from
   /repo/src on every run (Generated/EndianGen.v, by tools/rs2v_endian.py), equal the hand-written model Model/Endian.v,
   for every digit of 2^bs bytes, every digit count N (N = 0 included), every byte slice (no condition on the bytes).
   The budget must cover the longest loop: the digits of the slice and the bytes of a digit. *)
From Bnum Require Import Base Prim.
From Bnum.Model Require Import LoopPrims Core Shift Imp ImpEndian Endian.
From Bnum.Generated Require Import EndianGen.
From Bnum.Proofs Require Import ImpLemmas ImpLemmas2 EndianGenTieBase.

(* ---------- from_be / from_le / to_be / to_le (little-endian target; swap_bytes by its hand-model name) ---------- *)

Lemma gen_from_be w N fuel x : EndianGen.from_be w N fuel x = Done (U_from_be w x).
Proof. reflexivity. Qed.
Lemma gen_from_le w N fuel x : EndianGen.from_le w N fuel x = Done (U_from_le x).
Proof. reflexivity. Qed.
Lemma gen_to_be w N fuel x : EndianGen.to_be w N fuel x = Done (U_to_be w x).
Proof. reflexivity. Qed.
Lemma gen_to_le w N fuel x : EndianGen.to_le w N fuel x = Done (U_to_le x).
Proof. reflexivity. Qed.

(* ---------- from_le_slice / from_be_slice ---------- *)

Lemma exact_le_len len db : (0 < db)%nat -> (len / db <= len)%nat.
Proof. intros H. apply Nat.div_le_upper_bound; nia. Qed.

Lemma eqb_of_nat_0 a : (Z.of_nat a =? 0) = (a =? 0)%nat.
Proof. destruct (Nat.eqb_spec a 0), (Z.eqb_spec (Z.of_nat a) 0); try reflexivity; lia. Qed.

Lemma gen_from_le_slice w bs n slice fuel : byte_width w bs ->
  (length slice <= fuel)%nat -> (dbytes w <= fuel)%nat ->
  EndianGen.from_le_slice w (Z.of_nat n) fuel slice = Done (U_from_le_slice w n slice).
Proof.
  intros Hbw Hf1 Hf2.
  destruct (byte_width_facts w bs Hbw) as (HB & HS & Hpow & Hpos).
  pose proof (addr_div_mod w bs Hbw (length slice)) as [Hdm Hmod].
  unfold EndianGen.from_le_slice, U_from_le_slice. cbv zeta.
  set (db := dbytes w) in *. set (len := length slice) in *. set (exact := (len / db)%nat) in *.
  rewrite (addr_shr w bs Hbw). fold db. fold exact. rewrite HB, Nat2Z.id.
  rewrite (slice_loop_tie (U_set_digit n) (fun i => u_from_le_bytes (sub_bytes slice (i * db) db)) n exact)
    with (out := ZERO n).
  - destruct (slice_loop _ _ _ _ _) as [out|] eqn:Eloop; [|reflexivity]. cbn [bind].
    assert (Hlo : length out = n).
    { eapply (slice_loop_length (U_set_digit n) _ n (U_set_digit_length n)); [exact Eloop | apply repeat_length]. }
    rewrite usub_ok by lia. cbn [bind]. rewrite (addr_and w bs Hbw). fold db.
    rewrite eqb_of_nat_0.
    destruct (len mod db =? 0)%nat eqn:Erem; [reflexivity|]. apply Nat.eqb_neq in Erem.
    rewrite (addr_shl w bs Hbw). fold db.
    rewrite (copy_loop slice 0 (exact * db) 0 (len - exact * db) db) with (buf := repeat 0 db).
    + cbn [bind]. rewrite (U_store_step n exact _ out (fun o => Done (Some o)) (Done None) Hlo).
      cbn [Nat.add firstn app]. rewrite firstn_all2 by (rewrite skipn_length; fold len; lia).
      rewrite skipn_repeat. destruct (U_set_digit _ _ _ _); reflexivity.
    + fold len. lia.
    + lia.
    + intros k buf Hk. cbv beta iota. apply Z.ltb_lt. lia.
    + intros buf. cbv beta iota. apply Z.ltb_ge. lia.
    + intros k buf Hk Hl. cbv beta iota. cbn [Nat.add].
      replace (Z.of_nat k + Z.of_nat (exact * db)) with (Z.of_nat (exact * db + k)) by lia.
      rewrite arr_get_nat by (fold len; lia). cbn [bind]. rewrite arr_set_nat by lia. cbn [bind].
      rewrite Nat2Z.inj_succ. reflexivity.
    + reflexivity.
    + lia.
    + apply repeat_length.
  - intros out i. apply ltb_of_nat.
  - apply U_set_digit_length.
  - intros out i Hi Hl. rewrite (addr_shl w bs Hbw). fold db.
    assert (Hin : (i * db + db <= len)%nat) by nia.
    rewrite (copy_loop slice (i * db) (i * db) 0 db db) with (buf := repeat 0 db).
    + cbn [bind]. rewrite (U_store_step n i _ out (fun o => Done (Continue (o, Z.of_nat i + 1))) (Done (Return None)) Hl).
      cbn [Nat.add firstn app]. rewrite skipn_repeat, Nat.sub_diag. cbn [repeat]. rewrite app_nil_r.
      unfold sub_bytes. rewrite Nat2Z.inj_succ. reflexivity.
    + fold len. lia.
    + lia.
    + intros k buf Hk. cbv beta iota. apply Z.ltb_lt. lia.
    + intros buf. cbv beta iota. apply Z.ltb_ge. lia.
    + intros k buf Hk Hlb. cbv beta iota. rewrite arr_get_nat by (fold len; lia). cbn [bind].
      rewrite usub_nat by lia. cbn [bind]. replace (i * db + k - i * db)%nat with k by lia.
      rewrite arr_set_nat by lia. cbn [bind Nat.add].
      replace (Z.of_nat (i * db + k) + 1) with (Z.of_nat (i * db + S k)) by lia. reflexivity.
    + reflexivity.
    + lia.
    + apply repeat_length.
  - rewrite Nat2Z.id. reflexivity.
  - pose proof (exact_le_len len db Hpos). unfold exact. lia.
  - apply repeat_length.
Qed.

Lemma gen_from_be_slice w bs n slice fuel : byte_width w bs ->
  (length slice <= fuel)%nat -> (dbytes w <= fuel)%nat ->
  EndianGen.from_be_slice w (Z.of_nat n) fuel slice = Done (U_from_be_slice w n slice).
Proof.
  intros Hbw Hf1 Hf2.
  destruct (byte_width_facts w bs Hbw) as (HB & HS & Hpow & Hpos).
  pose proof (addr_div_mod w bs Hbw (length slice)) as [Hdm Hmod].
  unfold EndianGen.from_be_slice, U_from_be_slice. cbv zeta.
  set (db := dbytes w) in *. set (len := length slice) in *. set (exact := (len / db)%nat) in *.
  rewrite (addr_shr w bs Hbw). fold db. fold exact. rewrite HB, Nat2Z.id.
  rewrite (slice_loop_tie (U_set_digit n) (fun i => u_from_be_bytes (sub_bytes slice (len - db - i * db) db)) n exact)
    with (out := ZERO n).
  - destruct (slice_loop _ _ _ _ _) as [out|] eqn:Eloop; [|reflexivity]. cbn [bind].
    assert (Hlo : length out = n).
    { eapply (slice_loop_length (U_set_digit n) _ n (U_set_digit_length n)); [exact Eloop | apply repeat_length]. }
    rewrite usub_ok by lia. cbn [bind]. rewrite (addr_and w bs Hbw). fold db.
    rewrite eqb_of_nat_0.
    destruct (len mod db =? 0)%nat eqn:Erem; [reflexivity|]. apply Nat.eqb_neq in Erem.
    rewrite (copy_loop slice 0 0 (db - len mod db) (len mod db) db) with (buf := repeat 0 db).
    + cbn [bind]. rewrite (U_store_step n exact _ out (fun o => Done (Some o)) (Done None) Hlo).
      cbn [skipn]. rewrite firstn_repeat, skipn_repeat.
      replace (Nat.min (db - len mod db) db) with (db - len mod db)%nat by lia.
      replace (db - (db - len mod db + len mod db))%nat with 0%nat by lia. cbn [repeat]. rewrite app_nil_r.
      destruct (U_set_digit _ _ _ _); reflexivity.
    + fold len. lia.
    + lia.
    + intros k buf Hk. cbv beta iota. apply Z.ltb_lt. lia.
    + intros buf. cbv beta iota. apply Z.ltb_ge. lia.
    + intros k buf Hk Hl. cbv beta iota. cbn [Nat.add].
      rewrite arr_get_nat by (fold len; lia). cbn [bind]. rewrite usub_nat by lia. cbn [bind].
      replace (Z.of_nat (db - len mod db) + Z.of_nat k) with (Z.of_nat (db - len mod db + k)) by lia.
      rewrite arr_set_nat by lia. cbn [bind]. rewrite Nat2Z.inj_succ. reflexivity.
    + reflexivity.
    + lia.
    + apply repeat_length.
  - intros out i. apply ltb_of_nat.
  - apply U_set_digit_length.
  - intros out i Hi Hl. rewrite (addr_shl w bs Hbw). fold db.
    assert (Hin : (i * db + db <= len)%nat) by nia.
    rewrite usub_nat by lia. cbn [bind].
    rewrite (copy_loop slice (len - db) (len - db - i * db) 0 db db) with (buf := repeat 0 db).
    + cbn [bind]. rewrite (U_store_step n i _ out (fun o => Done (Continue (o, Z.of_nat i + 1))) (Done (Return None)) Hl).
      cbn [Nat.add firstn app]. rewrite skipn_repeat, Nat.sub_diag. cbn [repeat]. rewrite app_nil_r.
      unfold sub_bytes. rewrite Nat2Z.inj_succ. reflexivity.
    + fold len. lia.
    + lia.
    + intros k buf Hk. cbv beta iota. apply Z.ltb_lt. fold len. lia.
    + intros buf. cbv beta iota. apply Z.ltb_ge. fold len. lia.
    + intros k buf Hk Hlb. cbv beta iota. rewrite usub_nat by lia. cbn [bind].
      replace (len - db + k - i * db)%nat with (len - db - i * db + k)%nat by lia.
      rewrite arr_get_nat by (fold len; lia). cbn [bind].
      rewrite usub_nat by lia. cbn [bind]. replace (len - db + k - (len - db))%nat with k by lia.
      rewrite arr_set_nat by lia. cbn [bind Nat.add].
      replace (Z.of_nat (len - db + k) + 1) with (Z.of_nat (len - db + S k)) by lia. reflexivity.
    + reflexivity.
    + lia.
    + apply repeat_length.
  - rewrite Nat2Z.id. reflexivity.
  - pose proof (exact_le_len len db Hpos). unfold exact. lia.
  - apply repeat_length.
Qed.

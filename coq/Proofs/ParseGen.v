(* Proofs/ParseGen.v — the general (chunked) branch of from_buf_radix_internal at the level of the
   list D of input bytes (most significant first, sign removed).
   Invariant of the chunk loop: `out` holds the Horner value of the digits consumed so far, which is
   below 2^BITS; when an overflow is reported the Horner value of the whole input is >= 2^BITS. *)
From Bnum Require Import Base Prim.
From Bnum.Model Require Import Digit Core Shift AddSub Bits Parse.
From Bnum.Proofs Require Import ParseSpec ParseLoops ParseArith ParsePow2 ParseDeps.

Lemma U_checked_add_of_spec : U_overflowing_add_spec ->
  forall w n a b, 0 < w -> wf w n a -> wf w n b ->
  U_checked_add w a b =
    if uval w a + uval w b <? Mod w n then Some (digits_of w n (uval w a + uval w b)) else None.
Proof.
  intros Hadd w n a b Hw Ha Hb. specialize (Hadd w n a b Hw Ha Hb).
  unfold U_checked_add, tuple_to_option. destruct (U_overflowing_add w a b) as [r f]. cbn [fst snd].
  destruct Hadd as (Hr & Hu & Hf). subst f.
  pose proof (uval_bounds w n a ltac:(lia) Ha). pose proof (uval_bounds w n b ltac:(lia) Hb).
  destruct (Z.leb_spec (Mod w n) (uval w a + uval w b)); destruct (Z.ltb_spec (uval w a + uval w b) (Mod w n)); try lia.
  - reflexivity.
  - f_equal. symmetry. apply digits_of_unique; auto. rewrite Hu. apply Z.mod_small. lia.
Qed.

Lemma digits_of_small w n v : 0 < w -> 0 <= v < Mod w n ->
  wf w n (digits_of w n v) /\ uval w (digits_of w n v) = v.
Proof.
  intros Hw Hv. split; [apply digits_of_wf; lia|]. rewrite digits_of_uval by lia. apply Z.mod_small. exact Hv.
Qed.

(* one iteration of the chunk loop *)
Lemma chunk_step (Hadd : U_overflowing_add_spec) fs dbg w n radix base (pw : nat) :
  0 < w -> (0 < n)%nat -> 2 <= radix < B w -> (1 <= pw)%nat -> base = radix ^ Z.of_nat pw -> base < B w ->
  forall f R out, (pw <= length R)%nat -> wf w n out ->
  Forall (fun b => 0 <= dig fs b) R ->
  let C := firstn pw R in
  chunk_list (S f) fs dbg w n radix radix base pw R out =
    if Mod w n <=? uval w out * base then
      (if forallb (okd fs radix) C then PErr PosOverflow else PErr InvalidDigit)
    else if forallb (okd fs radix) C then
      (let s := uval w out * base + horner radix (map (dig fs) C) in
       if s <? Mod w n then chunk_list f fs dbg w n radix radix base pw (skipn pw R) (digits_of w n s)
       else PErr PosOverflow)
    else PErr InvalidDigit.
Proof.
  intros Hw Hn Hr Hpw Hbase HbB f R out HpR Hout HR C.
  assert (Hbase0 : 0 < base) by (subst base; apply Z.pow_pos_nonneg; lia).
  destruct R as [|x R0]; [cbn [length] in HpR; lia|].
  set (R := x :: R0) in *.
  unfold chunk_list; fold chunk_list.
  replace (match R with [] => POk out | _ :: _ => _ end) with
    (let '(out1, carry) := mul_small w out base 0 in
     if negb (carry =? 0) then pbind (check_list fs radix (firstn pw R)) (fun _ => PErr PosOverflow)
     else pbind (acc_list fs dbg w radix radix (firstn pw R) 0) (fun nn =>
            match U_checked_add w out1 (from_digit n nn) with
            | Some out2 => chunk_list f fs dbg w n radix radix base pw (skipn pw R) out2
            | None => PErr PosOverflow
            end)) by (unfold R; reflexivity).
  fold C.
  pose proof (mul_small_spec w base Hw ltac:(lia) n out 0 Hout ltac:(pose proof (B_pos w); lia)) as Hms.
  destruct (mul_small w out base 0) as [out1 carry]. destruct Hms as (Hw1 & Hu1 & Hc1).
  pose proof (uval_bounds w n out ltac:(lia) Hout) as Hbo.
  pose proof (uval_bounds w n out1 ltac:(lia) Hw1) as Hb1.
  pose proof (Mod_pos w n ltac:(lia)) as HM.
  assert (HC : Forall (fun b => 0 <= dig fs b) C) by (apply Forall_firstn; exact HR).
  assert (HlC : length C = pw) by (unfold C; rewrite firstn_length; lia).
  destruct (Z.eqb_spec carry 0) as [E0|E0]; cbn [negb].
  - (* no carry out of the multiplication by base *)
    destruct (Z.leb_spec (Mod w n) (uval w out * base)); [nia|].
    rewrite (acc_list_spec fs dbg w radix C Hw Hr HC 0 ltac:(lia)).
    2: { rewrite HlC, <- Hbase. lia. }
    destruct (forallb (okd fs radix) C) eqn:EC; cbn [pbind]; [|reflexivity].
    pose proof (valid_digits fs radix C HC EC) as HvC.
    pose proof (horner_bounds radix _ ltac:(lia) HvC) as HhC. rewrite map_length, HlC, <- Hbase in HhC.
    rewrite Z.mul_0_l, Z.add_0_l.
    set (c := horner radix (map (dig fs) C)) in *.
    destruct (from_digit_wf w n c ltac:(lia) Hn ltac:(lia)) as (Hwc & Huc).
    rewrite (U_checked_add_of_spec Hadd w n out1 (from_digit n c) Hw Hw1 Hwc). rewrite Huc.
    replace (uval w out1) with (uval w out * base) by lia.
    cbv zeta. destruct (uval w out * base + c <? Mod w n); reflexivity.
  - (* carry: the product already exceeds the type *)
    destruct (Z.leb_spec (Mod w n) (uval w out * base)); [|nia].
    unfold check_list. destruct (forallb (okd fs radix) C); reflexivity.
Qed.

Lemma chunk_list_nil fuel fs dbg w n radix ru base pw out :
  chunk_list fuel fs dbg w n radix ru base pw [] out = POk out.
Proof. destruct fuel; reflexivity. Qed.

Lemma pow_split radix (pw : nat) (R : list Z) : (pw <= length R)%nat -> 0 < radix ->
  radix ^ Z.of_nat (length R) = radix ^ Z.of_nat pw * radix ^ Z.of_nat (length (skipn pw R)).
Proof.
  intros H Hr. rewrite <- Z.pow_add_r by lia. f_equal. rewrite skipn_length. lia.
Qed.

Lemma horner_split fs radix (pw : nat) (R : list Z) :
  horner radix (map (dig fs) R) =
  horner radix (map (dig fs) (firstn pw R)) * radix ^ Z.of_nat (length (skipn pw R)) + horner radix (map (dig fs) (skipn pw R)).
Proof.
  rewrite <- (firstn_skipn pw R) at 1. rewrite map_app, horner_app, map_length. reflexivity.
Qed.

Lemma chunk_list_valid (Hadd : U_overflowing_add_spec) fs dbg w n radix base (pw : nat) :
  0 < w -> (0 < n)%nat -> 2 <= radix < B w -> (1 <= pw)%nat -> base = radix ^ Z.of_nat pw -> base < B w ->
  forall fuel R out, (length R <= fuel)%nat -> (exists m, length R = (m * pw)%nat) -> wf w n out ->
  Forall (fun b => 0 <= dig fs b) R -> forallb (okd fs radix) R = true ->
  chunk_list fuel fs dbg w n radix radix base pw R out =
    let v := uval w out * radix ^ Z.of_nat (length R) + horner radix (map (dig fs) R) in
    if v <? Mod w n then POk (digits_of w n v) else PErr PosOverflow.
Proof.
  intros Hw Hn Hr Hpw Hbase HbB. induction fuel as [|f IH]; intros R out Hf Hm Hout HR Hok.
  - destruct R; [|cbn [length] in Hf; lia]. cbn [chunk_list length map]. rewrite horner_nil, Z.pow_0_r.
    pose proof (uval_bounds w n out ltac:(lia) Hout). cbv zeta.
    replace (uval w out * 1 + 0) with (uval w out) by lia.
    destruct (Z.ltb_spec (uval w out) (Mod w n)); [|lia]. f_equal. symmetry. apply digits_of_unique; auto.
  - destruct (Nat.eq_dec (length R) 0) as [E0|E0].
    + destruct R; [|discriminate]. rewrite chunk_list_nil. cbn [length map]. rewrite horner_nil, Z.pow_0_r.
      pose proof (uval_bounds w n out ltac:(lia) Hout). cbv zeta.
      replace (uval w out * 1 + 0) with (uval w out) by lia.
      destruct (Z.ltb_spec (uval w out) (Mod w n)); [|lia]. f_equal. symmetry. apply digits_of_unique; auto.
    + destruct Hm as (m & Hm).
      assert (HpR : (pw <= length R)%nat) by (destruct m; [lia | nia]).
      rewrite (chunk_step Hadd fs dbg w n radix base pw Hw Hn Hr Hpw Hbase HbB f R out HpR Hout HR).
      set (C := firstn pw R). set (R' := skipn pw R).
      assert (HokC : forallb (okd fs radix) C = true) by (apply forallb_firstn_true; exact Hok).
      assert (HokR' : forallb (okd fs radix) R' = true) by (apply forallb_skipn_true; exact Hok).
      rewrite HokC.
      pose proof (valid_digits fs radix C (Forall_firstn _ _ _ HR) HokC) as HvC.
      pose proof (valid_digits fs radix R' (Forall_skipn _ _ _ HR) HokR') as HvR'.
      pose proof (horner_bounds radix _ ltac:(lia) HvC) as HhC.
      pose proof (horner_bounds radix _ ltac:(lia) HvR') as HhR'.
      pose proof (uval_bounds w n out ltac:(lia) Hout) as Hbo.
      assert (Hp' : 0 < radix ^ Z.of_nat (length R')) by (apply Z.pow_pos_nonneg; lia).
      assert (Hbase0 : 0 < base) by (subst base; apply Z.pow_pos_nonneg; lia).
      cbv zeta.
      rewrite (pow_split radix pw R HpR ltac:(lia)), <- Hbase. fold R'.
      rewrite (horner_split fs radix pw R). fold C R'.
      set (c := horner radix (map (dig fs) C)) in *. set (t := horner radix (map (dig fs) R')) in *.
      set (p := radix ^ Z.of_nat (length R')) in *.
      destruct (Z.leb_spec (Mod w n) (uval w out * base)) as [Hov|Hnov].
      * destruct (Z.ltb_spec (uval w out * (base * p) + (c * p + t)) (Mod w n)); [nia | reflexivity].
      * destruct (Z.ltb_spec (uval w out * base + c) (Mod w n)) as [Hs|Hs].
        -- destruct (digits_of_small w n (uval w out * base + c) Hw ltac:(nia)) as (Hw2 & Hu2).
           rewrite (IH R' (digits_of w n (uval w out * base + c))); auto.
           ++ cbv zeta. rewrite Hu2. fold p t.
              replace ((uval w out * base + c) * p + t) with (uval w out * (base * p) + (c * p + t)) by ring.
              reflexivity.
           ++ unfold R'. rewrite skipn_length. lia.
           ++ exists (m - 1)%nat. unfold R'. rewrite skipn_length. nia.
           ++ apply Forall_skipn. exact HR.
        -- destruct (Z.ltb_spec (uval w out * (base * p) + (c * p + t)) (Mod w n)); [nia | reflexivity].
Qed.

Lemma chunk_list_invalid (Hadd : U_overflowing_add_spec) fs dbg w n radix base (pw : nat) :
  0 < w -> (0 < n)%nat -> 2 <= radix < B w -> (1 <= pw)%nat -> base = radix ^ Z.of_nat pw -> base < B w ->
  forall fuel R out, (length R <= fuel)%nat -> (exists m, length R = (m * pw)%nat) -> wf w n out ->
  Forall (fun b => 0 <= dig fs b) R -> forallb (okd fs radix) R = false ->
  exists k, chunk_list fuel fs dbg w n radix radix base pw R out = PErr k /\
            (k = InvalidDigit \/ k = PosOverflow) /\
            ((uval w out + 1) * radix ^ Z.of_nat (length R) <= Mod w n -> k = InvalidDigit).
Proof.
  intros Hw Hn Hr Hpw Hbase HbB. induction fuel as [|f IH]; intros R out Hf Hm Hout HR Hok.
  - destruct R; [discriminate | cbn [length] in Hf; lia].
  - destruct (Nat.eq_dec (length R) 0) as [E0|E0]; [destruct R; discriminate|].
    destruct Hm as (m & Hm).
    assert (HpR : (pw <= length R)%nat) by (destruct m; [lia | nia]).
    rewrite (chunk_step Hadd fs dbg w n radix base pw Hw Hn Hr Hpw Hbase HbB f R out HpR Hout HR).
    set (C := firstn pw R). set (R' := skipn pw R).
    rewrite (forallb_firstn_skipn _ pw R) in Hok. fold C R' in Hok.
    pose proof (uval_bounds w n out ltac:(lia) Hout) as Hbo.
    assert (Hp' : 0 < radix ^ Z.of_nat (length R')) by (apply Z.pow_pos_nonneg; lia).
    assert (Hbase0 : 0 < base) by (subst base; apply Z.pow_pos_nonneg; lia).
    rewrite (pow_split radix pw R HpR ltac:(lia)), <- Hbase. fold R'.
    set (p := radix ^ Z.of_nat (length R')) in *.
    cbv zeta.
    destruct (Z.leb_spec (Mod w n) (uval w out * base)) as [Hov|Hnov].
    + destruct (forallb (okd fs radix) C).
      * exists PosOverflow. split; [reflexivity|]. split; [right; reflexivity|]. intros Hb. nia.
      * exists InvalidDigit. split; [reflexivity|]. split; [left; reflexivity | reflexivity].
    + destruct (forallb (okd fs radix) C) eqn:EC.
      * cbn [andb] in Hok.
        pose proof (valid_digits fs radix C (Forall_firstn _ _ _ HR) EC) as HvC.
        pose proof (horner_bounds radix _ ltac:(lia) HvC) as HhC.
        assert (HlC : length C = pw) by (unfold C; rewrite firstn_length; lia).
        rewrite map_length, HlC, <- Hbase in HhC.
        set (c := horner radix (map (dig fs) C)) in *.
        destruct (Z.ltb_spec (uval w out * base + c) (Mod w n)) as [Hs|Hs].
        -- destruct (digits_of_small w n (uval w out * base + c) Hw ltac:(nia)) as (Hw2 & Hu2).
           destruct (IH R' (digits_of w n (uval w out * base + c))) as (k & Ek & Hk1 & Hk2); auto.
           ++ unfold R'. rewrite skipn_length. lia.
           ++ exists (m - 1)%nat. unfold R'. rewrite skipn_length. nia.
           ++ apply Forall_skipn. exact HR.
           ++ exists k. split; [exact Ek|]. split; [exact Hk1|]. intros Hb. apply Hk2. rewrite Hu2. fold p. nia.
        -- exists PosOverflow. split; [reflexivity|]. split; [right; reflexivity|]. intros Hb. nia.
      * exists InvalidDigit. split; [reflexivity|]. split; [left; reflexivity | reflexivity].
Qed.

(* shape of the first chunk *)
Lemma split_shape (idl power : Z) : 0 < idl -> 1 <= power ->
  let split := if idl mod power =? 0 then power else idl mod power in
  1 <= split <= idl /\ split <= power /\ exists m, 0 <= m /\ idl - split = m * power.
Proof.
  intros Hi Hp. destruct (div_mod_bounds idl power ltac:(lia) ltac:(lia)) as (Hdm & Hrem & Hq).
  cbv zeta. destruct (Z.eqb_spec (idl mod power) 0) as [E0|E0].
  - assert (0 < idl / power) by nia. split; [nia|]. split; [lia|]. exists (idl / power - 1). split; [lia | nia].
  - split; [nia|]. split; [lia|]. exists (idl / power). split; [lia | nia].
Qed.

Lemma gen_list_spec (Hadd : U_overflowing_add_spec) fs dbg w n radix D fuel :
  0 < w -> (0 < n)%nat -> 2 <= radix -> radix < 256 -> radix < B w ->
  D <> [] -> (length D <= fuel)%nat -> Forall (fun b => 0 <= dig fs b) D ->
  if forallb (okd fs radix) D then
    gen_list fuel fs dbg w n radix D =
      let v := horner radix (map (dig fs) D) in
      if v <? Mod w n then POk (digits_of w n v) else PErr PosOverflow
  else
    exists k, gen_list fuel fs dbg w n radix D = PErr k /\ (k = InvalidDigit \/ k = PosOverflow) /\
              (radix ^ Z.of_nat (length D) <= Mod w n -> k = InvalidDigit).
Proof.
  intros Hw Hn Hr2 Hr256 HrB HD0 Hfuel HD.
  destruct (radix_base_spec w radix Hw ltac:(lia)) as (base & power & Erb & Hp1 & Hbase & HbB & _).
  unfold gen_list. rewrite Erb. rewrite (Z.mod_small radix 256) by lia.
  set (idl := Z.of_nat (length D)).
  assert (Hidl : 0 < idl) by (unfold idl; destruct D; [contradiction | cbn [length]; lia]).
  destruct (split_shape idl power Hidl Hp1) as (Hs1 & Hs2 & (m & Hm0 & Hm)).
  set (split := if idl mod power =? 0 then power else idl mod power) in *.
  set (sp := Z.to_nat split). set (pw := Z.to_nat power).
  set (C0 := firstn sp D). set (R := skipn sp D).
  assert (HlC0 : length C0 = sp) by (unfold C0; rewrite firstn_length; unfold sp, idl in *; lia).
  assert (HlR : length R = (Z.to_nat m * pw)%nat).
  { unfold R. rewrite skipn_length. unfold sp, pw, idl in *. nia. }
  assert (Hbase' : base = radix ^ Z.of_nat pw) by (unfold pw; rewrite Z2Nat.id by lia; exact Hbase).
  assert (Hsp_le : radix ^ Z.of_nat sp <= base).
  { rewrite Hbase. unfold sp. rewrite Z2Nat.id by lia. apply Z.pow_le_mono_r; lia. }
  rewrite (acc_list_spec fs dbg w radix C0 Hw ltac:(lia) (Forall_firstn _ _ _ HD) 0 ltac:(lia)).
  2: { rewrite HlC0. lia. }
  rewrite (forallb_firstn_skipn _ sp D). fold C0 R.
  destruct (forallb (okd fs radix) C0) eqn:EC0; cbn [andb pbind].
  - pose proof (valid_digits fs radix C0 (Forall_firstn _ _ _ HD) EC0) as HvC0.
    pose proof (horner_bounds radix _ ltac:(lia) HvC0) as Hh0. rewrite map_length, HlC0 in Hh0.
    rewrite Z.mul_0_l, Z.add_0_l.
    set (first := horner radix (map (dig fs) C0)) in *.
    destruct n as [|k]; [lia|].
    destruct (from_digit_wf w (S k) first ltac:(lia) ltac:(lia) ltac:(lia)) as (Hwo & Huo).
    cbn [from_digit] in Hwo, Huo.
    assert (HfR : (length R <= fuel)%nat) by (unfold R; rewrite skipn_length; lia).
    destruct (forallb (okd fs radix) R) eqn:ER.
    + rewrite (chunk_list_valid Hadd fs dbg w (S k) radix base pw Hw ltac:(lia) ltac:(lia) ltac:(unfold pw; lia)
                 Hbase' HbB fuel R _ HfR (ex_intro _ _ HlR) Hwo (Forall_skipn _ _ _ HD) ER).
      cbv zeta. rewrite Huo. rewrite (horner_split fs radix sp D). fold C0 R first. reflexivity.
    + destruct (chunk_list_invalid Hadd fs dbg w (S k) radix base pw Hw ltac:(lia) ltac:(lia) ltac:(unfold pw; lia)
                  Hbase' HbB fuel R _ HfR (ex_intro _ _ HlR) Hwo (Forall_skipn _ _ _ HD) ER)
        as (kk & Ek & Hk1 & Hk2).
      exists kk. split; [exact Ek|]. split; [exact Hk1|]. intros Hb. apply Hk2. rewrite Huo.
      assert (Hpow : radix ^ Z.of_nat (length D) = radix ^ Z.of_nat sp * radix ^ Z.of_nat (length R)).
      { rewrite <- Z.pow_add_r by lia. f_equal. unfold R. rewrite skipn_length. unfold sp, idl in *. lia. }
      assert (0 < radix ^ Z.of_nat (length R)) by (apply Z.pow_pos_nonneg; lia).
      apply Z.le_trans with (radix ^ Z.of_nat sp * radix ^ Z.of_nat (length R)); [|rewrite <- Hpow; exact Hb].
      apply Z.mul_le_mono_nonneg_r; lia.
  - exists InvalidDigit. split; [reflexivity|]. split; [left; reflexivity | reflexivity].
Qed.

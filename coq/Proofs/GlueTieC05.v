(* Proofs/GlueTieC05.v — glue functions of C05 (shifts, wrapping_next_power_of_two): generated (Generated/Glue.v) = hand-written model.
   Split out of Proofs/GlueTie.v so that an edit of one family's source breaks only that property's check. *)
From Bnum Require Import Base Prim.
From Bnum.Model Require Import Digit Core Shift AddSub Mul Div Bits Pow.
From Bnum.Generated Require Import Glue.
From Bnum.Proofs Require Import GlueTieCommon.

(* ---------- shifts (and wrapping_next_power_of_two) ---------- *)
Lemma glue_U_checked_shl : forall w a r, Glue.U_checked_shl w a r = U_checked_shl w a r.
Proof. glue_tac. Qed.
Lemma glue_U_checked_shr : forall w a r, Glue.U_checked_shr w a r = U_checked_shr w a r.
Proof. glue_tac. Qed.
Lemma glue_U_wrapping_shl : forall w a r, Glue.U_wrapping_shl w a r = U_wrapping_shl w a r.
Proof. glue_tac. Qed.
Lemma glue_U_wrapping_shr : forall w a r, Glue.U_wrapping_shr w a r = U_wrapping_shr w a r.
Proof. glue_tac. Qed.
Lemma glue_U_wrapping_next_power_of_two : forall w a, Glue.U_wrapping_next_power_of_two w a = U_wrapping_next_power_of_two w a.
Proof. glue_tac. Qed.
Lemma glue_U_strict_shl : forall w a r, Glue.U_strict_shl w a r = U_strict_shl w a r.
Proof. glue_tac. Qed.
Lemma glue_U_strict_shr : forall w a r, Glue.U_strict_shr w a r = U_strict_shr w a r.
Proof. glue_tac. Qed.
Lemma glue_I_strict_shl : forall w a r, Glue.I_strict_shl w a r = I_strict_shl w a r.
Proof. glue_tac. Qed.
Lemma glue_I_strict_shr : forall w a r, Glue.I_strict_shr w a r = I_strict_shr w a r.
Proof. glue_tac. Qed.
Lemma glue_U_shl : forall dbg w a r, Glue.U_shl dbg w a r = U_shl dbg w a r.
Proof. glue_tac. Qed.
Lemma glue_U_shr : forall dbg w a r, Glue.U_shr dbg w a r = U_shr dbg w a r.
Proof. glue_tac. Qed.
Lemma glue_I_shl : forall dbg w a r, Glue.I_shl dbg w a r = I_shl dbg w a r.
Proof. glue_tac. Qed.
Lemma glue_I_shr : forall dbg w a r, Glue.I_shr dbg w a r = I_shr dbg w a r.
Proof. glue_tac. Qed.
Lemma glue_I_checked_shl : forall w a r, Glue.I_checked_shl w a r = I_checked_shl w a r.
Proof. glue_tac. Qed.
Lemma glue_I_checked_shr : forall w a r, Glue.I_checked_shr w a r = I_checked_shr w a r.
Proof. glue_tac. Qed.
Lemma glue_I_wrapping_shl : forall w a r, Glue.I_wrapping_shl w a r = I_wrapping_shl w a r.
Proof. glue_tac. Qed.
Lemma glue_I_wrapping_shr : forall w a r, Glue.I_wrapping_shr w a r = I_wrapping_shr w a r.
Proof. glue_tac. Qed.
Lemma glue_U_overflowing_shl : forall w a r, Glue.U_overflowing_shl w a r = U_overflowing_shl w a r.
Proof. glue_tac. Qed.
Lemma glue_U_overflowing_shr : forall w a r, Glue.U_overflowing_shr w a r = U_overflowing_shr w a r.
Proof. glue_tac. Qed.
Lemma glue_I_overflowing_shl : forall w a r, Glue.I_overflowing_shl w a r = I_overflowing_shl w a r.
Proof. glue_tac. Qed.
Lemma glue_I_overflowing_shr : forall w a r, Glue.I_overflowing_shr w a r = I_overflowing_shr w a r.
Proof. glue_tac. Qed.
Lemma glue_U_unchecked_shr_internal : forall w a r, Glue.U_unchecked_shr_internal w a r = shr_pad_internal w false a r.
Proof. glue_tac. Qed.


Definition glue_shift_statement : Prop :=
  (forall w a r, Glue.U_checked_shl w a r = U_checked_shl w a r) /\
  (forall w a r, Glue.U_checked_shr w a r = U_checked_shr w a r) /\
  (forall w a r, Glue.U_wrapping_shl w a r = U_wrapping_shl w a r) /\
  (forall w a r, Glue.U_wrapping_shr w a r = U_wrapping_shr w a r) /\
  (forall w a, Glue.U_wrapping_next_power_of_two w a = U_wrapping_next_power_of_two w a) /\
  (forall w a r, Glue.U_strict_shl w a r = U_strict_shl w a r) /\
  (forall w a r, Glue.U_strict_shr w a r = U_strict_shr w a r) /\
  (forall w a r, Glue.I_strict_shl w a r = I_strict_shl w a r) /\
  (forall w a r, Glue.I_strict_shr w a r = I_strict_shr w a r) /\
  (forall dbg w a r, Glue.U_shl dbg w a r = U_shl dbg w a r) /\
  (forall dbg w a r, Glue.U_shr dbg w a r = U_shr dbg w a r) /\
  (forall dbg w a r, Glue.I_shl dbg w a r = I_shl dbg w a r) /\
  (forall dbg w a r, Glue.I_shr dbg w a r = I_shr dbg w a r) /\
  (forall w a r, Glue.I_checked_shl w a r = I_checked_shl w a r) /\
  (forall w a r, Glue.I_checked_shr w a r = I_checked_shr w a r) /\
  (forall w a r, Glue.I_wrapping_shl w a r = I_wrapping_shl w a r) /\
  (forall w a r, Glue.I_wrapping_shr w a r = I_wrapping_shr w a r) /\
  (forall w a r, Glue.U_overflowing_shl w a r = U_overflowing_shl w a r) /\
  (forall w a r, Glue.U_overflowing_shr w a r = U_overflowing_shr w a r) /\
  (forall w a r, Glue.I_overflowing_shl w a r = I_overflowing_shl w a r) /\
  (forall w a r, Glue.I_overflowing_shr w a r = I_overflowing_shr w a r) /\
  (forall w a r, Glue.U_unchecked_shr_internal w a r = shr_pad_internal w false a r).
Theorem glue_shift_matches_model : glue_shift_statement.
Proof.
  unfold glue_shift_statement. repeat apply conj.
  - exact glue_U_checked_shl.
  - exact glue_U_checked_shr.
  - exact glue_U_wrapping_shl.
  - exact glue_U_wrapping_shr.
  - exact glue_U_wrapping_next_power_of_two.
  - exact glue_U_strict_shl.
  - exact glue_U_strict_shr.
  - exact glue_I_strict_shl.
  - exact glue_I_strict_shr.
  - exact glue_U_shl.
  - exact glue_U_shr.
  - exact glue_I_shl.
  - exact glue_I_shr.
  - exact glue_I_checked_shl.
  - exact glue_I_checked_shr.
  - exact glue_I_wrapping_shl.
  - exact glue_I_wrapping_shr.
  - exact glue_U_overflowing_shl.
  - exact glue_U_overflowing_shr.
  - exact glue_I_overflowing_shl.
  - exact glue_I_overflowing_shr.
  - exact glue_U_unchecked_shr_internal.
Qed.

(* ==== round 2 (tools/mk_gluetie.py) ==== *)
(* rotate_left/right, unbounded_shl/shr of buint/mod.rs and bint/mod.rs; unchecked_shl / unchecked_shr *)
Lemma glue_U_rotate_left : forall w a k, Glue.U_rotate_left w a k = rotate_left w a k.
Proof. glue_tac. Qed.
Lemma glue_U_rotate_right : forall w a k, Glue.U_rotate_right w a k = rotate_right w a k.
Proof. glue_tac. Qed.
Lemma glue_U_unbounded_shl : forall w a k, Glue.U_unbounded_shl w a k = U_unbounded_shl w a k.
Proof. glue_tac. Qed.
Lemma glue_U_unbounded_shr : forall w a k, Glue.U_unbounded_shr w a k = U_unbounded_shr w a k.
Proof. glue_tac. Qed.
Lemma glue_I_rotate_left : forall w a k, Glue.I_rotate_left w a k = rotate_left w a k.
Proof. glue_tac. Qed.
Lemma glue_I_rotate_right : forall w a k, Glue.I_rotate_right w a k = rotate_right w a k.
Proof. glue_tac. Qed.
Lemma glue_I_unbounded_shl : forall w a k, Glue.I_unbounded_shl w a k = I_unbounded_shl w a k.
Proof. glue_tac. Qed.
Lemma glue_I_unbounded_shr : forall w a k, Glue.I_unbounded_shr w a k = I_unbounded_shr w a k.
Proof. glue_tac. Qed.
Lemma glue_U_unchecked_shl : forall w a k, Glue.U_unchecked_shl w a k = U_checked_shl w a k.
Proof. glue_tac. Qed.
Lemma glue_U_unchecked_shr : forall w a k, Glue.U_unchecked_shr w a k = U_checked_shr w a k.
Proof. glue_tac. Qed.
Lemma glue_I_unchecked_shl : forall w a k, Glue.I_unchecked_shl w a k = I_checked_shl w a k.
Proof. glue_tac. Qed.
Lemma glue_I_unchecked_shr : forall w a k, Glue.I_unchecked_shr w a k = I_checked_shr w a k.
Proof. glue_tac. Qed.

Definition glue_rotate_statement : Prop :=
  (forall w a k, Glue.U_rotate_left w a k = rotate_left w a k) /\
  (forall w a k, Glue.U_rotate_right w a k = rotate_right w a k) /\
  (forall w a k, Glue.U_unbounded_shl w a k = U_unbounded_shl w a k) /\
  (forall w a k, Glue.U_unbounded_shr w a k = U_unbounded_shr w a k) /\
  (forall w a k, Glue.I_rotate_left w a k = rotate_left w a k) /\
  (forall w a k, Glue.I_rotate_right w a k = rotate_right w a k) /\
  (forall w a k, Glue.I_unbounded_shl w a k = I_unbounded_shl w a k) /\
  (forall w a k, Glue.I_unbounded_shr w a k = I_unbounded_shr w a k) /\
  (forall w a k, Glue.U_unchecked_shl w a k = U_checked_shl w a k) /\
  (forall w a k, Glue.U_unchecked_shr w a k = U_checked_shr w a k) /\
  (forall w a k, Glue.I_unchecked_shl w a k = I_checked_shl w a k) /\
  (forall w a k, Glue.I_unchecked_shr w a k = I_checked_shr w a k).
Theorem glue_rotate_matches_model : glue_rotate_statement.
Proof.
  unfold glue_rotate_statement. repeat apply conj.
  - exact glue_U_rotate_left.
  - exact glue_U_rotate_right.
  - exact glue_U_unbounded_shl.
  - exact glue_U_unbounded_shr.
  - exact glue_I_rotate_left.
  - exact glue_I_rotate_right.
  - exact glue_I_unbounded_shl.
  - exact glue_I_unbounded_shr.
  - exact glue_U_unchecked_shl.
  - exact glue_U_unchecked_shr.
  - exact glue_I_unchecked_shl.
  - exact glue_I_unchecked_shr.
Qed.
(* ==== end of round 2 ==== *)

(* Proofs/GlueTieC08.v — glue functions of C08 (pow, ilog2): generated (Generated/Glue.v) = hand-written model.
   One file per property so that an edit of one family's source breaks only that property's check.
   Boiler-plate written by tools/mk_gluetie.py from its SPEC table; the statements are fixed by committing this file. *)
From Bnum Require Import Base Prim.
From Bnum.Model Require Import Digit Core Shift AddSub Mul Div Bits Pow.
From Bnum.Generated Require Import Glue.
From Bnum.Proofs Require Import GlueTieCommon.

Lemma glue_U_pow : forall dbg w a k, Glue.U_pow dbg w a k = U_pow dbg w a k.
Proof. glue_tac. Qed.
Lemma glue_I_pow : forall dbg w a k, Glue.I_pow dbg w a k = I_pow dbg w a k.
Proof. glue_tac. Qed.
Lemma glue_U_ilog2 : forall w a, Glue.U_ilog2 w a = U_ilog2 w a.
Proof. glue_tac. Qed.

Definition glue_pow_statement : Prop :=
  (forall dbg w a k, Glue.U_pow dbg w a k = U_pow dbg w a k) /\
  (forall dbg w a k, Glue.I_pow dbg w a k = I_pow dbg w a k) /\
  (forall w a, Glue.U_ilog2 w a = U_ilog2 w a).
Theorem glue_pow_matches_model : glue_pow_statement.
Proof.
  unfold glue_pow_statement. repeat apply conj.
  - exact glue_U_pow.
  - exact glue_I_pow.
  - exact glue_U_ilog2.
Qed.

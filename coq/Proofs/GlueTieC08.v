(* Proofs/GlueTieC08.v — glue functions of C08 (pow, ilog2, checked_ilog2 (BInt: the ilog! / checked_ilog! expansions), bint checked_pow / overflowing_pow): generated (Generated/Glue.v) = hand-written model.
   One file per property so that an edit of one family's source breaks only that property's check.
   Boiler-plate written by tools/mk_gluetie.py from its SPEC table; the statements are fixed by committing this file. *)
From Bnum Require Import Base Prim.
From Bnum.Model Require Import Digit Core Shift AddSub Mul Div Bits Pow.
From Bnum.Generated Require Import Glue.
From Bnum.Proofs Require Import GlueTieCommon.

(* `pow & 1 == 0` / `pow & 1 == 1` (bint checked_pow, overflowing_pow) are the model's Z.even / Z.odd *)
Lemma land1_even e : (Z.land e 1 =? 0) = Z.even e.
Proof. rewrite <- Z.negb_odd, <- land1_odd, Bool.negb_involutive. reflexivity. Qed.
Lemma land1_odd1 e : (Z.land e 1 =? 1) = Z.odd e.
Proof.
  destruct e as [|p|p]; try reflexivity; destruct p as [q|q|]; try reflexivity; destruct q; reflexivity.
Qed.

Lemma glue_U_pow : forall dbg w a k, Glue.U_pow dbg w a k = U_pow dbg w a k.
Proof. glue_tac. Qed.
Lemma glue_I_pow : forall dbg w a k, Glue.I_pow dbg w a k = I_pow dbg w a k.
Proof. glue_tac. Qed.
Lemma glue_U_ilog2 : forall w a, Glue.U_ilog2 w a = U_ilog2 w a.
Proof. glue_tac. Qed.
Lemma glue_U_checked_ilog2 : forall w a, Glue.U_checked_ilog2 w a = U_checked_ilog2 w a.
Proof. glue_tac. Qed.
Lemma glue_I_checked_pow : forall w a k, Glue.I_checked_pow w a k = I_checked_pow w a k.
Proof. intros. unfold Glue.I_checked_pow, I_checked_pow. rewrite land1_even.
  destruct (U_checked_pow w (I_unsigned_abs w a) k); reflexivity. Qed.
Lemma glue_I_ilog2 : forall w a, Glue.I_ilog2 w a = I_ilog2 w a.
Proof. glue_tac. Qed.
Lemma glue_I_checked_ilog2 : forall w a, Glue.I_checked_ilog2 w a = I_checked_ilog2 w a.
Proof. glue_tac. Qed.
Lemma glue_I_overflowing_pow : forall w a k, Glue.I_overflowing_pow w a k = I_overflowing_pow w a k.
Proof. intros. unfold Glue.I_overflowing_pow, I_overflowing_pow. rewrite land1_odd1.
  destruct (U_overflowing_pow w (I_unsigned_abs w a) k) as [u o].
  destruct (is_negative w a && Z.odd k); reflexivity. Qed.

Definition glue_pow_statement : Prop :=
  (forall dbg w a k, Glue.U_pow dbg w a k = U_pow dbg w a k) /\
  (forall dbg w a k, Glue.I_pow dbg w a k = I_pow dbg w a k) /\
  (forall w a, Glue.U_ilog2 w a = U_ilog2 w a) /\
  (forall w a, Glue.U_checked_ilog2 w a = U_checked_ilog2 w a) /\
  (forall w a k, Glue.I_checked_pow w a k = I_checked_pow w a k) /\
  (forall w a, Glue.I_ilog2 w a = I_ilog2 w a) /\
  (forall w a, Glue.I_checked_ilog2 w a = I_checked_ilog2 w a) /\
  (forall w a k, Glue.I_overflowing_pow w a k = I_overflowing_pow w a k).
Theorem glue_pow_matches_model : glue_pow_statement.
Proof.
  unfold glue_pow_statement. repeat apply conj.
  - exact glue_U_pow.
  - exact glue_I_pow.
  - exact glue_U_ilog2.
  - exact glue_U_checked_ilog2.
  - exact glue_I_checked_pow.
  - exact glue_I_ilog2.
  - exact glue_I_checked_ilog2.
  - exact glue_I_overflowing_pow.
Qed.

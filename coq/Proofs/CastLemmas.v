(* Proofs/CastLemmas.v — arithmetic, bit-field, digit-list and control lemmas used by Proofs/Cast.v.
   Proofs/Cast.v — Model/Cast.v = specification, for all digit widths, digit counts and inputs.
   Specification of every cast: the target holds (source value) mod 2^(target BITS), where the
   source value is uval (unsigned source) or sval (signed source); no model function can Panic. *)
From Bnum Require Import Base Prim.
From Bnum.Model Require Import Core Cast.

Local Open Scope Z_scope.

(* ================================================================== *)
(** * 1. Powers of two, bit fields *)

Lemma pow2_pos k : 0 <= k -> 0 < 2 ^ k.
Proof. intros; apply Z.pow_pos_nonneg; lia. Qed.

Lemma pow2_add a b : 0 <= a -> 0 <= b -> 2 ^ (a + b) = 2 ^ a * 2 ^ b.
Proof. intros; apply Z.pow_add_r; lia. Qed.

Lemma pow2_le a b : 0 <= a <= b -> 2 ^ a <= 2 ^ b.
Proof. intros; apply Z.pow_le_mono_r; lia. Qed.

Lemma pow2_lt a b : 0 <= a < b -> 2 ^ a < 2 ^ b.
Proof. intros; apply Z.pow_lt_mono_r; lia. Qed.

Lemma pow2_split a b : 0 <= a <= b -> 2 ^ b = 2 ^ a * 2 ^ (b - a).
Proof. intros. rewrite <- pow2_add by lia. f_equal; lia. Qed.

Lemma Mod_pow w n : Mod w n = 2 ^ (w * Z.of_nat n).
Proof. reflexivity. Qed.

Lemma B_pow w : B w = 2 ^ w.
Proof. reflexivity. Qed.

(* (x mod 2^b) mod 2^a = x mod 2^a  for a <= b *)
Lemma mod_mod_pow2 x a b : 0 <= a <= b -> (x mod 2 ^ b) mod 2 ^ a = x mod 2 ^ a.
Proof.
  intros H. rewrite (pow2_split a b) by lia.
  pose proof (pow2_pos a ltac:(lia)). pose proof (pow2_pos (b - a) ltac:(lia)).
  rewrite Z.rem_mul_r by lia.
  rewrite (Z.mul_comm (2 ^ a) ((x / 2 ^ a) mod 2 ^ (b - a))), Z_mod_plus_full. apply Z.mod_mod. lia.
Qed.

(* the field of `len` bits of x starting at bit `lo` *)
Definition bf (x lo len : Z) : Z := (x / 2 ^ lo) mod 2 ^ len.

Lemma bf_range x lo len : 0 <= len -> 0 <= bf x lo len < 2 ^ len.
Proof. intros. unfold bf. apply Z.mod_pos_bound. apply pow2_pos; lia. Qed.

Lemma bf_0 x lo : bf x lo 0 = 0.
Proof. unfold bf. rewrite Z.pow_0_r. apply Z.mod_1_r. Qed.

Lemma bf_split x lo a b : 0 <= lo -> 0 <= a -> 0 <= b ->
  bf x lo (a + b) = bf x lo a + 2 ^ a * bf x (lo + a) b.
Proof.
  intros. unfold bf. rewrite (pow2_add a b), (pow2_add lo a) by lia.
  pose proof (pow2_pos a ltac:(lia)). pose proof (pow2_pos b ltac:(lia)). pose proof (pow2_pos lo ltac:(lia)).
  rewrite Z.rem_mul_r by lia. rewrite Z.div_div by lia. reflexivity.
Qed.

Lemma bf_bf x lo len lo' len' : 0 <= lo -> 0 <= lo' -> 0 <= len' -> lo' + len' <= len ->
  bf (bf x lo len) lo' len' = bf x (lo + lo') len'.
Proof.
  intros. unfold bf.
  pose proof (pow2_pos lo ltac:(lia)). pose proof (pow2_pos lo' ltac:(lia)). pose proof (pow2_pos len' ltac:(lia)).
  replace len with (lo' + (len - lo')) by lia.
  rewrite (pow2_add lo' (len - lo')) by lia.
  pose proof (pow2_pos (len - lo') ltac:(lia)).
  rewrite Z.rem_mul_r by lia.
  rewrite (Z.mul_comm (2 ^ lo')), Z.div_add by lia.
  rewrite (Z.div_small (_ mod 2 ^ lo')) by (apply Z.mod_pos_bound; lia).
  rewrite Z.add_0_l, mod_mod_pow2 by lia.
  rewrite Z.div_div by lia. rewrite <- pow2_add by lia. reflexivity.
Qed.

Lemma mod_as_bf x k : x mod 2 ^ k = bf x 0 k.
Proof. unfold bf. rewrite Z.pow_0_r, Z.div_1_r. reflexivity. Qed.

Lemma bf_mod x k lo len : 0 <= lo -> 0 <= len -> lo + len <= k -> bf (x mod 2 ^ k) lo len = bf x lo len.
Proof. intros. rewrite mod_as_bf, bf_bf by lia. f_equal. Qed.

Lemma bf_congr x y k lo len : 0 <= lo -> 0 <= len -> lo + len <= k ->
  x mod 2 ^ k = y mod 2 ^ k -> bf x lo len = bf y lo len.
Proof. intros ? ? ? E. rewrite <- (bf_mod x k), <- (bf_mod y k), E by lia. reflexivity. Qed.

Lemma bf_small x lo len : 0 <= lo -> 0 <= len -> 0 <= x < 2 ^ lo -> bf x lo len = 0.
Proof. intros. unfold bf. rewrite Z.div_small by lia. apply Z.mod_0_l. pose proof (pow2_pos len). lia. Qed.

(* ================================================================== *)
(** * 2. Bitwise operations on aligned fields *)

Lemma land_low_high a b k : 0 <= k -> 0 <= a < 2 ^ k -> Z.land a (b * 2 ^ k) = 0.
Proof.
  intros Hk Ha. apply Z.bits_inj'. intros n Hn. rewrite Z.land_spec, Z.bits_0.
  destruct (Z_lt_ge_dec n k).
  - rewrite (Z.mul_pow2_bits_low b k n) by lia. apply andb_false_r.
  - replace (Z.testbit a n) with false; [reflexivity|].
    symmetry. destruct (Z.eq_dec a 0) as [->|]; [apply Z.bits_0|].
    apply Z.bits_above_log2; [lia|]. apply Z.log2_lt_pow2; [lia|].
    eapply Z.lt_le_trans; [apply Ha|]. apply pow2_le; lia.
Qed.

(* a | (b << k) when a lies below bit k *)
Lemma lor_low_high a b k : 0 <= k -> 0 <= a < 2 ^ k -> Z.lor a (b * 2 ^ k) = a + b * 2 ^ k.
Proof.
  intros. pose proof (land_low_high a b k ltac:(lia) ltac:(lia)) as E.
  rewrite (Z.add_nocarry_lxor _ _ E). symmetry. apply Z.lxor_lor. exact E.
Qed.

(* complement within W bits *)
Lemma compl_lnot W x : 0 <= W -> 0 <= x < 2 ^ W -> 2 ^ W - 1 - x = Z.land (Z.lnot x) (Z.ones W).
Proof.
  intros. rewrite Z.land_ones by lia. unfold Z.lnot. symmetry.
  replace (Z.pred (- x)) with (2 ^ W - 1 - x + (-1) * 2 ^ W) by lia.
  rewrite Z_mod_plus_full. apply Z.mod_small. lia.
Qed.

(* De Morgan inside W bits *)
Lemma land_compl W x y : 0 <= W -> 0 <= x < 2 ^ W -> 0 <= y < 2 ^ W ->
  Z.land x y = 2 ^ W - 1 - Z.lor (2 ^ W - 1 - x) (2 ^ W - 1 - y).
Proof.
  intros HW Hx Hy.
  assert (Hl : 0 <= Z.land x y < 2 ^ W).
  { split; [apply Z.land_nonneg; lia|].
    destruct (Z.eq_dec (Z.land x y) 0) as [->|Hn]; [apply pow2_pos; lia|].
    assert (0 <= Z.land x y) by (apply Z.land_nonneg; lia).
    apply Z.log2_lt_pow2; [lia|]. eapply Z.le_lt_trans; [apply Z.log2_land; lia|].
    destruct (Z.eq_dec x 0) as [->|]; [rewrite Z.land_0_l in Hn; lia|].
    apply Z.min_lt_iff. left. apply Z.log2_lt_pow2; lia. }
  rewrite (compl_lnot W x), (compl_lnot W y) by lia.
  rewrite <- Z.land_lor_distr_l, <- Z.lnot_land, <- compl_lnot by lia. lia.
Qed.

(* clear, in a word whose bits from k upwards are all ones, the bits selected by c << k *)
Lemma land_clear W k low c : 0 <= k -> 0 <= low < 2 ^ k -> 0 <= c -> c * 2 ^ k < 2 ^ W -> k <= W ->
  Z.land (low + (2 ^ W - 2 ^ k)) (2 ^ W - 1 - c * 2 ^ k) = low + (2 ^ W - 2 ^ k) - c * 2 ^ k.
Proof.
  intros Hk Hlow Hc Hck HkW.
  pose proof (pow2_pos k Hk). pose proof (pow2_le k W ltac:(lia)).
  rewrite (land_compl W) by nia.
  replace (2 ^ W - 1 - (low + (2 ^ W - 2 ^ k))) with (2 ^ k - 1 - low) by lia.
  replace (2 ^ W - 1 - (2 ^ W - 1 - c * 2 ^ k)) with (c * 2 ^ k) by lia.
  rewrite lor_low_high by lia. lia.
Qed.

Lemma land_max w x : 0 <= w -> 0 <= x < B w -> u_and x (u_max w) = x.
Proof.
  intros. unfold u_and, u_max, B in *. replace (2 ^ w - 1) with (Z.ones w) by (rewrite Z.ones_equiv; lia).
  rewrite Z.land_ones by lia. apply Z.mod_small; lia.
Qed.

(* ================================================================== *)
(** * 3. Digit lists: fields of the value, prefixes, padding *)

Lemma digits_of_length w n v : length (digits_of w n v) = n.
Proof. revert v; induction n; intros; cbn [digits_of length]; auto. Qed.

Lemma Mod_add w a b : 0 <= w -> Mod w (a + b) = Mod w a * Mod w b.
Proof. intros. unfold Mod. rewrite <- pow2_add by lia. f_equal. lia. Qed.

Lemma digits_of_app w a b v : 0 <= w ->
  digits_of w (a + b) v = digits_of w a v ++ digits_of w b (v / Mod w a).
Proof.
  intros Hw. revert v. induction a as [|a IH]; intros v.
  - cbn [digits_of Nat.add app]. rewrite Mod_0, Z.div_1_r. reflexivity.
  - cbn [digits_of Nat.add app]. rewrite IH. f_equal. f_equal. f_equal.
    rewrite Mod_S by lia. rewrite Z.div_div; auto.
    + pose proof (B_pos w Hw); lia.
    + apply Mod_pos; lia.
Qed.

Lemma digits_of_snoc w k v : 0 <= w ->
  digits_of w (S k) v = digits_of w k v ++ [bf v (w * Z.of_nat k) w].
Proof.
  intros. replace (S k) with (k + 1)%nat by lia. rewrite digits_of_app by lia.
  cbn [digits_of]. reflexivity.
Qed.

Lemma digits_of_zero w r : 0 <= w -> digits_of w r 0 = repeat 0 r.
Proof.
  intros. induction r; cbn [digits_of repeat]; auto.
  rewrite Z.mod_0_l, Z.div_0_l, IHr; auto; pose proof (B_pos w); lia.
Qed.

Lemma digits_of_ones w r : 0 < w -> digits_of w r (Mod w r - 1) = repeat (u_max w) r.
Proof.
  intros Hw. induction r as [|r IH]; cbn [digits_of repeat]; auto.
  rewrite Mod_S by lia. pose proof (B_pos w ltac:(lia)). pose proof (Mod_pos w r ltac:(lia)).
  replace (B w * Mod w r - 1) with ((B w - 1) + (Mod w r - 1) * B w) by lia.
  rewrite Z_mod_plus_full, Z.div_add by lia.
  rewrite Z.mod_small, Z.div_small by lia. rewrite Z.add_0_l, IH. reflexivity.
Qed.

(* all digits of V from position k upwards are the padding digit *)
Definition pad_above (w : Z) (n k : nat) (V : Z) (neg : bool) : Prop :=
  V / Mod w k = if neg then Mod w (n - k) - 1 else 0.

Lemma digits_of_pad w n k V neg : 0 < w -> (k <= n)%nat -> pad_above w n k V neg ->
  digits_of w n V = digits_of w k V ++ repeat (if neg then u_max w else 0) (n - k).
Proof.
  intros Hw Hk HP. replace n with (k + (n - k))%nat at 1 by lia.
  rewrite digits_of_app by lia. f_equal. unfold pad_above in HP. rewrite HP.
  destruct neg; [apply digits_of_ones; lia | apply digits_of_zero; lia].
Qed.

Lemma uval_digits_of w n ds : 0 < w -> wf w n ds -> digits_of w n (uval w ds) = ds.
Proof.
  intros Hw H. apply (uval_inj w n); auto; try lia.
  - apply digits_of_wf; lia.
  - rewrite digits_of_uval by lia. apply Z.mod_small. apply uval_bounds; auto; lia.
Qed.

Lemma nth_digits_of w n v i : 0 <= w -> (i < n)%nat -> nth i (digits_of w n v) 0 = bf v (w * Z.of_nat i) w.
Proof.
  intros Hw Hi. replace n with (i + S (n - i - 1))%nat by lia.
  rewrite digits_of_app by lia. rewrite app_nth2; rewrite digits_of_length; [|lia].
  rewrite Nat.sub_diag. cbn [digits_of nth]. reflexivity.
Qed.

Lemma nth_bf w n ds i : 0 < w -> wf w n ds -> (i < n)%nat -> nth i ds 0 = bf (uval w ds) (w * Z.of_nat i) w.
Proof.
  intros Hw H Hi. rewrite <- (uval_digits_of w n ds) at 1 by auto. apply nth_digits_of; lia.
Qed.

Lemma firstn_digits_of w n k v : 0 <= w -> (k <= n)%nat -> firstn k (digits_of w n v) = digits_of w k v.
Proof.
  intros. replace n with (k + (n - k))%nat by lia. rewrite digits_of_app by lia.
  rewrite firstn_app, digits_of_length, Nat.sub_diag, firstn_O, app_nil_r.
  rewrite firstn_all2; [reflexivity | rewrite digits_of_length; lia].
Qed.

Lemma uval_firstn w n ds k : 0 < w -> wf w n ds -> (k <= n)%nat ->
  wf w k (firstn k ds) /\ uval w (firstn k ds) = uval w ds mod Mod w k.
Proof.
  intros Hw H Hk. rewrite <- (uval_digits_of w n ds) at 1 2 by auto.
  rewrite firstn_digits_of by lia. split; [apply digits_of_wf; lia | apply digits_of_uval; lia].
Qed.

Lemma wf_repeat w d k : digit_ok w d -> wf w k (repeat d k).
Proof.
  intros. split; [apply repeat_length|]. apply Forall_forall. intros x Hx. apply repeat_spec in Hx. subst; auto.
Qed.

Lemma uval_repeat_0 w k : uval w (repeat 0 k) = 0.
Proof. induction k; cbn [repeat uval]; auto. rewrite IHk. lia. Qed.

Lemma uval_repeat_max w k : 0 <= w -> uval w (repeat (u_max w) k) = Mod w k - 1.
Proof.
  intros. induction k; cbn [repeat uval].
  - rewrite Mod_0. lia.
  - rewrite IHk, Mod_S by lia. unfold u_max. lia.
Qed.

Lemma u_max_ok w : 0 <= w -> digit_ok w (u_max w).
Proof. intros. unfold digit_ok, u_max. pose proof (B_pos w); lia. Qed.

Lemma zero_ok w : 0 <= w -> digit_ok w 0.
Proof. intros. unfold digit_ok. pose proof (B_pos w); lia. Qed.

(* ================================================================== *)
(** * 4. The control primitives *)

Lemma while_inv {St : Type} (P : nat -> St -> Prop) cond body bound :
  (forall i s, P i s -> cond i s = true ->
               (i < bound)%nat /\ exists s', body i s = Ret s' /\ P (S i) s') ->
  forall fuel i s, (bound <= i + fuel)%nat -> P i s ->
  exists i' s', while_ fuel cond body i s = Ret s' /\ P i' s' /\ cond i' s' = false.
Proof.
  intros Hstep. induction fuel as [|f IH]; intros i s Hb HP; cbn [while_].
  - exists i, s. split; [reflexivity|]. split; [exact HP|].
    destruct (cond i s) eqn:E; [|reflexivity]. destruct (Hstep i s HP E) as [Hlt _]. lia.
  - destruct (cond i s) eqn:E.
    + destruct (Hstep i s HP E) as [Hlt (s' & Hbody & HP')]. rewrite Hbody. cbn [obind].
      apply IH; [lia | exact HP'].
    + exists i, s. auto.
Qed.

Lemma rd_ok ds i : (i < length ds)%nat -> rd ds i = Ret (nth i ds 0).
Proof. intros. unfold rd. rewrite (nth_error_nth' ds 0) by lia. reflexivity. Qed.

(* writing just past a finished prefix, into the padding *)
Lemma wr_prefix a p k d j : length a = j -> wr (a ++ repeat p (S k)) j d = Ret ((a ++ [d]) ++ repeat p k).
Proof.
  intros <-. unfold wr. rewrite app_length. cbn [repeat length].
  destruct (Nat.ltb_spec (length a) (length a + S (length (repeat p k)))); [|lia].
  f_equal. rewrite firstn_app, Nat.sub_diag, firstn_O, app_nil_r, firstn_all.
  replace (S (length a)) with (length a + 1)%nat by lia.
  rewrite skipn_app, skipn_all2 by lia.
  replace (length a + 1 - length a)%nat with 1%nat by lia. cbn [skipn app].
  rewrite <- app_assoc. reflexivity.
Qed.

Lemma firstn_snoc (l : list Z) k : (k < length l)%nat -> firstn (S k) l = firstn k l ++ [nth k l 0].
Proof.
  revert k. induction l as [|x l IH]; intros k Hk; cbn [length] in Hk; [lia|].
  destruct k; [reflexivity|]. rewrite (firstn_cons (S k)), (firstn_cons k). cbn [nth app]. rewrite IH by lia. reflexivity.
Qed.

Lemma divmod_nat i dc : (0 < dc)%nat ->
  (i = dc * (i / dc) + i mod dc)%nat /\ (i mod dc < dc)%nat.
Proof. intros. split; [apply Nat.div_mod; lia | apply Nat.mod_upper_bound; lia]. Qed.

Lemma div_lt_nat i dc q : (0 < dc)%nat -> (i < q * dc)%nat -> (i / dc < q)%nat.
Proof. intros. apply Nat.div_lt_upper_bound; lia. Qed.

(* S i across a digit boundary / inside a digit *)
Lemma succ_div_mod i dc : (0 < dc)%nat ->
  if (i mod dc =? dc - 1)%nat
  then (S i / dc = S (i / dc) /\ S i mod dc = 0)%nat
  else (S i / dc = i / dc /\ S i mod dc = S (i mod dc))%nat.
Proof.
  intros Hdc. destruct (divmod_nat i dc Hdc) as [E Hm].
  destruct (Nat.eqb_spec (i mod dc) (dc - 1)) as [Em|Em].
  - assert (S i = dc * S (i / dc) + 0)%nat by nia.
    split; [symmetry; eapply Nat.div_unique; [|eassumption]; lia | symmetry; eapply Nat.mod_unique; [|eassumption]; lia].
  - assert (S i = dc * (i / dc) + S (i mod dc))%nat by lia.
    split; [symmetry; eapply Nat.div_unique; [|eassumption]; lia | symmetry; eapply Nat.mod_unique; [|eassumption]; lia].
Qed.

Lemma mod_intro x y M q : 0 <= y < M -> x = y + q * M -> x mod M = y.
Proof. intros Hy ->. rewrite Z_mod_plus_full. apply Z.mod_small; lia. Qed.

(* ================================================================== *)
(** * 5. Sign of the source *)

Definition source_value (signed : bool) (w : Z) (ds : list Z) : Z :=
  if signed then sval w ds else uval w ds.

Lemma B_even w : 0 < w -> B w = 2 * (B w / 2).
Proof.
  intros. unfold B. replace w with (1 + (w - 1)) at 1 2 by lia. rewrite pow2_add by lia.
  change (2 ^ 1) with 2. rewrite (Z.mul_comm 2), Z.div_mul by lia. lia.
Qed.

Lemma last_snoc_split (ds : list Z) : ds <> [] -> ds = removelast ds ++ [last ds 0].
Proof. intros. apply app_removelast_last. auto. Qed.

Lemma is_negative_spec w n ds : 0 < w -> (0 < n)%nat -> wf w n ds ->
  is_negative w ds = (Mod w n / 2 <=? uval w ds).
Proof.
  intros Hw Hn H. destruct n as [|k]; [lia|].
  assert (Hne : ds <> []) by (destruct H as [Hl _]; destruct ds; [discriminate | congruence]).
  pose proof (last_snoc_split ds Hne) as E. set (top := last ds 0) in *. set (ini := removelast ds) in *.
  assert (Hlen : length ini = k).
  { destruct H as [Hl _]. rewrite E, app_length in Hl. cbn [length] in Hl. lia. }
  assert (Hwf : wf w k ini /\ digit_ok w top).
  { destruct H as [_ Hf]. rewrite E in Hf. apply Forall_app in Hf. destruct Hf as [Hi Ht].
    split; [split; auto|]. inversion Ht; auto. }
  destruct Hwf as [Hi Ht].
  unfold is_negative, signed_digit, top_digit, sd, to_signed. fold top.
  rewrite E. rewrite uval_app by lia. cbn [uval]. rewrite Hlen.
  pose proof (uval_bounds w k ini ltac:(lia) Hi) as Hb.
  pose proof (Mod_pos w k ltac:(lia)) as Hm. pose proof (B_even w Hw) as He.
  rewrite Mod_S by lia. unfold digit_ok in Ht.
  assert (Hhalf : B w * Mod w k / 2 = B w / 2 * Mod w k).
  { rewrite He at 1. rewrite <- Z.mul_assoc, (Z.mul_comm 2), Z.div_mul by lia. reflexivity. }
  rewrite Hhalf. set (h := B w / 2) in *.
  destruct (Z.ltb_spec top h); destruct (Z.leb_spec (h * Mod w k) (uval w ini + Mod w k * (top + B w * 0)));
    destruct (Z.ltb_spec (top - B w) 0); destruct (Z.ltb_spec top 0); try reflexivity; try lia; nia.
Qed.

Lemma sval_cases w n ds : 0 < w -> (0 < n)%nat -> wf w n ds ->
  (is_negative w ds = false /\ sval w ds = uval w ds /\ uval w ds < Mod w n / 2) \/
  (is_negative w ds = true /\ sval w ds = uval w ds - Mod w n /\ Mod w n / 2 <= uval w ds).
Proof.
  intros Hw Hn H. rewrite (is_negative_spec w n ds Hw Hn H).
  unfold sval, to_signed. rewrite (wf_length _ _ _ H).
  destruct (Z.leb_spec (Mod w n / 2) (uval w ds)); destruct (Z.ltb_spec (uval w ds) (Mod w n / 2)); lia.
Qed.


(* ================================================================== *)
(** * 6. Values whose bits from L up to T are all padding *)

Definition high_pad (V L T : Z) (neg : bool) : Prop :=
  V / 2 ^ L = if neg then 2 ^ (T - L) - 1 else 0.

Lemma high_pad_mono V L L' T neg : 0 <= L <= L' -> L' <= T -> high_pad V L T neg -> high_pad V L' T neg.
Proof.
  unfold high_pad. intros HL HT H.
  replace L' with (L + (L' - L)) at 1 by lia. rewrite pow2_add by lia.
  pose proof (pow2_pos L ltac:(lia)). pose proof (pow2_pos (L' - L) ltac:(lia)). pose proof (pow2_pos (T - L') ltac:(lia)).
  rewrite <- Z.div_div by lia. rewrite H. destruct neg; [|apply Z.div_0_l; lia].
  replace (T - L) with ((L' - L) + (T - L')) by lia. rewrite pow2_add by lia.
  symmetry. apply Z.div_unique with (r := 2 ^ (L' - L) - 1); lia.
Qed.

Lemma high_pad_bf V L T neg r : 0 <= L -> 0 <= r -> L + r <= T -> high_pad V L T neg ->
  bf V L r = if neg then 2 ^ r - 1 else 0.
Proof.
  unfold high_pad, bf. intros HL Hr HT H. rewrite H.
  pose proof (pow2_pos r Hr). pose proof (pow2_pos (T - L - r) ltac:(lia)).
  destruct neg; [|apply Z.mod_0_l; lia].
  replace (T - L) with (r + (T - L - r)) by lia. rewrite pow2_add by lia.
  apply mod_intro with (q := 2 ^ (T - L - r) - 1); lia.
Qed.

Lemma high_pad_above w n k V neg : 0 <= w -> (k <= n)%nat ->
  high_pad V (w * Z.of_nat k) (w * Z.of_nat n) neg -> pad_above w n k V neg.
Proof.
  unfold high_pad, pad_above, Mod. intros Hw Hk H. rewrite H.
  replace (w * Z.of_nat n - w * Z.of_nat k) with (w * Z.of_nat (n - k)) by nia. reflexivity.
Qed.

(* the part of a W-bit accumulator above bit k: zeros (unsigned routine) or ones (negative source) *)
Definition hi (neg : bool) (W k : Z) : Z := if neg then 2 ^ W - 2 ^ k else 0.

(* ================================================================== *)
(** * 7. Modular arithmetic on a word assembled from a low part and a shifted field *)

Lemma low_high_mod a d k r : 0 <= k -> 0 <= r -> 0 <= a < 2 ^ k ->
  (a + d * 2 ^ k) mod 2 ^ (k + r) = a + (d mod 2 ^ r) * 2 ^ k.
Proof.
  intros Hk Hr Ha. rewrite pow2_add by lia.
  pose proof (pow2_pos k Hk). pose proof (pow2_pos r Hr).
  rewrite Z.rem_mul_r by lia. rewrite Z_mod_plus_full, Z.div_add by lia.
  rewrite Z.mod_small, Z.div_small by lia. rewrite Z.add_0_l. lia.
Qed.

Lemma shifted_mod x k r : 0 <= k -> 0 <= r -> (x * 2 ^ k) mod 2 ^ (k + r) = (x mod 2 ^ r) * 2 ^ k.
Proof. intros. rewrite <- (Z.add_0_l (x * 2 ^ k)). rewrite low_high_mod by (try lia; pose proof (pow2_pos k); lia). lia. Qed.

Lemma mod_compl y M : 0 < M -> (-1 - y) mod M = M - 1 - y mod M.
Proof.
  intros. apply mod_intro with (q := - (y / M) - 1).
  - pose proof (Z.mod_pos_bound y M ltac:(lia)). lia.
  - pose proof (Z.div_mod y M ltac:(lia)). lia.
Qed.

Lemma pow2_mod_0 a b : 0 <= a <= b -> 2 ^ b mod 2 ^ a = 0.
Proof.
  intros. rewrite (pow2_split a b) by lia. rewrite Z.mul_comm. apply Z_mod_mult.
Qed.

(* Proofs/FloatGenTie.v — the `CastFrom` impls between bnum integers and f32 / f64 (src/buint/cast.rs buint_as_float!,
   CastFrom<f32 / f64> for $BUint<N>; src/bint/cast.rs CastFrom<$BInt<N>> for f32 / f64, bint_cast_from_float!): the functions
   GENERATED from /repo/src on every run (Generated/FloatGen.v, by tools/rs2v_float.py) equal the four entry points of the
   hand-written model Model/FloatCast.v (U_to_float, U_from_float, I_to_float, I_from_float) at F32 and F64, for every digit
   width, digit count, well-formed operand / bit pattern and both build modes.  Umbrella of the FloatGenTie* files. *)
From Bnum Require Import Base Prim.
From Bnum.Model Require Import Core Imp ImpFloat Shift AddSub Bits.
From Bnum.Model Require FloatCast Cast.
From Bnum.Generated Require Import FloatGen.
From Bnum.Proofs Require Import ImpLemmas FloatCastDeps FloatCast FloatCastTo.
From Bnum.Proofs Require Export FloatGenTieParts FloatGenTieCast.
From Bnum.Proofs Require DischargeFloat.
Import Bnum.Model.FloatCast.
Local Open Scope Z_scope.

Lemma fbits32_F32 : 32 <= fbits F32. Proof. cbn. lia. Qed.
Lemma fbits32_F64 : 32 <= fbits F64. Proof. cbn. lia. Qed.

(* `from.unsigned_abs()` is well formed *)
Lemma unsigned_abs_wf w n a : 0 < w -> (0 < n)%nat -> wf w n a -> wf w n (I_unsigned_abs w a).
Proof.
  intros Hw Hn Ha. unfold I_unsigned_abs, I_wrapping_neg. destruct (is_negative w a); [|exact Ha].
  exact (proj1 (DischargeFloat.I_overflowing_neg_spec_holds w n a Hw Hn Ha)).
Qed.

(* ---------- buint_as_float!, CastFrom<f32 / f64> for $BUint<N> ---------- *)

Ltac tie_U_to f Hok H32 :=
  intros dbg w n a Hw Hwf; unfold f, U_to_float;
  rewrite (floatgen_cast_float_from_uint dbg _ w n a Hok H32 Hw Hwf); apply bind_done_r.

Lemma floatgen_U_to_f32 : forall dbg w n a, 0 < w -> wf w n a ->
  FloatGen.U_to_f32 dbg w (Z.of_nat n) a = of_outcome (U_to_float dbg F32 w a).
Proof. tie_U_to FloatGen.U_to_f32 fmt_ok_F32 fbits32_F32. Qed.

Lemma floatgen_U_to_f64 : forall dbg w n a, 0 < w -> wf w n a ->
  FloatGen.U_to_f64 dbg w (Z.of_nat n) a = of_outcome (U_to_float dbg F64 w a).
Proof. tie_U_to FloatGen.U_to_f64 fmt_ok_F64 fbits32_F64. Qed.

Ltac tie_U_from f Hok :=
  intros dbg w n x Hw Hx; unfold f, U_from_float;
  rewrite (floatgen_cast_uint_from_float dbg _ w n x Hok Hw Hx); apply bind_done_r.

Lemma floatgen_U_from_f32 : forall dbg w n x, 0 < w -> 0 <= x < 2 ^ fbits F32 ->
  FloatGen.U_from_f32 dbg w (Z.of_nat n) x = of_outcome (U_from_float dbg F32 w n x).
Proof. tie_U_from FloatGen.U_from_f32 fmt_ok_F32. Qed.

Lemma floatgen_U_from_f64 : forall dbg w n x, 0 < w -> 0 <= x < 2 ^ fbits F64 ->
  FloatGen.U_from_f64 dbg w (Z.of_nat n) x = of_outcome (U_from_float dbg F64 w n x).
Proof. tie_U_from FloatGen.U_from_f64 fmt_ok_F64. Qed.

(* ---------- CastFrom<$BInt<N>> for f32 / f64 ---------- *)

Ltac tie_I_to f Hto :=
  intros dbg w n a Hw Hn Hwf; unfold f, I_to_float;
  rewrite (Hto dbg w n _ Hw (unsigned_abs_wf w n a Hw Hn Hwf)); rewrite of_outcome_obind;
  destruct (U_to_float dbg _ w (I_unsigned_abs w a)); [|reflexivity]; cbn [of_outcome bind];
  destruct (is_negative w a); reflexivity.

Lemma floatgen_I_to_f32 : forall dbg w n a, 0 < w -> (0 < n)%nat -> wf w n a ->
  FloatGen.I_to_f32 dbg w (Z.of_nat n) a = of_outcome (I_to_float dbg F32 w a).
Proof. tie_I_to FloatGen.I_to_f32 floatgen_U_to_f32. Qed.

Lemma floatgen_I_to_f64 : forall dbg w n a, 0 < w -> (0 < n)%nat -> wf w n a ->
  FloatGen.I_to_f64 dbg w (Z.of_nat n) a = of_outcome (I_to_float dbg F64 w a).
Proof. tie_I_to FloatGen.I_to_f64 floatgen_U_to_f64. Qed.

(* ---------- bint_cast_from_float! ---------- *)

Ltac tie_I_from f Hfrom Hok :=
  intros dbg w n x Hw Hx; unfold f, I_from_float; rewrite Nat2Z.id;
  unfold Bnum.Model.Cast.to_bits, Bnum.Model.Cast.from_bits;
  destruct (f_is_sign_negative _ x);
  [ rewrite (Hfrom dbg w n _ Hw (proj1 (f_neg_fields _ x Hok Hx))) | rewrite (Hfrom dbg w n x Hw Hx) ];
  rewrite of_outcome_obind;
  (destruct (U_from_float dbg _ w n _) as [u|]; [|reflexivity]); cbn [of_outcome bind];
  [ destruct (cmp_ge (ucmp u (IMIN w n))); [reflexivity | apply bind_done_r]
  | destruct (is_negative w u); reflexivity ].

Lemma floatgen_I_from_f32 : forall dbg w n x, 0 < w -> 0 <= x < 2 ^ fbits F32 ->
  FloatGen.I_from_f32 dbg w (Z.of_nat n) x = of_outcome (I_from_float dbg F32 w n x).
Proof. tie_I_from FloatGen.I_from_f32 floatgen_U_from_f32 fmt_ok_F32. Qed.

Lemma floatgen_I_from_f64 : forall dbg w n x, 0 < w -> 0 <= x < 2 ^ fbits F64 ->
  FloatGen.I_from_f64 dbg w (Z.of_nat n) x = of_outcome (I_from_float dbg F64 w n x).
Proof. tie_I_from FloatGen.I_from_f64 floatgen_U_from_f64 fmt_ok_F64. Qed.

(* ---- all obligations of the group in one statement: the eight `CastFrom` impls ---- *)
Theorem floatgen_C14_match_model : forall dbg w n, 0 < w ->
  (forall a, wf w n a ->
     FloatGen.U_to_f32 dbg w (Z.of_nat n) a = of_outcome (U_to_float dbg F32 w a) /\
     FloatGen.U_to_f64 dbg w (Z.of_nat n) a = of_outcome (U_to_float dbg F64 w a)) /\
  (forall a, (0 < n)%nat -> wf w n a ->
     FloatGen.I_to_f32 dbg w (Z.of_nat n) a = of_outcome (I_to_float dbg F32 w a) /\
     FloatGen.I_to_f64 dbg w (Z.of_nat n) a = of_outcome (I_to_float dbg F64 w a)) /\
  (forall x, 0 <= x < 2 ^ 32 ->
     FloatGen.U_from_f32 dbg w (Z.of_nat n) x = of_outcome (U_from_float dbg F32 w n x) /\
     FloatGen.I_from_f32 dbg w (Z.of_nat n) x = of_outcome (I_from_float dbg F32 w n x)) /\
  (forall x, 0 <= x < 2 ^ 64 ->
     FloatGen.U_from_f64 dbg w (Z.of_nat n) x = of_outcome (U_from_float dbg F64 w n x) /\
     FloatGen.I_from_f64 dbg w (Z.of_nat n) x = of_outcome (I_from_float dbg F64 w n x)).
Proof.
  intros dbg w n Hw. split; [|split; [|split]].
  - intros a Hwf. split; [apply floatgen_U_to_f32 | apply floatgen_U_to_f64]; assumption.
  - intros a Hn Hwf. split; [apply floatgen_I_to_f32 | apply floatgen_I_to_f64]; assumption.
  - intros x Hx. split; [apply floatgen_U_from_f32 | apply floatgen_I_from_f32]; assumption.
  - intros x Hx. split; [apply floatgen_U_from_f64 | apply floatgen_I_from_f64]; assumption.
Qed.

(* ---- the generic functions behind them, for every format: decode / encode helpers, the two casts, Bits for u32 / u64 ---- *)
Theorem floatgen_C14_generic_match_model : forall F, fmt_ok F -> 32 <= fbits F ->
  (forall x, 0 <= x < 2 ^ fbits F ->
     FloatGen.into_raw_parts F x = Done (into_raw_parts F x) /\
     FloatGen.into_biased_parts F x = Done (into_biased_parts F x) /\
     FloatGen.into_signed_biased_parts F x = Done (into_signed_biased_parts F x) /\
     FloatGen.into_signed_parts F x = Done (into_signed_parts F x) /\
     FloatGen.into_normalised_signed_parts F x = Done (into_normalised_signed_parts F x) /\
     FloatGen.mant_bits F x = Done (bitlen x) /\
     (forall i, 0 <= i < fbits F -> FloatGen.mant_bit F x i = Done (m_bit (fbits F) x i)) /\
     (forall dbg w n, 0 < w ->
        FloatGen.cast_uint_from_float dbg F w (Z.of_nat n) x = of_outcome (cast_uint_from_float dbg F w n x))) /\
  (forall dbg sign e m,
     (0 <= e < 2 ^ 32 -> FloatGen.from_raw_parts dbg F sign e m = of_outcome (from_raw_parts dbg F sign e m)) /\
     (0 <= e < 2 ^ 32 -> FloatGen.from_biased_parts dbg F sign e m = of_outcome (from_biased_parts dbg F sign e m)) /\
     FloatGen.from_signed_biased_parts dbg F sign e m = of_outcome (from_signed_biased_parts dbg F sign e m) /\
     FloatGen.from_signed_parts dbg F sign e m = of_outcome (from_signed_parts dbg F sign e m)) /\
  (forall dbg w n a, 0 < w -> wf w n a ->
     FloatGen.cast_float_from_uint dbg F w (Z.of_nat n) a = of_outcome (cast_float_from_uint dbg F w a)).
Proof.
  intros F Hok H32. split; [|split].
  - intros x Hx. repeat split.
    + apply floatgen_into_raw_parts; assumption.
    + apply floatgen_into_biased_parts; assumption.
    + apply floatgen_into_signed_biased_parts; assumption.
    + apply floatgen_into_signed_parts; assumption.
    + apply floatgen_into_normalised_signed_parts; assumption.
    + apply floatgen_mant_bits; [lia | assumption].
    + intros i Hi. apply floatgen_mant_bit; assumption.
    + intros dbg w n Hw. apply floatgen_cast_uint_from_float; assumption.
  - intros dbg sign e m. repeat split.
    + intros He. apply floatgen_from_raw_parts; assumption.
    + intros He. apply floatgen_from_biased_parts; assumption.
    + apply floatgen_from_signed_biased_parts; assumption.
    + apply floatgen_from_signed_parts; assumption.
  - intros dbg w n a Hw Hwf. apply floatgen_cast_float_from_uint; assumption.
Qed.

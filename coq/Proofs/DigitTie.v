(* Proofs/DigitTie.v — the functions GENERATED from /repo/src/digit.rs on every run
   (Generated/DigitGen.v, by tools/rs2v_digit.py) equal the hand-written model Model/Digit.v, for every
   digit width w > 0 and all digit arguments.  An edit of digit.rs that changes behaviour breaks one of
   these obligations; a behaviour-preserving rewrite inside the supported subset still goes through or is
   repaired here. *)
From Bnum Require Import Base Prim.
From Bnum.Model Require Import DigitPrims Digit.
From Bnum.Generated Require Import DigitGen.

Lemma DB_eq w : 0 <= w -> DB w = B w * B w.
Proof. intros; unfold DB, B. rewrite <- Z.pow_add_r by lia. f_equal. lia. Qed.

Theorem tie_to_double_digit w low high : 0 < w -> digit_ok w low -> digit_ok w high ->
  DigitGen.to_double_digit w low high = to_double_digit w low high.
Proof.
  intros Hw Hl Hh. unfold DigitGen.to_double_digit, to_double_digit, dd_or, dd_shl, dd_of_digit.
  fold (B w). rewrite DB_eq by lia. unfold digit_ok in *. pose proof (B_pos w ltac:(lia)).
  rewrite Z.mod_small by nia. reflexivity.
Qed.

Theorem tie_carrying_add w a b c : DigitGen.carrying_add w a b c = carrying_add w a b c.
Proof. reflexivity. Qed.
Theorem tie_borrowing_sub w a b c : DigitGen.borrowing_sub w a b c = borrowing_sub w a b c.
Proof. reflexivity. Qed.
Theorem tie_carrying_add_signed w a b c : DigitGen.carrying_add_signed w a b c = carrying_add_signed w a b c.
Proof. reflexivity. Qed.
Theorem tie_borrowing_sub_signed w a b c : DigitGen.borrowing_sub_signed w a b c = borrowing_sub_signed w a b c.
Proof. reflexivity. Qed.

Theorem tie_widening_mul w a b : 0 < w -> digit_ok w a -> digit_ok w b ->
  DigitGen.widening_mul w a b = widening_mul w a b.
Proof.
  intros Hw Ha Hb. unfold DigitGen.widening_mul, widening_mul, dd_mul, dd_shr, dd_of_digit, digit_of_dd.
  fold (B w). rewrite DB_eq by lia. unfold digit_ok in *. pose proof (B_pos w ltac:(lia)) as HB.
  assert (0 <= a * b < B w * B w) by nia.
  rewrite (Z.mod_small (a * b) (B w * B w)) by lia.
  f_equal. apply Z.mod_small. split; [apply Z.div_pos; lia | apply Z.div_lt_upper_bound; lia].
Qed.

Theorem tie_carrying_mul w a b carry current : 0 < w ->
  digit_ok w a -> digit_ok w b -> digit_ok w carry -> digit_ok w current ->
  DigitGen.carrying_mul w a b carry current = carrying_mul w a b carry current.
Proof.
  intros Hw Ha Hb Hc Hd. unfold DigitGen.carrying_mul, carrying_mul, dd_add, dd_mul, dd_shr, dd_of_digit, digit_of_dd.
  fold (B w). rewrite DB_eq by lia. unfold digit_ok in *. pose proof (B_pos w ltac:(lia)) as HB.
  assert (0 <= a * b < B w * B w) by nia.
  rewrite (Z.mod_small (a * b)) by lia. rewrite (Z.mod_small (carry + current)) by nia.
  rewrite (Z.mod_small (carry + current + a * b)) by nia. reflexivity.
Qed.

Theorem tie_div_rem_wide w low high rhs : 0 < w -> digit_ok w low -> digit_ok w high ->
  DigitGen.div_rem_wide w low high rhs = div_rem_wide w low high rhs.
Proof.
  intros Hw Hl Hh. unfold DigitGen.div_rem_wide, div_rem_wide, dd_div, dd_rem, dd_of_digit, digit_of_dd.
  rewrite tie_to_double_digit by assumption. reflexivity.
Qed.

(* all eight obligations in one statement *)
Theorem digit_rs_matches_model w : 0 < w ->
  (forall low high, digit_ok w low -> digit_ok w high -> DigitGen.to_double_digit w low high = to_double_digit w low high) /\
  (forall a b c, DigitGen.carrying_add w a b c = carrying_add w a b c) /\
  (forall a b c, DigitGen.borrowing_sub w a b c = borrowing_sub w a b c) /\
  (forall a b c, DigitGen.carrying_add_signed w a b c = carrying_add_signed w a b c) /\
  (forall a b c, DigitGen.borrowing_sub_signed w a b c = borrowing_sub_signed w a b c) /\
  (forall a b, digit_ok w a -> digit_ok w b -> DigitGen.widening_mul w a b = widening_mul w a b) /\
  (forall a b c d, digit_ok w a -> digit_ok w b -> digit_ok w c -> digit_ok w d ->
                   DigitGen.carrying_mul w a b c d = carrying_mul w a b c d) /\
  (forall low high rhs, digit_ok w low -> digit_ok w high -> DigitGen.div_rem_wide w low high rhs = div_rem_wide w low high rhs).
Proof.
  intros Hw. repeat split; intros.
  - apply tie_to_double_digit; assumption.
  - apply tie_widening_mul; assumption.
  - apply tie_carrying_mul; assumption.
  - apply tie_div_rem_wide; assumption.
Qed.

(* Proofs/DischargeRandom.v — the premises of the C20 development (Proofs/RandomDeps.v) discharged by
   the theorems of C01, C02, C03, C05, C06, C07. *)
From Bnum Require Import Base Prim.
From Bnum.Model Require Import Digit Core Shift AddSub Mul Div Bits.
From Bnum.Proofs Require Import AddSub Mul Shift Cmp BitsLemmas Bits SignedAux DivFinal RandomDeps.
From Bnum.Proofs Require Random.

Lemma widening_mul_spec_holds : widening_mul_spec.
Proof.
  intros w n a b Hw Ha Hb. pose proof (U_widening_mul_ok w n a b Hw Ha Hb) as H.
  destruct (U_widening_mul w a b) as [lo hi]. exact H.
Qed.

Lemma wrapping_add_spec_holds : wrapping_add_spec.
Proof.
  intros w n a b Hw Ha Hb. pose proof (U_overflowing_add_ok w n a b Hw Ha Hb) as H.
  unfold U_wrapping_add. destruct (U_overflowing_add w a b) as [r f]. destruct H as (H1 & H2 & _). split; assumption.
Qed.

Lemma wrapping_sub_spec_holds : wrapping_sub_spec.
Proof.
  intros w n a b Hw Ha Hb. pose proof (U_overflowing_sub_ok w n a b Hw Ha Hb) as H.
  unfold U_wrapping_sub. destruct (U_overflowing_sub w a b) as [r f]. destruct H as (H1 & H2 & _). split; assumption.
Qed.

Lemma I_overflowing_sub_spec_holds : I_overflowing_sub_spec.
Proof.
  intros w n a b Hw Ha Hb. destruct n as [|k].
  - apply wf_inv_0 in Ha, Hb. subst a b. cbn. split; [apply wf_nil | rewrite Mod_0; reflexivity].
  - rewrite <- (I_wrapping_sub_eq w (S k) a b Hw ltac:(lia) Ha Hb). unfold I_wrapping_sub.
    apply (wrapping_sub_spec_holds w (S k) a b Hw Ha Hb).
Qed.

Lemma ucmp_spec_holds : ucmp_spec.
Proof. intros w n a b Hw Ha Hb. apply (ucmp_ok w n); [lia | assumption | assumption]. Qed.

Lemma icmp_spec_holds : icmp_spec.
Proof. intros w n a b Hw Hn Ha Hb. apply (icmp_ok w n); assumption. Qed.

Lemma rem_spec_holds : rem_spec.
Proof.
  intros w n a b Hw Ha Hb Hnz. destruct (U_rem_ok_closed w n a b Hw Ha Hb) as (_ & H). exact (H Hnz).
Qed.

Lemma shl_spec_holds : shl_spec.
Proof. intros w n a k Hw Ha Hk. exact (shl_internal_ok w n a k Hw Ha Hk). Qed.

Lemma leading_zeros_spec_holds : leading_zeros_spec.
Proof. intros w n a Hw Ha. exact (leading_zeros_ok w n a Hw Ha). Qed.

Lemma U_overflowing_sub_flag_spec_holds : U_overflowing_sub_flag_spec.
Proof.
  intros w n a b Hw Ha Hb. pose proof (U_overflowing_sub_ok w n a b Hw Ha Hb) as H.
  destruct (U_overflowing_sub w a b) as [r f]. destruct H as (_ & _ & H). exact H.
Qed.

Lemma I_overflowing_sub_flag_spec_holds : I_overflowing_sub_flag_spec.
Proof.
  intros w n a b Hw Hn Ha Hb. pose proof (I_overflowing_sub_ok w n a b Hw Hn Ha Hb) as H.
  destruct (I_overflowing_sub w a b) as [r f]. destruct H as (_ & _ & H). exact H.
Qed.

Lemma range_premises_holds : Random.range_premises.
Proof. exact (conj widening_mul_spec_holds (conj wrapping_add_spec_holds wrapping_sub_spec_holds)). Qed.

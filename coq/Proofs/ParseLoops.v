(* Proofs/ParseLoops.v — step A of the C10 proofs: every index-based loop of
   from_buf_radix_internal (Model/Parse.v) equals a function of the LIST of bytes it reads.
   No arithmetic here: pure program equivalence, all indices shown in range (no Panic). *)
From Bnum Require Import Base Prim.
From Bnum.Model Require Import Digit Core Shift AddSub Bits Parse.

(* ---- list-level counterparts ---- *)
Definition dig (fs : bool) (b : Z) : Z := byte_to_digit fs b.
Definition okd (fs : bool) (ru b : Z) : bool := dig fs b <? ru.

Definition check_list (fs : bool) (ru : Z) (v : list Z) : pout unit :=
  if forallb (okd fs ru) v then POk tt else PErr InvalidDigit.

Fixpoint acc_list (fs dbg : bool) (w radix ru : Z) (v : list Z) (acc : Z) : pout Z :=
  match v with
  | [] => POk acc
  | b :: v' =>
      let d := dig fs b in
      if ru <=? d then PErr InvalidDigit
      else pbind (d_mul dbg w acc (radix mod B w)) (fun m =>
           pbind (d_add dbg w m d) (fun a => acc_list fs dbg w radix ru v' a))
  end.

Fixpoint pack_list (fs : bool) (w ru log2r : Z) (v : list Z) (j acc : Z) : pout Z :=
  match v with
  | [] => POk acc
  | b :: v' =>
      let d := dig fs b in
      if ru <=? d then PErr InvalidDigit
      else pack_list fs w ru log2r v' (j + 1) (u_or acc (u_shl w d (j * log2r)))
  end.

(* strip leading (most significant) zero digits *)
Fixpoint strip_list (fs : bool) (v : list Z) : list Z :=
  match v with
  | [] => []
  | b :: v' => if dig fs b =? 0 then strip_list fs v' else v
  end.

(* most-significant-first and least-significant-first readings of the whole buffer *)
Definition Lm (be : bool) (buf : list Z) : list Z := if be then buf else rev buf.
Definition Ll (be : bool) (buf : list Z) : list Z := if be then rev buf else buf.

(* ---- reading ---- *)
Lemma blen_nonneg buf : 0 <= blen buf.
Proof. unfold blen; lia. Qed.

Lemma rd_ok buf i : 0 <= i < blen buf -> rd buf i = POk (nth (Z.to_nat i) buf 0).
Proof.
  intros H. unfold rd.
  destruct (Z.leb_spec 0 i); [|lia]. destruct (Z.ltb_spec i (blen buf)); [|lia]. reflexivity.
Qed.

Lemma rd_rev buf i : 0 <= i < blen buf ->
  rd buf (blen buf - 1 - i) = POk (nth (Z.to_nat i) (rev buf) 0).
Proof.
  intros H. unfold blen in *. rewrite rd_ok by (unfold blen; lia).
  rewrite rev_nth by lia. f_equal. f_equal. lia.
Qed.

Lemma rd_msd be buf i : 0 <= i < blen buf ->
  rd buf (msd_idx be buf i) = POk (nth (Z.to_nat i) (Lm be buf) 0).
Proof.
  intros H. unfold msd_idx, Lm. destruct be; [apply rd_ok | apply rd_rev]; exact H.
Qed.

Lemma Lm_length be buf : length (Lm be buf) = length buf.
Proof. unfold Lm; destruct be; [reflexivity | apply rev_length]. Qed.
Lemma Ll_length be buf : length (Ll be buf) = length buf.
Proof. unfold Ll; destruct be; [apply rev_length | reflexivity]. Qed.

Lemma nth_mid (pre : list Z) x post : nth (length pre) (pre ++ x :: post) 0 = x.
Proof. apply nth_middle. Qed.

(* ---- check_digits ---- *)
Lemma check_list_cons fs ru b v :
  check_list fs ru (b :: v) = if ru <=? dig fs b then PErr InvalidDigit else check_list fs ru v.
Proof.
  unfold check_list, okd. cbn [forallb].
  destruct (Z.ltb_spec (dig fs b) ru); destruct (Z.leb_spec ru (dig fs b)); try lia; reflexivity.
Qed.

Lemma check_digits_view fs idxf ru buf L :
  length L = length buf ->
  (forall k, 0 <= k < blen buf -> rd buf (idxf k) = POk (nth (Z.to_nat k) L 0)) ->
  forall v pre post, L = pre ++ v ++ post ->
  check_digits fs idxf ru buf (Z.of_nat (length pre)) (length v) = check_list fs ru v.
Proof.
  intros HL Hrd v. induction v as [|x v IH]; intros pre post E.
  - reflexivity.
  - cbn [length check_digits]. rewrite check_list_cons.
    assert (Hlen : (length pre < length buf)%nat).
    { rewrite <- HL, E, !app_length. cbn [length]. lia. }
    rewrite Hrd by (unfold blen; lia). rewrite Nat2Z.id.
    rewrite E. cbn [app]. rewrite nth_mid. cbn [pbind]. fold (dig fs x).
    destruct (ru <=? dig fs x); [reflexivity|].
    replace (Z.of_nat (length pre) + 1) with (Z.of_nat (length (pre ++ [x]))) by (rewrite app_length; cbn [length]; lia).
    apply IH with post. rewrite E, <- app_assoc. reflexivity.
Qed.

(* ---- acc_digits ---- *)
Lemma acc_digits_view fs be dbg w radix ru buf :
  forall v pre post acc, Lm be buf = pre ++ v ++ post ->
  acc_digits fs be dbg w radix ru buf (Z.of_nat (length pre)) (length v) acc = acc_list fs dbg w radix ru v acc.
Proof.
  intros v. induction v as [|x v IH]; intros pre post acc E.
  - reflexivity.
  - cbn [length acc_digits acc_list].
    assert (Hlen : (length pre < length buf)%nat).
    { rewrite <- (Lm_length be buf), E, !app_length. cbn [length]. lia. }
    rewrite rd_msd by (unfold blen; lia). rewrite Nat2Z.id, E. cbn [app]. rewrite nth_mid. cbn [pbind].
    fold (dig fs x). destruct (ru <=? dig fs x); [reflexivity|].
    destruct (d_mul dbg w acc (radix mod B w)) as [m| | |]; cbn [pbind]; try reflexivity.
    destruct (d_add dbg w m (dig fs x)) as [a| | |]; cbn [pbind]; try reflexivity.
    replace (Z.of_nat (length pre) + 1) with (Z.of_nat (length (pre ++ [x]))) by (rewrite app_length; cbn [length]; lia).
    apply (IH (pre ++ [x]) post a). rewrite E, <- app_assoc. reflexivity.
Qed.

(* ---- pack_digit ---- *)
Lemma rd_lsd (be : bool) buf (k : Z) : 0 <= k < blen buf ->
  rd buf (if be then blen buf - 1 - k else k) = POk (nth (Z.to_nat k) (Ll be buf) 0).
Proof.
  intros H. unfold Ll. destruct be; [apply rd_rev | apply rd_ok]; exact H.
Qed.

Lemma pack_digit_view fs be w ru log2r buf :
  forall v pre post j acc, Ll be buf = pre ++ v ++ post ->
  forall k0, k0 + j = Z.of_nat (length pre) ->
  pack_digit fs be w ru log2r buf k0 j (length v) acc = pack_list fs w ru log2r v j acc.
Proof.
  intros v. induction v as [|x v IH]; intros pre post j acc E k0 Hk.
  - reflexivity.
  - cbn [length pack_digit pack_list].
    assert (Hlen : (length pre < length buf)%nat).
    { rewrite <- (Ll_length be buf), E, !app_length. cbn [length]. lia. }
    rewrite rd_lsd by (unfold blen; lia). rewrite Hk, Nat2Z.id, E. cbn [app]. rewrite nth_mid. cbn [pbind].
    fold (dig fs x). destruct (ru <=? dig fs x); [reflexivity|].
    apply IH with (pre := pre ++ [x]) (post := post).
    + rewrite E, <- app_assoc. reflexivity.
    + rewrite app_length. cbn [length]. lia.
Qed.

(* ---- strip_zeros (the combinations the code uses: big endian with or without a sign,
   little endian without) ---- *)
Lemma strip_zeros_view fs be sign buf : (be = true \/ sign = false) ->
  forall v pre, Lm be buf = pre ++ v ->
  strip_zeros fs be sign buf (length v) = POk (Z.of_nat (length (strip_list fs v))).
Proof.
  intros Hc v. induction v as [|x v IH]; intros pre E.
  - reflexivity.
  - cbn [length strip_zeros strip_list].
    assert (Hl : length buf = (length pre + S (length v))%nat).
    { rewrite <- (Lm_length be buf), E, app_length. reflexivity. }
    assert (Hrd : rd buf (if be then blen buf - Z.of_nat (S (length v)) else Z.of_nat (S (length v)) - 1 + (if sign then 1 else 0))
                  = POk x).
    { destruct be.
      - unfold Lm in E. rewrite rd_ok by (unfold blen; lia).
        replace (Z.to_nat (blen buf - Z.of_nat (S (length v)))) with (length pre) by (unfold blen; lia).
        rewrite E, nth_mid. reflexivity.
      - destruct Hc as [Hc|Hc]; [discriminate|]. subst sign. unfold Lm in E.
        replace (Z.of_nat (S (length v)) - 1 + 0) with (blen buf - 1 - Z.of_nat (length pre)) by (unfold blen; lia).
        rewrite rd_rev by (unfold blen; lia). rewrite Nat2Z.id, E, nth_mid. reflexivity. }
    rewrite Hrd. cbn [pbind]. fold (dig fs x).
    destruct (dig fs x =? 0).
    + apply IH with (pre ++ [x]). rewrite E, <- app_assoc. reflexivity.
    + cbn [length]. reflexivity.
Qed.

Lemma strip_list_suffix fs v : exists z, v = z ++ strip_list fs v /\ Forall (fun b => dig fs b = 0) z.
Proof.
  induction v as [|x v IH]; cbn [strip_list].
  - exists []. split; [reflexivity | constructor].
  - destruct (Z.eqb_spec (dig fs x) 0) as [E|E].
    + destruct IH as (z & Hz & Hf). exists (x :: z). split; [cbn [app]; f_equal; exact Hz | constructor; auto].
    + exists []. split; [reflexivity | constructor].
Qed.

Lemma strip_list_head fs v : match strip_list fs v with [] => True | b :: _ => dig fs b <> 0 end.
Proof.
  induction v as [|x v IH]; cbn [strip_list]; [exact I|].
  destruct (Z.eqb_spec (dig fs x) 0); [exact IH | assumption].
Qed.

(* ---- pack_full ---- *)
Fixpoint pack_full_list (fs : bool) (w ru log2r : Z) (bd : nat) (v : list Z) (count : nat) : pout (list Z) :=
  match count with
  | O => POk []
  | S c =>
      pbind (pack_list fs w ru log2r (firstn bd v) 0 0) (fun d =>
      pbind (pack_full_list fs w ru log2r bd (skipn bd v) c) (fun r => POk (d :: r)))
  end.

Lemma pack_full_view fs be w ru log2r buf (bd : nat) :
  forall count v pre post i, Ll be buf = pre ++ v ++ post ->
  Z.of_nat (length pre) = i * Z.of_nat bd -> length v = (count * bd)%nat ->
  pack_full fs be w ru log2r (Z.of_nat bd) buf i count = pack_full_list fs w ru log2r bd v count.
Proof.
  induction count as [|c IH]; intros v pre post i E Hp Hv.
  - reflexivity.
  - cbn [pack_full pack_full_list]. rewrite Nat2Z.id.
    assert (Hv1 : length (firstn bd v) = bd) by (rewrite firstn_length; lia).
    rewrite <- (firstn_skipn bd v) in E. rewrite <- app_assoc in E.
    pose proof (pack_digit_view fs be w ru log2r buf (firstn bd v) pre (skipn bd v ++ post) 0 0 E
                  (i * Z.of_nat bd) ltac:(lia)) as Hpd.
    rewrite Hv1 in Hpd. rewrite Hpd. clear Hpd.
    destruct (pack_list fs w ru log2r (firstn bd v) 0 0) as [d| | |]; cbn [pbind]; try reflexivity.
    rewrite (IH (skipn bd v) (pre ++ firstn bd v) post (i + 1)).
    + reflexivity.
    + rewrite E, <- app_assoc. reflexivity.
    + rewrite app_length, Hv1. lia.
    + rewrite skipn_length. lia.
Qed.

(* ---- chunk_loop ---- *)
Fixpoint chunk_list (fuel : nat) (fs dbg : bool) (w : Z) (n : nat) (radix ru base : Z) (pw : nat)
  (R out : list Z) : pout (list Z) :=
  match R with
  | [] => POk out
  | _ =>
      match fuel with
      | O => PFuel
      | S f =>
          let '(out1, carry) := mul_small w out base 0 in
          if negb (carry =? 0) then
            pbind (check_list fs ru (firstn pw R)) (fun _ => PErr PosOverflow)
          else
            pbind (acc_list fs dbg w radix ru (firstn pw R) 0) (fun nn =>
              match U_checked_add w out1 (from_digit n nn) with
              | Some out2 => chunk_list f fs dbg w n radix ru base pw (skipn pw R) out2
              | None => PErr PosOverflow
              end)
      end
  end.

Lemma chunk_loop_view fs be dbg w n radix ru base (pw : nat) buf : (0 < pw)%nat ->
  forall fuel R pre out, Lm be buf = pre ++ R ->
  chunk_loop fuel fs be dbg w n radix ru base (Z.of_nat pw) buf out (Z.of_nat (length pre))
  = chunk_list fuel fs dbg w n radix ru base pw R out.
Proof.
  intros Hpw. induction fuel as [|f IH]; intros R pre out E.
  - cbn [chunk_loop chunk_list].
    assert (Hl : length buf = (length pre + length R)%nat) by (rewrite <- (Lm_length be buf), E, app_length; reflexivity).
    destruct R as [|x R].
    + destruct (Z.ltb_spec (Z.of_nat (length pre)) (blen buf)); [unfold blen in *; cbn [length] in Hl; lia | reflexivity].
    + destruct (Z.ltb_spec (Z.of_nat (length pre)) (blen buf)); [reflexivity | unfold blen in *; cbn [length] in Hl; lia].
  - assert (Hl : length buf = (length pre + length R)%nat) by (rewrite <- (Lm_length be buf), E, app_length; reflexivity).
    destruct R as [|x R].
    + cbn [chunk_loop chunk_list].
      destruct (Z.ltb_spec (Z.of_nat (length pre)) (blen buf)); [unfold blen in *; cbn [length] in Hl; lia | reflexivity].
    + set (R0 := x :: R) in *.
      assert (HR0 : (0 < length R0)%nat) by (unfold R0; cbn [length]; lia).
      cbn [chunk_loop]. unfold chunk_list; fold chunk_list. fold R0.
      destruct (Z.ltb_spec (Z.of_nat (length pre)) (blen buf)); [|unfold blen in *; lia].
      replace (match R0 with [] => POk out | _ :: _ => _ end) with
        (let '(out1, carry) := mul_small w out base 0 in
          if negb (carry =? 0) then
            pbind (check_list fs ru (firstn pw R0)) (fun _ => PErr PosOverflow)
          else
            pbind (acc_list fs dbg w radix ru (firstn pw R0) 0) (fun nn =>
              match U_checked_add w out1 (from_digit n nn) with
              | Some out2 => chunk_list f fs dbg w n radix ru base pw (skipn pw R0) out2
              | None => PErr PosOverflow
              end)) by (unfold R0; reflexivity).
      destruct (mul_small w out base 0) as [out1 carry].
      assert (Hc1 : Z.to_nat (Z.min (blen buf) (Z.of_nat (length pre) + Z.of_nat pw) - Z.of_nat (length pre)) = length (firstn pw R0)).
      { rewrite firstn_length. unfold blen. lia. }
      assert (Hc2 : Z.to_nat (Z.min (Z.of_nat (length pre) + Z.of_nat pw) (blen buf) - Z.of_nat (length pre)) = length (firstn pw R0)).
      { rewrite firstn_length. unfold blen. lia. }
      assert (E' : Lm be buf = pre ++ firstn pw R0 ++ skipn pw R0) by (rewrite firstn_skipn; exact E).
      destruct (negb (carry =? 0)).
      * rewrite Hc1.
        rewrite (check_digits_view fs (msd_idx be buf) ru buf (Lm be buf) (Lm_length be buf)
                   (fun k Hk => rd_msd be buf k Hk) (firstn pw R0) pre (skipn pw R0) E').
        reflexivity.
      * rewrite Hc2.
        rewrite (acc_digits_view fs be dbg w radix ru buf (firstn pw R0) pre (skipn pw R0) 0 E').
        destruct (acc_list fs dbg w radix ru (firstn pw R0) 0) as [nn| | |]; cbn [pbind]; try reflexivity.
        destruct (U_checked_add w out1 (from_digit n nn)) as [out2|]; [|reflexivity].
        destruct (Nat.le_gt_cases pw (length R0)) as [Hle|Hgt].
        -- replace (Z.of_nat (length pre) + Z.of_nat pw) with (Z.of_nat (length (pre ++ firstn pw R0)))
             by (rewrite app_length, firstn_length; lia).
           apply IH. rewrite <- app_assoc. exact E'.
        -- (* the last chunk was short: start = end >= buf.len(), the loop ends *)
           rewrite (skipn_all2 R0) by lia.
           destruct f; cbn [chunk_loop chunk_list];
             (destruct (Z.ltb_spec (Z.of_nat (length pre) + Z.of_nat pw) (blen buf)); [unfold blen in *; lia | reflexivity]).
Qed.

(* ---- from_buf_radix_internal as a function of D, the list of input bytes after the sign,
   most significant first ---- *)
Definition is_pow2_radix (radix : Z) : bool :=
  (radix =? 2) || (radix =? 4) || (radix =? 16) || (radix =? 256).

Definition pow2_list (fs be : bool) (w : Z) (n : nat) (radix : Z) (D : list Z) : pout (list Z) :=
  let D' := strip_list fs D in
  let idl := Z.of_nat (length D') in
  let log2r := Z.log2 radix in
  let bdpd := w / log2r in
  let full_digits := idl / bdpd in
  let remaining_digits := idl mod bdpd in
  let ru := radix mod 256 in
  let N := Z.of_nat n in
  if (N <? full_digits) || ((full_digits =? N) && negb (remaining_digits =? 0)) then
    pbind (check_list fs ru (firstn (Z.to_nat (N * bdpd)) (if be then D' else rev D'))) (fun _ => PErr PosOverflow)
  else
    pbind (pack_full_list fs w ru log2r (Z.to_nat bdpd) (firstn (Z.to_nat (full_digits * bdpd)) (rev D'))
             (Z.to_nat full_digits)) (fun ds =>
    pbind (pack_list fs w ru log2r (skipn (Z.to_nat (full_digits * bdpd)) (rev D')) 0 0) (fun last =>
      let written := if remaining_digits =? 0 then ds else ds ++ [last] in
      if (n <? length written)%nat then PPanic else POk (written ++ ZERO (n - length written)))).

Definition gen_list (fuel : nat) (fs dbg : bool) (w : Z) (n : nat) (radix : Z) (D : list Z) : pout (list Z) :=
  match radix_base w radix with
  | None => PFuel
  | Some (base, power) =>
      let idl := Z.of_nat (length D) in
      let r := idl mod power in
      let split := if r =? 0 then power else r in
      let ru := radix mod 256 in
      pbind (acc_list fs dbg w radix ru (firstn (Z.to_nat split) D) 0) (fun first =>
        match n with
        | O => PPanic
        | S k => chunk_list fuel fs dbg w n radix ru base (Z.to_nat power) (skipn (Z.to_nat split) D)
                   (first :: repeat 0 k)
        end)
  end.

Lemma radix_base_loop_power fuel w radix : forall base power b p,
  radix_base_loop fuel w radix base power = Some (b, p) -> power <= p.
Proof.
  induction fuel as [|f IH]; intros base power b p H; cbn [radix_base_loop] in H; [discriminate|].
  destruct (d_checked_mul w base radix) as [m|].
  - apply IH in H. lia.
  - injection H as _ <-. lia.
Qed.

Lemma radix_base_power_pos w radix b p : radix_base w radix = Some (b, p) -> 1 <= p.
Proof. unfold radix_base. apply radix_base_loop_power. Qed.

Lemma div_mod_bounds a b : 0 <= a -> 0 < b -> a = b * (a / b) + a mod b /\ 0 <= a mod b < b /\ 0 <= a / b.
Proof.
  intros Ha Hb. split; [apply Z.div_mod; lia|]. split; [apply Z.mod_pos_bound; lia | apply Z.div_pos; lia].
Qed.

Lemma from_buf_pow2_view fs be dbg w n buf radix (sign : bool) :
  (be = true \/ sign = false) -> is_pow2_radix radix = true -> 0 < w / Z.log2 radix ->
  let s := if sign then 1%nat else 0%nat in
  (s < length buf)%nat ->
  from_buf_radix_internal fs be dbg w n buf radix sign = pow2_list fs be w n radix (skipn s (Lm be buf)).
Proof.
  intros Hc Hr Hbd s Hs.
  unfold from_buf_radix_internal. unfold is_pow2_radix in Hr. rewrite Hr.
  assert (Hlone : sign && (blen buf =? 1) = false).
  { destruct sign; [|reflexivity]. cbn [andb]. apply Z.eqb_neq. unfold blen. subst s. lia. }
  rewrite Hlone.
  set (D := skipn s (Lm be buf)).
  set (pre := firstn s (Lm be buf)).
  assert (ELm : Lm be buf = pre ++ D) by (unfold pre, D; symmetry; apply firstn_skipn).
  assert (Hpre : length pre = s) by (unfold pre; rewrite firstn_length, Lm_length; lia).
  assert (HD : length D = (length buf - s)%nat) by (unfold D; rewrite skipn_length, Lm_length; reflexivity).
  replace (Z.to_nat (if sign then blen buf - 1 else blen buf)) with (length D)
    by (rewrite HD; unfold blen; subst s; destruct sign; lia).
  rewrite (strip_zeros_view fs be sign buf Hc D pre ELm). cbn [pbind].
  unfold pow2_list.
  destruct (strip_list_suffix fs D) as (z & Hz & _).
  set (D' := strip_list fs D) in *.
  set (idl := Z.of_nat (length D')).
  set (bdpd := w / Z.log2 radix) in *.
  assert (Hidl : 0 <= idl) by (unfold idl; lia).
  destruct (div_mod_bounds idl bdpd Hidl Hbd) as (Hdm & Hrem & Hfull).
  set (full := idl / bdpd) in *. set (rem := idl mod bdpd) in *.
  assert (HDlen : length D = (length z + length D')%nat) by (rewrite Hz at 1; apply app_length).
  destruct ((Z.of_nat n <? full) || ((full =? Z.of_nat n) && negb (rem =? 0))) eqn:Hov.
  - (* too many digits: validate the window, report PosOverflow *)
    assert (Hwin : Z.of_nat n * bdpd < idl).
    { apply orb_true_iff in Hov. destruct Hov as [Hov|Hov].
      - apply Z.ltb_lt in Hov. nia.
      - apply andb_true_iff in Hov. destruct Hov as [H1 H2]. apply Z.eqb_eq in H1.
        apply negb_true_iff, Z.eqb_neq in H2. nia. }
    assert (Hwn : 0 <= Z.of_nat n * bdpd) by nia.
    set (win := Z.to_nat (Z.of_nat n * bdpd)).
    assert (Hwl : (win <= length D')%nat) by (unfold win, idl in *; lia).
    set (start := if be then blen buf - idl else if sign then 1 else 0).
    replace (Z.to_nat (Z.of_nat n * bdpd + start - start)) with win by (unfold win; f_equal; lia).
    destruct be.
    + (* big endian: the window is the most significant end of D' *)
      unfold Lm in ELm.
      assert (E : buf = (pre ++ z) ++ firstn win D' ++ skipn win D').
      { rewrite firstn_skipn, <- app_assoc, <- Hz. exact ELm. }
      assert (Hst : start = Z.of_nat (length (pre ++ z))).
      { unfold start, idl, blen. rewrite app_length. lia. }
      rewrite Hst.
      replace win with (length (firstn win D')) at 1 by (rewrite firstn_length; lia).
      rewrite (check_digits_view fs (fun i => i) (radix mod 256) buf buf eq_refl
                 (fun k Hk => rd_ok buf k Hk) (firstn win D') (pre ++ z) (skipn win D') E).
      reflexivity.
    + (* little endian (no sign): the window is the least significant end *)
      destruct Hc as [Hc|Hc]; [discriminate|]. subst sign. unfold Lm in ELm.
      assert (Hp0 : pre = []) by (destruct pre; [reflexivity | cbn [length] in Hpre; subst s; discriminate]).
      assert (E : buf = [] ++ firstn win (rev D') ++ (skipn win (rev D') ++ rev z)).
      { cbn [app]. rewrite app_assoc, firstn_skipn, <- rev_app_distr, <- Hz.
        rewrite <- (rev_involutive buf), ELm, Hp0. reflexivity. }
      replace start with (Z.of_nat (length (@nil Z))) by reflexivity.
      replace win with (length (firstn win (rev D'))) at 1 by (rewrite firstn_length, rev_length; lia).
      rewrite (check_digits_view fs (fun i => i) (radix mod 256) buf buf eq_refl
                 (fun k Hk => rd_ok buf k Hk) (firstn win (rev D')) [] (skipn win (rev D') ++ rev z) E).
      reflexivity.
  - (* the digits fit: pack them, least significant first *)
    assert (EL : exists post, Ll be buf = rev D' ++ post).
    { destruct be; unfold Lm, Ll in *.
      - exists (rev z ++ rev pre). rewrite ELm, Hz, !rev_app_distr, <- app_assoc. reflexivity.
      - exists (rev z ++ rev pre).
        rewrite <- (rev_involutive buf), ELm, Hz, !rev_app_distr, <- app_assoc. reflexivity. }
    destruct EL as (post & EL).
    set (bd := Z.to_nat bdpd).
    assert (Hbdz : bdpd = Z.of_nat bd) by (unfold bd; lia).
    set (fl := Z.to_nat (full * bdpd)).
    assert (Hfl : (fl <= length D')%nat) by (unfold fl, idl in *; nia).
    assert (E1 : Ll be buf = [] ++ firstn fl (rev D') ++ (skipn fl (rev D') ++ post)).
    { cbn [app]. rewrite app_assoc, firstn_skipn. exact EL. }
    rewrite Hbdz at 1.
    rewrite (pack_full_view fs be w (radix mod 256) (Z.log2 radix) buf bd (Z.to_nat full)
               (firstn fl (rev D')) [] (skipn fl (rev D') ++ post) 0 E1).
    2: { cbn [length]. lia. }
    2: { rewrite firstn_length, rev_length. unfold fl. nia. }
    destruct (pack_full_list fs w (radix mod 256) (Z.log2 radix) bd (firstn fl (rev D')) (Z.to_nat full)) as [ds| | |];
      cbn [pbind]; try reflexivity.
    assert (E2 : Ll be buf = firstn fl (rev D') ++ skipn fl (rev D') ++ post).
    { rewrite app_assoc, firstn_skipn. exact EL. }
    assert (Hrl : Z.to_nat rem = length (skipn fl (rev D'))).
    { rewrite skipn_length, rev_length. unfold fl, idl in *. nia. }
    rewrite Hrl.
    rewrite (pack_digit_view fs be w (radix mod 256) (Z.log2 radix) buf (skipn fl (rev D'))
               (firstn fl (rev D')) post 0 0 E2 (full * bdpd)).
    2: { rewrite firstn_length, rev_length. unfold fl. nia. }
    reflexivity.
Qed.

Lemma from_buf_gen_view fs be dbg w n buf radix (sign : bool) :
  is_pow2_radix radix = false ->
  let s := if sign then 1%nat else 0%nat in
  (s < length buf)%nat ->
  from_buf_radix_internal fs be dbg w n buf radix sign
  = gen_list (length buf) fs dbg w n radix (skipn s (Lm be buf)).
Proof.
  intros Hr s Hs.
  unfold from_buf_radix_internal. unfold is_pow2_radix in Hr. rewrite Hr.
  assert (Hlone : sign && (blen buf =? 1) = false).
  { destruct sign; [|reflexivity]. cbn [andb]. apply Z.eqb_neq. unfold blen. subst s. lia. }
  rewrite Hlone. unfold gen_list.
  destruct (radix_base w radix) as [[base power]|] eqn:Hrb; [|reflexivity].
  pose proof (radix_base_power_pos _ _ _ _ Hrb) as Hp.
  set (D := skipn s (Lm be buf)).
  set (pre := firstn s (Lm be buf)).
  assert (ELm : Lm be buf = pre ++ D) by (unfold pre, D; symmetry; apply firstn_skipn).
  assert (Hpre : length pre = s) by (unfold pre; rewrite firstn_length, Lm_length; lia).
  assert (HD : length D = (length buf - s)%nat) by (unfold D; rewrite skipn_length, Lm_length; reflexivity).
  replace (if sign then blen buf - 1 else blen buf) with (Z.of_nat (length D))
    by (rewrite HD; unfold blen; subst s; destruct sign; lia).
  set (idl := Z.of_nat (length D)).
  assert (Hidl : 0 < idl) by (unfold idl; lia).
  destruct (div_mod_bounds idl power ltac:(lia) ltac:(lia)) as (Hdm & Hrem & Hq).
  set (split := if idl mod power =? 0 then power else idl mod power).
  assert (Hsplit : 1 <= split <= idl).
  { unfold split. destruct (Z.eqb_spec (idl mod power) 0) as [E0|E0].
    - assert (0 < idl / power) by nia. nia.
    - nia. }
  set (sp := Z.to_nat split).
  assert (Hspl : (sp <= length D)%nat) by (unfold sp, idl in *; lia).
  assert (E1 : Lm be buf = pre ++ firstn sp D ++ skipn sp D) by (rewrite firstn_skipn; exact ELm).
  replace (if sign then 1 else 0) with (Z.of_nat (length pre)) by (rewrite Hpre; subst s; destruct sign; reflexivity).
  replace sp with (length (firstn sp D)) at 1 by (rewrite firstn_length; lia).
  rewrite (acc_digits_view fs be dbg w radix (radix mod 256) buf (firstn sp D) pre (skipn sp D) 0 E1).
  destruct (acc_list fs dbg w radix (radix mod 256) (firstn sp D) 0) as [first| | |]; cbn [pbind]; try reflexivity.
  destruct n as [|k]; [reflexivity|].
  replace (Z.of_nat (length pre) + split) with (Z.of_nat (length (pre ++ firstn sp D)))
    by (rewrite app_length, firstn_length; unfold sp; lia).
  replace power with (Z.of_nat (Z.to_nat power)) at 1 by lia.
  apply chunk_loop_view; [lia|].
  rewrite <- app_assoc. exact E1.
Qed.

(* Proofs/FloatCastDeps.v — facts about model functions of OTHER files (Shift, Bits, AddSub, Core) that the
   C14 proofs use.  They are being proved by the owners of those files; here they are named propositions,
   and every C14 theorem that needs one takes it as an explicit premise. *)
From Bnum Require Import Base Prim.
From Bnum.Model Require Import Digit Core Shift AddSub Bits.

Definition shl_internal_spec : Prop := forall w n x s, 0 < w -> wf w n x -> 0 <= s < bits w n ->
  wf w n (shl_internal w x s) /\ uval w (shl_internal w x s) = (uval w x * 2 ^ s) mod Mod w n.

Definition shr_pad_internal_spec : Prop := forall w n x s, 0 < w -> wf w n x -> 0 <= s < bits w n ->
  wf w n (shr_pad_internal w false x s) /\ uval w (shr_pad_internal w false x s) = uval w x / 2 ^ s.

Definition bits_of_spec : Prop := forall w n x, 0 < w -> wf w n x -> bits_of w x = bitlen (uval w x).

Definition trailing_zeros_spec : Prop := forall w n x, 0 < w -> wf w n x -> uval w x <> 0 ->
  0 <= trailing_zeros w x /\ (uval w x) mod 2 ^ (trailing_zeros w x) = 0 /\
  (uval w x / 2 ^ (trailing_zeros w x)) mod 2 = 1.

Definition bit_spec : Prop := forall w n x i, 0 < w -> wf w n x -> 0 <= i < bits w n ->
  bit w x i = Ret (Z.testbit (uval w x) i).

Definition I_overflowing_neg_spec : Prop := forall w n a, 0 < w -> (0 < n)%nat -> wf w n a ->
  wf w n (fst (I_overflowing_neg w a)) /\
  uval w (fst (I_overflowing_neg w a)) = (- uval w a) mod Mod w n /\
  snd (I_overflowing_neg w a) = (uval w a =? Mod w n / 2).

Definition is_negative_spec : Prop := forall w n a, 0 < w -> (0 < n)%nat -> wf w n a ->
  is_negative w a = (Mod w n / 2 <=? uval w a).

Definition ucmp_spec : Prop := forall w n a b, 0 < w -> wf w n a -> wf w n b ->
  ucmp a b = (uval w a ?= uval w b).

(* the premises are satisfiable: instances checked by computation *)
Example shl_internal_spec_instance :
  uval 8 (shl_internal 8 [0x81; 0x01; 0x40] 9) = (uval 8 [0x81; 0x01; 0x40] * 2 ^ 9) mod Mod 8 3.
Proof. vm_compute. reflexivity. Qed.
Example shr_pad_internal_spec_instance :
  uval 8 (shr_pad_internal 8 false [0x81; 0x01; 0x40] 9) = uval 8 [0x81; 0x01; 0x40] / 2 ^ 9.
Proof. vm_compute. reflexivity. Qed.
Example bits_of_spec_instance : bits_of 8 [0x81; 0x01; 0x00] = bitlen (uval 8 [0x81; 0x01; 0x00]).
Proof. vm_compute. reflexivity. Qed.
Example trailing_zeros_spec_instance :
  trailing_zeros 8 [0; 0x50; 1] = 12 /\ uval 8 [0; 0x50; 1] mod 2 ^ 12 = 0 /\ (uval 8 [0; 0x50; 1] / 2 ^ 12) mod 2 = 1.
Proof. vm_compute. repeat split. Qed.
Example bit_spec_instance : bit 8 [0; 0x50; 1] 12 = Ret (Z.testbit (uval 8 [0; 0x50; 1]) 12).
Proof. vm_compute. reflexivity. Qed.
Example I_overflowing_neg_spec_instance :
  uval 8 (fst (I_overflowing_neg 8 [0; 0x80])) = (- uval 8 [0; 0x80]) mod Mod 8 2 /\
  snd (I_overflowing_neg 8 [0; 0x80]) = (uval 8 [0; 0x80] =? Mod 8 2 / 2).
Proof. vm_compute. split; reflexivity. Qed.
Example is_negative_spec_instance : is_negative 8 [0; 0x80] = (Mod 8 2 / 2 <=? uval 8 [0; 0x80]).
Proof. vm_compute. reflexivity. Qed.
Example ucmp_spec_instance : ucmp [1; 2] [2; 1] = (uval 8 [1; 2] ?= uval 8 [2; 1]).
Proof. vm_compute. reflexivity. Qed.

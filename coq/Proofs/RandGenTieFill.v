(* Proofs/RandGenTieFill.v — `impl Fill for Slice<$BUint<N>> / Slice<$BInt<N>>` (fill_impl! of /repo/src/random.rs) and
   `try_fill_slice`, GENERATED on every run (Generated/RandGen.v: U_/I_try_fill, U_/I_try_fill_slice), against the hand model
   Random.try_fill_slice: for every digit width, digit count, slice (of any length, 0 included) and stream the generated function
   returns the model's result (the model takes only the LENGTH of the slice: every element is overwritten).  In particular the byte
   count `len * size_of::<T>()` passed to the raw view is the size of the whole slice (the `Panicked` branch of ImpRand.rng_fill_raw
   is not taken) and the `to_le` pass is the identity on the little-endian target. *)
From Bnum Require Import Base Prim.
From Bnum.Model Require Import Core Imp ImpRand.
From Bnum.Model Require Endian Random.
From Bnum.Generated Require Import RandGen.
Import Random.

Lemma gtb0_of_nat a : (Z.of_nat a >? 0) = (0 <? a)%nat.
Proof.
  rewrite Z.gtb_ltb. destruct (Nat.ltb_spec 0 a); [apply Z.ltb_lt; lia | apply Z.ltb_ge; lia].
Qed.

Lemma rand_try_fill_gen w n (slice : list (list Z)) s :
  (if Z.of_nat (length slice) >? 0 then
     draw self rng <- rng_fill_raw w (Z.of_nat n) slice (Z.of_nat (length slice) * size_of_bnum w (Z.of_nat n)) s ;;
     let self := map (fun x : list Z => x) self in
     Done (Some (self, rng))
   else Done (Some (slice, s)))
  = of_rres (try_fill_slice w n (length slice) s).
Proof.
  unfold try_fill_slice, rng_fill_raw, size_of_bnum. rewrite gtb0_of_nat, Nat2Z.id.
  destruct (Nat.ltb_spec 0 (length slice)) as [Hpos|H0].
  - rewrite <- Nat2Z.inj_mul, Z.eqb_refl.
    destruct (try_fill_bytes (length slice * BYTES w n) s) as [[bs rest]|]; [|reflexivity].
    cbn [rbind of_rres]. rewrite map_id. reflexivity.
  - destruct slice; [reflexivity | cbn [length] in H0; lia].
Qed.

Lemma rand_U_try_fill w n fuel slice s :
  RandGen.U_try_fill w (Z.of_nat n) fuel slice s = of_rres (U_try_fill_slice w n (length slice) s).
Proof. exact (rand_try_fill_gen w n slice s). Qed.

Lemma rand_I_try_fill w n fuel slice s :
  RandGen.I_try_fill w (Z.of_nat n) fuel slice s = of_rres (I_try_fill_slice w n (length slice) s).
Proof. exact (rand_try_fill_gen w n slice s). Qed.

Lemma rbind_ret' {A} (x : res (drawn A)) : rbind x (fun a s => Done (Some (a, s))) = x.
Proof. destruct x as [[[a s]|]| |]; reflexivity. Qed.

Lemma rand_U_try_fill_slice w n fuel slice s :
  RandGen.U_try_fill_slice w (Z.of_nat n) fuel slice s = of_rres (U_try_fill_slice w n (length slice) s).
Proof. unfold RandGen.U_try_fill_slice. rewrite rbind_ret'. apply rand_U_try_fill. Qed.

Lemma rand_I_try_fill_slice w n fuel slice s :
  RandGen.I_try_fill_slice w (Z.of_nat n) fuel slice s = of_rres (I_try_fill_slice w n (length slice) s).
Proof. unfold RandGen.I_try_fill_slice. rewrite rbind_ret'. apply rand_I_try_fill. Qed.

Theorem rand_C20_fill_match_model : forall (w : Z) (n fuel : nat) (slice : list (list Z)) (s : stream),
  let N := Z.of_nat n in
  RandGen.U_try_fill w N fuel slice s = of_rres (U_try_fill_slice w n (length slice) s) /\
  RandGen.I_try_fill w N fuel slice s = of_rres (I_try_fill_slice w n (length slice) s) /\
  RandGen.U_try_fill_slice w N fuel slice s = of_rres (U_try_fill_slice w n (length slice) s) /\
  RandGen.I_try_fill_slice w N fuel slice s = of_rres (I_try_fill_slice w n (length slice) s).
Proof.
  intros w n fuel slice s N. subst N. repeat split.
  - apply rand_U_try_fill.
  - apply rand_I_try_fill.
  - apply rand_U_try_fill_slice.
  - apply rand_I_try_fill_slice.
Qed.

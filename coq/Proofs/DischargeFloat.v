(* Proofs/DischargeFloat.v — the premises of the C14 development (Proofs/FloatCastDeps.v) discharged by the
   theorems of the owners of the other models: Proofs/Shift.v (C02), Proofs/Bits.v (C06), Proofs/AddSub.v (C01),
   Proofs/Cmp.v (C07); then the four C14 cast theorems without premises.
   Names are qualified: ParseDeps / NumTraitsDeps / RadixOutDeps define premises with the same short names and
   different statements. *)
From Bnum Require Import Base Prim.
From Bnum.Model Require Import Digit Core Shift AddSub Bits FloatCast.
From Bnum.Proofs Require Shift Bits AddSub Cmp DischargeParse FloatCastDeps.
From Bnum.Proofs Require Import FloatCast FloatCastTo.
Local Open Scope Z_scope.

(* ---------- the premises ---------- *)

Lemma shl_internal_spec_holds : FloatCastDeps.shl_internal_spec.
Proof. intros w n x s Hw Hx Hs. exact (Bnum.Proofs.Shift.shl_internal_ok w n x s Hw Hx Hs). Qed.

Lemma shr_pad_internal_spec_holds : FloatCastDeps.shr_pad_internal_spec.
Proof. intros w n x s Hw Hx Hs. exact (Bnum.Proofs.Shift.shr_internal_ok w n x s Hw Hx Hs). Qed.

Lemma bits_of_spec_holds : FloatCastDeps.bits_of_spec.
Proof. intros w n x Hw Hx. exact (Bnum.Proofs.Bits.bits_of_ok w n x Hw Hx). Qed.

(* Bits.trailing_zeros_ok states oddness of the quotient as `testbit (uval) tz = true`; the C14 premise as
   `(uval / 2^tz) mod 2 = 1` *)
Lemma trailing_zeros_spec_holds : FloatCastDeps.trailing_zeros_spec.
Proof.
  intros w n x Hw Hx Hnz.
  destruct (Bnum.Proofs.Bits.trailing_zeros_ok w n x Hw Hx) as [_ H1].
  destruct (H1 Hnz) as (Hr & Hm & Hb).
  split; [lia|]. split; [exact Hm|].
  rewrite Z.testbit_true in Hb by lia. exact Hb.
Qed.

Lemma bit_spec_holds : FloatCastDeps.bit_spec.
Proof.
  intros w n x i Hw Hx Hi. rewrite (Bnum.Proofs.Bits.bit_ok w n x i Hw Hx) by lia.
  destruct (Z.ltb_spec i (bits w n)); [reflexivity | lia].
Qed.

(* AddSub.I_overflowing_neg_ok is stated on the signed reading (wrapS / inS); the C14 premise on the unsigned one *)
Lemma I_overflowing_neg_spec_holds : FloatCastDeps.I_overflowing_neg_spec.
Proof.
  intros w n a Hw Hn Ha.
  pose proof (Bnum.Proofs.AddSub.I_overflowing_neg_ok w n a Hw Hn Ha) as H.
  destruct (I_overflowing_neg w a) as [r f]. destruct H as (Hr & Hs & Hf). cbn [fst snd].
  pose proof (Mod_pos w n ltac:(lia)) as HM. pose proof (Mod_even w n Hw Hn) as HMe.
  pose proof (uval_bounds w n a ltac:(lia) Ha) as Hba. pose proof (uval_bounds w n r ltac:(lia) Hr) as Hbr.
  pose proof (sval_range w n a Hw Hn Ha) as Hsa.
  assert (Es : sval w a = if uval w a <? Mod w n / 2 then uval w a else uval w a - Mod w n).
  { unfold sval, to_signed. rewrite (wf_length _ _ _ Ha). reflexivity. }
  split; [exact Hr|]. split.
  - rewrite <- (Z.mod_small (uval w r) (Mod w n)) by lia.
    rewrite <- (sval_mod w n r Hw Hr), Hs, wrapS_mod by lia. rewrite Es.
    destruct (Z.ltb_spec (uval w a) (Mod w n / 2)); [reflexivity|].
    replace (- (uval w a - Mod w n)) with (- uval w a + 1 * Mod w n) by lia. apply Z_mod_plus_full.
  - subst f. unfold inS.
    destruct (Z.ltb_spec (uval w a) (Mod w n / 2));
      destruct (Z.leb_spec (- (Mod w n / 2)) (- sval w a)); destruct (Z.ltb_spec (- sval w a) (Mod w n / 2));
      destruct (Z.eqb_spec (uval w a) (Mod w n / 2)); cbn [andb negb]; try reflexivity; lia.
Qed.

(* Cmp.is_negative_ok: is_negative = (sval <? 0); the C14 premise: the top half of the unsigned range *)
Lemma is_negative_spec_holds : FloatCastDeps.is_negative_spec.
Proof.
  intros w n a Hw Hn Ha. rewrite (Bnum.Proofs.Cmp.is_negative_ok w n a Hw Hn Ha).
  unfold sval. rewrite (wf_length _ _ _ Ha).
  apply DischargeParse.to_signed_neg_iff; [apply Mod_pos; lia | apply uval_bounds; [lia | exact Ha]].
Qed.

Lemma ucmp_spec_holds : FloatCastDeps.ucmp_spec.
Proof. intros w n a b Hw Ha Hb. exact (Bnum.Proofs.Cmp.ucmp_ok w n a b ltac:(lia) Ha Hb). Qed.

(* ---------- the C14 cast theorems, premise-free ---------- *)

Lemma cast_uint_from_float_ok_closed : forall dbg F w n x,
  fmt_ok F -> 0 < w -> 0 <= x < 2 ^ fbits F ->
  exists r, U_from_float dbg F w n x = Ret r /\ wf w n r /\
            uval w r = float_to_U_spec F (Mod w n) x.
Proof. intros dbg F w n x. exact (cast_uint_from_float_ok dbg F w n x shl_internal_spec_holds). Qed.

Lemma I_from_float_ok_closed : forall dbg F w n x,
  fmt_ok F -> 0 < w -> (0 < n)%nat -> 0 <= x < 2 ^ fbits F ->
  exists r, I_from_float dbg F w n x = Ret r /\ wf w n r /\
            sval w r = float_to_S_spec F (Mod w n) x.
Proof.
  intros dbg F w n x.
  exact (I_from_float_ok dbg F w n x shl_internal_spec_holds I_overflowing_neg_spec_holds
           is_negative_spec_holds ucmp_spec_holds).
Qed.

Lemma cast_float_from_uint_ok_closed : forall dbg F w n a,
  fmt_ok F -> 0 < w -> wf w n a ->
  exists r, U_to_float dbg F w a = Ret r /\ int_to_float_spec F (uval w a) r.
Proof.
  intros dbg F w n a.
  exact (cast_float_from_uint_ok dbg F w n a shr_pad_internal_spec_holds bits_of_spec_holds
           trailing_zeros_spec_holds bit_spec_holds).
Qed.

Lemma I_to_float_ok_closed : forall dbg F w n a,
  fmt_ok F -> 0 < w -> (0 < n)%nat -> wf w n a ->
  exists f, I_to_float dbg F w a = Ret (if sval w a <? 0 then f + 2 ^ (fbits F - 1) else f) /\
            int_to_float_spec F (Z.abs (sval w a)) f.
Proof.
  intros dbg F w n a.
  exact (I_to_float_ok dbg F w n a shr_pad_internal_spec_holds bits_of_spec_holds
           trailing_zeros_spec_holds bit_spec_holds I_overflowing_neg_spec_holds is_negative_spec_holds).
Qed.

(* ---------- int -> float is total and returns a bit pattern of the format (used by C19) ---------- *)

Lemma cast_float_from_uint_total dbg F w n a : fmt_ok F -> 0 < w -> wf w n a ->
  exists r, cast_float_from_uint dbg F w a = Ret r /\ 0 <= r < 2 ^ fbits F.
Proof.
  intros Hok Hw Ha.
  destruct (cast_float_from_uint_ok dbg F w n a shr_pad_internal_spec_holds bits_of_spec_holds
              trailing_zeros_spec_holds bit_spec_holds Hok Hw Ha) as (r & Hr & Hspec).
  exists r. split; [exact Hr|].
  pose proof (uval_bounds w n a ltac:(lia) Ha) as HX.
  pose proof (int_to_float_spec_range F (uval w a) r Hok (proj1 HX) Hspec) as Hrr.
  pose proof (F_INFINITY_lt F Hok) as Hinf.
  pose proof Hok as (Hp & He & _). unfold ebits in He.
  assert (2 ^ (fbits F - 1) < 2 ^ fbits F) by (apply pow2_lt; lia). lia.
Qed.

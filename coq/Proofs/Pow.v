(* Proofs/Pow.v — C08, powers: square-and-multiply over the positive exponent computes
   A^e exactly (wrapped value + overflow flag), in the overflowing / checked / wrapping /
   saturating / strict / inherent forms, unsigned and signed.
   Multiplication correctness is the premise `mul_spec` (see PowDeps.v). *)
From Bnum Require Import Base Prim.
From Bnum.Model Require Import Digit Core Shift AddSub Mul Div Bits Pow.
From Bnum.Proofs Require Import PowDeps.
From Coq Require Import Zpow_facts.

(* ---------- value-level facts ---------- *)

Lemma pow_ge_1 b e : 1 <= b -> 0 <= e -> 1 <= b ^ e.
Proof. intros. pose proof (Z.pow_pos_nonneg b e ltac:(lia) ltac:(lia)). lia. Qed.

Lemma pow_ge_self b e : 1 <= b -> 1 <= e -> b <= b ^ e.
Proof.
  intros Hb He. replace b with (b ^ 1) at 1 by apply Z.pow_1_r.
  apply Z.pow_le_mono_r; lia.
Qed.

Lemma pow_double b p : 0 <= p -> b ^ (2 * p) = (b * b) ^ p.
Proof. intros. rewrite Z.pow_mul_r by lia. rewrite Z.pow_2_r. reflexivity. Qed.

Lemma pow_double_1 b p : 0 <= p -> b ^ (2 * p + 1) = b * (b * b) ^ p.
Proof. intros. rewrite Z.pow_add_r, Z.pow_1_r, pow_double by lia. ring. Qed.

Lemma res_step M y b p : 0 < M -> 0 <= p ->
  (y * ((b * b) mod M) ^ p) mod M = (y * b ^ (2 * p)) mod M.
Proof.
  intros HM Hp. rewrite pow_double by lia.
  rewrite Z.mul_mod by lia. rewrite <- Zpower_mod by lia. rewrite <- Z.mul_mod by lia. reflexivity.
Qed.

Lemma res_step_1 M y b p : 0 < M -> 0 <= p ->
  ((y * b) mod M * ((b * b) mod M) ^ p) mod M = (y * b ^ (2 * p + 1)) mod M.
Proof.
  intros HM Hp. rewrite pow_double_1 by lia.
  rewrite Z.mul_mod by lia. rewrite <- Zpower_mod, Z.mod_mod by lia. rewrite <- Z.mul_mod by lia.
  f_equal. ring.
Qed.

(* a squaring overflowed: the exact final value is >= M *)
Lemma ovf_sq M y b p : 1 <= M -> 0 <= b -> 1 <= y -> 1 <= p -> M <= b * b -> M <= y * (b * b) ^ p.
Proof.
  intros HM Hb Hy Hp Ho.
  pose proof (pow_ge_self (b * b) p ltac:(lia) Hp). nia.
Qed.

(* the multiply step overflowed *)
Lemma ovf_mul M y b p : 1 <= M -> 0 <= b -> 0 <= y -> 0 <= p -> M <= y * b -> M <= y * (b * (b * b) ^ p).
Proof.
  intros HM Hb Hy Hp Ho.
  assert (1 <= b) by nia.
  pose proof (pow_ge_1 (b * b) p ltac:(nia) Hp). nia.
Qed.

(* ---------- the overflowing loop ---------- *)

Lemma mul_ok (Hmul : mul_spec) w n (Hw : 0 < w) (Hn : (0 < n)%nat) a b : wf w n a -> wf w n b ->
  wf w n (fst (long_mul w a b)) /\ uval w (fst (long_mul w a b)) = (uval w a * uval w b) mod (Mod w n) /\
  snd (long_mul w a b) = ((Mod w n) <=? uval w a * uval w b).
Proof.
  intros Ha Hb. pose proof (Hmul w n a b Hw Ha Hb) as H. destruct (long_mul w a b); exact H.
Qed.

Lemma long_mul_comm (Hmul : mul_spec) w n (Hw : 0 < w) (Hn : (0 < n)%nat) a b : wf w n a -> wf w n b -> long_mul w a b = long_mul w b a.
Proof.
  intros Ha Hb. destruct (mul_ok Hmul w n Hw Hn a b Ha Hb) as (W1 & E1 & F1). destruct (mul_ok Hmul w n Hw Hn b a Hb Ha) as (W2 & E2 & F2).
  destruct (long_mul w a b) as [r1 f1], (long_mul w b a) as [r2 f2]. cbn [fst snd] in *.
  f_equal.
  - apply (uval_inj w n); auto; [lia|]. rewrite E1, E2, Z.mul_comm. reflexivity.
  - rewrite F1, F2, Z.mul_comm. reflexivity.
Qed.

Lemma ovf_pow_loop_ok (Hmul : mul_spec) w n (Hw : 0 < w) (Hn : (0 < n)%nat) : forall p base y ovf X,
  wf w n base -> wf w n y ->
  (uval w y * uval w base ^ Zpos p) mod (Mod w n) = X mod (Mod w n) ->
  (ovf = true -> (Mod w n) <= X) ->
  (ovf = false -> uval w y * uval w base ^ Zpos p = X /\ (uval w base = 0 \/ 1 <= uval w y)) ->
  wf w n (fst (ovf_pow_loop w p base y ovf)) /\
  uval w (fst (ovf_pow_loop w p base y ovf)) = X mod (Mod w n) /\
  snd (ovf_pow_loop w p base y ovf) = ((Mod w n) <=? X).
Proof.
  assert (HM : 0 < Mod w n) by (apply Mod_pos; lia).
  induction p as [p IH | p IH | ]; intros base y ovf X Hb Hy Hres Ht Hf;
    pose proof (uval_bounds w n base ltac:(lia) Hb) as Bb;
    pose proof (uval_bounds w n y ltac:(lia) Hy) as By; idtac.
  - (* xI *)
    cbn [ovf_pow_loop]. unfold U_overflowing_mul.
    destruct (mul_ok Hmul w n Hw Hn y base Hy Hb) as (W1 & E1 & F1). destruct (mul_ok Hmul w n Hw Hn base base Hb Hb) as (W2 & E2 & F2).
    destruct (long_mul w y base) as [y' o1], (long_mul w base base) as [b2 o2]. cbn [fst snd] in *.
    rewrite Pos2Z.inj_xI in Hres, Hf.
    apply IH; auto.
    + rewrite E1, E2, res_step_1 by lia. exact Hres.
    + intros Ho. destruct ovf; [auto|]. destruct (Hf eq_refl) as [HX Hy1].
      rewrite pow_double_1 in HX by lia. subst X. cbn [orb] in Ho.
      destruct o1.
      * symmetry in F1. apply Z.leb_le in F1. apply ovf_mul; lia.
      * cbn [orb] in Ho. rewrite Ho in F2. clear Ho. symmetry in F2. apply Z.leb_le in F2. rename F2 into Ho.
        symmetry in F1. apply Z.leb_gt in F1.
        assert (1 <= uval w y) by nia.
        pose proof (ovf_sq (Mod w n) 1 (uval w base) (Zpos p) ltac:(lia) ltac:(lia) ltac:(lia) ltac:(lia) Ho).
        assert (1 <= uval w base) by nia. nia.
    + intros Ho. destruct ovf; [discriminate|]. cbn [orb] in Ho.
      destruct o1; [discriminate|]. destruct o2; [discriminate|].
      destruct (Hf eq_refl) as [HX Hy1].
      symmetry in F1, F2. apply Z.leb_gt in F1, F2.
      rewrite E1, E2, !Z.mod_small by nia. split.
      * rewrite <- HX, pow_double_1 by lia. ring.
      * destruct Hy1 as [Hz|Hy1]; [left; rewrite Hz; reflexivity|].
        destruct (Z.eq_dec (uval w base) 0) as [Hz|Hz]; [left; rewrite Hz; reflexivity | right; nia].
  - (* xO *)
    cbn [ovf_pow_loop]. unfold U_overflowing_mul.
    destruct (mul_ok Hmul w n Hw Hn base base Hb Hb) as (W2 & E2 & F2).
    destruct (long_mul w base base) as [b2 o2]. cbn [fst snd] in *.
    rewrite Pos2Z.inj_xO in Hres, Hf.
    apply IH; auto.
    + rewrite E2, res_step by lia. exact Hres.
    + intros Ho. destruct ovf; [auto|]. destruct (Hf eq_refl) as [HX Hy1].
      rewrite pow_double in HX by lia. subst X. cbn [orb] in Ho. rewrite Ho in F2. clear Ho.
      symmetry in F2. apply Z.leb_le in F2. rename F2 into Ho.
      assert (1 <= uval w y) by nia.
      apply ovf_sq; lia.
    + intros Ho. destruct ovf; [discriminate|]. cbn [orb] in Ho. rewrite Ho in F2. clear Ho.
      destruct (Hf eq_refl) as [HX Hy1].
      symmetry in F2. apply Z.leb_gt in F2.
      rewrite E2, !Z.mod_small by nia. split.
      * rewrite <- HX, pow_double by lia. ring.
      * destruct Hy1 as [Hz|Hy1]; [left; rewrite Hz; reflexivity | right; exact Hy1].
  - (* xH *)
    cbn [ovf_pow_loop]. unfold U_overflowing_mul.
    destruct (mul_ok Hmul w n Hw Hn base y Hb Hy) as (W1 & E1 & F1).
    destruct (long_mul w base y) as [prod o]. cbn [fst snd] in *.
    rewrite Z.pow_1_r in Hres, Hf. split; [exact W1|]. split.
    + rewrite E1, <- Hres. f_equal. ring.
    + destruct ovf.
      * rewrite orb_true_r. symmetry. apply Z.leb_le. auto.
      * rewrite orb_false_r. destruct (Hf eq_refl) as [HX _]. rewrite F1, <- HX. f_equal. ring.
Qed.

Lemma ovf_pow_loop_true w : forall p base y, snd (ovf_pow_loop w p base y true) = true.
Proof.
  induction p as [p IH | p IH | ]; intros base y; cbn [ovf_pow_loop].
  - destruct (U_overflowing_mul w y base) as [y' o1], (U_overflowing_mul w base base) as [b2 o2].
    cbn [orb]. apply IH.
  - destruct (U_overflowing_mul w base base) as [b2 o2]. cbn [orb]. apply IH.
  - destruct (U_overflowing_mul w base y) as [pr o]. cbn [snd]. apply orb_true_r.
Qed.

Lemma checked_pow_loop_eq (Hmul : mul_spec) w n (Hw : 0 < w) (Hn : (0 < n)%nat) : forall p base y, wf w n base -> wf w n y ->
  checked_pow_loop w p base y = tuple_to_option (ovf_pow_loop w p base y false).
Proof.
  induction p as [p IH | p IH | ]; intros base y Hb Hy; cbn [checked_pow_loop ovf_pow_loop];
    unfold U_checked_mul, U_overflowing_mul.
  - rewrite (long_mul_comm Hmul w n Hw Hn y base Hy Hb).
    destruct (mul_ok Hmul w n Hw Hn base y Hb Hy) as (W1 & _). destruct (mul_ok Hmul w n Hw Hn base base Hb Hb) as (W2 & _).
    destruct (long_mul w base y) as [y' o1], (long_mul w base base) as [b2 o2]. cbn [fst snd] in *.
    unfold tuple_to_option at 1. cbn [fst snd]. destruct o1.
    + cbn [orb]. unfold tuple_to_option. rewrite ovf_pow_loop_true. reflexivity.
    + unfold tuple_to_option at 1. cbn [fst snd orb]. destruct o2.
      * unfold tuple_to_option. rewrite ovf_pow_loop_true. reflexivity.
      * apply IH; auto.
  - destruct (mul_ok Hmul w n Hw Hn base base Hb Hb) as (W2 & _).
    destruct (long_mul w base base) as [b2 o2]. cbn [fst snd] in *.
    unfold tuple_to_option at 1. cbn [fst snd orb]. destruct o2.
    + unfold tuple_to_option. rewrite ovf_pow_loop_true. reflexivity.
    + apply IH; auto.
  - destruct (long_mul w base y) as [pr o]. unfold tuple_to_option. cbn [fst snd].
    rewrite orb_false_r. reflexivity.
Qed.

Lemma wrapping_pow_loop_eq (Hmul : mul_spec) w n (Hw : 0 < w) (Hn : (0 < n)%nat) : forall p base y ovf, wf w n base -> wf w n y ->
  wrapping_pow_loop w p base y = fst (ovf_pow_loop w p base y ovf).
Proof.
  induction p as [p IH | p IH | ]; intros base y ovf Hb Hy; cbn [wrapping_pow_loop ovf_pow_loop];
    unfold U_wrapping_mul, U_overflowing_mul.
  - rewrite (long_mul_comm Hmul w n Hw Hn y base Hy Hb).
    destruct (mul_ok Hmul w n Hw Hn base y Hb Hy) as (W1 & _). destruct (mul_ok Hmul w n Hw Hn base base Hb Hb) as (W2 & _).
    destruct (long_mul w base y) as [y' o1], (long_mul w base base) as [b2 o2]. cbn [fst snd] in *.
    apply IH; auto.
  - destruct (mul_ok Hmul w n Hw Hn base base Hb Hb) as (W2 & _).
    destruct (long_mul w base base) as [b2 o2]. cbn [fst snd] in *. apply IH; auto.
  - destruct (long_mul w base y) as [pr o]. reflexivity.
Qed.

(* ---------- unsigned pow, all forms ---------- *)

Lemma U_overflowing_pow_fst_snd (Hmul : mul_spec) w n (Hw : 0 < w) (Hn : (0 < n)%nat) a e : wf w n a -> 0 <= e ->
  wf w n (fst (U_overflowing_pow w a e)) /\
  uval w (fst (U_overflowing_pow w a e)) = (uval w a ^ e) mod (Mod w n) /\
  snd (U_overflowing_pow w a e) = ((Mod w n) <=? uval w a ^ e).
Proof.
  intros Ha He. pose proof (Mod_ge_2 w n Hw Hn) as HM2. 
  unfold U_overflowing_pow. rewrite (wf_length _ _ _ Ha).
  destruct e as [|p|p]; [| |lia].
  - cbn [fst snd]. rewrite Z.pow_0_r, uval_ONE, Z.mod_small by lia.
    split; [apply wf_ONE; auto|]. split; [reflexivity|]. symmetry. apply Z.leb_gt. lia.
  - apply (ovf_pow_loop_ok Hmul w n Hw Hn); auto using wf_ONE.
    + rewrite uval_ONE by auto. f_equal. ring.
    + discriminate.
    + intros _. rewrite uval_ONE by auto. split; [ring | right; lia].
Qed.

Lemma U_checked_pow_eq (Hmul : mul_spec) w n (Hw : 0 < w) (Hn : (0 < n)%nat) a e : wf w n a -> U_checked_pow w a e = tuple_to_option (U_overflowing_pow w a e).
Proof.
  intros Ha. unfold U_checked_pow, U_overflowing_pow. destruct e; try reflexivity.
  apply (checked_pow_loop_eq Hmul w n Hw Hn); auto. rewrite (wf_length _ _ _ Ha). apply wf_ONE; auto.
Qed.

Lemma U_wrapping_pow_eq (Hmul : mul_spec) w n (Hw : 0 < w) (Hn : (0 < n)%nat) a e : wf w n a -> U_wrapping_pow w a e = fst (U_overflowing_pow w a e).
Proof.
  intros Ha. unfold U_wrapping_pow, U_overflowing_pow. destruct e; try reflexivity.
  apply (wrapping_pow_loop_eq Hmul w n Hw Hn); auto. rewrite (wf_length _ _ _ Ha). apply wf_ONE; auto.
Qed.

Theorem U_overflowing_pow_ok : mul_spec -> forall w n a e,
  0 < w -> (0 < n)%nat -> wf w n a -> 0 <= e ->
  let '(r, f) := U_overflowing_pow w a e in
  wf w n r /\ uval w r = (uval w a ^ e) mod Mod w n /\ f = (Mod w n <=? uval w a ^ e).
Proof.
  intros Hmul w n a e Hw Hn Ha He.
  pose proof (U_overflowing_pow_fst_snd Hmul w n Hw Hn a e Ha He) as H.
  destruct (U_overflowing_pow w a e); exact H.
Qed.

Theorem U_checked_pow_ok : mul_spec -> forall w n a e,
  0 < w -> (0 < n)%nat -> wf w n a -> 0 <= e ->
  if Mod w n <=? uval w a ^ e then U_checked_pow w a e = None
  else exists r, U_checked_pow w a e = Some r /\ wf w n r /\ uval w r = uval w a ^ e.
Proof.
  intros Hmul w n a e Hw Hn Ha He.
  rewrite (U_checked_pow_eq Hmul w n Hw Hn a e Ha).
  destruct (U_overflowing_pow_fst_snd Hmul w n Hw Hn a e Ha He) as (W & E & F).
  pose proof (uval_bounds w n a ltac:(lia) Ha) as Ba.
  pose proof (Z.pow_nonneg (uval w a) e ltac:(lia)) as Hp.
  unfold tuple_to_option. rewrite F.
  destruct (Z.leb_spec (Mod w n) (uval w a ^ e)); [reflexivity|].
  eexists; split; [reflexivity|]. split; [exact W|]. rewrite E. apply Z.mod_small. lia.
Qed.

Theorem U_wrapping_pow_ok : mul_spec -> forall w n a e,
  0 < w -> (0 < n)%nat -> wf w n a -> 0 <= e ->
  wf w n (U_wrapping_pow w a e) /\ uval w (U_wrapping_pow w a e) = (uval w a ^ e) mod Mod w n.
Proof.
  intros Hmul w n a e Hw Hn Ha He.
  rewrite (U_wrapping_pow_eq Hmul w n Hw Hn a e Ha).
  destruct (U_overflowing_pow_fst_snd Hmul w n Hw Hn a e Ha He) as (W & E & F). auto.
Qed.

Theorem U_saturating_pow_ok : mul_spec -> forall w n a e,
  0 < w -> (0 < n)%nat -> wf w n a -> 0 <= e ->
  wf w n (U_saturating_pow w a e) /\
  uval w (U_saturating_pow w a e) = Z.min (Mod w n - 1) (uval w a ^ e).
Proof.
  intros Hmul w n a e Hw Hn Ha He.
  destruct (U_overflowing_pow_fst_snd Hmul w n Hw Hn a e Ha He) as (W & E & F).
  pose proof (uval_bounds w n a ltac:(lia) Ha) as Ba.
  pose proof (Z.pow_nonneg (uval w a) e ltac:(lia)) as Hp.
  unfold U_saturating_pow, saturate_up. rewrite F.
  destruct (Z.leb_spec (Mod w n) (uval w a ^ e)).
  - rewrite (wf_length _ _ _ W). split; [apply wf_UMAX; lia|]. rewrite uval_UMAX by lia. lia.
  - split; [exact W|]. rewrite E, Z.mod_small by lia. lia.
Qed.

Theorem U_strict_pow_ok : mul_spec -> forall w n a e,
  0 < w -> (0 < n)%nat -> wf w n a -> 0 <= e ->
  if Mod w n <=? uval w a ^ e then U_strict_pow w a e = Panic
  else exists r, U_strict_pow w a e = Ret r /\ wf w n r /\ uval w r = uval w a ^ e.
Proof.
  intros Hmul w n a e Hw Hn Ha He.
  pose proof (U_checked_pow_ok Hmul w n a e Hw Hn Ha He) as H. unfold U_strict_pow.
  destruct (Mod w n <=? uval w a ^ e).
  - rewrite H. reflexivity.
  - destruct H as (r & -> & W & E). exists r. auto.
Qed.

(* inherent pow: debug builds panic exactly on overflow, release builds wrap *)
Theorem U_pow_ok : mul_spec -> forall dbg w n a e,
  0 < w -> (0 < n)%nat -> wf w n a -> 0 <= e ->
  if dbg && (Mod w n <=? uval w a ^ e) then U_pow dbg w a e = Panic
  else exists r, U_pow dbg w a e = Ret r /\ wf w n r /\ uval w r = (uval w a ^ e) mod Mod w n.
Proof.
  intros Hmul dbg w n a e Hw Hn Ha He. unfold U_pow. destruct dbg; cbn [andb].
  - pose proof (U_strict_pow_ok Hmul w n a e Hw Hn Ha He) as H.
    pose proof (uval_bounds w n a ltac:(lia) Ha) as Ba.
    pose proof (Z.pow_nonneg (uval w a) e ltac:(lia)) as Hp.
    destruct (Z.leb_spec (Mod w n) (uval w a ^ e)); [exact H|].
    destruct H as (r & -> & W & E). exists r. rewrite Z.mod_small by lia. auto.
  - eexists; split; [reflexivity|]. apply U_wrapping_pow_ok; auto.
Qed.

(* ---------- signed pow ---------- *)

Lemma pow_abs_sign s e : 0 <= e ->
  s ^ e = if (s <? 0) && Z.odd e then - (Z.abs s ^ e) else Z.abs s ^ e.
Proof.
  intros He. destruct (Z.ltb_spec s 0) as [Hs|Hs]; cbn [andb].
  - replace s with (- Z.abs s) at 1 by lia. destruct (Z.odd e) eqn:Eo.
    + apply Z.pow_opp_odd. apply Z.odd_spec. exact Eo.
    + apply Z.pow_opp_even. apply Z.even_spec. rewrite <- Z.negb_odd, Eo. reflexivity.
  - rewrite Z.abs_eq by lia. reflexivity.
Qed.

Lemma opp_mod_mod M x : 0 < M -> (- (x mod M)) mod M = (- x) mod M.
Proof.
  intros HM. replace (- (x mod M)) with (0 - x mod M) by ring. replace (- x) with (0 - x) by ring.
  apply Zminus_mod_idemp_r.
Qed.

Lemma sval_IMIN w n : 0 < w -> (0 < n)%nat -> sval w (IMIN w n) = - (Mod w n / 2).
Proof.
  intros Hw Hn. rewrite (sval_unfold w n _ (wf_IMIN w n Hw)), uval_IMIN by auto.
  pose proof (Mod_even w n Hw Hn). destruct (Z.leb_spec (Mod w n / 2) (Mod w n / 2)); lia.
Qed.

Lemma sval_IMAX w n : 0 < w -> (0 < n)%nat -> sval w (IMAX w n) = Mod w n / 2 - 1.
Proof.
  intros Hw Hn. rewrite (sval_unfold w n _ (wf_IMAX w n Hw)), uval_IMAX by auto.
  destruct (Z.leb_spec (Mod w n / 2) (Mod w n / 2 - 1)); lia.
Qed.

(* facts shared by the signed forms: P = |SA|^e, the unsigned overflowing result on |a| *)
Lemma I_pow_setup (Hmul : mul_spec) w n (Hw : 0 < w) (Hn : (0 < n)%nat) a e :
  wf w n a -> 0 <= e ->
  let P := Z.abs (sval w a) ^ e in
  let u := fst (U_overflowing_pow w (I_unsigned_abs w a) e) in
  wf w n (I_unsigned_abs w a) /\
  0 <= P /\ (sval w a < 0 -> 1 <= P) /\
  wf w n u /\ uval w u = P mod Mod w n /\
  snd (U_overflowing_pow w (I_unsigned_abs w a) e) = (Mod w n <=? P) /\
  is_negative w a = (sval w a <? 0) /\
  sval w a ^ e = (if (sval w a <? 0) && Z.odd e then - P else P).
Proof.
  intros Ha He P u. destruct (I_unsigned_abs_spec w n a Hw Hn Ha) as [Wabs Eabs].
  destruct (U_overflowing_pow_fst_snd Hmul w n Hw Hn _ e Wabs He) as (W & E & F).
  rewrite Eabs in E, F. fold P in E, F.
  split; [exact Wabs|]. split; [apply Z.pow_nonneg; lia|].
  split; [intros Hs; apply pow_ge_1; lia|].
  split; [exact W|]. split; [exact E|]. split; [exact F|].
  split; [apply is_negative_sval with n; auto|]. apply pow_abs_sign; auto.
Qed.

Lemma I_overflowing_pow_fst_snd (Hmul : mul_spec) w n (Hw : 0 < w) (Hn : (0 < n)%nat) a e :
  wf w n a -> 0 <= e ->
  wf w n (fst (I_overflowing_pow w a e)) /\
  sval w (fst (I_overflowing_pow w a e)) = wrapS (Mod w n) (sval w a ^ e) /\
  snd (I_overflowing_pow w a e) = negb (inS (Mod w n) (sval w a ^ e)).
Proof.
  intros Ha He.
  destruct (I_pow_setup Hmul w n Hw Hn a e Ha He) as (Wabs & HP0 & HP1 & Wu & Eu & Fu & Eneg & Epow).
  pose proof (Mod_even w n Hw Hn) as Hev. pose proof (Mod_ge_2 w n Hw Hn) as HM2.
  unfold I_overflowing_pow.
  destruct (U_overflowing_pow w (I_unsigned_abs w a) e) as [u overflow]. cbn [fst snd] in *.
  rewrite Epow, Eneg. set (P := Z.abs (sval w a) ^ e) in *. subst overflow.
  destruct ((sval w a <? 0) && Z.odd e) eqn:Eout.
  - apply andb_true_iff in Eout. destruct Eout as [Hs _]. apply Z.ltb_lt in Hs. specialize (HP1 Hs).
    destruct (I_wrapping_neg_spec w n u Hw Wu) as [Wo Eo]. rewrite Eu, opp_mod_mod in Eo by lia.
    cbn [fst snd]. split; [exact Wo|]. split; [apply sval_of_uval; auto|].
    rewrite (is_negative_spec w n _ Hw Hn Wo), Eo. unfold inS.
    destruct (Z.leb_spec (Mod w n) P) as [Hov|Hov].
    + cbn [orb]. destruct (Z.leb_spec (- (Mod w n / 2)) (- P)); [lia | reflexivity].
    + replace (- P) with (Mod w n - P + (-1) * Mod w n) at 1 by ring.
      rewrite Z_mod_plus_full, Z.mod_small by lia. cbn [orb].
      destruct (Z.leb_spec (Mod w n / 2) (Mod w n - P)); destruct (Z.leb_spec (- (Mod w n / 2)) (- P));
        destruct (Z.ltb_spec (- P) (Mod w n / 2)); cbn; try reflexivity; lia.
  - cbn [fst snd]. split; [exact Wu|]. split; [apply sval_of_uval; auto|].
    rewrite (is_negative_spec w n _ Hw Hn Wu), Eu. unfold inS.
    destruct (Z.leb_spec (Mod w n) P) as [Hov|Hov].
    + cbn [orb]. destruct (Z.ltb_spec P (Mod w n / 2)); [lia | rewrite andb_false_r; reflexivity].
    + rewrite Z.mod_small by lia. cbn [orb].
      destruct (Z.leb_spec (Mod w n / 2) P); destruct (Z.leb_spec (- (Mod w n / 2)) P);
        destruct (Z.ltb_spec P (Mod w n / 2)); cbn; try reflexivity; lia.
Qed.

Theorem I_overflowing_pow_ok : mul_spec -> forall w n a e,
  0 < w -> (0 < n)%nat -> wf w n a -> 0 <= e ->
  let '(r, f) := I_overflowing_pow w a e in
  wf w n r /\ sval w r = wrapS (Mod w n) (sval w a ^ e) /\ f = negb (inS (Mod w n) (sval w a ^ e)).
Proof.
  intros Hmul w n a e Hw Hn Ha He.
  pose proof (I_overflowing_pow_fst_snd Hmul w n Hw Hn a e Ha He) as H.
  destruct (I_overflowing_pow w a e); exact H.
Qed.

Theorem I_checked_pow_ok : mul_spec -> forall w n a e,
  0 < w -> (0 < n)%nat -> wf w n a -> 0 <= e ->
  if inS (Mod w n) (sval w a ^ e)
  then exists r, I_checked_pow w a e = Some r /\ wf w n r /\ sval w r = sval w a ^ e
  else I_checked_pow w a e = None.
Proof.
  intros Hmul w n a e Hw Hn Ha He.
  destruct (I_pow_setup Hmul w n Hw Hn a e Ha He) as (Wabs & HP0 & HP1 & Wu & Eu & Fu & Eneg & Epow).
  pose proof (Mod_even w n Hw Hn) as Hev. pose proof (Mod_ge_2 w n Hw Hn) as HM2.
  unfold I_checked_pow. rewrite (U_checked_pow_eq Hmul w n Hw Hn _ e Wabs). unfold tuple_to_option.
  destruct (U_overflowing_pow w (I_unsigned_abs w a) e) as [u overflow]. cbn [fst snd] in *.
  rewrite Epow, Eneg. set (P := Z.abs (sval w a) ^ e) in *. subst overflow.
  rewrite <- Z.negb_odd, <- negb_andb.
  destruct (Z.leb_spec (Mod w n) P) as [Hov|Hov].
  { (* the magnitude does not even fit the unsigned type *)
    destruct ((sval w a <? 0) && Z.odd e); unfold inS.
    - destruct (Z.leb_spec (- (Mod w n / 2)) (- P)); [lia | reflexivity].
    - destruct (Z.ltb_spec P (Mod w n / 2)); [lia | rewrite andb_false_r; reflexivity]. }
  rewrite Z.mod_small in Eu by lia.
  destruct ((sval w a <? 0) && Z.odd e) eqn:Eout; cbn [negb].
  - apply andb_true_iff in Eout. destruct Eout as [Hs _]. apply Z.ltb_lt in Hs. specialize (HP1 Hs).
    destruct (I_wrapping_neg_spec w n u Hw Wu) as [Wo Eo]. rewrite Eu in Eo.
    rewrite (is_negative_spec w n _ Hw Hn Wo).
    assert (Eo' : uval w (I_wrapping_neg w u) = Mod w n - P).
    { rewrite Eo. replace (- P) with (Mod w n - P + (-1) * Mod w n) by ring.
      rewrite Z_mod_plus_full, Z.mod_small by lia. reflexivity. }
    rewrite Eo'. unfold inS.
    destruct (Z.leb_spec (Mod w n / 2) (Mod w n - P)); cbn [negb].
    + destruct (Z.leb_spec (- (Mod w n / 2)) (- P)); [|lia].
      destruct (Z.ltb_spec (- P) (Mod w n / 2)); [|lia]. cbn [andb].
      eexists; split; [reflexivity|]. split; [exact Wo|].
      rewrite (sval_unfold w n _ Wo), Eo'.
      destruct (Z.leb_spec (Mod w n / 2) (Mod w n - P)); lia.
    + destruct (Z.leb_spec (- (Mod w n / 2)) (- P)); [lia | reflexivity].
  - rewrite (is_negative_spec w n _ Hw Hn Wu), Eu. unfold inS.
    destruct (Z.leb_spec (Mod w n / 2) P).
    + destruct (Z.ltb_spec P (Mod w n / 2)); [lia | rewrite andb_false_r; reflexivity].
    + destruct (Z.leb_spec (- (Mod w n / 2)) P); [|lia].
      destruct (Z.ltb_spec P (Mod w n / 2)); [|lia]. cbn [andb].
      eexists; split; [reflexivity|]. split; [exact Wu|].
      rewrite (sval_unfold w n _ Wu), Eu.
      destruct (Z.leb_spec (Mod w n / 2) P); lia.
Qed.

Theorem I_wrapping_pow_ok : mul_spec -> forall w n a e,
  0 < w -> (0 < n)%nat -> wf w n a -> 0 <= e ->
  wf w n (I_wrapping_pow w a e) /\ sval w (I_wrapping_pow w a e) = wrapS (Mod w n) (sval w a ^ e).
Proof.
  intros Hmul w n a e Hw Hn Ha He. unfold I_wrapping_pow.
  destruct (U_wrapping_pow_ok Hmul w n a e Hw Hn Ha He) as [W E]. split; [exact W|].
  apply sval_of_uval; auto. rewrite E.
  pose proof (Mod_pos w n ltac:(lia)).
  rewrite (Zpower_mod (sval w a)) by lia. rewrite (sval_mod w n a Hw Ha). rewrite <- Zpower_mod by lia.
  reflexivity.
Qed.

Theorem I_saturating_pow_ok : mul_spec -> forall w n a e,
  0 < w -> (0 < n)%nat -> wf w n a -> 0 <= e ->
  wf w n (I_saturating_pow w a e) /\
  sval w (I_saturating_pow w a e) = Z.max (- (Mod w n / 2)) (Z.min (Mod w n / 2 - 1) (sval w a ^ e)).
Proof.
  intros Hmul w n a e Hw Hn Ha He.
  pose proof (I_checked_pow_ok Hmul w n a e Hw Hn Ha He) as H.
  destruct (I_pow_setup Hmul w n Hw Hn a e Ha He) as (_ & HP0 & HP1 & _ & _ & _ & Eneg & Epow).
  unfold I_saturating_pow. destruct (inS (Mod w n) (sval w a ^ e)) eqn:Ein.
  - destruct H as (r & -> & W & E). split; [exact W|]. apply inS_true in Ein. lia.
  - rewrite H, Eneg, (wf_length _ _ _ Ha).
    assert (Hout : ~ (- (Mod w n / 2) <= sval w a ^ e < Mod w n / 2)).
    { intros Hc. apply inS_true in Hc. congruence. }
    pose proof (Mod_even w n Hw Hn) as Hev. pose proof (Mod_ge_2 w n Hw Hn) as HM2.
    rewrite Epow in *. destruct ((sval w a <? 0) && Z.odd e) eqn:Eout.
    + split; [apply wf_IMIN; auto|]. rewrite sval_IMIN by auto. lia.
    + split; [apply wf_IMAX; auto|]. rewrite sval_IMAX by auto. lia.
Qed.

(* on overflow the saturated value is MIN exactly for a negative base with an odd exponent *)
Theorem I_saturating_pow_min : mul_spec -> forall w n a e,
  0 < w -> (0 < n)%nat -> wf w n a -> 0 <= e -> inS (Mod w n) (sval w a ^ e) = false ->
  I_saturating_pow w a e = if (sval w a <? 0) && Z.odd e then IMIN w n else IMAX w n.
Proof.
  intros Hmul w n a e Hw Hn Ha He Hov.
  pose proof (I_checked_pow_ok Hmul w n a e Hw Hn Ha He) as H. rewrite Hov in H.
  unfold I_saturating_pow. rewrite H, (is_negative_sval w n a Hw Hn Ha), (wf_length _ _ _ Ha). reflexivity.
Qed.

Theorem I_strict_pow_ok : mul_spec -> forall w n a e,
  0 < w -> (0 < n)%nat -> wf w n a -> 0 <= e ->
  if inS (Mod w n) (sval w a ^ e)
  then exists r, I_strict_pow w a e = Ret r /\ wf w n r /\ sval w r = sval w a ^ e
  else I_strict_pow w a e = Panic.
Proof.
  intros Hmul w n a e Hw Hn Ha He.
  pose proof (I_checked_pow_ok Hmul w n a e Hw Hn Ha He) as H. unfold I_strict_pow.
  destruct (inS (Mod w n) (sval w a ^ e)).
  - destruct H as (r & -> & W & E). exists r. auto.
  - rewrite H. reflexivity.
Qed.

Theorem I_pow_ok : mul_spec -> forall dbg w n a e,
  0 < w -> (0 < n)%nat -> wf w n a -> 0 <= e ->
  if dbg && negb (inS (Mod w n) (sval w a ^ e)) then I_pow dbg w a e = Panic
  else exists r, I_pow dbg w a e = Ret r /\ wf w n r /\ sval w r = wrapS (Mod w n) (sval w a ^ e).
Proof.
  intros Hmul dbg w n a e Hw Hn Ha He. unfold I_pow. destruct dbg; cbn [andb].
  - pose proof (I_strict_pow_ok Hmul w n a e Hw Hn Ha He) as H.
    destruct (inS (Mod w n) (sval w a ^ e)) eqn:Ein; cbn [negb]; [|exact H].
    destruct H as (r & -> & W & E). exists r. split; [reflexivity|]. split; [exact W|].
    rewrite E. symmetry. apply wrapS_id; [apply Mod_pos; lia | apply Mod_even; auto | apply inS_true; exact Ein].
  - eexists; split; [reflexivity|]. apply I_wrapping_pow_ok; auto.
Qed.

(* Proofs/FloatGenTieCast.v — the casts themselves: src/cast/float/uint_from_float.rs cast_uint_from_float<F, U>,
   src/cast/float/float_from_uint.rs cast_float_from_uint<U, F> (translated once, generic in the float format F and in the
   digit list (w, N)), and the `CastFrom` impls of src/buint/cast.rs / src/bint/cast.rs that call them (f32 and f64, unsigned and
   signed).  The functions GENERATED from /repo/src on every run (Generated/FloatGen.v, by tools/rs2v_float.py) equal the
   hand-written model Model/FloatCast.v for every bit pattern / every well-formed digit list, both build modes; `Panic` of the
   model is `Panicked` of the generated code (of_outcome).  The generated code calls the integer <-> mantissa-word casts through
   the models that are tied to src/buint/cast.rs elsewhere (Cast.U_from_int: as_buint!, Proofs/LoopsTieC09.v; Cast.U_as_int:
   buint_as_int!, Proofs/ConvGenTieC09.v); the two `bridge` lemmas show that they are the FloatCast.as_buint / buint_as_int of
   the C14 model. *)
From Bnum Require Import Base Prim.
From Bnum.Model Require Import Core Imp ImpFloat Shift AddSub Bits.
From Bnum.Model Require FloatCast Cast.
From Bnum.Generated Require Import FloatGen.
From Bnum.Proofs Require Import ImpLemmas FloatCastDeps FloatCast FloatCastTo FloatGenTieParts.
From Bnum.Proofs Require Cast DischargeFloat.
Import Bnum.Model.FloatCast.
Local Open Scope Z_scope.

(* ---------- the integer <-> mantissa-word casts of Model/Cast.v are those of Model/FloatCast.v ---------- *)

Lemma bridge_from_int mb w n v : 0 < w -> 0 < mb -> 0 <= v < 2 ^ mb ->
  Bnum.Model.Cast.U_from_int mb w n v = Ret (as_buint mb w n v).
Proof.
  intros Hw Hmb Hv.
  destruct (Bnum.Proofs.Cast.U_from_int_ok mb w n v Hw Hmb) as (r & Hr & Rwf & Ru).
  { intros Hle. pose proof (pow2_le mb w ltac:(lia)). pose proof (pow2_pos w ltac:(lia)). lia. }
  destruct (as_buint_spec mb w n v Hw Hv) as [Awf Au].
  rewrite Hr. f_equal. apply (uval_inj w n); [lia | assumption | assumption | congruence].
Qed.

Lemma bridge_as_int dbg mb w n ds : 0 < w -> 0 < mb -> wf w n ds ->
  Bnum.Model.Cast.U_as_int dbg mb false w ds = Ret (buint_as_int mb w ds).
Proof.
  intros Hw Hmb Hwf. unfold Bnum.Model.Cast.U_as_int.
  rewrite (Bnum.Proofs.Cast.U_as_int_bits_ok dbg mb w n ds Hw Hmb Hwf). cbn [omap Bnum.Model.Cast.p_of_bits].
  rewrite (buint_as_int_spec mb w n ds Hw Hmb Hwf). reflexivity.
Qed.

(* ---------- f32 / f64 -> BUint ---------- *)

Theorem floatgen_cast_uint_from_float dbg F w n x : fmt_ok F -> 0 < w -> 0 <= x < 2 ^ fbits F ->
  FloatGen.cast_uint_from_float dbg F w (Z.of_nat n) x = of_outcome (cast_uint_from_float dbg F w n x).
Proof.
  intros Hok Hw Hx. destruct (fmt_bits F Hok) as (Hp & He & Hfb & _).
  destruct (f_decomp F x Hok Hx) as (S & _ & _ & HE & Hm & _ & _).
  unfold FloatGen.cast_uint_from_float, cast_uint_from_float. rewrite Nat2Z.id.
  destruct (f_is_nan F x); [reflexivity|]. cbv zeta.
  rewrite floatgen_into_normalised_signed_parts by assumption. cbn [bind].
  destruct (Z.eq_dec (f_E F x) 0) as [HE0|HE0].
  - (* zero / subnormal: every path returns before the shifts *)
    destruct (norm_parts_subnormal F x Hok Hx HE0) as (e & m & Hnp & Hem). rewrite Hnp. cbv beta iota.
    destruct (f_sign F x); [reflexivity|]. destruct (f_is_infinite F x); [reflexivity|].
    destruct (Z.eqb_spec m 0); [reflexivity|]. destruct (Z.ltb_spec e (-1)); [reflexivity|].
    destruct (Z.eqb_spec e (-1)); [reflexivity|]. lia.
  - rewrite (norm_parts_normal F x Hok Hx HE0). cbv beta iota.
    set (e := f_E F x - EXP_BIAS F). set (Mt := 2 ^ (fp F - 1) + f_m F x).
    assert (HMt : 2 ^ (fp F - 1) <= Mt < 2 ^ fp F).
    { subst Mt. destruct (fmt_pows F Hok) as (_ & _ & _ & _ & _ & _ & _ & H2P). lia. }
    clearbody e Mt.
    assert (HMtb : 0 <= Mt < 2 ^ fbits F).
    { pose proof (pow2_pos (fp F - 1) ltac:(lia)). split; [lia|].
      eapply Z.lt_le_trans; [apply HMt | apply pow2_le; lia]. }
    destruct (f_sign F x); [reflexivity|]. destruct (f_is_infinite F x); [reflexivity|].
    destruct (Mt =? 0); [reflexivity|]. destruct (e <? -1); [reflexivity|]. destruct (e =? -1); [reflexivity|].
    unfold exptype_try_from_sexp. destruct (Z.ltb_spec e 0) as [|He0]; [reflexivity|].
    rewrite Z.geb_leb. change (w * Z.of_nat n) with (bits w n).
    destruct (bits w n <=? e); [reflexivity|].
    rewrite (bitlen_unique Mt (fp F)) by lia.
    destruct (Z.leb_spec e (fp F - 1)) as [Hle|Hgt]; step.
    + destruct (Z.leb_spec e (fp F - 1)) as [_|]; [|lia]. step.
      rewrite bridge_from_int; [reflexivity | lia | lia |].
      unfold u_shr. pose proof (div_pow2_le Mt (fp F - 1 - e) ltac:(lia) ltac:(lia)).
      split; [apply Z.div_pos; [lia | apply pow2_pos; lia] | lia].
    + destruct (Z.leb_spec e (fp F - 1)) as [|_]; [lia|].
      rewrite bridge_from_int by lia. cbn [of_outcome bind]. step. apply bind_done_r.
Qed.

(* ---------- BUint -> f32 / f64 ---------- *)

Theorem floatgen_cast_float_from_uint dbg F w n a : fmt_ok F -> 32 <= fbits F -> 0 < w -> wf w n a ->
  FloatGen.cast_float_from_uint dbg F w (Z.of_nat n) a = of_outcome (cast_float_from_uint dbg F w a).
Proof.
  intros Hok H32 Hw Hwf. destruct (fmt_bits F Hok) as (Hp & He & Hfb & _).
  unfold FloatGen.cast_float_from_uint, cast_float_from_uint. cbv zeta.
  pose proof (DischargeFloat.bits_of_spec_holds w n a Hw Hwf) as Hbits.
  pose proof (uval_bounds w n a ltac:(lia) Hwf) as HU.
  assert (Hbw : 0 <= bits_of w a <= bits w n).
  { rewrite Hbits. split; [apply bitlen_nonneg|]. apply bitlen_le; [unfold bits; nia | exact HU]. }
  set (bw := bits_of w a) in *. clearbody bw.
  destruct (Z.eqb_spec bw 0); [reflexivity|]. step.
  unfold sexp_try_from_exptype, i32_max. destruct (2 ^ 31 - 1 <? bw - 1); [reflexivity|].
  rewrite Z.geb_leb. destruct (MAX_EXP F <=? bw - 1); [reflexivity|].
  destruct (Z.leb_spec bw (fp F)) as [Hle|Hgt].
  - rewrite (bridge_as_int dbg (fbits F) w n a) by (assumption || lia). cbn [of_outcome bind]. step.
    rewrite floatgen_from_signed_parts by assumption. apply bind_done_r.
  - step. rewrite of_outcome_obind.
    destruct (bit w a (bw - fp F - 1)) as [gte|]; [|reflexivity]. cbn [of_outcome bind].
    destruct (U_shr_ok dbg w n a (bw - fp F) DischargeFloat.shr_pad_internal_spec_holds Hw Hwf ltac:(lia)) as (r & Hr & Rwf & _).
    rewrite Hr. cbn [of_outcome bind obind].
    rewrite (bridge_as_int dbg (fbits F) w n r) by (assumption || lia). cbn [of_outcome bind].
    set (sm := buint_as_int (fbits F) w r). clearbody sm.
    assert (Hfin : forall e m, (t' <- FloatGen.from_signed_parts dbg F false e m ;; Done t') = of_outcome (from_signed_parts dbg F false e m)).
    { intros e m. rewrite floatgen_from_signed_parts by assumption. apply bind_done_r. }
    assert (Hup : (shifted_mantissa <- of_outcome (m_add dbg (fbits F) sm 1) ;;
                   if m_bit (fbits F) shifted_mantissa (fp F)
                   then shifted_mantissa0 <- dshr (fbits F) shifted_mantissa 1 ;;
                        (let exponent := bw - 1 + 1 in let mantissa := shifted_mantissa0 in
                         t16' <- FloatGen.from_signed_parts dbg F false exponent mantissa ;; Done t16')
                   else (let mantissa := shifted_mantissa in
                         t17' <- FloatGen.from_signed_parts dbg F false (bw - 1) mantissa ;; Done t17'))
                  = of_outcome (obind (m_add dbg (fbits F) sm 1) (fun sm0 =>
                      if m_bit (fbits F) sm0 (fp F) then from_signed_parts dbg F false (bw - 1 + 1) (u_shr sm0 1)
                      else from_signed_parts dbg F false (bw - 1) sm0))).
    { rewrite of_outcome_obind. destruct (m_add dbg (fbits F) sm 1) as [sm0|]; [|reflexivity]. cbn [of_outcome bind].
      destruct (m_bit (fbits F) sm0 (fp F)); step; cbv zeta; apply Hfin. }
    destruct gte; cbn [andb bind].
    + destruct (m_bit (fbits F) sm 0); cbn [orb bind].
      * exact Hup.
      * destruct (negb (trailing_zeros w a =? bw - fp F - 1)); [exact Hup | cbv zeta; apply Hfin].
    + cbv zeta. apply Hfin.
Qed.

(* Proofs/ParseGenTieB.v — tie of the generated parsing code (Generated/ParseGen.v), part B: the power-of-two arm
   (radix 2 | 4 | 16 | 256) of from_buf_radix_internal equals the hand-written model Model/Parse.v. *)
From Bnum Require Import Base Prim.
From Bnum.Model Require Import Digit DigitPrims LoopPrims Core Imp ImpParse Parse.
From Bnum.Generated Require Import DigitGen ParseGen.
From Bnum.Proofs Require Import ImpLemmas ImpLemmas2 ParseGenTieA.

(* ---------- shapes of the results of the model's loops ---------- *)

(* a loop of the model that can only fail with InvalidDigit or a panic *)
Definition inv_only {A} (x : pout A) : Prop :=
  match x with POk _ => True | PErr k => k = InvalidDigit | PPanic => True | PFuel => False end.

Lemma rd_inv buf i : inv_only (rd buf i).
Proof. destruct (rd_cases buf i) as [[b E]|E]; rewrite E; exact I. Qed.

Lemma strip_zeros_res fs be sign buf : forall idl,
  (exists l, strip_zeros fs be sign buf idl = POk l /\ 0 <= l <= Z.of_nat idl) \/ strip_zeros fs be sign buf idl = PPanic.
Proof.
  induction idl as [|k IH]; [left; exists 0; split; [reflexivity | lia]|].
  cbn [strip_zeros]. cbv zeta. destruct (rd_cases buf (if be then blen buf - Z.of_nat (S k) else Z.of_nat (S k) - 1 + (if sign then 1 else 0)))
    as [[b E]|E]; rewrite E; cbn [pbind]; [|right; reflexivity].
  destruct (Parse.byte_to_digit fs b =? 0).
  - destruct IH as [(l & El & Hl)|Ep]; [left; exists l; split; [exact El | lia] | right; exact Ep].
  - left. eexists. split; [reflexivity | lia].
Qed.

Lemma check_digits_inv fs idxf ru8 buf : forall count i, inv_only (check_digits fs idxf ru8 buf i count).
Proof.
  induction count as [|c IH]; intros i; [exact I|]. cbn [check_digits].
  destruct (rd_cases buf (idxf i)) as [[b E]|E]; rewrite E; cbn [pbind]; [|exact I].
  destruct (ru8 <=? Parse.byte_to_digit fs b); [reflexivity | apply IH].
Qed.

Lemma pack_digit_inv fs be w ru8 log2r buf k0 : forall count j acc, inv_only (pack_digit fs be w ru8 log2r buf k0 j count acc).
Proof.
  induction count as [|c IH]; intros j acc; [exact I|]. cbn [pack_digit]. cbv zeta.
  destruct (rd_cases buf (if be then blen buf - 1 - (k0 + j) else k0 + j)) as [[b E]|E]; rewrite E; cbn [pbind]; [|exact I].
  destruct (ru8 <=? Parse.byte_to_digit fs b); [reflexivity | apply IH].
Qed.

Lemma pack_full_inv fs be w ru8 log2r bdpd buf : forall count i, inv_only (pack_full fs be w ru8 log2r bdpd buf i count).
Proof.
  induction count as [|c IH]; intros i; [exact I|]. cbn [pack_full].
  pose proof (pack_digit_inv fs be w ru8 log2r buf (i * bdpd) (Z.to_nat bdpd) 0 0) as Hd.
  destruct (pack_digit _ _ _ _ _ _ _ _ _ _) as [d|k| |]; cbn [pbind]; try exact Hd.
  specialize (IH (i + 1)). destruct (pack_full _ _ _ _ _ _ _ _ c) as [r|k| |]; cbn [pbind]; exact IH.
Qed.

(* ---------- the radix class ---------- *)

Definition pow2_radix (radix : Z) : Prop := radix = 2 \/ radix = 4 \/ radix = 16 \/ radix = 256.

Lemma pow2_radix_facts radix : pow2_radix radix ->
  ((radix =? 2) || (radix =? 4) || (radix =? 16) || (radix =? 256) = true) /\
  (orb (radix =? 2) (orb (radix =? 4) (orb (radix =? 16) (radix =? 256))) = true) /\
  0 < radix < 2 ^ 32 /\ 1 <= Z.log2 radix <= 8.
Proof. intros [-> | [-> | [-> | ->]]]; repeat split; try reflexivity; cbn; lia. Qed.

Lemma u_shl_ud w d s : 0 < w -> u_shl w (ud w d) s = u_shl w d s.
Proof.
  intros Hw. unfold u_shl, ud. pose proof (B_pos w ltac:(lia)). rewrite Z.mul_mod_idemp_l by lia. reflexivity.
Qed.

(* ---------- the power-of-two arm ---------- *)
(* preconditions: the digit width is at least 8 (every digit type of bnum; needed for radix 256: 8 bits per input digit and
   for `BITS_U8 / ilog2(radix) >= 1`), and a caller that announces a leading sign passes a non-empty buffer (the sign byte) *)
Lemma gen_internal_pow2 (fs be dbg : bool) w n buf radix (sign : bool) fuel :
  8 <= w -> pow2_radix radix -> (sign = true -> (1 <= length buf)%nat) ->
  (length buf + n + Z.to_nat w + 2 <= fuel)%nat ->
  pout_of (ParseGen.from_buf_radix_internal dbg w (Z.of_nat n) fuel fs be buf radix sign)
  = Parse.from_buf_radix_internal fs be dbg w n buf radix sign.
Proof.
  intros Hw Hr Hsign Hfuel.
  destruct (pow2_radix_facts radix Hr) as (Ht1 & Ht2 & Hrad & Hlog).
  unfold ParseGen.from_buf_radix_internal, Parse.from_buf_radix_internal.
  change (Z.of_nat (length buf)) with (blen buf). cbv zeta.
  rewrite Ht1, Ht2.
  destruct (sign && (blen buf =? 1)) eqn:E1; [reflexivity|].
  set (idl0 := if sign then blen buf - 1 else blen buf).
  assert (Hidl0 : 0 <= idl0 <= blen buf).
  { unfold idl0, blen. destruct sign; [specialize (Hsign eq_refl)|]; lia. }
  assert (E2 : (if sign then bind (usub (blen buf) 1) (fun t1' => Done t1') else Done (blen buf)) = Done idl0).
  { unfold idl0. destruct sign; [|reflexivity]. rewrite usub_ok by (specialize (Hsign eq_refl); unfold blen; lia). reflexivity. }
  rewrite E2. cbn [bind]. clear E2.
  match goal with |- context [while_loop fuel ?c ?b idl0] =>
    assert (HS : while_loop fuel c b idl0 =
                 match strip_zeros fs be sign buf (Z.to_nat idl0) with POk l => Done (Exited l) | _ => Panicked end) end.
  { rewrite <- (Z2Nat.id idl0) at 1 by lia. apply sim_strip_zeros; [reflexivity | | unfold blen in *; lia].
    intros l Hl. cbv beta. destruct be.
    - rewrite bind_ret_r. rewrite usub_arr_get_rd.
      destruct (rd buf (blen buf - l)) as [b| | |]; try reflexivity.
      rewrite gen_byte_to_digit, bind_Done.
      destruct (Parse.byte_to_digit fs b =? 0); cbn [negb]; [rewrite usub_ok by lia|]; reflexivity.
    - rewrite usub_ok by lia. rewrite !bind_Done. rewrite arr_get_rd.
      destruct (rd buf _) as [b| | |]; try reflexivity.
      rewrite gen_byte_to_digit, bind_Done.
      destruct (Parse.byte_to_digit fs b =? 0); cbn [negb]; reflexivity. }
  rewrite HS. clear HS.
  replace (Z.to_nat (if sign then blen buf - 1 else blen buf)) with (Z.to_nat idl0) by reflexivity.
  destruct (strip_zeros_res fs be sign buf (Z.to_nat idl0)) as [(idl & Esz & Hidl)|Esz]; rewrite Esz; [|reflexivity].
  cbn [bind pbind]. rewrite Z2Nat.id in Hidl by lia.
  rewrite gen_ilog2 by exact Hrad. cbn [bind].
  set (lg := Z.log2 radix) in *.
  assert (Hbd : 1 <= w / lg) by (apply Z.div_le_lower_bound; lia).
  unfold udiv at 1. destruct (Z.eqb_spec lg 0) as [|_]; [lia|]. rewrite bind_Done.
  set (bd := w / lg) in *.
  unfold udiv, urem. destruct (Z.eqb_spec bd 0) as [|_]; [lia|]. rewrite !bind_Done.
  set (full := idl / bd). set (rem := idl mod bd). rewrite Z.gtb_ltb.
  assert (Hdm : idl = bd * full + rem) by (apply Z.div_mod; lia).
  assert (Hrem : 0 <= rem < bd) by (apply Z.mod_pos_bound; lia).
  assert (Hfull : 0 <= full) by (apply Z.div_pos; lia).
  assert (Hru8 : to_u8 radix = radix mod 256) by reflexivity. rewrite Hru8. set (ru8 := radix mod 256).
  destruct ((Z.of_nat n <? full) || (full =? Z.of_nat n) && negb (rem =? 0)) eqn:Eov.
  - (* more digits than the type has: validate N * bdpd of them, then PosOverflow *)
    set (start := if be then blen buf - idl else if sign then 1 else 0).
    assert (E3 : (if be then bind (usub (blen buf) idl) (fun t => Done t) else Done (if sign then 1 else 0)) = Done start).
    { unfold start. destruct be; [rewrite bind_ret_r, usub_ok by lia|]; reflexivity. }
    rewrite E3, bind_Done. clear E3.
    assert (Hnb : Z.of_nat n * bd <= idl).
    { destruct (Z.ltb_spec (Z.of_nat n) full); [nia|]. destruct (Z.eqb_spec full (Z.of_nat n)); [nia|discriminate]. }
    match goal with |- context [while_loop fuel ?c ?b start] =>
      assert (HC : while_loop fuel c b start =
                   match check_digits fs (fun i => i) ru8 buf start (Z.to_nat (Z.of_nat n * bd + start - start)) with
                   | POk _ => Done (Exited (Z.of_nat n * bd + start))
                   | PErr _ => Done (Returned (RErr KInvalidDigit))
                   | _ => Panicked end) end.
    { apply (sim_check_digits fs (fun i => i) ru8 buf _ _ start (Z.of_nat n * bd + start)).
      - intros i Hi. apply Z.ltb_lt. lia.
      - apply Z.ltb_irrefl.
      - intros i Hi. cbv beta. rewrite arr_get_rd. destruct (rd buf i); try reflexivity.
        rewrite gen_byte_to_digit, bind_Done. rewrite Z.geb_leb. reflexivity.
      - lia.
      - lia.
      - unfold blen in *. lia. }
    rewrite HC. clear HC.
    pose proof (check_digits_inv fs (fun i => i) ru8 buf (Z.to_nat (Z.of_nat n * bd + start - start)) start) as Hinv.
    destruct (check_digits _ _ _ _ _ _) as [u|k| |]; cbn [inv_only] in Hinv; try subst k; try contradiction; reflexivity.
  - assert (Hfn : full <= Z.of_nat n /\ (full = Z.of_nat n -> rem = 0)).
    { apply orb_false_elim in Eov. destruct Eov as [Ea Eb]. apply Z.ltb_ge in Ea. split; [lia|].
      intros ->. rewrite Z.eqb_refl in Eb. cbn [andb] in Eb. destruct (Z.eqb_spec rem 0); [assumption | discriminate]. }
    assert (Hlgw : bd * lg <= w) by (unfold bd; rewrite Z.mul_comm; apply Z.mul_div_le; lia).
    assert (Hbdw : bd <= w) by nia.
    remember (Z.to_nat full) as fn eqn:Efn. assert (Efull : full = Z.of_nat fn) by lia.
    clearbody full. subst full. rewrite Nat2Z.id in *. unfold ZERO.
    (* the inner loop, for any digit position i and any `out` *)
    assert (Hinner : forall (i : nat) (cnt : Z) out, 0 <= cnt <= bd -> (i < length out)%nat ->
      while_loop fuel (fun '(_, j) => j <? cnt)
        (fun '(out0, j) =>
           t24' <- (if be then (t22' <- usub (blen buf) 1 ;; t23' <- usub t22' (Z.of_nat i * bd + j) ;; Done t23')
                    else Done (Z.of_nat i * bd + j)) ;;
           t25' <- arr_get buf t24' ;;
           t26' <- ParseGen.byte_to_digit w (Z.of_nat n) fuel fs t25' ;;
           if t26' >=? ru8 then Done (Return (RErr KInvalidDigit))
           else (t27' <- dshl w (ud w t26') (j * lg) ;;
                 t28' <- arr_get out0 (Z.of_nat i) ;;
                 out1 <- arr_set out0 (Z.of_nat i) (dg_or w t28' t27') ;;
                 Done (Continue (out1, j + 1)))) (out, 0) =
      match pack_digit fs be w ru8 lg buf (Z.of_nat i * bd) 0 (Z.to_nat cnt) (nth i out 0) with
      | POk acc => Done (Exited (list_set out i acc, cnt))
      | PErr _ => Done (Returned (RErr (A := list Z) KInvalidDigit))
      | _ => Panicked
      end).
    { intros i cnt out Hcnt Hi.
      apply (sim_pack_digit fs be w ru8 lg buf (Z.of_nat i * bd) i _ _ 0 cnt).
      - intros o j Hj. apply Z.ltb_lt. lia.
      - intros o. apply Z.ltb_irrefl.
      - intros o j Hj Ho. cbv beta iota.
        assert (Hk : 0 <= Z.of_nat i * bd + j) by nia.
        assert (Hsh : 0 <= j * lg < w) by nia.
        assert (E4 : forall (k : Z -> res (flow (list Z * Z) (result (list Z)))),
          bind (if be then (t22' <- usub (blen buf) 1 ;; t23' <- usub t22' (Z.of_nat i * bd + j) ;; Done t23')
                else Done (Z.of_nat i * bd + j)) (fun t => bind (arr_get buf t) k) =
          match rd buf (if be then blen buf - 1 - (Z.of_nat i * bd + j) else Z.of_nat i * bd + j) with
          | POk x => k x | _ => Panicked end).
        { intros k. destruct be; [apply usub2_arr_get_rd'; exact Hk | rewrite bind_Done; apply arr_get_rd]. }
        rewrite E4. destruct (rd buf _) as [b| | |]; try reflexivity.
        rewrite gen_byte_to_digit, bind_Done. cbv zeta. rewrite Z.geb_leb.
        destruct (ru8 <=? Parse.byte_to_digit fs b); [reflexivity|].
        rewrite dshl_ok by exact Hsh. rewrite bind_Done.
        rewrite arr_get_nat by exact Ho. rewrite bind_Done. rewrite arr_set_nat by exact Ho. rewrite bind_Done.
        unfold dg_or, u_or. rewrite u_shl_ud by lia. reflexivity.
      - lia.
      - lia.
      - lia.
      - exact Hi. }
    (* the outer loop *)
    match goal with |- context [while_loop fuel ?c ?b (repeat 0 n, 0)] =>
      assert (HP : while_loop fuel c b (repeat 0 n, 0) =
                   match pack_full fs be w ru8 lg bd buf 0 fn with
                   | POk ds => Done (Exited (ds ++ repeat 0 (n - fn), Z.of_nat fn))
                   | PErr _ => Done (Returned (RErr KInvalidDigit))
                   | _ => Panicked end) end.
    { apply (sim_pack_full fs be w ru8 lg bd buf _ _ 0 (Z.of_nat fn)) with (pre := @nil Z) (m := n); try (cbn [length]; lia).
      intros out i Hi Ho Hnth. cbv beta iota.
      rewrite (Hinner i bd out) by (lia || assumption). rewrite Hnth.
      destruct (pack_digit _ _ _ _ _ _ _ _ _ _) as [d|k| |]; reflexivity. }
    rewrite HP. clear HP.
    pose proof (pack_full_inv fs be w ru8 lg bd buf fn 0) as Hinv.
    destruct (pack_full fs be w ru8 lg bd buf 0 fn) as [ds|k| |] eqn:Epf; cbn [inv_only] in Hinv;
      try subst k; try contradiction; try reflexivity.
    apply pack_full_length in Epf. rewrite bind_Done. cbv beta iota. cbn [pbind].
    destruct (Z.eqb_spec rem 0) as [Hr0|Hr0].
    + (* no partial digit *)
      rewrite while_loop_cond_false by (cbv beta iota; apply Z.ltb_ge; lia).
      rewrite Hr0. cbn [Z.to_nat pack_digit pbind bind pout_of].
      destruct (Nat.ltb_spec n (length ds)); [lia|]. rewrite Epf. reflexivity.
    + assert (Hlt : (fn < n)%nat) by (destruct Hfn as [H1 H2]; destruct (Z.eq_dec (Z.of_nat fn) (Z.of_nat n)) as [e|e]; [specialize (H2 e); lia | lia]).
      rewrite (Hinner fn rem (ds ++ repeat 0 (n - fn))) by (rewrite ?app_length, ?repeat_length; lia).
      rewrite app_nth2 by lia. rewrite Epf, Nat.sub_diag.
      replace (nth 0 (repeat 0 (n - fn)) 0) with 0 by (destruct (n - fn)%nat; reflexivity).
      pose proof (pack_digit_inv fs be w ru8 lg buf (Z.of_nat fn * bd) (Z.to_nat rem) 0 0) as Hinv2.
      destruct (pack_digit _ _ _ _ _ _ _ _ _ _) as [last|k| |]; cbn [inv_only] in Hinv2;
        try subst k; try contradiction; try reflexivity.
      cbn [bind pbind pout_of]. rewrite app_length. cbn [length].
      destruct (Nat.ltb_spec n (length ds + 1)); [lia|]. f_equal.
      rewrite list_set_split by (rewrite app_length, repeat_length; lia).
      rewrite <- Epf. rewrite firstn_app, Nat.sub_diag, firstn_all. cbn [firstn]. rewrite app_nil_r.
      rewrite skipn_app, skipn_all2 by lia. replace (S (length ds) - length ds)%nat with 1%nat by lia.
      rewrite skipn_repeat. unfold ZERO. rewrite <- app_assoc. cbn [app]. do 3 f_equal. lia.
Qed.

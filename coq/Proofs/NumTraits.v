(* Proofs/NumTraits.v — Model/NumTraits.v = Spec, for all digit widths w > 0, all digit counts n,
   all well-formed operands.  Facts about the inherent models come in as the premises of
   Proofs/NumTraitsDeps.v. *)
From Bnum Require Import Base Prim.
From Bnum.Model Require Import Digit Core Shift AddSub Mul Div Bits Pow NumTraits.
From Bnum.Proofs Require Import NumTraitsZ NumTraitsDeps.
From Coq Require Import Znumtheory.

(* ================= small facts about Core proved here ================= *)

Lemma uval_repeat0 w k : uval w (repeat 0 k) = 0.
Proof. induction k as [|k IH]; cbn [repeat uval]; [reflexivity|]. rewrite IH. lia. Qed.

Lemma wf_repeat0 w k : 0 <= w -> wf w k (repeat 0 k).
Proof.
  intros Hw. split; [apply repeat_length|]. apply Forall_forall. intros x Hx.
  apply repeat_spec in Hx. subst x. unfold digit_ok. pose proof (B_pos w Hw). lia.
Qed.

Lemma uval_ZERO w n : uval w (ZERO n) = 0.
Proof. apply uval_repeat0. Qed.
Lemma wf_ZERO w n : 0 <= w -> wf w n (ZERO n).
Proof. apply wf_repeat0. Qed.

Lemma uval_from_digit w n d : (0 < n)%nat -> uval w (from_digit n d) = d.
Proof.
  intros Hn. destruct n as [|k]; [lia|]. cbn [from_digit uval]. rewrite uval_repeat0. lia.
Qed.
Lemma wf_from_digit w n d : 0 <= w -> digit_ok w d -> wf w n (from_digit n d).
Proof.
  intros Hw Hd. destruct n as [|k]; [apply wf_nil|]. cbn [from_digit].
  apply wf_cons. split; [exact Hd|apply wf_repeat0; exact Hw].
Qed.
Lemma uval_ONE w n : (0 < n)%nat -> uval w (ONE n) = 1.
Proof. apply uval_from_digit. Qed.
Lemma wf_ONE w n : 0 < w -> wf w n (ONE n).
Proof.
  intros Hw. apply wf_from_digit; [lia|]. unfold digit_ok. pose proof (B_ge_2 w Hw). lia.
Qed.

Lemma is_zero_spec w n a : 0 <= w -> wf w n a -> is_zero a = (uval w a =? 0).
Proof.
  intros Hw. revert a. induction n as [|n IH]; intros a Ha.
  - apply wf_inv_0 in Ha. subst a. reflexivity.
  - destruct (wf_inv_S _ _ _ Ha) as (d & r & -> & Hd & Hr).
    cbn [is_zero uval]. pose proof (uval_bounds w n r Hw Hr) as Hb. pose proof (B_pos w Hw) as HB.
    unfold digit_ok in Hd. rewrite (IH r Hr).
    destruct (Z.eqb_spec d 0) as [->|Hd0].
    + destruct (Z.eqb_spec (uval w r) 0) as [->|Hr0]; symmetry; apply Z.eqb_eq || apply Z.eqb_neq; nia.
    + symmetry. apply Z.eqb_neq. nia.
Qed.

Lemma is_zero_true w n a : 0 <= w -> wf w n a -> is_zero a = true <-> uval w a = 0.
Proof. intros Hw Ha. rewrite (is_zero_spec w n a Hw Ha). apply Z.eqb_eq. Qed.
Lemma is_zero_false w n a : 0 <= w -> wf w n a -> is_zero a = false <-> uval w a <> 0.
Proof. intros Hw Ha. rewrite (is_zero_spec w n a Hw Ha). apply Z.eqb_neq. Qed.

(* signed reading of small / large patterns *)
Lemma Mod_half_pos w n : 0 < w -> (0 < n)%nat -> 0 < Mod w n / 2.
Proof.
  intros Hw Hn. pose proof (Mod_even w n Hw Hn). pose proof (Mod_pos w n ltac:(lia)). lia.
Qed.

Lemma sval_of_small w n a : 0 < w -> (0 < n)%nat -> wf w n a -> uval w a < Mod w n / 2 -> sval w a = uval w a.
Proof.
  intros Hw Hn Ha Hs. unfold sval, to_signed. rewrite (wf_length _ _ _ Ha).
  destruct (Z.ltb_spec (uval w a) (Mod w n / 2)); lia.
Qed.

Lemma sval_nonneg_uval w n a : 0 < w -> (0 < n)%nat -> wf w n a -> 0 <= sval w a -> uval w a = sval w a /\ uval w a < Mod w n / 2.
Proof.
  intros Hw Hn Ha Hs. pose proof (uval_bounds w n a ltac:(lia) Ha) as Hb.
  pose proof (Mod_even w n Hw Hn) as He.
  unfold sval, to_signed in *. rewrite (wf_length _ _ _ Ha) in *.
  destruct (Z.ltb_spec (uval w a) (Mod w n / 2)); lia.
Qed.

Lemma sval_neg_uval w n a : 0 < w -> (0 < n)%nat -> wf w n a -> sval w a < 0 -> uval w a = sval w a + Mod w n.
Proof.
  intros Hw Hn Ha Hs. pose proof (uval_bounds w n a ltac:(lia) Ha) as Hb.
  unfold sval, to_signed in *. rewrite (wf_length _ _ _ Ha) in *.
  destruct (Z.ltb_spec (uval w a) (Mod w n / 2)); lia.
Qed.

Lemma sval_ONE w n : 0 < w -> (0 < n)%nat -> 1 < Mod w n / 2 -> sval w (ONE n) = 1.
Proof.
  intros Hw Hn H1. rewrite (sval_of_small w n); [apply uval_ONE; exact Hn|exact Hw|exact Hn|apply wf_ONE; exact Hw|].
  rewrite uval_ONE by exact Hn. exact H1.
Qed.

(* ================= Integer for BUint: div_floor / mod_floor / div_rem ================= *)

Section UDiv.
  Context (D : deps_udiv).

  Lemma U_div_ok w n a b : 0 < w -> wf w n a -> wf w n b -> uval w b <> 0 ->
    exists q, U_div w a b = Ret q /\ wf w n q /\ uval w q = uval w a / uval w b.
  Proof.
    intros Hw Ha Hb Hb0. unfold U_div, U_wrapping_div, U_checked_div.
    rewrite (proj2 (is_zero_false w n b ltac:(lia) Hb) Hb0). cbn [option_expect].
    destruct (du_divrem D w n a b Hw Ha Hb Hb0) as (H1 & _ & H3 & _).
    eexists. split; [reflexivity|]. split; assumption.
  Qed.

  Lemma U_rem_ok w n a b : 0 < w -> wf w n a -> wf w n b -> uval w b <> 0 ->
    exists r, U_rem w a b = Ret r /\ wf w n r /\ uval w r = uval w a mod uval w b.
  Proof.
    intros Hw Ha Hb Hb0. unfold U_rem, U_wrapping_rem, U_checked_rem.
    rewrite (proj2 (is_zero_false w n b ltac:(lia) Hb) Hb0). cbn [option_expect].
    destruct (du_divrem D w n a b Hw Ha Hb Hb0) as (_ & H2 & _ & H4).
    eexists. split; [reflexivity|]. split; assumption.
  Qed.

  (* unsigned: floor = truncation; a zero divisor panics *)
  Theorem TU_floor_ok w n a b : 0 < w -> wf w n a -> wf w n b -> uval w b <> 0 ->
    (exists q, TU_div_floor w a b = Ret q /\ wf w n q /\ uval w q = uval w a / uval w b) /\
    (exists r, TU_mod_floor w a b = Ret r /\ wf w n r /\ uval w r = uval w a mod uval w b) /\
    (exists q r, TU_div_rem w a b = Ret (q, r) /\ wf w n q /\ wf w n r /\
                 uval w q = Z.quot (uval w a) (uval w b) /\ uval w r = Z.rem (uval w a) (uval w b)) /\
    TU_is_multiple_of w a b = Ret (uval w a mod uval w b =? 0).
  Proof.
    intros Hw Ha Hb Hb0.
    pose proof (uval_bounds w n a ltac:(lia) Ha) as Hba. pose proof (uval_bounds w n b ltac:(lia) Hb) as Hbb.
    split; [|split; [|split]].
    - apply U_div_ok; assumption.
    - apply U_rem_ok; assumption.
    - unfold TU_div_rem, U_div_rem. rewrite (proj2 (is_zero_false w n b ltac:(lia) Hb) Hb0).
      destruct (du_divrem D w n a b Hw Ha Hb Hb0) as (H1 & H2 & H3 & H4).
      destruct (U_div_rem_unchecked w a b) as [q r] eqn:E. cbn [fst snd] in *.
      exists q, r. split; [reflexivity|]. split; [exact H1|]. split; [exact H2|].
      rewrite Z.quot_div_nonneg, Z.rem_mod_nonneg by lia. split; assumption.
    - unfold TU_is_multiple_of, TU_mod_floor.
      destruct (U_rem_ok w n a b Hw Ha Hb Hb0) as (r & Hr & Hwr & Hvr). rewrite Hr. cbn [omap].
      rewrite (is_zero_spec w n r ltac:(lia) Hwr), Hvr. reflexivity.
  Qed.

  Theorem TU_floor_panic w n a b : 0 < w -> wf w n a -> wf w n b -> uval w b = 0 ->
    TU_div_floor w a b = Panic /\ TU_mod_floor w a b = Panic /\ TU_div_rem w a b = Panic /\
    TU_is_multiple_of w a b = Panic.
  Proof.
    intros Hw Ha Hb Hb0.
    pose proof (proj2 (is_zero_true w n b ltac:(lia) Hb) Hb0) as Hz.
    unfold TU_is_multiple_of, TU_div_floor, TU_mod_floor, TU_div_rem, U_div, U_rem, U_wrapping_div, U_wrapping_rem,
      U_checked_div, U_checked_rem, U_div_rem. rewrite Hz. cbn. auto.
  Qed.
End UDiv.

(* ================= Integer for BInt: div_floor / mod_floor / div_rem ================= *)

Section IFloor.
  Context (D : deps_floor).

  Lemma sign_mismatch_spec w n r b : 0 < w -> (0 < n)%nat -> wf w n r -> wf w n b ->
    sign_mismatch w r b = ((0 <? sval w r) && (sval w b <? 0)) || ((sval w r <? 0) && (0 <? sval w b)).
  Proof.
    intros Hw Hn Hr Hb. unfold sign_mismatch.
    rewrite (df_pos D w n r Hw Hn Hr), (df_neg D w n b Hw Hn Hb), (df_neg D w n r Hw Hn Hr), (df_pos D w n b Hw Hn Hb).
    reflexivity.
  Qed.

  Theorem TI_floor_ok dbg w n a b : 0 < w -> (0 < n)%nat -> wf w n a -> wf w n b ->
    sval w b <> 0 -> ~ (sval w a = - (Mod w n / 2) /\ sval w b = -1) ->
    (exists q, TI_div_floor dbg w a b = Ret q /\ wf w n q /\ sval w q = sval w a / sval w b) /\
    (exists r, TI_mod_floor dbg w a b = Ret r /\ wf w n r /\ sval w r = sval w a mod sval w b) /\
    (exists q r, TI_div_rem dbg w a b = Ret (q, r) /\ wf w n q /\ wf w n r /\
                 sval w q = Z.quot (sval w a) (sval w b) /\ sval w r = Z.rem (sval w a) (sval w b)) /\
    TI_is_multiple_of dbg w a b = Ret (sval w a mod sval w b =? 0).
  Proof.
    intros Hw Hn Ha Hb Hb0 Hmin.
    pose proof (sval_range w n a Hw Hn Ha) as Hra. pose proof (sval_range w n b Hw Hn Hb) as Hrb.
    pose proof (Mod_half_pos w n Hw Hn) as HH.
    set (H := Mod w n / 2) in *.
    assert (Hc : (sval w b =? 0) || ((sval w a =? - H) && (sval w b =? -1)) = false).
    { apply orb_false_iff. split; [apply Z.eqb_neq; exact Hb0|].
      apply andb_false_iff. destruct (Z.eqb_spec (sval w a) (- H)); [right|left; reflexivity].
      apply Z.eqb_neq. intros E. apply Hmin. split; assumption. }
    pose proof (df_div D dbg w n a b Hw Hn Ha Hb) as Hd. fold H in Hd. rewrite Hc in Hd.
    pose proof (df_rem D dbg w n a b Hw Hn Ha Hb) as Hr. fold H in Hr. rewrite Hc in Hr.
    destruct Hd as (q & Eq & Wq & Vq). destruct Hr as (r & Er & Wr & Vr).
    pose proof (floor_of_trunc (sval w a) (sval w b) Hb0) as Hft.
    pose proof (floor_div_range H (sval w a) (sval w b) HH Hra Hrb Hb0 Hmin) as Hfr.
    pose proof (floor_mod_range H (sval w a) (sval w b) Hrb Hb0) as Hmr.
    pose proof (sign_mismatch_spec w n r b Hw Hn Wr Hb) as Hsm. rewrite Vr in Hsm.
    (* in the adjusting branch the type has at least 3 bits of range, so ONE reads as 1 *)
    assert (Hone : sign_mismatch w r b = true -> sval w (ONE n) = 1).
    { intros Et. apply sval_ONE; try assumption. fold H.
      rewrite Hsm in Et. pose proof (Z.rem_bound_abs (sval w a) (sval w b) Hb0) as Habs.
      apply orb_true_iff in Et. destruct Et as [Et|Et]; apply andb_true_iff in Et; destruct Et as [E1 E2];
        apply Z.ltb_lt in E1; apply Z.ltb_lt in E2; lia. }
    split; [|split; [|split]].
    - unfold TI_div_floor. rewrite Eq, Er. cbn [obind].
      destruct (sign_mismatch w r b) eqn:Esm.
      + rewrite <- Hsm in Hft. destruct Hft as [Hf1 Hf2].
        specialize (Hone eq_refl).
        destruct (df_sub D dbg w n q (ONE n) Hw Hn Wq (wf_ONE w n Hw)) as (q' & Eq' & Wq' & Vq').
        { rewrite Hone, Vq. fold H. lia. }
        rewrite (wf_length _ _ _ Ha). exists q'. split; [exact Eq'|]. split; [exact Wq'|]. rewrite Vq', Hone, Vq. lia.
      + rewrite <- Hsm in Hft. destruct Hft as [Hf1 Hf2]. exists q. split; [reflexivity|]. split; [exact Wq|]. lia.
    - unfold TI_mod_floor. rewrite Er. cbn [obind].
      destruct (sign_mismatch w r b) eqn:Esm.
      + rewrite <- Hsm in Hft. destruct Hft as [Hf1 Hf2].
        destruct (df_add D dbg w n r b Hw Hn Wr Hb) as (r' & Er' & Wr' & Vr').
        { rewrite Vr. fold H. lia. }
        exists r'. split; [exact Er'|]. split; [exact Wr'|]. rewrite Vr', Vr. lia.
      + rewrite <- Hsm in Hft. destruct Hft as [Hf1 Hf2]. exists r. split; [reflexivity|]. split; [exact Wr|]. lia.
    - unfold TI_div_rem. rewrite Eq, Er. cbn [obind omap]. exists q, r. auto.
    - unfold TI_is_multiple_of, TI_mod_floor. rewrite Er. cbn [obind].
      destruct (sign_mismatch w r b) eqn:Esm.
      + rewrite <- Hsm in Hft. destruct Hft as [Hf1 Hf2].
        destruct (df_add D dbg w n r b Hw Hn Wr Hb) as (r' & Er' & Wr' & Vr').
        { rewrite Vr. fold H. lia. }
        rewrite Er'. cbn [omap]. rewrite (is_zero_spec w n r' ltac:(lia) Wr'). f_equal.
        pose proof (uval_bounds w n r' ltac:(lia) Wr') as Hbr'.
        assert (Hsv : sval w r' = sval w a mod sval w b) by lia.
        destruct (Z.eqb_spec (sval w a mod sval w b) 0) as [E0|E0].
        * apply Z.eqb_eq. rewrite <- Hsv in E0. destruct (sval_nonneg_uval w n r' Hw Hn Wr' ltac:(lia)). lia.
        * apply Z.eqb_neq. intros Eu. apply E0. rewrite <- Hsv.
          rewrite (sval_of_small w n r' Hw Hn Wr'); [exact Eu|]. fold H. lia.
      + rewrite <- Hsm in Hft. destruct Hft as [Hf1 Hf2]. cbn [omap].
        rewrite (is_zero_spec w n r ltac:(lia) Wr). f_equal.
        assert (Hsv : sval w r = sval w a mod sval w b) by lia.
        destruct (Z.eqb_spec (sval w a mod sval w b) 0) as [E0|E0].
        * apply Z.eqb_eq. rewrite <- Hsv in E0. destruct (sval_nonneg_uval w n r Hw Hn Wr ltac:(lia)). lia.
        * apply Z.eqb_neq. intros Eu. apply E0. rewrite <- Hsv.
          rewrite (sval_of_small w n r Hw Hn Wr); [exact Eu|]. fold H. lia.
  Qed.

  Theorem TI_floor_panic dbg w n a b : 0 < w -> (0 < n)%nat -> wf w n a -> wf w n b ->
    sval w b = 0 \/ (sval w a = - (Mod w n / 2) /\ sval w b = -1) ->
    TI_div_floor dbg w a b = Panic /\ TI_mod_floor dbg w a b = Panic /\ TI_div_rem dbg w a b = Panic /\
    TI_is_multiple_of dbg w a b = Panic.
  Proof.
    intros Hw Hn Ha Hb Hc.
    assert (Hc' : (sval w b =? 0) || ((sval w a =? - (Mod w n / 2)) && (sval w b =? -1)) = true).
    { destruct Hc as [E|[E1 E2]]; [rewrite E; reflexivity|]. rewrite E1, E2, Z.eqb_refl. cbn. apply orb_true_r. }
    pose proof (df_div D dbg w n a b Hw Hn Ha Hb) as Hd. rewrite Hc' in Hd.
    pose proof (df_rem D dbg w n a b Hw Hn Ha Hb) as Hr. rewrite Hc' in Hr.
    unfold TI_is_multiple_of, TI_div_floor, TI_mod_floor, TI_div_rem. rewrite Hd, Hr. cbn. auto.
  Qed.
End IFloor.

(* ================= gcd ================= *)

Lemma odd_pos x : 0 <= x -> Z.odd x = true -> 1 <= x.
Proof. intros H0 Ho. destruct (Z.eq_dec x 0) as [->|]; [discriminate Ho|lia]. Qed.

Section Gcd.
  Context (D : deps_gcd).

  Lemma gcd_loop_ok fuel dbg w n : 0 < w -> forall a b btz, wf w n a -> wf w n b ->
    Z.odd (uval w a) = true -> Z.odd (uval w b) = true ->
    uval w a * uval w b < 2 ^ Z.of_nat fuel -> 0 <= btz < bits w n ->
    Z.gcd (uval w a) (uval w b) * 2 ^ btz < Mod w n ->
    exists r, gcd_loop fuel dbg w a b btz = Some (Ret r) /\ wf w n r /\
              uval w r = Z.gcd (uval w a) (uval w b) * 2 ^ btz.
  Proof.
    intros Hw. induction fuel as [|f IH]; intros a b btz Ha Hb Hoa Hob Hprod Hbtz Hfit.
    - exfalso. change (2 ^ Z.of_nat 0) with 1 in Hprod.
      pose proof (uval_bounds w n a ltac:(lia) Ha). pose proof (uval_bounds w n b ltac:(lia) Hb).
      pose proof (odd_pos (uval w a) ltac:(lia) Hoa). pose proof (odd_pos (uval w b) ltac:(lia) Hob). nia.
    - (* the ordered case *)
      assert (Hord : forall a b, wf w n a -> wf w n b -> Z.odd (uval w a) = true -> Z.odd (uval w b) = true ->
                 uval w a * uval w b < 2 ^ Z.of_nat (S f) -> Z.gcd (uval w a) (uval w b) * 2 ^ btz < Mod w n ->
                 uval w b <= uval w a ->
                 exists r, match U_sub dbg w a b with
                           | Panic => Some Panic
                           | Ret a1 => if is_zero a1 then fret (shl_internal w b btz)
                                       else gcd_loop f dbg w (shr_pad_internal w false a1 (trailing_zeros w a1)) b btz
                           end = Some (Ret r) /\ wf w n r /\ uval w r = Z.gcd (uval w a) (uval w b) * 2 ^ btz).
      { clear a b Ha Hb Hoa Hob Hprod Hfit. intros a b Ha Hb Hoa Hob Hprod Hfit Hle.
        pose proof (uval_bounds w n a ltac:(lia) Ha) as Hba. pose proof (uval_bounds w n b ltac:(lia) Hb) as Hbb.
        pose proof (odd_pos (uval w a) ltac:(lia) Hoa) as Ha1. pose proof (odd_pos (uval w b) ltac:(lia) Hob) as Hb1.
        destruct (dg_sub D dbg w n a b Hw Ha Hb Hle) as (a1 & Ea1 & Wa1 & Va1). rewrite Ea1.
        rewrite (is_zero_spec w n a1 ltac:(lia) Wa1), Va1.
        destruct (Z.eqb_spec (uval w a - uval w b) 0) as [E0|E0].
        - assert (Eab : uval w a = uval w b) by lia.
          rewrite Eab, Z.gcd_diag, Z.abs_eq in * by lia.
          destruct (dg_shl D w n b btz Hw Hb Hbtz) as (Ws & Vs).
          eexists. split; [reflexivity|]. split; [exact Ws|]. rewrite Vs. apply Z.mod_small.
          assert (0 < 2 ^ btz) by (apply Z.pow_pos_nonneg; lia). nia.
        - destruct (dg_tz D w n a1 Hw Wa1 ltac:(lia)) as (Htz & m & Hm & Hmo).
          set (t := trailing_zeros w a1) in *.
          destruct (dg_shr D w n a1 t Hw Wa1 Htz) as (Wa2 & Va2).
          assert (Hpt : 0 < 2 ^ t) by (apply Z.pow_pos_nonneg; lia).
          assert (Va2' : uval w (shr_pad_internal w false a1 t) = m).
          { rewrite Va2, Hm, Z.mul_comm, Z.div_mul by lia. reflexivity. }
          rewrite Va1 in Hm.
          destruct (gcd_step (uval w a) (uval w b) t m Hoa Hob ltac:(lia) ltac:(lia) ltac:(lia) Hm Hmo) as (Hm0 & Hg & Hhalf).
          destruct (IH (shr_pad_internal w false a1 t) b btz Wa2 Hb) as (r & Er & Wr & Vr).
          + rewrite Va2'. exact Hmo.
          + exact Hob.
          + rewrite Va2'. rewrite Nat2Z.inj_succ, Z.pow_succ_r in Hprod by lia. lia.
          + exact Hbtz.
          + rewrite Va2', Hg. exact Hfit.
          + exists r. split; [exact Er|]. split; [exact Wr|]. rewrite Vr, Va2', Hg. reflexivity. }
      cbn [gcd_loop]. rewrite (dg_ucmp D w n a b Hw Ha Hb).
      destruct (Z.compare_spec (uval w a) (uval w b)) as [E|E|E]; cbn [cmp_lt].
      + apply Hord; auto; lia.
      + rewrite (Z.gcd_comm (uval w a)).
        apply (Hord b a Hb Ha Hob Hoa); [rewrite Z.mul_comm; exact Hprod | rewrite Z.gcd_comm; exact Hfit | lia].
      + apply Hord; auto; lia.
  Qed.

  (* gcd_ok: the fuel 2*BITS+2 suffices and the result denotes Z.gcd *)
  Theorem TU_gcd_ok dbg w n a b : 0 < w -> wf w n a -> wf w n b ->
    exists r, TU_gcd dbg w a b = Some (Ret r) /\ wf w n r /\ uval w r = Z.gcd (uval w a) (uval w b).
  Proof.
    intros Hw Ha Hb.
    pose proof (uval_bounds w n a ltac:(lia) Ha) as Hba. pose proof (uval_bounds w n b ltac:(lia) Hb) as Hbb.
    unfold TU_gcd. rewrite (is_zero_spec w n a ltac:(lia) Ha), (is_zero_spec w n b ltac:(lia) Hb).
    destruct (Z.eqb_spec (uval w a) 0) as [Ea|Ea].
    { exists b. split; [reflexivity|]. split; [exact Hb|]. rewrite Ea, Z.gcd_0_l, Z.abs_eq by lia. reflexivity. }
    destruct (Z.eqb_spec (uval w b) 0) as [Eb|Eb].
    { exists a. split; [reflexivity|]. split; [exact Ha|]. rewrite Eb, Z.gcd_0_r, Z.abs_eq by lia. reflexivity. }
    destruct (dg_tz D w n a Hw Ha Ea) as (Hi & x & Hx & Hxo).
    destruct (dg_tz D w n b Hw Hb Eb) as (Hj & y & Hy & Hyo).
    set (i := trailing_zeros w a) in *. set (j := trailing_zeros w b) in *.
    destruct (dg_shr D w n a i Hw Ha Hi) as (Wa1 & Va1).
    destruct (dg_shr D w n b j Hw Hb Hj) as (Wb1 & Vb1).
    assert (Hpi : 0 < 2 ^ i) by (apply Z.pow_pos_nonneg; lia).
    assert (Hpj : 0 < 2 ^ j) by (apply Z.pow_pos_nonneg; lia).
    assert (Va1' : uval w (shr_pad_internal w false a i) = x).
    { rewrite Va1, Hx, Z.mul_comm, Z.div_mul by lia. reflexivity. }
    assert (Vb1' : uval w (shr_pad_internal w false b j) = y).
    { rewrite Vb1, Hy, Z.mul_comm, Z.div_mul by lia. reflexivity. }
    assert (Hx0 : 0 < x) by nia. assert (Hy0 : 0 < y) by nia.
    assert (Hg : Z.gcd (uval w a) (uval w b) = 2 ^ Z.min i j * Z.gcd x y).
    { rewrite Hx, Hy. apply gcd_split_pow2; auto; lia. }
    assert (Hgle : Z.gcd (uval w a) (uval w b) <= uval w a).
    { apply Z.divide_pos_le; [lia|apply Z.gcd_divide_l]. }
    assert (Hbtz : (let '(_, b_tz) := if i <? j then (j, i) else (i, j) in b_tz) = Z.min i j).
    { destruct (Z.ltb_spec i j); lia. }
    assert (Hgoal : forall btz, btz = Z.min i j ->
              exists r, gcd_loop (gcd_fuel w (length a)) dbg w (shr_pad_internal w false a i)
                          (shr_pad_internal w false b j) btz = Some (Ret r) /\ wf w n r /\
                        uval w r = Z.gcd (uval w a) (uval w b)).
    { intros btz ->. rewrite (wf_length _ _ _ Ha).
      destruct (gcd_loop_ok (gcd_fuel w n) dbg w n Hw _ _ (Z.min i j) Wa1 Wb1) as (r & Er & Wr & Vr).
      - rewrite Va1'. exact Hxo.
      - rewrite Vb1'. exact Hyo.
      - rewrite Va1', Vb1'. unfold gcd_fuel. rewrite Z2Nat.id by (unfold bits; nia).
        assert (x < Mod w n) by nia. assert (y < Mod w n) by nia.
        assert (HMM : Mod w n * Mod w n = 2 ^ (2 * bits w n)).
        { unfold Mod, bits. rewrite <- Z.pow_add_r by nia. f_equal. lia. }
        assert (2 ^ (2 * bits w n) <= 2 ^ (2 * bits w n + 2)) by (apply Z.pow_le_mono_r; unfold bits; nia).
        nia.
      - lia.
      - rewrite Va1', Vb1', Z.mul_comm, <- Hg. lia.
      - exists r. split; [exact Er|]. split; [exact Wr|]. rewrite Vr, Va1', Vb1', Z.mul_comm, <- Hg. reflexivity. }
    destruct (i <? j); apply Hgoal; lia.
  Qed.
End Gcd.

(* ================= lcm (unsigned), gcd / lcm (signed) ================= *)

Lemma lcm_nonneg_formula a b : 0 <= a -> 0 <= b -> Z.gcd a b <> 0 -> a / Z.gcd a b * b = Z.lcm a b.
Proof.
  intros Ha Hb Hg. unfold Z.lcm.
  destruct (Z.gcd_divide_l a b) as [x Hx]. destruct (Z.gcd_divide_r a b) as [y Hy].
  pose proof (Z.gcd_nonneg a b) as Hg0.
  set (g := Z.gcd a b) in *. clearbody g.
  assert (Hx0 : 0 <= x) by nia. assert (Hy0 : 0 <= y) by nia.
  subst a b. rewrite !Z.div_mul by exact Hg.
  rewrite Z.abs_eq by nia. ring.
Qed.

Section Lcm.
  Context (DG : deps_gcd) (DU : deps_udiv) (DM : U_mul_spec).

  Theorem TU_lcm_ok dbg w n a b : 0 < w -> wf w n a -> wf w n b ->
    Z.lcm (uval w a) (uval w b) < Mod w n ->
    exists r, TU_lcm dbg w a b = Some (Ret r) /\ wf w n r /\ uval w r = Z.lcm (uval w a) (uval w b).
  Proof.
    intros Hw Ha Hb Hfit.
    pose proof (uval_bounds w n a ltac:(lia) Ha) as Hba. pose proof (uval_bounds w n b ltac:(lia) Hb) as Hbb.
    unfold TU_lcm. rewrite (is_zero_spec w n a ltac:(lia) Ha), (is_zero_spec w n b ltac:(lia) Hb).
    destruct (Z.eqb_spec (uval w a) 0) as [Ea|Ea].
    { cbn [orb]. rewrite (wf_length _ _ _ Ha). exists (ZERO n). split; [reflexivity|]. split; [apply wf_ZERO; lia|].
      rewrite uval_ZERO, Ea, Z.lcm_0_l. reflexivity. }
    destruct (Z.eqb_spec (uval w b) 0) as [Eb|Eb].
    { cbn [orb]. rewrite (wf_length _ _ _ Ha). exists (ZERO n). split; [reflexivity|]. split; [apply wf_ZERO; lia|].
      rewrite uval_ZERO, Eb, Z.lcm_0_r. reflexivity. }
    cbn [orb].
    destruct (TU_gcd_ok DG dbg w n a b Hw Ha Hb) as (g & Eg & Wg & Vg). rewrite Eg. cbn [fbind].
    assert (Hg0 : uval w g <> 0).
    { rewrite Vg. intros E. apply Z.gcd_eq_0_l in E. contradiction. }
    unfold TU_div_floor. destruct (U_div_ok DU w n a g Hw Ha Wg Hg0) as (q & Eq & Wq & Vq). rewrite Eq. cbn [obind].
    assert (Hl : uval w q * uval w b = Z.lcm (uval w a) (uval w b)).
    { rewrite Vq, Vg. apply lcm_nonneg_formula; lia. }
    destruct (DM dbg w n q b Hw Wq Hb ltac:(lia)) as (r & Er & Wr & Vr).
    unfold flift. rewrite Er. exists r. split; [reflexivity|]. split; [exact Wr|]. lia.
  Qed.
End Lcm.

Section SignedGcd.
  Context (DG : deps_gcd) (DS : deps_signed).

  (* the signed gcd is the non-negative gcd whenever that is representable (it is not for
     gcd(MIN, MIN) = gcd(MIN, 0) = 2^(BITS-1)) *)
  Theorem TI_gcd_ok dbg w n a b : 0 < w -> (0 < n)%nat -> wf w n a -> wf w n b ->
    Z.gcd (sval w a) (sval w b) < Mod w n / 2 ->
    exists r, TI_gcd dbg w a b = Some (Ret r) /\ wf w n r /\ sval w r = Z.gcd (sval w a) (sval w b).
  Proof.
    intros Hw Hn Ha Hb Hrep.
    destruct (ds_uabs DS w n a Hw Hn Ha) as (Wa' & Va'). destruct (ds_uabs DS w n b Hw Hn Hb) as (Wb' & Vb').
    unfold TI_gcd.
    destruct (TU_gcd_ok DG dbg w n _ _ Hw Wa' Wb') as (g & Eg & Wg & Vg). rewrite Eg. cbn [fbind].
    rewrite Va', Vb', Z.gcd_abs_l, Z.gcd_abs_r in Vg.
    pose proof (Z.gcd_nonneg (sval w a) (sval w b)) as Hg0.
    pose proof (Mod_half_pos w n Hw Hn) as HH.
    assert (Sg : sval w g = Z.gcd (sval w a) (sval w b)).
    { rewrite (sval_of_small w n g Hw Hn Wg); lia. }
    destruct (ds_abs DS dbg w n g Hw Hn Wg ltac:(lia)) as (r & Er & Wr & Vr).
    unfold flift. rewrite Er. exists r. split; [reflexivity|]. split; [exact Wr|]. rewrite Vr, Sg. apply Z.abs_eq. exact Hg0.
  Qed.
End SignedGcd.

Lemma sval_zero_iff w n a : 0 < w -> (0 < n)%nat -> wf w n a -> sval w a = 0 <-> uval w a = 0.
Proof.
  intros Hw Hn Ha. pose proof (uval_bounds w n a ltac:(lia) Ha) as Hb. pose proof (Mod_half_pos w n Hw Hn) as HH.
  pose proof (Mod_even w n Hw Hn) as He.
  unfold sval, to_signed. rewrite (wf_length _ _ _ Ha). destruct (Z.ltb_spec (uval w a) (Mod w n / 2)); lia.
Qed.

Lemma lcm_formula a b : Z.gcd a b <> 0 -> Z.abs (a / Z.gcd a b * b) = Z.lcm a b.
Proof.
  intros Hg. unfold Z.lcm.
  destruct (Z.gcd_divide_l a b) as [x Hx]. destruct (Z.gcd_divide_r a b) as [y Hy].
  set (g := Z.gcd a b) in *. clearbody g.
  subst a b. rewrite !Z.div_mul by exact Hg. f_equal. ring.
Qed.

Section SignedLcm.
  Context (DG : deps_gcd) (DS : deps_signed) (DF : deps_floor) (DM : I_mul_spec).

  Theorem TI_lcm_ok dbg w n a b : 0 < w -> (0 < n)%nat -> wf w n a -> wf w n b ->
    Z.lcm (sval w a) (sval w b) < Mod w n / 2 ->
    exists r, TI_lcm dbg w a b = Some (Ret r) /\ wf w n r /\ sval w r = Z.lcm (sval w a) (sval w b).
  Proof.
    intros Hw Hn Ha Hb Hfit.
    pose proof (Mod_half_pos w n Hw Hn) as HH.
    pose proof (sval_range w n a Hw Hn Ha) as Hra. pose proof (sval_range w n b Hw Hn Hb) as Hrb.
    unfold TI_lcm. rewrite (is_zero_spec w n a ltac:(lia) Ha), (is_zero_spec w n b ltac:(lia) Hb).
    assert (Hz : sval w (ZERO n) = 0).
    { rewrite (sval_of_small w n); try assumption; [apply uval_ZERO|apply wf_ZERO; lia|rewrite uval_ZERO; lia]. }
    destruct (Z.eqb_spec (uval w a) 0) as [Ea|Ea].
    { cbn [orb]. rewrite (wf_length _ _ _ Ha). exists (ZERO n). split; [reflexivity|]. split; [apply wf_ZERO; lia|].
      rewrite (proj2 (sval_zero_iff w n a Hw Hn Ha) Ea), Z.lcm_0_l. exact Hz. }
    destruct (Z.eqb_spec (uval w b) 0) as [Eb|Eb].
    { cbn [orb]. rewrite (wf_length _ _ _ Ha). exists (ZERO n). split; [reflexivity|]. split; [apply wf_ZERO; lia|].
      rewrite (proj2 (sval_zero_iff w n b Hw Hn Hb) Eb), Z.lcm_0_r. exact Hz. }
    cbn [orb].
    assert (Sa : sval w a <> 0) by (rewrite (sval_zero_iff w n a Hw Hn Ha); exact Ea).
    assert (Sb : sval w b <> 0) by (rewrite (sval_zero_iff w n b Hw Hn Hb); exact Eb).
    set (g0 := Z.gcd (sval w a) (sval w b)).
    assert (Hg0 : 0 < g0).
    { pose proof (Z.gcd_nonneg (sval w a) (sval w b)). unfold g0.
      destruct (Z.eq_dec (Z.gcd (sval w a) (sval w b)) 0) as [E|]; [apply Z.gcd_eq_0_l in E; contradiction|lia]. }
    pose proof (lcm_formula (sval w a) (sval w b) ltac:(fold g0; lia)) as Hlf. fold g0 in Hlf.
    (* the gcd divides the lcm, which is positive, so it is representable too *)
    assert (Hgl : g0 <= Z.lcm (sval w a) (sval w b)).
    { apply Z.divide_pos_le.
      - pose proof (Z.lcm_nonneg (sval w a) (sval w b)).
        destruct (Z.eq_dec (Z.lcm (sval w a) (sval w b)) 0) as [E|]; [|lia].
        apply Z.lcm_eq_0 in E. tauto.
      - apply Z.divide_trans with (sval w a); [apply Z.gcd_divide_l|apply Z.divide_lcm_l]. }
    destruct (TI_gcd_ok DG DS dbg w n a b Hw Hn Ha Hb ltac:(fold g0; lia)) as (g & Eg & Wg & Vg).
    fold g0 in Vg. rewrite Eg. cbn [fbind].
    destruct (TI_floor_ok DF dbg w n a g Hw Hn Ha Wg ltac:(lia) ltac:(lia)) as ((q & Eq & Wq & Vq) & _).
    rewrite Eq. cbn [obind]. rewrite Vg in Vq.
    destruct (DM dbg w n q b Hw Hn Wq Hb) as (p & Ep & Wp & Vp).
    { rewrite Vq. lia. }
    rewrite Ep. cbn [obind].
    destruct (ds_abs DS dbg w n p Hw Hn Wp) as (r & Er & Wr & Vr).
    { rewrite Vp, Vq. lia. }
    unfold flift. rewrite Er. exists r. split; [reflexivity|]. split; [exact Wr|].
    rewrite Vr, Vp, Vq. exact Hlf.
  Qed.
End SignedLcm.
